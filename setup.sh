#!/bin/sh
# Builds everything from files on disk: Coq project (.vo, full build) and the extracted drivers.
cd "$(dirname "$0")"
export PYTHONPATH=/repo:/verif/harness PYTHONHASHSEED=0 PYTHONDONTWRITEBYTECODE=1
sh coq/mk_project.sh
mkdir -p evidence && { echo "== ExtrOcamlBasic.v"; grep -n "^Extract\|^Extraction" /usr/lib/ocaml/coq/theories/extraction/ExtrOcamlBasic.v; echo "== ExtrOcamlZBigInt.v"; sed -n "/^Extract/,\$p" /usr/lib/ocaml/coq/theories/extraction/ExtrOcamlZBigInt.v; } > evidence/extraction_directives.txt 2>/dev/null
for g in harness/gen_coq*.py; do [ -f "$g" ] && { /venv/bin/python "$g" || echo "setup: $g failed"; }; done; sh coq/mk_project.sh
(cd coq && ulimit -v 25165824 2>/dev/null; timeout 7000 make -j16 -k) || echo "setup: coq make reported errors (checks will report them per property)"
/venv/bin/python - <<'PY'
import os, sys, glob
sys.path.insert(0, "/verif/harness")
from vp import build
from concurrent.futures import ThreadPoolExecutor
pids = sorted(os.path.basename(p)[1:-2] for p in glob.glob("/verif/coq/Extract/X*.v"))
def one(p):
    try:
        build.build_driver(p); return p, "ok"
    except Exception as e:
        return p, "FAILED " + str(e)[-300:]
with ThreadPoolExecutor(8) as ex:
    for p, r in ex.map(one, pids):
        print("driver", p, r)
PY
