#!/bin/sh
# regenerates _CoqProject from the files present (Generated/ included) and the Makefile
cd "$(dirname "$0")"
{ echo "-Q . V"; echo "-arg -w -arg -notation-overridden,-deprecated-hint-without-locality,-deprecated-instance-without-locality"; find Base Model Spec Proofs Props Dispatch Generated -name '*.v' 2>/dev/null | sort; } > _CoqProject.new
if ! cmp -s _CoqProject.new _CoqProject 2>/dev/null; then mv _CoqProject.new _CoqProject; coq_makefile -f _CoqProject -o Makefile >/dev/null; else rm _CoqProject.new; fi
[ -f Makefile ] || coq_makefile -f _CoqProject -o Makefile >/dev/null
