(* Props/C10.v — PSBT codec and signing workflow.
   Statements only; every proof is [exact]/[apply] of lemmas from Proofs/Psbt*.v.
   Hash functions, ECDSA verification, SEC/DER parsing, the signature hashes, script
   evaluation of a finalised input and BIP32 descent are universally quantified functions. *)
From Coq Require Import Permutation.
From V Require Import Base.Prelude Base.Ints Model.Helper Model.Script Model.Tx Model.Psbt
  Proofs.HelperP Proofs.PsbtDictP Proofs.PsbtKvP Proofs.PsbtCombineP Proofs.PsbtFinalP
  Proofs.PsbtCodecP Proofs.PsbtWholeP.

(* ------------------------------------------------------------------ *)
(* (1) the generic key-value map layer *)

Theorem C10_kv_map_roundtrip : forall m : dict bytes,
  dsorted m ->                                        (* distinct keys, in the serialiser's order *)
  Forall (fun e => fst e <> [] /\ zlen (fst e) < 9223372036854775808
                   /\ zlen (snd e) < 9223372036854775808) m ->
  exists b, kv_serialize m = Ok b /\ forall rest, kv_parse (b ++ rest) = Ok (m, rest).
Proof. exact kv_map_roundtrip. Qed.
Print Assumptions C10_kv_map_roundtrip.

Theorem C10_kv_duplicate_rejected : forall (m : dict bytes) k v v' b e tail,
  dsorted m ->
  Forall (fun e => fst e <> [] /\ zlen (fst e) < 9223372036854775808
                   /\ zlen (snd e) < 9223372036854775808) m ->
  dget m k = Some v -> v <> [] ->
  zlen k < 9223372036854775808 -> zlen v' < 9223372036854775808 ->
  concat_res (map (fun e => kv (fst e) (snd e)) m) = Ok b -> kv k v' = Ok e ->
  kv_parse (b ++ e ++ tail) = Err.
Proof.
  intros m k v v' b e tail Hs Hok Hg Hv Hk Hv' Hb He.
  exact (kv_duplicate_rejected m k v v' Hs Hok Hg Hv Hk Hv' b e Hb He tail).
Qed.
Print Assumptions C10_kv_duplicate_rejected.

(* the duplicate test is `if extra_map.get(key)`: a duplicate whose FIRST value is empty is
   not detected (the later value silently wins) *)
Example kv_duplicate_after_empty_value_accepted :
  kv_parse [1; 7; 0;  1; 7; 1; 9;  0] = Ok ([([7], [9])], []).
Proof. vm_compute. reflexivity. Qed.

Example kv_roundtrip_instance :
  kv_serialize [([7], [9; 9]); ([7; 1], []); ([252; 5], [1])] = Ok [1;7;2;9;9; 2;7;1;0; 2;252;5;1;1; 0]
  /\ dsorted [([7], [9; 9]); ([7; 1], @nil Z); ([252; 5], [1])].
Proof. split; [vm_compute; reflexivity|]. repeat constructor. Qed.

(* ------------------------------------------------------------------ *)
(* (3) the embedded unsigned transaction *)

Theorem C10_unsigned_tx_is_legacy_empty_sigs :
  forall hash160 sha256 hash256 sig_parse_ok ecdsa_verify sighash_legacy sighash_segwit verify_input
         descends (p : psbt),
  (forall b, psbt_serialize p = Ok b ->
     exists t e rest, serialize_legacy (p_tx p) = Ok t /\ kv [0] t = Ok e /\ b = magic ++ e ++ rest) /\
  (validate hash160 sha256 hash256 sig_parse_ok ecdsa_verify sighash_legacy sighash_segwit
            verify_input descends p = Ok tt ->
   Forall (fun ti => s_cmds (i_script ti) = []) (t_ins (p_tx p))).
Proof.
  intros. split.
  - intros b. exact (serialize_embeds_legacy p b).
  - apply validate_script_sigs_empty.
Qed.
Print Assumptions C10_unsigned_tx_is_legacy_empty_sigs.

(* ------------------------------------------------------------------ *)
(* (4) combiner algebra and order independence.
   [good]: every dictionary is a sorted association list and no optional field holds a value
   Python treats as false (hash type 0, empty witness) — such values are never written by the
   serialiser either.  [compat a b]: same unsigned transaction, same number of maps, and the two
   PSBTs agree wherever both define a field or a dictionary key (deterministic signatures). *)

Theorem C10_combine_comm_assoc_idem : forall a b c : psbt,
  good a -> good b -> good c -> compat a b -> compat b c ->
  comb a b = comb b a /\
  comb (comb a b) c = comb a (comb b c) /\
  comb a a = a /\
  psbt_serialize (comb a b) = psbt_serialize (comb b a) /\
  psbt_serialize (comb (comb a b) c) = psbt_serialize (comb a (comb b c)).
Proof.
  intros a b c Ga Gb Gc Cab Cbc.
  pose proof (comb_comm a b Ga Gb Cab) as H1.
  pose proof (comb_assoc a b c Ga Gb Gc Cab Cbc) as H2.
  repeat split; try assumption; try (now apply comb_idem); congruence.
Qed.
Print Assumptions C10_combine_comm_assoc_idem.

(* PSBT.combine (with its transaction-id check) is [comb] on PSBTs over one transaction *)
Theorem C10_combine_is_comb : forall hash256 a b h,
  p_tx a = p_tx b -> tx_hash hash256 (p_tx a) = Ok h -> combine hash256 a b = Ok (comb a b).
Proof. exact combine_same_tx. Qed.
Print Assumptions C10_combine_is_comb.

Theorem C10_workflow_order_independent : forall (base : psbt) (l l' : list psbt),
  Permutation l l' ->
  family (base :: l) ->          (* all [good], pairwise [compat] *)
  fold_left comb l base = fold_left comb l' base /\
  psbt_serialize (fold_left comb l base) = psbt_serialize (fold_left comb l' base).
Proof.
  intros base l l' P F. pose proof (fold_comb_perm l l' P base F) as H. split; congruence.
Qed.
Print Assumptions C10_workflow_order_independent.

(* ------------------------------------------------------------------ *)
(* (5) finaliser: per script type, what a successful finalize has checked and emitted.
   [multisig_emit cs sigs got]: the threshold m is the first command of the script, m <= number of
   partial signatures, and for m >= 1 at least m signatures BY KEYS OF THE SCRIPT were present and
   [got] is exactly the first m of them in script key order. *)

Theorem C10_finalize_threshold : forall st ti st',
  in_finalize st ti = Ok st' -> finalize_spec st ti st'.
Proof. exact in_finalize_spec. Qed.
Print Assumptions C10_finalize_threshold.

Theorem C10_finalize_multisig_exact : forall cs sigs got,
  multisig_emit cs sigs got ->
  exists c0 r m, cs = c0 :: r /\ op_code_to_number c0 = Ok m /\
    (1 <= m -> m <= zlen (script_sigs cs sigs) /\ zlen got = m /\
               got = firstn (Z.to_nat m) (script_sigs cs sigs)).
Proof.
  intros cs sigs got (c0 & r & m & E & Hm & _ & H). exists c0, r, m. repeat split; try assumption;
    destruct (H H0) as (A & B & C); assumption.
Qed.
Print Assumptions C10_finalize_multisig_exact.

(* ------------------------------------------------------------------ *)
(* (6) partial signatures are verified whenever a PSBT is validated / loaded *)

Theorem C10_validate_rejects_bad_partial_sig :
  forall hash160 sha256 hash256 sec_ok sig_parse_ok ecdsa_verify sighash_legacy sighash_segwit
         verify_input descends (p : psbt) j st ti sec sg sw z,
  nth_error (p_ins p) j = Some st -> nth_error (t_ins (p_tx p)) j = Some ti ->
  In (sec, sg) (pi_sigs st) ->
  sig_mode st ti = Ok (Some sw) ->                 (* a UTXO is attached: the signature is checked *)
  (if sw then sighash_segwit (p_tx p) (Z.of_nat j) (pi_redeem st) (pi_wscript st)
   else sighash_legacy (p_tx p) (Z.of_nat j) (pi_redeem st)) = Ok z ->
  ecdsa_verify sec z (drop_last sg) = false ->
  validate hash160 sha256 hash256 sig_parse_ok ecdsa_verify sighash_legacy sighash_segwit
           verify_input descends p <> Ok tt /\
  forall s n, psbt_parse hash160 sha256 hash256 sec_ok sig_parse_ok ecdsa_verify sighash_legacy
                sighash_segwit verify_input descends s <> Ok (p, n).
Proof.
  intros h160 s256 h256 sec_ok spo ev shl shs vi de p j st ti sec sg sw z Hs Ht Hin Hm Hz Hbad.
  assert (V : validate h160 s256 h256 spo ev shl shs vi de p <> Ok tt).
  { intros V. pose proof (validate_sigs h160 s256 h256 spo ev shl shs vi de p V j st ti Hs Ht _ Hin) as C.
    apply sig_check_verified in C as [_ C]. destruct (C sw Hm) as [z' [Hz' Hv]].
    rewrite Hz in Hz'. inversion Hz'; subst. congruence. }
  split; [exact V|]. intros s n P. apply V. eapply psbt_parse_validated; exact P.
Qed.
Print Assumptions C10_validate_rejects_bad_partial_sig.

(* ------------------------------------------------------------------ *)
(* non-vacuity: concrete instances *)

Definition ex_ws : script :=
  mk_script [Op 82; Push [2; 1]; Push [2; 2]; Push [2; 3]; Op 83; Op 174].      (* 2-of-3 *)
Definition ex_in (sigs : dict bytes) : psbt_in :=
  {| pi_prev_tx := None;
     pi_prev_out := Some {| o_amount := 5; o_script := mk_script [Op 0; Push (repeatz 9 32)] |};
     pi_sigs := sigs; pi_hash_type := None; pi_redeem := None; pi_wscript := Some ex_ws;
     pi_named := []; pi_script_sig := None; pi_witness := None; pi_extra := [] |}.
Definition ex_ti : txin :=
  {| i_prev_tx := repeatz 1 32; i_prev_index := 0; i_script := mk_script []; i_sequence := 0;
     i_witness := [] |}.

(* two signatures, one of them by the third key: emitted in script order *)
Example finalize_two_of_three :
  option_map pi_witness
    (match in_finalize (ex_in [([2; 1], [48; 1]); ([2; 3], [48; 3])]) ex_ti with Ok s => Some s | Err => None end)
  = Some (Some [[]; [48; 1]; [48; 3]; [82; 2;2;1; 2;2;2; 2;2;3; 83; 174]]).
Proof. vm_compute. reflexivity. Qed.

(* one signature by a script key plus one by a foreign key: refused *)
Example finalize_foreign_key_refused :
  in_finalize (ex_in [([2; 1], [48; 1]); ([2; 9], [48; 9])]) ex_ti = Err.
Proof. vm_compute. reflexivity. Qed.

Definition ex_psbt (sigs : dict bytes) : psbt :=
  {| p_tx := {| t_version := 2; t_ins := [ex_ti]; t_outs := []; t_locktime := 0; t_segwit := false |};
     p_ins := [ex_in sigs]; p_outs := []; p_hd := []; p_extra := [([252; 1], [7])] |}.

Lemma ex_good sigs : dsorted sigs -> good (ex_psbt sigs).
Proof.
  intros H. constructor; cbn; try (repeat constructor; fail).
  constructor; [|constructor]. constructor; cbn; try (repeat constructor; fail); try exact H; discriminate.
Qed.
Print Assumptions ex_good.

(* the hypotheses of the order-independence theorem are satisfiable by three signers holding
   different keys *)
Example family_instance :
  family [ex_psbt []; ex_psbt [([2; 1], [48; 1])]; ex_psbt [([2; 2], [48; 2])]; ex_psbt [([2; 3], [48; 3])]].
Proof.
  split.
  - intros x [<-|[<-|[<-|[<-|[]]]]]; apply ex_good; repeat constructor.
  - intros x y Hx Hy.
    assert (E : forall s1 s2, agree s1 s2 -> compat (ex_psbt s1) (ex_psbt s2)).
    { intros s1 s2 A. constructor; cbn; try reflexivity; try apply agree_refl.
      - constructor; [|constructor]. constructor; cbn; try apply oagree_refl; try apply agree_refl. exact A.
      - constructor. }
    destruct Hx as [<-|[<-|[<-|[<-|[]]]]]; destruct Hy as [<-|[<-|[<-|[<-|[]]]]]; apply E;
      intros k va vb H1 H2; cbn in H1, H2;
      repeat match type of H1 with context [bcmp ?a ?b] => destruct (bcmp a b) eqn:?; try discriminate end;
      repeat match type of H2 with context [bcmp ?a ?b] => destruct (bcmp a b) eqn:?; try discriminate end;
      try congruence;
      repeat match goal with H : bcmp _ _ = Eq |- _ => apply bcmp_eq in H; subst end; try discriminate; congruence.
Qed.

(* ------------------------------------------------------------------ *)
(* (2) the codec is lossless on canonical PSBTs.
   [canonical sec_ok N p] (Proofs/PsbtWholeP.v, PsbtCodecP.v) says that p is exactly what the
   serialiser can express: dictionaries sorted; unknown keys carry an unknown type byte and are
   non-empty; every embedded transaction / script / witness is reproduced by its own codec
   ([tx_exact], [script_exact], ... — discharged by the C04 round-trip theorems for well-formed
   values); derivation records have valid 33-byte keys; no field holds a value the serialiser
   skips (hash type 0, empty final witness, a witness UTXO next to a non-witness UTXO, partial
   signatures that the script order does not list exactly once); global xpubs carry the version
   bytes of the network N, and EVERY derivation path of the PSBT names that one network N
   (without this hypothesis the statement is false: known finding K-C10-xpub-network-order). *)

Theorem C10_psbt_parse_serialize :
  forall hash160 sha256 hash256 sec_ok sig_parse_ok ecdsa_verify sighash_legacy sighash_segwit
         verify_input descends N (p : psbt) b,
  canonical sec_ok N p ->
  validate hash160 sha256 hash256 sig_parse_ok ecdsa_verify sighash_legacy sighash_segwit
           verify_input descends p = Ok tt ->
  psbt_serialize p = Ok b ->
  exists o, psbt_parse hash160 sha256 hash256 sec_ok sig_parse_ok ecdsa_verify sighash_legacy
                       sighash_segwit verify_input descends b = Ok (p, o).
Proof. intros. eapply psbt_parse_serialize; eassumption. Qed.
Print Assumptions C10_psbt_parse_serialize.

Theorem C10_psbt_reserialize_idempotent :
  forall hash160 sha256 hash256 sec_ok sig_parse_ok ecdsa_verify sighash_legacy sighash_segwit
         verify_input descends N (p : psbt) b,
  canonical sec_ok N p ->
  validate hash160 sha256 hash256 sig_parse_ok ecdsa_verify sighash_legacy sighash_segwit
           verify_input descends p = Ok tt ->
  psbt_serialize p = Ok b ->
  exists p' o, psbt_parse hash160 sha256 hash256 sec_ok sig_parse_ok ecdsa_verify sighash_legacy
                          sighash_segwit verify_input descends b = Ok (p', o) /\
               psbt_serialize p' = Ok b.
Proof. intros. eapply psbt_reserialize_idempotent; eassumption. Qed.
Print Assumptions C10_psbt_reserialize_idempotent.

(* the single maps, for any trailing bytes *)
Theorem C10_input_map_roundtrip : forall sec_ok net ti st b rest,
  canon_in sec_ok net ti st -> in_serialize st = Ok b ->
  in_loop sec_ok (S (length (b ++ rest))) net ti (b ++ rest) empty_in = Ok (st, rest).
Proof. intros. eapply in_loop_roundtrip; eauto. Qed.
Print Assumptions C10_input_map_roundtrip.

Theorem C10_output_map_roundtrip : forall sec_ok net st b rest,
  canon_out sec_ok net st -> out_serialize st = Ok b ->
  out_loop sec_ok (S (length (b ++ rest))) net (b ++ rest) empty_out = Ok (st, rest).
Proof. intros. eapply out_loop_roundtrip; eauto. Qed.
Print Assumptions C10_output_map_roundtrip.

(* non-vacuity of (2): a concrete canonical PSBT (one input without UTXO, an unknown global entry);
   its unsigned transaction is exact by the C04 round-trip theorem *)
From V Require Proofs.TxP Spec.TxWf.

Definition ex_tx0 : tx :=
  {| t_version := 2; t_ins := [ex_ti]; t_outs := []; t_locktime := 0; t_segwit := false |}.
Definition ex_p0 : psbt :=
  {| p_tx := ex_tx0; p_ins := [empty_in]; p_outs := []; p_hd := []; p_extra := [([252; 1], [7])] |}.

Lemma ex_legacy_exact : legacy_exact ex_tx0.
Proof.
  destruct (TxP.legacy_roundtrip ex_tx0) as [b [Hb Hp]]; [vm_compute; reflexivity|].
  exists b. split; [exact Hb|]. split.
  - vm_compute in Hb. inversion Hb; subst. vm_compute. reflexivity.
  - intros rest. rewrite Hp. reflexivity.
Qed.
Print Assumptions ex_legacy_exact.

Lemma ex_canonical sec_ok : canonical sec_ok Mainnet ex_p0.
Proof.
  constructor.
  - constructor; cbn; try (repeat constructor; fail).
    + exact ex_legacy_exact.
    + constructor; [|constructor]. cbn. repeat split; try discriminate; vm_compute; reflexivity.
  - constructor; [|constructor]. split; [|constructor].
    intros o _. constructor; cbn; try (repeat constructor; fail); try discriminate; try reflexivity.
  - constructor.
Qed.
Print Assumptions ex_canonical.

Example psbt_roundtrip_instance :
  forall hash160 sha256 hash256 sec_ok sig_parse_ok ecdsa_verify sighash_legacy sighash_segwit
         verify_input descends,
  exists b o, psbt_serialize ex_p0 = Ok b /\
    psbt_parse hash160 sha256 hash256 sec_ok sig_parse_ok ecdsa_verify sighash_legacy
               sighash_segwit verify_input descends b = Ok (ex_p0, o).
Proof.
  intros. destruct (psbt_serialize ex_p0) as [b|] eqn:E; [|vm_compute in E; discriminate].
  exists b.
  destruct (psbt_parse_serialize hash160 sha256 hash256 sec_ok sig_parse_ok ecdsa_verify sighash_legacy
              sighash_segwit verify_input descends Mainnet ex_p0 b (ex_canonical sec_ok) eq_refl E) as [o H].
  exists o. auto.
Qed.

(* The constants written in the model are the constants of the SOURCE: coq/Generated/SrcConsts.v is regenerated
   from /repo/buidl/*.py by harness/gen_coq_consts.py on every run; the statements are spelled out in
   Proofs/ConstsTie.v (psbt_magic_is_source_stmt). *)
From V Require Proofs.ConstsTie.
Theorem C10_constants_match_source : ConstsTie.psbt_magic_is_source_stmt.
Proof. exact ConstsTie.psbt_magic_is_source. Qed.
Print Assumptions C10_constants_match_source.
