(* Props/C10.v — PSBT codec and signing workflow.
   Statements only; every proof is [exact]/[apply] of lemmas from Proofs/Psbt*.v.
   Hash functions, ECDSA verification, SEC/DER parsing, the signature hashes, script
   evaluation of a finalised input and BIP32 descent are universally quantified functions. *)
From Coq Require Import Permutation.
From V Require Import Base.Prelude Base.Ints Model.Helper Model.Script Model.Tx Model.Psbt
  Proofs.HelperP Proofs.PsbtDictP Proofs.PsbtKvP Proofs.PsbtCombineP Proofs.PsbtFinalP
  Proofs.PsbtCodecP Proofs.PsbtWholeP.

(* ------------------------------------------------------------------ *)
(* (1) the generic key-value map layer *)

Theorem C10_kv_map_roundtrip : forall m : dict bytes,
  dsorted m ->                                        (* distinct keys, in the serialiser's order *)
  Forall (fun e => fst e <> [] /\ zlen (fst e) < 9223372036854775808
                   /\ zlen (snd e) < 9223372036854775808) m ->
  exists b, kv_serialize m = Ok b /\ forall rest, kv_parse (b ++ rest) = Ok (m, rest).
Proof. exact kv_map_roundtrip. Qed.
Print Assumptions C10_kv_map_roundtrip.

Theorem C10_kv_duplicate_rejected : forall (m : dict bytes) k v v' b e tail,
  dsorted m ->
  Forall (fun e => fst e <> [] /\ zlen (fst e) < 9223372036854775808
                   /\ zlen (snd e) < 9223372036854775808) m ->
  dget m k = Some v -> v <> [] ->
  zlen k < 9223372036854775808 -> zlen v' < 9223372036854775808 ->
  concat_res (map (fun e => kv (fst e) (snd e)) m) = Ok b -> kv k v' = Ok e ->
  kv_parse (b ++ e ++ tail) = Err.
Proof.
  intros m k v v' b e tail Hs Hok Hg Hv Hk Hv' Hb He.
  exact (kv_duplicate_rejected m k v v' Hs Hok Hg Hv Hk Hv' b e Hb He tail).
Qed.
Print Assumptions C10_kv_duplicate_rejected.

(* the duplicate test is `if extra_map.get(key)`: a duplicate whose FIRST value is empty is
   not detected (the later value silently wins) *)
Example kv_duplicate_after_empty_value_accepted :
  kv_parse [1; 7; 0;  1; 7; 1; 9;  0] = Ok ([([7], [9])], []).
Proof. vm_compute. reflexivity. Qed.

Example kv_roundtrip_instance :
  kv_serialize [([7], [9; 9]); ([7; 1], []); ([252; 5], [1])] = Ok [1;7;2;9;9; 2;7;1;0; 2;252;5;1;1; 0]
  /\ dsorted [([7], [9; 9]); ([7; 1], @nil Z); ([252; 5], [1])].
Proof. split; [vm_compute; reflexivity|]. repeat constructor. Qed.

(* ------------------------------------------------------------------ *)
(* (3) the embedded unsigned transaction *)

Theorem C10_unsigned_tx_is_legacy_empty_sigs :
  forall hash160 sha256 hash256 sig_parse_ok ecdsa_verify sighash_legacy sighash_segwit verify_input
         descends (p : psbt),
  (forall b, psbt_serialize p = Ok b ->
     exists t e rest, serialize_legacy (p_tx p) = Ok t /\ kv [0] t = Ok e /\ b = magic ++ e ++ rest) /\
  (validate hash160 sha256 hash256 sig_parse_ok ecdsa_verify sighash_legacy sighash_segwit
            verify_input descends p = Ok tt ->
   Forall (fun ti => s_cmds (i_script ti) = []) (t_ins (p_tx p))).
Proof.
  intros. split.
  - intros b. exact (serialize_embeds_legacy p b).
  - apply validate_script_sigs_empty.
Qed.
Print Assumptions C10_unsigned_tx_is_legacy_empty_sigs.

(* ------------------------------------------------------------------ *)
(* (4) combiner algebra and order independence.
   [good]: every dictionary is a sorted association list and no optional field holds a value
   Python treats as false (hash type 0, empty witness) — such values are never written by the
   serialiser either.  [compat a b]: same unsigned transaction, same number of maps, and the two
   PSBTs agree wherever both define a field or a dictionary key (deterministic signatures). *)

Theorem C10_combine_comm_assoc_idem : forall a b c : psbt,
  good a -> good b -> good c -> compat a b -> compat b c ->
  comb a b = comb b a /\
  comb (comb a b) c = comb a (comb b c) /\
  comb a a = a /\
  psbt_serialize (comb a b) = psbt_serialize (comb b a) /\
  psbt_serialize (comb (comb a b) c) = psbt_serialize (comb a (comb b c)).
Proof.
  intros a b c Ga Gb Gc Cab Cbc.
  pose proof (comb_comm a b Ga Gb Cab) as H1.
  pose proof (comb_assoc a b c Ga Gb Gc Cab Cbc) as H2.
  repeat split; try assumption; try (now apply comb_idem); congruence.
Qed.
Print Assumptions C10_combine_comm_assoc_idem.

(* PSBT.combine (with its transaction-id check) is [comb] on PSBTs over one transaction *)
Theorem C10_combine_is_comb : forall hash256 a b h,
  p_tx a = p_tx b -> tx_hash hash256 (p_tx a) = Ok h -> combine hash256 a b = Ok (comb a b).
Proof. exact combine_same_tx. Qed.
Print Assumptions C10_combine_is_comb.

Theorem C10_workflow_order_independent : forall (base : psbt) (l l' : list psbt),
  Permutation l l' ->
  family (base :: l) ->          (* all [good], pairwise [compat] *)
  fold_left comb l base = fold_left comb l' base /\
  psbt_serialize (fold_left comb l base) = psbt_serialize (fold_left comb l' base).
Proof.
  intros base l l' P F. pose proof (fold_comb_perm l l' P base F) as H. split; congruence.
Qed.
Print Assumptions C10_workflow_order_independent.

(* ------------------------------------------------------------------ *)
(* (5) finaliser: per script type, what a successful finalize has checked and emitted.
   [multisig_emit cs sigs got]: the threshold m is the first command of the script, m <= number of
   partial signatures, and for m >= 1 at least m signatures BY KEYS OF THE SCRIPT were present and
   [got] is exactly the first m of them in script key order. *)

Theorem C10_finalize_threshold : forall st ti st',
  in_finalize st ti = Ok st' -> finalize_spec st ti st'.
Proof. exact in_finalize_spec. Qed.
Print Assumptions C10_finalize_threshold.

Theorem C10_finalize_multisig_exact : forall cs sigs got,
  multisig_emit cs sigs got ->
  exists c0 r m, cs = c0 :: r /\ op_code_to_number c0 = Ok m /\
    (1 <= m -> m <= zlen (script_sigs cs sigs) /\ zlen got = m /\
               got = firstn (Z.to_nat m) (script_sigs cs sigs)).
Proof.
  intros cs sigs got (c0 & r & m & E & Hm & _ & H). exists c0, r, m. repeat split; try assumption;
    destruct (H H0) as (A & B & C); assumption.
Qed.
Print Assumptions C10_finalize_multisig_exact.

(* ------------------------------------------------------------------ *)
(* (6) partial signatures are verified whenever a PSBT is validated / loaded *)

Theorem C10_validate_rejects_bad_partial_sig :
  forall hash160 sha256 hash256 sec_ok sig_parse_ok ecdsa_verify sighash_legacy sighash_segwit
         verify_input descends (p : psbt) j st ti sec sg sw z,
  nth_error (p_ins p) j = Some st -> nth_error (t_ins (p_tx p)) j = Some ti ->
  In (sec, sg) (pi_sigs st) ->
  sig_mode st ti = Ok (Some sw) ->                 (* a UTXO is attached: the signature is checked *)
  (if sw then sighash_segwit (p_tx p) (Z.of_nat j) (pi_redeem st) (pi_wscript st)
   else sighash_legacy (p_tx p) (Z.of_nat j) (pi_redeem st)) = Ok z ->
  ecdsa_verify sec z (drop_last sg) = false ->
  validate hash160 sha256 hash256 sig_parse_ok ecdsa_verify sighash_legacy sighash_segwit
           verify_input descends p <> Ok tt /\
  forall s n, psbt_parse hash160 sha256 hash256 sec_ok sig_parse_ok ecdsa_verify sighash_legacy
                sighash_segwit verify_input descends s <> Ok (p, n).
Proof.
  intros h160 s256 h256 sec_ok spo ev shl shs vi de p j st ti sec sg sw z Hs Ht Hin Hm Hz Hbad.
  assert (V : validate h160 s256 h256 spo ev shl shs vi de p <> Ok tt).
  { intros V. pose proof (validate_sigs h160 s256 h256 spo ev shl shs vi de p V j st ti Hs Ht _ Hin) as C.
    apply sig_check_verified in C as [_ C]. destruct (C sw Hm) as [z' [Hz' Hv]].
    rewrite Hz in Hz'. inversion Hz'; subst. congruence. }
  split; [exact V|]. intros s n P. apply V. eapply psbt_parse_validated; exact P.
Qed.
Print Assumptions C10_validate_rejects_bad_partial_sig.

(* ------------------------------------------------------------------ *)
(* non-vacuity: concrete instances *)

Definition ex_ws : script :=
  mk_script [Op 82; Push [2; 1]; Push [2; 2]; Push [2; 3]; Op 83; Op 174].      (* 2-of-3 *)
Definition ex_in (sigs : dict bytes) : psbt_in :=
  {| pi_prev_tx := None;
     pi_prev_out := Some {| o_amount := 5; o_script := mk_script [Op 0; Push (repeatz 9 32)] |};
     pi_sigs := sigs; pi_hash_type := None; pi_redeem := None; pi_wscript := Some ex_ws;
     pi_named := []; pi_script_sig := None; pi_witness := None; pi_extra := [] |}.
Definition ex_ti : txin :=
  {| i_prev_tx := repeatz 1 32; i_prev_index := 0; i_script := mk_script []; i_sequence := 0;
     i_witness := [] |}.

(* two signatures, one of them by the third key: emitted in script order *)
Example finalize_two_of_three :
  option_map pi_witness
    (match in_finalize (ex_in [([2; 1], [48; 1]); ([2; 3], [48; 3])]) ex_ti with Ok s => Some s | Err => None end)
  = Some (Some [[]; [48; 1]; [48; 3]; [82; 2;2;1; 2;2;2; 2;2;3; 83; 174]]).
Proof. vm_compute. reflexivity. Qed.

(* one signature by a script key plus one by a foreign key: refused *)
Example finalize_foreign_key_refused :
  in_finalize (ex_in [([2; 1], [48; 1]); ([2; 9], [48; 9])]) ex_ti = Err.
Proof. vm_compute. reflexivity. Qed.

Definition ex_psbt (sigs : dict bytes) : psbt :=
  {| p_tx := {| t_version := 2; t_ins := [ex_ti]; t_outs := []; t_locktime := 0; t_segwit := false |};
     p_ins := [ex_in sigs]; p_outs := []; p_hd := []; p_extra := [([252; 1], [7])] |}.

Lemma ex_good sigs : dsorted sigs -> good (ex_psbt sigs).
Proof.
  intros H. constructor; cbn; try (repeat constructor; fail).
  constructor; [|constructor]. constructor; cbn; try (repeat constructor; fail); try exact H; discriminate.
Qed.
Print Assumptions ex_good.

(* the hypotheses of the order-independence theorem are satisfiable by three signers holding
   different keys *)
Example family_instance :
  family [ex_psbt []; ex_psbt [([2; 1], [48; 1])]; ex_psbt [([2; 2], [48; 2])]; ex_psbt [([2; 3], [48; 3])]].
Proof.
  split.
  - intros x [<-|[<-|[<-|[<-|[]]]]]; apply ex_good; repeat constructor.
  - intros x y Hx Hy.
    assert (E : forall s1 s2, agree s1 s2 -> compat (ex_psbt s1) (ex_psbt s2)).
    { intros s1 s2 A. constructor; cbn; try reflexivity; try apply agree_refl.
      - constructor; [|constructor]. constructor; cbn; try apply oagree_refl; try apply agree_refl. exact A.
      - constructor. }
    destruct Hx as [<-|[<-|[<-|[<-|[]]]]]; destruct Hy as [<-|[<-|[<-|[<-|[]]]]]; apply E;
      intros k va vb H1 H2; cbn in H1, H2;
      repeat match type of H1 with context [bcmp ?a ?b] => destruct (bcmp a b) eqn:?; try discriminate end;
      repeat match type of H2 with context [bcmp ?a ?b] => destruct (bcmp a b) eqn:?; try discriminate end;
      try congruence;
      repeat match goal with H : bcmp _ _ = Eq |- _ => apply bcmp_eq in H; subst end; try discriminate; congruence.
Qed.

(* ------------------------------------------------------------------ *)
(* (2) the codec is lossless on canonical PSBTs.
   [canonical sec_ok N p] (Proofs/PsbtWholeP.v, PsbtCodecP.v) says that p is exactly what the
   serialiser can express: dictionaries sorted; unknown keys carry an unknown type byte and are
   non-empty; every embedded transaction / script / witness is reproduced by its own codec
   ([tx_exact], [script_exact], ... — discharged by the C04 round-trip theorems for well-formed
   values); derivation records have valid 33-byte keys; no field holds a value the serialiser
   skips (hash type 0, empty final witness, a witness UTXO next to a non-witness UTXO, partial
   signatures that the script order does not list exactly once); global xpubs carry the version
   bytes of the network N, and EVERY derivation path of the PSBT names that one network N
   (without this hypothesis the statement is false: known finding K-C10-xpub-network-order). *)

Theorem C10_psbt_parse_serialize :
  forall hash160 sha256 hash256 sec_ok sig_parse_ok ecdsa_verify sighash_legacy sighash_segwit
         verify_input descends N (p : psbt) b,
  canonical sec_ok N p ->
  validate hash160 sha256 hash256 sig_parse_ok ecdsa_verify sighash_legacy sighash_segwit
           verify_input descends p = Ok tt ->
  psbt_serialize p = Ok b ->
  exists o, psbt_parse hash160 sha256 hash256 sec_ok sig_parse_ok ecdsa_verify sighash_legacy
                       sighash_segwit verify_input descends b = Ok (p, o).
Proof. intros. eapply psbt_parse_serialize; eassumption. Qed.
Print Assumptions C10_psbt_parse_serialize.

Theorem C10_psbt_reserialize_idempotent :
  forall hash160 sha256 hash256 sec_ok sig_parse_ok ecdsa_verify sighash_legacy sighash_segwit
         verify_input descends N (p : psbt) b,
  canonical sec_ok N p ->
  validate hash160 sha256 hash256 sig_parse_ok ecdsa_verify sighash_legacy sighash_segwit
           verify_input descends p = Ok tt ->
  psbt_serialize p = Ok b ->
  exists p' o, psbt_parse hash160 sha256 hash256 sec_ok sig_parse_ok ecdsa_verify sighash_legacy
                          sighash_segwit verify_input descends b = Ok (p', o) /\
               psbt_serialize p' = Ok b.
Proof. intros. eapply psbt_reserialize_idempotent; eassumption. Qed.
Print Assumptions C10_psbt_reserialize_idempotent.

(* the single maps, for any trailing bytes *)
Theorem C10_input_map_roundtrip : forall sec_ok net ti st b rest,
  canon_in sec_ok net ti st -> in_serialize st = Ok b ->
  in_loop sec_ok (S (length (b ++ rest))) net ti (b ++ rest) empty_in = Ok (st, rest).
Proof. intros. eapply in_loop_roundtrip; eauto. Qed.
Print Assumptions C10_input_map_roundtrip.

Theorem C10_output_map_roundtrip : forall sec_ok net st b rest,
  canon_out sec_ok net st -> out_serialize st = Ok b ->
  out_loop sec_ok (S (length (b ++ rest))) net (b ++ rest) empty_out = Ok (st, rest).
Proof. intros. eapply out_loop_roundtrip; eauto. Qed.
Print Assumptions C10_output_map_roundtrip.

(* non-vacuity of (2): a concrete canonical PSBT (one input without UTXO, an unknown global entry);
   its unsigned transaction is exact by the C04 round-trip theorem *)
From V Require Proofs.TxP Spec.TxWf.

Definition ex_tx0 : tx :=
  {| t_version := 2; t_ins := [ex_ti]; t_outs := []; t_locktime := 0; t_segwit := false |}.
Definition ex_p0 : psbt :=
  {| p_tx := ex_tx0; p_ins := [empty_in]; p_outs := []; p_hd := []; p_extra := [([252; 1], [7])] |}.

Lemma ex_legacy_exact : legacy_exact ex_tx0.
Proof.
  destruct (TxP.legacy_roundtrip ex_tx0) as [b [Hb Hp]]; [vm_compute; reflexivity|].
  exists b. split; [exact Hb|]. split.
  - vm_compute in Hb. inversion Hb; subst. vm_compute. reflexivity.
  - intros rest. rewrite Hp. reflexivity.
Qed.
Print Assumptions ex_legacy_exact.

Lemma ex_canonical sec_ok : canonical sec_ok Mainnet ex_p0.
Proof.
  constructor.
  - constructor; cbn; try (repeat constructor; fail).
    + exact ex_legacy_exact.
    + constructor; [|constructor]. cbn. repeat split; try discriminate; vm_compute; reflexivity.
  - constructor; [|constructor]. split; [|constructor].
    intros o _. constructor; cbn; try (repeat constructor; fail); try discriminate; try reflexivity.
  - constructor.
Qed.
Print Assumptions ex_canonical.

Example psbt_roundtrip_instance :
  forall hash160 sha256 hash256 sec_ok sig_parse_ok ecdsa_verify sighash_legacy sighash_segwit
         verify_input descends,
  exists b o, psbt_serialize ex_p0 = Ok b /\
    psbt_parse hash160 sha256 hash256 sec_ok sig_parse_ok ecdsa_verify sighash_legacy
               sighash_segwit verify_input descends b = Ok (ex_p0, o).
Proof.
  intros. destruct (psbt_serialize ex_p0) as [b|] eqn:E; [|vm_compute in E; discriminate].
  exists b.
  destruct (psbt_parse_serialize hash160 sha256 hash256 sec_ok sig_parse_ok ecdsa_verify sighash_legacy
              sighash_segwit verify_input descends Mainnet ex_p0 b (ex_canonical sec_ok) eq_refl E) as [o H].
  exists o. auto.
Qed.

(* The constants written in the model are the constants of the SOURCE: coq/Generated/SrcConsts.v is regenerated
   from /repo/buidl/*.py by harness/gen_coq_consts.py on every run; the statements are spelled out in
   Proofs/ConstsTie.v (psbt_magic_is_source_stmt). *)
From V Require Proofs.ConstsTie.
Theorem C10_constants_match_source : ConstsTie.psbt_magic_is_source_stmt.
Proof. exact ConstsTie.psbt_magic_is_source. Qed.
Print Assumptions C10_constants_match_source.

(* ================================================================== *)
(* Additions of the deepening pass                                     *)
From V Require Import Model.PsbtSign Model.PsbtState Model.Base64 Model.PsbtB64
  Proofs.PsbtMembP Proofs.PsbtFinal2P Proofs.PsbtSignP Proofs.PsbtStateP Proofs.PsbtRefutedP
  Proofs.Base64P Proofs.PsbtB64P.
From V Require Model.Op Model.Interp Model.Pecc Model.Verify Proofs.VerifyP Proofs.VerifyCompleteP
  Proofs.PsbtVerifyP Proofs.PsbtSignFinalP.

(* ------------------------------------------------------------------ *)
(* (7) what PSBT.combine preserves: nothing is dropped, nothing is invented.
   [in_combine_spec sa sb sc]: every partial signature of sc is one of sb, or one of sa under a key sb
   does not have (and conversely); derivations / unknown entries likewise with self winning; the
   final scriptSig / witness and the UTXOs / scripts of self always win. *)

Theorem C10_combine_membership : forall a b : psbt,
  good a -> good b ->
  p_tx (comb a b) = p_tx a /\
  length (p_ins (comb a b)) = length (p_ins a) /\
  length (p_outs (comb a b)) = length (p_outs a) /\
  (forall j sa sb, nth_error (p_ins a) j = Some sa -> nth_error (p_ins b) j = Some sb ->
     exists sc, nth_error (p_ins (comb a b)) j = Some sc /\ in_combine_spec sa sb sc) /\
  (forall j sa sb, nth_error (p_outs a) j = Some sa -> nth_error (p_outs b) j = Some sb ->
     exists sc, nth_error (p_outs (comb a b)) j = Some sc /\ out_combine_spec sa sb sc) /\
  (forall k v, dget (p_hd (comb a b)) k = Some v <->
     dget (p_hd a) k = Some v \/ (dget (p_hd a) k = None /\ dget (p_hd b) k = Some v)) /\
  (forall k v, dget (p_extra (comb a b)) k = Some v <->
     dget (p_extra a) k = Some v \/ (dget (p_extra a) k = None /\ dget (p_extra b) k = Some v)).
Proof. exact comb_membership. Qed.
Print Assumptions C10_combine_membership.

Theorem C10_combine_sigs_union : forall (a b : psbt) j sa sb,
  good a -> good b -> compat a b ->
  nth_error (p_ins a) j = Some sa -> nth_error (p_ins b) j = Some sb ->
  exists sc, nth_error (p_ins (comb a b)) j = Some sc /\
    forall k v, dget (pi_sigs sc) k = Some v <-> dget (pi_sigs sa) k = Some v \/ dget (pi_sigs sb) k = Some v.
Proof. exact comb_sigs_union. Qed.
Print Assumptions C10_combine_sigs_union.

(* a finalised accumulator keeps its own final fields (two PSBTs finalised from different signer
   subsets: the result carries self's finalisation) *)
Theorem C10_combine_keeps_own_finalisation : forall (a b : psbt) j sa ss,
  nth_error (p_ins a) j = Some sa -> pi_script_sig sa = Some ss ->
  exists sc, nth_error (p_ins (comb a b)) j = Some sc /\ pi_script_sig sc = Some ss /\
             (forall w, pi_witness sa = Some w -> pi_witness sc = Some w).
Proof. exact comb_keeps_own_finalisation. Qed.
Print Assumptions C10_combine_keeps_own_finalisation.

(* (8) order independence carried through finalize, the finalised bytes and final_tx *)
Theorem C10_workflow_final_order_independent :
  forall (verify_tx : tx -> bool) (base : psbt) (l l' : list psbt),
  Permutation l l' -> family (base :: l) ->
  finalize (fold_left comb l base) = finalize (fold_left comb l' base) /\
  (bind (finalize (fold_left comb l base)) psbt_serialize
   = bind (finalize (fold_left comb l' base)) psbt_serialize) /\
  (bind (finalize (fold_left comb l base)) (final_tx verify_tx)
   = bind (finalize (fold_left comb l' base)) (final_tx verify_tx)).
Proof. exact workflow_final_order_independent. Qed.
Print Assumptions C10_workflow_final_order_independent.

(* ------------------------------------------------------------------ *)
(* (9) the finaliser computed exactly (success IFF the threshold is met) and the extractor.
   [threshold_met m cs sigs] = m <= number of partial signatures  &&  m <= number of signatures by
   keys of the script; [script_sigs cs sigs] = the signatures by keys of the script, in script order. *)

Theorem C10_finalize_p2wsh_exact : forall st ti spk ws c0 r m raw ss,
  in_script_pubkey st ti = Ok (Some spk) ->
  (negb (is_p2sh (s_cmds spk)) || is_some (pi_redeem st)) = true ->
  (is_p2wpkh (s_cmds spk) || opt_is is_p2wpkh (pi_redeem st)) = false ->
  (is_p2wsh (s_cmds spk) || opt_is is_p2wsh (pi_redeem st)) = true ->
  pi_wscript st = Some ws -> s_cmds ws = c0 :: r -> op_code_to_number c0 = Ok m -> 1 <= m ->
  raw_serialize ws = Ok raw -> redeem_script_sig (pi_redeem st) = Ok ss ->
  in_finalize st ti =
    if threshold_met m (s_cmds ws) (pi_sigs st)
    then Ok (finalized st ss
               (Some ([] :: firstn (Z.to_nat m) (script_sigs (s_cmds ws) (pi_sigs st)) ++ [raw])))
    else Err.
Proof. exact in_finalize_p2wsh_exact. Qed.
Print Assumptions C10_finalize_p2wsh_exact.

Theorem C10_finalize_p2sh_exact : forall st ti spk rs c0 r m raw,
  in_script_pubkey st ti = Ok (Some spk) ->
  is_p2sh (s_cmds spk) = true ->
  pi_redeem st = Some rs ->
  (is_p2wpkh (s_cmds spk) || is_p2wpkh (s_cmds rs)) = false ->
  (is_p2wsh (s_cmds spk) || is_p2wsh (s_cmds rs)) = false ->
  s_cmds rs = c0 :: r -> op_code_to_number c0 = Ok m -> 1 <= m ->
  raw_serialize rs = Ok raw ->
  in_finalize st ti =
    if threshold_met m (s_cmds rs) (pi_sigs st)
    then Ok (finalized st
               (mk_script (Op 0 :: map Push (firstn (Z.to_nat m) (script_sigs (s_cmds rs) (pi_sigs st)))
                                ++ [Push raw]))
               (pi_witness st))
    else Err.
Proof. exact in_finalize_p2sh_exact. Qed.
Print Assumptions C10_finalize_p2sh_exact.

Theorem C10_finalize_single_exact : forall st ti spk,
  in_script_pubkey st ti = Ok (Some spk) ->
  (negb (is_p2sh (s_cmds spk)) || is_some (pi_redeem st)) = true ->
  ((is_p2wpkh (s_cmds spk) || opt_is is_p2wpkh (pi_redeem st)) = true ->
   in_finalize st ti =
     match pi_sigs st with
     | [(sec, sg)] => ss <- redeem_script_sig (pi_redeem st) ;; Ok (finalized st ss (Some [sg; sec]))
     | _ => Err
     end) /\
  (is_p2pkh (s_cmds spk) = true ->
   opt_is is_p2wpkh (pi_redeem st) = false -> opt_is is_p2wsh (pi_redeem st) = false ->
   in_finalize st ti =
     match pi_sigs st with
     | [(sec, sg)] => Ok (finalized st (mk_script [Push sg; Push sec]) (pi_witness st))
     | _ => Err
     end).
Proof. exact in_finalize_single_exact. Qed.
Print Assumptions C10_finalize_single_exact.

(* with pairwise different script keys the first threshold test is implied by the second *)
Theorem C10_threshold_standard_multisig : forall m keys (sigs : dict bytes),
  NoDup keys ->
  threshold_met m (msig_cmds m keys) sigs = (m <=? zlen (key_sigs keys sigs)) /\
  script_sigs (msig_cmds m keys) sigs = key_sigs keys sigs.
Proof.
  intros m keys sigs H. split; [now apply msig_threshold|].
  rewrite script_sigs_pushes. now rewrite pushes_msig.
Qed.
Print Assumptions C10_threshold_standard_multisig.

(* final_tx hands verify() exactly the unsigned transaction with the final fields put in *)
Theorem C10_assemble_tx_exact : forall (p : psbt) t0,
  tx_clone (p_tx p) = Ok t0 -> length (t_ins t0) = length (p_ins p) ->
  let segwit := t_segwit t0 || existsb (fun st => truthy_wit (pi_witness st)) (p_ins p) in
  ((exists t, assemble_tx p = Ok t) <-> Forall (fun st => pi_script_sig st <> None) (p_ins p)) /\
  forall t, assemble_tx p = Ok t ->
    t_version t = t_version t0 /\ t_outs t = t_outs t0 /\ t_locktime t = t_locktime t0 /\
    t_segwit t = segwit /\ length (t_ins t) = length (t_ins t0) /\
    forall j ti st, nth_error (t_ins t0) j = Some ti -> nth_error (p_ins p) j = Some st ->
      exists ti', nth_error (t_ins t) j = Some ti' /\ filled segwit ti st ti'.
Proof. exact assemble_tx_exact. Qed.
Print Assumptions C10_assemble_tx_exact.

Theorem C10_tx_clone_exact : forall t, tx_exact t -> tx_clone t = Ok t.
Proof. intros t (b & H1 & _ & H2). apply tx_clone_exact. eauto. Qed.
Print Assumptions C10_tx_clone_exact.

(* ------------------------------------------------------------------ *)
(* (10) finalize composed with the C06 model of Tx.verify_input (Model/Verify.v): m-of-n wallets *)

Theorem C10_finalize_p2wsh_multisig_verifies :
  forall C ripemd160 sha1 sha256 hash160 hash256 so c st ti spk ws m keys raw,
  in_script_pubkey st ti = Ok (Some spk) ->
  s_cmds spk = p2wsh_script (sha256 raw) -> length (sha256 raw) = 32%nat ->
  pi_redeem st = None -> pi_wscript st = Some ws ->
  s_cmds ws = VerifyP.multisig_script m keys -> raw_serialize ws = Ok raw ->
  Verify.parse_cmds raw = Ok (VerifyP.multisig_script m keys) ->
  1 <= m <= 16 -> 1 <= zlen keys <= 16 -> NoDup keys ->
  let got := firstn (Z.to_nat m) (key_sigs keys (pi_sigs st)) in
  ((exists st', in_finalize st ti = Ok st') <-> m <= zlen (key_sigs keys (pi_sigs st))) /\
  forall st', in_finalize st ti = Ok st' ->
    st' = finalized st (mk_script []) (Some ([] :: got ++ [raw])) /\ zlen got = m /\
    (VerifyCompleteP.nonempty_sigs got = true -> Op.so_multisig so (rev keys) (rev got) = Ok true ->
     Verify.verify_input C ripemd160 sha1 sha256 hash160 hash256 so c ([] :: got ++ [raw]) [] (s_cmds spk)
     = Interp.OTrue).
Proof. exact PsbtVerifyP.finalize_p2wsh_multisig. Qed.
Print Assumptions C10_finalize_p2wsh_multisig_verifies.

Theorem C10_finalize_p2sh_p2wsh_multisig_verifies :
  forall C ripemd160 sha1 sha256 hash160 hash256 so c st ti spk rs ws m keys raw,
  let redeem := 0 :: 32 :: sha256 raw in
  in_script_pubkey st ti = Ok (Some spk) ->
  s_cmds spk = p2sh_script (hash160 redeem) -> length (hash160 redeem) = 20%nat ->
  pi_redeem st = Some rs -> s_cmds rs = p2wsh_script (sha256 raw) -> s_raw rs = None ->
  length (sha256 raw) = 32%nat ->
  pi_wscript st = Some ws ->
  s_cmds ws = VerifyP.multisig_script m keys -> raw_serialize ws = Ok raw ->
  Verify.parse_cmds raw = Ok (VerifyP.multisig_script m keys) ->
  1 <= m <= 16 -> 1 <= zlen keys <= 16 -> NoDup keys ->
  let got := firstn (Z.to_nat m) (key_sigs keys (pi_sigs st)) in
  ((exists st', in_finalize st ti = Ok st') <-> m <= zlen (key_sigs keys (pi_sigs st))) /\
  forall st', in_finalize st ti = Ok st' ->
    st' = finalized st (mk_script [Push redeem]) (Some ([] :: got ++ [raw])) /\ zlen got = m /\
    (VerifyCompleteP.nonempty_sigs got = true -> Op.so_multisig so (rev keys) (rev got) = Ok true ->
     Verify.verify_input C ripemd160 sha1 sha256 hash160 hash256 so c ([] :: got ++ [raw]) [Push redeem]
       (s_cmds spk) = Interp.OTrue).
Proof. exact PsbtVerifyP.finalize_p2sh_p2wsh_multisig. Qed.
Print Assumptions C10_finalize_p2sh_p2wsh_multisig_verifies.

Theorem C10_finalize_p2sh_multisig_verifies :
  forall C ripemd160 sha1 sha256 hash160 hash256 so c st ti spk rs m keys raw,
  in_script_pubkey st ti = Ok (Some spk) ->
  s_cmds spk = p2sh_script (hash160 raw) -> length (hash160 raw) = 20%nat ->
  pi_redeem st = Some rs ->
  s_cmds rs = VerifyP.multisig_script m keys -> raw_serialize rs = Ok raw ->
  Verify.parse_cmds raw = Ok (VerifyP.multisig_script m keys) ->
  1 <= m <= 16 -> 1 <= zlen keys <= 16 -> NoDup keys ->
  let got := firstn (Z.to_nat m) (key_sigs keys (pi_sigs st)) in
  let ss := Op 0 :: map Push got ++ [Push raw] in
  ((exists st', in_finalize st ti = Ok st') <-> m <= zlen (key_sigs keys (pi_sigs st))) /\
  forall st', in_finalize st ti = Ok st' ->
    st' = finalized st (mk_script ss) (pi_witness st) /\ zlen got = m /\
    (VerifyCompleteP.nonempty_sigs got = true -> Op.so_multisig so (rev keys) (rev got) = Ok true ->
     forall w, Verify.verify_input C ripemd160 sha1 sha256 hash160 hash256 so c w ss (s_cmds spk)
               = Interp.OTrue).
Proof. exact PsbtVerifyP.finalize_p2sh_multisig. Qed.
Print Assumptions C10_finalize_p2sh_multisig_verifies.

(* ------------------------------------------------------------------ *)
(* (11) the Signer (Model/PsbtSign.v: PSBT.sign_with_private_keys).  [sign_each keys base]: every key
   signs its own copy of base; [all_fresh keys base]: no input of base carries a signature under one
   of the keys yet. *)

Theorem C10_sign_keys_is_fold_comb : forall sign_segwit sign_legacy base keys,
  good base -> all_fresh keys base ->
  sign_keys sign_segwit sign_legacy keys base =
  match sign_each sign_segwit sign_legacy keys base with
  | Ok cs => Ok (fold_left comb (map fst cs) base, existsb snd cs)
  | Err => Err
  end.
Proof. exact sign_keys_is_fold_comb. Qed.
Print Assumptions C10_sign_keys_is_fold_comb.

(* the individually signed copies satisfy the hypotheses of C10_workflow_order_independent *)
Theorem C10_sign_copies_family : forall sign_segwit sign_legacy base keys cs,
  good base -> all_fresh keys base -> sign_each sign_segwit sign_legacy keys base = Ok cs ->
  family (base :: map fst cs).
Proof. exact sign_each_family. Qed.
Print Assumptions C10_sign_copies_family.

Theorem C10_sign_keys_order_independent : forall sign_segwit sign_legacy base keys keys',
  good base -> all_fresh keys base -> Permutation keys keys' ->
  sign_keys sign_segwit sign_legacy keys base = sign_keys sign_segwit sign_legacy keys' base.
Proof. exact sign_keys_order_independent. Qed.
Print Assumptions C10_sign_keys_order_independent.

(* sign -> finalize -> verify_input for a native P2WSH m-of-n input: finalisable exactly when at
   least m script keys are among the signers, with the first m of their signatures in script order *)
Theorem C10_sign_finalize_verify_p2wsh :
  forall sign_segwit sign_legacy C ripemd160 sha1 sha256 hash160 hash256 so c
         K p P b j a ti spk ws m keys raw,
  sign_keys sign_segwit sign_legacy K p = Ok (P, b) ->
  nth_error (p_ins p) j = Some a -> nth_error (t_ins (p_tx p)) j = Some ti ->
  (forall k, In k keys -> dget (pi_sigs a) k = None) ->
  in_script_pubkey a ti = Ok (Some spk) ->
  s_cmds spk = p2wsh_script (sha256 raw) -> length (sha256 raw) = 32%nat ->
  pi_redeem a = None -> pi_wscript a = Some ws ->
  s_cmds ws = VerifyP.multisig_script m keys -> raw_serialize ws = Ok raw ->
  Verify.parse_cmds raw = Ok (VerifyP.multisig_script m keys) ->
  1 <= m <= 16 -> 1 <= zlen keys <= 16 -> NoDup keys ->
  let signers := filter (fun k => PsbtSignFinalP.mem k K && PsbtSignFinalP.named a k) keys in
  let got := firstn (Z.to_nat m)
               (map (PsbtSignFinalP.the_sig sign_segwit sign_legacy (p_tx p) (Z.of_nat j) a ti) signers) in
  exists x, nth_error (p_ins P) j = Some x /\
    ((exists x', in_finalize x ti = Ok x') <-> m <= zlen signers) /\
    forall x', in_finalize x ti = Ok x' ->
      pi_script_sig x' = Some (mk_script []) /\ pi_witness x' = Some ([] :: got ++ [raw]) /\
      (VerifyCompleteP.nonempty_sigs got = true -> Op.so_multisig so (rev keys) (rev got) = Ok true ->
       Verify.verify_input C ripemd160 sha1 sha256 hash160 hash256 so c ([] :: got ++ [raw]) []
         (s_cmds spk) = Interp.OTrue).
Proof. exact PsbtSignFinalP.sign_finalize_verify_p2wsh. Qed.
Print Assumptions C10_sign_finalize_verify_p2wsh.

(* ------------------------------------------------------------------ *)
(* (12) PSBT.validate() as a state transformer of the unsigned transaction (Model/PsbtState.v) *)

Theorem C10_validate_state_verdict :
  forall hash160 sha256 hash256 sig_parse_ok ecdsa_verify sighash_legacy sighash_segwit verify_input
         descends p,
  fst (validate_state hash160 sha256 hash256 sig_parse_ok ecdsa_verify sighash_legacy sighash_segwit
                      verify_input descends p)
  = validate hash160 sha256 hash256 sig_parse_ok ecdsa_verify sighash_legacy sighash_segwit
             verify_input descends p.
Proof. exact validate_state_verdict. Qed.
Print Assumptions C10_validate_state_verdict.

Theorem C10_validate_state_ok :
  forall hash160 sha256 hash256 sig_parse_ok ecdsa_verify sighash_legacy sighash_segwit verify_input
         descends p t',
  validate_state hash160 sha256 hash256 sig_parse_ok ecdsa_verify sighash_legacy sighash_segwit
                 verify_input descends p = (Ok tt, t') ->
  t' = with_tx_ins (p_tx p) (settled (p_ins p) (t_ins (p_tx p))) /\
  (Forall (fun st => pi_script_sig st = None) (p_ins p) -> t' = p_tx p).
Proof.
  intros. split; [eapply validate_state_ok; eauto|]. intros F. eapply validate_state_unfinalised; eauto.
Qed.
Print Assumptions C10_validate_state_ok.

(* known finding K-C10-validate-leaves-scriptsig *)
Theorem C10_validate_leaves_scriptsig_refuted :
  forall hash160 sha256 hash256 sig_parse_ok ecdsa_verify sighash_legacy sighash_segwit verify_input descends,
  verify_input vw_tx 0 (mk_script [Op 81]) None <> Ok true ->
  let vs := validate_state hash160 sha256 hash256 sig_parse_ok ecdsa_verify sighash_legacy
                           sighash_segwit verify_input descends vw_p in
  fst vs = Err /\ snd vs <> vw_tx /\
  forall ins outs hd extra,
    validate hash160 sha256 hash256 sig_parse_ok ecdsa_verify sighash_legacy sighash_segwit
             verify_input descends
             {| p_tx := snd vs; p_ins := ins; p_outs := outs; p_hd := hd; p_extra := extra |} <> Ok tt.
Proof. exact validate_leaves_scriptsig_refuted. Qed.
Print Assumptions C10_validate_leaves_scriptsig_refuted.

(* ------------------------------------------------------------------ *)
(* (13) the codec clauses that are false of the faithful model (known findings
   K-C10-xpub-network-order, K-C10-duplicate-script-key), with witnesses replayed on /repo *)

Theorem C10_reserialize_xpub_networks_refuted :
  forall hash160 sha256 hash256 sec_ok0 sig_parse_ok ecdsa_verify sighash_legacy sighash_segwit
         verify_input descends,
  let sec_ok := fun b => beq b g_sec || sec_ok0 b in
  let parse := psbt_parse hash160 sha256 hash256 sec_ok sig_parse_ok ecdsa_verify sighash_legacy
                          sighash_segwit verify_input descends in
  parse xw_bytes = Ok (xw_p1, Some Testnet) /\ psbt_serialize xw_p1 = Ok xw_b1 /\
  parse xw_b1 = Ok (xw_p2, Some Mainnet) /\ psbt_serialize xw_p2 = Ok xw_b2 /\
  xw_b1 <> xw_b2.
Proof. exact reserialize_xpub_networks_refuted. Qed.
Print Assumptions C10_reserialize_xpub_networks_refuted.

Theorem C10_input_map_duplicate_script_key_refuted :
  in_serialize dup_in = Ok dup_bytes /\
  forall sec_ok net ti,
    in_loop sec_ok (S (length dup_bytes)) net ti dup_bytes empty_in = Err.
Proof. exact input_map_duplicate_script_key_refuted. Qed.
Print Assumptions C10_input_map_duplicate_script_key_refuted.

(* ------------------------------------------------------------------ *)
(* (14) the base64 text layer: PSBT.serialize_base64 / PSBT.parse_base64 *)

Theorem C10_base64_roundtrip : forall b, bytes_ok b ->
  b64_decode_bytes (b64_encode b) = Ok b /\ b64_decode_str (b64_encode b) = Ok b /\
  length (b64_encode b) = (4 * ((length b + 2) / 3))%nat.
Proof.
  intros b H. split; [now apply b64_roundtrip|]. split; [now apply b64_roundtrip_str|].
  now apply (b64_encode_length (length b)).
Qed.
Print Assumptions C10_base64_roundtrip.

Theorem C10_parse_base64_encode :
  forall hash160 sha256 hash256 sec_ok sig_parse_ok ecdsa_verify sighash_legacy sighash_segwit
         verify_input descends b is_str,
  bytes_ok b ->
  psbt_parse_base64 hash160 sha256 hash256 sec_ok sig_parse_ok ecdsa_verify sighash_legacy
                    sighash_segwit verify_input descends is_str (b64_encode b)
  = psbt_parse hash160 sha256 hash256 sec_ok sig_parse_ok ecdsa_verify sighash_legacy
               sighash_segwit verify_input descends b.
Proof. exact parse_base64_encode. Qed.
Print Assumptions C10_parse_base64_encode.

Theorem C10_psbt_base64_roundtrip :
  forall hash160 sha256 hash256 sec_ok sig_parse_ok ecdsa_verify sighash_legacy sighash_segwit
         verify_input descends N (p : psbt) t is_str,
  canonical sec_ok N p ->
  validate hash160 sha256 hash256 sig_parse_ok ecdsa_verify sighash_legacy sighash_segwit
           verify_input descends p = Ok tt ->
  psbt_serialize_base64 p = Ok t ->
  (forall b, psbt_serialize p = Ok b -> bytes_ok b) ->
  exists o, psbt_parse_base64 hash160 sha256 hash256 sec_ok sig_parse_ok ecdsa_verify sighash_legacy
                              sighash_segwit verify_input descends is_str t = Ok (p, o) /\
            psbt_serialize_base64 p = Ok t.
Proof. exact psbt_base64_roundtrip. Qed.
Print Assumptions C10_psbt_base64_roundtrip.

(* helper.base64_decode is b64decode in its non-validating mode: text no encoder produces is accepted *)
Theorem C10_base64_decode_lenient_refuted :
  b64_decode_bytes [81; 81; 61; 61] = Ok [65] /\
  b64_decode_bytes [81; 81; 61; 61; 81; 85; 74; 68] = Ok [65] /\
  b64_decode_bytes [81; 33; 81; 10; 61; 32; 61] = Ok [65] /\
  b64_decode_bytes [61; 81; 82; 61; 61; 61] = Ok [65] /\
  b64_decode_bytes [81; 81; 61] = Err /\ b64_decode_bytes [81] = Err.
Proof. exact b64_decode_not_injective_refuted. Qed.
Print Assumptions C10_base64_decode_lenient_refuted.

(* ------------------------------------------------------------------ *)
(* non-vacuity of (9)-(11) on the 2-of-3 P2WSH input of the examples above, with the hash oracle
   [fun _ => repeatz 9 32] (the program of [ex_in]) and an OP_CHECKMULTISIG oracle that accepts *)

Definition ex_keys : list bytes := [[2; 1]; [2; 2]; [2; 3]].
Definition ex_raw : bytes := [82; 2;2;1; 2;2;2; 2;2;3; 83; 174].
Definition ex_so : Op.sigops :=
  {| Op.so_checksig := fun _ _ => Err; Op.so_multisig := fun _ _ => Ok true;
     Op.so_xonly_ok := fun _ => false; Op.so_schnorr := fun _ _ _ => Err |}.
Definition ex_ctx : Op.txctx := {| Op.t_locktime := 0; Op.t_sequence := 0; Op.t_version := 2 |}.

Example finalize_verifies_instance :
  let sigs := [([2; 1], [48; 1]); ([2; 3], [48; 3])] in
  exists st', in_finalize (ex_in sigs) ex_ti = Ok st' /\
    pi_witness st' = Some [[]; [48; 1]; [48; 3]; ex_raw] /\
    Verify.verify_input Pecc.secp256k1 (fun _ => []) (fun _ => []) (fun _ => repeatz 9 32) (fun _ => [])
      (fun _ => []) ex_so ex_ctx [[]; [48; 1]; [48; 3]; ex_raw] [] [Op 0; Push (repeatz 9 32)] = Interp.OTrue.
Proof.
  intros sigs.
  assert (N : NoDup ex_keys) by (repeat constructor; cbn; intuition discriminate).
  assert (Hk : 1 <= zlen ex_keys <= 16) by (vm_compute; split; discriminate).
  destruct (PsbtVerifyP.finalize_p2wsh_multisig Pecc.secp256k1 (fun _ => []) (fun _ => [])
              (fun _ => repeatz 9 32) (fun _ => []) (fun _ => []) ex_so ex_ctx (ex_in sigs) ex_ti
              (mk_script [Op 0; Push (repeatz 9 32)]) ex_ws 2 ex_keys ex_raw
              eq_refl eq_refl eq_refl eq_refl eq_refl eq_refl eq_refl eq_refl ltac:(lia) Hk N) as [F1 F2].
  destruct (proj2 F1) as [st' H]; [vm_compute; discriminate|].
  exists st'. split; [exact H|]. destruct (F2 st' H) as (E & _ & V). subst st'. split; [reflexivity|].
  apply V; reflexivity.
Qed.

(* one signer of a 2-of-3 is not enough: the threshold test refuses *)
Example finalize_below_threshold_instance :
  ~ exists st', in_finalize (ex_in [([2; 2], [48; 2])]) ex_ti = Ok st'.
Proof.
  intros [st' H]. vm_compute in H. discriminate.
Qed.

(* the signer on [ex_psbt]: keys named in the input sign, in any order, with the same result *)
Definition ex_named_psbt : psbt :=
  {| p_tx := {| t_version := 2; t_ins := [ex_ti]; t_outs := []; t_locktime := 0; t_segwit := false |};
     p_ins := [set_named (ex_in []) [([2; 1], [0;0;0;0]); ([2; 2], [0;0;0;0]); ([2; 3], [0;0;0;0])]];
     p_outs := []; p_hd := []; p_extra := [] |}.
Definition ex_signer (sec : bytes) (_ : tx) (_ : Z) (_ _ : option script) : result bytes := Ok (48 :: sec).

Example sign_order_instance :
  sign_keys ex_signer (fun _ _ _ _ => Err) [[2; 3]; [2; 1]] ex_named_psbt
  = sign_keys ex_signer (fun _ _ _ _ => Err) [[2; 1]; [2; 3]] ex_named_psbt
  /\ exists P, sign_keys ex_signer (fun _ _ _ _ => Err) [[2; 3]; [2; 1]] ex_named_psbt = Ok (P, true) /\
       option_map pi_sigs (nth_error (p_ins P) 0) = Some [([2; 1], [48; 2; 1]); ([2; 3], [48; 2; 3])].
Proof. split; [vm_compute; reflexivity|]. eexists. split; vm_compute; reflexivity. Qed.

Example sign_hypotheses_instance :
  good ex_named_psbt /\ all_fresh [[2; 3]; [2; 1]] ex_named_psbt.
Proof.
  split.
  - constructor; cbn; try (repeat constructor; fail).
    constructor; [|constructor]. constructor; cbn; try (repeat constructor; fail); discriminate.
  - repeat constructor.
Qed.

(* base64 on a concrete PSBT prefix *)
Example base64_instance :
  b64_encode magic = [99; 72; 78; 105; 100; 80; 56; 61]                        (* "cHNidP8=" *)
  /\ b64_decode_str [99; 72; 78; 105; 100; 80; 56; 61] = Ok magic.
Proof. split; vm_compute; reflexivity. Qed.

(* ------------------------------------------------------------------ *)
(* (15) the Updater (Model/PsbtUpdate.v: PSBTIn.update / PSBTOut.update).  [stays x y]: a field that
   is present keeps its value; [stays_some]: a field that is present stays present; [keeps_keys]:
   no derivation is removed. *)
From V Require Import Model.PsbtUpdate Proofs.PsbtUpdateP.

Theorem C10_in_update_preserves : forall txl pk rl wl st ti st',
  in_update txl pk rl wl st ti = Ok st' -> in_update_spec st st'.
Proof. exact in_update_preserves. Qed.
Print Assumptions C10_in_update_preserves.

Theorem C10_out_update_preserves : forall pk rl wl st to st',
  out_update pk rl wl st to = Ok st' -> out_update_spec st st'.
Proof. exact out_update_preserves. Qed.
Print Assumptions C10_out_update_preserves.

(* since fix 33b84c2 "the Updater only adds" also holds for the RedeemScript of a P2SH output ([ous_redeem] in
   [out_update_spec]); the witness of the former defect keeps its RedeemScript *)
Theorem C10_out_update_keeps_redeem_instance :
  exists st', out_update [] [] [] uw_out uw_txout = Ok st' /\ po_redeem st' = Some uw_redeem.
Proof. exact out_update_keeps_redeem_instance. Qed.
Print Assumptions C10_out_update_keeps_redeem_instance.

(* non-vacuity: a blank P2WSH input is filled from the lookups (witness UTXO, script, one derivation) *)
Example in_update_instance :
  let f : tx := {| t_version := 1; t_ins := []; t_outs := [{| o_amount := 5; o_script := mk_script [Op 0; Push (repeatz 9 32)] |}];
                   t_locktime := 0; t_segwit := false |} in
  option_map (fun st => (pi_prev_out st, pi_wscript st, pi_named st))
    (match in_update [(repeatz 1 32, f)] [([2; 2], ([2; 2], [7; 7; 7; 7]))] [] [(repeatz 9 32, ex_ws)] empty_in ex_ti
     with Ok st => Some st | Err => None end)
  = Some (Some {| o_amount := 5; o_script := mk_script [Op 0; Push (repeatz 9 32)] |}, Some ex_ws,
          [([2; 2], [7; 7; 7; 7])]).
Proof. vm_compute. reflexivity. Qed.

(* ------------------------------------------------------------------ *)
(* (16) single-key wallets: finalisable exactly with one partial signature; what is emitted verifies
   (C06 completeness) whenever OP_CHECKSIG accepts the signature *)
From V Require Proofs.PsbtVerify2P.

Theorem C10_finalize_p2wpkh_verifies :
  forall C ripemd160 sha1 sha256 hash160 hash256 so c st ti spk,
  in_script_pubkey st ti = Ok (Some spk) -> is_p2wpkh (s_cmds spk) = true -> pi_redeem st = None ->
  ((exists st', in_finalize st ti = Ok st') <-> exists sec sg, pi_sigs st = [(sec, sg)]) /\
  forall sec sg, pi_sigs st = [(sec, sg)] ->
    in_finalize st ti = Ok (finalized st (mk_script []) (Some [sg; sec])) /\
    (s_cmds spk = p2wpkh_script (hash160 sec) -> sg <> [] -> Op.so_checksig so sec sg = Ok true ->
     Verify.verify_input C ripemd160 sha1 sha256 hash160 hash256 so c [sg; sec] [] (s_cmds spk) = Interp.OTrue).
Proof. exact PsbtVerify2P.finalize_p2wpkh. Qed.
Print Assumptions C10_finalize_p2wpkh_verifies.

Theorem C10_finalize_p2sh_p2wpkh_verifies :
  forall C ripemd160 sha1 sha256 hash160 hash256 so c st ti spk rs,
  in_script_pubkey st ti = Ok (Some spk) -> pi_redeem st = Some rs -> is_p2wpkh (s_cmds rs) = true ->
  forall raw, raw_serialize rs = Ok raw ->
  ((exists st', in_finalize st ti = Ok st') <-> exists sec sg, pi_sigs st = [(sec, sg)]) /\
  forall sec sg, pi_sigs st = [(sec, sg)] ->
    in_finalize st ti = Ok (finalized st (mk_script [Push raw]) (Some [sg; sec])) /\
    (raw = 0 :: 20 :: hash160 sec -> s_cmds spk = p2sh_script (hash160 raw) ->
     length (hash160 sec) = 20%nat -> length (hash160 raw) = 20%nat ->
     sg <> [] -> Op.so_checksig so sec sg = Ok true ->
     Verify.verify_input C ripemd160 sha1 sha256 hash160 hash256 so c [sg; sec] [Push raw] (s_cmds spk)
     = Interp.OTrue).
Proof. exact PsbtVerify2P.finalize_p2sh_p2wpkh. Qed.
Print Assumptions C10_finalize_p2sh_p2wpkh_verifies.

Theorem C10_finalize_p2pkh_verifies :
  forall C ripemd160 sha1 sha256 hash160 hash256 so c st ti spk,
  in_script_pubkey st ti = Ok (Some spk) -> is_p2pkh (s_cmds spk) = true -> pi_redeem st = None ->
  ((exists st', in_finalize st ti = Ok st') <-> exists sec sg, pi_sigs st = [(sec, sg)]) /\
  forall sec sg, pi_sigs st = [(sec, sg)] ->
    in_finalize st ti = Ok (finalized st (mk_script [Push sg; Push sec]) (pi_witness st)) /\
    (s_cmds spk = p2pkh_script (hash160 sec) -> sg <> [] -> Op.so_checksig so sec sg = Ok true ->
     forall w, Verify.verify_input C ripemd160 sha1 sha256 hash160 hash256 so c w [Push sg; Push sec]
                 (s_cmds spk) = Interp.OTrue).
Proof. exact PsbtVerify2P.finalize_p2pkh. Qed.
Print Assumptions C10_finalize_p2pkh_verifies.

(* sign -> finalize -> verify for the other two m-of-n wallet types *)
Theorem C10_sign_finalize_verify_p2sh_p2wsh :
  forall sign_segwit sign_legacy C ripemd160 sha1 sha256 hash160 hash256 so c
         K p P b j a ti spk rs ws m keys raw,
  let redeem := 0 :: 32 :: sha256 raw in
  sign_keys sign_segwit sign_legacy K p = Ok (P, b) ->
  nth_error (p_ins p) j = Some a -> nth_error (t_ins (p_tx p)) j = Some ti ->
  (forall k, In k keys -> dget (pi_sigs a) k = None) ->
  in_script_pubkey a ti = Ok (Some spk) ->
  s_cmds spk = p2sh_script (hash160 redeem) -> length (hash160 redeem) = 20%nat ->
  pi_redeem a = Some rs -> s_cmds rs = p2wsh_script (sha256 raw) -> s_raw rs = None ->
  length (sha256 raw) = 32%nat ->
  pi_wscript a = Some ws ->
  s_cmds ws = VerifyP.multisig_script m keys -> raw_serialize ws = Ok raw ->
  Verify.parse_cmds raw = Ok (VerifyP.multisig_script m keys) ->
  1 <= m <= 16 -> 1 <= zlen keys <= 16 -> NoDup keys ->
  let signers := filter (fun k => PsbtSignFinalP.mem k K && PsbtSignFinalP.named a k) keys in
  let got := firstn (Z.to_nat m)
               (map (PsbtSignFinalP.the_sig sign_segwit sign_legacy (p_tx p) (Z.of_nat j) a ti) signers) in
  exists x, nth_error (p_ins P) j = Some x /\
    ((exists x', in_finalize x ti = Ok x') <-> m <= zlen signers) /\
    forall x', in_finalize x ti = Ok x' ->
      pi_script_sig x' = Some (mk_script [Push redeem]) /\ pi_witness x' = Some ([] :: got ++ [raw]) /\
      (VerifyCompleteP.nonempty_sigs got = true -> Op.so_multisig so (rev keys) (rev got) = Ok true ->
       Verify.verify_input C ripemd160 sha1 sha256 hash160 hash256 so c ([] :: got ++ [raw]) [Push redeem]
         (s_cmds spk) = Interp.OTrue).
Proof. exact PsbtVerify2P.sign_finalize_verify_p2sh_p2wsh. Qed.
Print Assumptions C10_sign_finalize_verify_p2sh_p2wsh.

Theorem C10_sign_finalize_verify_p2sh :
  forall sign_segwit sign_legacy C ripemd160 sha1 sha256 hash160 hash256 so c
         K p P b j a ti spk rs m keys raw,
  sign_keys sign_segwit sign_legacy K p = Ok (P, b) ->
  nth_error (p_ins p) j = Some a -> nth_error (t_ins (p_tx p)) j = Some ti ->
  (forall k, In k keys -> dget (pi_sigs a) k = None) ->
  in_script_pubkey a ti = Ok (Some spk) ->
  s_cmds spk = p2sh_script (hash160 raw) -> length (hash160 raw) = 20%nat ->
  pi_redeem a = Some rs ->
  s_cmds rs = VerifyP.multisig_script m keys -> raw_serialize rs = Ok raw ->
  Verify.parse_cmds raw = Ok (VerifyP.multisig_script m keys) ->
  1 <= m <= 16 -> 1 <= zlen keys <= 16 -> NoDup keys ->
  let signers := filter (fun k => PsbtSignFinalP.mem k K && PsbtSignFinalP.named a k) keys in
  let got := firstn (Z.to_nat m)
               (map (PsbtSignFinalP.the_sig sign_segwit sign_legacy (p_tx p) (Z.of_nat j) a ti) signers) in
  let ss := Op 0 :: map Push got ++ [Push raw] in
  exists x, nth_error (p_ins P) j = Some x /\
    ((exists x', in_finalize x ti = Ok x') <-> m <= zlen signers) /\
    forall x', in_finalize x ti = Ok x' ->
      pi_script_sig x' = Some (mk_script ss) /\
      (VerifyCompleteP.nonempty_sigs got = true -> Op.so_multisig so (rev keys) (rev got) = Ok true ->
       forall w, Verify.verify_input C ripemd160 sha1 sha256 hash160 hash256 so c w ss (s_cmds spk)
                 = Interp.OTrue).
Proof. exact PsbtVerify2P.sign_finalize_verify_p2sh. Qed.
Print Assumptions C10_sign_finalize_verify_p2sh.

(* ------------------------------------------------------------------ *)
(* (17) codec meets combiner: every dictionary of a PSBT returned by PSBT.parse is strictly sorted, hence
   a parsed PSBT satisfies the [good] hypothesis of the combiner / order-independence theorems unless it
   carries one of the two values the combiner treats as absent *)
From V Require Import Proofs.PsbtParseSortedP.

Theorem C10_parse_sorted :
  forall hash160 sha256 hash256 sec_ok sig_parse_ok ecdsa_verify sighash_legacy sighash_segwit
         verify_input descends s p n,
  psbt_parse hash160 sha256 hash256 sec_ok sig_parse_ok ecdsa_verify sighash_legacy sighash_segwit
             verify_input descends s = Ok (p, n) ->
  psbt_sorted p /\
  (Forall (fun st => pi_hash_type st <> Some 0 /\ pi_witness st <> Some []) (p_ins p) -> good p).
Proof.
  intros. split; [eapply psbt_parse_sorted; eauto|]. intros F. eapply psbt_parse_good; eauto.
Qed.
Print Assumptions C10_parse_sorted.

(* ------------------------------------------------------------------ *)
(* (18) framing: magic / separator are exact on both sides; compact sizes need not be minimal *)
From V Require Import Proofs.PsbtFramingP.

Theorem C10_magic_exact :
  forall hash160 sha256 hash256 sec_ok sig_parse_ok ecdsa_verify sighash_legacy sighash_segwit
         verify_input descends,
  (forall s p n,
     psbt_parse hash160 sha256 hash256 sec_ok sig_parse_ok ecdsa_verify sighash_legacy sighash_segwit
                verify_input descends s = Ok (p, n) -> exists rest, s = magic ++ rest) /\
  (forall p b, psbt_serialize p = Ok b -> exists rest, b = magic ++ rest).
Proof. intros. split; [intros s p n; apply psbt_parse_magic|exact psbt_serialize_magic]. Qed.
Print Assumptions C10_magic_exact.

Theorem C10_kv_parse_nonminimal_length_refuted :
  kv_parse [1; 7; 1; 9; 0] = Ok ([([7], [9])], []) /\
  kv_parse [253; 1; 0; 7; 254; 1; 0; 0; 0; 9; 0] = Ok ([([7], [9])], []) /\
  kv_serialize [([7], [9])] = Ok [1; 7; 1; 9; 0].
Proof. exact kv_parse_nonminimal_length_refuted. Qed.
Print Assumptions C10_kv_parse_nonminimal_length_refuted.

(* ------------------------------------------------------------------ *)
(* (19) the workflow at the level of whole PSBTs *)
From V Require Import Proofs.PsbtWorkflowP.

(* every signer signs its own copy; the copies are combined in any order: that is the PSBT signed with
   all keys on one object *)
Theorem C10_separate_signers_any_combination_order :
  forall sign_segwit sign_legacy base keys cs l',
  good base -> all_fresh keys base ->
  sign_each sign_segwit sign_legacy keys base = Ok cs ->
  Permutation (map fst cs) l' ->
  sign_keys sign_segwit sign_legacy keys base = Ok (fold_left comb l' base, existsb snd cs) /\
  psbt_serialize (fold_left comb l' base) = psbt_serialize (fold_left comb (map fst cs) base).
Proof. exact separate_signers_any_combination_order. Qed.
Print Assumptions C10_separate_signers_any_combination_order.

(* PSBT.finalize succeeds exactly when every input can be finalised; then every input has a final
   scriptSig and the extractor's assembly exists *)
Theorem C10_finalize_whole : forall p : psbt,
  length (p_ins p) = length (t_ins (p_tx p)) ->
  ((exists p', finalize p = Ok p') <->
   forall j st ti, nth_error (p_ins p) j = Some st -> nth_error (t_ins (p_tx p)) j = Some ti ->
                   exists st', in_finalize st ti = Ok st') /\
  forall p', finalize p = Ok p' ->
    p_tx p' = p_tx p /\ p_outs p' = p_outs p /\ p_hd p' = p_hd p /\ p_extra p' = p_extra p /\
    length (p_ins p') = length (p_ins p) /\
    (forall j st ti, nth_error (p_ins p) j = Some st -> nth_error (t_ins (p_tx p)) j = Some ti ->
       exists st', nth_error (p_ins p') j = Some st' /\ in_finalize st ti = Ok st') /\
    (forall t0, tx_clone (p_tx p) = Ok t0 -> length (t_ins t0) = length (p_ins p) ->
       exists t, assemble_tx p' = Ok t).
Proof. exact finalize_whole. Qed.
Print Assumptions C10_finalize_whole.

Theorem C10_in_finalize_shape : forall st ti st',
  in_finalize st ti = Ok st' ->
  pi_script_sig st' <> None /\ pi_sigs st' = [] /\ pi_named st' = [] /\ pi_redeem st' = None /\
  pi_wscript st' = None /\ pi_hash_type st' = None /\
  pi_prev_tx st' = pi_prev_tx st /\ pi_prev_out st' = pi_prev_out st /\ pi_extra st' = pi_extra st.
Proof. exact in_finalize_shape. Qed.
Print Assumptions C10_in_finalize_shape.

(* ------------------------------------------------------------------ *)
(* (20) the sighash-type entry (since fix afccdfa): accepted exactly when the value is four bytes long, and an
   accepted value is what the serialiser writes back — a loaded sighash type can always be serialised.
   (Before the fix a longer value was loaded as an integer >= 2^32 and serialize() raised OverflowError.) *)
From V Require Import Proofs.PsbtSighashP.

Theorem C10_sighash_entry_exact : forall sec_ok fuel net ti v e rest st,
  kv [3] v = Ok e -> zlen v < 9223372036854775808 -> truthy_int (pi_hash_type st) = false ->
  in_loop sec_ok (S fuel) net ti (e ++ rest) st =
    if (length v =? 4)%nat
    then in_loop sec_ok fuel net ti rest (set_hash_type st (Some (from_le v)))
    else Err.
Proof. exact sighash_entry_exact. Qed.
Print Assumptions C10_sighash_entry_exact.

Theorem C10_sighash_value_reserialises : forall v,
  bytes_ok v -> length v = 4%nat ->
  0 <= from_le v < 4294967296 /\ int_to_le (from_le v) 4 = Ok v.
Proof. exact sighash_value_reserialises. Qed.
Print Assumptions C10_sighash_value_reserialises.

Theorem C10_five_byte_sighash_type_refused :
  forall hash160 sha256 hash256 sec_ok sig_parse_ok ecdsa_verify sighash_legacy sighash_segwit
         verify_input descends,
  psbt_parse hash160 sha256 hash256 sec_ok sig_parse_ok ecdsa_verify sighash_legacy
             sighash_segwit verify_input descends hw_bytes = Err.
Proof. exact five_byte_sighash_type_refused. Qed.
Print Assumptions C10_five_byte_sighash_type_refused.

(* ------------------------------------------------------------------ *)
(* (21) the Updater on what the Creator hands over (a blank map) with CONSISTENT lookups leaves maps that
   PSBTIn.validate / PSBTOut.validate accept, for every script type: what update() adds is consistent
   with the transaction.  [lookups_ok]: tx_lookup[id] has that id, redeem_lookup[h] / witness_lookup[s]
   hash to their keys, pubkey_lookup[hash160 sec] is the key with that hash, and the keys found for the
   commands of a multisig script are those commands. *)
From V Require Import Proofs.PsbtUpdateValidP.

Theorem C10_in_update_blank_validates : forall hash160 sha256 hash256 txl pk rl wl ti st',
  lookups_ok hash160 sha256 hash256 txl pk rl wl ->
  in_update txl pk rl wl empty_in ti = Ok st' ->
  in_validate hash160 sha256 hash256 st' ti = Ok tt.
Proof. exact in_update_blank_validates. Qed.
Print Assumptions C10_in_update_blank_validates.

Theorem C10_out_update_blank_validates : forall hash160 sha256 hash256 txl pk rl wl to st',
  lookups_ok hash160 sha256 hash256 txl pk rl wl ->
  out_update pk rl wl empty_out to = Ok st' ->
  out_validate hash160 sha256 st' to = Ok tt.
Proof. exact out_update_blank_validates. Qed.
Print Assumptions C10_out_update_blank_validates.

(* non-vacuity: consistent lookups for the 2-of-3 P2WSH wallet of the examples (hash oracle as above) *)
Example lookups_ok_instance :
  lookups_ok (fun _ => repeatz 7 20) (fun _ => repeatz 9 32) (fun _ => repeatz 1 32)
    [(repeatz 1 32, {| t_version := 1; t_ins := [];
                       t_outs := [{| o_amount := 5; o_script := mk_script [Op 0; Push (repeatz 9 32)] |}];
                       t_locktime := 0; t_segwit := false |})]
    [([2; 2], ([2; 2], [7; 7; 7; 7]))] [] [(repeatz 9 32, ex_ws)].
Proof.
  assert (D : forall {V} (k k0 : bytes) (v x : V), dget [(k0, v)] k = Some x -> k = k0 /\ x = v).
  { intros V k k0 v x H. cbn in H. destruct (bcmp k k0) eqn:E; try discriminate.
    apply bcmp_eq in E. inversion H. auto. }
  constructor.
  - intros k t H. apply D in H as [-> ->]. vm_compute. reflexivity.
  - intros h r H. discriminate H.
  - intros s w H. apply D in H as [-> ->]. vm_compute. reflexivity.
  - intros h sec path L H. apply D in H as [-> _]. discriminate L.
  - intros s w H c sec path Hc Hg. apply D in H as [-> ->]. cbn in Hc.
    destruct Hc as [<-|[<-|[<-|[<-|[<-|[<-|[]]]]]]]; cbn in Hg; try discriminate Hg. inversion Hg. reflexivity.
  - intros h r H. discriminate H.
Qed.

(* ------------------------------------------------------------------ *)
(* (22) Creator + Updater: PSBT.update applied to the bare PSBT of an unsigned transaction (blank maps,
   no global xpubs: what PSBT.create builds before it calls update) with consistent lookups gives a PSBT
   that PSBT.validate accepts, whatever part of the lookups is missing *)
From V Require Import Proofs.PsbtCreateValidP.

Theorem C10_update_bare_validates :
  forall hash160 sha256 hash256 sig_parse_ok ecdsa_verify sighash_legacy sighash_segwit verify_input descends
         txl pk rl wl (t : tx) extra p',
  lookups_ok hash160 sha256 hash256 txl pk rl wl ->
  Forall (fun ti => s_cmds (i_script ti) = []) (t_ins t) ->
  psbt_update txl pk rl wl (bare t extra) = Ok p' ->
  validate hash160 sha256 hash256 sig_parse_ok ecdsa_verify sighash_legacy sighash_segwit verify_input
           descends p' = Ok tt.
Proof. intros. eapply update_bare_validates; eauto. Qed.
Print Assumptions C10_update_bare_validates.

(* ------------------------------------------------------------------ *)
(* (23) PSBT.sign(hd_priv) (Model/PsbtSignHd.v) changes nothing but partial signatures *)
From V Require Import Model.PsbtSignHd Proofs.PsbtSignHdP.

Theorem C10_sign_hd_only_sigs : forall sign_segwit sign_legacy derive fp p P b,
  sign_hd sign_segwit sign_legacy derive fp p = Ok (P, b) ->
  p_tx P = p_tx p /\ p_outs P = p_outs p /\ p_hd P = p_hd p /\ p_extra P = p_extra p /\
  Forall2 (fun a x => exists s, x = set_sigs a s) (p_ins p) (p_ins P).
Proof. exact sign_hd_only_sigs. Qed.
Print Assumptions C10_sign_hd_only_sigs.

(* non-vacuity: the root whose fingerprint the derivations of [ex_named_psbt] carry signs, another does not *)
Example sign_hd_instance :
  (exists P, sign_hd ex_signer (fun _ _ _ _ => Err) (fun path => Ok (2 :: firstn 1 path)) [0; 0; 0; 0] ex_named_psbt
             = Ok (P, true)) /\
  sign_hd ex_signer (fun _ _ _ _ => Err) (fun path => Ok (2 :: firstn 1 path)) [9; 9; 9; 9] ex_named_psbt
  = Ok (ex_named_psbt, false).
Proof. split; [eexists|]; vm_compute; reflexivity. Qed.
