(* Props/C02.v — BIP340 Schnorr: signatures equal the specification and verify exactly per spec.

   Model: Model/Pecc.v (bip340_k, schnorr_sign, schnorr_verify, schnorr_parse, parse_xonly,
   tagged_hash), Model/Phash.v (tagged_hash with TAG_HASH_CACHE as state; the byte-level call
   sequence schnorr_verify_bytes), validated against buidl/pecc.py, buidl/phash.py by
   harness/props/c02.py.  Spec: Spec/Bip340.v (Sign, Verify, lift_x from the BIP text).

   Premises that remain hypotheses (never axioms); all are discharged on the toy curve below:
     scalar_laws C         group axioms, order n, p and n prime (Proofs/GroupHyp.v)
     ca C = 0, cp C mod 4 = 3, cp C <= 2^256, cn C <= 2^256
                           shape of the parameters (closed facts for secp256k1, Example below)
     lift_x C 0 = None     no curve point has x = 0 (the code maps the x-only key 0 to the point
                           at infinity); a closed computation for secp256k1 (Example below)
   SHA-256 is universally quantified. *)
From Coq Require Import Znumtheory.
From V Require Import Base.Prelude Base.Ints Model.Pecc Model.Phash Proofs.GroupHyp Proofs.ToyCurve
  Spec.Bip340 Proofs.EcdsaP Proofs.Bip340P.

(* ---------------------------------------------------------------- (1) signing = BIP340 *)

(* for every integer secret (also outside [1, n-1]: both fail), every 32-byte message and
   auxiliary value: the same 64 bytes, or both fail (nonce 0, probability 2^-256) *)
Theorem C02_sign_eq_bip340 : forall C sha256,
  scalar_laws C -> ca C = 0 -> cp C mod 4 = 3 -> cp C <= 2 ^ 256 -> cn C <= 2 ^ 256 ->
  forall d m a, length m = 32%nat -> length a = 32%nat ->
  schnorr_sign C sha256 d m a = opt_res (bip340_sign C sha256 d m a).
Proof. exact sign_eq_bip340. Qed.
Print Assumptions C02_sign_eq_bip340.

(* ---------------------------------------------------------------- (2) the signature verifies *)

Theorem C02_sign_verifies : forall C sha256,
  scalar_laws C -> ca C = 0 -> cp C mod 4 = 3 -> cp C <= 2 ^ 256 -> cn C <= 2 ^ 256 ->
  lift_x C 0 = None ->
  forall d m a sig, length m = 32%nat -> length a = 32%nat ->
  schnorr_sign C sha256 d m a = Ok sig ->
  length sig = 64%nat /\ bytes_ok sig /\
  schnorr_verify_bytes C sha256 (xonly (mulT C d (G C))) m sig = Ok true /\
  bip340_verify C sha256 (xonly (mulT C d (G C))) m sig = true.
Proof. exact sign_verifies. Qed.
Print Assumptions C02_sign_verifies.

(* signing raises only when the derived nonce is 0 *)
Theorem C02_sign_total : forall C sha256,
  scalar_laws C -> ca C = 0 -> cp C mod 4 = 3 -> cp C <= 2 ^ 256 -> cn C <= 2 ^ 256 ->
  forall d m a k0, 1 <= d < cn C -> length m = 32%nat -> length a = 32%nat ->
  bip340_k C sha256 d m a = Ok k0 -> k0 <> 0 ->
  exists sig, schnorr_sign C sha256 d m a = Ok sig.
Proof. exact sign_total. Qed.
Print Assumptions C02_sign_total.

(* ---------------------------------------------------------------- (3) verification = BIP340 Verify *)

(* every 32-byte x-only key, every message, every 64-byte string: S256Point.parse +
   SchnorrSignature.parse + verify_schnorr returns True exactly when BIP340 Verify succeeds;
   covers R = 0, R >= p, R not on the curve, s >= n, key 0 / >= p / not on the curve *)
Theorem C02_verify_iff_bip340 : forall C sha256,
  scalar_laws C -> ca C = 0 -> cp C mod 4 = 3 -> cp C <= 2 ^ 256 ->
  lift_x C 0 = None ->
  forall pk m sig,
  length pk = 32%nat -> bytes_ok pk -> length sig = 64%nat -> bytes_ok sig ->
  schnorr_accepts C sha256 pk m sig = bip340_verify C sha256 pk m sig.
Proof. exact verify_iff_bip340. Qed.
Print Assumptions C02_verify_iff_bip340.

(* s >= n is rejected at parse time without any hypothesis *)
Theorem C02_parse_rejects_big_s : forall C sig,
  cn C <= from_be (firstn 32 (skipn 32 sig)) -> schnorr_parse C sig = Err.
Proof.
  intros C sig H. unfold schnorr_parse. destruct (parse_point C (firstn 32 sig)); [|reflexivity].
  cbn [bind]. destruct (cn C <=? from_be (firstn 32 (skipn 32 sig))) eqn:E; [reflexivity|].
  apply Z.leb_gt in E. lia.
Qed.
Print Assumptions C02_parse_rejects_big_s.

(* ---------------------------------------------------------------- (4) tagged-hash cache *)

(* for every call history, starting from any cache that satisfies the invariant (in
   particular the empty one), every digest equals sha256(sha256(tag) || sha256(tag) || msg)
   and the invariant is preserved *)
Theorem C02_tagged_hash_cache_transparent : forall sha256 calls c,
  cache_ok sha256 c ->
  snd (th_run sha256 c calls) = map (fun '(tag, msg) => tagged_hash sha256 tag msg) calls /\
  cache_ok sha256 (fst (th_run sha256 c calls)).
Proof. exact tagged_hash_cache_transparent. Qed.
Print Assumptions C02_tagged_hash_cache_transparent.

Theorem C02_tagged_hash_from_empty_cache : forall sha256 calls,
  snd (th_run sha256 [] calls) =
  map (fun '(tag, msg) => sha256 (sha256 tag ++ sha256 tag ++ msg)) calls.
Proof.
  intros sha256 calls.
  exact (proj1 (tagged_hash_cache_transparent sha256 calls [] (cache_ok_nil sha256))).
Qed.
Print Assumptions C02_tagged_hash_from_empty_cache.

(* ---------------------------------------------------------------- parameters: secp256k1 *)

Example secp256k1_shape :
  ca secp256k1 = 0 /\ cp secp256k1 mod 4 = 3 /\ cp secp256k1 <= 2 ^ 256 /\ cn secp256k1 <= 2 ^ 256.
Proof. repeat split; try reflexivity; cbn [cp cn secp256k1]; lia. Qed.

(* 7 is not a square modulo p: lift_x(0) fails (one 256-bit modular exponentiation) *)
Example secp256k1_lift_x_0 : lift_x secp256k1 0 = None.
Proof. vm_compute. reflexivity. Qed.

(* ---------------------------------------------------------------- non-vacuity: the toy curve *)

Example toy_shape : ca toy = 0 /\ cp toy mod 4 = 3 /\ cp toy <= 2 ^ 256 /\ cn toy <= 2 ^ 256.
Proof. repeat split; try reflexivity; cbn [cp cn toy]; lia. Qed.
Example toy_lift_x_0 : lift_x toy 0 = None.
Proof. vm_compute. reflexivity. Qed.

Section ToyInstances.
Variable sha256 : bytes -> bytes.
Let sh := toy_shape.

Example toy_sign_eq_bip340 :=
  C02_sign_eq_bip340 toy sha256 toy_scalar_laws (proj1 sh) (proj1 (proj2 sh))
    (proj1 (proj2 (proj2 sh))) (proj2 (proj2 (proj2 sh))).
Example toy_sign_verifies :=
  C02_sign_verifies toy sha256 toy_scalar_laws (proj1 sh) (proj1 (proj2 sh))
    (proj1 (proj2 (proj2 sh))) (proj2 (proj2 (proj2 sh))) toy_lift_x_0.
Example toy_verify_iff_bip340 :=
  C02_verify_iff_bip340 toy sha256 toy_scalar_laws (proj1 sh) (proj1 (proj2 sh))
    (proj1 (proj2 (proj2 sh))) toy_lift_x_0.
End ToyInstances.

(* a concrete run on the toy curve with a toy "hash" (the theorems hold for every function):
   both key parities occur, the signature is produced and accepted *)
Definition toy_hash (b : bytes) : bytes := repeatz 0 31 ++ [fold_left Z.add b 0 mod 256].
Definition toy_sign_then_verify (d : Z) : bool :=
  match schnorr_sign toy toy_hash d (repeatz 1 32) (repeatz 0 32) with
  | Ok sig => schnorr_accepts toy toy_hash (xonly (mulT toy d (G toy))) (repeatz 1 32) sig &&
              bip340_verify toy toy_hash (xonly (mulT toy d (G toy))) (repeatz 1 32) sig
  | Err => false
  end.
Example toy_run_even_odd :
  parity (mulT toy 1 (G toy)) = Ok 0 /\ parity (mulT toy 3 (G toy)) = Ok 1 /\
  toy_sign_then_verify 1 = true /\ toy_sign_then_verify 3 = true.
Proof. vm_compute. repeat split; reflexivity. Qed.

(* The constants written in the model are the constants of the SOURCE: coq/Generated/SrcConsts.v is regenerated
   from /repo/buidl/*.py by harness/gen_coq_consts.py on every run; the statements are spelled out in
   Proofs/ConstsTie.v (secp256k1_is_source_stmt). *)
From V Require Proofs.ConstsTie.
Theorem C02_constants_match_source : ConstsTie.secp256k1_is_source_stmt.
Proof. exact ConstsTie.secp256k1_is_source. Qed.
Print Assumptions C02_constants_match_source.
