(* Props/C02.v — BIP340 Schnorr: signatures equal the specification and verify exactly per spec.

   Model: Model/Pecc.v (bip340_k, schnorr_sign, schnorr_verify, schnorr_parse, parse_xonly,
   tagged_hash), Model/Phash.v (tagged_hash with TAG_HASH_CACHE as state; the byte-level call
   sequence schnorr_verify_bytes; the signature object, aux=None, __eq__; sign / verify / sessions
   with the cache threaded as state), validated against buidl/pecc.py, buidl/phash.py by
   harness/props/c02.py.  Spec: Spec/Bip340.v (Sign, Verify, lift_x, nonce from the BIP text).
   (1)-(4): the property on its quantifier; (5)-(11): objects of either parity, strings of any length,
   SEC keys, literal reject clauses, s uniqueness / message binding, codec, nonce, cache inside the API.

   Premises that remain hypotheses (never axioms); all are discharged on the toy curve below:
     scalar_laws C         group axioms, order n, p and n prime (Proofs/GroupHyp.v)
     ca C = 0, cp C mod 4 = 3, cp C <= 2^256, cn C <= 2^256
                           shape of the parameters (closed facts for secp256k1, Example below)
     lift_x C 0 = None     no curve point has x = 0 (the code maps the x-only key 0 to the point
                           at infinity); a closed computation for secp256k1 (Example below)
   SHA-256 is universally quantified. *)
From Coq Require Import Znumtheory.
From V Require Import Base.Prelude Base.Ints Model.Pecc Model.Phash Proofs.GroupHyp Proofs.ToyCurve
  Spec.Bip340 Proofs.EcdsaP Proofs.Bip340P Proofs.Bip340ExtP.

(* ---------------------------------------------------------------- (1) signing = BIP340 *)

(* for every integer secret (also outside [1, n-1]: both fail), every 32-byte message and
   auxiliary value: the same 64 bytes, or both fail (nonce 0, probability 2^-256) *)
Theorem C02_sign_eq_bip340 : forall C sha256,
  scalar_laws C -> ca C = 0 -> cp C mod 4 = 3 -> cp C <= 2 ^ 256 -> cn C <= 2 ^ 256 ->
  forall d m a, length m = 32%nat -> length a = 32%nat ->
  schnorr_sign C sha256 d m a = opt_res (bip340_sign C sha256 d m a).
Proof. exact sign_eq_bip340. Qed.
Print Assumptions C02_sign_eq_bip340.

(* ---------------------------------------------------------------- (2) the signature verifies *)

Theorem C02_sign_verifies : forall C sha256,
  scalar_laws C -> ca C = 0 -> cp C mod 4 = 3 -> cp C <= 2 ^ 256 -> cn C <= 2 ^ 256 ->
  lift_x C 0 = None ->
  forall d m a sig, length m = 32%nat -> length a = 32%nat ->
  schnorr_sign C sha256 d m a = Ok sig ->
  length sig = 64%nat /\ bytes_ok sig /\
  schnorr_verify_bytes C sha256 (xonly (mulT C d (G C))) m sig = Ok true /\
  bip340_verify C sha256 (xonly (mulT C d (G C))) m sig = true.
Proof. exact sign_verifies. Qed.
Print Assumptions C02_sign_verifies.

(* signing raises only when the derived nonce is 0 *)
Theorem C02_sign_total : forall C sha256,
  scalar_laws C -> ca C = 0 -> cp C mod 4 = 3 -> cp C <= 2 ^ 256 -> cn C <= 2 ^ 256 ->
  forall d m a k0, 1 <= d < cn C -> length m = 32%nat -> length a = 32%nat ->
  bip340_k C sha256 d m a = Ok k0 -> k0 <> 0 ->
  exists sig, schnorr_sign C sha256 d m a = Ok sig.
Proof. exact sign_total. Qed.
Print Assumptions C02_sign_total.

(* ---------------------------------------------------------------- (3) verification = BIP340 Verify *)

(* every 32-byte x-only key, every message, every 64-byte string: S256Point.parse +
   SchnorrSignature.parse + verify_schnorr returns True exactly when BIP340 Verify succeeds;
   covers R = 0, R >= p, R not on the curve, s >= n, key 0 / >= p / not on the curve *)
Theorem C02_verify_iff_bip340 : forall C sha256,
  scalar_laws C -> ca C = 0 -> cp C mod 4 = 3 -> cp C <= 2 ^ 256 ->
  lift_x C 0 = None ->
  forall pk m sig,
  length pk = 32%nat -> bytes_ok pk -> length sig = 64%nat -> bytes_ok sig ->
  schnorr_accepts C sha256 pk m sig = bip340_verify C sha256 pk m sig.
Proof. exact verify_iff_bip340. Qed.
Print Assumptions C02_verify_iff_bip340.

(* s >= n is rejected at parse time without any hypothesis *)
Theorem C02_parse_rejects_big_s : forall C sig,
  cn C <= from_be (firstn 32 (skipn 32 sig)) -> schnorr_parse C sig = Err.
Proof.
  intros C sig H. unfold schnorr_parse. destruct (parse_point C (firstn 32 sig)); [|reflexivity].
  cbn [bind]. destruct (cn C <=? from_be (firstn 32 (skipn 32 sig))) eqn:E; [reflexivity|].
  apply Z.leb_gt in E. lia.
Qed.
Print Assumptions C02_parse_rejects_big_s.

(* ---------------------------------------------------------------- (4) tagged-hash cache *)

(* for every call history, starting from any cache that satisfies the invariant (in
   particular the empty one), every digest equals sha256(sha256(tag) || sha256(tag) || msg)
   and the invariant is preserved *)
Theorem C02_tagged_hash_cache_transparent : forall sha256 calls c,
  cache_ok sha256 c ->
  snd (th_run sha256 c calls) = map (fun '(tag, msg) => tagged_hash sha256 tag msg) calls /\
  cache_ok sha256 (fst (th_run sha256 c calls)).
Proof. exact tagged_hash_cache_transparent. Qed.
Print Assumptions C02_tagged_hash_cache_transparent.

Theorem C02_tagged_hash_from_empty_cache : forall sha256 calls,
  snd (th_run sha256 [] calls) =
  map (fun '(tag, msg) => sha256 (sha256 tag ++ sha256 tag ++ msg)) calls.
Proof.
  intros sha256 calls.
  exact (proj1 (tagged_hash_cache_transparent sha256 calls [] (cache_ok_nil sha256))).
Qed.
Print Assumptions C02_tagged_hash_from_empty_cache.

(* ---------------------------------------------------------------- parameters: secp256k1 *)

Example secp256k1_shape :
  ca secp256k1 = 0 /\ cp secp256k1 mod 4 = 3 /\ cp secp256k1 <= 2 ^ 256 /\ cn secp256k1 <= 2 ^ 256.
Proof. repeat split; try reflexivity; cbn [cp cn secp256k1]; lia. Qed.

(* 7 is not a square modulo p: lift_x(0) fails (one 256-bit modular exponentiation) *)
Example secp256k1_lift_x_0 : lift_x secp256k1 0 = None.
Proof. vm_compute. reflexivity. Qed.

(* ---------------------------------------------------------------- non-vacuity: the toy curve *)

Example toy_shape : ca toy = 0 /\ cp toy mod 4 = 3 /\ cp toy <= 2 ^ 256 /\ cn toy <= 2 ^ 256.
Proof. repeat split; try reflexivity; cbn [cp cn toy]; lia. Qed.
Example toy_lift_x_0 : lift_x toy 0 = None.
Proof. vm_compute. reflexivity. Qed.

Section ToyInstances.
Variable sha256 : bytes -> bytes.
Let sh := toy_shape.

Example toy_sign_eq_bip340 :=
  C02_sign_eq_bip340 toy sha256 toy_scalar_laws (proj1 sh) (proj1 (proj2 sh))
    (proj1 (proj2 (proj2 sh))) (proj2 (proj2 (proj2 sh))).
Example toy_sign_verifies :=
  C02_sign_verifies toy sha256 toy_scalar_laws (proj1 sh) (proj1 (proj2 sh))
    (proj1 (proj2 (proj2 sh))) (proj2 (proj2 (proj2 sh))) toy_lift_x_0.
Example toy_verify_iff_bip340 :=
  C02_verify_iff_bip340 toy sha256 toy_scalar_laws (proj1 sh) (proj1 (proj2 sh))
    (proj1 (proj2 (proj2 sh))) toy_lift_x_0.
End ToyInstances.

(* a concrete run on the toy curve with a toy "hash" (the theorems hold for every function):
   both key parities occur, the signature is produced and accepted *)
Definition toy_hash (b : bytes) : bytes := repeatz 0 31 ++ [fold_left Z.add b 0 mod 256].
Definition toy_sign_then_verify (d : Z) : bool :=
  match schnorr_sign toy toy_hash d (repeatz 1 32) (repeatz 0 32) with
  | Ok sig => schnorr_accepts toy toy_hash (xonly (mulT toy d (G toy))) (repeatz 1 32) sig &&
              bip340_verify toy toy_hash (xonly (mulT toy d (G toy))) (repeatz 1 32) sig
  | Err => false
  end.
Example toy_run_even_odd :
  parity (mulT toy 1 (G toy)) = Ok 0 /\ parity (mulT toy 3 (G toy)) = Ok 1 /\
  toy_sign_then_verify 1 = true /\ toy_sign_then_verify 3 = true.
Proof. vm_compute. repeat split; reflexivity. Qed.

(* ================================================================================================
   Deepening (Proofs/Bip340ExtP.v).  Same premises as above; every theorem is instantiated on the
   toy curve in Section ToyInstances2 and exercised by concrete runs below.
   ================================================================================================ *)

(* ---------------------------------------------------------------- (5) verify_schnorr on objects *)

(* S256Point.verify_schnorr(msg, sig) on ANY point object the constructor accepts (either parity: the
   `-1 * self` branch) and ANY signature object (R a finite point of either parity, s any integer: the
   constructor only rejects s >= n and the addition reduces s mod n) answers BIP340 Verify of
   bytes(x(P)), m, bytes(x(R)) || bytes(s mod n) *)
Theorem C02_verify_object : forall C sha256,
  scalar_laws C -> ca C = 0 -> cp C mod 4 = 3 -> cp C <= 2 ^ 256 -> cn C <= 2 ^ 256 ->
  forall xp yp xr yr m s, valid C (Some (xp, yp)) -> valid C (Some (xr, yr)) ->
  schnorr_verify C sha256 (Some (xp, yp)) m (Some (xr, yr)) s =
  Ok (bip340_verify C sha256 (to_be 32 xp) m (to_be 32 xr ++ to_be 32 (s mod cn C))).
Proof. exact verify_object. Qed.
Print Assumptions C02_verify_object.

(* the point at infinity as key raises (no .parity attribute); as R it is answered False *)
Theorem C02_verify_object_infinite_key : forall C sha256 m r s, schnorr_verify C sha256 None m r s = Err.
Proof. exact verify_object_inf_key. Qed.
Print Assumptions C02_verify_object_infinite_key.

Theorem C02_verify_object_infinite_R : forall C sha256, scalar_laws C ->
  forall xp yp m s, valid C (Some (xp, yp)) -> schnorr_verify C sha256 (Some (xp, yp)) m None s = Ok false.
Proof. exact verify_object_inf_R. Qed.
Print Assumptions C02_verify_object_infinite_R.

(* ---------------------------------------------------------------- (6) byte strings of any length *)

(* S256Point.parse(pk).verify_schnorr(msg, SchnorrSignature.parse(sig)) for key strings of ANY length
   (x-only, compressed and uncompressed SEC) and signature strings of ANY length: True exactly when
   both parsers succeed with finite points and BIP340 Verify accepts their 32-byte x coordinates and s *)
Theorem C02_accepts_general : forall C sha256,
  scalar_laws C -> ca C = 0 -> cp C mod 4 = 3 -> cp C <= 2 ^ 256 -> cn C <= 2 ^ 256 ->
  forall pk m sig, bytes_ok sig ->
  schnorr_accepts C sha256 pk m sig =
  match parse_point C pk, schnorr_parse C sig with
  | Ok (Some (xp, _)), Ok (Some (xr, _), s) =>
      bip340_verify C sha256 (to_be 32 xp) m (to_be 32 xr ++ to_be 32 s)
  | _, _ => false
  end.
Proof. exact accepts_general. Qed.
Print Assumptions C02_accepts_general.

(* signature strings of at least 32 bytes: accepted exactly when BIP340 Verify accepts the canonical
   64-byte form (bytes 32..63 — a short tail is a short read — as an integer; later bytes ignored).
   OUTSIDE the property's quantifier (64-byte strings), where sig_canon sig = sig: a 63-byte string
   obtained by dropping a leading zero byte of s, and every extension of a valid signature, are accepted. *)
Theorem C02_accepts_any_length : forall C sha256,
  scalar_laws C -> ca C = 0 -> cp C mod 4 = 3 -> cp C <= 2 ^ 256 ->
  lift_x C 0 = None ->
  forall pk m sig, length pk = 32%nat -> bytes_ok pk -> bytes_ok sig -> (32 <= length sig)%nat ->
  schnorr_accepts C sha256 pk m sig = bip340_verify C sha256 pk m (sig_canon sig).
Proof. exact accepts_any_length. Qed.
Print Assumptions C02_accepts_any_length.

Theorem C02_sig_canon_64 : forall sig, length sig = 64%nat -> bytes_ok sig -> sig_canon sig = sig.
Proof. exact sig_canon_64. Qed.
Print Assumptions C02_sig_canon_64.

Theorem C02_accepts_too_short : forall C sha256 pk m sig, (length sig < 32)%nat ->
  schnorr_accepts C sha256 pk m sig = false.
Proof. exact accepts_too_short. Qed.
Print Assumptions C02_accepts_too_short.

Theorem C02_accepts_ignores_tail : forall C sha256 pk m sig extra, length sig = 64%nat ->
  schnorr_accepts C sha256 pk m (sig ++ extra) = schnorr_accepts C sha256 pk m sig.
Proof. exact accepts_ignores_tail. Qed.
Print Assumptions C02_accepts_ignores_tail.

(* a key given in SEC format (33 or 65 bytes, either parity) verifies exactly like its x-only form *)
Theorem C02_accepts_sec_key : forall C sha256,
  scalar_laws C -> ca C = 0 -> cp C mod 4 = 3 -> cp C <= 2 ^ 256 -> cn C <= 2 ^ 256 ->
  lift_x C 0 = None ->
  forall x y c kb m sig, valid C (Some (x, y)) -> sec (Some (x, y)) c = Ok kb -> bytes_ok sig ->
  schnorr_accepts C sha256 kb m sig = schnorr_accepts C sha256 (xonly (Some (x, y))) m sig.
Proof. exact accepts_sec_key. Qed.
Print Assumptions C02_accepts_sec_key.

(* True / False / exception, exactly: on a 32-byte key and a 64-byte string the call sequence raises exactly
   for key = 0 (AttributeError: the point at infinity has no parity), for a key or a non-zero R that is
   no x coordinate (ValueError) and for s >= n (ValueError); it returns False for R = 0; otherwise it
   returns the verdict of BIP340 Verify.  (No "x = 0 is not on the curve" premise is needed here.) *)
Theorem C02_verify_bytes_exact : forall C sha256,
  scalar_laws C -> ca C = 0 -> cp C mod 4 = 3 -> cp C <= 2 ^ 256 -> cn C <= 2 ^ 256 ->
  forall pk m sig, length pk = 32%nat -> bytes_ok pk -> length sig = 64%nat -> bytes_ok sig ->
  schnorr_verify_bytes C sha256 pk m sig =
  let r := from_be (firstn 32 sig) in
  let s := from_be (firstn 32 (skipn 32 sig)) in
  if from_be pk =? 0 then Err
  else match lift_x C (from_be pk) with
       | None => Err
       | Some _ =>
           if r =? 0 then (if cn C <=? s then Err else Ok false)
           else match lift_x C r with
                | None => Err
                | Some _ => if cn C <=? s then Err else Ok (bip340_verify C sha256 pk m sig)
                end
       end.
Proof. exact verify_bytes_exact. Qed.
Print Assumptions C02_verify_bytes_exact.

(* ---------------------------------------------------------------- (7) the reject clauses, literally *)

(* s >= n: rejected for every key string, message and signature string — no hypothesis at all *)
Theorem C02_reject_s_ge_n : forall C sha256 pk m sig,
  cn C <= from_be (firstn 32 (skipn 32 sig)) -> schnorr_accepts C sha256 pk m sig = false.
Proof. exact reject_s_ge_n. Qed.
Print Assumptions C02_reject_s_ge_n.

Theorem C02_reject_R_zero : forall C sha256, scalar_laws C -> cp C mod 4 = 3 ->
  forall pk m sig, (32 <= length sig)%nat -> from_be (firstn 32 sig) = 0 ->
  schnorr_accepts C sha256 pk m sig = false.
Proof. exact reject_R_zero. Qed.
Print Assumptions C02_reject_R_zero.

(* R is not the x coordinate of a curve point *)
Theorem C02_reject_R_not_on_curve : forall C sha256, scalar_laws C -> ca C = 0 -> cp C mod 4 = 3 ->
  forall pk m sig, (32 <= length sig)%nat -> bytes_ok sig ->
  (forall y, ~ valid C (Some (from_be (firstn 32 sig), y))) ->
  schnorr_accepts C sha256 pk m sig = false.
Proof. exact reject_R_not_on_curve. Qed.
Print Assumptions C02_reject_R_not_on_curve.

Theorem C02_reject_R_ge_p : forall C sha256, scalar_laws C -> ca C = 0 -> cp C mod 4 = 3 ->
  forall pk m sig, (32 <= length sig)%nat -> bytes_ok sig ->
  cp C <= from_be (firstn 32 sig) -> schnorr_accepts C sha256 pk m sig = false.
Proof. exact reject_R_ge_p. Qed.
Print Assumptions C02_reject_R_ge_p.

(* the 32-byte key is not the x coordinate of a curve point (0, every value >= p, off the curve) *)
Theorem C02_reject_bad_key : forall C sha256, scalar_laws C -> ca C = 0 -> cp C mod 4 = 3 ->
  forall pk m sig, length pk = 32%nat -> bytes_ok pk ->
  (forall y, ~ valid C (Some (from_be pk, y))) ->
  schnorr_accepts C sha256 pk m sig = false.
Proof. exact reject_bad_key. Qed.
Print Assumptions C02_reject_bad_key.

(* ---------------------------------------------------------------- (8) altered s / altered message *)

(* altered s: for a key, a message and the R half of a signature string at most ONE s half is accepted
   (so every single-bit flip in bytes 32..63 of an accepted signature is rejected) — no assumption
   about the hash function *)
Theorem C02_accept_s_unique : forall C sha256,
  scalar_laws C -> ca C = 0 -> cp C mod 4 = 3 -> cp C <= 2 ^ 256 ->
  lift_x C 0 = None ->
  forall pk m sig sig',
  length pk = 32%nat -> bytes_ok pk -> length sig = 64%nat -> bytes_ok sig ->
  length sig' = 64%nat -> bytes_ok sig' -> firstn 32 sig' = firstn 32 sig ->
  schnorr_accepts C sha256 pk m sig = true -> schnorr_accepts C sha256 pk m sig' = true ->
  sig' = sig.
Proof. exact accept_s_unique. Qed.
Print Assumptions C02_accept_s_unique.

Theorem C02_sign_other_s_rejected : forall C sha256,
  scalar_laws C -> ca C = 0 -> cp C mod 4 = 3 -> cp C <= 2 ^ 256 -> cn C <= 2 ^ 256 ->
  lift_x C 0 = None ->
  forall d m a sig sig', length m = 32%nat -> length a = 32%nat ->
  schnorr_sign C sha256 d m a = Ok sig ->
  length sig' = 64%nat -> bytes_ok sig' -> firstn 32 sig' = firstn 32 sig -> sig' <> sig ->
  schnorr_accepts C sha256 (xonly (mulT C d (G C))) m sig' = false.
Proof. exact sign_other_s_rejected. Qed.
Print Assumptions C02_sign_other_s_rejected.

(* altered message: a second message accepted with the same key and signature is the same message, or
   two different strings collide under x |-> int(sha256(x)) mod n (the BIP340 challenge).  The other
   tamper clauses (altered key, altered R) are what "accepts exactly when BIP340 Verify accepts" means;
   their unforgeability rests on the discrete logarithm and is not a statement about this code. *)
Theorem C02_accept_msg_collision : forall C sha256,
  scalar_laws C -> ca C = 0 -> cp C mod 4 = 3 -> cp C <= 2 ^ 256 ->
  lift_x C 0 = None ->
  forall pk m m' sig,
  length pk = 32%nat -> bytes_ok pk -> length sig = 64%nat -> bytes_ok sig ->
  schnorr_accepts C sha256 pk m sig = true -> schnorr_accepts C sha256 pk m' sig = true ->
  m = m' \/ exists x y, x <> y /\ from_be (sha256 x) mod cn C = from_be (sha256 y) mod cn C.
Proof. exact accept_msg_collision. Qed.
Print Assumptions C02_accept_msg_collision.

(* ---------------------------------------------------------------- (9) the 64-byte codec and the object *)

(* SchnorrSignature.parse(sig).serialize() == sig for every accepted 64-byte string *)
Theorem C02_serialize_parse : forall C, scalar_laws C -> cp C mod 4 = 3 -> cn C <= 2 ^ 256 ->
  forall sig r s, length sig = 64%nat -> bytes_ok sig ->
  schnorr_parse C sig = Ok (r, s) -> schnorr_serialize r s = Ok sig.
Proof. intros C SL Hp Hn. exact (serialize_parse C (fun b => b) SL Hp Hn). Qed.
Print Assumptions C02_serialize_parse.

Theorem C02_reserialize_canon : forall C, scalar_laws C -> cp C mod 4 = 3 -> cn C <= 2 ^ 256 ->
  forall sig r s, (32 <= length sig)%nat -> bytes_ok sig ->
  schnorr_parse C sig = Ok (r, s) -> schnorr_serialize r s = Ok (sig_canon sig).
Proof. intros C SL Hp Hn. exact (reserialize_canon C (fun b => b) SL Hp Hn). Qed.
Print Assumptions C02_reserialize_canon.

(* SchnorrSignature.parse(SchnorrSignature(R, s).serialize()): the even representative of R, and s *)
Theorem C02_parse_serialize : forall C, scalar_laws C -> ca C = 0 -> cp C mod 4 = 3 ->
  cp C <= 2 ^ 256 -> cn C <= 2 ^ 256 ->
  forall x y s, valid C (Some (x, y)) -> x <> 0 -> 0 <= s < cn C ->
  exists b, schnorr_serialize (Some (x, y)) s = Ok b /\ length b = 64%nat /\ bytes_ok b /\
            schnorr_parse C b = Ok (evenP C (Some (x, y)), s).
Proof. exact parse_serialize. Qed.
Print Assumptions C02_parse_serialize.

(* SchnorrSignature.parse(a) == SchnorrSignature.parse(b) (the __eq__ of the class) is True exactly
   for equal accepted strings *)
Theorem C02_schnorr_parse_eq_iff : forall C, scalar_laws C -> cp C mod 4 = 3 -> cn C <= 2 ^ 256 ->
  forall a b, length a = 64%nat -> bytes_ok a -> length b = 64%nat -> bytes_ok b ->
  (schnorr_parse_eq C a b = Ok true <-> a = b /\ exists rs, schnorr_parse C a = Ok rs).
Proof. intros C SL Hp Hn. exact (schnorr_parse_eq_iff C (fun b => b) SL Hp Hn). Qed.
Print Assumptions C02_schnorr_parse_eq_iff.

(* sign_schnorr returns an object; .serialize() of it is the byte-level signing function of (1)-(2),
   and parsing those bytes gives the object back *)
Theorem C02_sign_via_obj : forall C sha256 d m a,
  schnorr_sign C sha256 d m a =
  ('(r, s) <- schnorr_sign_obj C sha256 d m a ;; schnorr_serialize r s).
Proof. exact schnorr_sign_via_obj. Qed.
Print Assumptions C02_sign_via_obj.

Theorem C02_sign_obj_roundtrip : forall C sha256,
  scalar_laws C -> ca C = 0 -> cp C mod 4 = 3 -> cp C <= 2 ^ 256 -> cn C <= 2 ^ 256 ->
  lift_x C 0 = None ->
  forall d m a r s, schnorr_sign_obj C sha256 d m a = Ok (r, s) ->
  exists sig, schnorr_sign C sha256 d m a = Ok sig /\ schnorr_serialize r s = Ok sig /\
              length sig = 64%nat /\ schnorr_parse C sig = Ok (r, s).
Proof. exact sign_obj_roundtrip. Qed.
Print Assumptions C02_sign_obj_roundtrip.

(* ---------------------------------------------------------------- (10) nonce derivation, defaults, errors *)

(* PrivateKey.bip340_k = the nonce k' of BIP340 Default Signing (Spec/Bip340.v bip340_nonce, the prefix
   of bip340_sign: C02_bip340_sign_from_nonce); both fail for a secret outside [1, n-1] *)
Theorem C02_bip340_k_eq_spec : forall C sha256, scalar_laws C -> cn C <= 2 ^ 256 ->
  forall d m a, length m = 32%nat -> length a = 32%nat ->
  bip340_k C sha256 d m a = opt_res (bip340_nonce C sha256 d m a).
Proof. exact bip340_k_eq_spec. Qed.
Print Assumptions C02_bip340_k_eq_spec.

Theorem C02_bip340_sign_from_nonce : forall C sha256 d m a,
  bip340_sign C sha256 d m a =
  match bip340_nonce C sha256 d m a with
  | None => None
  | Some k' =>
      if k' =? 0 then None
      else
        let P := mulT C d (G C) in
        let de := if has_even_y P then d else cn C - d in
        let R := mulT C k' (G C) in
        let k := if has_even_y R then k' else cn C - k' in
        let e := int_of (hash_tag sha256 t_challenge (bytesP R ++ bytesP P ++ m)) mod cn C in
        let sig := bytesP R ++ bytes32 ((k + e * de) mod cn C) in
        if bip340_verify C sha256 (bytesP P) m sig then Some sig else None
  end.
Proof. exact bip340_sign_from_nonce. Qed.
Print Assumptions C02_bip340_sign_from_nonce.

(* messages / auxiliary values that are not 32 bytes long: ValueError from both entry points *)
Theorem C02_bip340_k_bad_length : forall C sha256 d m a,
  length m <> 32%nat \/ length a <> 32%nat -> bip340_k C sha256 d m a = Err.
Proof. exact bip340_k_bad_length. Qed.
Print Assumptions C02_bip340_k_bad_length.

Theorem C02_sign_bad_length : forall C sha256 d m a,
  length m <> 32%nat \/ length a <> 32%nat -> schnorr_sign C sha256 d m a = Err.
Proof. exact sign_bad_length. Qed.
Print Assumptions C02_sign_bad_length.

(* for a secret in range signing raises EXACTLY when the derived nonce is 0 (C02_sign_total is one half) *)
Theorem C02_sign_fails_iff : forall C sha256,
  scalar_laws C -> ca C = 0 -> cp C mod 4 = 3 -> cp C <= 2 ^ 256 -> cn C <= 2 ^ 256 ->
  forall d m a, 1 <= d < cn C -> length m = 32%nat -> length a = 32%nat ->
  (schnorr_sign C sha256 d m a = Err <-> bip340_k C sha256 d m a = Ok 0).
Proof. exact sign_fails_iff. Qed.
Print Assumptions C02_sign_fails_iff.

(* sign_schnorr(msg) / sign_schnorr(msg, None) = BIP340 Sign with 32 zero bytes of auxiliary randomness *)
Theorem C02_sign_default_aux : forall C sha256,
  scalar_laws C -> ca C = 0 -> cp C mod 4 = 3 -> cp C <= 2 ^ 256 -> cn C <= 2 ^ 256 ->
  forall d m, length m = 32%nat ->
  schnorr_sign_opt C sha256 d m None = opt_res (bip340_sign C sha256 d m (repeatz 0 32)).
Proof.
  intros C sha256 SL Ha Hp Hp256 Hn256 d m Hm.
  exact (sign_eq_bip340 C sha256 SL Ha Hp Hp256 Hn256 d m (repeatz 0 32) Hm (repeatz_length 0 32)).
Qed.
Print Assumptions C02_sign_default_aux.

(* ---------------------------------------------------------------- (11) TAG_HASH_CACHE inside the Schnorr API *)

(* sign_schnorr / bip340_k / verify_schnorr executed against ANY cache that satisfies the invariant
   (every binding is tag |-> sha256(tag) * 2): the same results as the cache-free functions of
   (1)-(3), and the invariant is kept.  No hypothesis about the curve or the hash. *)
Theorem C02_sign_st_transparent : forall C sha256 c d m a, cache_ok sha256 c ->
  snd (schnorr_sign_st C sha256 c d m a) = schnorr_sign C sha256 d m a /\
  cache_ok sha256 (fst (schnorr_sign_st C sha256 c d m a)).
Proof. exact sign_st_transparent. Qed.
Print Assumptions C02_sign_st_transparent.

Theorem C02_bip340_k_st_transparent : forall C sha256 c d m a, cache_ok sha256 c ->
  snd (bip340_k_st C sha256 c d m a) = bip340_k C sha256 d m a /\
  cache_ok sha256 (fst (bip340_k_st C sha256 c d m a)).
Proof. exact bip340_k_st_transparent. Qed.
Print Assumptions C02_bip340_k_st_transparent.

Theorem C02_verify_st_transparent : forall C sha256 c pk m sig, cache_ok sha256 c ->
  snd (schnorr_verify_bytes_st C sha256 c pk m sig) = schnorr_verify_bytes C sha256 pk m sig /\
  cache_ok sha256 (fst (schnorr_verify_bytes_st C sha256 c pk m sig)).
Proof. exact verify_bytes_st_transparent. Qed.
Print Assumptions C02_verify_st_transparent.

(* a whole session — any interleaving of tagged_hash, sign and verify calls sharing the cache, from
   any cache satisfying the invariant (in particular the empty one): every answer is the cache-free one *)
Theorem C02_api_session_transparent : forall C sha256 calls c, cache_ok sha256 c ->
  snd (api_run C sha256 c calls) = map (api_pure C sha256) calls /\
  cache_ok sha256 (fst (api_run C sha256 c calls)).
Proof. exact api_session_transparent. Qed.
Print Assumptions C02_api_session_transparent.

(* ---------------------------------------------------------------- non-vacuity of (5)-(11): the toy curve *)

Section ToyInstances2.
Variable sha256 : bytes -> bytes.
Let sh := toy_shape.
Let A0 := proj1 sh.
Let P4 := proj1 (proj2 sh).
Let P256 := proj1 (proj2 (proj2 sh)).
Let N256 := proj2 (proj2 (proj2 sh)).

Example toy_verify_object := C02_verify_object toy sha256 toy_scalar_laws A0 P4 P256 N256.
Example toy_accepts_general := C02_accepts_general toy sha256 toy_scalar_laws A0 P4 P256 N256.
Example toy_accepts_any_length := C02_accepts_any_length toy sha256 toy_scalar_laws A0 P4 P256 toy_lift_x_0.
Example toy_verify_bytes_exact := C02_verify_bytes_exact toy sha256 toy_scalar_laws A0 P4 P256 N256.
Example toy_accepts_sec_key := C02_accepts_sec_key toy sha256 toy_scalar_laws A0 P4 P256 N256 toy_lift_x_0.
Example toy_reject_R_not_on_curve := C02_reject_R_not_on_curve toy sha256 toy_scalar_laws A0 P4.
Example toy_reject_bad_key := C02_reject_bad_key toy sha256 toy_scalar_laws A0 P4.
Example toy_accept_s_unique := C02_accept_s_unique toy sha256 toy_scalar_laws A0 P4 P256 toy_lift_x_0.
Example toy_sign_other_s_rejected := C02_sign_other_s_rejected toy sha256 toy_scalar_laws A0 P4 P256 N256 toy_lift_x_0.
Example toy_accept_msg_collision := C02_accept_msg_collision toy sha256 toy_scalar_laws A0 P4 P256 toy_lift_x_0.
Example toy_serialize_parse := C02_serialize_parse toy toy_scalar_laws P4 N256.
Example toy_parse_serialize := C02_parse_serialize toy toy_scalar_laws A0 P4 P256 N256.
Example toy_schnorr_parse_eq_iff := C02_schnorr_parse_eq_iff toy toy_scalar_laws P4 N256.
Example toy_sign_obj_roundtrip := C02_sign_obj_roundtrip toy sha256 toy_scalar_laws A0 P4 P256 N256 toy_lift_x_0.
Example toy_bip340_k_eq_spec := C02_bip340_k_eq_spec toy sha256 toy_scalar_laws N256.
Example toy_sign_fails_iff := C02_sign_fails_iff toy sha256 toy_scalar_laws A0 P4 P256 N256.
Example toy_sign_default_aux := C02_sign_default_aux toy sha256 toy_scalar_laws A0 P4 P256 N256.
End ToyInstances2.

(* concrete runs with the toy hash of above (byte sum mod 256): key 3 has ODD y *)
Definition toy_m : bytes := repeatz 1 32.
Definition toy_a : bytes := repeatz 0 32.
Definition toy_P3 : point := mulT toy 3 (G toy).
Definition toy_sig3 : bytes :=
  match schnorr_sign toy toy_hash 3 toy_m toy_a with Ok b => b | Err => [] end.

(* (5): the object API on the odd-y key object, with the R object of either parity and with s, s - n, s - 2n *)
Example toy_object_run :
  match schnorr_sign_obj toy toy_hash 3 toy_m toy_a, toy_P3 with
  | Ok (Some (xr, yr), s), Some (xp, yp) =>
      (yp mod 2 =? 1) && (yr mod 2 =? 0) &&
      forallb (fun '(R, s') => match schnorr_verify toy toy_hash toy_P3 toy_m R s' with Ok true => true | _ => false end)
        [(Some (xr, yr), s); (Some (xr, cp toy - yr), s); (Some (xr, yr), s - cn toy); (Some (xr, yr), s - 2 * cn toy)] &&
      match schnorr_verify toy toy_hash toy_P3 toy_m (Some (xr, yr)) ((s + 1) mod cn toy) with Ok false => true | _ => false end
  | _, _ => false
  end = true.
Proof. vm_compute. reflexivity. Qed.

(* (6): SEC keys of both compressions, an appended byte, a truncated string *)
Example toy_any_length_run :
  length toy_sig3 = 64%nat /\
  (match sec toy_P3 true, sec toy_P3 false with
   | Ok k33, Ok k65 => schnorr_accepts toy toy_hash k33 toy_m toy_sig3 && schnorr_accepts toy toy_hash k65 toy_m toy_sig3
   | _, _ => false end) = true /\
  schnorr_accepts toy toy_hash (xonly toy_P3) toy_m (toy_sig3 ++ [7]) = true /\
  (* s < 256 on the toy curve: bytes 32..62 are zero, so the 33-byte prefix + last byte reads the same s *)
  schnorr_accepts toy toy_hash (xonly toy_P3) toy_m (firstn 32 toy_sig3 ++ skipn 63 toy_sig3) = true /\
  sig_canon (firstn 32 toy_sig3 ++ skipn 63 toy_sig3) = toy_sig3 /\
  schnorr_accepts toy toy_hash (xonly toy_P3) toy_m (firstn 31 toy_sig3) = false.
Proof. vm_compute. repeat split; reflexivity. Qed.

(* (7): the reject clauses fire on concrete strings: R = 0, R = p, R = 1 (1 is not an x coordinate on
   the toy curve), s = n, key = 0 *)
Example toy_reject_run :
  let sb := skipn 32 toy_sig3 in let rb := firstn 32 toy_sig3 in let pk := xonly toy_P3 in
  forallb (fun '(k, sg) => negb (schnorr_accepts toy toy_hash k toy_m sg))
    [(pk, to_be 32 0 ++ sb); (pk, to_be 32 (cp toy) ++ sb); (pk, to_be 32 1 ++ sb);
     (pk, rb ++ to_be 32 (cn toy)); (to_be 32 0, toy_sig3)] = true /\
  lift_x toy 1 = None.
Proof. vm_compute. split; reflexivity. Qed.

(* all outcomes of C02_verify_bytes_exact occur: True, False (wrong s), False (R = 0), exception (key 0),
   exception (R = 1 is no x coordinate), exception (s = n) *)
Example toy_outcomes_run :
  let sb := skipn 32 toy_sig3 in let rb := firstn 32 toy_sig3 in let pk := xonly toy_P3 in
  map (fun '(k, sg) => schnorr_verify_bytes toy toy_hash k toy_m sg)
    [(pk, toy_sig3); (pk, rb ++ to_be 32 5); (pk, to_be 32 0 ++ sb); (to_be 32 0, toy_sig3);
     (pk, to_be 32 1 ++ sb); (pk, rb ++ to_be 32 (cn toy))]
  = [Ok true; Ok false; Ok false; Err; Err; Err].
Proof. vm_compute. reflexivity. Qed.

(* (8): of all 31 values of s exactly one is accepted with the R of the signature *)
Example toy_s_unique_run :
  length (filter (fun s => schnorr_accepts toy toy_hash (xonly toy_P3) toy_m (firstn 32 toy_sig3 ++ to_be 32 s))
                 (map Z.of_nat (seq 0 31))) = 1%nat.
Proof. vm_compute. reflexivity. Qed.

(* (8): the second disjunct of C02_accept_msg_collision is needed: the toy hash collides (same byte sum),
   and a different message is accepted with the same signature *)
Definition toy_m' : bytes := 2 :: 0 :: repeatz 1 30.
Example toy_msg_collision_run :
  toy_m' <> toy_m /\ schnorr_accepts toy toy_hash (xonly toy_P3) toy_m toy_sig3 = true /\
  schnorr_accepts toy toy_hash (xonly toy_P3) toy_m' toy_sig3 = true.
Proof. split; [discriminate|]. vm_compute. split; reflexivity. Qed.

(* (9): codec round trip and == on concrete strings *)
Example toy_codec_run :
  schnorr_reserialize toy toy_sig3 = Ok toy_sig3 /\
  schnorr_parse_eq toy toy_sig3 toy_sig3 = Ok true /\
  schnorr_parse_eq toy toy_sig3 (firstn 63 toy_sig3 ++ [1]) = Ok false.
Proof. vm_compute. repeat split; reflexivity. Qed.

(* (10): default aux, nonce = spec nonce, a zero nonce makes signing fail *)
Example toy_nonce_run :
  schnorr_sign_opt toy toy_hash 3 toy_m None = Ok toy_sig3 /\
  bip340_k toy toy_hash 3 toy_m toy_a = opt_res (bip340_nonce toy toy_hash 3 toy_m toy_a) /\
  (exists k, bip340_k toy toy_hash 3 toy_m toy_a = Ok k /\ k <> 0) /\
  (* the constant hash 0 gives the nonce 0: signing fails, as C02_sign_fails_iff says *)
  bip340_k toy (fun _ => repeatz 0 32) 3 toy_m toy_a = Ok 0 /\
  schnorr_sign toy (fun _ => repeatz 0 32) 3 toy_m toy_a = Err.
Proof. vm_compute. repeat split; try reflexivity. eexists. split; [reflexivity|discriminate]. Qed.

(* (11): a session from the empty cache and from a cache that already holds the challenge tag *)
Definition toy_session : list api_call :=
  [CallVerify (xonly toy_P3) toy_m (firstn 31 toy_sig3); CallSign 3 toy_m toy_a;
   CallHash tag_aux [1; 2]; CallVerify (xonly toy_P3) toy_m toy_sig3; CallSign 0 toy_m toy_a;
   CallVerify (xonly toy_P3) toy_m' toy_sig3; CallSign 1 toy_m (repeatz 9 32)].
Example toy_session_run :
  snd (api_run toy toy_hash [] toy_session) = map (api_pure toy toy_hash) toy_session /\
  map fst (fst (api_run toy toy_hash [] toy_session)) = [tag_challenge; tag_nonce; tag_aux] /\
  snd (api_run toy toy_hash (fst (th_run toy_hash [] [(tag_challenge, [])])) toy_session)
    = map (api_pure toy toy_hash) toy_session.
Proof. vm_compute. repeat split; reflexivity. Qed.

(* The constants written in the model are the constants of the SOURCE: coq/Generated/SrcConsts.v is regenerated
   from /repo/buidl/*.py by harness/gen_coq_consts.py on every run; the statements are spelled out in
   Proofs/ConstsTie.v (secp256k1_is_source_stmt). *)
From V Require Proofs.ConstsTie.
Theorem C02_constants_match_source : ConstsTie.secp256k1_is_source_stmt.
Proof. exact ConstsTie.secp256k1_is_source. Qed.
Print Assumptions C02_constants_match_source.
