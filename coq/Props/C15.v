(* Props/C15.v — SLIP39 shares: any k recover, fewer never do, corruption is detected.

   HMAC-SHA256 is any function returning 32 bytes; the key-derivation function of the
   Feistel network (hashlib.pbkdf2_hmac) is any function returning dklen bytes; the
   randomness consumed by split_secret is universally quantified.  GF(256) facts are
   proved exhaustively by computation on the tables produced by the model of
   ShareSet._load; the RS1024 detection theorem rests on XOR-linearity (symbolic) and a
   kernel computation over all 5456 triples of word positions (Proofs/Rs1024Sweep.v).
   Only statements here; proofs in Proofs/{Gf256Sweep,Gf256P,LagrangeP,ShamirP,FeistelP,
   ShareCodecP,Rs1024P,Rs1024Sweep,ShamirChecksP,C15Glue}.v. *)
From Coq Require Import Field_theory.
From V Require Import Base.Prelude Base.Ints Model.Mnemonic Model.Shamir Generated.Wordlists
  Proofs.Gf256P Proofs.ShamirP Proofs.FeistelP Proofs.ShareCodecP Proofs.Rs1024P
  Proofs.Rs1024Sweep Proofs.ShamirChecksP Proofs.C15Glue Proofs.ShamirPipelineP.

(* (1) GF(256): the tables built by _load *)
Theorem C15_gf256_tables :
  length exp_tbl = 255%nat /\ length log_tbl = 256%nat /\
  (forall a, 1 <= a < 256 -> gexp (glog a) = a /\ 0 <= glog a < 255) /\
  (forall i, 0 <= i < 255 -> glog (gexp i) = i /\ 1 <= gexp i < 256) /\
  (forall a b, 0 <= a < 256 -> 0 <= b < 256 -> gmulZ a b = clmul a b).
Proof.
  split; [exact exp_tbl_length|]. split; [exact log_tbl_length|].
  split; [exact exp_log_inverse|]. split; [exact log_exp_inverse | exact gmulZ_clmul].
Qed.
Print Assumptions C15_gf256_tables.

(* ... with xor as addition and the table product as multiplication they form a field *)
Theorem C15_gf256_field : field_theory gf0 gf1 gfadd gfmul gfsub gfopp gfdiv gfinv eq.
Proof. exact gf_field. Qed.
Print Assumptions C15_gf256_field.

Theorem C15_gf256_laws : forall a b c, 0 <= a < 256 -> 0 <= b < 256 -> 0 <= c < 256 ->
  gmulZ a (gmulZ b c) = gmulZ (gmulZ a b) c /\
  gmulZ a (Z.lxor b c) = Z.lxor (gmulZ a b) (gmulZ a c) /\
  gmulZ a b = gmulZ b a /\ gmulZ 1 a = a /\ (a <> 0 -> gmulZ (ginvZ a) a = 1).
Proof.
  intros a b c Ha Hb Hc. split; [now apply gmulZ_assoc|]. split; [now apply gmulZ_distr_l|].
  split; [apply gmulZ_comm|]. split; [now apply gmulZ_1_l|]. intros Hz. apply gmulZ_inv_l. lia.
Qed.
Print Assumptions C15_gf256_laws.

(* ShareSet.interpolate is Lagrange interpolation over that field, byte by byte *)
Theorem C15_interpolate_is_lagrange : forall x sd L t,
  sd <> [] -> Forall (fun p => length (snd p) = L) sd -> (t < L)%nat ->
  0 <= x < 256 -> Forall node_ok sd -> NoDup (map fst sd) -> ~ In x (map fst sd) ->
  nth t (interp_core x sd) 0 = gfz (ginterp (gf_of x) (pts_t t sd)).
Proof. exact interp_core_gf. Qed.
Print Assumptions C15_interpolate_is_lagrange.

(* (2) passphrase encryption is exactly inverted by decryption *)
Theorem C15_feistel_inverse :
  forall (kdf : bytes -> bytes -> Z -> Z -> result bytes),
  (forall p s c n r, kdf p s c n = Ok r -> zlen r = n) ->
  forall payload id e pass c ss,
  ss_id ss = id -> ss_exp ss = e ->
  encrypt kdf payload id e pass = Ok c ->
  decrypt kdf ss c pass = Ok payload /\ zlen c = zlen payload.
Proof. exact feistel_inverse. Qed.
Print Assumptions C15_feistel_inverse.

Theorem C15_encrypt_total :
  forall (kdf : bytes -> bytes -> Z -> Z -> result bytes) payload id e pass,
  Z.even (zlen payload) = true -> 0 <= id < 65536 -> 0 <= e ->
  (forall p s c n, exists r, kdf p s c n = Ok r) ->
  exists c, encrypt kdf payload id e pass = Ok c.
Proof. exact encrypt_total. Qed.
Print Assumptions C15_encrypt_total.

(* (3) share mnemonics round-trip: on the index level and as text over the shipped list *)
Theorem C15_share_codec_roundtrip : forall s, share_wf s ->
  share_of_indices (share_indices s) = Ok s /\
  length (share_indices s) = (if sh_bits s =? 128 then 20%nat else 33%nat) /\
  Forall (fun i => 0 <= i < 1024) (share_indices s).
Proof. exact share_indices_roundtrip. Qed.
Print Assumptions C15_share_codec_roundtrip.

Theorem C15_share_text_roundtrip : forall s, share_wf s ->
  exists m, share_mnemonic slip39_words s = Ok m /\ share_parse slip39_words m = Ok s.
Proof. exact share_text_roundtrip. Qed.
Print Assumptions C15_share_text_roundtrip.

Theorem C15_constructed_share_wf : forall bits id e gi gt gc mi mt value s,
  mk_share bits id e gi gt gc mi mt value = Ok s -> (bits = 128 \/ bits = 256) ->
  0 <= id < 32768 -> 0 <= e < 32 -> share_wf s.
Proof. exact mk_share_wf. Qed.
Print Assumptions C15_constructed_share_wf.

(* (4) any substitution of one to three words of a 20- or 33-word sequence that passes
   the RS1024 check fails it (any customisation string) ... *)
Theorem C15_rs1024_detects_three : forall (cs m m' : list Z),
  (length m = 20 \/ length m = 33)%nat -> length m' = length m ->
  Forall (fun v => 0 <= v < 1024) m -> Forall (fun v => 0 <= v < 1024) m' ->
  rs1024_verify_checksum cs m = true ->
  (1 <= hamming m m' <= 3)%nat ->
  rs1024_verify_checksum cs m' = false.
Proof. exact rs1024_detects_three. Qed.
Print Assumptions C15_rs1024_detects_three.

(* ... hence Share.parse rejects every such corruption of a share mnemonic *)
Theorem C15_corrupted_share_rejected : forall s m',
  share_wf s -> length m' = length (share_indices s) ->
  Forall (fun v => 0 <= v < 1024) m' ->
  (1 <= hamming (share_indices s) m' <= 3)%nat ->
  share_of_indices m' = Err.
Proof. exact corrupted_share_rejected. Qed.
Print Assumptions C15_corrupted_share_rejected.

Theorem C15_rs1024_verify_create : forall cs data,
  Forall (fun v => 0 <= v < 1024) (cs ++ data) ->
  rs1024_verify_checksum cs (data ++ rs1024_create_checksum cs data) = true.
Proof. exact rs1024_verify_create. Qed.
Print Assumptions C15_rs1024_verify_create.

(* (5) threshold recovery: for every secret of 16 or 32 bytes, every random material, every
   2 <= k <= n <= 16 accepted by split_secret, every list of at least k shares with
   pairwise distinct indices taken from the n shares (in any order) recovers the secret
   and passes the digest check *)
Theorem C15_threshold_recovery :
  forall (hmac_sha256 : bytes -> bytes -> bytes),
  (forall k m, length (hmac_sha256 k m) = 32%nat /\ bytes_ok (hmac_sha256 k m)) ->
  forall secret k n rnd shares sub,
  2 <= k -> bytes_ok secret -> bytes_ok rnd ->
  split_secret hmac_sha256 secret k n rnd = Ok shares ->
  NoDup (map fst sub) -> (forall p, In p sub -> In p shares) -> k <= zlen sub ->
  recover_secret hmac_sha256 sub = Ok secret.
Proof. exact threshold_recovery. Qed.
Print Assumptions C15_threshold_recovery.

Theorem C15_split_indices :
  forall (hmac_sha256 : bytes -> bytes -> bytes),
  (forall k m, length (hmac_sha256 k m) = 32%nat /\ bytes_ok (hmac_sha256 k m)) ->
  forall secret k n rnd shares,
  2 <= k -> bytes_ok secret -> bytes_ok rnd ->
  split_secret hmac_sha256 secret k n rnd = Ok shares ->
  map fst shares = zrange 0 (Z.to_nat n) /\
  Forall (fun p => length (snd p) = length secret /\ bytes_ok (snd p)) shares.
Proof. exact split_secret_indices. Qed.
Print Assumptions C15_split_indices.

(* END TO END: for every mnemonic accepted by generate_shares (12 or 24 words, any accepted
   spelling), passphrase, exponent 0..31, identifier, random material and 1 <= k <= n <= 16,
   the share mnemonics at any >= k pairwise distinct positions, in any order, are turned by
   recover_mnemonic into the full-word spelling m' of the original mnemonic (same entropy) *)
Theorem C15_pipeline_recovery :
  forall (sha256 : bytes -> bytes),
  (forall x, exists h t, sha256 x = h :: t /\ 0 <= h < 256) ->
  forall (hmac_sha256 : bytes -> bytes -> bytes),
  (forall k m, length (hmac_sha256 k m) = 32%nat /\ bytes_ok (hmac_sha256 k m)) ->
  forall (kdf : bytes -> bytes -> Z -> Z -> result bytes),
  (forall p s c n r, kdf p s c n = Ok r -> zlen r = n /\ bytes_ok r) ->
  forall m k n pass e id rnd ms js,
  0 <= id < 32768 -> 0 <= e < 32 -> bytes_ok rnd ->
  generate_shares sha256 hmac_sha256 kdf bip39_words slip39_words m k n pass e id rnd = Ok ms ->
  NoDup js -> Forall (fun j => (j < length ms)%nat) js -> k <= Z.of_nat (length js) ->
  exists secret m',
    mnemonic_to_bytes sha256 bip39_words m = Ok secret /\
    bytes_to_mnemonic sha256 bip39_words secret (8 * zlen secret) = Ok m' /\
    mnemonic_to_bytes sha256 bip39_words m' = Ok secret /\
    length ms = Z.to_nat n /\
    recover_mnemonic sha256 hmac_sha256 kdf bip39_words slip39_words
                     (map (fun j => nth j ms []) js) pass = Ok m'.
Proof. exact pipeline_recovery. Qed.
Print Assumptions C15_pipeline_recovery.

(* k = 1: n shares, each of them the secret (the code as fixed by a579c87) *)
Theorem C15_one_of_n : forall (hmac_sha256 : bytes -> bytes -> bytes) secret n rnd,
  1 <= n <= 16 -> (length secret = 16 \/ length secret = 32)%nat ->
  split_secret hmac_sha256 secret 1 n rnd = Ok (map (fun i => (i, secret)) (zrange 0 (Z.to_nat n))).
Proof. exact split_secret_one. Qed.
Print Assumptions C15_one_of_n.

(* (6) fewer shares than the threshold never yield a secret; different splits never mix *)
Theorem C15_below_threshold_refused : forall hmac_sha256 kdf ss pass,
  1 < ss_gt ss -> zlen (ss_shares ss) < ss_gt ss -> recover hmac_sha256 kdf ss pass = Err.
Proof. exact below_threshold_refused. Qed.
Print Assumptions C15_below_threshold_refused.

Theorem C15_recover_mnemonic_below_threshold :
  forall sha256 hmac_sha256 kdf bip39 slip39 ms pass shares s,
  mapM (share_parse slip39) ms = Ok shares -> In s shares ->
  1 < sh_gt s -> zlen shares < sh_gt s ->
  recover_mnemonic sha256 hmac_sha256 kdf bip39 slip39 ms pass = Err.
Proof. exact recover_mnemonic_below_threshold. Qed.
Print Assumptions C15_recover_mnemonic_below_threshold.

Theorem C15_below_member_threshold_refused : forall hmac_sha256 kdf ss pass i g0 g,
  0 <= i < ss_gc ss ->
  filter (fun s => sh_gi s =? i) (ss_shares ss) = g0 :: g ->
  1 < sh_mt g0 -> zlen (g0 :: g) < sh_mt g0 ->
  recover hmac_sha256 kdf ss pass = Err.
Proof. exact below_member_threshold_refused. Qed.
Print Assumptions C15_below_member_threshold_refused.

Theorem C15_mixed_splits_refused : forall shares s1 s2,
  In s1 shares -> In s2 shares ->
  sh_id s1 <> sh_id s2 \/ sh_exp s1 <> sh_exp s2 \/ sh_gt s1 <> sh_gt s2 \/
  sh_gc s1 <> sh_gc s2 \/ sh_bits s1 <> sh_bits s2 ->
  shareset_init shares = Err.
Proof. exact mixed_splits_refused. Qed.
Print Assumptions C15_mixed_splits_refused.

Theorem C15_duplicate_index_refused : forall shares,
  1 < zlen shares -> ~ NoDup (map (fun s => (sh_gi s, sh_mi s)) shares) ->
  shareset_init shares = Err.
Proof. exact duplicate_index_refused. Qed.
Print Assumptions C15_duplicate_index_refused.

Theorem C15_shareset_sound : forall shares ss,
  shareset_init shares = Ok ss ->
  ss_shares ss = shares /\ shares <> [] /\
  (forall s, In s shares -> sh_id s = ss_id ss /\ sh_exp s = ss_exp ss /\ sh_gt s = ss_gt ss /\
                            sh_gc s = ss_gc ss /\ sh_bits s = ss_bits ss) /\
  NoDup (map (fun s => (sh_gi s, sh_mi s)) shares).
Proof. exact shareset_init_sound. Qed.
Print Assumptions C15_shareset_sound.

(* non-vacuity *)
Example C15_hmac_inhabited :
  forall k m : bytes, length ((fun _ _ => repeatz 0 32) k m) = 32%nat /\ bytes_ok ((fun _ _ => repeatz 0 32) k m).
Proof. intros. split; [reflexivity | apply bytes_ok_repeatz; unfold byte_ok; lia]. Qed.
Example C15_kdf_inhabited :
  forall p s c n r, (fun (_ _ : bytes) (_ n : Z) => Ok (repeatz 0 (Z.to_nat n))) p s c n = Ok r ->
                    0 <= n -> zlen r = n.
Proof. intros p s c n r [= <-] Hn. unfold zlen. rewrite repeatz_length. lia. Qed.
Example C15_share_wf_inhabited :
  share_wf {| sh_bits := 128; sh_id := 7; sh_exp := 0; sh_gi := 1; sh_gt := 2; sh_gc := 3;
              sh_mi := 0; sh_mt := 1; sh_value := 5; sh_bytes := to_be 16 5 |}.
Proof. unfold share_wf; cbn [sh_bits sh_id sh_exp sh_gi sh_gt sh_gc sh_mi sh_mt sh_value sh_bytes].
  repeat split; try lia; reflexivity. Qed.
Example C15_split_succeeds :
  exists shares, split_secret (fun _ _ => repeatz 0 32) (repeatz 1 16) 2 3 (repeatz 2 12) = Ok shares.
Proof. eexists. vm_compute. reflexivity. Qed.
(* the premises of C15_pipeline_recovery are simultaneously satisfiable: a run that succeeds *)
Example C15_pipeline_nonvacuous :
  exists ms, generate_shares (fun _ => [0]) (fun _ _ => repeatz 0 32)
               (fun _ _ _ n => Ok (repeatz 0 (Z.to_nat n))) bip39_words slip39_words
               (join_sp (repeat (nth 0 bip39_words []) 12)) 2 3 [] 0 5 (repeatz 3 12) = Ok ms /\
             length ms = 3%nat.
Proof. eexists. split; [vm_compute; reflexivity | reflexivity]. Qed.

(* The constants written in the model are the constants of the SOURCE: coq/Generated/SrcConsts.v is regenerated
   from /repo/buidl/*.py by harness/gen_coq_consts.py on every run; the statements are spelled out in
   Proofs/ConstsTie.v (rs1024_is_source_stmt). *)
From V Require Proofs.ConstsTie.
Theorem C15_constants_match_source : ConstsTie.rs1024_is_source_stmt.
Proof. exact ConstsTie.rs1024_is_source. Qed.
Print Assumptions C15_constants_match_source.
