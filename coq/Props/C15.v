(* Props/C15.v — SLIP39 shares: any k recover, fewer never do, corruption is detected.

   HMAC-SHA256 is any function returning 32 bytes; the key-derivation function of the
   Feistel network (hashlib.pbkdf2_hmac) is any function returning dklen bytes; the
   randomness consumed by split_secret is universally quantified.  GF(256) facts are
   proved exhaustively by computation on the tables produced by the model of
   ShareSet._load; the RS1024 detection theorem rests on XOR-linearity (symbolic) and a
   kernel computation over all 5456 triples of word positions (Proofs/Rs1024Sweep.v).
   Only statements here; proofs in Proofs/{Gf256Sweep,Gf256P,LagrangeP,ShamirP,FeistelP,
   ShareCodecP,Rs1024P,Rs1024Sweep,ShamirChecksP,C15Glue,ShamirOuterP,ShareCanonP,
   ShamirSecrecyP,ShamirTwoLevelP}.v. *)
From Coq Require Import Field_theory.
From V Require Import Base.Prelude Base.Ints Model.Mnemonic Model.Shamir Generated.Wordlists
  Proofs.Gf256P Proofs.ShamirP Proofs.FeistelP Proofs.ShareCodecP Proofs.Rs1024P
  Proofs.Rs1024Sweep Proofs.ShamirChecksP Proofs.C15Glue Proofs.ShamirPipelineP
  Proofs.ShamirOuterP Proofs.ShareCanonP Proofs.ShamirSecrecyP Proofs.ShamirTwoLevelP.

(* (1) GF(256): the tables built by _load *)
Theorem C15_gf256_tables :
  length exp_tbl = 255%nat /\ length log_tbl = 256%nat /\
  (forall a, 1 <= a < 256 -> gexp (glog a) = a /\ 0 <= glog a < 255) /\
  (forall i, 0 <= i < 255 -> glog (gexp i) = i /\ 1 <= gexp i < 256) /\
  (forall a b, 0 <= a < 256 -> 0 <= b < 256 -> gmulZ a b = clmul a b).
Proof.
  split; [exact exp_tbl_length|]. split; [exact log_tbl_length|].
  split; [exact exp_log_inverse|]. split; [exact log_exp_inverse | exact gmulZ_clmul].
Qed.
Print Assumptions C15_gf256_tables.

(* ... with xor as addition and the table product as multiplication they form a field *)
Theorem C15_gf256_field : field_theory gf0 gf1 gfadd gfmul gfsub gfopp gfdiv gfinv eq.
Proof. exact gf_field. Qed.
Print Assumptions C15_gf256_field.

Theorem C15_gf256_laws : forall a b c, 0 <= a < 256 -> 0 <= b < 256 -> 0 <= c < 256 ->
  gmulZ a (gmulZ b c) = gmulZ (gmulZ a b) c /\
  gmulZ a (Z.lxor b c) = Z.lxor (gmulZ a b) (gmulZ a c) /\
  gmulZ a b = gmulZ b a /\ gmulZ 1 a = a /\ (a <> 0 -> gmulZ (ginvZ a) a = 1).
Proof.
  intros a b c Ha Hb Hc. split; [now apply gmulZ_assoc|]. split; [now apply gmulZ_distr_l|].
  split; [apply gmulZ_comm|]. split; [now apply gmulZ_1_l|]. intros Hz. apply gmulZ_inv_l. lia.
Qed.
Print Assumptions C15_gf256_laws.

(* ShareSet.interpolate is Lagrange interpolation over that field, byte by byte *)
Theorem C15_interpolate_is_lagrange : forall x sd L t,
  sd <> [] -> Forall (fun p => length (snd p) = L) sd -> (t < L)%nat ->
  0 <= x < 256 -> Forall node_ok sd -> NoDup (map fst sd) -> ~ In x (map fst sd) ->
  nth t (interp_core x sd) 0 = gfz (ginterp (gf_of x) (pts_t t sd)).
Proof. exact interp_core_gf. Qed.
Print Assumptions C15_interpolate_is_lagrange.

(* (2) passphrase encryption is exactly inverted by decryption *)
Theorem C15_feistel_inverse :
  forall (kdf : bytes -> bytes -> Z -> Z -> result bytes),
  (forall p s c n r, kdf p s c n = Ok r -> zlen r = n) ->
  forall payload id e pass c ss,
  ss_id ss = id -> ss_exp ss = e ->
  encrypt kdf payload id e pass = Ok c ->
  decrypt kdf ss c pass = Ok payload /\ zlen c = zlen payload.
Proof. exact feistel_inverse. Qed.
Print Assumptions C15_feistel_inverse.

Theorem C15_encrypt_total :
  forall (kdf : bytes -> bytes -> Z -> Z -> result bytes) payload id e pass,
  Z.even (zlen payload) = true -> 0 <= id < 65536 -> 0 <= e ->
  (forall p s c n, exists r, kdf p s c n = Ok r) ->
  exists c, encrypt kdf payload id e pass = Ok c.
Proof. exact encrypt_total. Qed.
Print Assumptions C15_encrypt_total.

(* (3) share mnemonics round-trip: on the index level and as text over the shipped list *)
Theorem C15_share_codec_roundtrip : forall s, share_wf s ->
  share_of_indices (share_indices s) = Ok s /\
  length (share_indices s) = (if sh_bits s =? 128 then 20%nat else 33%nat) /\
  Forall (fun i => 0 <= i < 1024) (share_indices s).
Proof. exact share_indices_roundtrip. Qed.
Print Assumptions C15_share_codec_roundtrip.

Theorem C15_share_text_roundtrip : forall s, share_wf s ->
  exists m, share_mnemonic slip39_words s = Ok m /\ share_parse slip39_words m = Ok s.
Proof. exact share_text_roundtrip. Qed.
Print Assumptions C15_share_text_roundtrip.

Theorem C15_constructed_share_wf : forall bits id e gi gt gc mi mt value s,
  mk_share bits id e gi gt gc mi mt value = Ok s -> (bits = 128 \/ bits = 256) ->
  0 <= id < 32768 -> 0 <= e < 32 -> share_wf s.
Proof. exact mk_share_wf. Qed.
Print Assumptions C15_constructed_share_wf.

(* (4) any substitution of one to three words of a 20- or 33-word sequence that passes
   the RS1024 check fails it (any customisation string) ... *)
Theorem C15_rs1024_detects_three : forall (cs m m' : list Z),
  (length m = 20 \/ length m = 33)%nat -> length m' = length m ->
  Forall (fun v => 0 <= v < 1024) m -> Forall (fun v => 0 <= v < 1024) m' ->
  rs1024_verify_checksum cs m = true ->
  (1 <= hamming m m' <= 3)%nat ->
  rs1024_verify_checksum cs m' = false.
Proof. exact rs1024_detects_three. Qed.
Print Assumptions C15_rs1024_detects_three.

(* ... hence Share.parse rejects every such corruption of a share mnemonic *)
Theorem C15_corrupted_share_rejected : forall s m',
  share_wf s -> length m' = length (share_indices s) ->
  Forall (fun v => 0 <= v < 1024) m' ->
  (1 <= hamming (share_indices s) m' <= 3)%nat ->
  share_of_indices m' = Err.
Proof. exact corrupted_share_rejected. Qed.
Print Assumptions C15_corrupted_share_rejected.

Theorem C15_rs1024_verify_create : forall cs data,
  Forall (fun v => 0 <= v < 1024) (cs ++ data) ->
  rs1024_verify_checksum cs (data ++ rs1024_create_checksum cs data) = true.
Proof. exact rs1024_verify_create. Qed.
Print Assumptions C15_rs1024_verify_create.

(* (5) threshold recovery: for every secret of 16 or 32 bytes, every random material, every
   2 <= k <= n <= 16 accepted by split_secret, every list of at least k shares with
   pairwise distinct indices taken from the n shares (in any order) recovers the secret
   and passes the digest check *)
Theorem C15_threshold_recovery :
  forall (hmac_sha256 : bytes -> bytes -> bytes),
  (forall k m, length (hmac_sha256 k m) = 32%nat /\ bytes_ok (hmac_sha256 k m)) ->
  forall secret k n rnd shares sub,
  2 <= k -> bytes_ok secret -> bytes_ok rnd ->
  split_secret hmac_sha256 secret k n rnd = Ok shares ->
  NoDup (map fst sub) -> (forall p, In p sub -> In p shares) -> k <= zlen sub ->
  recover_secret hmac_sha256 sub = Ok secret.
Proof. exact threshold_recovery. Qed.
Print Assumptions C15_threshold_recovery.

Theorem C15_split_indices :
  forall (hmac_sha256 : bytes -> bytes -> bytes),
  (forall k m, length (hmac_sha256 k m) = 32%nat /\ bytes_ok (hmac_sha256 k m)) ->
  forall secret k n rnd shares,
  2 <= k -> bytes_ok secret -> bytes_ok rnd ->
  split_secret hmac_sha256 secret k n rnd = Ok shares ->
  map fst shares = zrange 0 (Z.to_nat n) /\
  Forall (fun p => length (snd p) = length secret /\ bytes_ok (snd p)) shares.
Proof. exact split_secret_indices. Qed.
Print Assumptions C15_split_indices.

(* END TO END: for every mnemonic accepted by generate_shares (12 or 24 words, any accepted
   spelling), passphrase, exponent 0..31, identifier, random material and 1 <= k <= n <= 16,
   the share mnemonics at any >= k pairwise distinct positions, in any order, are turned by
   recover_mnemonic into the full-word spelling m' of the original mnemonic (same entropy) *)
Theorem C15_pipeline_recovery :
  forall (sha256 : bytes -> bytes),
  (forall x, exists h t, sha256 x = h :: t /\ 0 <= h < 256) ->
  forall (hmac_sha256 : bytes -> bytes -> bytes),
  (forall k m, length (hmac_sha256 k m) = 32%nat /\ bytes_ok (hmac_sha256 k m)) ->
  forall (kdf : bytes -> bytes -> Z -> Z -> result bytes),
  (forall p s c n r, kdf p s c n = Ok r -> zlen r = n /\ bytes_ok r) ->
  forall m k n pass e id rnd ms js,
  0 <= id < 32768 -> 0 <= e < 32 -> bytes_ok rnd ->
  generate_shares sha256 hmac_sha256 kdf bip39_words slip39_words m k n pass e id rnd = Ok ms ->
  NoDup js -> Forall (fun j => (j < length ms)%nat) js -> k <= Z.of_nat (length js) ->
  exists secret m',
    mnemonic_to_bytes sha256 bip39_words m = Ok secret /\
    bytes_to_mnemonic sha256 bip39_words secret (8 * zlen secret) = Ok m' /\
    mnemonic_to_bytes sha256 bip39_words m' = Ok secret /\
    length ms = Z.to_nat n /\
    recover_mnemonic sha256 hmac_sha256 kdf bip39_words slip39_words
                     (map (fun j => nth j ms []) js) pass = Ok m'.
Proof. exact pipeline_recovery. Qed.
Print Assumptions C15_pipeline_recovery.

(* k = 1: n shares, each of them the secret (the code as fixed by a579c87) *)
Theorem C15_one_of_n : forall (hmac_sha256 : bytes -> bytes -> bytes) secret n rnd,
  1 <= n <= 16 -> (length secret = 16 \/ length secret = 32)%nat ->
  split_secret hmac_sha256 secret 1 n rnd = Ok (map (fun i => (i, secret)) (zrange 0 (Z.to_nat n))).
Proof. exact split_secret_one. Qed.
Print Assumptions C15_one_of_n.

(* (6) fewer shares than the threshold never yield a secret; different splits never mix *)
Theorem C15_below_threshold_refused : forall hmac_sha256 kdf ss pass,
  1 < ss_gt ss -> zlen (ss_shares ss) < ss_gt ss -> recover hmac_sha256 kdf ss pass = Err.
Proof. exact below_threshold_refused. Qed.
Print Assumptions C15_below_threshold_refused.

Theorem C15_recover_mnemonic_below_threshold :
  forall sha256 hmac_sha256 kdf bip39 slip39 ms pass shares s,
  mapM (share_parse slip39) ms = Ok shares -> In s shares ->
  1 < sh_gt s -> zlen shares < sh_gt s ->
  recover_mnemonic sha256 hmac_sha256 kdf bip39 slip39 ms pass = Err.
Proof. exact recover_mnemonic_below_threshold. Qed.
Print Assumptions C15_recover_mnemonic_below_threshold.

Theorem C15_below_member_threshold_refused : forall hmac_sha256 kdf ss pass i g0 g,
  0 <= i < ss_gc ss ->
  filter (fun s => sh_gi s =? i) (ss_shares ss) = g0 :: g ->
  1 < sh_mt g0 -> zlen (g0 :: g) < sh_mt g0 ->
  recover hmac_sha256 kdf ss pass = Err.
Proof. exact below_member_threshold_refused. Qed.
Print Assumptions C15_below_member_threshold_refused.

Theorem C15_mixed_splits_refused : forall shares s1 s2,
  In s1 shares -> In s2 shares ->
  sh_id s1 <> sh_id s2 \/ sh_exp s1 <> sh_exp s2 \/ sh_gt s1 <> sh_gt s2 \/
  sh_gc s1 <> sh_gc s2 \/ sh_bits s1 <> sh_bits s2 ->
  shareset_init shares = Err.
Proof. exact mixed_splits_refused. Qed.
Print Assumptions C15_mixed_splits_refused.

Theorem C15_duplicate_index_refused : forall shares,
  1 < zlen shares -> ~ NoDup (map (fun s => (sh_gi s, sh_mi s)) shares) ->
  shareset_init shares = Err.
Proof. exact duplicate_index_refused. Qed.
Print Assumptions C15_duplicate_index_refused.

Theorem C15_shareset_sound : forall shares ss,
  shareset_init shares = Ok ss ->
  ss_shares ss = shares /\ shares <> [] /\
  (forall s, In s shares -> sh_id s = ss_id ss /\ sh_exp s = ss_exp ss /\ sh_gt s = ss_gt ss /\
                            sh_gc s = ss_gc ss /\ sh_bits s = ss_bits ss) /\
  NoDup (map (fun s => (sh_gi s, sh_mi s)) shares).
Proof. exact shareset_init_sound. Qed.
Print Assumptions C15_shareset_sound.

(* non-vacuity *)
Example C15_hmac_inhabited :
  forall k m : bytes, length ((fun _ _ => repeatz 0 32) k m) = 32%nat /\ bytes_ok ((fun _ _ => repeatz 0 32) k m).
Proof. intros. split; [reflexivity | apply bytes_ok_repeatz; unfold byte_ok; lia]. Qed.
Example C15_kdf_inhabited :
  forall p s c n r, (fun (_ _ : bytes) (_ n : Z) => Ok (repeatz 0 (Z.to_nat n))) p s c n = Ok r ->
                    0 <= n -> zlen r = n.
Proof. intros p s c n r [= <-] Hn. unfold zlen. rewrite repeatz_length. lia. Qed.
Example C15_share_wf_inhabited :
  share_wf {| sh_bits := 128; sh_id := 7; sh_exp := 0; sh_gi := 1; sh_gt := 2; sh_gc := 3;
              sh_mi := 0; sh_mt := 1; sh_value := 5; sh_bytes := to_be 16 5 |}.
Proof. unfold share_wf; cbn [sh_bits sh_id sh_exp sh_gi sh_gt sh_gc sh_mi sh_mt sh_value sh_bytes].
  repeat split; try lia; reflexivity. Qed.
Example C15_split_succeeds :
  exists shares, split_secret (fun _ _ => repeatz 0 32) (repeatz 1 16) 2 3 (repeatz 2 12) = Ok shares.
Proof. eexists. vm_compute. reflexivity. Qed.
(* the premises of C15_pipeline_recovery are simultaneously satisfiable: a run that succeeds *)
Example C15_pipeline_nonvacuous :
  exists ms, generate_shares (fun _ => [0]) (fun _ _ => repeatz 0 32)
               (fun _ _ _ n => Ok (repeatz 0 (Z.to_nat n))) bip39_words slip39_words
               (join_sp (repeat (nth 0 bip39_words []) 12)) 2 3 [] 0 5 (repeatz 3 12) = Ok ms /\
             length ms = 3%nat.
Proof. eexists. split; [vm_compute; reflexivity | reflexivity]. Qed.

(* ================================================================ deepening round

   (7) the clauses of the property at the outermost API (generate_shares / recover_mnemonic /
   Share.parse on text), the converse codec round trip, secrecy of fewer than k shares and
   two-level share sets. *)

(* FEWER THAN k, outer API: any list of fewer than k of the share mnemonics produced by one
   k-of-n generate_shares call (any positions, repetitions allowed, any order, ANY passphrase)
   is refused by recover_mnemonic — for every 1 <= k <= n <= 16 (for k = 1 the empty list) *)
Theorem C15_pipeline_below_threshold :
  forall (sha256 : bytes -> bytes) (hmac_sha256 : bytes -> bytes -> bytes),
  (forall k m, length (hmac_sha256 k m) = 32%nat /\ bytes_ok (hmac_sha256 k m)) ->
  forall (kdf : bytes -> bytes -> Z -> Z -> result bytes),
  (forall p s c n r, kdf p s c n = Ok r -> zlen r = n /\ bytes_ok r) ->
  forall m k n pass e id rnd ms js pass',
  0 <= id < 32768 -> 0 <= e < 32 -> bytes_ok rnd ->
  generate_shares sha256 hmac_sha256 kdf bip39_words slip39_words m k n pass e id rnd = Ok ms ->
  Forall (fun j => (j < length ms)%nat) js -> Z.of_nat (length js) < k ->
  recover_mnemonic sha256 hmac_sha256 kdf bip39_words slip39_words
                   (map (fun j => nth j ms []) js) pass' = Err.
Proof. exact pipeline_below_threshold. Qed.
Print Assumptions C15_pipeline_below_threshold.

(* the same share mnemonic handed in twice is refused (the positions js must be distinct in
   C15_pipeline_recovery for a reason) *)
Theorem C15_pipeline_duplicate_refused :
  forall (sha256 : bytes -> bytes) (hmac_sha256 : bytes -> bytes -> bytes),
  (forall k m, length (hmac_sha256 k m) = 32%nat /\ bytes_ok (hmac_sha256 k m)) ->
  forall (kdf : bytes -> bytes -> Z -> Z -> result bytes),
  (forall p s c n r, kdf p s c n = Ok r -> zlen r = n /\ bytes_ok r) ->
  forall m k n pass e id rnd ms js pass',
  0 <= id < 32768 -> 0 <= e < 32 -> bytes_ok rnd ->
  generate_shares sha256 hmac_sha256 kdf bip39_words slip39_words m k n pass e id rnd = Ok ms ->
  Forall (fun j => (j < length ms)%nat) js -> ~ NoDup js ->
  recover_mnemonic sha256 hmac_sha256 kdf bip39_words slip39_words
                   (map (fun j => nth j ms []) js) pass' = Err.
Proof. exact pipeline_duplicate_refused. Qed.
Print Assumptions C15_pipeline_duplicate_refused.

(* DIFFERENT SPLITS NEVER MIX, outer API: a list of share mnemonics containing a share of each
   of two generate_shares calls that differ in identifier, exponent, threshold, share count or
   secret length is refused by recover_mnemonic, whatever else the list contains.  (Two calls
   that agree in all five — identifiers collide with probability 2^-15 — are told apart only by
   the 4-byte digest: not provable for an unspecified HMAC.) *)
Theorem C15_pipeline_mixed_refused :
  forall (sha256 : bytes -> bytes) (hmac_sha256 : bytes -> bytes -> bytes),
  (forall k m, length (hmac_sha256 k m) = 32%nat /\ bytes_ok (hmac_sha256 k m)) ->
  forall (kdf : bytes -> bytes -> Z -> Z -> result bytes),
  (forall p s c n r, kdf p s c n = Ok r -> zlen r = n /\ bytes_ok r) ->
  forall m1 k1 n1 pass1 e1 id1 rnd1 ms1 m2 k2 n2 pass2 e2 id2 rnd2 ms2 ts t1 t2 pass,
  0 <= id1 < 32768 -> 0 <= e1 < 32 -> bytes_ok rnd1 ->
  0 <= id2 < 32768 -> 0 <= e2 < 32 -> bytes_ok rnd2 ->
  generate_shares sha256 hmac_sha256 kdf bip39_words slip39_words m1 k1 n1 pass1 e1 id1 rnd1 = Ok ms1 ->
  generate_shares sha256 hmac_sha256 kdf bip39_words slip39_words m2 k2 n2 pass2 e2 id2 rnd2 = Ok ms2 ->
  In t1 ms1 -> In t2 ms2 -> In t1 ts -> In t2 ts ->
  id1 <> id2 \/ e1 <> e2 \/ k1 <> k2 \/ n1 <> n2 \/
  (exists s1 s2, mnemonic_to_bytes sha256 bip39_words m1 = Ok s1 /\
                 mnemonic_to_bytes sha256 bip39_words m2 = Ok s2 /\ zlen s1 <> zlen s2) ->
  recover_mnemonic sha256 hmac_sha256 kdf bip39_words slip39_words ts pass = Err.
Proof. exact pipeline_mixed_refused. Qed.
Print Assumptions C15_pipeline_mixed_refused.

(* CORRUPTION, text level (Share.parse on strings over the shipped list): a text with as many
   words as the share mnemonic in which 1 to 3 words do not denote the word the mnemonic has at
   that position (they denote another word — spelled in full or by its 4-letter prefix — or no
   word at all) is rejected.  word_diffs / text_diffs count such positions; a word replaced by
   its own 4-letter prefix is NOT a difference (Share.parse accepts that spelling). *)
Theorem C15_corrupted_text_rejected : forall s m',
  share_wf s -> length (split_ws m') = length (share_indices s) ->
  (1 <= word_diffs slip39_words (share_indices s) (split_ws m') <= 3)%nat ->
  share_parse slip39_words m' = Err.
Proof. exact corrupted_text_rejected. Qed.
Print Assumptions C15_corrupted_text_rejected.

Theorem C15_corrupted_mnemonic_rejected : forall s m m',
  share_wf s -> share_mnemonic slip39_words s = Ok m ->
  length (split_ws m') = length (split_ws m) ->
  (1 <= text_diffs slip39_words (split_ws m) (split_ws m') <= 3)%nat ->
  share_parse slip39_words m' = Err.
Proof. exact corrupted_mnemonic_rejected. Qed.
Print Assumptions C15_corrupted_mnemonic_rejected.

(* CONVERSE ROUND TRIP: the three checksum words are determined by the data words ... *)
Theorem C15_rs1024_checksum_unique : forall cs data c0 c1 c2,
  Forall (fun v => 0 <= v < 1024) (cs ++ data) ->
  0 <= c0 < 1024 -> 0 <= c1 < 1024 -> 0 <= c2 < 1024 ->
  rs1024_verify_checksum cs (data ++ [c0; c1; c2]) = true ->
  rs1024_create_checksum cs data = [c0; c1; c2].
Proof. exact rs1024_checksum_unique. Qed.
Print Assumptions C15_rs1024_checksum_unique.

(* ... an accepted 20- or 33-word list is exactly what Share.mnemonic produces for the parsed
   share: mnemonic(parse(m)) = m, and the parsed share is well formed ... *)
Theorem C15_share_parse_canonical : forall idx s,
  (length idx = 20 \/ length idx = 33)%nat -> Forall (fun i => 0 <= i < 1024) idx ->
  share_of_indices idx = Ok s -> share_wf s /\ share_indices s = idx.
Proof. exact share_parse_canonical. Qed.
Print Assumptions C15_share_parse_canonical.

(* ... so no two different 20-/33-word lists parse to the same share ... *)
Theorem C15_share_parse_injective : forall idx1 idx2 s,
  (length idx1 = 20 \/ length idx1 = 33)%nat -> (length idx2 = 20 \/ length idx2 = 33)%nat ->
  Forall (fun i => 0 <= i < 1024) idx1 -> Forall (fun i => 0 <= i < 1024) idx2 ->
  share_of_indices idx1 = Ok s -> share_of_indices idx2 = Ok s -> idx1 = idx2.
Proof. exact share_parse_injective. Qed.
Print Assumptions C15_share_parse_injective.

(* ... and on text: an accepted 20-/33-word text (any accepted spelling) is re-encoded to a
   text with the same word indices, which parses to the same share *)
Theorem C15_share_text_canonical : forall m s,
  (length (split_ws m) = 20 \/ length (split_ws m) = 33)%nat ->
  share_parse slip39_words m = Ok s ->
  exists m', share_mnemonic slip39_words s = Ok m' /\
             mapM (wl_index slip39_words) (split_ws m') = mapM (wl_index slip39_words) (split_ws m) /\
             share_parse slip39_words m' = Ok s.
Proof. exact share_text_canonical. Qed.
Print Assumptions C15_share_text_canonical.

(* EVERY ACCEPTED LENGTH (after ec24589 Share.parse rejects more than 8 padding bits).  Which
   lengths are accepted at all: at least 20 words and, with w = number of value words,
   (10 w) mod 16 <= 8 padding bits, i.e. w mod 8 in {0, 2, 4, 5, 7}: 20, 22, 23, 25, 27, 28, 30,
   31, 33, ... words; the share length is 10 w rounded down to a multiple of 16 *)
Theorem C15_share_parse_lengths : forall idx s,
  Forall (fun i => 0 <= i < 1024) idx -> share_of_indices idx = Ok s ->
  20 <= zlen idx /\ ((zlen idx - 7) * 10) mod 16 <= 8 /\
  sh_bits s = (zlen idx - 7) * 10 / 16 * 16.
Proof. exact share_parse_lengths. Qed.
Print Assumptions C15_share_parse_lengths.

(* mnemonic(parse(m)) = m for EVERY accepted list (Share.mnemonic pads with -bits % 10 bits since
   ddaa02c) ... *)
Theorem C15_share_parse_canonical_all : forall idx s,
  Forall (fun i => 0 <= i < 1024) idx -> share_of_indices idx = Ok s -> share_indices s = idx.
Proof. exact share_parse_canonical_all. Qed.
Print Assumptions C15_share_parse_canonical_all.

Theorem C15_share_text_canonical_all : forall m s,
  share_parse slip39_words m = Ok s ->
  exists m', share_mnemonic slip39_words s = Ok m' /\
             mapM (wl_index slip39_words) (split_ws m') = mapM (wl_index slip39_words) (split_ws m) /\
             share_parse slip39_words m' = Ok s.
Proof. exact share_text_canonical_all. Qed.
Print Assumptions C15_share_text_canonical_all.

(* ... what Share.parse returns is a well-formed share of some SLIP39 length (share_wf_any: a
   multiple of 16 bits, at least 128, every header field in range) ... *)
Theorem C15_share_parse_wf_any : forall idx s,
  Forall (fun i => 0 <= i < 1024) idx -> share_of_indices idx = Ok s -> share_wf_any s.
Proof. exact share_parse_wf_any. Qed.
Print Assumptions C15_share_parse_wf_any.

(* ... and parse(mnemonic(s)) = s for every such share, of ANY length (128, 144, 160, ... bits):
   Share.mnemonic's output is accepted by Share.parse, has 7 + ceil(bits / 10) words, and gives
   the share back; on indices and as text over the shipped list *)
Theorem C15_share_indices_roundtrip_all : forall s, share_wf_any s ->
  share_of_indices (share_indices s) = Ok s /\
  Forall (fun i => 0 <= i < 1024) (share_indices s) /\
  zlen (share_indices s) = 7 + ((- sh_bits s) mod 10 + sh_bits s) / 10.
Proof. exact share_indices_roundtrip_all. Qed.
Print Assumptions C15_share_indices_roundtrip_all.

Theorem C15_share_text_roundtrip_all : forall s, share_wf_any s ->
  exists m, share_mnemonic slip39_words s = Ok m /\ share_parse slip39_words m = Ok s.
Proof. exact share_text_roundtrip_all. Qed.
Print Assumptions C15_share_text_roundtrip_all.

(* ... and Share.parse is injective on ALL accepted lists, of whatever lengths *)
Theorem C15_share_parse_injective_all : forall idx1 idx2 s,
  Forall (fun i => 0 <= i < 1024) idx1 -> Forall (fun i => 0 <= i < 1024) idx2 ->
  share_of_indices idx1 = Ok s -> share_of_indices idx2 = Ok s -> idx1 = idx2.
Proof. exact share_parse_injective_all. Qed.
Print Assumptions C15_share_parse_injective_all.

(* the former counterexample (21 words parsing to the share of 20 words) is rejected now *)
Theorem C15_share_parse_rejects_21 :
  share_of_indices idx21 = Err /\ exists s, share_of_indices idx20 = Ok s.
Proof. exact share_parse_rejects_21. Qed.
Print Assumptions C15_share_parse_rejects_21.

(* the 160-bit share whose 24-word encoding was rejected before ddaa02c: its 23 words are accepted
   and are what Share.mnemonic produces (non-vacuity of the theorems above at an empty padding) *)
Theorem C15_share_mnemonic_160_ok :
  exists s, share_of_indices idx23 = Ok s /\ sh_bits s = 160 /\ share_indices s = idx23.
Proof. exact share_mnemonic_160_ok. Qed.
Print Assumptions C15_share_mnemonic_160_ok.

Example C15_share_wf_any_inhabited :
  share_wf_any {| sh_bits := 160; sh_id := 7; sh_exp := 0; sh_gi := 1; sh_gt := 2; sh_gc := 3;
                  sh_mi := 0; sh_mt := 1; sh_value := 5; sh_bytes := to_be 20 5 |}.
Proof. unfold share_wf_any; cbn [sh_bits sh_id sh_exp sh_gi sh_gt sh_gc sh_mi sh_mt sh_value sh_bytes].
  repeat split; try lia; reflexivity. Qed.

(* FEISTEL, the other direction and the general _crypt: running _crypt with the reversed round
   list undoes it (any round list); encrypt after decrypt is the identity *)
Theorem C15_crypt_reverse :
  forall (kdf : bytes -> bytes -> Z -> Z -> result bytes),
  (forall p s c n r, kdf p s c n = Ok r -> zlen r = n) ->
  forall payload id e pass idxs c,
  crypt kdf payload id e pass idxs = Ok c ->
  crypt kdf c id e pass (rev idxs) = Ok payload /\ zlen c = zlen payload.
Proof. exact crypt_reverse. Qed.
Print Assumptions C15_crypt_reverse.

Theorem C15_decrypt_then_encrypt :
  forall (kdf : bytes -> bytes -> Z -> Z -> result bytes),
  (forall p s c n r, kdf p s c n = Ok r -> zlen r = n) ->
  forall ss c pass p,
  decrypt kdf ss c pass = Ok p -> encrypt kdf p (ss_id ss) (ss_exp ss) pass = Ok c.
Proof. intros kdf H ss c pass p. exact (feistel_inverse' kdf H c (ss_id ss) (ss_exp ss) pass p). Qed.
Print Assumptions C15_decrypt_then_encrypt.

(* SECRECY OF FEWER THAN k SHARES.  split_secret (k >= 2) draws k-2 random strings sd and builds
   the digest share ds; what follows is the deterministic split_with sd ds secret k n: *)
Theorem C15_split_secret_with : forall (hmac_sha256 : bytes -> bytes -> bytes),
  (forall k m, length (hmac_sha256 k m) = 32%nat /\ bytes_ok (hmac_sha256 k m)) ->
  forall secret k n rnd shares,
  2 <= k -> bytes_ok rnd ->
  split_secret hmac_sha256 secret k n rnd = Ok shares ->
  exists random sd,
    k <= n <= 16 /\ (length secret = 16 \/ length secret = 32)%nat /\
    pt_ok (length secret) (digest hmac_sha256 random secret ++ random) /\
    sd_ok sd k (length secret) /\
    split_with sd (digest hmac_sha256 random secret ++ random) secret k n = Ok shares.
Proof. exact split_secret_with. Qed.
Print Assumptions C15_split_secret_with.

(* Whatever fewer than k of the n shares are observed, and whatever other secret' of the same
   length is considered: there are random strings sd' and a digest-share value ds' for which
   the split of secret' yields exactly the observed shares at the observed indices.  Fewer
   than k shares thus exclude no candidate secret; what ties them to the secret is only
   whether ds' has the form HMAC(r, secret')[:4] ++ r — a 32-bit filter that depends on the
   hash function and is not a statement about this code. *)
Theorem C15_shamir_secrecy : forall nb sd ds secret k n shares sub secret',
  2 <= k <= n -> n <= 16 ->
  sd_ok sd k nb -> pt_ok nb ds -> pt_ok nb secret ->
  split_with sd ds secret k n = Ok shares ->
  NoDup (map fst sub) -> (forall p, In p sub -> In p shares) -> zlen sub < k ->
  pt_ok nb secret' ->
  exists sd' ds' shares',
    sd_ok sd' k nb /\ pt_ok nb ds' /\
    split_with sd' ds' secret' k n = Ok shares' /\
    (forall p, In p sub -> In p shares').
Proof. exact shamir_secrecy. Qed.
Print Assumptions C15_shamir_secrecy.

Theorem C15_split_secret_secrecy : forall (hmac_sha256 : bytes -> bytes -> bytes),
  (forall k m, length (hmac_sha256 k m) = 32%nat /\ bytes_ok (hmac_sha256 k m)) ->
  forall secret k n rnd shares sub secret',
  2 <= k -> bytes_ok secret -> bytes_ok rnd ->
  split_secret hmac_sha256 secret k n rnd = Ok shares ->
  NoDup (map fst sub) -> (forall p, In p sub -> In p shares) -> zlen sub < k ->
  length secret' = length secret -> bytes_ok secret' ->
  exists sd' ds' shares',
    sd_ok sd' k (length secret) /\ pt_ok (length secret) ds' /\
    split_with sd' ds' secret' k n = Ok shares' /\
    (forall p, In p sub -> In p shares').
Proof. exact split_secret_secrecy. Qed.
Print Assumptions C15_split_secret_secrecy.

(* TWO-LEVEL SHARE SETS (member_threshold > 1; what ShareSet.recover / recover_mnemonic accept
   from other SLIP39 tools): the encrypted secret split gt-of-gc into group shares, the share of
   every presented group i split mt(i)-of-mc(i) among members (group_split), every presented
   share a member share of its group whose group presents at least mt(i) members (member_ok),
   pairwise distinct (group, member) indices, at least gt groups touched: recover returns the
   secret — any order, any mixture of member thresholds 1 and > 1 *)
Theorem C15_two_level_recovery :
  forall (hmac_sha256 : bytes -> bytes -> bytes),
  (forall k m, length (hmac_sha256 k m) = 32%nat /\ bytes_ok (hmac_sha256 k m)) ->
  forall (kdf : bytes -> bytes -> Z -> Z -> result bytes),
  (forall p s c n r, kdf p s c n = Ok r -> zlen r = n /\ bytes_ok r) ->
  forall (mt : Z -> Z) (mdata : Z -> list (Z * bytes))
         secret enc id e pass gt gc rnd0 gdata shares salt bits,
  bytes_ok secret -> bytes_ok rnd0 ->
  encrypt kdf secret id e pass = Ok enc ->
  split_secret hmac_sha256 enc gt gc rnd0 = Ok gdata ->
  Forall (member_ok hmac_sha256 mt mdata gdata shares) shares ->
  NoDup (map (fun s => (sh_gi s, sh_mi s)) shares) ->
  (exists gs, NoDup gs /\ (forall i, In i gs -> In i (map sh_gi shares)) /\ gt <= zlen gs) ->
  recover hmac_sha256 kdf
    {| ss_shares := shares; ss_id := id; ss_salt := salt; ss_exp := e; ss_gt := gt; ss_gc := gc;
       ss_bits := bits |} pass = Ok secret.
Proof. exact two_level_recovery. Qed.
Print Assumptions C15_two_level_recovery.

(* non-vacuity of the deepening-round theorems *)
Definition ex_sha : bytes -> bytes := fun _ => [0].
Definition ex_hm : bytes -> bytes -> bytes := fun _ _ => repeatz 0 32.
Definition ex_kdf : bytes -> bytes -> Z -> Z -> result bytes := fun _ _ _ n => Ok (repeatz 0 (Z.to_nat n)).
Definition ex_m : text := join_sp (repeat (nth 0 bip39_words []) 12).
Definition ex_gen (id : Z) : result (list text) :=
  generate_shares ex_sha ex_hm ex_kdf bip39_words slip39_words ex_m 2 3 [] 0 id (repeatz 3 12).

(* one share of a 2-of-3 split is refused; shares of two splits (ids 5 and 6) are refused *)
Example C15_pipeline_below_threshold_nonvacuous :
  exists ms, ex_gen 5 = Ok ms /\ length ms = 3%nat /\
    recover_mnemonic ex_sha ex_hm ex_kdf bip39_words slip39_words
                     (map (fun j => nth j ms []) [1%nat]) [] = Err.
Proof. eexists. split; [vm_compute; reflexivity|]. split; [reflexivity | vm_compute; reflexivity]. Qed.

Example C15_pipeline_duplicate_nonvacuous :
  exists ms, ex_gen 5 = Ok ms /\ ~ NoDup [0%nat; 1%nat; 0%nat] /\
    recover_mnemonic ex_sha ex_hm ex_kdf bip39_words slip39_words
                     (map (fun j => nth j ms []) [0%nat; 1%nat; 0%nat]) [] = Err.
Proof.
  eexists. split; [vm_compute; reflexivity|]. split; [|vm_compute; reflexivity].
  intros H. inversion H as [|? ? Hn _]; subst. apply Hn. right. now left.
Qed.

Example C15_pipeline_mixed_nonvacuous :
  exists ms1 ms2, ex_gen 5 = Ok ms1 /\ ex_gen 6 = Ok ms2 /\
    recover_mnemonic ex_sha ex_hm ex_kdf bip39_words slip39_words [nth 0 ms1 []; nth 1 ms2 []] [] = Err /\
    (exists m', recover_mnemonic ex_sha ex_hm ex_kdf bip39_words slip39_words [nth 0 ms1 []; nth 1 ms1 []] [] = Ok m').
Proof.
  eexists. eexists. split; [vm_compute; reflexivity|]. split; [vm_compute; reflexivity|].
  split; [vm_compute; reflexivity|]. eexists. vm_compute. reflexivity.
Qed.

Definition ex_share : share :=
  {| sh_bits := 128; sh_id := 7; sh_exp := 0; sh_gi := 1; sh_gt := 2; sh_gc := 3;
     sh_mi := 0; sh_mt := 1; sh_value := 5; sh_bytes := to_be 16 5 |}.

(* a share mnemonic with its first word replaced by another word, its second by an unknown
   string: two differences, rejected; replaced by the 4-letter prefix of the same word: none *)
Example C15_corrupted_text_nonvacuous :
  match share_mnemonic slip39_words ex_share with
  | Ok m =>
      let ws := split_ws m in
      let m' := join_sp (nth 1000 slip39_words [] :: [122; 122] :: tl (tl ws)) in
      let m'' := join_sp (firstn 4 (nth 0 ws []) :: tl ws) in
      length (split_ws m') = length ws /\ text_diffs slip39_words ws (split_ws m') = 2%nat /\
      share_parse slip39_words m' = Err /\
      m'' <> m /\ text_diffs slip39_words ws (split_ws m'') = 0%nat /\
      share_parse slip39_words m'' = Ok ex_share
  | Err => False
  end.
Proof. vm_compute. repeat split; discriminate. Qed.

Example C15_share_parse_canonical_nonvacuous :
  exists s, share_of_indices idx20 = Ok s /\ length idx20 = 20%nat.
Proof. eexists. split; [vm_compute; reflexivity | reflexivity]. Qed.

(* a 3-of-4 split with explicit random string and digest share *)
Example C15_shamir_secrecy_nonvacuous :
  sd_ok [(0, repeatz 5 16)] 3 16 /\ pt_ok 16 (repeatz 7 16) /\ pt_ok 16 (repeatz 1 16) /\
  exists shares, split_with [(0, repeatz 5 16)] (repeatz 7 16) (repeatz 1 16) 3 4 = Ok shares /\
                 length shares = 4%nat.
Proof.
  split; [split; [reflexivity | constructor; [|constructor]; split; [reflexivity | apply bytes_ok_repeatz; unfold byte_ok; lia]]|].
  split; [split; [reflexivity | apply bytes_ok_repeatz; unfold byte_ok; lia]|].
  split; [split; [reflexivity | apply bytes_ok_repeatz; unfold byte_ok; lia]|].
  eexists. split; [vm_compute; reflexivity | reflexivity].
Qed.

(* a 2-of-2 group split whose two group shares are split 2-of-3 and 1-of-2 among members *)
Definition ex_secret : bytes := repeatz 9 16.
Definition ex_enc : bytes :=
  Eval vm_compute in match encrypt ex_kdf ex_secret 7 0 [] with Ok c => c | Err => [] end.
Definition ex_gdata : list (Z * bytes) :=
  Eval vm_compute in match split_secret ex_hm ex_enc 2 2 (repeatz 3 12) with Ok d => d | Err => [] end.
Definition ex_mt (i : Z) : Z := if i =? 0 then 2 else 1.
Definition ex_mdata (i : Z) : list (Z * bytes) :=
  Eval vm_compute in
    (if i =? 0
     then match split_secret ex_hm (snd (nth 0 ex_gdata (0, []))) 2 3 (repeatz 4 12) with Ok d => d | Err => [] end
     else match split_secret ex_hm (snd (nth 1 ex_gdata (0, []))) 1 2 [] with Ok d => d | Err => [] end).
Definition ex_sh (gi mi : Z) : share :=
  let b := snd (nth (Z.to_nat mi) (ex_mdata gi) (0, [])) in
  {| sh_bits := 128; sh_id := 7; sh_exp := 0; sh_gi := gi; sh_gt := 2; sh_gc := 2;
     sh_mi := mi; sh_mt := ex_mt gi; sh_value := from_be b; sh_bytes := b |}.
Definition ex_shares : list share := [ex_sh 0 2; ex_sh 1 1; ex_sh 0 0].

Example C15_two_level_nonvacuous :
  encrypt ex_kdf ex_secret 7 0 [] = Ok ex_enc /\
  split_secret ex_hm ex_enc 2 2 (repeatz 3 12) = Ok ex_gdata /\
  Forall (member_ok ex_hm ex_mt ex_mdata ex_gdata ex_shares) ex_shares /\
  NoDup (map (fun s => (sh_gi s, sh_mi s)) ex_shares) /\
  (exists gs, NoDup gs /\ (forall i, In i gs -> In i (map sh_gi ex_shares)) /\ 2 <= zlen gs) /\
  recover ex_hm ex_kdf
    {| ss_shares := ex_shares; ss_id := 7; ss_salt := []; ss_exp := 0; ss_gt := 2; ss_gc := 2;
       ss_bits := 128 |} [] = Ok ex_secret.
Proof.
  assert (B : forall n v, 0 <= v < 256 -> bytes_ok (repeatz v n)).
  { intros n v Hv. apply bytes_ok_repeatz. unfold byte_ok. lia. }
  assert (G0 : group_split ex_hm ex_mt ex_mdata ex_gdata 0).
  { exists (snd (nth 0 ex_gdata (0, []))), 3, (repeatz 4 12).
    split; [vm_compute; auto|]. split; [apply B; lia | vm_compute; reflexivity]. }
  assert (G1 : group_split ex_hm ex_mt ex_mdata ex_gdata 1).
  { exists (snd (nth 1 ex_gdata (0, []))), 2, [].
    split; [vm_compute; auto|]. split; [constructor | vm_compute; reflexivity]. }
  split; [vm_compute; reflexivity|]. split; [vm_compute; reflexivity|].
  split.
  { assert (M : forall gi mi, group_split ex_hm ex_mt ex_mdata ex_gdata gi ->
                In (mi, sh_bytes (ex_sh gi mi)) (ex_mdata gi) ->
                ex_mt gi <= zlen (filter (fun t => sh_gi t =? gi) ex_shares) ->
                member_ok ex_hm ex_mt ex_mdata ex_gdata ex_shares (ex_sh gi mi)).
    { intros gi mi H1 H2 H3. split; [exact H1|]. split; [reflexivity|]. split; [exact H2 | exact H3]. }
    constructor; [|constructor; [|constructor; [|constructor]]]; apply M;
      try exact G0; try exact G1; try (vm_compute; auto 10; fail); vm_compute; discriminate. }
  split.
  { vm_compute. repeat constructor; cbn; intuition discriminate. }
  split.
  { exists [0; 1]. split; [repeat constructor; cbn; intuition discriminate|].
    split; [|vm_compute; discriminate]. intros i [<-|[<-|[]]]; vm_compute; auto. }
  vm_compute. reflexivity.
Qed.

(* The constants written in the model are the constants of the SOURCE: coq/Generated/SrcConsts.v is regenerated
   from /repo/buidl/*.py by harness/gen_coq_consts.py on every run; the statements are spelled out in
   Proofs/ConstsTie.v (rs1024_is_source_stmt). *)
From V Require Proofs.ConstsTie.
Theorem C15_constants_match_source : ConstsTie.rs1024_is_source_stmt.
Proof. exact ConstsTie.rs1024_is_source. Qed.
Print Assumptions C15_constants_match_source.
