(* Props/C20.v — BCUR / bc32 / CBOR air-gap transport reassembles exactly or fails loudly.
   Only statements, each closed by [exact] of a lemma from Proofs/, followed by Print Assumptions.
   sha256 is universally quantified.  Two layers: the header fields [part] (form, x, y, checksum
   text, payload text) of Model/Bcur.v, and the real strings of Model/BcurStr.v (lower, strip,
   startswith, split("/"), split("of"), int(), the f-strings with str(int)); the string-level
   functions are proved to be the field-level functions after the header parser [str_fields]
   (C20_*_refines), the header parser inverts the f-strings (C20_str_fields_fmt), and the
   round-trip / rejection theorems are stated again on the strings a user passes around.

   sha256 output is assumed to be a 32-byte string where a theorem says so. *)
From V Require Import Base.Prelude Base.Ints Base.Lfsr Model.Helper Model.Base58 Model.Bech32
  Model.Bcur Model.BcurStr Proofs.Base58P Proofs.PolymodP Proofs.BcurP Proofs.ConvertbitsP Proofs.Bc32P
  Proofs.Bech32DetectP Proofs.Bc32SubP Proofs.BcurStrP Proofs.BcurSubstP Proofs.BcurSingleSubstP.

(* ------------------------------------------------------------------ CBOR *)

(* every length below 2^32, across 23/24, 255/256, 65535/65536 *)
Theorem C20_cbor_roundtrip :
  forall data, zlen data < 4294967296 ->
  exists e, cbor_encode data = Ok e /\ cbor_decode e = Ok (Some data).
Proof. exact cbor_roundtrip. Qed.
Print Assumptions C20_cbor_roundtrip.

Theorem C20_cbor_encode_range :
  forall data, 4294967296 <= zlen data -> cbor_encode data = Err.
Proof. exact cbor_encode_range. Qed.
Print Assumptions C20_cbor_encode_range.

Theorem C20_cbor_prefix :
  forall data e, cbor_encode data = Ok e ->
  (zlen data <= 23 /\ e = (64 + zlen data) :: data) \/
  (23 < zlen data <= 255 /\ e = 88 :: zlen data :: data) \/
  (255 < zlen data <= 65535 /\ e = 89 :: to_be 2 (zlen data) ++ data) \/
  (65535 < zlen data < 4294967296 /\ e = 96 :: to_be 4 (zlen data) ++ data).
Proof. exact cbor_prefix. Qed.
Print Assumptions C20_cbor_prefix.

(* ------------------------------------------------------------------ convertbits, bc32 *)

(* 8 -> 5 with padding, then 5 -> 8 without padding, for every byte string *)
Theorem C20_convertbits_roundtrip :
  forall d, bytes_ok d ->
  exists syms, convertbits d 8 5 true = Ok (Some syms) /\ Forall sym5 syms /\
               convertbits syms 5 8 false = Ok (Some d).
Proof. exact convertbits_roundtrip. Qed.
Print Assumptions C20_convertbits_roundtrip.

(* numeric form of the 8 -> 5 regrouping: the 5-bit digits read as one number are the bytes read
   as one number followed by p < 5 zero pad bits *)
Theorem C20_convertbits_8_5 :
  forall d, bytes_ok d ->
  exists syms p, convertbits d 8 5 true = Ok (Some syms) /\ Forall sym5 syms /\
    0 <= p < 5 /\ 5 * zlen syms = 8 * zlen d + p /\ val 32 syms = val 256 d * 2 ^ p.
Proof. exact convertbits_8_5. Qed.
Print Assumptions C20_convertbits_8_5.

Theorem C20_bc32_roundtrip :
  forall d, bytes_ok d ->
  exists s, bc32encode d = Ok s /\ bc32decode s = Ok (Some d) /\ Forall gchar s /\
            (6 <= length s)%nat.
Proof. exact bc32_roundtrip. Qed.
Print Assumptions C20_bc32_roundtrip.

(* ------------------------------------------------------------------ bc32 checksum *)

(* appending the six created symbols makes the polymod equal the constant (bc32: start state
   after the leading 0 symbol, constant 0x3FFFFFFF) *)
Theorem C20_checksum_valid :
  forall const c vs, st_ok c -> st_ok const -> Forall sym5 vs ->
  run GEN 25 5 c (vs ++ chk_syms (Z.lxor (run GEN 25 5 c (vs ++ zeros6)) const)) = const.
Proof. exact checksum_valid. Qed.
Print Assumptions C20_checksum_valid.

(* Single-character substitution at ANY length (method: XOR-linearity of the polymod,
   Base/Lfsr.v, + injectivity of the zero-input step on 30-bit states; no sweep, no length
   bound).  Text level: if a string that differs from bc32encode d in exactly one character is
   decoded at all, then the substitution was only a change of case of that letter and the
   payload is d itself; every other single substitution yields None or an exception. *)
Theorem C20_bc32_detects_single :
  forall d s s' x,
  bytes_ok d -> bc32encode d = Ok s ->
  length s' = length s -> hamming s s' = 1%nat ->
  bc32decode s' = Ok (Some x) -> lower s' = s /\ x = d.
Proof. exact bc32_detects_single_text. Qed.
Print Assumptions C20_bc32_detects_single.

(* symbol level, any valid symbol string *)
Theorem C20_bc32_detects_single_symbols :
  forall res es,
  length res = length es -> Forall sym5 es -> weight es = 1%nat ->
  bech32_polymod (0 :: res) = BC32_CONSTANT ->
  bech32_polymod (0 :: xorl res es) <> BC32_CONSTANT.
Proof. exact bc32_detects_single_symbols. Qed.
Print Assumptions C20_bc32_detects_single_symbols.

Theorem C20_polymod_single_error :
  forall pre vs es c,
  length vs = length es -> Forall sym5 es -> weight es = 1%nat ->
  run GEN 25 5 c (pre ++ xorl vs es) <> run GEN 25 5 c (pre ++ vs).
Proof. exact polymod_single_error. Qed.
Print Assumptions C20_polymod_single_error.

(* ------------------------------------------------------------------ BCURMulti.encode *)

(* for every payload (given its bc32 text) and every chunk size >= 1: y = ceil(len/chunk)
   parts, numbered 1..y, each carrying y and the checksum, none empty, none longer than the
   chunk size, and the pieces concatenate to the bc32 text *)
Theorem C20_chunks_concat :
  forall (sha256 : bytes -> bytes) data m enc enc_hash,
  bcur_encode sha256 data = Ok (enc, enc_hash) -> enc <> [] -> 1 <= m ->
  exists ps, multi_encode sha256 data m true = Ok ps /\
    let y := cdiv (zlen enc) m in
    Z.of_nat (length ps) = y /\
    map p_x ps = map (fun i => 1 + Z.of_nat i) (seq 0 (length ps)) /\
    Forall (fun p => p_form p = 4 /\ p_y p = y /\ p_chk p = enc_hash) ps /\
    Forall (fun p => (1 <= length (p_payload p))%nat /\ zlen (p_payload p) <= m) ps /\
    concat (map p_payload ps) = enc.
Proof. exact multi_encode_parts. Qed.
Print Assumptions C20_chunks_concat.

(* ------------------------------------------------------------------ BCURMulti.parse *)

(* accepted => the parts are numbered 1, 2, 3, ... in list order; so a list with a part out
   of order, duplicated, or missing before a later one raises *)
Theorem C20_reassembly_ordered :
  forall (sha256 : bytes -> bytes) ps d, multi_parse sha256 ps = Ok d -> numbered ps 0.
Proof. exact multi_parse_ordered. Qed.
Print Assumptions C20_reassembly_ordered.

Theorem C20_reassembly_unordered_err :
  forall (sha256 : bytes -> bytes) ps, ~ numbered ps 0 -> multi_parse sha256 ps = Err.
Proof. exact multi_parse_unordered_err. Qed.
Print Assumptions C20_reassembly_unordered_err.

(* accepted => every later part carries the first part's y (wrong y raises) *)
Theorem C20_reassembly_same_y :
  forall (sha256 : bytes -> bytes) p ps d,
  multi_parse sha256 (p :: ps) = Ok d -> Forall (fun q => part_y q = part_y p) ps.
Proof. exact multi_parse_same_y. Qed.
Print Assumptions C20_reassembly_same_y.

(* Exact or collision.  Whatever the parts are (other payload, missing trailing parts, mixed,
   corrupted): if the list is accepted and its first part carries (up to case) the checksum text
   that encode produces for [d], then the result is [d], or a SHA-256 collision is exhibited. *)
Theorem C20_reassembly_exact_or_collision :
  forall (sha256 : bytes -> bytes), (forall x, bytes_ok (sha256 x)) ->
  forall p ps d enc enc_hash d',
  bcur_encode sha256 d = Ok (enc, enc_hash) ->
  (p_form p = 3 \/ p_form p = 4) -> lower (p_chk p) = enc_hash ->
  multi_parse sha256 (p :: ps) = Ok d' ->
  d' = d \/ exists cbor cbor', cbor_encode d = Ok cbor /\ cbor' <> cbor /\
                               sha256 cbor' = sha256 cbor.
Proof. exact reassembly_exact_or_collision_full. Qed.
Print Assumptions C20_reassembly_exact_or_collision.

Theorem C20_bcur_decode_exact_or_collision :
  forall (sha256 : bytes -> bytes), (forall x, bytes_ok (sha256 x)) ->
  forall text d enc enc_hash d',
  bcur_encode sha256 d = Ok (enc, enc_hash) ->
  bcur_decode sha256 text (Some enc_hash) = Ok (Some d') ->
  d' = d \/ exists cbor cbor', cbor_encode d = Ok cbor /\ cbor' <> cbor /\
                               sha256 cbor' = sha256 cbor /\ bc32decode text = Ok (Some cbor').
Proof. exact bcur_decode_exact_or_collision_full. Qed.
Print Assumptions C20_bcur_decode_exact_or_collision.

(* ------------------------------------------------------------------ parse (encode) *)

(* every payload below 2^32 bytes, every chunk size >= 1 *)
Theorem C20_multi_roundtrip :
  forall (sha256 : bytes -> bytes),
  (forall x, bytes_ok (sha256 x)) -> (forall x, length (sha256 x) = 32%nat) ->
  forall d m, bytes_ok d -> zlen d < 4294967296 -> 1 <= m ->
  exists ps, multi_encode sha256 d m true = Ok ps /\ multi_parse sha256 ps = Ok d.
Proof. exact multi_roundtrip. Qed.
Print Assumptions C20_multi_roundtrip.

Theorem C20_single_roundtrip :
  forall (sha256 : bytes -> bytes),
  (forall x, bytes_ok (sha256 x)) -> (forall x, length (sha256 x) = 32%nat) ->
  forall d uc, bytes_ok d -> zlen d < 4294967296 ->
  exists p, single_encode sha256 d uc = Ok p /\ single_parse sha256 p = Ok d.
Proof. exact single_roundtrip. Qed.
Print Assumptions C20_single_roundtrip.

(* ------------------------------------------------------------------ the string layer *)

(* int(str(n)) = n (the x and y of "xofy" survive the f-string and int()) *)
Theorem C20_int_of_str : forall n, - 2 ^ 64 < n < 2 ^ 64 -> py_int (str_int n) = Ok n.
Proof. exact py_int_str_int. Qed.
Print Assumptions C20_int_of_str.

(* the header parser (lower, strip, startswith, split("/"), split("of"), int()) inverts the
   f-strings of BCURSingle.encode / BCURMulti.encode on every well-formed part: fields without
   '/', white space or upper-case letters; forms 2, 3 and 4 *)
Theorem C20_str_fields_fmt : forall p, wf_part p -> str_fields (fmt_part p) = Ok p.
Proof. exact str_fields_fmt. Qed.
Print Assumptions C20_str_fields_fmt.

(* BCURSingle.parse / BCURMulti.parse on strings = header parser, then the field-level function
   (every field-level theorem above therefore speaks about the strings as well) *)
Theorem C20_single_parse_str_refines :
  forall (sha256 : bytes -> bytes) s,
  single_parse_str sha256 s = (p <- str_fields s ;; single_parse sha256 p).
Proof. exact single_parse_str_refines. Qed.
Print Assumptions C20_single_parse_str_refines.

Theorem C20_multi_parse_str_refines :
  forall (sha256 : bytes -> bytes) ss,
  multi_parse_str sha256 ss = (ps <- mapr str_fields ss ;; multi_parse sha256 ps).
Proof. exact multi_parse_str_refines. Qed.
Print Assumptions C20_multi_parse_str_refines.

(* soundness of the header parser: an accepted string is, after lower() and strip(), literally
   "ur:bytes/<payload>", "ur:bytes/<checksum>/<payload>" or "ur:bytes/<a>of<b>/<checksum>/<payload>"
   with int(a) = x, int(b) = y and no further '/': the fields are substrings of the input *)
Theorem C20_str_fields_sound :
  forall s p, str_fields s = Ok p ->
  noslash (p_chk p) /\ noslash (p_payload p) /\
  ((p_form p = 2 /\ p_x p = 1 /\ p_y p = 1 /\ p_chk p = [] /\
    strip (lower s) = ur_prefix ++ p_payload p) \/
   (p_form p = 3 /\ p_x p = 1 /\ p_y p = 1 /\
    strip (lower s) = ur_prefix ++ p_chk p ++ 47 :: p_payload p) \/
   (p_form p = 4 /\ exists a b, noslash a /\ noslash b /\
    py_int a = Ok (p_x p) /\ py_int b = Ok (p_y p) /\
    strip (lower s) = ur_prefix ++ (a ++ 111 :: 102 :: b) ++ 47 :: p_chk p ++ 47 :: p_payload p)).
Proof. exact str_fields_sound. Qed.
Print Assumptions C20_str_fields_sound.

(* round trips on the real strings: every payload below 2^32 bytes, every chunk size >= 1 *)
Theorem C20_multi_str_roundtrip :
  forall (sha256 : bytes -> bytes),
  (forall x, bytes_ok (sha256 x)) -> (forall x, length (sha256 x) = 32%nat) ->
  forall d m, bytes_ok d -> zlen d < 4294967296 -> 1 <= m ->
  exists ss, multi_encode_str sha256 d m true = Ok ss /\ multi_parse_str sha256 ss = Ok d.
Proof. exact multi_str_roundtrip. Qed.
Print Assumptions C20_multi_str_roundtrip.

(* animate=False: one "1of1" string whatever max_size_per_chunk is (0 and negatives included) *)
Theorem C20_multi_str_roundtrip_noanimate :
  forall (sha256 : bytes -> bytes),
  (forall x, bytes_ok (sha256 x)) -> (forall x, length (sha256 x) = 32%nat) ->
  forall d m, bytes_ok d -> zlen d < 4294967296 ->
  exists s, multi_encode_str sha256 d m false = Ok [s] /\ multi_parse_str sha256 [s] = Ok d.
Proof. exact multi_str_roundtrip_noanimate. Qed.
Print Assumptions C20_multi_str_roundtrip_noanimate.

Theorem C20_single_str_roundtrip :
  forall (sha256 : bytes -> bytes),
  (forall x, bytes_ok (sha256 x)) -> (forall x, length (sha256 x) = 32%nat) ->
  forall d uc, bytes_ok d -> zlen d < 4294967296 ->
  exists s, single_encode_str sha256 d uc = Ok s /\ single_parse_str sha256 s = Ok d.
Proof. exact single_str_roundtrip. Qed.
Print Assumptions C20_single_str_roundtrip.

(* exact or collision on strings: whatever the strings are, if the list is accepted and the
   header of its first string carries (up to case) the checksum text of [d] *)
Theorem C20_str_reassembly_exact_or_collision :
  forall (sha256 : bytes -> bytes), (forall x, bytes_ok (sha256 x)) ->
  forall s ss p d enc enc_hash d',
  bcur_encode sha256 d = Ok (enc, enc_hash) ->
  str_fields s = Ok p -> (p_form p = 3 \/ p_form p = 4) -> lower (p_chk p) = enc_hash ->
  multi_parse_str sha256 (s :: ss) = Ok d' ->
  d' = d \/ exists cbor cbor', cbor_encode d = Ok cbor /\ cbor' <> cbor /\
                               sha256 cbor' = sha256 cbor.
Proof. exact str_reassembly_exact_or_collision. Qed.
Print Assumptions C20_str_reassembly_exact_or_collision.

(* ------------------------------------------------------------------ corrupted characters in part strings *)

(* The first string of an encoded message with at most ONE character replaced by ANY character,
   at ANY position (prefix "ur:bytes/", the x-of-y header, either '/', the checksum text, the
   payload text; replaced by a letter, digit, '/', white space, ...), followed by ANY strings
   whatsoever: BCURMulti.parse raises, or returns the original payload, or the two exhibited
   CBOR strings are a SHA-256 collision.  No bound on payload size, chunk size or position. *)
Theorem C20_multi_str_first_subst :
  forall (sha256 : bytes -> bytes),
  (forall x, bytes_ok (sha256 x)) -> (forall x, length (sha256 x) = 32%nat) ->
  forall d m s1 rest s1' rest' d',
  bytes_ok d -> zlen d < 4294967296 -> 1 <= m ->
  multi_encode_str sha256 d m true = Ok (s1 :: rest) ->
  length s1' = length s1 -> (hamming s1 s1' <= 1)%nat ->
  multi_parse_str sha256 (s1' :: rest') = Ok d' ->
  d' = d \/ exists cbor cbor', cbor_encode d = Ok cbor /\ cbor' <> cbor /\
                               sha256 cbor' = sha256 cbor.
Proof. exact multi_str_first_subst. Qed.
Print Assumptions C20_multi_str_first_subst.

(* every single-character substitution in any ONE string of an encoded message *)
Theorem C20_multi_str_detects_single :
  forall (sha256 : bytes -> bytes),
  (forall x, bytes_ok (sha256 x)) -> (forall x, length (sha256 x) = 32%nat) ->
  forall d m ss pre s s' post d',
  bytes_ok d -> zlen d < 4294967296 -> 1 <= m ->
  multi_encode_str sha256 d m true = Ok ss -> ss = pre ++ s :: post ->
  length s' = length s -> hamming s s' = 1%nat ->
  multi_parse_str sha256 (pre ++ s' :: post) = Ok d' ->
  d' = d \/ exists cbor cbor', cbor_encode d = Ok cbor /\ cbor' <> cbor /\
                               sha256 cbor' = sha256 cbor.
Proof. exact multi_str_detects_single. Qed.
Print Assumptions C20_multi_str_detects_single.

(* all permutations / omissions / repetitions: ANY list of strings taken from the strings of an
   encoded message, if accepted, is an initial segment of the encoder's list (so a permuted,
   duplicated or internally incomplete selection raises), and the result is the payload or a
   collision is exhibited (missing trailing parts are only caught by the checksum / digest) *)
Theorem C20_multi_str_selection :
  forall (sha256 : bytes -> bytes),
  (forall x, bytes_ok (sha256 x)) -> (forall x, length (sha256 x) = 32%nat) ->
  forall d m ss ss' d',
  bytes_ok d -> zlen d < 4294967296 -> 1 <= m ->
  multi_encode_str sha256 d m true = Ok ss ->
  Forall (fun s => In s ss) ss' ->
  multi_parse_str sha256 ss' = Ok d' ->
  ss' = firstn (length ss') ss /\
  (d' = d \/ exists cbor cbor', cbor_encode d = Ok cbor /\ cbor' <> cbor /\
                                sha256 cbor' = sha256 cbor).
Proof. exact multi_str_selection. Qed.
Print Assumptions C20_multi_str_selection.

(* parts taken from another payload: ANY list of strings taken from the strings of TWO encoded
   messages (any chunk sizes, any order), if accepted, yields the payload of the message its
   FIRST string belongs to, or a SHA-256 collision is exhibited - never a third value *)
Theorem C20_multi_str_mixed :
  forall (sha256 : bytes -> bytes),
  (forall x, bytes_ok (sha256 x)) -> (forall x, length (sha256 x) = 32%nat) ->
  forall d1 d2 m1 m2 ss1 ss2 ss' d',
  bytes_ok d1 -> zlen d1 < 4294967296 -> 1 <= m1 ->
  bytes_ok d2 -> zlen d2 < 4294967296 -> 1 <= m2 ->
  multi_encode_str sha256 d1 m1 true = Ok ss1 ->
  multi_encode_str sha256 d2 m2 true = Ok ss2 ->
  Forall (fun s => In s ss1 \/ In s ss2) ss' ->
  multi_parse_str sha256 ss' = Ok d' ->
  d' = d1 \/ d' = d2 \/
  exists d cbor cbor', (d = d1 \/ d = d2) /\ cbor_encode d = Ok cbor /\ cbor' <> cbor /\
                       sha256 cbor' = sha256 cbor.
Proof. exact multi_str_mixed. Qed.
Print Assumptions C20_multi_str_mixed.

(* BCURSingle string with checksum, "ur:bytes/<checksum>/<payload>", at most one character
   replaced anywhere.  Replacing the inner '/' by a bech32 character yields a checksum-less
   string whose payload is <checksum><c><payload>: it is always refused, because two valid bc32
   words glued by one symbol never pass the bc32 polymod test (C20_bc32_glued_rejected). *)
Theorem C20_single_str_detects_single :
  forall (sha256 : bytes -> bytes),
  (forall x, bytes_ok (sha256 x)) -> (forall x, length (sha256 x) = 32%nat) ->
  forall d s s' d',
  bytes_ok d -> zlen d < 4294967296 ->
  single_encode_str sha256 d true = Ok s ->
  length s' = length s -> (hamming s s' <= 1)%nat ->
  single_parse_str sha256 s' = Ok d' ->
  d' = d \/ exists cbor cbor', cbor_encode d = Ok cbor /\ cbor' <> cbor /\
                               sha256 cbor' = sha256 cbor.
Proof. exact single_str_detects_single. Qed.
Print Assumptions C20_single_str_detects_single.

Theorem C20_bc32_glued_rejected :
  forall rc re a x,
  Forall sym5 rc -> Forall sym5 re ->
  bech32_polymod (0 :: rc) = BC32_CONSTANT -> bech32_polymod (0 :: re) = BC32_CONSTANT ->
  bc32decode (map b32c rc ++ a :: map b32c re) <> Ok (Some x).
Proof. exact bc32_glued_rejected. Qed.
Print Assumptions C20_bc32_glued_rejected.

(* ------------------------------------------------------------------ non-vacuity *)

Definition toy_sha (b : bytes) : bytes := repeatz (zlen b mod 256) 32.

(* a concrete message: encode with chunk size 7, parse back; drop / swap parts -> Err *)
Example ex_multi_roundtrip :
  (ps <- multi_encode toy_sha [1;2;3;4;5;6;7;8;9;10] 7 true ;; multi_parse toy_sha ps)
  = Ok [1;2;3;4;5;6;7;8;9;10].
Proof. vm_compute. reflexivity. Qed.
Example ex_multi_swapped :
  (ps <- multi_encode toy_sha [1;2;3;4;5;6;7;8;9;10] 7 true ;;
   match ps with a :: b :: r => multi_parse toy_sha (b :: a :: r) | _ => Ok [] end) = Err.
Proof. vm_compute. reflexivity. Qed.
Example ex_multi_missing_last :
  (ps <- multi_encode toy_sha [1;2;3;4;5;6;7;8;9;10] 7 true ;;
   multi_parse toy_sha (removelast ps)) = Err.
Proof. vm_compute. reflexivity. Qed.
(* the checksum text decodes to the digest on this message *)
Example ex_premise :
  (c <- cbor_encode [1;2;3;4;5;6;7;8;9;10] ;; e <- bc32encode (toy_sha c) ;; bc32decode e)
  = Ok (Some (toy_sha [74;1;2;3;4;5;6;7;8;9;10])).
Proof. vm_compute. reflexivity. Qed.

(* the hypotheses on sha256 are satisfiable *)
Example ex_toy_sha_hyps :
  (forall x, bytes_ok (toy_sha x)) /\ (forall x, length (toy_sha x) = 32%nat).
Proof. exact toy_hash_hyps. Qed.

(* the real strings: "ur:bytes/1of4/", ..., "ur:bytes/4of4/" in front of checksum and payload *)
Example ex_str_headers :
  (ss <- multi_encode_str toy_sha [1;2;3;4;5;6;7;8;9;10] 7 true ;; Ok (map (firstn 14) ss))
  = Ok [[117;114;58;98;121;116;101;115;47;49;111;102;52;47];
        [117;114;58;98;121;116;101;115;47;50;111;102;52;47];
        [117;114;58;98;121;116;101;115;47;51;111;102;52;47];
        [117;114;58;98;121;116;101;115;47;52;111;102;52;47]].
Proof. vm_compute. reflexivity. Qed.
Example ex_str_roundtrip :
  (ss <- multi_encode_str toy_sha [1;2;3;4;5;6;7;8;9;10] 7 true ;; multi_parse_str toy_sha ss)
  = Ok [1;2;3;4;5;6;7;8;9;10].
Proof. vm_compute. reflexivity. Qed.
(* upper case, surrounding white space (incl. 0x1c), "+1", "0_4": still the payload *)
Example ex_str_lenient :
  (ss <- multi_encode_str toy_sha [1;2;3;4;5;6;7;8;9;10] 100 true ;;
   match ss with
   | [s] => multi_parse_str toy_sha [[28; 32] ++ upper ([117;114;58;98;121;116;101;115;47;43;49;111;102;48;95;52] ++ skipn 13 s) ++ [10]]
   | _ => Err end)
  = Ok [1;2;3;4;5;6;7;8;9;10].
Proof. vm_compute. reflexivity. Qed.
(* one character of the first string replaced: 'x' in the prefix, '2' for the x, 'q' for the
   first '/', 'p' in the checksum, ' ' for the last payload character -> Err each time *)
Definition subst_at (n : nat) (c : Z) (s : list Z) : list Z := firstn n s ++ c :: skipn (S n) s.
Example ex_str_subst :
  (ss <- multi_encode_str toy_sha [1;2;3;4;5;6;7;8;9;10] 7 true ;;
   match ss with
   | s :: r =>
       Ok (map (fun '(n, c) => multi_parse_str toy_sha (subst_at n c s :: r))
               [(3%nat, 120); (9%nat, 50); (13%nat, 113); (20%nat, 112); ((length s - 1)%nat, 32)])
   | [] => Err end)
  = Ok [Err; Err; Err; Err; Err].
Proof. vm_compute. reflexivity. Qed.
(* BCURSingle with checksum: the inner '/' (position 9 + 58) replaced by 'q' -> Err *)
Example ex_single_glued :
  (s <- single_encode_str toy_sha [1;2;3;4;5;6;7;8;9;10] true ;;
   Ok (nth 67 s 0, single_parse_str toy_sha (subst_at 67 113 s), single_parse_str toy_sha s))
  = Ok (47, Err, Ok [1;2;3;4;5;6;7;8;9;10]).
Proof. vm_compute. reflexivity. Qed.
(* any selection: parts 1,2 of 4 are a prefix but fail the checksum; 2,1,3,4 is refused *)
Example ex_str_selection :
  (ss <- multi_encode_str toy_sha [1;2;3;4;5;6;7;8;9;10] 7 true ;;
   match ss with
   | [a; b; c; d] => Ok (multi_parse_str toy_sha [a; b], multi_parse_str toy_sha [b; a; c; d],
                         multi_parse_str toy_sha [a; b; c; c; d])
   | _ => Err end)
  = Ok (Err, Err, Err).
Proof. vm_compute. reflexivity. Qed.
(* two messages mixed: first string of one message followed by the rest of another -> Err *)
Example ex_str_mixed :
  (ss1 <- multi_encode_str toy_sha [1;2;3;4;5;6;7;8;9;10] 7 true ;;
   ss2 <- multi_encode_str toy_sha [9;2;3;4;5;6;7;8;9;10;11] 7 true ;;
   match ss1, ss2 with
   | a :: _, _ :: r => Ok (multi_parse_str toy_sha (a :: r), multi_parse_str toy_sha ss2)
   | _, _ => Err end)
  = Ok (Err, Ok [9;2;3;4;5;6;7;8;9;10;11]).
Proof. vm_compute. reflexivity. Qed.
(* the header parser alone: " UR:BYTES/1_0of+11//Q\n" -> payload "q", empty checksum, x 10, y 11 *)
Example ex_helper :
  parse_helper_str [32;85;82;58;66;89;84;69;83;47;49;95;48;111;102;43;49;49;47;47;81;10]
  = Ok ([113], Some [], 10, 11).
Proof. vm_compute. reflexivity. Qed.
(* int() details: "\x1c1" is refused although strip() would remove 0x1c; "1__0" and "+" too *)
Example ex_py_int : (py_int [28;49], py_int [49;95;95;48], py_int [43], py_int [32;45;48;55;10])
  = (Err, Err, Err, Ok (-7)).
Proof. vm_compute. reflexivity. Qed.

(* The constants written in the model are the constants of the SOURCE: coq/Generated/SrcConsts.v is regenerated
   from /repo/buidl/*.py by harness/gen_coq_consts.py on every run; the statements are spelled out in
   Proofs/ConstsTie.v (bech32_is_source_stmt). *)
From V Require Proofs.ConstsTie.
Theorem C20_constants_match_source : ConstsTie.bech32_is_source_stmt.
Proof. exact ConstsTie.bech32_is_source. Qed.
Print Assumptions C20_constants_match_source.
