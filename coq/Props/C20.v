(* Props/C20.v — BCUR / bc32 / CBOR air-gap transport reassembles exactly or fails loudly.
   Only statements, each closed by [exact] of a lemma from Proofs/, followed by Print Assumptions.
   sha256 is universally quantified.  A BCUR string is modelled by its header fields [part]
   (form, x, y, checksum text, payload text); the string layer (split, int()) is tied by
   correspondence only.

   sha256 output is assumed to be a 32-byte string where a theorem says so. *)
From V Require Import Base.Prelude Base.Ints Base.Lfsr Model.Helper Model.Base58 Model.Bech32
  Model.Bcur Proofs.Base58P Proofs.PolymodP Proofs.BcurP Proofs.ConvertbitsP Proofs.Bc32P
  Proofs.Bech32DetectP Proofs.Bc32SubP.

(* ------------------------------------------------------------------ CBOR *)

(* every length below 2^32, across 23/24, 255/256, 65535/65536 *)
Theorem C20_cbor_roundtrip :
  forall data, zlen data < 4294967296 ->
  exists e, cbor_encode data = Ok e /\ cbor_decode e = Ok (Some data).
Proof. exact cbor_roundtrip. Qed.
Print Assumptions C20_cbor_roundtrip.

Theorem C20_cbor_encode_range :
  forall data, 4294967296 <= zlen data -> cbor_encode data = Err.
Proof. exact cbor_encode_range. Qed.
Print Assumptions C20_cbor_encode_range.

Theorem C20_cbor_prefix :
  forall data e, cbor_encode data = Ok e ->
  (zlen data <= 23 /\ e = (64 + zlen data) :: data) \/
  (23 < zlen data <= 255 /\ e = 88 :: zlen data :: data) \/
  (255 < zlen data <= 65535 /\ e = 89 :: to_be 2 (zlen data) ++ data) \/
  (65535 < zlen data < 4294967296 /\ e = 96 :: to_be 4 (zlen data) ++ data).
Proof. exact cbor_prefix. Qed.
Print Assumptions C20_cbor_prefix.

(* ------------------------------------------------------------------ convertbits, bc32 *)

(* 8 -> 5 with padding, then 5 -> 8 without padding, for every byte string *)
Theorem C20_convertbits_roundtrip :
  forall d, bytes_ok d ->
  exists syms, convertbits d 8 5 true = Ok (Some syms) /\ Forall sym5 syms /\
               convertbits syms 5 8 false = Ok (Some d).
Proof. exact convertbits_roundtrip. Qed.
Print Assumptions C20_convertbits_roundtrip.

(* numeric form of the 8 -> 5 regrouping: the 5-bit digits read as one number are the bytes read
   as one number followed by p < 5 zero pad bits *)
Theorem C20_convertbits_8_5 :
  forall d, bytes_ok d ->
  exists syms p, convertbits d 8 5 true = Ok (Some syms) /\ Forall sym5 syms /\
    0 <= p < 5 /\ 5 * zlen syms = 8 * zlen d + p /\ val 32 syms = val 256 d * 2 ^ p.
Proof. exact convertbits_8_5. Qed.
Print Assumptions C20_convertbits_8_5.

Theorem C20_bc32_roundtrip :
  forall d, bytes_ok d ->
  exists s, bc32encode d = Ok s /\ bc32decode s = Ok (Some d) /\ Forall gchar s /\
            (6 <= length s)%nat.
Proof. exact bc32_roundtrip. Qed.
Print Assumptions C20_bc32_roundtrip.

(* ------------------------------------------------------------------ bc32 checksum *)

(* appending the six created symbols makes the polymod equal the constant (bc32: start state
   after the leading 0 symbol, constant 0x3FFFFFFF) *)
Theorem C20_checksum_valid :
  forall const c vs, st_ok c -> st_ok const -> Forall sym5 vs ->
  run GEN 25 5 c (vs ++ chk_syms (Z.lxor (run GEN 25 5 c (vs ++ zeros6)) const)) = const.
Proof. exact checksum_valid. Qed.
Print Assumptions C20_checksum_valid.

(* Single-character substitution at ANY length (method: XOR-linearity of the polymod,
   Base/Lfsr.v, + injectivity of the zero-input step on 30-bit states; no sweep, no length
   bound).  Text level: if a string that differs from bc32encode d in exactly one character is
   decoded at all, then the substitution was only a change of case of that letter and the
   payload is d itself; every other single substitution yields None or an exception. *)
Theorem C20_bc32_detects_single :
  forall d s s' x,
  bytes_ok d -> bc32encode d = Ok s ->
  length s' = length s -> hamming s s' = 1%nat ->
  bc32decode s' = Ok (Some x) -> lower s' = s /\ x = d.
Proof. exact bc32_detects_single_text. Qed.
Print Assumptions C20_bc32_detects_single.

(* symbol level, any valid symbol string *)
Theorem C20_bc32_detects_single_symbols :
  forall res es,
  length res = length es -> Forall sym5 es -> weight es = 1%nat ->
  bech32_polymod (0 :: res) = BC32_CONSTANT ->
  bech32_polymod (0 :: xorl res es) <> BC32_CONSTANT.
Proof. exact bc32_detects_single_symbols. Qed.
Print Assumptions C20_bc32_detects_single_symbols.

Theorem C20_polymod_single_error :
  forall pre vs es c,
  length vs = length es -> Forall sym5 es -> weight es = 1%nat ->
  run GEN 25 5 c (pre ++ xorl vs es) <> run GEN 25 5 c (pre ++ vs).
Proof. exact polymod_single_error. Qed.
Print Assumptions C20_polymod_single_error.

(* ------------------------------------------------------------------ BCURMulti.encode *)

(* for every payload (given its bc32 text) and every chunk size >= 1: y = ceil(len/chunk)
   parts, numbered 1..y, each carrying y and the checksum, none empty, none longer than the
   chunk size, and the pieces concatenate to the bc32 text *)
Theorem C20_chunks_concat :
  forall (sha256 : bytes -> bytes) data m enc enc_hash,
  bcur_encode sha256 data = Ok (enc, enc_hash) -> enc <> [] -> 1 <= m ->
  exists ps, multi_encode sha256 data m true = Ok ps /\
    let y := cdiv (zlen enc) m in
    Z.of_nat (length ps) = y /\
    map p_x ps = map (fun i => 1 + Z.of_nat i) (seq 0 (length ps)) /\
    Forall (fun p => p_form p = 4 /\ p_y p = y /\ p_chk p = enc_hash) ps /\
    Forall (fun p => (1 <= length (p_payload p))%nat /\ zlen (p_payload p) <= m) ps /\
    concat (map p_payload ps) = enc.
Proof. exact multi_encode_parts. Qed.
Print Assumptions C20_chunks_concat.

(* ------------------------------------------------------------------ BCURMulti.parse *)

(* accepted => the parts are numbered 1, 2, 3, ... in list order; so a list with a part out
   of order, duplicated, or missing before a later one raises *)
Theorem C20_reassembly_ordered :
  forall (sha256 : bytes -> bytes) ps d, multi_parse sha256 ps = Ok d -> numbered ps 0.
Proof. exact multi_parse_ordered. Qed.
Print Assumptions C20_reassembly_ordered.

Theorem C20_reassembly_unordered_err :
  forall (sha256 : bytes -> bytes) ps, ~ numbered ps 0 -> multi_parse sha256 ps = Err.
Proof. exact multi_parse_unordered_err. Qed.
Print Assumptions C20_reassembly_unordered_err.

(* accepted => every later part carries the first part's y (wrong y raises) *)
Theorem C20_reassembly_same_y :
  forall (sha256 : bytes -> bytes) p ps d,
  multi_parse sha256 (p :: ps) = Ok d -> Forall (fun q => part_y q = part_y p) ps.
Proof. exact multi_parse_same_y. Qed.
Print Assumptions C20_reassembly_same_y.

(* Exact or collision.  Whatever the parts are (other payload, missing trailing parts, mixed,
   corrupted): if the list is accepted and its first part carries (up to case) the checksum text
   that encode produces for [d], then the result is [d], or a SHA-256 collision is exhibited. *)
Theorem C20_reassembly_exact_or_collision :
  forall (sha256 : bytes -> bytes), (forall x, bytes_ok (sha256 x)) ->
  forall p ps d enc enc_hash d',
  bcur_encode sha256 d = Ok (enc, enc_hash) ->
  (p_form p = 3 \/ p_form p = 4) -> lower (p_chk p) = enc_hash ->
  multi_parse sha256 (p :: ps) = Ok d' ->
  d' = d \/ exists cbor cbor', cbor_encode d = Ok cbor /\ cbor' <> cbor /\
                               sha256 cbor' = sha256 cbor.
Proof. exact reassembly_exact_or_collision_full. Qed.
Print Assumptions C20_reassembly_exact_or_collision.

Theorem C20_bcur_decode_exact_or_collision :
  forall (sha256 : bytes -> bytes), (forall x, bytes_ok (sha256 x)) ->
  forall text d enc enc_hash d',
  bcur_encode sha256 d = Ok (enc, enc_hash) ->
  bcur_decode sha256 text (Some enc_hash) = Ok (Some d') ->
  d' = d \/ exists cbor cbor', cbor_encode d = Ok cbor /\ cbor' <> cbor /\
                               sha256 cbor' = sha256 cbor /\ bc32decode text = Ok (Some cbor').
Proof. exact bcur_decode_exact_or_collision_full. Qed.
Print Assumptions C20_bcur_decode_exact_or_collision.

(* ------------------------------------------------------------------ parse (encode) *)

(* every payload below 2^32 bytes, every chunk size >= 1 *)
Theorem C20_multi_roundtrip :
  forall (sha256 : bytes -> bytes),
  (forall x, bytes_ok (sha256 x)) -> (forall x, length (sha256 x) = 32%nat) ->
  forall d m, bytes_ok d -> zlen d < 4294967296 -> 1 <= m ->
  exists ps, multi_encode sha256 d m true = Ok ps /\ multi_parse sha256 ps = Ok d.
Proof. exact multi_roundtrip. Qed.
Print Assumptions C20_multi_roundtrip.

Theorem C20_single_roundtrip :
  forall (sha256 : bytes -> bytes),
  (forall x, bytes_ok (sha256 x)) -> (forall x, length (sha256 x) = 32%nat) ->
  forall d uc, bytes_ok d -> zlen d < 4294967296 ->
  exists p, single_encode sha256 d uc = Ok p /\ single_parse sha256 p = Ok d.
Proof. exact single_roundtrip. Qed.
Print Assumptions C20_single_roundtrip.

(* ------------------------------------------------------------------ non-vacuity *)

Definition toy_sha (b : bytes) : bytes := repeatz (zlen b mod 256) 32.

(* a concrete message: encode with chunk size 7, parse back; drop / swap parts -> Err *)
Example ex_multi_roundtrip :
  (ps <- multi_encode toy_sha [1;2;3;4;5;6;7;8;9;10] 7 true ;; multi_parse toy_sha ps)
  = Ok [1;2;3;4;5;6;7;8;9;10].
Proof. vm_compute. reflexivity. Qed.
Example ex_multi_swapped :
  (ps <- multi_encode toy_sha [1;2;3;4;5;6;7;8;9;10] 7 true ;;
   match ps with a :: b :: r => multi_parse toy_sha (b :: a :: r) | _ => Ok [] end) = Err.
Proof. vm_compute. reflexivity. Qed.
Example ex_multi_missing_last :
  (ps <- multi_encode toy_sha [1;2;3;4;5;6;7;8;9;10] 7 true ;;
   multi_parse toy_sha (removelast ps)) = Err.
Proof. vm_compute. reflexivity. Qed.
(* the checksum text decodes to the digest on this message *)
Example ex_premise :
  (c <- cbor_encode [1;2;3;4;5;6;7;8;9;10] ;; e <- bc32encode (toy_sha c) ;; bc32decode e)
  = Ok (Some (toy_sha [74;1;2;3;4;5;6;7;8;9;10])).
Proof. vm_compute. reflexivity. Qed.

(* The constants written in the model are the constants of the SOURCE: coq/Generated/SrcConsts.v is regenerated
   from /repo/buidl/*.py by harness/gen_coq_consts.py on every run; the statements are spelled out in
   Proofs/ConstsTie.v (bech32_is_source_stmt). *)
From V Require Proofs.ConstsTie.
Theorem C20_constants_match_source : ConstsTie.bech32_is_source_stmt.
Proof. exact ConstsTie.bech32_is_source. Qed.
Print Assumptions C20_constants_match_source.
