(* Props/C07.v — script interpreter (buidl/op.py, buidl/script.py Script.evaluate,
   buidl/timelock.py; models: Model/Op.v, Model/Interp.v) agrees with consensus semantics
   (Spec/Consensus.v, an independent transcription of Bitcoin Core's EvalScript for the
   implemented op code set).

   Conventions: stacks are lists with the TOP FIRST; [agree m s] says that the library step [m]
   is the consensus step [s] whenever the spec is not OutOfScope (failure <-> failure, same
   resulting stack and alt stack).  Hash functions are universally quantified.
   Statements only; proofs in Proofs/OpP.v, Proofs/ConformP.v, Proofs/InterpP.v. *)
From V Require Import Base.Prelude Base.Ints Model.Script Model.Op Model.Interp Spec.Consensus
  Proofs.OpP Proofs.ConformP Proofs.StackOkP Proofs.InterpP Proofs.ProgramP Proofs.P2shP Proofs.FlagsP.

(* ------------------------------------------------------------------ (1) number codec *)

Theorem C07_decode_encode : forall n : Z, decode_num (encode_num n) = n.
Proof. exact decode_encode. Qed.
Print Assumptions C07_decode_encode.

(* no byte string that decodes to n is shorter than encode_num n *)
Theorem C07_encode_shortest : forall e n,
  bytes_ok e -> decode_num e = n -> (length (encode_num n) <= length e)%nat.
Proof. exact encode_shortest. Qed.
Print Assumptions C07_encode_shortest.

(* encode_num n passes Core's minimal-encoding test: the last byte is not 0x00 / 0x80 unless the
   byte before it has its top bit set *)
Theorem C07_encode_minimal : forall n, sn_minimal (encode_num n) = true.
Proof. exact encode_minimal. Qed.
Print Assumptions C07_encode_minimal.

Theorem C07_encode_decode_minimal : forall e,
  bytes_ok e -> sn_minimal e = true -> encode_num (decode_num e) = e.
Proof. exact encode_decode. Qed.
Print Assumptions C07_encode_decode_minimal.

Theorem C07_zero_iff_not_cast_to_bool : forall e,
  bytes_ok e -> (decode_num e = 0 <-> cast_to_bool e = false).
Proof. exact decode_zero_iff. Qed.
Print Assumptions C07_zero_iff_not_cast_to_bool.

(* the library's codec is CScriptNum's: same value for every byte string, same serialisation
   for every integer *)
Theorem C07_codec_is_cscriptnum :
  (forall e, bytes_ok e -> sn_value e = decode_num e) /\ (forall n, sn_serialize n = encode_num n).
Proof. split; [exact sn_value_decode | exact sn_serialize_encode]. Qed.
Print Assumptions C07_codec_is_cscriptnum.

(* ------------------------------------------------------------------ (2) single op codes *)

(* every integer command except OP_2ROT: for every stack and alt stack of any depth and every
   transaction context, the library step is the consensus step unless the spec is OutOfScope
   (arithmetic operand longer than 4 bytes, CLTV/CSV operand above 2^32-1, op code outside the
   implemented set) *)
Theorem C07_opcode_conformance :
  forall (ripemd160 sha1 sha256 : bytes -> bytes) c o s a,
  o <> 113 ->
  Forall bytes_ok s -> Forall bytes_ok a ->
  agree (lib_step ripemd160 sha1 sha256 c o s a) (spec_step ripemd160 sha1 sha256 c o s a).
Proof.
  intros r1 r2 r3 c o s a N Hs Ha.
  destruct (Z.eq_dec o 177) as [->|N1]; [now apply cltv_conformance|].
  destruct (Z.eq_dec o 178) as [->|N2]; [now apply csv_conformance|].
  now apply opcode_conformance.
Qed.
Print Assumptions C07_opcode_conformance.

(* the list of op codes for which the spec has an opinion (it is OutOfScope for all others) *)
Example C07_opcode_conformance_nonvacuous :
  forall (r1 r2 r3 : bytes -> bytes) c,
  spec_step r1 r2 r3 c 147 [[2]; [3]] [] = SOk ([[5]], []) /\
  lib_step r1 r2 r3 c 147 [[2]; [3]] [] = Ok ([[5]], []) /\
  spec_step r1 r2 r3 c 105 [[128]] [] = SFail /\ lib_step r1 r2 r3 c 105 [[128]] [] = Err.
Proof. intros. repeat split; reflexivity. Qed.

(* OP_2ROT (0x71) copies the third pair instead of moving it: known finding K-C07-2rot *)
Theorem C07_op_2rot_refuted :
  exists (c : txctx) (s a : stack),
  forall ripemd160 sha1 sha256 : bytes -> bytes,
  Forall bytes_ok s /\ Forall bytes_ok a /\
  ~ agree (lib_step ripemd160 sha1 sha256 c 113 s a) (spec_step ripemd160 sha1 sha256 c 113 s a).
Proof.
  exists {| t_locktime := 0; t_sequence := 0; t_version := 1 |}, [[6]; [5]; [4]; [3]; [2]; [1]], [].
  intros r1 r2 r3. split; [|split].
  - repeat constructor; unfold byte_ok; lia.
  - constructor.
  - destruct (op_2rot_differs r1 r2 r3 {| t_locktime := 0; t_sequence := 0; t_version := 1 |}) as [L S].
    cbv zeta in L, S. rewrite L, S. cbn. discriminate.
Qed.
Print Assumptions C07_op_2rot_refuted.

(* ------------------------------------------------------------------ (3) time locks *)

(* OP_CHECKLOCKTIMEVERIFY / OP_CHECKSEQUENCEVERIFY: every locktime, sequence, version, every
   stack; operands of every byte length (more than 5 bytes: both fail); the spec is OutOfScope
   only for operand values above 2^32-1 *)
Theorem C07_cltv_csv_conformance :
  forall (ripemd160 sha1 sha256 : bytes -> bytes) c s a,
  Forall bytes_ok s ->
  agree (lib_step ripemd160 sha1 sha256 c 177 s a) (spec_step ripemd160 sha1 sha256 c 177 s a) /\
  agree (lib_step ripemd160 sha1 sha256 c 178 s a) (spec_step ripemd160 sha1 sha256 c 178 s a).
Proof. intros. split; [now apply cltv_conformance | now apply csv_conformance]. Qed.
Print Assumptions C07_cltv_csv_conformance.

(* the spec is never OutOfScope on a time-lock op code when the operand is in [-1, 2^32-1] *)
Theorem C07_cltv_csv_in_scope :
  forall (ripemd160 sha1 sha256 : bytes -> bytes) c e s a o,
  o = 177 \/ o = 178 -> bytes_ok e -> -1 <= decode_num e <= 4294967295 ->
  spec_step ripemd160 sha1 sha256 c o (e :: s) a <> SOOS.
Proof. exact locks_in_scope. Qed.
Print Assumptions C07_cltv_csv_in_scope.

(* outside that range the two really differ (CSV masks the operand, Sequence(element) raises):
   2^32 + 5 against sequence 10, version 2 *)
Example C07_csv_operand_above_range_differs :
  forall (r1 r2 r3 : bytes -> bytes),
  let c := {| t_locktime := 0; t_sequence := 10; t_version := 2 |} in
  lib_step r1 r2 r3 c 178 [[5; 0; 0; 0; 1]] [] = Err /\
  check_sequence (to_ctx c) (decode_num [5; 0; 0; 0; 1]) = true.
Proof. exact csv_large_operand_differs. Qed.

(* ------------------------------------------------------------------ (4) whole programs *)

(* Programs are ASTs (Proofs/InterpP.v): [IPlain cmd], [IIf neg body] (OP_IF / OP_NOTIF ... OP_ENDIF,
   arbitrary nesting) and the marker [IElse] separating the alternatives inside a body (any
   number: every OP_ELSE toggles).  [wf_prog]: pushes are byte strings, plain op codes are not
   conditional op codes and not OP_2ROT (K-C07-2rot), no OP_ELSE outside a conditional.

   The splice: on the flattening of a conditional, op_if / op_notif put exactly the selected
   alternatives in front of the remaining commands. *)
Theorem C07_if_splice : forall neg e s body rest,
  wf_items body = true ->
  op_if_gen neg (e :: s) (flatten body ++ Op 104 :: rest) =
  Ok (s, flatten (select (xorb (negb (decode_num e =? 0)) neg) body) ++ rest).
Proof. exact op_if_flat. Qed.
Print Assumptions C07_if_splice.

(* ... and the consensus loop, entering the same conditional with condition b, behaves as if it
   ran the selected alternatives followed by the rest (or is OutOfScope) *)
Theorem C07_consensus_splice :
  forall (ripemd160 sha1 sha256 : bytes -> bytes) c xw body R b st,
  wf_items body = true ->
  oos_or (run ripemd160 sha1 sha256 (to_ctx c) xw (flatten body ++ Op 104 :: R) [b] st)
         (run ripemd160 sha1 sha256 (to_ctx c) xw (flatten (select b body) ++ R) [] st).
Proof. exact run_splice. Qed.
Print Assumptions C07_consensus_splice.

(* Whole-program conformance: for every well-formed program, every transaction context and
   every hash function with byte-string results, Script(flatten p).evaluate(tx, i,
   allow_p2sh=False, allow_witness=xw) returns True exactly when consensus accepts and False (or
   raises) exactly when consensus rejects, unless the spec is OutOfScope.  With xw = false no
   byte pattern is special-cased by either side; with xw = true the library's witness-program
   shapes are OutOfScope in the spec and the library model never claims a verdict there. *)
Theorem C07_program_conformance :
  forall (ripemd160 sha1 sha256 : bytes -> bytes),
  (forall x, bytes_ok (ripemd160 x)) -> (forall x, bytes_ok (sha1 x)) -> (forall x, bytes_ok (sha256 x)) ->
  forall c xw p,
  wf_prog p = true ->
  rel (evaluate (lib_table ripemd160 sha1 sha256) c false xw (flatten p))
      (eval_script ripemd160 sha1 sha256 (to_ctx c) xw (flatten p)).
Proof. exact program_conformance. Qed.
Print Assumptions C07_program_conformance.

(* the same against the full verdict function (which adds the 10000-byte script limit and, when
   requested, the static P2SH exclusion as further OutOfScope cases) *)
Theorem C07_program_conformance_verdict :
  forall (ripemd160 sha1 sha256 : bytes -> bytes),
  (forall x, bytes_ok (ripemd160 x)) -> (forall x, bytes_ok (sha1 x)) -> (forall x, bytes_ok (sha256 x)) ->
  forall c xp xw p,
  wf_prog p = true ->
  rel (evaluate (lib_table ripemd160 sha1 sha256) c false xw (flatten p))
      (consensus_verdict ripemd160 sha1 sha256 (to_ctx c) xp xw (flatten p)).
Proof.
  intros r1 r2 r3 H1 H2 H3 c xp xw p Hw. unfold consensus_verdict.
  destruct (xp && mentions_p2sh (flatten p)); [exact I|].
  destruct (10000 <? script_size (flatten p)); [exact I|].
  now apply program_conformance.
Qed.
Print Assumptions C07_program_conformance_verdict.

(* Every combination of the keyword flags, in particular the defaults allow_p2sh=True,
   allow_witness=True: the verdict function then excludes (OutOfScope) the byte patterns the
   library special-cases — statically every script that has OP_HASH160, a 20-byte push and
   OP_EQUAL as a subsequence (the library's command list is always a subsequence of the script, so
   its P2SH rule cannot fire on any other script), dynamically the witness-program stack shapes. *)
Theorem C07_program_conformance_flags :
  forall (ripemd160 sha1 sha256 : bytes -> bytes),
  (forall x, bytes_ok (ripemd160 x)) -> (forall x, bytes_ok (sha1 x)) -> (forall x, bytes_ok (sha256 x)) ->
  forall c (allow_p2sh allow_witness : bool) p,
  wf_prog p = true ->
  rel (evaluate (lib_table ripemd160 sha1 sha256) c allow_p2sh allow_witness (flatten p))
      (consensus_verdict ripemd160 sha1 sha256 (to_ctx c) allow_p2sh allow_witness (flatten p)).
Proof. exact program_conformance_flags. Qed.
Print Assumptions C07_program_conformance_flags.

(* without the P2SH pattern the flag allow_p2sh changes nothing, for every command list *)
Theorem C07_p2sh_flag_irrelevant : forall table c aw f cmds s a,
  mentions_p2sh cmds = false ->
  eval_loop table c true aw f cmds s a = eval_loop table c false aw f cmds s a.
Proof. exact p2sh_flag_irrelevant. Qed.
Print Assumptions C07_p2sh_flag_irrelevant.

(* the loop of Script.evaluate terminates within the fuel the model gives it: any larger fuel
   gives the same outcome, for every command list (well nested or not) *)
Theorem C07_fuel_suffices : forall table c ap aw f cmds s a,
  (length cmds <= f)%nat ->
  eval_loop table c ap aw f cmds s a = eval_loop table c ap aw (length cmds) cmds s a.
Proof. exact eval_loop_fuel. Qed.
Print Assumptions C07_fuel_suffices.

(* non-vacuity: 0 IF 0 ELSE 1 ELSE 0 ENDIF  and a nested example, both accepted by both sides *)
Example C07_program_examples :
  let idh := fun x : bytes => x in
  let c := {| t_locktime := 0; t_sequence := 0; t_version := 2 |} in
  let p1 := [IPlain (Op 0); IIf false [IPlain (Op 0); IElse; IPlain (Op 81); IElse; IPlain (Op 0)]] in
  let p2 := [IPlain (Op 81); IPlain (Op 82);
             IIf true [IPlain (Op 106); IElse; IIf false [IPlain (Push [7]); IPlain (Op 139)]];
             IPlain (Op 88); IPlain (Op 135)] in
  wf_prog p1 = true /\ wf_prog p2 = true /\
  flatten p1 = [Op 0; Op 99; Op 0; Op 103; Op 81; Op 103; Op 0; Op 104] /\
  evaluate (lib_table idh idh idh) c false false (flatten p1) = OTrue /\
  eval_script idh idh idh (to_ctx c) false (flatten p1) = Accept /\
  evaluate (lib_table idh idh idh) c false false (flatten p2) = OTrue /\
  eval_script idh idh idh (to_ctx c) false (flatten p2) = Accept.
Proof. cbv zeta. repeat split; vm_compute; reflexivity. Qed.

(* The constants written in the model are the constants of the SOURCE: coq/Generated/SrcConsts.v is regenerated
   from /repo/buidl/*.py by harness/gen_coq_consts.py on every run; the statements are spelled out in
   Proofs/ConstsTie.v (timelock_is_source_stmt, op_table_domain_is_source_stmt, op_nop_codes_are_source_stmt). *)
From V Require Proofs.ConstsTie.
Theorem C07_constants_match_source : ConstsTie.timelock_is_source_stmt /\ ConstsTie.op_table_domain_is_source_stmt /\ ConstsTie.op_nop_codes_are_source_stmt.
Proof. exact (conj ConstsTie.timelock_is_source (conj ConstsTie.op_table_domain_is_source ConstsTie.op_nop_codes_are_source)). Qed.
Print Assumptions C07_constants_match_source.
