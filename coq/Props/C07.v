(* Props/C07.v — script interpreter (buidl/op.py, buidl/script.py Script.evaluate,
   buidl/timelock.py; models: Model/Op.v, Model/Interp.v) agrees with consensus semantics
   (Spec/Consensus.v, an independent transcription of Bitcoin Core's EvalScript for the
   implemented op code set).

   Conventions: stacks are lists with the TOP FIRST; [agree m s] says that the library step [m]
   is the consensus step [s] whenever the spec is not OutOfScope (failure <-> failure, same
   resulting stack and alt stack).  Hash functions are universally quantified.
   Statements only; proofs in Proofs/OpP.v, Proofs/ConformP.v, Proofs/InterpP.v. *)
From V Require Import Base.Prelude Base.Ints Model.Script Model.Op Model.Interp Spec.Consensus
  Proofs.OpP Proofs.ConformP Proofs.StackOkP Proofs.InterpP Proofs.ProgramP Proofs.P2shP Proofs.FlagsP.
From V Require Import Model.OpMode Model.Timelock Spec.ConsensusLimits Spec.Timelocks
  Proofs.OpModeP Proofs.AnyListP Proofs.LimitsP Proofs.TimelockP Model.OpNum Proofs.OpNumP.

(* ------------------------------------------------------------------ (1) number codec *)

Theorem C07_decode_encode : forall n : Z, decode_num (encode_num n) = n.
Proof. exact decode_encode. Qed.
Print Assumptions C07_decode_encode.

(* no byte string that decodes to n is shorter than encode_num n *)
Theorem C07_encode_shortest : forall e n,
  bytes_ok e -> decode_num e = n -> (length (encode_num n) <= length e)%nat.
Proof. exact encode_shortest. Qed.
Print Assumptions C07_encode_shortest.

(* encode_num n passes Core's minimal-encoding test: the last byte is not 0x00 / 0x80 unless the
   byte before it has its top bit set *)
Theorem C07_encode_minimal : forall n, sn_minimal (encode_num n) = true.
Proof. exact encode_minimal. Qed.
Print Assumptions C07_encode_minimal.

Theorem C07_encode_decode_minimal : forall e,
  bytes_ok e -> sn_minimal e = true -> encode_num (decode_num e) = e.
Proof. exact encode_decode. Qed.
Print Assumptions C07_encode_decode_minimal.

Theorem C07_zero_iff_not_cast_to_bool : forall e,
  bytes_ok e -> (decode_num e = 0 <-> cast_to_bool e = false).
Proof. exact decode_zero_iff. Qed.
Print Assumptions C07_zero_iff_not_cast_to_bool.

(* the library's codec is CScriptNum's: same value for every byte string, same serialisation
   for every integer *)
Theorem C07_codec_is_cscriptnum :
  (forall e, bytes_ok e -> sn_value e = decode_num e) /\ (forall n, sn_serialize n = encode_num n).
Proof. split; [exact sn_value_decode | exact sn_serialize_encode]. Qed.
Print Assumptions C07_codec_is_cscriptnum.

(* ------------------------------------------------------------------ (2) single op codes *)

(* every integer command except OP_2ROT: for every stack and alt stack of any depth and every
   transaction context, the library step is the consensus step unless the spec is OutOfScope
   (arithmetic operand longer than 4 bytes, CLTV/CSV operand above 2^32-1, op code outside the
   implemented set) *)
Theorem C07_opcode_conformance :
  forall (ripemd160 sha1 sha256 : bytes -> bytes) c o s a,
  o <> 113 ->
  Forall bytes_ok s -> Forall bytes_ok a ->
  agree (lib_step ripemd160 sha1 sha256 c o s a) (spec_step ripemd160 sha1 sha256 c o s a).
Proof.
  intros r1 r2 r3 c o s a N Hs Ha.
  destruct (Z.eq_dec o 177) as [->|N1]; [now apply cltv_conformance|].
  destruct (Z.eq_dec o 178) as [->|N2]; [now apply csv_conformance|].
  now apply opcode_conformance.
Qed.
Print Assumptions C07_opcode_conformance.

(* the list of op codes for which the spec has an opinion (it is OutOfScope for all others) *)
Example C07_opcode_conformance_nonvacuous :
  forall (r1 r2 r3 : bytes -> bytes) c,
  spec_step r1 r2 r3 c 147 [[2]; [3]] [] = SOk ([[5]], []) /\
  lib_step r1 r2 r3 c 147 [[2]; [3]] [] = Ok ([[5]], []) /\
  spec_step r1 r2 r3 c 105 [[128]] [] = SFail /\ lib_step r1 r2 r3 c 105 [[128]] [] = Err.
Proof. intros. repeat split; reflexivity. Qed.

(* OP_2ROT (0x71) copies the third pair instead of moving it: known finding K-C07-2rot *)
Theorem C07_op_2rot_refuted :
  exists (c : txctx) (s a : stack),
  forall ripemd160 sha1 sha256 : bytes -> bytes,
  Forall bytes_ok s /\ Forall bytes_ok a /\
  ~ agree (lib_step ripemd160 sha1 sha256 c 113 s a) (spec_step ripemd160 sha1 sha256 c 113 s a).
Proof.
  exists {| t_locktime := 0; t_sequence := 0; t_version := 1 |}, [[6]; [5]; [4]; [3]; [2]; [1]], [].
  intros r1 r2 r3. split; [|split].
  - repeat constructor; unfold byte_ok; lia.
  - constructor.
  - destruct (op_2rot_differs r1 r2 r3 {| t_locktime := 0; t_sequence := 0; t_version := 1 |}) as [L S].
    cbv zeta in L, S. rewrite L, S. cbn. discriminate.
Qed.
Print Assumptions C07_op_2rot_refuted.

(* ------------------------------------------------------------------ (3) time locks *)

(* OP_CHECKLOCKTIMEVERIFY / OP_CHECKSEQUENCEVERIFY: every locktime, sequence, version, every
   stack; operands of every byte length (more than 5 bytes: both fail); the spec is OutOfScope
   only for operand values above 2^32-1 *)
Theorem C07_cltv_csv_conformance :
  forall (ripemd160 sha1 sha256 : bytes -> bytes) c s a,
  Forall bytes_ok s ->
  agree (lib_step ripemd160 sha1 sha256 c 177 s a) (spec_step ripemd160 sha1 sha256 c 177 s a) /\
  agree (lib_step ripemd160 sha1 sha256 c 178 s a) (spec_step ripemd160 sha1 sha256 c 178 s a).
Proof. intros. split; [now apply cltv_conformance | now apply csv_conformance]. Qed.
Print Assumptions C07_cltv_csv_conformance.

(* the spec is never OutOfScope on a time-lock op code when the operand is in [-1, 2^32-1] *)
Theorem C07_cltv_csv_in_scope :
  forall (ripemd160 sha1 sha256 : bytes -> bytes) c e s a o,
  o = 177 \/ o = 178 -> bytes_ok e -> -1 <= decode_num e <= 4294967295 ->
  spec_step ripemd160 sha1 sha256 c o (e :: s) a <> SOOS.
Proof. exact locks_in_scope. Qed.
Print Assumptions C07_cltv_csv_in_scope.

(* outside that range the two really differ (CSV masks the operand, Sequence(element) raises):
   2^32 + 5 against sequence 10, version 2 *)
Example C07_csv_operand_above_range_differs :
  forall (r1 r2 r3 : bytes -> bytes),
  let c := {| t_locktime := 0; t_sequence := 10; t_version := 2 |} in
  lib_step r1 r2 r3 c 178 [[5; 0; 0; 0; 1]] [] = Err /\
  check_sequence (to_ctx c) (decode_num [5; 0; 0; 0; 1]) = true.
Proof. exact csv_large_operand_differs. Qed.

(* ------------------------------------------------------------------ (4) whole programs *)

(* Programs are ASTs (Proofs/InterpP.v): [IPlain cmd], [IIf neg body] (OP_IF / OP_NOTIF ... OP_ENDIF,
   arbitrary nesting) and the marker [IElse] separating the alternatives inside a body (any
   number: every OP_ELSE toggles).  [wf_prog]: pushes are byte strings, plain op codes are not
   conditional op codes and not OP_2ROT (K-C07-2rot), no OP_ELSE outside a conditional.

   The splice: on the flattening of a conditional, op_if / op_notif put exactly the selected
   alternatives in front of the remaining commands. *)
Theorem C07_if_splice : forall neg e s body rest,
  wf_items body = true ->
  op_if_gen neg (e :: s) (flatten body ++ Op 104 :: rest) =
  Ok (s, flatten (select (xorb (negb (decode_num e =? 0)) neg) body) ++ rest).
Proof. exact op_if_flat. Qed.
Print Assumptions C07_if_splice.

(* ... and the consensus loop, entering the same conditional with condition b, behaves as if it
   ran the selected alternatives followed by the rest (or is OutOfScope) *)
Theorem C07_consensus_splice :
  forall (ripemd160 sha1 sha256 : bytes -> bytes) c xw body R b st,
  wf_items body = true ->
  oos_or (run ripemd160 sha1 sha256 (to_ctx c) xw (flatten body ++ Op 104 :: R) [b] st)
         (run ripemd160 sha1 sha256 (to_ctx c) xw (flatten (select b body) ++ R) [] st).
Proof. exact run_splice. Qed.
Print Assumptions C07_consensus_splice.

(* Whole-program conformance: for every well-formed program, every transaction context and
   every hash function with byte-string results, Script(flatten p).evaluate(tx, i,
   allow_p2sh=False, allow_witness=xw) returns True exactly when consensus accepts and False (or
   raises) exactly when consensus rejects, unless the spec is OutOfScope.  With xw = false no
   byte pattern is special-cased by either side; with xw = true the library's witness-program
   shapes are OutOfScope in the spec and the library model never claims a verdict there. *)
Theorem C07_program_conformance :
  forall (ripemd160 sha1 sha256 : bytes -> bytes),
  (forall x, bytes_ok (ripemd160 x)) -> (forall x, bytes_ok (sha1 x)) -> (forall x, bytes_ok (sha256 x)) ->
  forall c xw p,
  wf_prog p = true ->
  rel (evaluate (lib_table ripemd160 sha1 sha256) c false xw (flatten p))
      (eval_script ripemd160 sha1 sha256 (to_ctx c) xw (flatten p)).
Proof. exact program_conformance. Qed.
Print Assumptions C07_program_conformance.

(* the same against the full verdict function (which adds the 10000-byte script limit and, when
   requested, the static P2SH exclusion as further OutOfScope cases) *)
Theorem C07_program_conformance_verdict :
  forall (ripemd160 sha1 sha256 : bytes -> bytes),
  (forall x, bytes_ok (ripemd160 x)) -> (forall x, bytes_ok (sha1 x)) -> (forall x, bytes_ok (sha256 x)) ->
  forall c xp xw p,
  wf_prog p = true ->
  rel (evaluate (lib_table ripemd160 sha1 sha256) c false xw (flatten p))
      (consensus_verdict ripemd160 sha1 sha256 (to_ctx c) xp xw (flatten p)).
Proof.
  intros r1 r2 r3 H1 H2 H3 c xp xw p Hw. unfold consensus_verdict.
  destruct (xp && mentions_p2sh (flatten p)); [exact I|].
  destruct (10000 <? script_size (flatten p)); [exact I|].
  now apply program_conformance.
Qed.
Print Assumptions C07_program_conformance_verdict.

(* Every combination of the keyword flags, in particular the defaults allow_p2sh=True,
   allow_witness=True: the verdict function then excludes (OutOfScope) the byte patterns the
   library special-cases — statically every script that has OP_HASH160, a 20-byte push and
   OP_EQUAL as a subsequence (the library's command list is always a subsequence of the script, so
   its P2SH rule cannot fire on any other script), dynamically the witness-program stack shapes. *)
Theorem C07_program_conformance_flags :
  forall (ripemd160 sha1 sha256 : bytes -> bytes),
  (forall x, bytes_ok (ripemd160 x)) -> (forall x, bytes_ok (sha1 x)) -> (forall x, bytes_ok (sha256 x)) ->
  forall c (allow_p2sh allow_witness : bool) p,
  wf_prog p = true ->
  rel (evaluate (lib_table ripemd160 sha1 sha256) c allow_p2sh allow_witness (flatten p))
      (consensus_verdict ripemd160 sha1 sha256 (to_ctx c) allow_p2sh allow_witness (flatten p)).
Proof. exact program_conformance_flags. Qed.
Print Assumptions C07_program_conformance_flags.

(* without the P2SH pattern the flag allow_p2sh changes nothing, for every command list *)
Theorem C07_p2sh_flag_irrelevant : forall table c aw f cmds s a,
  mentions_p2sh cmds = false ->
  eval_loop table c true aw f cmds s a = eval_loop table c false aw f cmds s a.
Proof. exact p2sh_flag_irrelevant. Qed.
Print Assumptions C07_p2sh_flag_irrelevant.

(* the loop of Script.evaluate terminates within the fuel the model gives it: any larger fuel
   gives the same outcome, for every command list (well nested or not) *)
Theorem C07_fuel_suffices : forall table c ap aw f cmds s a,
  (length cmds <= f)%nat ->
  eval_loop table c ap aw f cmds s a = eval_loop table c ap aw (length cmds) cmds s a.
Proof. exact eval_loop_fuel. Qed.
Print Assumptions C07_fuel_suffices.

(* non-vacuity: 0 IF 0 ELSE 1 ELSE 0 ENDIF  and a nested example, both accepted by both sides *)
Example C07_program_examples :
  let idh := fun x : bytes => x in
  let c := {| t_locktime := 0; t_sequence := 0; t_version := 2 |} in
  let p1 := [IPlain (Op 0); IIf false [IPlain (Op 0); IElse; IPlain (Op 81); IElse; IPlain (Op 0)]] in
  let p2 := [IPlain (Op 81); IPlain (Op 82);
             IIf true [IPlain (Op 106); IElse; IIf false [IPlain (Push [7]); IPlain (Op 139)]];
             IPlain (Op 88); IPlain (Op 135)] in
  wf_prog p1 = true /\ wf_prog p2 = true /\
  flatten p1 = [Op 0; Op 99; Op 0; Op 103; Op 81; Op 103; Op 0; Op 104] /\
  evaluate (lib_table idh idh idh) c false false (flatten p1) = OTrue /\
  eval_script idh idh idh (to_ctx c) false (flatten p1) = Accept /\
  evaluate (lib_table idh idh idh) c false false (flatten p2) = OTrue /\
  eval_script idh idh idh (to_ctx c) false (flatten p2) = Accept.
Proof. cbv zeta. repeat split; vm_compute; reflexivity. Qed.

(* The constants written in the model are the constants of the SOURCE: coq/Generated/SrcConsts.v is regenerated
   from /repo/buidl/*.py by harness/gen_coq_consts.py on every run; the statements are spelled out in
   Proofs/ConstsTie.v (timelock_is_source_stmt, op_table_domain_is_source_stmt, op_nop_codes_are_source_stmt). *)
From V Require Proofs.ConstsTie.
Theorem C07_constants_match_source : ConstsTie.timelock_is_source_stmt /\ ConstsTie.op_table_domain_is_source_stmt /\ ConstsTie.op_nop_codes_are_source_stmt.
Proof. exact (conj ConstsTie.timelock_is_source (conj ConstsTie.op_table_domain_is_source ConstsTie.op_nop_codes_are_source)). Qed.
Print Assumptions C07_constants_match_source.

(* ================================================================== (5) the failure MODE

   Model/OpMode.v is a second, finer mirror of buidl/op.py and Script.evaluate in which "returns False"
   (MFalse / XFalse) and "raises" (MRaise e / XRaise e) are different results, with the guards
   (`if len(stack) < k: return False`) and the list accesses (pop / index, which raise IndexError on their own)
   modelled separately.  Model/Op.v and Model/Interp.v ([Err], [OFalse]) identify the two. *)

(* it is a refinement: forgetting the mode gives the model the theorems above are about, for every integer
   command on every stack and for Script.evaluate on every command list and every flag combination *)
Theorem C07_mode_refines_model :
  forall (ripemd160 sha1 sha256 : bytes -> bytes) c,
  (forall o rest s a,
     collapse (m_exec_op (m_lib_table ripemd160 sha1 sha256) c o rest s a) =
     Interp.exec_op (lib_table ripemd160 sha1 sha256) c o rest s a) /\
  (forall ap aw cmds,
     xcollapse (m_evaluate (m_lib_table ripemd160 sha1 sha256) c ap aw cmds) =
     evaluate (lib_table ripemd160 sha1 sha256) c ap aw cmds).
Proof.
  intros r1 r2 r3 c. split; [intros; apply exec_collapse | intros; apply evaluate_collapse].
Qed.
Print Assumptions C07_mode_refines_model.

(* EXACTLY which integer command raises what on which stack ([step_raise], Proofs/OpModeP.v: KeyError for a
   command that is no key of OP_CODE_FUNCTIONS; ValueError in CLTV / CSV when Locktime(...) / Sequence(...) is
   reached with an operand above 2^32-1; the signature op codes 172-175 are C06's); everywhere else the function
   returns False exactly where the coarse model fails and otherwise yields the same stacks *)
Theorem C07_opcode_failure_mode_exact :
  forall (ripemd160 sha1 sha256 : bytes -> bytes) c o rest s a,
  m_exec_op (m_lib_table ripemd160 sha1 sha256) c o rest s a =
  match step_raise c o s with
  | Some e => MRaise e
  | None => inj (Interp.exec_op (lib_table ripemd160 sha1 sha256) c o rest s a)
  end.
Proof. exact exec_mode. Qed.
Print Assumptions C07_opcode_failure_mode_exact.

(* the guards of the op code functions are sufficient: no pop / index ever raises IndexError, on ANY stack and
   alt stack (a guard that is off by one makes this theorem fail for that op code) *)
Theorem C07_no_index_error :
  forall (ripemd160 sha1 sha256 : bytes -> bytes) c o rest s a,
  m_exec_op (m_lib_table ripemd160 sha1 sha256) c o rest s a <> MRaise EIndex.
Proof. exact no_index_error. Qed.
Print Assumptions C07_no_index_error.

Theorem C07_key_error_iff :
  forall (ripemd160 sha1 sha256 : bytes -> bytes) c o rest s a,
  m_exec_op (m_lib_table ripemd160 sha1 sha256) c o rest s a = MRaise EKey <-> in_table o = false.
Proof. exact key_error_iff. Qed.
Print Assumptions C07_key_error_iff.

Theorem C07_value_error_iff :
  forall (ripemd160 sha1 sha256 : bytes -> bytes) c o rest s a,
  m_exec_op (m_lib_table ripemd160 sha1 sha256) c o rest s a = MRaise EValue <->
  (o = 177 /\ cltv_raises c s = true) \/ (o = 178 /\ csv_raises c s = true).
Proof. exact value_error_iff. Qed.
Print Assumptions C07_value_error_iff.

(* single op codes, with the mode: where the spec has an opinion the library function RETURNS False (does not
   raise) exactly where consensus fails, and otherwise leaves the consensus stacks *)
Theorem C07_opcode_mode_conformance :
  forall (ripemd160 sha1 sha256 : bytes -> bytes) c o rest s a,
  is_ctl o = false -> o <> 113 -> Forall bytes_ok s -> Forall bytes_ok a ->
  agree_m (m_exec_op (m_lib_table ripemd160 sha1 sha256) c o rest s a) rest
          (spec_step ripemd160 sha1 sha256 c o s a).
Proof. exact step_mode_conformance. Qed.
Print Assumptions C07_opcode_mode_conformance.

Example C07_failure_mode_examples :
  forall (r1 r2 r3 : bytes -> bytes) c,
  m_exec_op (m_lib_table r1 r2 r3) c 109 [] [[1]] [] = MFalse /\                 (* 2DROP on one item *)
  m_exec_op (m_lib_table r1 r2 r3) c 103 [] [[1]] [] = MRaise EKey /\            (* ELSE is not in the table *)
  m_exec_op (m_lib_table r1 r2 r3) c 186 [] [[1]] [] = MRaise EKey /\
  m_exec_op (m_lib_table r1 r2 r3) {| t_locktime := 0; t_sequence := 0; t_version := 2 |} 177 []
    [[5; 0; 0; 0; 1]] [] = MRaise EValue /\                                       (* Locktime(2^32+5) *)
  spec_step r1 r2 r3 {| t_locktime := 0; t_sequence := 0; t_version := 2 |} 177 [[5; 0; 0; 0; 1]] [] = SOOS.
Proof. intros. repeat split; reflexivity. Qed.

(* ================================================================== (6) arbitrary command lists

   [cmds_okb]: every push is a byte string, no OP_2ROT (K-C07-2rot) — nothing about nesting.
   [ns 0 cmds]: no OP_ELSE / OP_ENDIF outside every conditional. *)

(* what the scan of op_if / op_notif accepts *)
Theorem C07_op_if_characterised : forall neg e s items, cmds_okb items = true ->
  (exists body rest, wf_items body = true /\ items = flatten body ++ Op 104 :: rest /\
     op_if_gen neg (e :: s) items =
     Ok (s, flatten (select (xorb (negb (decode_num e =? 0)) neg) body) ++ rest))
  \/ ((forall body rest, wf_items body = true -> items <> flatten body ++ Op 104 :: rest) /\
      op_if_gen neg (e :: s) items = Err).
Proof. exact op_if_characterised. Qed.
Print Assumptions C07_op_if_characterised.

(* C07_program_conformance_flags without the nesting hypothesis: EVERY command list (stray ELSE / ENDIF,
   unterminated IF included), every context, every flag combination *)
Theorem C07_all_lists_conformance :
  forall (ripemd160 sha1 sha256 : bytes -> bytes),
  (forall x, bytes_ok (ripemd160 x)) -> (forall x, bytes_ok (sha1 x)) -> (forall x, bytes_ok (sha256 x)) ->
  forall c (allow_p2sh allow_witness : bool) cmds,
  cmds_okb cmds = true ->
  rel (evaluate (lib_table ripemd160 sha1 sha256) c allow_p2sh allow_witness cmds)
      (consensus_verdict ripemd160 sha1 sha256 (to_ctx c) allow_p2sh allow_witness cmds).
Proof. exact any_list_conformance_flags. Qed.
Print Assumptions C07_all_lists_conformance.

(* ... and with the failure mode: consensus accepts -> True; consensus rejects -> the library RETURNS False,
   or, only if the list has an OP_ELSE / OP_ENDIF outside every conditional, raises KeyError *)
Theorem C07_all_lists_failure_mode :
  forall (ripemd160 sha1 sha256 : bytes -> bytes),
  (forall x, bytes_ok (ripemd160 x)) -> (forall x, bytes_ok (sha1 x)) -> (forall x, bytes_ok (sha256 x)) ->
  forall c (allow_p2sh allow_witness : bool) cmds,
  cmds_okb cmds = true ->
  rel_m (ns 0 cmds) (m_evaluate (m_lib_table ripemd160 sha1 sha256) c allow_p2sh allow_witness cmds)
        (consensus_verdict ripemd160 sha1 sha256 (to_ctx c) allow_p2sh allow_witness cmds).
Proof. exact any_list_mode_flags. Qed.
Print Assumptions C07_all_lists_failure_mode.

(* properly nested programs: the library returns False (never raises) exactly where consensus rejects *)
Theorem C07_program_failure_mode :
  forall (ripemd160 sha1 sha256 : bytes -> bytes),
  (forall x, bytes_ok (ripemd160 x)) -> (forall x, bytes_ok (sha1 x)) -> (forall x, bytes_ok (sha256 x)) ->
  forall c (allow_p2sh allow_witness : bool) p,
  wf_prog p = true ->
  rel_m true (m_evaluate (m_lib_table ripemd160 sha1 sha256) c allow_p2sh allow_witness (flatten p))
        (consensus_verdict ripemd160 sha1 sha256 (to_ctx c) allow_p2sh allow_witness (flatten p)).
Proof. exact program_mode_flags. Qed.
Print Assumptions C07_program_failure_mode.

(* an exception can escape an in-scope evaluation only as the KeyError of a stray OP_ELSE / OP_ENDIF, on a
   script consensus rejects *)
Theorem C07_raise_only_stray_else_endif :
  forall (ripemd160 sha1 sha256 : bytes -> bytes),
  (forall x, bytes_ok (ripemd160 x)) -> (forall x, bytes_ok (sha1 x)) -> (forall x, bytes_ok (sha256 x)) ->
  forall c (ap aw : bool) cmds e, cmds_okb cmds = true ->
  m_evaluate (m_lib_table ripemd160 sha1 sha256) c ap aw cmds = XRaise e ->
  consensus_verdict ripemd160 sha1 sha256 (to_ctx c) ap aw cmds <> OutOfScope ->
  e = EKey /\ ns 0 cmds = false /\ consensus_verdict ripemd160 sha1 sha256 (to_ctx c) ap aw cmds = Reject.
Proof. exact raise_only_stray. Qed.
Print Assumptions C07_raise_only_stray_else_endif.

(* "where consensus rejects the library returns False" is refuted for ill-nested scripts: 1 ELSE is rejected
   by consensus (unbalanced conditional) and Script([0x51, 0x67]).evaluate(tx, i) raises KeyError(103)
   (replayed on the code) *)
Theorem C07_reject_returns_false_refuted :
  exists cmds c, cmds_okb cmds = true /\
  forall (r1 r2 r3 : bytes -> bytes) (ap aw : bool),
    consensus_verdict r1 r2 r3 (to_ctx c) ap aw cmds = Reject /\
    m_evaluate (m_lib_table r1 r2 r3) c ap aw cmds = XRaise EKey /\
    evaluate (lib_table r1 r2 r3) c ap aw cmds = OFalse.
Proof. exact stray_else_raises. Qed.
Print Assumptions C07_reject_returns_false_refuted.

(* non-vacuity: ill-nested lists satisfy the hypothesis; what both sides do with them *)
Example C07_ill_nested_examples :
  let idh := fun x : bytes => x in
  let c := {| t_locktime := 0; t_sequence := 0; t_version := 2 |} in
  let ev := m_evaluate (m_lib_table idh idh idh) c false false in
  let cs := eval_script idh idh idh (to_ctx c) false in
  cmds_okb [Op 81; Op 99; Op 81] = true /\ ns 0 [Op 81; Op 99; Op 81] = true /\
  ev [Op 81; Op 99; Op 81] = XFalse /\ cs [Op 81; Op 99; Op 81] = Reject /\           (* 1 IF 1: unterminated *)
  ns 0 [Op 0; Op 99; Op 104; Op 104; Op 81] = false /\
  ev [Op 0; Op 99; Op 104; Op 104; Op 81] = XRaise EKey /\ cs [Op 0; Op 99; Op 104; Op 104; Op 81] = Reject /\
  ev [Op 0; Op 99; Op 99; Op 104; Op 81] = XFalse /\ cs [Op 0; Op 99; Op 99; Op 104; Op 81] = Reject /\
  ev [Op 81; Op 106; Op 103] = XFalse /\ cs [Op 81; Op 106; Op 103] = Reject.       (* fails before the stray ELSE *)
Proof. cbv zeta. repeat split; vm_compute; reflexivity. Qed.

(* ================================================================== (7) resource limits

   Spec/ConsensusLimits.v adds the four limits of Core's EvalScript to the spec ([run_lim], [eval_script_lim]):
   push size 520, 201 op codes above OP_16 (counted whether executed or not), 1000 items on stack + alt stack,
   script size 10000.  The library enforces NONE of them. *)

Theorem C07_stack_growth_at_most_3 :
  forall (ripemd160 sha1 sha256 : bytes -> bytes) c o s a s' a',
  Consensus.exec_op ripemd160 sha1 sha256 c o (s, a) = SOk (s', a') ->
  zlen s' + zlen a' <= zlen s + zlen a + 3.
Proof. exact exec_growth. Qed.
Print Assumptions C07_stack_growth_at_most_3.

(* inside the static bounds (<= 10000 bytes, pushes <= 520 bytes, <= 201 counted op codes, <= 333 commands)
   no limit can fire: the spec without limits IS consensus there *)
Theorem C07_limits_unreachable :
  forall (ripemd160 sha1 sha256 : bytes -> bytes) c xw cmds,
  within_limits cmds = true ->
  eval_script_lim ripemd160 sha1 sha256 c xw cmds = eval_script ripemd160 sha1 sha256 c xw cmds.
Proof. exact limits_unreachable. Qed.
Print Assumptions C07_limits_unreachable.

(* the property's quantifier (at most 40 operations) is inside the bounds *)
Theorem C07_forty_operations_within_limits : forall cmds,
  (length cmds <= 40)%nat -> forallb push_small cmds = true -> script_size cmds <= MAX_SCRIPT_SIZE ->
  within_limits cmds = true.
Proof. exact forty_within_limits. Qed.
Print Assumptions C07_forty_operations_within_limits.

(* hence conformance against consensus INCLUDING its limits, for every command list inside the bounds *)
Theorem C07_conformance_with_limits :
  forall (ripemd160 sha1 sha256 : bytes -> bytes),
  (forall x, bytes_ok (ripemd160 x)) -> (forall x, bytes_ok (sha1 x)) -> (forall x, bytes_ok (sha256 x)) ->
  forall c xw cmds,
  cmds_okb cmds = true -> within_limits cmds = true ->
  rel_m (ns 0 cmds) (m_evaluate (m_lib_table ripemd160 sha1 sha256) c false xw cmds)
        (eval_script_lim ripemd160 sha1 sha256 (to_ctx c) xw cmds).
Proof. exact conformance_with_limits. Qed.
Print Assumptions C07_conformance_with_limits.

(* beyond each bound the library differs from consensus: a 521-byte push, OP_1 followed by 202 OP_NOP,
   1001 times OP_1, twenty 520-byte pushes (10460 bytes) are rejected by consensus on the limit alone and
   accepted by Script.evaluate (each replayed on the code) *)
Theorem C07_resource_limits_refuted :
  limit_gap w_push_size /\ limit_gap w_op_count /\ limit_gap w_stack_size /\
  (script_size w_script_size = 10460 /\
   eval_script_lim idh idh idh (to_ctx ctx0) false w_script_size = Reject /\
   evaluate (lib_table idh idh idh) ctx0 false false w_script_size = OTrue).
Proof.
  exact (conj push_size_not_enforced (conj op_count_not_enforced (conj stack_size_not_enforced
           script_size_not_enforced))).
Qed.
Print Assumptions C07_resource_limits_refuted.

(* ================================================================== (8) the classes Locktime and Sequence

   Model/Timelock.v mirrors buidl/timelock.py; Spec/Timelocks.v states BIP65 / BIP68 / BIP112 with arithmetic
   (no bit operations).  All theorems are for ALL integers (the classes hold 0 .. 2^32-1). *)

Theorem C07_timelock_new_iff : forall n,
  (lt_new n = Ok n <-> 0 <= n <= 4294967295) /\ (lt_new n = Err <-> ~ 0 <= n <= 4294967295) /\
  (sq_new n = Ok n <-> 0 <= n <= 4294967295) /\ (sq_new n = Err <-> ~ 0 <= n <= 4294967295).
Proof. exact new_iff. Qed.
Print Assumptions C07_timelock_new_iff.

Theorem C07_timelock_parse_total : forall s, bytes_ok s ->
  lt_parse s = Ok (from_le (firstn 4 s)) /\ sq_parse s = Ok (from_le (firstn 4 s)).
Proof. exact parse_total. Qed.
Print Assumptions C07_timelock_parse_total.

Theorem C07_timelock_serialize_parse : forall n rest, 0 <= n <= 4294967295 -> bytes_ok rest ->
  exists b, lt_serialize n = Ok b /\ sq_serialize n = Ok b /\ length b = 4%nat /\
            lt_parse (b ++ rest) = Ok n /\ sq_parse (b ++ rest) = Ok n.
Proof. exact serialize_parse. Qed.
Print Assumptions C07_timelock_serialize_parse.

Theorem C07_timelock_parse_serialize : forall s, bytes_ok s -> (4 <= length s)%nat ->
  lt_serialize (from_le (firstn 4 s)) = Ok (firstn 4 s) /\ sq_serialize (from_le (firstn 4 s)) = Ok (firstn 4 s).
Proof. exact parse_serialize. Qed.
Print Assumptions C07_timelock_parse_serialize.

(* BIP65: comparable <-> same kind (height / time); `<` raises exactly when not comparable *)
Theorem C07_locktime_bip65 : forall a b,
  lt_comparable a b = same_kind (locktime_kind a) (locktime_kind b) /\
  lt_lt a b = (if same_kind (locktime_kind a) (locktime_kind b) then Ok (a <? b) else Err) /\
  lt_block_height a = (match locktime_kind a with Height => Some a | Time => None end) /\
  lt_mtp a = (match locktime_kind a with Time => Some a | Height => None end).
Proof. exact locktime_bip65. Qed.
Print Assumptions C07_locktime_bip65.

(* BIP68: what a sequence value means, for every value *)
Theorem C07_sequence_bip68 : forall n,
  match bip68 n with
  | NoRelativeLock =>
      sq_relative n = false /\ sq_relative_time n = false /\ sq_relative_block n = false /\
      sq_relative_blocks n = None /\ sq_relative_seconds n = None
  | Blocks k =>
      sq_relative n = true /\ sq_relative_time n = false /\ sq_relative_block n = true /\
      sq_relative_blocks n = Some k /\ sq_relative_seconds n = None
  | Seconds k =>
      sq_relative n = true /\ sq_relative_time n = true /\ sq_relative_block n = false /\
      sq_relative_blocks n = None /\ sq_relative_seconds n = Some k
  end.
Proof. exact sequence_bip68. Qed.
Print Assumptions C07_sequence_bip68.

(* BIP112: comparable <-> both block based or both time based; `<` compares the 16-bit values and raises
   exactly when not comparable *)
Theorem C07_sequence_bip112 : forall a b,
  sq_comparable a b = bip112_comparable a b /\
  sq_lt a b = (if bip112_comparable a b then Ok (bip68_value a <? bip68_value b) else Err).
Proof. exact sequence_bip112. Qed.
Print Assumptions C07_sequence_bip112.

Theorem C07_from_relative_blocks_ok : forall k, 0 <= k < 65536 ->
  sq_from_relative_blocks k = Ok k /\ bip68 k = Blocks k.
Proof. exact from_relative_blocks_ok. Qed.
Print Assumptions C07_from_relative_blocks_ok.

(* a relative time is rounded DOWN to a multiple of 512 seconds *)
Theorem C07_from_relative_time_ok : forall secs, 0 <= secs < 33554432 ->
  let v := 4194304 + secs / 512 in
  sq_from_relative_time secs = Ok v /\ bip68 v = Seconds (512 * (secs / 512)) /\
  secs - 512 < 512 * (secs / 512) <= secs.
Proof. exact from_relative_time_ok. Qed.
Print Assumptions C07_from_relative_time_ok.

(* beyond 16 bits the constructors do not validate: Sequence.from_relative_blocks(65536) is a lock of 0
   blocks, from_relative_blocks(1 << 22) a lock of 0 seconds, from_relative_blocks(1 << 31) no lock at all,
   from_relative_time(65536 * 512) a lock of 0 seconds — none raises (replayed on the code) *)
Theorem C07_from_relative_unchecked_refuted :
  (sq_from_relative_blocks 65536 = Ok 65536 /\ bip68 65536 = Blocks 0) /\
  (sq_from_relative_blocks 4194304 = Ok 4194304 /\ bip68 4194304 = Seconds 0) /\
  (sq_from_relative_blocks 2147483648 = Ok 2147483648 /\ bip68 2147483648 = NoRelativeLock) /\
  (sq_from_relative_time 33554432 = Ok 4259840 /\ bip68 4259840 = Seconds 0).
Proof. exact from_relative_unchecked. Qed.
Print Assumptions C07_from_relative_unchecked_refuted.

(* ================================================================== (9) small-number helpers and their use

   Model/OpNum.v mirrors number_to_op_code_byte / number_to_op_code / op_code_to_number / encode_minimal_num. *)

Theorem C07_number_codes : forall n,
  (-1 <= n <= 16 ->
     let o := if n =? 0 then 0 else n + 80 in
     number_to_op_code n = Ok o /\ number_to_op_code_byte n = Ok [o] /\ op_code_to_number o = Ok n) /\
  (~ -1 <= n <= 16 -> number_to_op_code n = Err /\ number_to_op_code_byte n = Err).
Proof. exact number_codes. Qed.
Print Assumptions C07_number_codes.

Theorem C07_op_code_to_number_inv : forall o n,
  op_code_to_number o = Ok n -> o <> 80 -> number_to_op_code n = Ok o.
Proof. exact op_code_to_number_inv. Qed.
Print Assumptions C07_op_code_to_number_inv.

(* ... but op_code_to_number(80) = 0 although 80 (OP_RESERVED) pushes nothing and is not in the table *)
Theorem C07_op_code_to_number_80_refuted : forall r1 r2 r3 : bytes -> bytes,
  op_code_to_number 80 = Ok 0 /\ number_to_op_code 0 = Ok 0 /\ lib_table r1 r2 r3 80 = None.
Proof. exact op_code_to_number_80. Qed.
Print Assumptions C07_op_code_to_number_80_refuted.

(* composition: the command encode_minimal_num(n) (an op code for -1..16, a data push otherwise) leaves exactly
   the serialisation of n on the stack, in Script.evaluate and in consensus *)
Theorem C07_minimal_push_step :
  forall (ripemd160 sha1 sha256 : bytes -> bytes) c n, zlen (encode_num n) <= 520 ->
  exists cm, encode_minimal_num n = Ok cm /\
  (forall f rest s a,
     m_eval_loop (m_lib_table ripemd160 sha1 sha256) c false false (S f) (cm :: rest) s a =
     m_eval_loop (m_lib_table ripemd160 sha1 sha256) c false false f rest (encode_num n :: s) a) /\
  (forall rest s a, Consensus.run ripemd160 sha1 sha256 (to_ctx c) false (cm :: rest) [] (s, a) =
                    Consensus.run ripemd160 sha1 sha256 (to_ctx c) false rest [] (encode_num n :: s, a)).
Proof. exact minimal_push_step. Qed.
Print Assumptions C07_minimal_push_step.

(* composition codec -> interpreter -> BIP65 / BIP112, for every 32-bit n and every context: the script
   [encode_minimal_num(n), OP_CHECKLOCKTIMEVERIFY, OP_DROP, OP_1] (the prefix buidl/taproot.py builds) is accepted
   exactly when CheckLockTime(n) holds and otherwise rejected by returning False; likewise CSV *)
Theorem C07_cltv_commands :
  forall (ripemd160 sha1 sha256 : bytes -> bytes) c n, 0 <= n <= 4294967295 ->
  exists cm, encode_minimal_num n = Ok cm /\
  m_evaluate (m_lib_table ripemd160 sha1 sha256) c false false [cm; Op 177; Op 117; Op 81] =
    (if check_locktime (to_ctx c) n then XTrue else XFalse) /\
  eval_script ripemd160 sha1 sha256 (to_ctx c) false [cm; Op 177; Op 117; Op 81] =
    (if check_locktime (to_ctx c) n then Accept else Reject).
Proof. exact cltv_commands. Qed.
Print Assumptions C07_cltv_commands.

Theorem C07_csv_commands :
  forall (ripemd160 sha1 sha256 : bytes -> bytes) c n, 0 <= n <= 4294967295 ->
  let ok := negb (Z.land n SEQUENCE_LOCKTIME_DISABLE_FLAG =? 0) || check_sequence (to_ctx c) n in
  exists cm, encode_minimal_num n = Ok cm /\
  m_evaluate (m_lib_table ripemd160 sha1 sha256) c false false [cm; Op 178; Op 117; Op 81] =
    (if ok then XTrue else XFalse) /\
  eval_script ripemd160 sha1 sha256 (to_ctx c) false [cm; Op 178; Op 117; Op 81] =
    (if ok then Accept else Reject).
Proof. exact csv_commands. Qed.
Print Assumptions C07_csv_commands.

Example C07_cltv_commands_examples :
  let idh := fun x : bytes => x in
  let c := {| t_locktime := 500000005; t_sequence := 0; t_version := 2 |} in
  encode_minimal_num 5 = Ok (Op 85) /\ encode_minimal_num 500000000 = Ok (Push [0; 101; 205; 29]) /\
  m_evaluate (m_lib_table idh idh idh) c false false [Push [0; 101; 205; 29]; Op 177; Op 117; Op 81] = XTrue /\
  m_evaluate (m_lib_table idh idh idh) c false false [Op 85; Op 177; Op 117; Op 81] = XFalse.
Proof. cbv zeta. repeat split; vm_compute; reflexivity. Qed.

(* ---- OP_IF / OP_NOTIF succeed only on a BALANCED continuation (counting form; Model/IfCount.v,
   Proofs/IfScanCountP.v).  The scan of op_if finds its OP_ENDIF only behind a prefix holding exactly as many
   OP_ENDIFs as conditional openers; hence a continuation without OP_ENDIF — or one whose OP_ENDIFs are all used
   up by nested conditionals — makes the op code return False on every stack, for both OP_IF and OP_NOTIF: a
   conditional left open (e.g. at the end of a scriptSig) never swallows the commands that follow it. *)
From V Require Model.IfCount Proofs.IfScanCountP.
Theorem C07_op_if_needs_balanced_endif :
  forall neg s items r, op_if_gen neg s items = Ok r ->
  exists pre rest, items = pre ++ Op 104 :: rest /\ IfCount.n_endif pre = IfCount.n_open pre.
Proof. exact IfScanCountP.op_if_ok_has_endif. Qed.
Print Assumptions C07_op_if_needs_balanced_endif.

Theorem C07_op_if_without_endif_fails :
  forall neg s items, IfCount.n_endif items = 0%nat -> op_if_gen neg s items = Err.
Proof. exact IfScanCountP.op_if_without_endif_fails. Qed.
Print Assumptions C07_op_if_without_endif_fails.

Theorem C07_op_if_unbalanced_fails :
  forall neg s items,
  (forall pre rest, items = pre ++ Op 104 :: rest -> IfCount.n_endif pre <> IfCount.n_open pre) ->
  op_if_gen neg s items = Err.
Proof. exact IfScanCountP.op_if_unbalanced_fails. Qed.
Print Assumptions C07_op_if_unbalanced_fails.

Theorem C07_if_scan_needs_endifs :
  forall items need cur t f r, if_scan items need cur t f = Some r -> (need < IfCount.n_endif items)%nat.
Proof. exact IfScanCountP.if_scan_needs_endifs. Qed.
Print Assumptions C07_if_scan_needs_endifs.

Example C07_unterminated_if_examples :
  let spk := [Op 118; Op 169; Push [1;2;3]; Op 136; Op 172] in
  op_if [[0]; [1]] spk = Err /\ op_notif [[1]; [1]] spk = Err /\ op_if [[]; [1]] (Op 103 :: spk) = Err /\
  op_if [[]; [1]] (Op 99 :: Op 104 :: spk) = Err /\
  (exists r, op_if [[1]; [1]] (Op 104 :: spk) = Ok r).
Proof. exact IfScanCountP.unterminated_if_examples. Qed.
