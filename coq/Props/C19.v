(* Props/C19.v — P2P framing and primitive wire codecs.
   Only statements, each closed by [exact] of a lemma from Proofs/, followed by
   Print Assumptions.  hash256 is universally quantified (any function with
   32-byte output). *)
From V Require Import Base.Prelude Base.Ints Model.Helper Model.Block Model.Gcs Model.Network
  Proofs.HelperP Proofs.NetworkP.

Theorem C19_int_le_roundtrip : forall len n,
  0 <= n < pow256 len ->
  int_to_le n len = Ok (to_le len n) /\ length (to_le len n) = len /\
  bytes_ok (to_le len n) /\ from_le (to_le len n) = n.
Proof.
  intros len n H. repeat split.
  - exact (int_to_le_ok n len H).
  - exact (to_le_length len n).
  - exact (to_le_ok len n).
  - exact (from_le_to_le len n H).
Qed.
Print Assumptions C19_int_le_roundtrip.

Theorem C19_int_le_rejects : forall len n, ~ (0 <= n < pow256 len) -> int_to_le n len = Err.
Proof. exact (fun len n => int_to_le_err n len). Qed.
Print Assumptions C19_int_le_rejects.

Theorem C19_bytes_le_roundtrip : forall l, bytes_ok l -> to_le (length l) (from_le l) = l.
Proof. exact to_le_from_le. Qed.
Print Assumptions C19_bytes_le_roundtrip.

Theorem C19_int_be_roundtrip : forall len n,
  0 <= n < pow256 len -> from_be (to_be len n) = n.
Proof. exact from_be_to_be. Qed.
Print Assumptions C19_int_be_roundtrip.

Theorem C19_bytes_be_roundtrip : forall l, bytes_ok l -> to_be (length l) (from_be l) = l.
Proof. exact to_be_from_be. Qed.
Print Assumptions C19_bytes_be_roundtrip.

Theorem C19_varint_roundtrip : forall i rest,
  0 <= i < 18446744073709551616 ->
  exists b, encode_varint i = Ok b /\ read_varint (b ++ rest) = Ok (i, rest).
Proof. exact varint_roundtrip. Qed.
Print Assumptions C19_varint_roundtrip.

Theorem C19_varint_rejects : forall i,
  i < 0 \/ 18446744073709551616 <= i -> encode_varint i = Err.
Proof. exact varint_rejects. Qed.
Print Assumptions C19_varint_rejects.

Theorem C19_varint_width : forall i b,
  encode_varint i = Ok b ->
  (i < 253 /\ length b = 1%nat) \/ (253 <= i < 65536 /\ length b = 3%nat) \/
  (65536 <= i < 4294967296 /\ length b = 5%nat) \/
  (4294967296 <= i /\ length b = 9%nat).
Proof. exact varint_width. Qed.
Print Assumptions C19_varint_width.

Theorem C19_varint_prefix_free : forall i j bi bj r1 r2,
  0 <= i < 18446744073709551616 -> 0 <= j < 18446744073709551616 ->
  encode_varint i = Ok bi -> encode_varint j = Ok bj ->
  bi ++ r1 = bj ++ r2 -> i = j /\ r1 = r2.
Proof. exact varint_prefix_free. Qed.
Print Assumptions C19_varint_prefix_free.

Theorem C19_varstr_roundtrip : forall b rest,
  zlen b < 9223372036854775808 ->
  exists e, encode_varstr b = Ok e /\ read_varstr (e ++ rest) = Ok (b, rest).
Proof. exact varstr_roundtrip. Qed.
Print Assumptions C19_varstr_roundtrip.

Theorem C19_envelope_roundtrip :
  forall (hash256 : bytes -> bytes), (forall x, length (hash256 x) = 32%nat) ->
  forall net cmd payload rest,
  (length cmd <= 12)%nat -> no_nul_ends cmd -> zlen payload < 4294967296 ->
  exists e, env_serialize hash256 net cmd payload = Ok e /\
            env_parse hash256 net (e ++ rest) = Ok (cmd, payload, rest).
Proof.
  intros H HL net cmd payload rest Hc Hn Hp.
  destruct (env_roundtrip H HL net cmd payload rest Hc Hp) as [e [E1 E2]].
  exists e. split; [exact E1|]. rewrite E2. now rewrite strip0_padded.
Qed.
Print Assumptions C19_envelope_roundtrip.

(* whatever is accepted is a complete frame: right magic, 12 command bytes, a
   length field equal to the number of payload bytes present, matching checksum *)
Theorem C19_envelope_sound :
  forall (hash256 : bytes -> bytes), (forall x, length (hash256 x) = 32%nat) ->
  forall net s cmd p rest,
  bytes_ok s -> env_parse hash256 net s = Ok (cmd, p, rest) ->
  exists c, length c = 12%nat /\ strip0 c = cmd /\
    s = magic_of net ++ c ++ to_le 4 (zlen p) ++ firstn 4 (hash256 p) ++ p ++ rest.
Proof. exact env_parse_sound. Qed.
Print Assumptions C19_envelope_sound.

Theorem C19_envelope_rejects_magic :
  forall (hash256 : bytes -> bytes) net s,
  firstn 4 s <> magic_of net -> env_parse hash256 net s = Err.
Proof. exact env_rejects_magic. Qed.
Print Assumptions C19_envelope_rejects_magic.

Theorem C19_envelope_rejects_checksum :
  forall (hash256 : bytes -> bytes) net c lb ck p rest,
  length c = 12%nat -> length lb = 4%nat -> length ck = 4%nat ->
  ck <> firstn 4 (hash256 (fst (readz (from_le lb) (p ++ rest)))) ->
  env_parse hash256 net (magic_of net ++ c ++ lb ++ ck ++ p ++ rest) = Err.
Proof. exact env_rejects_checksum. Qed.
Print Assumptions C19_envelope_rejects_checksum.

Theorem C19_envelope_rejects_short :
  forall (hash256 : bytes -> bytes) net c lb ck p,
  length c = 12%nat -> length lb = 4%nat -> length ck = 4%nat ->
  zlen p < from_le lb ->
  env_parse hash256 net (magic_of net ++ c ++ lb ++ ck ++ p) = Err.
Proof. exact env_rejects_short. Qed.
Print Assumptions C19_envelope_rejects_short.

Theorem C19_header_roundtrip : forall h rest,
  header_wf h ->
  exists b, serialize_header h = Ok b /\ length b = 80%nat /\
            parse_header (b ++ rest) = (h, rest).
Proof. exact header_roundtrip. Qed.
Print Assumptions C19_header_roundtrip.

Theorem C19_header_bytes_roundtrip : forall s,
  bytes_ok s -> length s = 80%nat ->
  serialize_header (fst (parse_header s)) = Ok s /\ snd (parse_header s) = [].
Proof. exact header_bytes_roundtrip. Qed.
Print Assumptions C19_header_bytes_roundtrip.

Theorem C19_headers_roundtrip : forall hs rest,
  Forall header_wf hs -> zlen hs < 18446744073709551616 ->
  exists b, headers_layout hs = Ok b /\ headers_parse (b ++ rest) = Ok (hs, rest).
Proof. exact headers_roundtrip. Qed.
Print Assumptions C19_headers_roundtrip.

Theorem C19_ping_pong_roundtrip : forall nonce rest,
  length nonce = 8%nat -> ping_parse (ping_serialize nonce ++ rest) = (nonce, rest).
Proof. exact ping_roundtrip. Qed.
Print Assumptions C19_ping_pong_roundtrip.

Theorem C19_cfilter_roundtrip : forall t bh fb items rest,
  length bh = 32%nat -> zlen fb < 9223372036854775808 -> decode_gcs fb = Ok items ->
  exists b, cfilter_layout t bh fb = Ok b /\
            cfilter_parse (b ++ rest) = Ok (t, bh, fb, items, rest).
Proof. exact cfilter_roundtrip. Qed.
Print Assumptions C19_cfilter_roundtrip.

Theorem C19_cfheaders_roundtrip : forall t stop prev hs rest,
  length stop = 32%nat -> length prev = 32%nat ->
  Forall (fun h => length h = 32%nat) hs -> zlen hs < 18446744073709551616 ->
  exists b, cfheaders_layout t stop prev hs = Ok b /\
            cfheaders_parse (b ++ rest) = Ok (t, stop, prev, hs, rest).
Proof. exact cfheaders_roundtrip. Qed.
Print Assumptions C19_cfheaders_roundtrip.

Theorem C19_cfcheckpt_roundtrip : forall t stop hs rest,
  length stop = 32%nat ->
  Forall (fun h => length h = 32%nat) hs -> zlen hs < 18446744073709551616 ->
  exists b, cfcheckpt_layout t stop hs = Ok b /\
            cfcheckpt_parse (b ++ rest) = Ok (t, stop, hs, rest).
Proof. exact cfcheckpt_roundtrip. Qed.
Print Assumptions C19_cfcheckpt_roundtrip.

(* non-vacuity: the hypotheses are met by concrete values *)
Example C19_nonvacuous_cmd : no_nul_ends [118; 101; 114; 97; 99; 107] /\ (6 <= 12)%nat.
Proof. split; [split; reflexivity | lia]. Qed.
Example C19_nonvacuous_header :
  header_wf {| h_version := 1; h_prev := repeatz 0 32; h_root := repeatz 7 32;
               h_time := 1231006505; h_bits := [255; 255; 0; 29]; h_nonce := [1; 2; 3; 4] |}.
Proof.
  unfold header_wf; cbn. repeat split; try lia;
    repeat (constructor; [unfold byte_ok; lia|]); constructor.
Qed.

(* The constants written in the model are the constants of the SOURCE: coq/Generated/SrcConsts.v is regenerated
   from /repo/buidl/*.py by harness/gen_coq_consts.py on every run; the statements are spelled out in
   Proofs/ConstsTie.v (magic_is_source_stmt, golomb_is_source_stmt). *)
From V Require Proofs.ConstsTie.
Theorem C19_constants_match_source : ConstsTie.magic_is_source_stmt /\ ConstsTie.golomb_is_source_stmt.
Proof. exact (conj ConstsTie.magic_is_source ConstsTie.golomb_is_source). Qed.
Print Assumptions C19_constants_match_source.
