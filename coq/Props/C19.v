(* Props/C19.v — P2P framing and primitive wire codecs.
   Only statements, each closed by [exact] of a lemma from Proofs/, followed by
   Print Assumptions.  hash256 is universally quantified (any function with
   32-byte output). *)
From V Require Import Base.Prelude Base.Ints Model.Helper Model.Block Model.Gcs Model.Network
  Proofs.HelperP Proofs.NetworkP.

Theorem C19_int_le_roundtrip : forall len n,
  0 <= n < pow256 len ->
  int_to_le n len = Ok (to_le len n) /\ length (to_le len n) = len /\
  bytes_ok (to_le len n) /\ from_le (to_le len n) = n.
Proof.
  intros len n H. repeat split.
  - exact (int_to_le_ok n len H).
  - exact (to_le_length len n).
  - exact (to_le_ok len n).
  - exact (from_le_to_le len n H).
Qed.
Print Assumptions C19_int_le_roundtrip.

Theorem C19_int_le_rejects : forall len n, ~ (0 <= n < pow256 len) -> int_to_le n len = Err.
Proof. exact (fun len n => int_to_le_err n len). Qed.
Print Assumptions C19_int_le_rejects.

Theorem C19_bytes_le_roundtrip : forall l, bytes_ok l -> to_le (length l) (from_le l) = l.
Proof. exact to_le_from_le. Qed.
Print Assumptions C19_bytes_le_roundtrip.

Theorem C19_int_be_roundtrip : forall len n,
  0 <= n < pow256 len -> from_be (to_be len n) = n.
Proof. exact from_be_to_be. Qed.
Print Assumptions C19_int_be_roundtrip.

Theorem C19_bytes_be_roundtrip : forall l, bytes_ok l -> to_be (length l) (from_be l) = l.
Proof. exact to_be_from_be. Qed.
Print Assumptions C19_bytes_be_roundtrip.

Theorem C19_varint_roundtrip : forall i rest,
  0 <= i < 18446744073709551616 ->
  exists b, encode_varint i = Ok b /\ read_varint (b ++ rest) = Ok (i, rest).
Proof. exact varint_roundtrip. Qed.
Print Assumptions C19_varint_roundtrip.

Theorem C19_varint_rejects : forall i,
  i < 0 \/ 18446744073709551616 <= i -> encode_varint i = Err.
Proof. exact varint_rejects. Qed.
Print Assumptions C19_varint_rejects.

Theorem C19_varint_width : forall i b,
  encode_varint i = Ok b ->
  (i < 253 /\ length b = 1%nat) \/ (253 <= i < 65536 /\ length b = 3%nat) \/
  (65536 <= i < 4294967296 /\ length b = 5%nat) \/
  (4294967296 <= i /\ length b = 9%nat).
Proof. exact varint_width. Qed.
Print Assumptions C19_varint_width.

Theorem C19_varint_prefix_free : forall i j bi bj r1 r2,
  0 <= i < 18446744073709551616 -> 0 <= j < 18446744073709551616 ->
  encode_varint i = Ok bi -> encode_varint j = Ok bj ->
  bi ++ r1 = bj ++ r2 -> i = j /\ r1 = r2.
Proof. exact varint_prefix_free. Qed.
Print Assumptions C19_varint_prefix_free.

Theorem C19_varstr_roundtrip : forall b rest,
  zlen b < 9223372036854775808 ->
  exists e, encode_varstr b = Ok e /\ read_varstr (e ++ rest) = Ok (b, rest).
Proof. exact varstr_roundtrip. Qed.
Print Assumptions C19_varstr_roundtrip.

Theorem C19_envelope_roundtrip :
  forall (hash256 : bytes -> bytes), (forall x, length (hash256 x) = 32%nat) ->
  forall net cmd payload rest,
  (length cmd <= 12)%nat -> no_nul_ends cmd -> zlen payload < 4294967296 ->
  exists e, env_serialize hash256 net cmd payload = Ok e /\
            env_parse hash256 net (e ++ rest) = Ok (cmd, payload, rest).
Proof.
  intros H HL net cmd payload rest Hc Hn Hp.
  destruct (env_roundtrip H HL net cmd payload rest Hc Hp) as [e [E1 E2]].
  exists e. split; [exact E1|]. rewrite E2. now rewrite strip0_padded.
Qed.
Print Assumptions C19_envelope_roundtrip.

(* whatever is accepted is a complete frame: right magic, 12 command bytes, a
   length field equal to the number of payload bytes present, matching checksum *)
Theorem C19_envelope_sound :
  forall (hash256 : bytes -> bytes), (forall x, length (hash256 x) = 32%nat) ->
  forall net s cmd p rest,
  bytes_ok s -> env_parse hash256 net s = Ok (cmd, p, rest) ->
  exists c, length c = 12%nat /\ strip0 c = cmd /\
    s = magic_of net ++ c ++ to_le 4 (zlen p) ++ firstn 4 (hash256 p) ++ p ++ rest.
Proof. exact env_parse_sound. Qed.
Print Assumptions C19_envelope_sound.

Theorem C19_envelope_rejects_magic :
  forall (hash256 : bytes -> bytes) net s,
  firstn 4 s <> magic_of net -> env_parse hash256 net s = Err.
Proof. exact env_rejects_magic. Qed.
Print Assumptions C19_envelope_rejects_magic.

Theorem C19_envelope_rejects_checksum :
  forall (hash256 : bytes -> bytes) net c lb ck p rest,
  length c = 12%nat -> length lb = 4%nat -> length ck = 4%nat ->
  ck <> firstn 4 (hash256 (fst (readz (from_le lb) (p ++ rest)))) ->
  env_parse hash256 net (magic_of net ++ c ++ lb ++ ck ++ p ++ rest) = Err.
Proof. exact env_rejects_checksum. Qed.
Print Assumptions C19_envelope_rejects_checksum.

Theorem C19_envelope_rejects_short :
  forall (hash256 : bytes -> bytes) net c lb ck p,
  length c = 12%nat -> length lb = 4%nat -> length ck = 4%nat ->
  zlen p < from_le lb ->
  env_parse hash256 net (magic_of net ++ c ++ lb ++ ck ++ p) = Err.
Proof. exact env_rejects_short. Qed.
Print Assumptions C19_envelope_rejects_short.

Theorem C19_header_roundtrip : forall h rest,
  header_wf h ->
  exists b, serialize_header h = Ok b /\ length b = 80%nat /\
            parse_header (b ++ rest) = (h, rest).
Proof. exact header_roundtrip. Qed.
Print Assumptions C19_header_roundtrip.

Theorem C19_header_bytes_roundtrip : forall s,
  bytes_ok s -> length s = 80%nat ->
  serialize_header (fst (parse_header s)) = Ok s /\ snd (parse_header s) = [].
Proof. exact header_bytes_roundtrip. Qed.
Print Assumptions C19_header_bytes_roundtrip.

Theorem C19_headers_roundtrip : forall hs rest,
  Forall header_wf hs -> zlen hs < 18446744073709551616 ->
  exists b, headers_layout hs = Ok b /\ headers_parse (b ++ rest) = Ok (hs, rest).
Proof. exact headers_roundtrip. Qed.
Print Assumptions C19_headers_roundtrip.

Theorem C19_ping_pong_roundtrip : forall nonce rest,
  length nonce = 8%nat -> ping_parse (ping_serialize nonce ++ rest) = (nonce, rest).
Proof. exact ping_roundtrip. Qed.
Print Assumptions C19_ping_pong_roundtrip.

Theorem C19_cfilter_roundtrip : forall t bh fb items rest,
  length bh = 32%nat -> zlen fb < 9223372036854775808 -> decode_gcs fb = Ok items ->
  exists b, cfilter_layout t bh fb = Ok b /\
            cfilter_parse (b ++ rest) = Ok (t, bh, fb, items, rest).
Proof. exact cfilter_roundtrip. Qed.
Print Assumptions C19_cfilter_roundtrip.

Theorem C19_cfheaders_roundtrip : forall t stop prev hs rest,
  length stop = 32%nat -> length prev = 32%nat ->
  Forall (fun h => length h = 32%nat) hs -> zlen hs < 18446744073709551616 ->
  exists b, cfheaders_layout t stop prev hs = Ok b /\
            cfheaders_parse (b ++ rest) = Ok (t, stop, prev, hs, rest).
Proof. exact cfheaders_roundtrip. Qed.
Print Assumptions C19_cfheaders_roundtrip.

Theorem C19_cfcheckpt_roundtrip : forall t stop hs rest,
  length stop = 32%nat ->
  Forall (fun h => length h = 32%nat) hs -> zlen hs < 18446744073709551616 ->
  exists b, cfcheckpt_layout t stop hs = Ok b /\
            cfcheckpt_parse (b ++ rest) = Ok (t, stop, hs, rest).
Proof. exact cfcheckpt_roundtrip. Qed.
Print Assumptions C19_cfcheckpt_roundtrip.

(* non-vacuity: the hypotheses are met by concrete values *)
Example C19_nonvacuous_cmd : no_nul_ends [118; 101; 114; 97; 99; 107] /\ (6 <= 12)%nat.
Proof. split; [split; reflexivity | lia]. Qed.
Example C19_nonvacuous_header :
  header_wf {| h_version := 1; h_prev := repeatz 0 32; h_root := repeatz 7 32;
               h_time := 1231006505; h_bits := [255; 255; 0; 29]; h_nonce := [1; 2; 3; 4] |}.
Proof.
  unfold header_wf; cbn. repeat split; try lia;
    repeat (constructor; [unfold byte_ok; lia|]); constructor.
Qed.

(* The constants written in the model are the constants of the SOURCE: coq/Generated/SrcConsts.v is regenerated
   from /repo/buidl/*.py by harness/gen_coq_consts.py on every run; the statements are spelled out in
   Proofs/ConstsTie.v (magic_is_source_stmt, golomb_is_source_stmt). *)
From V Require Proofs.ConstsTie.
Theorem C19_constants_match_source : ConstsTie.magic_is_source_stmt /\ ConstsTie.golomb_is_source_stmt.
Proof. exact (conj ConstsTie.magic_is_source ConstsTie.golomb_is_source). Qed.
Print Assumptions C19_constants_match_source.

(* ====================================================================================== *)
(* Deepening: exact domains and protocol layouts, envelope acceptance set / truncation /  *)
(* corruption, the serialize-only messages against strict protocol decoders (Spec/P2P.v), *)
(* SimpleNode.send / wait_for / handshake on an in-memory stream.                         *)
(* ====================================================================================== *)
From V Require Import Model.Wire Spec.P2P Proofs.GcsP Proofs.EnvelopeP Proofs.P2PSpecP
  Proofs.WireP Proofs.CodecExtraP.

(* ---------------- fixed-width integers ---------------- *)

Theorem C19_int_be_exact : forall len n,
  (0 <= n < pow256 len ->
     int_to_be n len = Ok (to_be len n) /\ length (to_be len n) = len /\
     bytes_ok (to_be len n) /\ from_be (to_be len n) = n /\ to_be len n = rev (to_le len n)) /\
  (~ (0 <= n < pow256 len) -> int_to_be n len = Err).
Proof.
  intros len n. split.
  - intros H. repeat split.
    + exact (int_to_be_ok n len H).
    + exact (to_be_length len n).
    + exact (to_be_ok len n).
    + exact (from_be_to_be len n H).
  - exact (int_to_be_err n len).
Qed.
Print Assumptions C19_int_be_exact.

(* helper.int_to_byte / byte_to_int: one byte, the same in both byte orders *)
Theorem C19_int_to_byte_exact : forall n,
  (forall b, int_to_byte n = Ok b <-> (0 <= n < 256 /\ b = [n])) /\
  (0 <= n < 256 -> exists b, int_to_byte n = Ok b /\ byte_to_int b = Ok n /\
                             b = to_le 1 n /\ b = to_be 1 n).
Proof. exact (fun n => conj (int_to_byte_iff n) (int_to_byte_roundtrip n)). Qed.
Print Assumptions C19_int_to_byte_exact.

(* ---------------- compact size against the protocol ---------------- *)

(* encode_varint is WriteCompactSize on its whole domain, and its domain is [0, 2^64) *)
Theorem C19_varint_eq_protocol : forall i,
  (0 <= i < 18446744073709551616 -> encode_varint i = Ok (cs_bytes i)) /\
  (forall b, encode_varint i = Ok b -> 0 <= i < 18446744073709551616 /\ b = cs_bytes i).
Proof. exact (fun i => conj (encode_varint_eq_spec i) (encode_varint_inv i)). Qed.
Print Assumptions C19_varint_eq_protocol.

(* read_varint accepts everything the strict ReadCompactSize accepts, with the same result;
   what the strict reader accepts is exactly the canonical encoding *)
Theorem C19_varint_decode_extends_protocol : forall s n r,
  read_cs s = Ok (n, r) ->
  read_varint s = Ok (n, r) /\
  (bytes_ok s -> 0 <= n < 18446744073709551616 /\ s = cs_bytes n ++ r).
Proof.
  exact (fun s n r H => conj (read_cs_implies_read_varint s n r H)
                             (fun B => read_cs_canonical s n r B H)).
Qed.
Print Assumptions C19_varint_decode_extends_protocol.

Theorem C19_read_cs_roundtrip : forall i rest,
  0 <= i < 18446744073709551616 -> read_cs (cs_bytes i ++ rest) = Ok (i, rest).
Proof. exact read_cs_roundtrip. Qed.
Print Assumptions C19_read_cs_roundtrip.

(* every value read from a byte stream is in the encodable range *)
Theorem C19_varint_decoded_value_in_range : forall s n r,
  bytes_ok s -> read_varint s = Ok (n, r) -> 0 <= n < 18446744073709551616.
Proof. exact read_varint_range. Qed.
Print Assumptions C19_varint_decoded_value_in_range.

(* NOT an exact inverse in the decode-then-encode direction: non-canonical and truncated
   encodings are read without an error (Bitcoin Core refuses both) *)
Theorem C19_varint_noncanonical_accepted_refuted :
  read_varint [253; 1; 0] = Ok (1, []) /\ encode_varint 1 = Ok [1] /\ read_cs [253; 1; 0] = Err.
Proof. exact varint_noncanonical_accepted. Qed.
Print Assumptions C19_varint_noncanonical_accepted_refuted.

Theorem C19_varint_truncated_accepted_refuted :
  encode_varint 253 = Ok [253; 253; 0] /\
  read_varint [253] = Ok (0, []) /\ read_varint [253; 253] = Ok (253, []) /\
  read_varint [255; 1] = Ok (1, []) /\
  read_cs [253] = Err /\ read_cs [253; 253] = Err /\ read_cs [255; 1] = Err.
Proof. exact varint_truncated_accepted. Qed.
Print Assumptions C19_varint_truncated_accepted_refuted.

Theorem C19_varstr_truncated_accepted_refuted :
  encode_varstr [1; 2; 3; 4; 5] = Ok [5; 1; 2; 3; 4; 5] /\
  read_varstr [5; 1; 2] = Ok ([1; 2], []).
Proof. exact varstr_truncated_accepted. Qed.
Print Assumptions C19_varstr_truncated_accepted_refuted.

Theorem C19_varstr_exact : forall b,
  ((exists e, encode_varstr b = Ok e) <-> zlen b < 18446744073709551616) /\
  (forall e, encode_varstr b = Ok e -> e = cs_bytes (zlen b) ++ b).
Proof. exact (fun b => conj (encode_varstr_ok_iff b) (encode_varstr_layout b)). Qed.
Print Assumptions C19_varstr_exact.

Theorem C19_varstr_prefix_free : forall b1 b2 e1 e2 r1 r2,
  zlen b1 < 9223372036854775808 -> zlen b2 < 9223372036854775808 ->
  encode_varstr b1 = Ok e1 -> encode_varstr b2 = Ok e2 ->
  e1 ++ r1 = e2 ++ r2 -> b1 = b2 /\ r1 = r2.
Proof. exact varstr_prefix_free. Qed.
Print Assumptions C19_varstr_prefix_free.

(* ---------------- envelope ---------------- *)

(* magic, zero-padded command, length, checksum, payload — and nothing else; serialize
   raises exactly for payloads of 2^32 bytes or more *)
Theorem C19_envelope_layout :
  forall (hash256 : bytes -> bytes), (forall x, length (hash256 x) = 32%nat) ->
  forall net cmd payload,
  ((exists e, env_serialize hash256 net cmd payload = Ok e) <-> zlen payload < 4294967296) /\
  (zlen payload < 4294967296 ->
     env_serialize hash256 net cmd payload =
       Ok (magic_of net ++ (cmd ++ repeatz 0 (12 - length cmd)) ++ to_le 4 (zlen payload)
           ++ firstn 4 (hash256 payload) ++ payload)) /\
  (forall e, (length cmd <= 12)%nat -> env_serialize hash256 net cmd payload = Ok e ->
     length e = (24 + length payload)%nat).
Proof.
  intros H HL net cmd payload. split; [exact (env_serialize_ok_iff H net cmd payload)|].
  split; [exact (env_serialize_layout H net cmd payload)|].
  exact (env_serialize_length H HL net cmd payload).
Qed.
Print Assumptions C19_envelope_layout.

(* NetworkEnvelope.parse accepts EXACTLY the complete frames *)
Theorem C19_envelope_accepts_exactly_frames :
  forall (hash256 : bytes -> bytes), (forall x, length (hash256 x) = 32%nat) ->
  forall net s cmd p rest, bytes_ok s ->
  (env_parse hash256 net s = Ok (cmd, p, rest) <->
   exists c, length c = 12%nat /\ strip0 c = cmd /\ zlen p < 4294967296 /\
     s = magic_of net ++ c ++ to_le 4 (zlen p) ++ firstn 4 (hash256 p) ++ p ++ rest).
Proof. exact env_parse_accepts_iff. Qed.
Print Assumptions C19_envelope_accepts_exactly_frames.

(* the round trip returns strip(command); that is the command itself exactly under the guard *)
Theorem C19_envelope_roundtrip_guard_exact :
  forall (hash256 : bytes -> bytes), (forall x, length (hash256 x) = 32%nat) ->
  forall net cmd payload rest,
  (length cmd <= 12)%nat -> zlen payload < 4294967296 ->
  exists e, env_serialize hash256 net cmd payload = Ok e /\
    env_parse hash256 net (e ++ rest) = Ok (strip0 cmd, payload, rest) /\
    (strip0 cmd = cmd <-> no_nul_ends cmd).
Proof. exact env_roundtrip_guard_exact. Qed.
Print Assumptions C19_envelope_roundtrip_guard_exact.

Theorem C19_envelope_rejects_other_network :
  forall (hash256 : bytes -> bytes) net net' cmd payload e rest,
  0 <= net <= 3 -> 0 <= net' <= 3 -> net <> net' ->
  env_serialize hash256 net cmd payload = Ok e ->
  env_parse hash256 net' (e ++ rest) = Err.
Proof. exact env_rejects_other_network. Qed.
Print Assumptions C19_envelope_rejects_other_network.

(* every proper prefix of an envelope is rejected (truncation at every offset) *)
Theorem C19_envelope_rejects_truncation :
  forall (hash256 : bytes -> bytes), (forall x, length (hash256 x) = 32%nat) ->
  forall net cmd payload e k,
  (length cmd <= 12)%nat -> env_serialize hash256 net cmd payload = Ok e ->
  (k < length e)%nat -> env_parse hash256 net (firstn k e) = Err.
Proof. exact env_rejects_truncation. Qed.
Print Assumptions C19_envelope_rejects_truncation.

(* every single-byte corruption outside the command field — magic, length, checksum or
   payload; whatever follows on the stream — is rejected, or two different payloads with the
   same 4-byte checksum are exhibited *)
Theorem C19_envelope_single_byte_corruption :
  forall (hash256 : bytes -> bytes), (forall x, length (hash256 x) = 32%nat) ->
  forall net cmd payload e rest a x x' b,
  (length cmd <= 12)%nat -> env_serialize hash256 net cmd payload = Ok e ->
  e ++ rest = a ++ x :: b -> x <> x' ->
  (length a < length e)%nat -> (length a < 4 \/ 16 <= length a)%nat ->
  env_parse hash256 net (a ++ x' :: b) = Err \/
  exists u v : bytes, u <> v /\ firstn 4 (hash256 u) = firstn 4 (hash256 v).
Proof. exact env_single_byte_corruption. Qed.
Print Assumptions C19_envelope_single_byte_corruption.

(* the command field is not covered by the checksum: ANY 12 bytes in its place are accepted,
   payload intact (this is the protocol's design, stated so that the exclusion above is exact) *)
Theorem C19_envelope_command_field_unprotected :
  forall (hash256 : bytes -> bytes), (forall x, length (hash256 x) = 32%nat) ->
  forall net cmd payload e c' rest,
  (length cmd <= 12)%nat -> length c' = 12%nat ->
  env_serialize hash256 net cmd payload = Ok e ->
  env_parse hash256 net (firstn 4 e ++ c' ++ skipn 16 e ++ rest) = Ok (strip0 c', payload, rest).
Proof. exact env_command_corruption_accepted. Qed.
Print Assumptions C19_envelope_command_field_unprotected.

(* ---------------- block header, headers message ---------------- *)

Theorem C19_header_exact : forall h,
  ((exists b, serialize_header h = Ok b) <->
   (0 <= h_version h < 4294967296 /\ 0 <= h_time h < 4294967296)) /\
  (forall b, serialize_header h = Ok b ->
     b = to_le 4 (h_version h) ++ rev (h_prev h) ++ rev (h_root h) ++ to_le 4 (h_time h)
         ++ h_bits h ++ h_nonce h).
Proof. exact (fun h => conj (serialize_header_ok_iff h) (serialize_header_layout h)). Qed.
Print Assumptions C19_header_exact.

(* HeadersMessage.parse never returns a header assembled from a short read: every returned
   header is well-formed and serialises to 80 bytes that parse back to it *)
Theorem C19_headers_parse_only_complete_headers : forall s hs rest,
  bytes_ok s -> headers_parse s = Ok (hs, rest) ->
  Forall header_wf hs /\
  Forall (fun h => exists b, serialize_header h = Ok b /\ length b = 80%nat /\
                             parse_header b = (h, [])) hs.
Proof.
  exact (fun s hs rest B H => conj (proj1 (headers_parse_wf s hs rest B H))
                                   (headers_parse_reserialize s hs rest B H)).
Qed.
Print Assumptions C19_headers_parse_only_complete_headers.

Theorem C19_headers_rejects_txcount : forall hs1 h hs2 b1 hb k tail,
  Forall header_wf hs1 -> header_wf h -> headers_body hs1 = Ok b1 -> serialize_header h = Ok hb ->
  zlen (hs1 ++ h :: hs2) < 18446744073709551616 -> 0 < k < 253 ->
  exists nb, encode_varint (zlen (hs1 ++ h :: hs2)) = Ok nb /\
    headers_parse (nb ++ b1 ++ hb ++ [k] ++ tail) = Err.
Proof. exact headers_rejects_txcount. Qed.
Print Assumptions C19_headers_rejects_txcount.

(* cfilter message composed with the Golomb-coded set codec of C18 *)
Theorem C19_cfilter_message_roundtrip_gcs : forall t bh items fb rest,
  length bh = 32%nat -> ascending 0 items -> zlen items < 18446744073709551616 ->
  serialize_gcs items = Ok fb -> zlen fb < 9223372036854775808 ->
  exists b, cfilter_layout t bh fb = Ok b /\
            cfilter_parse (b ++ rest) = Ok (t, bh, fb, items, rest).
Proof. exact cfilter_message_roundtrip. Qed.
Print Assumptions C19_cfilter_message_roundtrip_gcs.

(* ---------------- version ---------------- *)

Theorem C19_version_exact_domain : forall m,
  (exists b, version_serialize m = Ok b) <-> version_fields_ok m.
Proof. exact version_serialize_ok_iff. Qed.
Print Assumptions C19_version_exact_domain.

(* the bytes are the protocol's version message of the same field values — with the two bytes
   of each port exchanged *)
Theorem C19_version_layout_ports_swapped : forall m b,
  version_serialize m = Ok b ->
  version_fields_ok m /\ b = p2p_version_bytes (version_to_spec swap16 m).
Proof. exact version_serialize_inv. Qed.
Print Assumptions C19_version_layout_ports_swapped.

Theorem C19_version_decoded_by_protocol_peer : forall m rest,
  version_wf m ->
  exists b, version_serialize m = Ok b /\
    p2p_version_decode (b ++ rest) = Ok (version_to_spec swap16 m, rest).
Proof. exact version_decoded_by_protocol. Qed.
Print Assumptions C19_version_decoded_by_protocol_peer.

Theorem C19_version_injective : forall m1 m2 b,
  version_wf m1 -> version_wf m2 ->
  version_serialize m1 = Ok b -> version_serialize m2 = Ok b -> m1 = m2.
Proof. exact version_serialize_inj. Qed.
Print Assumptions C19_version_injective.

Theorem C19_version_layout_eq_protocol_iff : forall m b,
  version_wf m -> version_serialize m = Ok b ->
  (b = p2p_version_bytes (version_to_spec (fun p => p) m) <->
   (vm_recv_port m / 256 = vm_recv_port m mod 256 /\
    vm_send_port m / 256 = vm_send_port m mod 256)).
Proof. exact version_layout_eq_protocol_iff. Qed.
Print Assumptions C19_version_layout_eq_protocol_iff.

(* FINDING: "version encodes to exactly the protocol's byte layout" fails for the ports *)
Theorem C19_version_port_byte_order_refuted :
  exists m b v, version_wf m /\ version_serialize m = Ok b /\
    b <> p2p_version_bytes (version_to_spec (fun p => p) m) /\
    p2p_version_decode b = Ok (v, []) /\
    vm_recv_port m = 8333 /\ na_port (pv_addr_recv v) = 36128 /\
    vm_send_port m = 8333 /\ na_port (pv_addr_from v) = 36128.
Proof. exact version_port_byte_order_refuted. Qed.
Print Assumptions C19_version_port_byte_order_refuted.

(* VersionMessage() (after the fix 7914d9d: nonce = randint(0, 2**64 - 1)): for every clock
   value and every value randint can return the message is built with an 8-byte nonce, and it
   serialises whenever the clock value fits the 8-byte timestamp field *)
Theorem C19_version_default_total : forall now r,
  randint_lo <= r <= randint_hi ->
  (exists m, version_default now r = Ok m /\ length (vm_nonce m) = 8%nat /\ vm_timestamp m = now) /\
  (0 <= now < 18446744073709551616 ->
     exists m b, version_default now r = Ok m /\ version_wf m /\ version_serialize m = Ok b).
Proof.
  exact (fun now r H => conj (version_default_total now r H) (version_default_serializes now r H)).
Qed.
Print Assumptions C19_version_default_total.

(* remark: the bounds are randint's own, and 2**64 — the inclusive upper bound of the call
   before the fix — does not fit 8 bytes *)
Example C19_version_default_bounds_remark :
  randint_lo = 0 /\ randint_hi = 2 ^ 64 - 1 /\ int_to_le (2 ^ 64) 8 = Err /\
  forall now, version_default now (2 ^ 64) = Err.
Proof. repeat split. Qed.

(* ---------------- getheaders, getdata, BIP157 requests ---------------- *)

Theorem C19_getheaders_exact : forall v n s e,
  ((exists b, getheaders_serialize v n s e = Ok b) <->
   (0 <= v < 4294967296 /\ 0 <= n < 18446744073709551616)) /\
  (forall b, getheaders_serialize v n s e = Ok b ->
     b = to_le 4 v ++ cs_bytes n ++ rev s ++ rev e) /\
  (forall b, getheaders_serialize v 1 s e = Ok b -> b = p2p_getheaders_bytes v [s] e).
Proof.
  intros v n s e. split; [exact (getheaders_serialize_ok_iff v n s e)|]. split.
  - exact (fun b H => proj2 (proj2 (getheaders_serialize_inv v n s e b H))).
  - exact (getheaders_eq_protocol v s e).
Qed.
Print Assumptions C19_getheaders_exact.

Theorem C19_getheaders_decoded_by_protocol_peer : forall v s e rest,
  0 <= v < 4294967296 -> length s = 32%nat -> length e = 32%nat ->
  exists b, getheaders_serialize v 1 s e = Ok b /\
    p2p_getheaders_decode (b ++ rest) = Ok (v, [s], e, rest).
Proof. exact getheaders_decoded_by_protocol. Qed.
Print Assumptions C19_getheaders_decoded_by_protocol_peer.

Theorem C19_getdata_exact : forall items b,
  getdata_serialize items = Ok b <->
  (zlen items < 18446744073709551616 /\ Forall (fun it => 0 <= fst it < 4294967296) items /\
   b = p2p_getdata_bytes items).
Proof. exact getdata_serialize_iff. Qed.
Print Assumptions C19_getdata_exact.

Theorem C19_getdata_decoded_by_protocol_peer : forall items rest,
  zlen items < 18446744073709551616 ->
  Forall (fun it => 0 <= fst it < 4294967296 /\ length (snd it) = 32%nat) items ->
  exists b, getdata_serialize items = Ok b /\ p2p_getdata_decode (b ++ rest) = Ok (items, rest).
Proof. exact getdata_decoded_by_protocol. Qed.
Print Assumptions C19_getdata_decoded_by_protocol_peer.

Theorem C19_getdata_injective : forall i1 i2 b,
  Forall (fun it => length (snd it) = 32%nat) i1 -> Forall (fun it => length (snd it) = 32%nat) i2 ->
  getdata_serialize i1 = Ok b -> getdata_serialize i2 = Ok b -> i1 = i2.
Proof. exact getdata_serialize_inj. Qed.
Print Assumptions C19_getdata_injective.

(* getcfilters and getcfheaders share this serialiser *)
Theorem C19_getcfilters_exact : forall t h stop,
  (forall b, getcfilters_serialize t h stop = Ok b <->
     (0 <= t < 256 /\ 0 <= h < 4294967296 /\ b = p2p_getcfilters_bytes t h stop)) /\
  (forall rest, 0 <= t < 256 -> 0 <= h < 4294967296 -> length stop = 32%nat ->
     p2p_getcfilters_decode (p2p_getcfilters_bytes t h stop ++ rest) = Ok (t, h, stop, rest)).
Proof.
  exact (fun t h stop => conj (getcfilters_serialize_iff t h stop)
                              (p2p_getcfilters_decode_bytes t h stop)).
Qed.
Print Assumptions C19_getcfilters_exact.

Theorem C19_getcfcheckpt_exact : forall t stop,
  (forall b, getcfcheckpt_serialize t stop = Ok b <->
     (0 <= t < 256 /\ b = p2p_getcfcheckpt_bytes t stop)) /\
  (forall rest, 0 <= t < 256 -> length stop = 32%nat ->
     p2p_getcfcheckpt_decode (p2p_getcfcheckpt_bytes t stop ++ rest) = Ok (t, stop, rest)).
Proof.
  exact (fun t stop => conj (getcfcheckpt_serialize_iff t stop)
                            (p2p_getcfcheckpt_decode_bytes t stop)).
Qed.
Print Assumptions C19_getcfcheckpt_exact.

(* the protocol transcription is self-consistent: its decoders invert its layouts *)
Theorem C19_p2p_spec_self_consistent :
  (forall v rest, p2p_version_wf v -> p2p_version_decode (p2p_version_bytes v ++ rest) = Ok (v, rest)) /\
  (forall v loc stop rest, 0 <= v < 4294967296 -> zlen loc < 18446744073709551616 ->
     Forall (fun h => length h = 32%nat) loc -> length stop = 32%nat ->
     p2p_getheaders_decode (p2p_getheaders_bytes v loc stop ++ rest) = Ok (v, loc, stop, rest)).
Proof. exact (conj p2p_version_decode_bytes p2p_getheaders_decode_bytes). Qed.
Print Assumptions C19_p2p_spec_self_consistent.

(* ---------------- SimpleNode on an in-memory stream ---------------- *)

(* wait_for over a stream of well-formed envelopes: those before the first wanted command are
   skipped, every version is answered with verack and every ping with pong of the same nonce,
   in order; the wanted payload comes back intact; the stream is left right behind it *)
Theorem C19_node_wait_for_stream :
  forall (hash256 : bytes -> bytes) (HL : forall x, length (hash256 x) = 32%nat),
  forall net wanted pre c p rest,
  Forall frame_ok pre -> Forall (fun cp => existsb (beq (fst cp)) wanted = false) pre ->
  frame_ok (c, p) -> existsb (beq c) wanted = true ->
  node_wait_for hash256 net wanted (frames hash256 net pre ++ envbytes hash256 net c p ++ rest)
  = Ok (c, p, rest, replies hash256 net (pre ++ [(c, p)])).
Proof. exact node_wait_for_stream. Qed.
Print Assumptions C19_node_wait_for_stream.

Theorem C19_node_wait_for_eof :
  forall (hash256 : bytes -> bytes) (HL : forall x, length (hash256 x) = 32%nat),
  forall net wanted pre,
  Forall frame_ok pre -> Forall (fun cp => existsb (beq (fst cp)) wanted = false) pre ->
  node_wait_for hash256 net wanted (frames hash256 net pre) = Err.
Proof. exact node_wait_for_eof. Qed.
Print Assumptions C19_node_wait_for_eof.

(* the loop of the model never stops for lack of fuel *)
Theorem C19_node_wait_for_fuel :
  forall (hash256 : bytes -> bytes) (HL : forall x, length (hash256 x) = 32%nat),
  forall net wanted s f, (length s < f)%nat ->
  wait_loop hash256 f net wanted s [] = node_wait_for hash256 net wanted s.
Proof. exact node_wait_for_fuel. Qed.
Print Assumptions C19_node_wait_for_fuel.

(* message -> payload -> envelope -> stream -> wait_for(Class) -> message, for every message
   class that has a parser *)
Theorem C19_node_message_roundtrip :
  forall (hash256 : bytes -> bytes) (HL : forall x, length (hash256 x) = 32%nat),
  forall net m p rest,
  msg_wf m -> msg_payload m = Ok p -> zlen p < 4294967296 ->
  exists e, node_send hash256 net (msg_command m) (msg_payload m) = Ok e /\
    e = envbytes hash256 net (msg_command m) p /\
    node_wait_for_msg hash256 net [msg_command m] (e ++ rest)
    = Ok (m, rest, reply hash256 net (msg_command m) p).
Proof. exact node_msg_roundtrip. Qed.
Print Assumptions C19_node_message_roundtrip.

Theorem C19_node_ping_pong :
  forall (hash256 : bytes -> bytes) (HL : forall x, length (hash256 x) = 32%nat),
  forall net nonce, length nonce = 8%nat ->
  exists e1 e2,
    node_send hash256 net cmd_ping (Ok (ping_serialize nonce)) = Ok e1 /\
    node_wait_for_msg hash256 net [cmd_ping] e1 = Ok (MPing nonce, [], [e2]) /\
    node_wait_for_msg hash256 net [cmd_pong] e2 = Ok (MPong nonce, [], []).
Proof. exact node_ping_pong. Qed.
Print Assumptions C19_node_ping_pong.

Theorem C19_node_handshake :
  forall (hash256 : bytes -> bytes) (HL : forall x, length (hash256 x) = 32%nat),
  forall net now r peer_version rest,
  0 <= now < 18446744073709551616 -> 0 <= r < 18446744073709551616 ->
  zlen peer_version < 4294967296 ->
  exists m v, version_default now r = Ok m /\ version_serialize m = Ok v /\
    node_handshake hash256 net now r
      (envbytes hash256 net cmd_version peer_version ++ envbytes hash256 net cmd_verack [] ++ rest)
    = Ok (rest, [envbytes hash256 net cmd_version v; envbytes hash256 net cmd_verack []]).
Proof. exact node_handshake_completes. Qed.
Print Assumptions C19_node_handshake.

(* ---------------- non-vacuity of the new hypotheses ---------------- *)

Example C19_nonvacuous_hash : exists H : bytes -> bytes, forall x, length (H x) = 32%nat.
Proof. exists (fun x => repeatz (zlen x mod 256) 32). intros x. apply repeatz_length. Qed.

Example C19_nonvacuous_version : version_wf version_example /\ version_fields_ok version_example.
Proof. exact (conj version_example_wf (proj1 version_example_wf)). Qed.

Example C19_nonvacuous_frames :
  Forall frame_ok [(cmd_version, [1; 2; 3]); (cmd_ping, repeatz 7 8); ([105; 110; 118], [])] /\
  Forall (fun cp => existsb (beq (fst cp)) [cmd_headers] = false)
         [(cmd_version, [1; 2; 3]); (cmd_ping, repeatz 7 8); ([105; 110; 118], [])] /\
  frame_ok (cmd_headers, [0]) /\ existsb (beq cmd_headers) [cmd_headers] = true.
Proof.
  unfold frame_ok, no_nul_ends, zlen. cbn.
  repeat split; repeat constructor; cbn; try lia; try reflexivity.
Qed.

Example C19_nonvacuous_messages :
  msg_wf MVerAck /\ msg_wf (MPing (repeatz 1 8)) /\ msg_wf (MPong (repeatz 2 8)) /\
  msg_wf (MHeaders []) /\ msg_wf (MCFilter 0 (repeatz 3 32) [0] []) /\
  msg_wf (MCFHeaders 0 (repeatz 4 32) (repeatz 5 32) [repeatz 6 32]) /\
  msg_wf (MCFCheckPt 0 (repeatz 4 32) [repeatz 6 32; repeatz 7 32]).
Proof.
  unfold zlen. cbn. repeat split; try lia; repeat constructor.
Qed.

Example C19_nonvacuous_gcs :
  ascending 0 [3; 3; 1000000] /\ exists fb, serialize_gcs [3; 3; 1000000] = Ok fb /\
  zlen fb < 9223372036854775808.
Proof. split; [cbn; lia|]. eexists. split; [vm_compute; reflexivity|]. vm_compute. reflexivity. Qed.

Example C19_nonvacuous_corruption :
  let H := fun x : bytes => repeatz (zlen x mod 256) 32 in
  exists e, env_serialize H 0 cmd_ping [1; 2; 3; 4; 5; 6; 7; 8] = Ok e /\
    e ++ [] = firstn 30 e ++ 7 :: skipn 31 e /\ (30 < length e)%nat.
Proof. eexists. split; [vm_compute; reflexivity|]. split; [reflexivity|cbn; lia]. Qed.

(* ---------------- Block.parse_header(hex=...), CFilterMessage.__eq__, short reads ---------------- *)
From V Require Import Model.Hex Proofs.HexP.

Theorem C19_hex_roundtrip : forall b, bytes_ok b -> hex_decode (hex_encode b) = Ok b.
Proof. exact hex_decode_encode. Qed.
Print Assumptions C19_hex_roundtrip.

(* the hex entry point reads the same header as the stream entry point; with hex="" it raises *)
Theorem C19_parse_header_hex_entry :
  (forall s, bytes_ok s -> s <> [] -> parse_header_hex (hex_encode s) = Ok (parse_header s)) /\
  (forall h, header_wf h ->
     exists b, serialize_header h = Ok b /\ parse_header_hex (hex_encode b) = Ok (h, [])) /\
  parse_header_hex [] = Err.
Proof. exact (conj parse_header_hex_encode (conj header_hex_roundtrip parse_header_hex_empty)). Qed.
Print Assumptions C19_parse_header_hex_entry.

(* CFilterMessage.__eq__ holds exactly when the two messages have the same wire bytes *)
Theorem C19_cfilter_eq_iff_same_bytes : forall t1 bh1 fb1 t2 bh2 fb2 b1 b2,
  length bh1 = 32%nat -> length bh2 = 32%nat ->
  zlen fb1 < 9223372036854775808 -> zlen fb2 < 9223372036854775808 ->
  cfilter_layout t1 bh1 fb1 = Ok b1 -> cfilter_layout t2 bh2 fb2 = Ok b2 ->
  (cfilter_eq (t1, bh1, fb1) (t2, bh2, fb2) = true <-> b1 = b2).
Proof. exact cfilter_eq_iff. Qed.
Print Assumptions C19_cfilter_eq_iff_same_bytes.

(* truncation INSIDE a payload is not an error for ping/pong, cfheaders, cfcheckpt and the
   header reader (silent short reads): only the envelope (length + checksum) protects *)
Theorem C19_message_short_reads_accepted_refuted :
  ping_parse [1; 2; 3] = ([1; 2; 3], []) /\
  cfcheckpt_parse (7 :: repeatz 9 32 ++ [2] ++ repeatz 5 32 ++ [6; 6])
    = Ok (7, repeatz 9 32, [repeatz 5 32; [6; 6]], []) /\
  cfheaders_parse (7 :: repeatz 9 32 ++ repeatz 8 32 ++ [3] ++ repeatz 5 32)
    = Ok (7, repeatz 9 32, repeatz 8 32, [repeatz 5 32; []; []], []) /\
  fst (parse_header [1; 0; 0; 0; 7]) =
    {| h_version := 1; h_prev := [7]; h_root := []; h_time := 0; h_bits := []; h_nonce := [] |}.
Proof. exact message_short_reads_accepted. Qed.
Print Assumptions C19_message_short_reads_accepted_refuted.

(* the command literals of Model/Wire.v spelled as text (kept last: String shadows length) *)
From Coq Require Import String.
From V Require Base.Disp.
Open Scope string_scope.
Example C19_command_literals :
  cmd_version = Disp.s2z "version" /\ cmd_verack = Disp.s2z "verack" /\ cmd_ping = Disp.s2z "ping" /\
  cmd_pong = Disp.s2z "pong" /\ cmd_headers = Disp.s2z "headers" /\ cmd_cfilter = Disp.s2z "cfilter" /\
  cmd_cfheaders = Disp.s2z "cfheaders" /\ cmd_cfcheckpt = Disp.s2z "cfcheckpt" /\
  default_user_agent = Disp.s2z "/programmingblockchain:0.1/".
Proof. repeat split; reflexivity. Qed.
