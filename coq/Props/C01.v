(* Props/C01.v — ECDSA: signing is complete, verification is sound, signatures canonical.

   Model: Model/Pecc.v (ecdsa_verify, deterministic_k, ecdsa_sign_k, ecdsa_sign, der,
   der_parse, pubkey, parse_point) and Model/EcdsaApi.v (the compositions a user calls: sign(z).der(),
   sign_message, verify(z, Signature.parse(b)), verify_message, S256Point.parse(sec).verify(...)),
   validated against buidl/pecc.py by harness/props/c01.py.
   Specs: Spec/Ecdsa.v (textbook validity), Spec/Rfc6979.v (RFC 6979 section 3.2 as a loop),
   Spec/Rfc6979Seq.v (the same as "first acceptable candidate of the DRBG sequence").
   Proofs: Proofs/EcdsaP.v (sections 1-5), Proofs/EcdsaDerP.v (6), Proofs/EcdsaDeepP.v (7-10),
   Proofs/EcdsaJudgeP.v (9c).

   Hypotheses that remain premises (never axioms):
     [scalar_laws C]  group axioms / order of G / primality of n, about the model's
                      curve arithmetic (Proofs/GroupHyp.v); discharged on the toy curve
                      (Proofs/ToyCurve.v) in the Examples at the end;
     side conditions of C01_sign_verifies: r < n, r mod n <> 0, s <> 0 — the three
                      textbook retry cases the code does not implement.
   HMAC is universally quantified. *)
From Coq Require Import Znumtheory.
From V Require Import Base.Prelude Base.Ints Model.Pecc Proofs.GroupHyp Proofs.ToyCurve
  Spec.Ecdsa Spec.Rfc6979 Proofs.EcdsaP.
From V Require Import Model.EcdsaApi Spec.Rfc6979Seq Proofs.EcdsaDerP Proofs.EcdsaDeepP Proofs.EcdsaJudgeP.

(* ---------------------------------------------------------------- (1) DER *)

Theorem C01_der_roundtrip : forall r s,
  1 <= r < 2 ^ 256 -> 1 <= s < 2 ^ 256 ->
  exists b, der r s = Ok b /\ der_parse b = Ok (r, s).
Proof. exact der_roundtrip. Qed.
Print Assumptions C01_der_roundtrip.

(* the emitted string is SEQUENCE { INTEGER r, INTEGER s } with minimal positive integers:
   der_min = non-empty, top bit clear, no superfluous leading zero octet *)
Theorem C01_der_canonical : forall r s,
  1 <= r < 2 ^ 256 -> 1 <= s < 2 ^ 256 ->
  exists rb sb,
    der r s = Ok (48 :: zlen ((2 :: zlen rb :: rb) ++ (2 :: zlen sb :: sb)) ::
                  (2 :: zlen rb :: rb) ++ (2 :: zlen sb :: sb)) /\
    from_be rb = r /\ from_be sb = s /\ der_min rb /\ der_min sb /\
    bytes_ok rb /\ bytes_ok sb /\ (1 <= length rb <= 33)%nat /\ (1 <= length sb <= 33)%nat.
Proof. exact der_canonical. Qed.
Print Assumptions C01_der_canonical.

(* the error branch: 0 (IndexError), negative or >= 2^256 (OverflowError) *)
Theorem C01_der_error : forall r s,
  r <= 0 \/ 2 ^ 256 <= r \/ s <= 0 \/ 2 ^ 256 <= s -> der r s = Err.
Proof. exact der_err. Qed.
Print Assumptions C01_der_error.

(* ---------------------------------------------------------------- (2) RFC 6979 *)

Theorem C01_det_k_eq_rfc6979 : forall C hmac fuel d z,
  0 < cn C <= 2 ^ 256 -> 2 ^ 256 <= 2 * cn C ->
  0 <= d < 2 ^ 256 -> 0 <= z < 2 ^ 256 ->
  deterministic_k C hmac fuel d z = opt_res (rfc6979_k (cn C) hmac fuel d (to_be 32 z)).
Proof. exact det_k_eq_rfc6979. Qed.
Print Assumptions C01_det_k_eq_rfc6979.

(* closed instance: secp256k1, every HMAC function, every fuel, every key and digest *)
Theorem C01_det_k_eq_rfc6979_secp256k1 : forall hmac fuel d z,
  0 <= d < 2 ^ 256 -> 0 <= z < 2 ^ 256 ->
  deterministic_k secp256k1 hmac fuel d z =
  opt_res (rfc6979_k (cn secp256k1) hmac fuel d (to_be 32 z)).
Proof.
  intros. apply det_k_eq_rfc6979; try assumption; cbn [cn secp256k1]; lia.
Qed.
Print Assumptions C01_det_k_eq_rfc6979_secp256k1.

(* integer digests beyond 2^256 (the code accepts z < 2^256 + n): bits2octets is z mod n
   exactly for z < 2n; for 2n <= z < 2^256 + n the code feeds z - n, unreduced *)
Theorem C01_det_k_general : forall C hmac fuel d z,
  0 < cn C <= 2 ^ 256 -> 0 <= d < 2 ^ 256 -> 0 <= z < 2 * cn C ->
  deterministic_k C hmac fuel d z =
  opt_res (generate_from (cn C) hmac fuel (int2octets d) (int2octets (z mod cn C))).
Proof. exact det_k_eq_generate. Qed.
Print Assumptions C01_det_k_general.

Theorem C01_det_k_error : forall C hmac fuel d z,
  0 < cn C -> z < 0 \/ 2 ^ 256 + cn C <= z \/ d < 0 \/ 2 ^ 256 <= d -> cn C <= 2 ^ 256 ->
  deterministic_k C hmac fuel d z = Err.
Proof. exact det_k_err. Qed.
Print Assumptions C01_det_k_error.

Theorem C01_det_k_range : forall C hmac fuel d z k,
  deterministic_k C hmac fuel d z = Ok k -> 1 <= k < cn C.
Proof. exact det_k_range. Qed.
Print Assumptions C01_det_k_range.

(* ---------------------------------------------------------------- (3) low S *)

Theorem C01_sign_low_s : forall C hmac fuel d z r s,
  cn C mod 2 = 1 -> 0 < cn C ->
  ecdsa_sign C hmac fuel d z = Ok (r, s) -> s <> 0 -> 1 <= s <= (cn C - 1) / 2.
Proof. exact sign_low_s. Qed.
Print Assumptions C01_sign_low_s.

Theorem C01_sign_low_s_secp256k1 : forall hmac fuel d z r s,
  ecdsa_sign secp256k1 hmac fuel d z = Ok (r, s) -> s <> 0 ->
  1 <= s <= (cn secp256k1 - 1) / 2.
Proof. intros hmac fuel d z r s. apply sign_low_s; [reflexivity|reflexivity]. Qed.
Print Assumptions C01_sign_low_s_secp256k1.

Theorem C01_sign_k_low_s : forall C d z k r s,
  cn C mod 2 = 1 -> 0 < cn C ->
  ecdsa_sign_k C d z k = Ok (r, s) -> s <> 0 -> 1 <= s <= (cn C - 1) / 2.
Proof. exact sign_k_low_s. Qed.
Print Assumptions C01_sign_k_low_s.

(* ---------------------------------------------------------------- (4) completeness *)

Theorem C01_sign_verifies : forall C, scalar_laws C -> forall hmac fuel d z r s,
  1 <= d < cn C ->
  ecdsa_sign C hmac fuel d z = Ok (r, s) ->
  r mod cn C <> 0 -> r < cn C -> s <> 0 ->
  ecdsa_verify C (mulT C d (G C)) z r s = Ok true.
Proof. exact sign_verifies. Qed.
Print Assumptions C01_sign_verifies.

Theorem C01_sign_k_verifies : forall C, scalar_laws C -> forall d z k r s,
  1 <= d < cn C -> 1 <= k < cn C ->
  ecdsa_sign_k C d z k = Ok (r, s) ->
  r mod cn C <> 0 -> r < cn C -> s <> 0 ->
  ecdsa_verify C (mulT C d (G C)) z r s = Ok true.
Proof. exact sign_k_verifies. Qed.
Print Assumptions C01_sign_k_verifies.

Theorem C01_sign_k_total : forall C, scalar_laws C -> forall d z k,
  1 <= k < cn C -> exists r s, ecdsa_sign_k C d z k = Ok (r, s).
Proof. exact sign_k_total. Qed.
Print Assumptions C01_sign_k_total.

(* the emitted pair is the textbook signature for the nonce: r = x(kG) (not reduced mod n),
   s = k^-1 (z + r d) mod n normalised to the low half; k^-1 given by its defining equation *)
Theorem C01_sign_k_textbook : forall C, scalar_laws C -> forall d z k r s,
  1 <= k < cn C -> ecdsa_sign_k C d z k = Ok (r, s) ->
  exists y w, mulT C k (G C) = Some (r, y) /\ is_inv C k w /\
    s = (let s0 := (w * (z + r * d)) mod cn C in
         if (cn C - 1) / 2 <? s0 then cn C - s0 else s0).
Proof. exact sign_k_textbook. Qed.
Print Assumptions C01_sign_k_textbook.

(* ---------------------------------------------------------------- (5) soundness *)

Theorem C01_verify_iff_ecdsa : forall C, scalar_laws C -> forall P z r s,
  valid C P ->
  (ecdsa_verify C P z r s = Ok true <-> ecdsa_ok C P z r s).
Proof. exact verify_iff_ecdsa. Qed.
Print Assumptions C01_verify_iff_ecdsa.

(* no group hypothesis: never accepted when r or s is outside [1, n-1] *)
Theorem C01_verify_rejects_out_of_range : forall C P z r s,
  r < 1 \/ cn C <= r \/ s < 1 \/ cn C <= s -> ecdsa_verify C P z r s = Ok false.
Proof. exact verify_out_of_range. Qed.
Print Assumptions C01_verify_rejects_out_of_range.

Theorem C01_verify_accepts_only_in_range : forall C P z r s,
  ecdsa_verify C P z r s = Ok true -> 1 <= r < cn C /\ 1 <= s < cn C.
Proof. exact verify_range. Qed.
Print Assumptions C01_verify_accepts_only_in_range.

(* the named tuples of the quantifier, on secp256k1: 0, n, s + n, r + n, 2^256 - 1 *)
Theorem C01_verify_rejects_catalogue : forall P z r s,
  1 <= r < cn secp256k1 -> 1 <= s < cn secp256k1 ->
  ecdsa_verify secp256k1 P z r (s + cn secp256k1) = Ok false /\
  ecdsa_verify secp256k1 P z (r + cn secp256k1) s = Ok false /\
  ecdsa_verify secp256k1 P z r 0 = Ok false /\
  ecdsa_verify secp256k1 P z 0 s = Ok false /\
  ecdsa_verify secp256k1 P z r (cn secp256k1) = Ok false /\
  ecdsa_verify secp256k1 P z (cn secp256k1) s = Ok false /\
  ecdsa_verify secp256k1 P z r (2 ^ 256 - 1) = Ok false /\
  ecdsa_verify secp256k1 P z (2 ^ 256 - 1) s = Ok false.
Proof.
  intros P z r s Hr Hs. cbn [cn secp256k1] in *.
  repeat split; apply verify_out_of_range; cbn [cn secp256k1]; lia.
Qed.
Print Assumptions C01_verify_rejects_catalogue.

Theorem C01_verify_total : forall C, scalar_laws C -> forall P z r s,
  valid C P -> exists b, ecdsa_verify C P z r s = Ok b.
Proof. exact verify_total. Qed.
Print Assumptions C01_verify_total.

(* the executable judge used by the harness implies the specification *)
Theorem C01_ecdsa_okb_sound : forall C Q z r s, ecdsa_okb C Q z r s = true -> ecdsa_ok C Q z r s.
Proof. exact ecdsa_okb_sound. Qed.
Print Assumptions C01_ecdsa_okb_sound.

(* ================================================================ deepening (sections 6-10) *)

(* ---------------------------------------------------------------- (6) DER: parser, strictness, lengths *)

(* exactly which strings Signature.parse accepts — no size bound: 30 L 02 lr R 02 ls S with L, lr, ls the
   actual lengths and R, S non-empty; nothing about minimality or sign *)
Theorem C01_der_parse_iff : forall b r s,
  der_parse b = Ok (r, s) <->
  exists rb sb, b = der_frame rb sb /\ (1 <= length rb)%nat /\ (1 <= length sb)%nat /\
                r = from_be rb /\ s = from_be sb.
Proof. exact der_parse_iff. Qed.
Print Assumptions C01_der_parse_iff.

Theorem C01_der_parse_err_iff : forall b,
  der_parse b = Err <->
  ~ exists rb sb, b = der_frame rb sb /\ (1 <= length rb)%nat /\ (1 <= length sb)%nat.
Proof. exact der_parse_err_iff. Qed.
Print Assumptions C01_der_parse_err_iff.

(* a value has ONE minimal positive DER integer *)
Theorem C01_der_min_unique : forall a b,
  bytes_ok a -> bytes_ok b -> der_min a -> der_min b -> from_be a = from_be b -> a = b.
Proof. exact der_min_unique. Qed.
Print Assumptions C01_der_min_unique.

(* the image of the encoder IS the strict grammar (der_strict: both bodies minimal, values r, s) *)
Theorem C01_der_image_iff : forall r s b,
  1 <= r < 2 ^ 256 -> 1 <= s < 2 ^ 256 -> (der r s = Ok b <-> der_strict b r s).
Proof. exact der_image_iff. Qed.
Print Assumptions C01_der_image_iff.

(* the converse round trip: Signature.parse(b).der() = b exactly for the strict strings *)
Theorem C01_der_reencode_id_iff : forall b,
  der_reencode b = Ok b <-> exists r s, 1 <= r < 2 ^ 256 /\ 1 <= s < 2 ^ 256 /\ der_strict b r s.
Proof. exact der_reencode_id_iff. Qed.
Print Assumptions C01_der_reencode_id_iff.

(* "all DER strings the encoder can emit": parse is a left inverse on the whole image, the encoder injective *)
Theorem C01_der_parse_der : forall r s b, der r s = Ok b -> der_parse b = Ok (r, s).
Proof. exact der_parse_der. Qed.
Print Assumptions C01_der_parse_der.

Theorem C01_der_injective : forall r s r' s' b,
  der r s = Ok b -> der r' s' = Ok b -> r = r' /\ s = s'.
Proof. exact der_injective. Qed.
Print Assumptions C01_der_injective.

(* the parser is NOT strict (outside the property, which quantifies over encoder output only) *)
Theorem C01_der_parse_not_strict :
  exists b r s, bytes_ok b /\ der_parse b = Ok (r, s) /\ 1 <= r < 2 ^ 256 /\ 1 <= s < 2 ^ 256 /\
                der r s <> Ok b.
Proof. exact der_parse_not_strict. Qed.
Print Assumptions C01_der_parse_not_strict.

Theorem C01_der_parse_accepts_negative :
  exists b r s, bytes_ok b /\ der_parse b = Ok (r, s) /\ der r s <> Ok b /\
                exists b', der r s = Ok b' /\ length b' = S (S (length b)).
Proof. exact der_parse_accepts_negative. Qed.
Print Assumptions C01_der_parse_accepts_negative.

(* length classes: 6 + octets(r) + octets(s), octets(v) = (log2 v + 9) / 8; every total in 8..72 *)
Theorem C01_der_length : forall r s b, der r s = Ok b ->
  zlen b = 6 + der_ilen r + der_ilen s /\ 8 <= zlen b <= 72.
Proof. exact der_length. Qed.
Print Assumptions C01_der_length.

Theorem C01_der_length_low_s : forall r s b, der r s = Ok b -> s < 2 ^ 255 -> zlen b <= 71.
Proof. exact der_length_low_s. Qed.
Print Assumptions C01_der_length_low_s.

(* ---------------------------------------------------------------- (7) RFC 6979 as "first acceptable candidate" *)

(* the loop transcription of Spec/Rfc6979.v returns the first candidate in [1, q-1] of the DRBG sequence *)
Theorem C01_step_h_first : forall q hmac fuel K V k,
  step_h q hmac fuel K V = Some k <-> exists i, (i < fuel)%nat /\ first_acceptable q hmac (K, V) i k.
Proof. exact step_h_first. Qed.
Print Assumptions C01_step_h_first.

(* the executable search used by the harness (returns the retry count too) is that relation, and gives the
   nonce of the loop transcription *)
Theorem C01_seq_search_first : forall q hmac fuel st i k,
  seq_search q hmac fuel 0 st = Some (i, k) <-> (i < fuel)%nat /\ first_acceptable q hmac st i k.
Proof. exact seq_search_first. Qed.
Print Assumptions C01_seq_search_first.

Theorem C01_rfc6979_seq_eq : forall q hmac fuel x h1 k,
  rfc6979_k q hmac fuel x h1 = Some k <-> exists i, rfc6979_seq q hmac fuel x h1 = Some (i, k).
Proof. exact rfc6979_seq_eq. Qed.
Print Assumptions C01_rfc6979_seq_eq.

(* the model: every HMAC, every fuel, every key, every integer digest below 2n *)
Theorem C01_det_k_first : forall C hmac fuel d z k,
  0 < cn C <= 2 ^ 256 -> 0 <= d < 2 ^ 256 -> 0 <= z < 2 * cn C ->
  (deterministic_k C hmac fuel d z = Ok k <->
   exists i, (i < fuel)%nat /\
     first_acceptable (cn C) hmac (init_state hmac (int2octets d) (int2octets (z mod cn C))) i k).
Proof. exact det_k_first. Qed.
Print Assumptions C01_det_k_first.

Theorem C01_det_k_first_secp256k1 : forall hmac fuel d z k,
  0 <= d < 2 ^ 256 -> 0 <= z < 2 ^ 256 ->
  (deterministic_k secp256k1 hmac fuel d z = Ok k <->
   exists i, (i < fuel)%nat /\
     first_acceptable (cn secp256k1) hmac
       (init_state hmac (int2octets d) (int2octets (z mod cn secp256k1))) i k).
Proof. intros. apply det_k_first; try assumption; cbn [cn secp256k1]; lia. Qed.
Print Assumptions C01_det_k_first_secp256k1.

(* no answer within fuel <-> every candidate so far was rejected; a rejected candidate is 0 or >= n *)
Theorem C01_det_k_exhausted : forall C hmac fuel d z,
  0 < cn C <= 2 ^ 256 -> 0 <= d < 2 ^ 256 -> 0 <= z < 2 * cn C ->
  (deterministic_k C hmac fuel d z = Err <->
   forall i, (i < fuel)%nat ->
     ~ acceptable (cn C) (h_cand hmac i (init_state hmac (int2octets d) (int2octets (z mod cn C))))).
Proof. exact det_k_exhausted. Qed.
Print Assumptions C01_det_k_exhausted.

Theorem C01_rejected_is_0_or_ge_n : forall q hmac i st, (forall K V, bytes_ok (hmac K V)) ->
  ~ acceptable q (h_cand hmac i st) -> h_cand hmac i st = 0 \/ q <= h_cand hmac i st.
Proof. exact rejected_is_0_or_ge_q. Qed.
Print Assumptions C01_rejected_is_0_or_ge_n.

(* the fuel decides only WHETHER an answer is given, never which *)
Theorem C01_det_k_fuel_mono : forall C hmac fuel fuel' d z k, (fuel <= fuel')%nat ->
  deterministic_k C hmac fuel d z = Ok k -> deterministic_k C hmac fuel' d z = Ok k.
Proof. exact det_k_fuel_mono. Qed.
Print Assumptions C01_det_k_fuel_mono.

(* the RFC's own interface h1 = H(m) (32 octets) *)
Theorem C01_det_k_of_hash : forall C hmac fuel d h1,
  0 < cn C <= 2 ^ 256 -> 2 ^ 256 <= 2 * cn C -> 0 <= d < 2 ^ 256 ->
  length h1 = 32%nat -> bytes_ok h1 ->
  deterministic_k C hmac fuel d (from_be h1) = opt_res (rfc6979_k (cn C) hmac fuel d h1).
Proof. exact det_k_of_hash. Qed.
Print Assumptions C01_det_k_of_hash.

(* ---------------------------------------------------------------- (8) verification algebra *)

(* no group hypothesis: the digest enters only mod n (z and z + n, z >= n) *)
Theorem C01_verify_z_mod : forall C P z r s,
  ecdsa_verify C P (z mod cn C) r s = ecdsa_verify C P z r s.
Proof. exact verify_z_mod. Qed.
Print Assumptions C01_verify_z_mod.

(* malleability twin, for every integer r and s *)
Theorem C01_verify_twin : forall C, scalar_laws C -> forall P z r s, valid C P ->
  ecdsa_verify C P z r (cn C - s) = ecdsa_verify C P z r s.
Proof. exact verify_twin. Qed.
Print Assumptions C01_verify_twin.

(* a signature is accepted for a SECOND digest: z' = -z - 2 r d.  "altered digest => invalid" in the property's
   parenthesis holds only up to this (and is what verify_iff_ecdsa says exactly) *)
Theorem C01_verify_dup_digest : forall C, scalar_laws C -> forall d z r s,
  ecdsa_verify C (mulT C d (G C)) (- z - 2 * r * d) r s = ecdsa_verify C (mulT C d (G C)) z r s.
Proof. exact verify_dup_digest. Qed.
Print Assumptions C01_verify_dup_digest.

(* the shapes of R: infinity, x < n, n <= x (< 2n) *)
Theorem C01_verify_cases : forall C, scalar_laws C -> forall P z r s,
  valid C P -> 1 <= r < cn C -> 1 <= s < cn C ->
  match ecdsa_point C P z r (modpow s (cn C - 2) (cn C)) with
  | None => ecdsa_verify C P z r s = Ok false
  | Some (x, _) =>
      0 <= x /\
      (x < cn C -> ecdsa_verify C P z r s = Ok (x =? r)) /\
      (cn C <= x < 2 * cn C -> ecdsa_verify C P z r s = Ok (x - cn C =? r) /\
                               ecdsa_verify C P z x s = Ok false)
  end.
Proof. exact verify_cases. Qed.
Print Assumptions C01_verify_cases.

Theorem C01_verify_true_x : forall C, scalar_laws C -> forall P z r s,
  valid C P -> ecdsa_verify C P z r s = Ok true ->
  exists x y, ecdsa_point C P z r (modpow s (cn C - 2) (cn C)) = Some (x, y) /\
              0 <= x < cp C /\ x mod cn C = r.
Proof. exact verify_true_x. Qed.
Print Assumptions C01_verify_true_x.

(* S256Point(None, None) as public key: a tuple anyone can compute is accepted (R = u1 G) *)
Theorem C01_verify_infinity_key : forall C, scalar_laws C -> forall z s x y,
  1 <= s < cn C ->
  mulT C ((z * modpow s (cn C - 2) (cn C)) mod cn C) (G C) = Some (x, y) -> 1 <= x mod cn C ->
  ecdsa_verify C None z (x mod cn C) s = Ok true.
Proof. exact verify_infinity_key. Qed.
Print Assumptions C01_verify_infinity_key.

(* ---------------------------------------------------------------- (9) signing, exact conditions *)

Theorem C01_sign_verifies_iff : forall C, scalar_laws C -> forall hmac fuel d z r s,
  1 <= d < cn C -> ecdsa_sign C hmac fuel d z = Ok (r, s) ->
  (ecdsa_verify C (mulT C d (G C)) z r s = Ok true <-> 1 <= r < cn C /\ s <> 0).
Proof. exact sign_verifies_iff. Qed.
Print Assumptions C01_sign_verifies_iff.

Theorem C01_sign_k_verifies_iff : forall C, scalar_laws C -> forall d z k r s,
  1 <= d < cn C -> 1 <= k < cn C -> ecdsa_sign_k C d z k = Ok (r, s) ->
  (ecdsa_verify C (mulT C d (G C)) z r s = Ok true <-> 1 <= r < cn C /\ s <> 0).
Proof. exact sign_k_verifies_iff. Qed.
Print Assumptions C01_sign_k_verifies_iff.

Theorem C01_sign_total_iff : forall C, scalar_laws C -> forall hmac fuel d z,
  (exists r s, ecdsa_sign C hmac fuel d z = Ok (r, s)) <->
  (exists k, deterministic_k C hmac fuel d z = Ok k).
Proof. exact sign_total_iff. Qed.
Print Assumptions C01_sign_total_iff.

Theorem C01_sign_k_s_zero_iff : forall C, scalar_laws C -> forall d z k r s,
  1 <= k < cn C -> ecdsa_sign_k C d z k = Ok (r, s) -> (s = 0 <-> (z + r * d) mod cn C = 0).
Proof. exact sign_k_s_zero_iff. Qed.
Print Assumptions C01_sign_k_s_zero_iff.

(* digests z and z + n (z >= n is inside the property's quantifier) give the same signature *)
Theorem C01_sign_z_plus_n : forall C hmac fuel d z, 0 < cn C -> 0 <= z < cn C ->
  ecdsa_sign C hmac fuel d (z + cn C) = ecdsa_sign C hmac fuel d z.
Proof. exact sign_z_plus_n. Qed.
Print Assumptions C01_sign_z_plus_n.

(* the property's "is the deterministic RFC 6979 signature": nonce spec and textbook equation composed *)
Theorem C01_sign_is_rfc6979_textbook : forall C, scalar_laws C -> forall hmac fuel d z r s,
  0 < cn C <= 2 ^ 256 -> 2 ^ 256 <= 2 * cn C -> 0 <= d < 2 ^ 256 -> 0 <= z < 2 ^ 256 ->
  ecdsa_sign C hmac fuel d z = Ok (r, s) ->
  exists k y w,
    rfc6979_k (cn C) hmac fuel d (to_be 32 z) = Some k /\ 1 <= k < cn C /\
    mulT C k (G C) = Some (r, y) /\ is_inv C k w /\
    s = (let s0 := (w * (z + r * d)) mod cn C in
         if (cn C - 1) / 2 <? s0 then cn C - s0 else s0).
Proof. exact sign_is_rfc6979_textbook. Qed.
Print Assumptions C01_sign_is_rfc6979_textbook.

(* the same for every order n <= 2^256 and every integer digest below 2n (instantiable on the toy curve) *)
Theorem C01_sign_is_drbg_textbook : forall C, scalar_laws C -> forall hmac fuel d z r s,
  0 < cn C <= 2 ^ 256 -> 0 <= d < 2 ^ 256 -> 0 <= z < 2 * cn C ->
  ecdsa_sign C hmac fuel d z = Ok (r, s) ->
  exists k y w,
    generate_from (cn C) hmac fuel (int2octets d) (int2octets (z mod cn C)) = Some k /\ 1 <= k < cn C /\
    mulT C k (G C) = Some (r, y) /\ is_inv C k w /\
    s = (let s0 := (w * (z + r * d)) mod cn C in
         if (cn C - 1) / 2 <? s0 then cn C - s0 else s0).
Proof. exact sign_is_drbg_textbook. Qed.
Print Assumptions C01_sign_is_drbg_textbook.

Theorem C01_sign_bad_digest : forall C hmac fuel d z,
  0 < cn C <= 2 ^ 256 -> z < 0 \/ 2 ^ 256 + cn C <= z -> ecdsa_sign C hmac fuel d z = Err.
Proof. exact sign_bad_digest. Qed.
Print Assumptions C01_sign_bad_digest.

(* ---------------------------------------------------------------- (9b) what one accepted tuple pins down *)

(* "altered digest" / "different key" made exact: with the point R fixed, the digest is determined mod n and
   the key is determined; any other accepted digest or key goes through another point with the same x mod n *)
Theorem C01_same_R_same_digest : forall C, scalar_laws C -> forall P z z' r s,
  valid C P -> 1 <= s < cn C ->
  ecdsa_point C P z r (modpow s (cn C - 2) (cn C)) = ecdsa_point C P z' r (modpow s (cn C - 2) (cn C)) ->
  z mod cn C = z' mod cn C.
Proof. exact same_R_same_digest. Qed.
Print Assumptions C01_same_R_same_digest.

Theorem C01_same_R_same_key : forall C, scalar_laws C -> forall P P' z r s,
  valid C P -> valid C P' -> 1 <= r < cn C -> 1 <= s < cn C ->
  ecdsa_point C P z r (modpow s (cn C - 2) (cn C)) = ecdsa_point C P' z r (modpow s (cn C - 2) (cn C)) ->
  P = P'.
Proof. exact same_R_same_key. Qed.
Print Assumptions C01_same_R_same_key.

(* ---------------------------------------------------------------- (9c) the executable judge is complete *)

(* the extracted specification run by the harness decides ecdsa_ok exactly (extended Euclid with fuel 600
   terminates and inverts for every prime n <= 2^256), and equals the model's verify on every valid key *)
Theorem C01_ecdsa_okb_iff : forall C Q z r s, prime (cn C) -> cn C <= 2 ^ 256 ->
  (ecdsa_okb C Q z r s = true <-> ecdsa_ok C Q z r s).
Proof. exact ecdsa_okb_iff. Qed.
Print Assumptions C01_ecdsa_okb_iff.

Theorem C01_okb_eq_verify : forall C, scalar_laws C -> cn C <= 2 ^ 256 -> forall P z r s, valid C P ->
  ecdsa_verify C P z r s = Ok (ecdsa_okb C P z r s).
Proof. exact okb_eq_verify. Qed.
Print Assumptions C01_okb_eq_verify.

(* ---------------------------------------------------------------- (10) the outer API (Model/EcdsaApi.v) *)

Theorem C01_pubkey_ok_iff : forall C, scalar_laws C -> forall d,
  (exists Q, pubkey C d = Ok Q) <-> 1 <= d < cn C.
Proof. exact pubkey_ok_iff. Qed.
Print Assumptions C01_pubkey_ok_iff.

Theorem C01_pubkey_ok : forall C, scalar_laws C -> forall d, 1 <= d < cn C ->
  pubkey C d = Ok (mulT C d (G C)) /\ valid C (mulT C d (G C)) /\ mulT C d (G C) <> None.
Proof. exact pubkey_ok. Qed.
Print Assumptions C01_pubkey_ok.

(* no group hypothesis: PrivateKey(d) with d outside [1, n-1] raises, so nothing is signed *)
Theorem C01_priv_sign_bad_secret : forall C hmac fuel d z,
  d < 1 \/ cn C <= d -> priv_sign C hmac fuel d z = Err.
Proof. exact priv_sign_bad_secret. Qed.
Print Assumptions C01_priv_sign_bad_secret.

(* PrivateKey(d).sign(z).der() -> Signature.parse -> point.verify, with everything the property lists *)
Theorem C01_api_sign_der_verify : forall C, scalar_laws C -> forall hmac fuel d z r s,
  cn C <= 2 ^ 256 ->
  priv_sign C hmac fuel d z = Ok (r, s) -> 1 <= r < cn C -> s <> 0 ->
  exists b,
    sign_der C hmac fuel d z = Ok b /\
    der_parse b = Ok (r, s) /\ der_strict b r s /\ 8 <= zlen b <= 72 /\
    1 <= s <= (cn C - 1) / 2 /\
    pubkey C d = Ok (mulT C d (G C)) /\
    verify_der C (mulT C d (G C)) z b = Ok true /\
    ecdsa_verify C (mulT C d (G C)) z r s = Ok true.
Proof. exact api_sign_der_verify. Qed.
Print Assumptions C01_api_sign_der_verify.

Theorem C01_api_sign_der_length : forall C, scalar_laws C -> forall hmac fuel d z b,
  cn C <= 2 ^ 256 -> sign_der C hmac fuel d z = Ok b -> 8 <= zlen b <= 71.
Proof. exact api_sign_der_length. Qed.
Print Assumptions C01_api_sign_der_length.

(* what point.verify(z, Signature.parse(b)) accepts: exactly the frames around a textbook-valid (r, s) *)
Theorem C01_verify_der_iff : forall C, scalar_laws C -> forall P z b, valid C P ->
  (verify_der C P z b = Ok true <->
   exists rb sb, b = der_frame rb sb /\ (1 <= length rb)%nat /\ (1 <= length sb)%nat /\
                 ecdsa_ok C P z (from_be rb) (from_be sb)).
Proof. exact verify_der_iff. Qed.
Print Assumptions C01_verify_der_iff.

Theorem C01_verify_der_malformed : forall C P z b, der_parse b = Err -> verify_der C P z b = Err.
Proof. exact verify_der_malformed. Qed.
Print Assumptions C01_verify_der_malformed.

Theorem C01_verify_der_accepts_padded : forall C P z rb sb,
  (1 <= length rb)%nat -> (1 <= length sb)%nat ->
  verify_der C P z (der_frame (0 :: rb) sb) = verify_der C P z (der_frame rb sb) /\
  verify_der C P z (der_frame rb (0 :: sb)) = verify_der C P z (der_frame rb sb).
Proof. exact verify_der_accepts_padded. Qed.
Print Assumptions C01_verify_der_accepts_padded.

(* sign_message / verify_message, for every hash function *)
Theorem C01_api_sign_message_verify : forall C, scalar_laws C -> forall hmac fuel hash256 d m r s,
  cn C <= 2 ^ 256 ->
  sign_message C hmac hash256 fuel d m = Ok (r, s) -> 1 <= r < cn C -> s <> 0 ->
  verify_message C hash256 (mulT C d (G C)) m r s = Ok true /\
  exists b, sign_message_der C hmac hash256 fuel d m = Ok b /\
            verify_message_der C hash256 (mulT C d (G C)) m b = Ok true.
Proof. exact api_sign_message_verify. Qed.
Print Assumptions C01_api_sign_message_verify.

Theorem C01_sign_message_nonce : forall C, scalar_laws C -> forall hmac fuel hash256 d m,
  0 < cn C <= 2 ^ 256 -> 2 ^ 256 <= 2 * cn C -> 1 <= d < cn C ->
  length (hash256 m) = 32%nat -> bytes_ok (hash256 m) ->
  sign_message C hmac hash256 fuel d m =
  (k <- opt_res (rfc6979_k (cn C) hmac fuel d (hash256 m)) ;; ecdsa_sign_k C d (msg_digest hash256 m) k).
Proof. exact sign_message_nonce. Qed.
Print Assumptions C01_sign_message_nonce.

(* public key and signature both from the wire (SEC, either compression; DER) *)
Theorem C01_api_wire_roundtrip : forall C, scalar_laws C -> forall hmac fuel,
  ca C = 0 -> cp C mod 4 = 3 -> cp C < pow256 32 ->
  forall d z r s c,
  cn C <= 2 ^ 256 ->
  priv_sign C hmac fuel d z = Ok (r, s) -> 1 <= r < cn C -> s <> 0 ->
  exists sb b,
    sec (mulT C d (G C)) c = Ok sb /\ sign_der C hmac fuel d z = Ok b /\
    verify_wire C sb z b = Ok true.
Proof. exact api_wire_roundtrip. Qed.
Print Assumptions C01_api_wire_roundtrip.

(* ---------------------------------------------------------------- non-vacuity: the toy curve
   y^2 = x^3 + 7 over F_43, n = 31, G = (2, 12); scalar_laws is proved for it by exhaustive
   computation (Proofs/ToyCurve.v), so every hypothesis above is satisfiable. *)

Example toy_sign_verifies := C01_sign_verifies toy toy_scalar_laws.
Example toy_verify_iff_ecdsa := C01_verify_iff_ecdsa toy toy_scalar_laws.

(* a concrete signature on the toy curve meeting all side conditions: d = 5, z = 9, k = 2 *)
Example toy_sign_k : ecdsa_sign_k toy 5 9 2 = Ok (7, 9).
Proof. vm_compute. reflexivity. Qed.
Example toy_side_conditions : 7 mod cn toy <> 0 /\ 7 < cn toy /\ 9 <> 0 /\ 1 <= 9 <= (cn toy - 1) / 2.
Proof. vm_compute. repeat split; discriminate. Qed.
Example toy_verify : ecdsa_verify toy (mulT toy 5 (G toy)) 9 7 9 = Ok true.
Proof.
  apply (C01_sign_k_verifies toy toy_scalar_laws 5 9 2); try (vm_compute; reflexivity);
    try (cbn [cn toy]; lia); vm_compute; discriminate.
Qed.
(* ... the high-S twin is valid too, a tampered digest or s + n is not *)
Example toy_verify_twin : ecdsa_verify toy (mulT toy 5 (G toy)) 9 7 (31 - 9) = Ok true.
Proof. vm_compute. reflexivity. Qed.
Example toy_verify_tampered : ecdsa_verify toy (mulT toy 5 (G toy)) 10 7 9 = Ok false /\
                              ecdsa_verify toy (mulT toy 5 (G toy)) 9 7 (9 + 31) = Ok false.
Proof. vm_compute. split; reflexivity. Qed.
(* a toy signature violating the side condition r < n (k = 3: x(kG) = 35 >= 31): it is NOT accepted,
   which is why the condition is a visible hypothesis *)
Example toy_r_ge_n : exists k r s, ecdsa_sign_k toy 5 9 k = Ok (r, s) /\ cn toy <= r /\
                                   ecdsa_verify toy (mulT toy 5 (G toy)) 9 r s = Ok false.
Proof.
  exists 3, 35, 11. vm_compute. split; [reflexivity|]. split; [discriminate|reflexivity].
Qed.

(* ---------------------------------------------------------------- non-vacuity of sections 6-10 *)

(* RFC 6979 retry loop with both rejection classes, on n = 31 with toy_hmac (any function is an HMAC instance):
   d = 5, z = 14: candidate 0 is 31 = n (rejected), candidate 1 is 4 (accepted); with fuel 1 no answer;
   d = 1, z = 3: candidate 0 is 0 (rejected) *)
Example toy_retry_ge_n :
  h_cand toy_hmac 0 (init_state toy_hmac (int2octets 5) (int2octets (14 mod cn toy))) = cn toy /\
  h_cand toy_hmac 1 (init_state toy_hmac (int2octets 5) (int2octets (14 mod cn toy))) = 4 /\
  deterministic_k toy toy_hmac 20 5 14 = Ok 4 /\ deterministic_k toy toy_hmac 1 5 14 = Err.
Proof. vm_compute. repeat split; reflexivity. Qed.
Example toy_retry_zero :
  h_cand toy_hmac 0 (init_state toy_hmac (int2octets 1) (int2octets (3 mod cn toy))) = 0 /\
  deterministic_k toy toy_hmac 20 1 3 = Ok 6.
Proof. vm_compute. split; reflexivity. Qed.
Example toy_det_k_first : exists i, (i < 20)%nat /\
  first_acceptable (cn toy) toy_hmac (init_state toy_hmac (int2octets 5) (int2octets (14 mod cn toy))) i 4.
Proof.
  apply (C01_det_k_first toy toy_hmac 20 5 14 4); try (cbn [cn toy]; lia).
  vm_compute. reflexivity.
Qed.

(* PrivateKey(5).sign(14).der() -> parse -> verify on the toy curve: all hypotheses of the API theorems hold *)
Example toy_priv_sign : priv_sign toy toy_hmac 20 5 14 = Ok (21, 9).
Proof. vm_compute. reflexivity. Qed.
Example toy_api_roundtrip : exists b,
  sign_der toy toy_hmac 20 5 14 = Ok b /\ der_parse b = Ok (21, 9) /\ der_strict b 21 9 /\
  8 <= zlen b <= 72 /\ 1 <= 9 <= (cn toy - 1) / 2 /\
  pubkey toy 5 = Ok (mulT toy 5 (G toy)) /\
  verify_der toy (mulT toy 5 (G toy)) 14 b = Ok true /\
  ecdsa_verify toy (mulT toy 5 (G toy)) 14 21 9 = Ok true.
Proof.
  apply (C01_api_sign_der_verify toy toy_scalar_laws toy_hmac 20 5 14 21 9).
  - cbn [cn toy]. lia.
  - exact toy_priv_sign.
  - cbn [cn toy]. lia.
  - discriminate.
Qed.
Example toy_wire_roundtrip : exists sb b,
  sec (mulT toy 5 (G toy)) true = Ok sb /\ sign_der toy toy_hmac 20 5 14 = Ok b /\
  verify_wire toy sb 14 b = Ok true.
Proof.
  apply (C01_api_wire_roundtrip toy toy_scalar_laws toy_hmac 20 eq_refl eq_refl eq_refl 5 14 21 9 true).
  - cbn [cn toy]. lia.
  - exact toy_priv_sign.
  - cbn [cn toy]. lia.
  - discriminate.
Qed.
Example toy_sign_message : sign_message toy toy_hmac toy_hash 20 5 [27] = Ok (7, 14).
Proof. vm_compute. reflexivity. Qed.
Example toy_message_roundtrip :
  verify_message toy toy_hash (mulT toy 5 (G toy)) [27] 7 14 = Ok true /\
  exists b, sign_message_der toy toy_hmac toy_hash 20 5 [27] = Ok b /\
            verify_message_der toy toy_hash (mulT toy 5 (G toy)) [27] b = Ok true.
Proof.
  apply (C01_api_sign_message_verify toy toy_scalar_laws toy_hmac 20 toy_hash 5 [27] 7 14).
  - cbn [cn toy]. lia.
  - exact toy_sign_message.
  - cbn [cn toy]. lia.
  - discriminate.
Qed.
(* the hypotheses of C01_det_k_of_hash / C01_sign_message_nonce hold for secp256k1 *)
Example secp256k1_order_bounds : 0 < cn secp256k1 <= 2 ^ 256 /\ 2 ^ 256 <= 2 * cn secp256k1.
Proof. cbn [cn secp256k1]. lia. Qed.
(* ... and the curve-shape hypotheses of C01_api_wire_roundtrip *)
Example secp256k1_wire_hyps : ca secp256k1 = 0 /\ cp secp256k1 mod 4 = 3 /\ cp secp256k1 < pow256 32.
Proof. split; [reflexivity|]. split; [vm_compute; reflexivity|]. rewrite BytesP.pow256_32. cbn [cp secp256k1]. lia. Qed.

(* the emitted toy signature is the textbook one for the DRBG nonce *)
Example toy_sign_textbook := C01_sign_is_drbg_textbook toy toy_scalar_laws toy_hmac 20 5 14 21 9.
Example toy_sign_14 : ecdsa_sign toy toy_hmac 20 5 14 = Ok (21, 9) /\ 0 < cn toy <= 2 ^ 256 /\ 0 <= 14 < 2 * cn toy.
Proof. split; [vm_compute; reflexivity|]. cbn [cn toy]. lia. Qed.
(* same R: digests 9 and 9 + n *)
Example toy_same_R : ecdsa_point toy (mulT toy 5 (G toy)) 9 4 (modpow 20 (cn toy - 2) (cn toy)) =
                     ecdsa_point toy (mulT toy 5 (G toy)) 40 4 (modpow 20 (cn toy - 2) (cn toy)).
Proof. vm_compute. reflexivity. Qed.

Example toy_okb : ecdsa_okb toy (mulT toy 5 (G toy)) 9 7 9 = true /\ ecdsa_okb toy (mulT toy 5 (G toy)) 10 7 9 = false.
Proof. vm_compute. split; reflexivity. Qed.
(* a valid toy tuple whose R has x = 35 >= n = 31: accepted with r = x - n = 4, refused with r = x *)
Example toy_high_x :
  ecdsa_point toy (mulT toy 5 (G toy)) 9 4 (modpow 20 (cn toy - 2) (cn toy)) = Some (35, 21) /\
  ecdsa_verify toy (mulT toy 5 (G toy)) 9 4 20 = Ok true /\
  ecdsa_verify toy (mulT toy 5 (G toy)) 9 35 20 = Ok false.
Proof. vm_compute. repeat split; reflexivity. Qed.
(* the second digest of C01_verify_dup_digest: (20, 2) under 30*G is valid for z = 7 and for
   z' = (-7 - 2*20*30) mod 31 = 2 *)
Example toy_dup_digest :
  ecdsa_verify toy (mulT toy 30 (G toy)) 7 20 2 = Ok true /\
  ecdsa_verify toy (mulT toy 30 (G toy)) 2 20 2 = Ok true /\ (- 7 - 2 * 20 * 30) mod cn toy = 2.
Proof. vm_compute. repeat split; reflexivity. Qed.
(* the infinity "key" accepts a tuple computed without any secret *)
Example toy_infinity_key : ecdsa_verify toy None 4 20 3 = Ok true.
Proof. vm_compute. reflexivity. Qed.
(* s = 0 (z + r d = 0 mod n): returned as is, does not verify, and .der() raises *)
Example toy_s_zero :
  ecdsa_sign_k toy 5 27 2 = Ok (7, 0) /\ (27 + 7 * 5) mod cn toy = 0 /\
  ecdsa_verify toy (mulT toy 5 (G toy)) 27 7 0 = Ok false /\ der 7 0 = Err.
Proof. vm_compute. repeat split; reflexivity. Qed.

(* The constants written in the model are the constants of the SOURCE: coq/Generated/SrcConsts.v is regenerated
   from /repo/buidl/*.py by harness/gen_coq_consts.py on every run; the statements are spelled out in
   Proofs/ConstsTie.v (secp256k1_is_source_stmt). *)
From V Require Proofs.ConstsTie.
Theorem C01_constants_match_source : ConstsTie.secp256k1_is_source_stmt.
Proof. exact ConstsTie.secp256k1_is_source. Qed.
Print Assumptions C01_constants_match_source.
