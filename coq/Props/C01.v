(* Props/C01.v — ECDSA: signing is complete, verification is sound, signatures canonical.

   Model: Model/Pecc.v (ecdsa_verify, deterministic_k, ecdsa_sign_k, ecdsa_sign, der,
   der_parse), validated against buidl/pecc.py by harness/props/c01.py.
   Specs: Spec/Ecdsa.v (textbook validity), Spec/Rfc6979.v (RFC 6979 section 3.2).

   Hypotheses that remain premises (never axioms):
     [scalar_laws C]  group axioms / order of G / primality of n, about the model's
                      curve arithmetic (Proofs/GroupHyp.v); discharged on the toy curve
                      (Proofs/ToyCurve.v) in the Examples at the end;
     side conditions of C01_sign_verifies: r < n, r mod n <> 0, s <> 0 — the three
                      textbook retry cases the code does not implement.
   HMAC is universally quantified. *)
From Coq Require Import Znumtheory.
From V Require Import Base.Prelude Base.Ints Model.Pecc Proofs.GroupHyp Proofs.ToyCurve
  Spec.Ecdsa Spec.Rfc6979 Proofs.EcdsaP.

(* ---------------------------------------------------------------- (1) DER *)

Theorem C01_der_roundtrip : forall r s,
  1 <= r < 2 ^ 256 -> 1 <= s < 2 ^ 256 ->
  exists b, der r s = Ok b /\ der_parse b = Ok (r, s).
Proof. exact der_roundtrip. Qed.
Print Assumptions C01_der_roundtrip.

(* the emitted string is SEQUENCE { INTEGER r, INTEGER s } with minimal positive integers:
   der_min = non-empty, top bit clear, no superfluous leading zero octet *)
Theorem C01_der_canonical : forall r s,
  1 <= r < 2 ^ 256 -> 1 <= s < 2 ^ 256 ->
  exists rb sb,
    der r s = Ok (48 :: zlen ((2 :: zlen rb :: rb) ++ (2 :: zlen sb :: sb)) ::
                  (2 :: zlen rb :: rb) ++ (2 :: zlen sb :: sb)) /\
    from_be rb = r /\ from_be sb = s /\ der_min rb /\ der_min sb /\
    bytes_ok rb /\ bytes_ok sb /\ (1 <= length rb <= 33)%nat /\ (1 <= length sb <= 33)%nat.
Proof. exact der_canonical. Qed.
Print Assumptions C01_der_canonical.

(* the error branch: 0 (IndexError), negative or >= 2^256 (OverflowError) *)
Theorem C01_der_error : forall r s,
  r <= 0 \/ 2 ^ 256 <= r \/ s <= 0 \/ 2 ^ 256 <= s -> der r s = Err.
Proof. exact der_err. Qed.
Print Assumptions C01_der_error.

(* ---------------------------------------------------------------- (2) RFC 6979 *)

Theorem C01_det_k_eq_rfc6979 : forall C hmac fuel d z,
  0 < cn C <= 2 ^ 256 -> 2 ^ 256 <= 2 * cn C ->
  0 <= d < 2 ^ 256 -> 0 <= z < 2 ^ 256 ->
  deterministic_k C hmac fuel d z = opt_res (rfc6979_k (cn C) hmac fuel d (to_be 32 z)).
Proof. exact det_k_eq_rfc6979. Qed.
Print Assumptions C01_det_k_eq_rfc6979.

(* closed instance: secp256k1, every HMAC function, every fuel, every key and digest *)
Theorem C01_det_k_eq_rfc6979_secp256k1 : forall hmac fuel d z,
  0 <= d < 2 ^ 256 -> 0 <= z < 2 ^ 256 ->
  deterministic_k secp256k1 hmac fuel d z =
  opt_res (rfc6979_k (cn secp256k1) hmac fuel d (to_be 32 z)).
Proof.
  intros. apply det_k_eq_rfc6979; try assumption; cbn [cn secp256k1]; lia.
Qed.
Print Assumptions C01_det_k_eq_rfc6979_secp256k1.

(* integer digests beyond 2^256 (the code accepts z < 2^256 + n): bits2octets is z mod n
   exactly for z < 2n; for 2n <= z < 2^256 + n the code feeds z - n, unreduced *)
Theorem C01_det_k_general : forall C hmac fuel d z,
  0 < cn C <= 2 ^ 256 -> 0 <= d < 2 ^ 256 -> 0 <= z < 2 * cn C ->
  deterministic_k C hmac fuel d z =
  opt_res (generate_from (cn C) hmac fuel (int2octets d) (int2octets (z mod cn C))).
Proof. exact det_k_eq_generate. Qed.
Print Assumptions C01_det_k_general.

Theorem C01_det_k_error : forall C hmac fuel d z,
  0 < cn C -> z < 0 \/ 2 ^ 256 + cn C <= z \/ d < 0 \/ 2 ^ 256 <= d -> cn C <= 2 ^ 256 ->
  deterministic_k C hmac fuel d z = Err.
Proof. exact det_k_err. Qed.
Print Assumptions C01_det_k_error.

Theorem C01_det_k_range : forall C hmac fuel d z k,
  deterministic_k C hmac fuel d z = Ok k -> 1 <= k < cn C.
Proof. exact det_k_range. Qed.
Print Assumptions C01_det_k_range.

(* ---------------------------------------------------------------- (3) low S *)

Theorem C01_sign_low_s : forall C hmac fuel d z r s,
  cn C mod 2 = 1 -> 0 < cn C ->
  ecdsa_sign C hmac fuel d z = Ok (r, s) -> s <> 0 -> 1 <= s <= (cn C - 1) / 2.
Proof. exact sign_low_s. Qed.
Print Assumptions C01_sign_low_s.

Theorem C01_sign_low_s_secp256k1 : forall hmac fuel d z r s,
  ecdsa_sign secp256k1 hmac fuel d z = Ok (r, s) -> s <> 0 ->
  1 <= s <= (cn secp256k1 - 1) / 2.
Proof. intros hmac fuel d z r s. apply sign_low_s; [reflexivity|reflexivity]. Qed.
Print Assumptions C01_sign_low_s_secp256k1.

Theorem C01_sign_k_low_s : forall C d z k r s,
  cn C mod 2 = 1 -> 0 < cn C ->
  ecdsa_sign_k C d z k = Ok (r, s) -> s <> 0 -> 1 <= s <= (cn C - 1) / 2.
Proof. exact sign_k_low_s. Qed.
Print Assumptions C01_sign_k_low_s.

(* ---------------------------------------------------------------- (4) completeness *)

Theorem C01_sign_verifies : forall C, scalar_laws C -> forall hmac fuel d z r s,
  1 <= d < cn C ->
  ecdsa_sign C hmac fuel d z = Ok (r, s) ->
  r mod cn C <> 0 -> r < cn C -> s <> 0 ->
  ecdsa_verify C (mulT C d (G C)) z r s = Ok true.
Proof. exact sign_verifies. Qed.
Print Assumptions C01_sign_verifies.

Theorem C01_sign_k_verifies : forall C, scalar_laws C -> forall d z k r s,
  1 <= d < cn C -> 1 <= k < cn C ->
  ecdsa_sign_k C d z k = Ok (r, s) ->
  r mod cn C <> 0 -> r < cn C -> s <> 0 ->
  ecdsa_verify C (mulT C d (G C)) z r s = Ok true.
Proof. exact sign_k_verifies. Qed.
Print Assumptions C01_sign_k_verifies.

Theorem C01_sign_k_total : forall C, scalar_laws C -> forall d z k,
  1 <= k < cn C -> exists r s, ecdsa_sign_k C d z k = Ok (r, s).
Proof. exact sign_k_total. Qed.
Print Assumptions C01_sign_k_total.

(* the emitted pair is the textbook signature for the nonce: r = x(kG) (not reduced mod n),
   s = k^-1 (z + r d) mod n normalised to the low half; k^-1 given by its defining equation *)
Theorem C01_sign_k_textbook : forall C, scalar_laws C -> forall d z k r s,
  1 <= k < cn C -> ecdsa_sign_k C d z k = Ok (r, s) ->
  exists y w, mulT C k (G C) = Some (r, y) /\ is_inv C k w /\
    s = (let s0 := (w * (z + r * d)) mod cn C in
         if (cn C - 1) / 2 <? s0 then cn C - s0 else s0).
Proof. exact sign_k_textbook. Qed.
Print Assumptions C01_sign_k_textbook.

(* ---------------------------------------------------------------- (5) soundness *)

Theorem C01_verify_iff_ecdsa : forall C, scalar_laws C -> forall P z r s,
  valid C P ->
  (ecdsa_verify C P z r s = Ok true <-> ecdsa_ok C P z r s).
Proof. exact verify_iff_ecdsa. Qed.
Print Assumptions C01_verify_iff_ecdsa.

(* no group hypothesis: never accepted when r or s is outside [1, n-1] *)
Theorem C01_verify_rejects_out_of_range : forall C P z r s,
  r < 1 \/ cn C <= r \/ s < 1 \/ cn C <= s -> ecdsa_verify C P z r s = Ok false.
Proof. exact verify_out_of_range. Qed.
Print Assumptions C01_verify_rejects_out_of_range.

Theorem C01_verify_accepts_only_in_range : forall C P z r s,
  ecdsa_verify C P z r s = Ok true -> 1 <= r < cn C /\ 1 <= s < cn C.
Proof. exact verify_range. Qed.
Print Assumptions C01_verify_accepts_only_in_range.

(* the named tuples of the quantifier, on secp256k1: 0, n, s + n, r + n, 2^256 - 1 *)
Theorem C01_verify_rejects_catalogue : forall P z r s,
  1 <= r < cn secp256k1 -> 1 <= s < cn secp256k1 ->
  ecdsa_verify secp256k1 P z r (s + cn secp256k1) = Ok false /\
  ecdsa_verify secp256k1 P z (r + cn secp256k1) s = Ok false /\
  ecdsa_verify secp256k1 P z r 0 = Ok false /\
  ecdsa_verify secp256k1 P z 0 s = Ok false /\
  ecdsa_verify secp256k1 P z r (cn secp256k1) = Ok false /\
  ecdsa_verify secp256k1 P z (cn secp256k1) s = Ok false /\
  ecdsa_verify secp256k1 P z r (2 ^ 256 - 1) = Ok false /\
  ecdsa_verify secp256k1 P z (2 ^ 256 - 1) s = Ok false.
Proof.
  intros P z r s Hr Hs. cbn [cn secp256k1] in *.
  repeat split; apply verify_out_of_range; cbn [cn secp256k1]; lia.
Qed.
Print Assumptions C01_verify_rejects_catalogue.

Theorem C01_verify_total : forall C, scalar_laws C -> forall P z r s,
  valid C P -> exists b, ecdsa_verify C P z r s = Ok b.
Proof. exact verify_total. Qed.
Print Assumptions C01_verify_total.

(* the executable judge used by the harness implies the specification *)
Theorem C01_ecdsa_okb_sound : forall C Q z r s, ecdsa_okb C Q z r s = true -> ecdsa_ok C Q z r s.
Proof. exact ecdsa_okb_sound. Qed.
Print Assumptions C01_ecdsa_okb_sound.

(* ---------------------------------------------------------------- non-vacuity: the toy curve
   y^2 = x^3 + 7 over F_43, n = 31, G = (2, 12); scalar_laws is proved for it by exhaustive
   computation (Proofs/ToyCurve.v), so every hypothesis above is satisfiable. *)

Example toy_sign_verifies := C01_sign_verifies toy toy_scalar_laws.
Example toy_verify_iff_ecdsa := C01_verify_iff_ecdsa toy toy_scalar_laws.

(* a concrete signature on the toy curve meeting all side conditions: d = 5, z = 9, k = 2 *)
Example toy_sign_k : ecdsa_sign_k toy 5 9 2 = Ok (7, 9).
Proof. vm_compute. reflexivity. Qed.
Example toy_side_conditions : 7 mod cn toy <> 0 /\ 7 < cn toy /\ 9 <> 0 /\ 1 <= 9 <= (cn toy - 1) / 2.
Proof. vm_compute. repeat split; discriminate. Qed.
Example toy_verify : ecdsa_verify toy (mulT toy 5 (G toy)) 9 7 9 = Ok true.
Proof.
  apply (C01_sign_k_verifies toy toy_scalar_laws 5 9 2); try (vm_compute; reflexivity);
    try (cbn [cn toy]; lia); vm_compute; discriminate.
Qed.
(* ... the high-S twin is valid too, a tampered digest or s + n is not *)
Example toy_verify_twin : ecdsa_verify toy (mulT toy 5 (G toy)) 9 7 (31 - 9) = Ok true.
Proof. vm_compute. reflexivity. Qed.
Example toy_verify_tampered : ecdsa_verify toy (mulT toy 5 (G toy)) 10 7 9 = Ok false /\
                              ecdsa_verify toy (mulT toy 5 (G toy)) 9 7 (9 + 31) = Ok false.
Proof. vm_compute. split; reflexivity. Qed.
(* a toy signature violating the side condition r < n (k = 3: x(kG) = 35 >= 31): it is NOT accepted,
   which is why the condition is a visible hypothesis *)
Example toy_r_ge_n : exists k r s, ecdsa_sign_k toy 5 9 k = Ok (r, s) /\ cn toy <= r /\
                                   ecdsa_verify toy (mulT toy 5 (G toy)) 9 r s = Ok false.
Proof.
  exists 3, 35, 11. vm_compute. split; [reflexivity|]. split; [discriminate|reflexivity].
Qed.

(* The constants written in the model are the constants of the SOURCE: coq/Generated/SrcConsts.v is regenerated
   from /repo/buidl/*.py by harness/gen_coq_consts.py on every run; the statements are spelled out in
   Proofs/ConstsTie.v (secp256k1_is_source_stmt). *)
From V Require Proofs.ConstsTie.
Theorem C01_constants_match_source : ConstsTie.secp256k1_is_source_stmt.
Proof. exact ConstsTie.secp256k1_is_source. Qed.
Print Assumptions C01_constants_match_source.
