(* Props/C04.v — transaction wire codec is lossless; the txid is the witness-stripped hash;
   the fetcher only hands out transactions that hash to the requested id.
   Statements only, each closed by a lemma of Proofs/{ScriptP,TxP,TxidP}.v and followed by
   Print Assumptions.  hash256 is universally quantified (no hypothesis on it at all).

   Vocabulary (Spec/TxWf.v):
     cmds_wfb cs      opcodes in {0} u [79,255], pushes of 0..520 bytes
     cmds_strictb cs  the same with pushes of 1..520 bytes
     canon_cmds cs    the empty push replaced by opcode 0 (the wire cannot tell them apart)
     tx_wfb t         version/locktime/prev_index/sequence in [0,2^32), amounts in [0,2^64),
                      32-byte prev_tx, scripts without .raw made of cmds_wfb commands, script
                      sizes and witness item lengths < 2^63 (BytesIO.read raises beyond
                      sys.maxsize), input / output / witness item counts < 2^64,
                      witness stacks empty unless t_segwit
     tx_strictb t     tx_wfb t and no empty push in any script
     canon_tx t       canon_cmds in every script
     strip_tx t       the non-witness data (witness stacks emptied, flag cleared)
     nonwitness_eq    equality of strip_tx                                              *)
From V Require Import Base.Prelude Base.Ints Model.Helper Model.Script Model.Tx Model.Fetcher
  Spec.TxWf Proofs.HelperP Proofs.ScriptP Proofs.TxP Proofs.TxidP.

(* ------------------------------------------------------------------ 0. compact sizes *)

(* every width (1, 3, 5, 9 bytes): encode, decode, rest of the stream untouched; the encoding
   is minimal and prefix-free (also C19, restated because C04 quantifies over every width) *)
Theorem C04_varint_roundtrip : forall i rest,
  0 <= i < 18446744073709551616 ->
  exists b, encode_varint i = Ok b /\ read_varint (b ++ rest) = Ok (i, rest) /\
    ((i < 253 /\ length b = 1%nat) \/ (253 <= i < 65536 /\ length b = 3%nat) \/
     (65536 <= i < 4294967296 /\ length b = 5%nat) \/ (4294967296 <= i /\ length b = 9%nat)).
Proof.
  intros i rest H. destruct (varint_roundtrip i rest H) as [b [H1 H2]]. exists b.
  split; [exact H1|]. split; [exact H2|]. exact (varint_width i b H1).
Qed.
Print Assumptions C04_varint_roundtrip.

(* ------------------------------------------------------------------ 1. scripts *)

(* every push length 0..520 (direct 1..75, PUSHDATA1 76..255, PUSHDATA2 256..520), every
   opcode: serialise, then parse = the same commands with .raw unset; the empty push comes
   back as opcode 0 *)
Theorem C04_script_roundtrip : forall cs,
  cmds_wfb cs = true ->
  exists b, ser_cmds cs = Ok b /\ parse_raw b = Ok (mk_script (canon_cmds cs)).
Proof. exact script_roundtrip. Qed.
Print Assumptions C04_script_roundtrip.

Theorem C04_script_roundtrip_strict : forall cs,
  cmds_strictb cs = true ->
  exists b, ser_cmds cs = Ok b /\ parse_raw b = Ok (mk_script cs).
Proof. exact script_roundtrip_strict. Qed.
Print Assumptions C04_script_roundtrip_strict.

(* the normalisation is exactly "empty push = opcode 0" and is invisible on the wire *)
Theorem C04_script_canon : forall cs,
  ser_cmds (canon_cmds cs) = ser_cmds cs /\
  (cmds_strictb cs = true -> canon_cmds cs = cs) /\
  ser_cmd (Push []) = ser_cmd (Op 0).
Proof.
  intros cs. split; [exact (ser_cmds_canon cs)|]. split; [exact (canon_cmds_strict cs)|reflexivity].
Qed.
Print Assumptions C04_script_canon.

(* raw_serialize raises exactly on a push longer than 520 bytes or an int outside [0,255] *)
Theorem C04_script_serialize_fails_iff : forall cs,
  ser_cmds cs = Err <->
  exists c, In c cs /\ match c with Op o => o < 0 \/ 255 < o | Push b => 520 < zlen b end.
Proof. exact ser_cmds_err. Qed.
Print Assumptions C04_script_serialize_fails_iff.

(* non-canonical scripts: when the declared push lengths do not add up to the script length the
   parser keeps the original bytes, and they are what is serialised again *)
Theorem C04_script_raw_fallback : forall raw sc,
  parse_raw raw = Ok sc -> s_raw sc <> None -> s_raw sc = Some raw /\ raw_serialize sc = Ok raw.
Proof. exact parse_raw_fallback. Qed.
Print Assumptions C04_script_raw_fallback.

(* inside a transaction: length-prefixed, followed by anything *)
Theorem C04_script_stream_roundtrip : forall s,
  script_wfb s = true ->
  exists e, serialize_script s = Ok e /\
    forall rest, parse_script (e ++ rest) = Ok (canon_script s, rest).
Proof.
  intros s W. destruct (script_wf_roundtrip s W) as [e [H1 [_ H2]]]. exists e. split; assumption.
Qed.
Print Assumptions C04_script_stream_roundtrip.

Example C04_script_example_lengths :
  forallb (fun n => cmds_strictb [Op 0; Push (repeatz 7 n); Op 172])
          [1; 74; 75; 76; 77; 255; 256; 257; 519; 520]%nat = true /\
  cmds_strictb [Push (repeatz 7 521)] = false /\ cmds_wfb [Push []] = true /\
  cmds_strictb [Op 78] = false.
Proof. vm_compute. repeat split. Qed.

(* ------------------------------------------------------------------ 2. witness, txin, txout, tx *)

Theorem C04_witness_roundtrip : forall items,
  zlen items < 18446744073709551616 ->
  Forall (fun it => zlen it < 9223372036854775808) items ->
  exists b, witness_serialize items = Ok b /\
    forall rest, witness_parse (b ++ rest) = Ok (items, rest).
Proof.
  intros items L F.
  destruct (witness_roundtrip items) as [b [H1 [_ H2]]].
  - unfold lenb. lia.
  - apply forallb_forall. rewrite Forall_forall in F. intros it Hit. specialize (F it Hit).
    unfold len63b. lia.
  - exists b. split; assumption.
Qed.
Print Assumptions C04_witness_roundtrip.

(* TxIn.parse never sets the witness: it comes back empty (Tx.parse_segwit fills it in) *)
Theorem C04_txin_roundtrip : forall i,
  txin_wfb i = true ->
  exists b, txin_serialize i = Ok b /\
    forall rest, txin_parse (b ++ rest) = Ok (strip_in (canon_in i), rest).
Proof.
  intros i W. destruct (txin_roundtrip i W) as [b [H1 [_ H2]]]. exists b. split; assumption.
Qed.
Print Assumptions C04_txin_roundtrip.

(* a scriptPubKey matching a standard pattern is rebuilt as a fresh object without .raw, any
   other is returned as parsed: in both cases the commands are the serialised ones *)
Theorem C04_txout_roundtrip : forall o,
  txout_wfb o = true ->
  exists b, txout_serialize o = Ok b /\
    forall rest, txout_parse (b ++ rest) = Ok (canon_out o, rest).
Proof.
  intros o W. destruct (txout_roundtrip o W) as [b [H1 [_ H2]]]. exists b. split; assumption.
Qed.
Print Assumptions C04_txout_roundtrip.

(* serialise-then-parse reproduces every field (legacy and segwit, any trailing bytes) *)
Theorem C04_tx_roundtrip : forall t,
  tx_strictb t = true -> t_segwit t = true \/ t_ins t <> [] ->
  exists b, tx_serialize t = Ok b /\ forall rest, tx_parse (b ++ rest) = Ok (t, rest).
Proof. exact tx_roundtrip_strict. Qed.
Print Assumptions C04_tx_roundtrip.

(* with empty pushes allowed: every field up to "empty push = opcode 0" *)
Theorem C04_tx_roundtrip_canon : forall t,
  tx_wfb t = true -> t_segwit t = true \/ t_ins t <> [] ->
  exists b, tx_serialize t = Ok b /\ forall rest, tx_parse (b ++ rest) = Ok (canon_tx t, rest).
Proof. exact tx_roundtrip. Qed.
Print Assumptions C04_tx_roundtrip_canon.

(* K-C04-zeroin: the side condition cannot be dropped.  A legacy transaction without inputs
   serialises to bytes whose fifth byte (the input count 0x00) is the segwit marker. *)
Theorem C04_legacy_zero_inputs_refuted :
  exists t, tx_strictb t = true /\ t_segwit t = false /\ t_ins t = [] /\
    exists b, tx_serialize t = Ok b /\ tx_parse b = Err.
Proof. exact legacy_zero_inputs_refuted. Qed.
Print Assumptions C04_legacy_zero_inputs_refuted.

(* the non-witness parser itself has no such restriction *)
Theorem C04_legacy_roundtrip : forall t,
  tx_wfb t = true ->
  exists b, serialize_legacy t = Ok b /\
    forall rest, parse_legacy (b ++ rest) = Ok (strip_tx (canon_tx t), rest).
Proof. exact legacy_roundtrip. Qed.
Print Assumptions C04_legacy_roundtrip.

(* 5. byte level: an encoding produced from a well-formed transaction (minimal compact sizes,
   minimal pushes — the canonical encodings) parses, consuming everything, to a transaction
   that serialises to the same bytes *)
Theorem C04_bytes_roundtrip : forall t b,
  tx_wfb t = true -> t_segwit t = true \/ t_ins t <> [] -> tx_serialize t = Ok b ->
  exists t', tx_parse b = Ok (t', []) /\ tx_serialize t' = Ok b.
Proof. exact bytes_roundtrip. Qed.
Print Assumptions C04_bytes_roundtrip.

(* streams shorter than 5 bytes are rejected (BytesIO.seek clamps; read_varint then fails) *)
Theorem C04_tx_parse_short : forall s, (length s < 5)%nat -> tx_parse s = Err.
Proof. exact tx_parse_short. Qed.
Print Assumptions C04_tx_parse_short.

Definition ex_in (w : list bytes) : txin :=
  {| i_prev_tx := repeatz 171 32; i_prev_index := 4294967295;
     i_script := mk_script [Push (repeatz 48 72); Push (repeatz 2 33)]; i_sequence := 4294967294;
     i_witness := w |}.
Definition ex_out : txout :=
  {| o_amount := 18446744073709551615; o_script := mk_script (p2pkh_script (repeatz 9 20)) |}.
Definition ex_legacy : tx :=
  {| t_version := 1; t_ins := [ex_in []]; t_outs := [ex_out; ex_out]; t_locktime := 500000000;
     t_segwit := false |}.
Definition ex_segwit : tx :=
  {| t_version := 2; t_ins := [ex_in [[]; repeatz 1 80]; ex_in []]; t_outs := [ex_out];
     t_locktime := 0; t_segwit := true |}.
Definition ex_segwit_noin : tx :=
  {| t_version := 2; t_ins := []; t_outs := [ex_out]; t_locktime := 0; t_segwit := true |}.

(* the hypotheses are satisfiable, and the model really computes the round trip *)
Example C04_tx_examples :
  tx_strictb ex_legacy = true /\ tx_strictb ex_segwit = true /\ tx_strictb ex_segwit_noin = true /\
  (b <- tx_serialize ex_legacy ;; tx_parse (b ++ [1; 2])) = Ok (ex_legacy, [1; 2]) /\
  (b <- tx_serialize ex_segwit ;; tx_parse b) = Ok (ex_segwit, []) /\
  (b <- tx_serialize ex_segwit_noin ;; tx_parse b) = Ok (ex_segwit_noin, []).
Proof. vm_compute. repeat split. Qed.

(* ------------------------------------------------------------------ 3. txid *)

(* changing every witness stack and the segwit flag leaves the hash unchanged *)
Theorem C04_txid_ignores_witness : forall (hash256 : bytes -> bytes) t ws sw,
  tx_hash hash256 (with_witness t ws sw) = tx_hash hash256 t.
Proof. exact tx_hash_ignores_witness. Qed.
Print Assumptions C04_txid_ignores_witness.

Theorem C04_txid_nonwitness : forall (hash256 : bytes -> bytes) t1 t2,
  nonwitness_eq t1 t2 -> tx_hash hash256 t1 = tx_hash hash256 t2.
Proof. exact tx_hash_nonwitness. Qed.
Print Assumptions C04_txid_nonwitness.

(* the hash is the byte-reversed hash256 of the witness-stripped serialisation *)
Theorem C04_txid_def : forall (hash256 : bytes -> bytes) t b,
  serialize_legacy t = Ok b ->
  tx_hash hash256 t = Ok (rev (hash256 b)) /\ serialize_legacy (strip_tx t) = Ok b.
Proof.
  intros H t b E. split; [unfold tx_hash; now rewrite E|now rewrite serialize_legacy_strip].
Qed.
Print Assumptions C04_txid_def.

Theorem C04_serialize_legacy_injective : forall t1 t2 b,
  tx_strictb t1 = true -> tx_strictb t2 = true ->
  serialize_legacy t1 = Ok b -> serialize_legacy t2 = Ok b -> nonwitness_eq t1 t2.
Proof. exact serialize_legacy_inj. Qed.
Print Assumptions C04_serialize_legacy_injective.

(* any change to non-witness data changes the txid, or exhibits a hash256 collision *)
Theorem C04_txid_binding : forall (hash256 : bytes -> bytes) t1 t2 h,
  tx_strictb t1 = true -> tx_strictb t2 = true ->
  tx_hash hash256 t1 = Ok h -> tx_hash hash256 t2 = Ok h ->
  nonwitness_eq t1 t2 \/ exists x y, x <> y /\ hash256 x = hash256 y.
Proof. exact txid_binding. Qed.
Print Assumptions C04_txid_binding.

Theorem C04_txid_binding_canon : forall (hash256 : bytes -> bytes) t1 t2 h,
  tx_wfb t1 = true -> tx_wfb t2 = true ->
  tx_hash hash256 t1 = Ok h -> tx_hash hash256 t2 = Ok h ->
  nonwitness_eq (canon_tx t1) (canon_tx t2) \/ exists x y, x <> y /\ hash256 x = hash256 y.
Proof. exact txid_binding_canon. Qed.
Print Assumptions C04_txid_binding_canon.

(* ------------------------------------------------------------------ 4. fetcher *)

(* whatever bytes the server returned: a transaction that is accepted hashes to the id *)
Theorem C04_fetch_integrity : forall (hash256 : bytes -> bytes) raw id t,
  fetch_check hash256 raw id = Ok t -> tx_hash hash256 t = Ok id.
Proof. exact fetch_check_sound. Qed.
Print Assumptions C04_fetch_integrity.

(* the same from the response text on (utf-8, strip, fromhex) and with the textual id *)
Theorem C04_fetch_text_integrity : forall (hash256 : bytes -> bytes) resp id t,
  fetch_text hash256 resp id = Ok t ->
  exists h, tx_hash hash256 t = Ok h /\ hexlify h = id.
Proof.
  intros H resp id t E. apply fetch_text_sound in E. unfold tx_id in E.
  apply bind_ok in E as [h [Hh E]]. exists h. split; [exact Hh|congruence].
Qed.
Print Assumptions C04_fetch_text_integrity.

(* any sequence of fetches (fresh or served from the cache), starting with an empty cache,
   arbitrary responses: every transaction handed out hashes to the id of its call *)
Theorem C04_fetch_history : forall (hash256 : bytes -> bytes) ops,
  Forall2 (fun op o => forall t, o = Ok t -> tx_id hash256 t = Ok (snd op))
          ops (fetch_run hash256 [] ops).
Proof. intros H ops. apply fetch_run_sound. apply cache_ok_nil. Qed.
Print Assumptions C04_fetch_history.

(* the check is not vacuous: an honest response, even followed by trailing bytes, is accepted *)
Theorem C04_fetch_accepts_honest : forall (hash256 : bytes -> bytes) t b trailing id,
  tx_wfb t = true -> t_segwit t = true \/ t_ins t <> [] ->
  tx_serialize t = Ok b -> tx_hash hash256 t = Ok id ->
  fetch_check hash256 (b ++ trailing) id = Ok (canon_tx t).
Proof. exact fetch_check_complete. Qed.
Print Assumptions C04_fetch_accepts_honest.
