(* Props/C04.v — transaction wire codec is lossless; the txid is the witness-stripped hash;
   the fetcher only hands out transactions that hash to the requested id.
   Statements only, each closed by a lemma of Proofs/{ScriptP,TxP,TxidP,TxStreamP,ScriptCanonP,
   TxCanonP,TxBytesOkP,FetcherNetP,TxObsP,FuelP,C04DeepP}.v and followed by
   Print Assumptions.  hash256 is universally quantified (no hypothesis on it; only the three
   textual-id theorems of section 11 carry the explicit premise that it returns byte strings).

   Vocabulary (Spec/TxWf.v):
     cmds_wfb cs      opcodes in {0} u [79,255], pushes of 0..520 bytes
     cmds_strictb cs  the same with pushes of 1..520 bytes
     canon_cmds cs    the empty push replaced by opcode 0 (the wire cannot tell them apart)
     tx_wfb t         version/locktime/prev_index/sequence in [0,2^32), amounts in [0,2^64),
                      32-byte prev_tx, scripts without .raw made of cmds_wfb commands, script
                      sizes and witness item lengths < 2^63 (BytesIO.read raises beyond
                      sys.maxsize), input / output / witness item counts < 2^64,
                      witness stacks empty unless t_segwit
     tx_strictb t     tx_wfb t and no empty push in any script
     canon_tx t       canon_cmds in every script
     strip_tx t       the non-witness data (witness stacks emptied, flag cleared)
     nonwitness_eq    equality of strip_tx                                              *)
From Coq Require Import String.
From V Require Import Base.Prelude Base.Ints Base.Disp Model.Helper Model.Script Model.Tx Model.Fetcher
  Model.TxStream Model.FetcherNet Spec.TxWf Spec.ScriptCanon Spec.TxSmall
  Proofs.HelperP Proofs.ScriptP Proofs.TxP Proofs.TxidP
  Proofs.TxStreamP Proofs.ScriptCanonP Proofs.TxCanonP Proofs.TxBytesOkP Proofs.FetcherNetP
  Proofs.TxObsP Proofs.C04DeepP Proofs.FuelP.

(* ------------------------------------------------------------------ 0. compact sizes *)

(* every width (1, 3, 5, 9 bytes): encode, decode, rest of the stream untouched; the encoding
   is minimal and prefix-free (also C19, restated because C04 quantifies over every width) *)
Theorem C04_varint_roundtrip : forall i rest,
  0 <= i < 18446744073709551616 ->
  exists b, encode_varint i = Ok b /\ read_varint (b ++ rest) = Ok (i, rest) /\
    ((i < 253 /\ length b = 1%nat) \/ (253 <= i < 65536 /\ length b = 3%nat) \/
     (65536 <= i < 4294967296 /\ length b = 5%nat) \/ (4294967296 <= i /\ length b = 9%nat)).
Proof.
  intros i rest H. destruct (varint_roundtrip i rest H) as [b [H1 H2]]. exists b.
  split; [exact H1|]. split; [exact H2|]. exact (varint_width i b H1).
Qed.
Print Assumptions C04_varint_roundtrip.

(* ------------------------------------------------------------------ 1. scripts *)

(* every push length 0..520 (direct 1..75, PUSHDATA1 76..255, PUSHDATA2 256..520), every
   opcode: serialise, then parse = the same commands with .raw unset; the empty push comes
   back as opcode 0 *)
Theorem C04_script_roundtrip : forall cs,
  cmds_wfb cs = true ->
  exists b, ser_cmds cs = Ok b /\ parse_raw b = Ok (mk_script (canon_cmds cs)).
Proof. exact script_roundtrip. Qed.
Print Assumptions C04_script_roundtrip.

Theorem C04_script_roundtrip_strict : forall cs,
  cmds_strictb cs = true ->
  exists b, ser_cmds cs = Ok b /\ parse_raw b = Ok (mk_script cs).
Proof. exact script_roundtrip_strict. Qed.
Print Assumptions C04_script_roundtrip_strict.

(* the normalisation is exactly "empty push = opcode 0" and is invisible on the wire *)
Theorem C04_script_canon : forall cs,
  ser_cmds (canon_cmds cs) = ser_cmds cs /\
  (cmds_strictb cs = true -> canon_cmds cs = cs) /\
  ser_cmd (Push []) = ser_cmd (Op 0).
Proof.
  intros cs. split; [exact (ser_cmds_canon cs)|]. split; [exact (canon_cmds_strict cs)|reflexivity].
Qed.
Print Assumptions C04_script_canon.

(* raw_serialize raises exactly on a push longer than 520 bytes or an int outside [0,255] *)
Theorem C04_script_serialize_fails_iff : forall cs,
  ser_cmds cs = Err <->
  exists c, In c cs /\ match c with Op o => o < 0 \/ 255 < o | Push b => 520 < zlen b end.
Proof. exact ser_cmds_err. Qed.
Print Assumptions C04_script_serialize_fails_iff.

(* non-canonical scripts: when the declared push lengths do not add up to the script length the
   parser keeps the original bytes, and they are what is serialised again *)
Theorem C04_script_raw_fallback : forall raw sc,
  parse_raw raw = Ok sc -> s_raw sc <> None -> s_raw sc = Some raw /\ raw_serialize sc = Ok raw.
Proof. exact parse_raw_fallback. Qed.
Print Assumptions C04_script_raw_fallback.

(* inside a transaction: length-prefixed, followed by anything *)
Theorem C04_script_stream_roundtrip : forall s,
  script_wfb s = true ->
  exists e, serialize_script s = Ok e /\
    forall rest, parse_script (e ++ rest) = Ok (canon_script s, rest).
Proof.
  intros s W. destruct (script_wf_roundtrip s W) as [e [H1 [_ H2]]]. exists e. split; assumption.
Qed.
Print Assumptions C04_script_stream_roundtrip.

Example C04_script_example_lengths :
  forallb (fun n => cmds_strictb [Op 0; Push (repeatz 7 n); Op 172])
          [1; 74; 75; 76; 77; 255; 256; 257; 519; 520]%nat = true /\
  cmds_strictb [Push (repeatz 7 521)] = false /\ cmds_wfb [Push []] = true /\
  cmds_strictb [Op 78] = false.
Proof. vm_compute. repeat split. Qed.

(* ------------------------------------------------------------------ 2. witness, txin, txout, tx *)

Theorem C04_witness_roundtrip : forall items,
  zlen items < 18446744073709551616 ->
  Forall (fun it => zlen it < 9223372036854775808) items ->
  exists b, witness_serialize items = Ok b /\
    forall rest, witness_parse (b ++ rest) = Ok (items, rest).
Proof.
  intros items L F.
  destruct (witness_roundtrip items) as [b [H1 [_ H2]]].
  - unfold lenb. lia.
  - apply forallb_forall. rewrite Forall_forall in F. intros it Hit. specialize (F it Hit).
    unfold len63b. lia.
  - exists b. split; assumption.
Qed.
Print Assumptions C04_witness_roundtrip.

(* TxIn.parse never sets the witness: it comes back empty (Tx.parse_segwit fills it in) *)
Theorem C04_txin_roundtrip : forall i,
  txin_wfb i = true ->
  exists b, txin_serialize i = Ok b /\
    forall rest, txin_parse (b ++ rest) = Ok (strip_in (canon_in i), rest).
Proof.
  intros i W. destruct (txin_roundtrip i W) as [b [H1 [_ H2]]]. exists b. split; assumption.
Qed.
Print Assumptions C04_txin_roundtrip.

(* a scriptPubKey matching a standard pattern is rebuilt as a fresh object without .raw, any
   other is returned as parsed: in both cases the commands are the serialised ones *)
Theorem C04_txout_roundtrip : forall o,
  txout_wfb o = true ->
  exists b, txout_serialize o = Ok b /\
    forall rest, txout_parse (b ++ rest) = Ok (canon_out o, rest).
Proof.
  intros o W. destruct (txout_roundtrip o W) as [b [H1 [_ H2]]]. exists b. split; assumption.
Qed.
Print Assumptions C04_txout_roundtrip.

(* serialise-then-parse reproduces every field (legacy and segwit, any trailing bytes) *)
Theorem C04_tx_roundtrip : forall t,
  tx_strictb t = true -> t_segwit t = true \/ t_ins t <> [] ->
  exists b, tx_serialize t = Ok b /\ forall rest, tx_parse (b ++ rest) = Ok (t, rest).
Proof. exact tx_roundtrip_strict. Qed.
Print Assumptions C04_tx_roundtrip.

(* with empty pushes allowed: every field up to "empty push = opcode 0" *)
Theorem C04_tx_roundtrip_canon : forall t,
  tx_wfb t = true -> t_segwit t = true \/ t_ins t <> [] ->
  exists b, tx_serialize t = Ok b /\ forall rest, tx_parse (b ++ rest) = Ok (canon_tx t, rest).
Proof. exact tx_roundtrip. Qed.
Print Assumptions C04_tx_roundtrip_canon.

(* K-C04-zeroin: the side condition cannot be dropped.  A legacy transaction without inputs
   serialises to bytes whose fifth byte (the input count 0x00) is the segwit marker. *)
Theorem C04_legacy_zero_inputs_refuted :
  exists t, tx_strictb t = true /\ t_segwit t = false /\ t_ins t = [] /\
    exists b, tx_serialize t = Ok b /\ tx_parse b = Err.
Proof. exact legacy_zero_inputs_refuted. Qed.
Print Assumptions C04_legacy_zero_inputs_refuted.

(* the non-witness parser itself has no such restriction *)
Theorem C04_legacy_roundtrip : forall t,
  tx_wfb t = true ->
  exists b, serialize_legacy t = Ok b /\
    forall rest, parse_legacy (b ++ rest) = Ok (strip_tx (canon_tx t), rest).
Proof. exact legacy_roundtrip. Qed.
Print Assumptions C04_legacy_roundtrip.

(* 5. byte level: an encoding produced from a well-formed transaction (minimal compact sizes,
   minimal pushes — the canonical encodings) parses, consuming everything, to a transaction
   that serialises to the same bytes *)
Theorem C04_bytes_roundtrip : forall t b,
  tx_wfb t = true -> t_segwit t = true \/ t_ins t <> [] -> tx_serialize t = Ok b ->
  exists t', tx_parse b = Ok (t', []) /\ tx_serialize t' = Ok b.
Proof. exact bytes_roundtrip. Qed.
Print Assumptions C04_bytes_roundtrip.

(* streams shorter than 5 bytes are rejected (BytesIO.seek clamps; read_varint then fails) *)
Theorem C04_tx_parse_short : forall s, (length s < 5)%nat -> tx_parse s = Err.
Proof. exact tx_parse_short. Qed.
Print Assumptions C04_tx_parse_short.

Definition ex_in (w : list bytes) : txin :=
  {| i_prev_tx := repeatz 171 32; i_prev_index := 4294967295;
     i_script := mk_script [Push (repeatz 48 72); Push (repeatz 2 33)]; i_sequence := 4294967294;
     i_witness := w |}.
Definition ex_out : txout :=
  {| o_amount := 18446744073709551615; o_script := mk_script (p2pkh_script (repeatz 9 20)) |}.
Definition ex_legacy : tx :=
  {| t_version := 1; t_ins := [ex_in []]; t_outs := [ex_out; ex_out]; t_locktime := 500000000;
     t_segwit := false |}.
Definition ex_segwit : tx :=
  {| t_version := 2; t_ins := [ex_in [[]; repeatz 1 80]; ex_in []]; t_outs := [ex_out];
     t_locktime := 0; t_segwit := true |}.
Definition ex_segwit_noin : tx :=
  {| t_version := 2; t_ins := []; t_outs := [ex_out]; t_locktime := 0; t_segwit := true |}.

(* the hypotheses are satisfiable, and the model really computes the round trip *)
Example C04_tx_examples :
  tx_strictb ex_legacy = true /\ tx_strictb ex_segwit = true /\ tx_strictb ex_segwit_noin = true /\
  (b <- tx_serialize ex_legacy ;; tx_parse (b ++ [1; 2])) = Ok (ex_legacy, [1; 2]) /\
  (b <- tx_serialize ex_segwit ;; tx_parse b) = Ok (ex_segwit, []) /\
  (b <- tx_serialize ex_segwit_noin ;; tx_parse b) = Ok (ex_segwit_noin, []).
Proof. vm_compute. repeat split. Qed.

(* ------------------------------------------------------------------ 3. txid *)

(* changing every witness stack and the segwit flag leaves the hash unchanged *)
Theorem C04_txid_ignores_witness : forall (hash256 : bytes -> bytes) t ws sw,
  tx_hash hash256 (with_witness t ws sw) = tx_hash hash256 t.
Proof. exact tx_hash_ignores_witness. Qed.
Print Assumptions C04_txid_ignores_witness.

Theorem C04_txid_nonwitness : forall (hash256 : bytes -> bytes) t1 t2,
  nonwitness_eq t1 t2 -> tx_hash hash256 t1 = tx_hash hash256 t2.
Proof. exact tx_hash_nonwitness. Qed.
Print Assumptions C04_txid_nonwitness.

(* the hash is the byte-reversed hash256 of the witness-stripped serialisation *)
Theorem C04_txid_def : forall (hash256 : bytes -> bytes) t b,
  serialize_legacy t = Ok b ->
  tx_hash hash256 t = Ok (rev (hash256 b)) /\ serialize_legacy (strip_tx t) = Ok b.
Proof.
  intros H t b E. split; [unfold tx_hash; now rewrite E|now rewrite serialize_legacy_strip].
Qed.
Print Assumptions C04_txid_def.

Theorem C04_serialize_legacy_injective : forall t1 t2 b,
  tx_strictb t1 = true -> tx_strictb t2 = true ->
  serialize_legacy t1 = Ok b -> serialize_legacy t2 = Ok b -> nonwitness_eq t1 t2.
Proof. exact serialize_legacy_inj. Qed.
Print Assumptions C04_serialize_legacy_injective.

(* any change to non-witness data changes the txid, or exhibits a hash256 collision *)
Theorem C04_txid_binding : forall (hash256 : bytes -> bytes) t1 t2 h,
  tx_strictb t1 = true -> tx_strictb t2 = true ->
  tx_hash hash256 t1 = Ok h -> tx_hash hash256 t2 = Ok h ->
  nonwitness_eq t1 t2 \/ exists x y, x <> y /\ hash256 x = hash256 y.
Proof. exact txid_binding. Qed.
Print Assumptions C04_txid_binding.

Theorem C04_txid_binding_canon : forall (hash256 : bytes -> bytes) t1 t2 h,
  tx_wfb t1 = true -> tx_wfb t2 = true ->
  tx_hash hash256 t1 = Ok h -> tx_hash hash256 t2 = Ok h ->
  nonwitness_eq (canon_tx t1) (canon_tx t2) \/ exists x y, x <> y /\ hash256 x = hash256 y.
Proof. exact txid_binding_canon. Qed.
Print Assumptions C04_txid_binding_canon.

(* ------------------------------------------------------------------ 4. fetcher *)

(* whatever bytes the server returned: a transaction that is accepted hashes to the id *)
Theorem C04_fetch_integrity : forall (hash256 : bytes -> bytes) raw id t,
  fetch_check hash256 raw id = Ok t -> tx_hash hash256 t = Ok id.
Proof. exact fetch_check_sound. Qed.
Print Assumptions C04_fetch_integrity.

(* the same from the response text on (utf-8, strip, fromhex) and with the textual id *)
Theorem C04_fetch_text_integrity : forall (hash256 : bytes -> bytes) resp id t,
  fetch_text hash256 resp id = Ok t ->
  exists h, tx_hash hash256 t = Ok h /\ hexlify h = id.
Proof.
  intros H resp id t E. apply fetch_text_sound in E. unfold tx_id in E.
  apply bind_ok in E as [h [Hh E]]. exists h. split; [exact Hh|congruence].
Qed.
Print Assumptions C04_fetch_text_integrity.

(* any sequence of fetches (fresh or served from the cache), starting with an empty cache,
   arbitrary responses: every transaction handed out hashes to the id of its call *)
Theorem C04_fetch_history : forall (hash256 : bytes -> bytes) ops,
  Forall2 (fun op o => forall t, o = Ok t -> tx_id hash256 t = Ok (snd op))
          ops (fetch_run hash256 [] ops).
Proof. intros H ops. apply fetch_run_sound. apply cache_ok_nil. Qed.
Print Assumptions C04_fetch_history.

(* the check is not vacuous: an honest response, even followed by trailing bytes, is accepted *)
Theorem C04_fetch_accepts_honest : forall (hash256 : bytes -> bytes) t b trailing id,
  tx_wfb t = true -> t_segwit t = true \/ t_ins t <> [] ->
  tx_serialize t = Ok b -> tx_hash hash256 t = Ok id ->
  fetch_check hash256 (b ++ trailing) id = Ok (canon_tx t).
Proof. exact fetch_check_complete. Qed.
Print Assumptions C04_fetch_accepts_honest.

(* ======================================================================================
   DEEPENING (sections 6-10).  Additional vocabulary:
     Model/TxStream.v    stream = (buffer, position); st_read / st_seek_cur = BytesIO.read /
                         seek(off, 1) with clamping; tx_parse_st = Tx.parse with its
                         read(4); read(1); seek(-5, 1); st_run p = a forward-only parser p run at
                         the current position; st_at pre s = the stream pre ++ s positioned on s
     Spec/ScriptCanon.v  canon_script_bytes / canon_tx_bytes: an independent grammar of the
                         canonical encodings (minimal pushes, minimal compact sizes, BIP144)
     Spec/TxSmall.v      tx_smallb (counts and lengths <= MAX_SIZE), tx_bytesb (data are bytes)
     Model/FetcherNet.v  TxFetcher.fetch with its network argument, URL and id-keyed cache
   ====================================================================================== *)

(* ------------------------------------------------------------------ 6. anywhere in a stream *)

(* Tx.parse steps back with seek(-5, 1) after sniffing the marker.  On EVERY stream, at EVERY
   position (also one beyond the end), it returns what the forward-only function tx_parse returns
   on the remaining bytes and leaves the position right behind what tx_parse consumed: the step
   back never reaches bytes before the object (with fewer than 5 bytes left it does, and then
   both sides fail). *)
Theorem C04_tx_parse_position_independent : forall st, tx_parse_st st = st_run tx_parse st.
Proof. exact tx_parse_st_run. Qed.
Print Assumptions C04_tx_parse_position_independent.

Theorem C04_tx_parse_at : forall pre s,
  tx_parse_st (st_at pre s) =
  '(t, r) <- tx_parse s ;;
  Ok (t, {| st_data := pre ++ s; st_pos := (length pre + (length s - length r))%nat |}).
Proof. exact tx_parse_at. Qed.
Print Assumptions C04_tx_parse_at.

(* parse (pre ++ serialize t ++ rest), positioned after pre, returns t and leaves exactly rest *)
Theorem C04_tx_mid_stream : forall t,
  tx_strictb t = true -> t_segwit t = true \/ t_ins t <> [] ->
  exists b, tx_serialize t = Ok b /\
    forall pre rest, tx_parse_st (st_at pre (b ++ rest)) = Ok (t, st_at (pre ++ b) rest).
Proof. exact tx_mid_stream_strict. Qed.
Print Assumptions C04_tx_mid_stream.

Theorem C04_tx_mid_stream_canon : forall t,
  tx_wfb t = true -> t_segwit t = true \/ t_ins t <> [] ->
  exists b, tx_serialize t = Ok b /\
    forall pre rest, tx_parse_st (st_at pre (b ++ rest)) = Ok (canon_tx t, st_at (pre ++ b) rest).
Proof. exact tx_mid_stream. Qed.
Print Assumptions C04_tx_mid_stream_canon.

Theorem C04_legacy_mid_stream : forall t,
  tx_wfb t = true ->
  exists b, serialize_legacy t = Ok b /\
    forall pre rest,
      st_run parse_legacy (st_at pre (b ++ rest)) = Ok (strip_tx (canon_tx t), st_at (pre ++ b) rest).
Proof. exact legacy_mid_stream. Qed.
Print Assumptions C04_legacy_mid_stream.

(* TxIn, TxOut, Script, ScriptPubKey, Witness, compact size, var-string: forward-only readers *)
Theorem C04_parts_mid_stream :
  (forall i, txin_wfb i = true -> exists b, txin_serialize i = Ok b /\ forall pre rest,
     st_run txin_parse (st_at pre (b ++ rest)) = Ok (strip_in (canon_in i), st_at (pre ++ b) rest)) /\
  (forall o, txout_wfb o = true -> exists b, txout_serialize o = Ok b /\ forall pre rest,
     st_run txout_parse (st_at pre (b ++ rest)) = Ok (canon_out o, st_at (pre ++ b) rest)) /\
  (forall s, script_wfb s = true -> exists b, serialize_script s = Ok b /\ forall pre rest,
     st_run parse_script (st_at pre (b ++ rest)) = Ok (canon_script s, st_at (pre ++ b) rest) /\
     st_run parse_script_pubkey (st_at pre (b ++ rest)) = Ok (canon_script s, st_at (pre ++ b) rest)) /\
  (forall items, lenb items = true -> forallb (fun it => len63b it) items = true ->
     exists b, witness_serialize items = Ok b /\ forall pre rest,
     st_run witness_parse (st_at pre (b ++ rest)) = Ok (items, st_at (pre ++ b) rest)) /\
  (forall n, 0 <= n < 18446744073709551616 -> exists b, encode_varint n = Ok b /\ forall pre rest,
     st_run read_varint (st_at pre (b ++ rest)) = Ok (n, st_at (pre ++ b) rest)) /\
  (forall d, zlen d < 9223372036854775808 -> exists b, encode_varstr d = Ok b /\ forall pre rest,
     st_run read_varstr (st_at pre (b ++ rest)) = Ok (d, st_at (pre ++ b) rest)).
Proof. exact parts_mid_stream. Qed.
Print Assumptions C04_parts_mid_stream.

(* any number of transactions back to back (as in a block), behind any prefix *)
Theorem C04_tx_sequence : forall ts,
  Forall (fun t => tx_strictb t = true /\ (t_segwit t = true \/ t_ins t <> [])) ts ->
  exists b, ser_txs ts = Ok b /\
    forall pre rest, tx_parse_seq (length ts) (st_at pre (b ++ rest)) = Ok (ts, st_at (pre ++ b) rest).
Proof. exact tx_sequence. Qed.
Print Assumptions C04_tx_sequence.

Example C04_stream_examples :
  (b1 <- tx_serialize ex_legacy ;; b2 <- tx_serialize ex_segwit ;;
   tx_parse_seq 3 (st_at [0; 1; 0] (b1 ++ b2 ++ b1 ++ [0; 0; 0; 0; 0; 1]))) =
  (b1 <- tx_serialize ex_legacy ;; b2 <- tx_serialize ex_segwit ;;
   Ok ([ex_legacy; ex_segwit; ex_legacy], st_at ([0; 1; 0] ++ b1 ++ b2 ++ b1) [0; 0; 0; 0; 0; 1])) /\
  (* fewer than five bytes left: the step back goes into the prefix, and the call fails *)
  tx_parse_st (st_at [1; 0; 0; 0; 1; 7; 7; 7] [1; 0; 0]) = Err /\
  tx_parse_st {| st_data := [1; 0; 0; 0; 0; 1; 0; 0; 0; 0; 0; 0]; st_pos := 14 |} = Err.
Proof. vm_compute. repeat split. Qed.

(* ------------------------------------------------------------------ 7. canonical encodings *)

(* the three length classes of raw_serialize, with the boundaries 75/76, 255/256, 520/521 *)
Theorem C04_push_encoding : forall d,
  (zlen d <= 75 -> ser_cmd (Push d) = Ok (zlen d :: d)) /\
  (76 <= zlen d <= 255 -> ser_cmd (Push d) = Ok (76 :: zlen d :: d)) /\
  (256 <= zlen d <= 520 -> ser_cmd (Push d) = Ok (77 :: zlen d mod 256 :: zlen d / 256 :: d)) /\
  (521 <= zlen d -> ser_cmd (Push d) = Err).
Proof. exact push_encoding. Qed.
Print Assumptions C04_push_encoding.

(* the parser takes every push form, minimal or not, of any length the form can express *)
Theorem C04_push_forms_parse : forall d,
  (1 <= zlen d <= 75 -> parse_raw (zlen d :: d) = Ok (mk_script [Push d])) /\
  (zlen d < 256 -> parse_raw (76 :: zlen d :: d) = Ok (mk_script [Push d])) /\
  (zlen d < 65536 -> parse_raw (77 :: to_le 2 (zlen d) ++ d) = Ok (mk_script [Push d])) /\
  (zlen d < 4294967296 -> parse_raw (78 :: to_le 4 (zlen d) ++ d) = Ok (mk_script [Push d])).
Proof. exact push_forms_parse. Qed.
Print Assumptions C04_push_forms_parse.

(* the independent grammar of canonical script bytes = the image of raw_serialize on strict
   command lists *)
Theorem C04_script_canonical_iff : forall raw,
  canon_script_bytes raw <-> exists cs, cmds_strictb cs = true /\ ser_cmds cs = Ok raw.
Proof. exact canon_bytes_iff. Qed.
Print Assumptions C04_script_canonical_iff.

(* the converse of the script round trip, for ALL byte strings:
   Script.parse(raw=b).raw_serialize() == b  iff  b is canonical or the parser kept b in .raw *)
Theorem C04_script_reserialize_iff : forall raw sc,
  parse_raw raw = Ok sc ->
  (raw_serialize sc = Ok raw <-> s_raw sc <> None \/ canon_script_bytes raw).
Proof. exact reserialize_iff. Qed.
Print Assumptions C04_script_reserialize_iff.

Theorem C04_script_bytes_roundtrip : forall raw,
  canon_script_bytes raw ->
  exists sc, parse_raw raw = Ok sc /\ s_raw sc = None /\ cmds_strictb (s_cmds sc) = true /\
             raw_serialize sc = Ok raw.
Proof. exact script_bytes_roundtrip. Qed.
Print Assumptions C04_script_bytes_roundtrip.

(* FIRST CLAUSE OF C04 against the independent definition: every canonically encoded legacy or
   segwit transaction, followed by anything, parses to a transaction that consumes exactly the
   encoding and serialises to exactly the same bytes *)
Theorem C04_canonical_tx_roundtrip : forall b,
  canon_tx_bytes b ->
  exists t, tx_strictb t = true /\ tx_serialize t = Ok b /\
            forall rest, tx_parse (b ++ rest) = Ok (t, rest).
Proof. exact canon_tx_bytes_roundtrip. Qed.
Print Assumptions C04_canonical_tx_roundtrip.

Theorem C04_canonical_tx_reserialize : forall b t rest,
  canon_tx_bytes b -> tx_parse (b ++ rest) = Ok (t, rest) -> tx_serialize t = Ok b.
Proof. exact canon_tx_bytes_reserialize. Qed.
Print Assumptions C04_canonical_tx_reserialize.

Theorem C04_canonical_tx_mid_stream : forall b,
  canon_tx_bytes b ->
  exists t, tx_strictb t = true /\ tx_serialize t = Ok b /\
    forall pre rest, tx_parse_st (st_at pre (b ++ rest)) = Ok (t, st_at (pre ++ b) rest).
Proof. exact canonical_tx_mid_stream. Qed.
Print Assumptions C04_canonical_tx_mid_stream.

(* conversely the serialisers emit canonical encodings (counts and lengths within MAX_SIZE), so
   the grammar describes exactly their image *)
Theorem C04_serialize_is_canonical : forall t b,
  tx_wfb t = true -> tx_smallb t = true -> t_segwit t = true \/ t_ins t <> [] ->
  tx_serialize t = Ok b -> canon_tx_bytes b.
Proof. exact tx_serialize_canon_bytes. Qed.
Print Assumptions C04_serialize_is_canonical.

Example C04_canonical_examples :
  (exists b, tx_serialize ex_legacy = Ok b /\ canon_tx_bytes b) /\
  (exists b, tx_serialize ex_segwit = Ok b /\ canon_tx_bytes b) /\
  (exists b, tx_serialize ex_segwit_noin = Ok b /\ canon_tx_bytes b) /\
  ~ canon_script_bytes [76; 1; 7] /\ ~ canon_script_bytes (77 :: 75 :: 0 :: repeatz 7 75) /\
  canon_script_bytes (75 :: repeatz 7 75) /\ canon_script_bytes (76 :: 76 :: repeatz 7 76).
Proof.
  split; [|split; [|split]].
  - eexists. split; [vm_compute; reflexivity|].
    eapply (tx_serialize_canon_bytes ex_legacy); try reflexivity. right. discriminate.
  - eexists. split; [vm_compute; reflexivity|].
    eapply (tx_serialize_canon_bytes ex_segwit); try reflexivity. left. reflexivity.
  - eexists. split; [vm_compute; reflexivity|].
    eapply (tx_serialize_canon_bytes ex_segwit_noin); try reflexivity. left. reflexivity.
  - split; [|split; [|split]].
    + intros C.
      assert (raw_serialize (mk_script [Push [7]]) = Ok [76; 1; 7]) as X
        by (apply (proj2 (reserialize_iff [76; 1; 7] (mk_script [Push [7]]) eq_refl)); right; exact C).
      vm_compute in X. discriminate.
    + intros C.
      assert (parse_raw (77 :: 75 :: 0 :: repeatz 7 75) = Ok (mk_script [Push (repeatz 7 75)])) as P
        by (vm_compute; reflexivity).
      assert (raw_serialize (mk_script [Push (repeatz 7 75)]) = Ok (77 :: 75 :: 0 :: repeatz 7 75)) as X
        by (apply (proj2 (reserialize_iff _ _ P)); right; exact C).
      vm_compute in X. discriminate.
    + apply (cmds_canon_bytes [Push (repeatz 7 75)]); vm_compute; reflexivity.
    + apply (cmds_canon_bytes [Push (repeatz 7 76)]); vm_compute; reflexivity.
Qed.

(* ------------------------------------------------------------------ 8. parser choice; limits *)

Theorem C04_marker_dispatch : forall s,
  (nth_error s 4 = Some 0 -> tx_parse s = parse_segwit s) /\
  (nth_error s 4 <> Some 0 -> tx_parse s = parse_legacy s).
Proof. exact marker_dispatch. Qed.
Print Assumptions C04_marker_dispatch.

(* a parsed transaction is flagged segwit exactly when byte 5 was 0x00 (and then byte 6 is 0x01) *)
Theorem C04_parsed_segwit_iff : forall s t r,
  tx_parse s = Ok (t, r) ->
  (t_segwit t = true <-> nth_error s 4 = Some 0) /\ (t_segwit t = true -> nth_error s 5 = Some 1).
Proof. exact parsed_segwit_iff. Qed.
Print Assumptions C04_parsed_segwit_iff.

(* K-C04-zeroin in general: the legacy serialisation of ANY transaction without inputs goes to
   the segwit parser and is rejected unless there is exactly one output ... *)
Theorem C04_legacy_zero_inputs_general : forall t b,
  tx_wfb t = true -> t_segwit t = false -> t_ins t = [] -> tx_serialize t = Ok b ->
  tx_parse b = parse_segwit b /\ (length (t_outs t) <> 1%nat -> tx_parse b = Err).
Proof. exact legacy_zero_inputs_general. Qed.
Print Assumptions C04_legacy_zero_inputs_general.

(* ... and with exactly one output it can be MISPARSED silently (an empty segwit transaction and
   leftover bytes) *)
Theorem C04_legacy_zero_inputs_misparse :
  tx_strictb zero_in_tx2 = true /\
  exists b t' rest, tx_serialize zero_in_tx2 = Ok b /\ tx_parse b = Ok (t', rest) /\
    t' <> zero_in_tx2 /\ rest <> [] /\ t_outs t' = [] /\ t_segwit t' = true.
Proof. exact legacy_zero_inputs_misparse. Qed.
Print Assumptions C04_legacy_zero_inputs_misparse.

(* outside the canonical encodings the bytes are NOT reproduced (all replayed on /repo): *)
Theorem C04_nonminimal_push_refuted :
  exists raw sc raw', parse_raw raw = Ok sc /\ s_raw sc = None /\
    raw_serialize sc = Ok raw' /\ raw' <> raw.
Proof. exact nonminimal_push_refuted. Qed.
Print Assumptions C04_nonminimal_push_refuted.

Theorem C04_big_push_refuted :
  exists sc, parse_raw big_push_raw = Ok sc /\ s_raw sc = None /\ raw_serialize sc = Err.
Proof. exact big_push_refuted. Qed.
Print Assumptions C04_big_push_refuted.

(* a transaction with a 521-byte push in an output is parsed, but serialize()/hash()/id() raise *)
Theorem C04_big_push_tx_refuted :
  exists t, tx_parse big_push_tx_bytes = Ok (t, []) /\ tx_serialize t = Err /\
    forall hash256 : bytes -> bytes, tx_hash hash256 t = Err.
Proof. exact big_push_tx_refuted. Qed.
Print Assumptions C04_big_push_tx_refuted.

(* a stream that ends inside the locktime is accepted (silent short read) *)
Theorem C04_truncated_accepted_refuted :
  exists t b, tx_parse trunc_tx_bytes = Ok (t, []) /\ tx_serialize t = Ok b /\
    b = trunc_tx_bytes ++ [0; 0] /\ b <> trunc_tx_bytes.
Proof. exact truncated_accepted_refuted. Qed.
Print Assumptions C04_truncated_accepted_refuted.

Theorem C04_varint_noncanonical_refuted :
  read_varint [253; 5; 0] = Ok (5, []) /\ read_varint [253; 5] = Ok (5, []) /\
  read_varint [254] = Ok (0, []) /\ encode_varint 5 = Ok [5].
Proof. exact varint_noncanonical_refuted. Qed.
Print Assumptions C04_varint_noncanonical_refuted.

(* the id of every well-formed transaction exists, and it moves with the non-witness data *)
Theorem C04_tx_hash_total : forall (hash256 : bytes -> bytes) t,
  tx_wfb t = true -> exists b, serialize_legacy t = Ok b /\ tx_hash hash256 t = Ok (rev (hash256 b)).
Proof. exact tx_hash_total. Qed.
Print Assumptions C04_tx_hash_total.

Theorem C04_txid_changes : forall (hash256 : bytes -> bytes) t1 t2 h1 h2,
  tx_strictb t1 = true -> tx_strictb t2 = true -> ~ nonwitness_eq t1 t2 ->
  tx_hash hash256 t1 = Ok h1 -> tx_hash hash256 t2 = Ok h2 ->
  h1 <> h2 \/ exists x y, x <> y /\ hash256 x = hash256 y.
Proof. exact txid_changes. Qed.
Print Assumptions C04_txid_changes.

(* ------------------------------------------------------------------ 9. other entry points *)

(* the serialisation of a transaction whose data are byte strings is a byte string *)
Theorem C04_serialize_bytes_ok : forall t b,
  tx_wfb t = true -> tx_bytesb t = true -> tx_serialize t = Ok b -> bytes_ok b.
Proof. exact tx_serialize_bytes. Qed.
Print Assumptions C04_serialize_bytes_ok.

Theorem C04_clone : forall t,
  tx_wfb t = true -> t_segwit t = true \/ t_ins t <> [] -> tx_clone t = Ok (canon_tx t).
Proof. exact tx_clone_wf. Qed.
Print Assumptions C04_clone.

(* Tx.parse_hex(tx.serialize().hex()) *)
Theorem C04_parse_hex : forall t b,
  tx_wfb t = true -> tx_bytesb t = true -> t_segwit t = true \/ t_ins t <> [] ->
  tx_serialize t = Ok b -> tx_parse_hex (hexlify b) = Ok (canon_tx t).
Proof. exact parse_hex_api. Qed.
Print Assumptions C04_parse_hex.

Theorem C04_fromhex_hexlify : forall b, bytes_ok b -> fromhex (hexlify b) = Ok b.
Proof. exact fromhex_hexlify. Qed.
Print Assumptions C04_fromhex_hexlify.

(* Script(a) + Script(b) serialises as the two serialisations one after the other, and that
   parses to the concatenated commands *)
Theorem C04_script_add : forall a b,
  cmds_wfb (s_cmds a) = true -> cmds_wfb (s_cmds b) = true ->
  exists x y, ser_cmds (s_cmds a) = Ok x /\ ser_cmds (s_cmds b) = Ok y /\
    raw_serialize (script_add a b) = Ok (x ++ y) /\
    parse_raw (x ++ y) = Ok (mk_script (canon_cmds (s_cmds a) ++ canon_cmds (s_cmds b))).
Proof. exact script_add_roundtrip. Qed.
Print Assumptions C04_script_add.

(* Script == compares the commands only; a script parsed from its serialisation == the original *)
Theorem C04_script_eq : forall a b, script_eqb a b = true <-> s_cmds a = s_cmds b.
Proof. exact script_eqb_spec. Qed.
Print Assumptions C04_script_eq.

Theorem C04_script_eq_roundtrip : forall cs,
  cmds_wfb cs = true ->
  exists b sc, ser_cmds cs = Ok b /\ parse_raw b = Ok sc /\
    script_eqb sc (mk_script (canon_cmds cs)) = true /\
    (cmds_strictb cs = true -> script_eqb sc (mk_script cs) = true).
Proof. exact script_eq_roundtrip. Qed.
Print Assumptions C04_script_eq_roundtrip.

Example C04_api_examples :
  tx_bytesb ex_legacy = true /\ tx_bytesb ex_segwit = true /\ tx_smallb ex_segwit = true /\
  tx_clone ex_segwit = Ok ex_segwit /\
  (b <- tx_serialize ex_legacy ;; tx_parse_hex (hexlify b)) = Ok ex_legacy.
Proof. vm_compute. repeat split. Qed.

(* ------------------------------------------------------------------ 10. fetcher and networks *)

(* one call, any cache satisfying the invariant, any response / network name / freshness: what is
   returned hashes to the requested id and carries the requested network *)
Theorem C04_fetch_net_history : forall (hash256 : bytes -> bytes) ops,
  Forall2 (fun op o => forall t n, fst o = Ok (t, n) ->
             tx_id hash256 t = Ok (snd (fst op)) /\ n = snd op)
          ops (fetch_net_run hash256 [] ops).
Proof. exact fetch_net_history. Qed.
Print Assumptions C04_fetch_net_history.

(* an unknown network is refused before any request and nothing is cached (miss or fresh) *)
Theorem C04_fetch_unknown_network : forall (hash256 : bytes -> bytes) c fresh resp id net,
  get_url net = Err -> fresh = true \/ nlookup c id = None ->
  fetch_net_step hash256 c fresh resp id net = (c, Err, None).
Proof. exact fetch_net_unknown. Qed.
Print Assumptions C04_fetch_unknown_network.

(* the cache is keyed by the id ONLY: a cached id is served, without a request and without looking
   at the network name, to a non-fresh call on any network (integrity is not affected: see
   C04_fetch_net_history) *)
Theorem C04_fetch_cache_hit_any_network : forall (hash256 : bytes -> bytes) c resp id net t n0,
  nlookup c id = Some (t, n0) ->
  fetch_net_step hash256 c false resp id net = ((id, (t, net)) :: c, Ok (t, net), None).
Proof. exact fetch_net_hit. Qed.
Print Assumptions C04_fetch_cache_hit_any_network.

Theorem C04_fetch_miss_request : forall (hash256 : bytes -> bytes) c fresh resp id net base,
  get_url net = Ok base -> fresh = true \/ nlookup c id = None ->
  fetch_net_step hash256 c fresh resp id net =
  match fetch_text hash256 resp id with
  | Ok t => ((id, (t, net)) :: c, Ok (t, net), Some (fetch_url base id))
  | Err => (c, Err, Some (fetch_url base id))
  end.
Proof. exact fetch_net_miss. Qed.
Print Assumptions C04_fetch_miss_request.

Theorem C04_get_url_served : forall net base,
  get_url net = Ok base <->
  (net = s2z "mainnet" /\ base = s2z "https://blockstream.info/api") \/
  (net = s2z "testnet" /\ base = s2z "https://blockstream.info/testnet/api") \/
  (net = s2z "signet" /\ base = s2z "https://mempool.space/signet/api").
Proof. exact get_url_served. Qed.
Print Assumptions C04_get_url_served.

(* completeness at the level of the text the server sends: the hex of the serialisation,
   surrounded by ASCII white space, under the textual id *)
Theorem C04_fetch_text_accepts_honest : forall (hash256 : bytes -> bytes) t b h ws1 ws2,
  tx_wfb t = true -> tx_bytesb t = true -> t_segwit t = true \/ t_ins t <> [] ->
  tx_serialize t = Ok b -> tx_hash hash256 t = Ok h ->
  Forall ascii_space ws1 -> Forall ascii_space ws2 ->
  fetch_text hash256 (ws1 ++ hexlify b ++ ws2) (hexlify h) = Ok (canon_tx t).
Proof. exact fetch_text_honest. Qed.
Print Assumptions C04_fetch_text_accepts_honest.

Theorem C04_fetch_net_accepts_honest : forall (hash256 : bytes -> bytes) t b h ws1 ws2 net base fresh,
  tx_wfb t = true -> tx_bytesb t = true -> t_segwit t = true \/ t_ins t <> [] ->
  tx_serialize t = Ok b -> tx_hash hash256 t = Ok h ->
  Forall ascii_space ws1 -> Forall ascii_space ws2 -> get_url net = Ok base ->
  fetch_net_step hash256 [] fresh (ws1 ++ hexlify b ++ ws2) (hexlify h) net =
  ([(hexlify h, (canon_tx t, net))], Ok (canon_tx t, net), Some (fetch_url base (hexlify h))).
Proof. exact fetch_net_honest. Qed.
Print Assumptions C04_fetch_net_accepts_honest.

(* a run with a toy hash: honest fetch on testnet (request made), then the same id "on" an
   unserved network name with a garbage response (cache hit: no request, relabelled), then a
   fresh call on the unserved network (refused) *)
Definition toy_hash (b : bytes) : bytes := firstn 8 (rev b ++ repeatz 0 8).
Example C04_fetch_net_example :
  (b <- tx_serialize ex_legacy ;; h <- tx_hash toy_hash ex_legacy ;;
   Ok (fetch_net_run toy_hash []
         [(false, hexlify b ++ [10], hexlify h, s2z "testnet");
          (false, [122; 122], hexlify h, s2z "regtest");
          (true, hexlify b, hexlify h, s2z "regtest")])) =
  (h <- tx_hash toy_hash ex_legacy ;;
   Ok [(Ok (ex_legacy, s2z "testnet"),
        Some (s2z "https://blockstream.info/testnet/api/tx/" ++ hexlify h ++ s2z "/hex"));
       (Ok (ex_legacy, s2z "regtest"), None);
       (Err, None)]).
Proof. vm_compute. reflexivity. Qed.

(* ------------------------------------------------------------------ 11. glue, loops, textual id *)

(* Script.parse(stream=None, raw=None): the argument check *)
Theorem C04_script_parse_args :
  (forall s, script_parse_args (Some s) None = '(sc, rest) <- parse_script s ;; Ok (sc, Some rest)) /\
  (forall r, script_parse_args None (Some r) = sc <- parse_raw r ;; Ok (sc, None)) /\
  (forall s, script_parse_args (Some s) (Some []) = Ok (mk_script [], Some s)) /\
  (forall s x r, script_parse_args (Some s) (Some (x :: r)) = Err) /\
  script_parse_args None None = Err.
Proof. exact script_parse_args_spec. Qed.
Print Assumptions C04_script_parse_args.

(* TxIn(prev_tx, prev_index) with the constructor defaults is a strict well-formed input (so all
   round-trip theorems apply to it) and serialises to the 41 bytes hash | index | 00 | ffffffff *)
Theorem C04_txin_default : forall pt pi,
  length pt = 32%nat -> u32b pi = true ->
  txin_wfb (txin_default pt pi) = true /\
  cmds_strictb (s_cmds (i_script (txin_default pt pi))) = true /\
  txin_serialize (txin_default pt pi) = Ok (rev pt ++ to_le 4 pi ++ [0] ++ [255; 255; 255; 255]).
Proof. exact txin_default_layout. Qed.
Print Assumptions C04_txin_default.

(* the fuel of the model's four parser loops is only a termination device: any fuel >= the number
   of remaining bytes gives the same result (every successful iteration consumes a byte) *)
Theorem C04_fuel_irrelevant :
  (forall f1 f2 s count len acc, (length s <= f1)%nat -> (length s <= f2)%nat ->
     parse_loop f1 s count len acc = parse_loop f2 s count len acc) /\
  (forall f1 f2 n s acc, (length s <= f1)%nat -> (length s <= f2)%nat ->
     ins_loop f1 n s acc = ins_loop f2 n s acc) /\
  (forall f1 f2 n s acc, (length s <= f1)%nat -> (length s <= f2)%nat ->
     outs_loop f1 n s acc = outs_loop f2 n s acc) /\
  (forall f1 f2 n s acc, (length s <= f1)%nat -> (length s <= f2)%nat ->
     witness_loop f1 n s acc = witness_loop f2 n s acc).
Proof. exact fuel_irrelevant. Qed.
Print Assumptions C04_fuel_irrelevant.

(* the TEXTUAL id (what the fetcher compares) binds the witness-stripped bytes, for arbitrary
   objects (also parsed ones carrying .raw); the only premise is that hash256 returns bytes *)
Theorem C04_tx_id_binding : forall (hash256 : bytes -> bytes),
  (forall x, bytes_ok (hash256 x)) -> forall t1 t2 s,
  tx_id hash256 t1 = Ok s -> tx_id hash256 t2 = Ok s ->
  (exists b, serialize_legacy t1 = Ok b /\ serialize_legacy t2 = Ok b) \/
  exists x y, x <> y /\ hash256 x = hash256 y.
Proof. exact tx_id_binding. Qed.
Print Assumptions C04_tx_id_binding.

Theorem C04_tx_id_binding_wf : forall (hash256 : bytes -> bytes),
  (forall x, bytes_ok (hash256 x)) -> forall t1 t2 s,
  tx_wfb t1 = true -> tx_wfb t2 = true ->
  tx_id hash256 t1 = Ok s -> tx_id hash256 t2 = Ok s ->
  nonwitness_eq (canon_tx t1) (canon_tx t2) \/ exists x y, x <> y /\ hash256 x = hash256 y.
Proof. exact tx_id_binding_wf. Qed.
Print Assumptions C04_tx_id_binding_wf.

(* two accepted answers for one id — from any servers, any bytes — carry the same non-witness
   bytes, or exhibit a collision *)
Theorem C04_fetch_unique : forall (hash256 : bytes -> bytes),
  (forall x, bytes_ok (hash256 x)) -> forall resp1 resp2 id t1 t2,
  fetch_text hash256 resp1 id = Ok t1 -> fetch_text hash256 resp2 id = Ok t2 ->
  (exists b, serialize_legacy t1 = Ok b /\ serialize_legacy t2 = Ok b) \/
  exists x y, x <> y /\ hash256 x = hash256 y.
Proof. exact fetch_unique. Qed.
Print Assumptions C04_fetch_unique.

(* witness stacks with 253 items (3-byte count) and an item of 253 bytes (3-byte length) *)
Example C04_witness_253 :
  (b <- witness_serialize (repeat [7] 253) ;; Ok (firstn 5 b)) = Ok [253; 253; 0; 1; 7] /\
  (b <- witness_serialize (repeat [7] 253) ;; witness_parse (b ++ [9])) = Ok (repeat [7] 253, [9]) /\
  (b <- witness_serialize [repeatz 7 253; []] ;; Ok (firstn 4 b)) = Ok [2; 253; 253; 0] /\
  bytes_ok (toy_hash [1; 2; 3]).
Proof. split; [|split; [|split]]; try (vm_compute; reflexivity). apply bytes_okb_ok. vm_compute. reflexivity. Qed.

(* ------------------------------------------------------------------ 12. the cache's consumers *)

(* TxIn.value(network) / TxIn.script_pubkey(network) (memo fields unset) read output #prev_index of
   TxFetcher.fetch(prev_tx.hex(), network): for any cache satisfying the invariant, any response
   and any network, that output belongs to a transaction whose textual id is the hex of prev_tx *)
Theorem C04_txin_prevout_sound : forall (hash256 : bytes -> bytes) c i net resp c' o u,
  ncache_ok hash256 c -> txin_prevout hash256 c i net resp = (c', Ok o, u) ->
  exists t, tx_id hash256 t = Ok (hexlify (i_prev_tx i)) /\
            py_index (t_outs t) (i_prev_index i) = Ok o /\ In o (t_outs t) /\ ncache_ok hash256 c'.
Proof. exact txin_prevout_sound. Qed.
Print Assumptions C04_txin_prevout_sound.

(* from an empty cache, with a hash256 that returns bytes: the HASH of that transaction is prev_tx *)
Theorem C04_txin_prevout_hash : forall (hash256 : bytes -> bytes),
  (forall x, bytes_ok (hash256 x)) -> forall i net resp c' o u,
  bytes_ok (i_prev_tx i) -> txin_prevout hash256 [] i net resp = (c', Ok o, u) ->
  exists t, tx_hash hash256 t = Ok (i_prev_tx i) /\ py_index (t_outs t) (i_prev_index i) = Ok o.
Proof. exact txin_prevout_hash. Qed.
Print Assumptions C04_txin_prevout_hash.

Example C04_txin_prevout_example :
  (b <- tx_serialize ex_legacy ;; h <- tx_hash toy_hash ex_legacy ;;
   let i := {| i_prev_tx := h; i_prev_index := 1; i_script := mk_script []; i_sequence := 0;
               i_witness := [] |} in
   Ok (snd (fst (txin_prevout toy_hash [] i (s2z "mainnet") (hexlify b))),
       snd (fst (txin_prevout toy_hash [] i (s2z "mainnet") [48; 48])),
       snd (fst (txin_prevout toy_hash []
                   {| i_prev_tx := h; i_prev_index := 2; i_script := mk_script []; i_sequence := 0;
                      i_witness := [] |} (s2z "mainnet") (hexlify b))))) =
  Ok (Ok ex_out, Err, Err).
Proof. vm_compute. reflexivity. Qed.
