(* Props/C16.v — wsh(sortedmulti) output descriptors (buidl/descriptor.py).
   Only statements, each closed by a lemma of Proofs/, followed by Print Assumptions.
   Model: Model/Descriptor.v; Core's algorithm: Spec/CoreDescChecksum.v; the character
   sets and calc_poly_mod constants are regenerated from descriptor.py on every run
   (Generated/DescConsts.v). *)
From Coq Require Import Permutation.
From V Require Import Base.Prelude Generated.DescConsts Model.Descriptor Spec.CoreDescChecksum
  Proofs.DescChecksumP Proofs.DescDetectP Proofs.DescriptorP.

(* (1) calc_core_checksum is Bitcoin Core's DescriptorChecksum on EVERY text: the same 8
   characters when all characters are in the input charset, an error (Core: empty string)
   otherwise. *)
Theorem C16_desc_checksum_eq_core : forall text,
  desc_checksum text =
    (if forallb in_core_charset text then Ok (core_descriptor_checksum text) else Err) /\
  (forallb in_core_charset text = false -> core_descriptor_checksum text = []).
Proof. exact desc_checksum_eq_core_full. Qed.
Print Assumptions C16_desc_checksum_eq_core.

Theorem C16_calc_poly_mod_is_core_polymod : forall c v,
  0 <= c < 2 ^ 40 -> PolyMod c v = poly_mod c v.
Proof. exact PolyMod_poly_mod. Qed.
Print Assumptions C16_calc_poly_mod_is_core_polymod.

(* (2) texts of ANY length: replacing one character by a different character of the input
   charset changes the 8-character checksum. *)
Theorem C16_desc_checksum_detects_single : forall l1 x y l2 cs,
  desc_checksum (l1 ++ x :: l2) = Ok cs -> In y desc_input_charset -> x <> y ->
  exists cs', desc_checksum (l1 ++ y :: l2) = Ok cs' /\ cs' <> cs /\
              length cs = 8%nat /\ length cs' = 8%nat.
Proof. exact checksum_detects_single. Qed.
Print Assumptions C16_desc_checksum_detects_single.

(* the hypotheses are satisfiable: "wsh(" -> "wsj(" *)
Example C16_detects_example :
  desc_checksum [119; 115; 104; 40] = Ok [99; 118; 51; 53; 107; 51; 100; 53] /\
  desc_checksum [119; 115; 106; 40] = Ok [57; 118; 109; 106; 117; 56; 50; 121].
Proof. split; vm_compute; reflexivity. Qed.

(* the checksum character class of the parse regex is exactly CHECKSUM_CHARSET, 8 times *)
Theorem C16_regex_class_is_checksum_charset :
  desc_regex_checksum_class = desc_checksum_charset /\ desc_regex_checksum_count = 8.
Proof. split; reflexivity. Qed.
Print Assumptions C16_regex_class_is_checksum_charset.

(* ---------------------------------------------------------------------------------------
   Structure of P2WSHSortedMulti.  The functions of hd.py the descriptor code calls are
   universally quantified: path_ok (is_valid_bip32_path), hdparse (HDPublicKey.parse and
   re-encoding without SLIP-132 version, with the network), child_ok (the account child
   exists), derive (xpub/account/offset -> 33-byte key), sha256, p2wsh_address.            *)

(* (3) text round trip over the fields the regular expressions cut out of repr(d):
   parsing the constructor's own output (with and without the checksum) gives back the same
   descriptor: same m, same sorted records, same text, checksum and network.  Premises: the
   re-encoded xpub parses to itself (hd_idempotent), fingerprints in lower case and paths
   starting with "m" (the constructor accepts more, see C16_roundtrip_needs_lowercase_xfp),
   the account children exist, m <= n. *)
Theorem C16_descriptor_text_roundtrip :
  forall path_ok hdparse child_ok m recs d,
  hd_idempotent hdparse ->
  construct path_ok hdparse m recs [] true = Ok d ->
  m <= zlen recs ->
  Forall lower_xfp recs -> Forall path_m recs ->
  Forall (fun kr => child_ok (kr_xpub kr) (kr_idx kr) = true) (d_recs d) ->
  parse_struct path_ok hdparse child_ok (d_m d) (fields_of d) (d_checksum d) = Ok d /\
  parse_struct path_ok hdparse child_ok (d_m d) (fields_of d) [] = Ok d.
Proof. exact descriptor_text_roundtrip. Qed.
Print Assumptions C16_descriptor_text_roundtrip.

Theorem C16_constructor_rejects_wrong_checksum :
  forall path_ok hdparse m recs srt d cs,
  construct path_ok hdparse m recs [] srt = Ok d -> cs <> [] -> cs <> d_checksum d ->
  construct path_ok hdparse m recs cs srt = Err.
Proof. exact construct_rejects_wrong_checksum. Qed.
Print Assumptions C16_constructor_rejects_wrong_checksum.

(* altering a checksum character is detected by plain string inequality *)
Theorem C16_parse_rejects_wrong_checksum :
  forall path_ok hdparse child_ok m fields d cs,
  parse_struct path_ok hdparse child_ok m fields [] = Ok d -> cs <> [] -> cs <> d_checksum d ->
  parse_struct path_ok hdparse child_ok m fields cs = Err.
Proof. exact parse_rejects_wrong_checksum. Qed.
Print Assumptions C16_parse_rejects_wrong_checksum.

(* what a constructed descriptor is: text = wsh(sortedmulti(m,records sorted by xpub)),
   checksum = calc_core_checksum(text) *)
Theorem C16_constructed_descriptor :
  forall path_ok hdparse m recs cs srt d,
  construct path_ok hdparse m recs cs srt = Ok d ->
  1 <= m /\ recs <> [] /\
  exists n, Forall (rec_ok path_ok hdparse n) recs /\
    d_recs d = (if srt then sort_by kr_xpub (map (normed path_ok hdparse) recs)
                else map (normed path_ok hdparse) recs) /\
    d_m d = m /\ d_net d = n /\ d_text d = render_text m (d_recs d) /\
    desc_checksum (d_text d) = Ok (d_checksum d) /\ (cs = [] \/ cs = d_checksum d).
Proof. exact construct_ok. Qed.
Print Assumptions C16_constructed_descriptor.

(* (4) order independence.  Text/records: for every permutation of the supplied records,
   provided two records with the same re-encoded xpub are the same record (Python's sort is
   stable, so without this the output order of equal-xpub records follows the input). *)
Theorem C16_descriptor_order_independent :
  forall path_ok hdparse m recs recs' cs,
  Permutation recs recs' ->
  (forall a b, In a recs -> In b recs ->
     kr_xpub (normed path_ok hdparse a) = kr_xpub (normed path_ok hdparse b) ->
     normed path_ok hdparse a = normed path_ok hdparse b) ->
  construct path_ok hdparse m recs cs true = construct path_ok hdparse m recs' cs true.
Proof. exact construct_order_independent. Qed.
Print Assumptions C16_descriptor_order_independent.

(* witness script and address: for every permutation, no side condition *)
Theorem C16_address_order_independent :
  forall derive sha256 p2wsh_address d d' off chg,
  Permutation (d_recs d) (d_recs d') -> d_m d = d_m d' -> d_net d = d_net d' ->
  witness_script derive d off chg true = witness_script derive d' off chg true /\
  get_address derive sha256 p2wsh_address d off chg true =
  get_address derive sha256 p2wsh_address d' off chg true.
Proof. exact address_order_independent. Qed.
Print Assumptions C16_address_order_independent.

(* (5) script shape: OP_m, exactly one pushed child key per key record — the key
   derive(xpub, account_index, offset) for receive, derive(xpub, account_index + 1, offset)
   for change — in lexicographic order, OP_n, OP_CHECKMULTISIG *)
Theorem C16_witness_script_shape :
  forall derive d off chg ws,
  witness_script derive d off chg true = Ok ws ->
  exists ks om on,
    Forall2 (fun kr k => derive (kr_xpub kr) (account chg kr) off = Ok k) (d_recs d) ks /\
    length ks = length (d_recs d) /\
    number_to_op_code (d_m d) = Ok om /\ number_to_op_code (zlen (d_recs d)) = Ok on /\
    0 <= off /\
    ser_cmds (Op om :: map Push (sort_by (fun k => k) ks) ++ [Op on; Op 174]) = Ok ws.
Proof. exact witness_script_shape. Qed.
Print Assumptions C16_witness_script_shape.

(* equal receive and change addresses at one offset: a SHA-256 collision (exhibited) or the
   two branches have the same sorted child keys (a BIP32-level coincidence, C08) *)
Theorem C16_branches_distinct :
  forall derive sha256 p2wsh_address d off a,
  (forall h h' n, p2wsh_address h n = p2wsh_address h' n -> h = h') ->
  (forall x acc i k, derive x acc i = Ok k -> length k = 33%nat) ->
  get_address derive sha256 p2wsh_address d off false true = Ok a ->
  get_address derive sha256 p2wsh_address d off true true = Ok a ->
  (exists s s', s <> s' /\ sha256 s = sha256 s') \/
  (exists kr kc,
     child_keys derive (d_recs d) false off = Ok kr /\
     child_keys derive (d_recs d) true off = Ok kc /\
     sort_by (fun k => k) kr = sort_by (fun k => k) kc).
Proof. exact branches_distinct. Qed.
Print Assumptions C16_branches_distinct.

(* ---- the premises are satisfiable, and the side conditions are needed ---- *)
Definition ex_path_ok (p : list Z) : bool := true.
Definition ex_hdparse (x : list Z) : result (list Z * Z) := Ok (x, 0).
Definition ex_child_ok (x : list Z) (i : Z) : bool := true.
Definition ex_rec (x : Z) (up : bool) : keyrec :=
  {| kr_xfp := if up then [65; 49; 50; 51; 52; 53; 54; 55] else [97; 49; 50; 51; 52; 53; 54; 55];
     kr_path := [109; 47; 52; 56; 104]; kr_xpub := [120; 112; 117; 98; x]; kr_idx := 0 |}.

Example C16_roundtrip_example :
  exists d, construct ex_path_ok ex_hdparse 2 [ex_rec 66 false; ex_rec 65 false] [] true = Ok d /\
    d_recs d = [ex_rec 65 false; ex_rec 66 false] /\
    parse_struct ex_path_ok ex_hdparse ex_child_ok (d_m d) (fields_of d) (d_checksum d) = Ok d.
Proof.
  eexists. split; [vm_compute; reflexivity|]. split; [vm_compute; reflexivity|].
  vm_compute. reflexivity.
Qed.

(* an upper-case fingerprint is accepted by the constructor, but its own text is rejected
   by parse (the key-record regex wants [0-9a-f]{8}) *)
Example C16_roundtrip_needs_lowercase_xfp :
  exists d, construct ex_path_ok ex_hdparse 1 [ex_rec 65 true] [] true = Ok d /\
    parse_struct ex_path_ok ex_hdparse ex_child_ok (d_m d) (fields_of d) (d_checksum d) = Err.
Proof. eexists. split; [vm_compute; reflexivity|]. vm_compute. reflexivity. Qed.

(* two records with the same xpub and different account indexes: the text depends on the
   order in which they are supplied *)
Example C16_order_needs_distinct_xpubs :
  let a := ex_rec 65 false in
  let b := {| kr_xfp := kr_xfp a; kr_path := kr_path a; kr_xpub := kr_xpub a; kr_idx := 5 |} in
  construct ex_path_ok ex_hdparse 1 [a; b] [] true <> construct ex_path_ok ex_hdparse 1 [b; a] [] true.
Proof. vm_compute. intros H. discriminate H. Qed.
