(* Props/C16.v — wsh(sortedmulti) output descriptors (buidl/descriptor.py).
   Only statements, each closed by a lemma of Proofs/, followed by Print Assumptions.
   Model: Model/Descriptor.v; Core's algorithm: Spec/CoreDescChecksum.v; the character
   sets and calc_poly_mod constants are regenerated from descriptor.py on every run
   (Generated/DescConsts.v). *)
From V Require Import Base.Prelude Generated.DescConsts Model.Descriptor Spec.CoreDescChecksum
  Proofs.DescChecksumP Proofs.DescDetectP.

(* (1) calc_core_checksum is Bitcoin Core's DescriptorChecksum on EVERY text: the same 8
   characters when all characters are in the input charset, an error (Core: empty string)
   otherwise. *)
Theorem C16_desc_checksum_eq_core : forall text,
  desc_checksum text =
    (if forallb in_core_charset text then Ok (core_descriptor_checksum text) else Err) /\
  (forallb in_core_charset text = false -> core_descriptor_checksum text = []).
Proof. exact desc_checksum_eq_core_full. Qed.
Print Assumptions C16_desc_checksum_eq_core.

Theorem C16_calc_poly_mod_is_core_polymod : forall c v,
  0 <= c < 2 ^ 40 -> PolyMod c v = poly_mod c v.
Proof. exact PolyMod_poly_mod. Qed.
Print Assumptions C16_calc_poly_mod_is_core_polymod.

(* (2) texts of ANY length: replacing one character by a different character of the input
   charset changes the 8-character checksum. *)
Theorem C16_desc_checksum_detects_single : forall l1 x y l2 cs,
  desc_checksum (l1 ++ x :: l2) = Ok cs -> In y desc_input_charset -> x <> y ->
  exists cs', desc_checksum (l1 ++ y :: l2) = Ok cs' /\ cs' <> cs /\
              length cs = 8%nat /\ length cs' = 8%nat.
Proof. exact checksum_detects_single. Qed.
Print Assumptions C16_desc_checksum_detects_single.

(* the hypotheses are satisfiable: "wsh(" -> "wsj(" *)
Example C16_detects_example :
  desc_checksum [119; 115; 104; 40] = Ok [99; 118; 51; 53; 107; 51; 100; 53] /\
  desc_checksum [119; 115; 106; 40] = Ok [57; 118; 109; 106; 117; 56; 50; 121].
Proof. split; vm_compute; reflexivity. Qed.

(* the checksum character class of the parse regex is exactly CHECKSUM_CHARSET, 8 times *)
Theorem C16_regex_class_is_checksum_charset :
  desc_regex_checksum_class = desc_checksum_charset /\ desc_regex_checksum_count = 8.
Proof. split; reflexivity. Qed.
Print Assumptions C16_regex_class_is_checksum_charset.
