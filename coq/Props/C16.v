(* Props/C16.v — wsh(sortedmulti) output descriptors (buidl/descriptor.py).
   Only statements, each closed by a lemma of Proofs/, followed by Print Assumptions.
   Model: Model/Descriptor.v; Core's algorithm: Spec/CoreDescChecksum.v; the character
   sets and calc_poly_mod constants are regenerated from descriptor.py on every run
   (Generated/DescConsts.v). *)
From Coq Require Import String Permutation.
From V Require Import Base.Prelude Base.Disp Generated.DescConsts Model.Descriptor Model.DescriptorText
  Spec.CoreDescChecksum Proofs.DescChecksumP Proofs.DescDetectP Proofs.DescriptorP Proofs.DescriptorTextP
  Proofs.DescriptorParseP Proofs.DescriptorAddrP Proofs.DescriptorPathP.

(* (1) calc_core_checksum is Bitcoin Core's DescriptorChecksum on EVERY text: the same 8
   characters when all characters are in the input charset, an error (Core: empty string)
   otherwise. *)
Theorem C16_desc_checksum_eq_core : forall text,
  desc_checksum text =
    (if forallb in_core_charset text then Ok (core_descriptor_checksum text) else Err) /\
  (forallb in_core_charset text = false -> core_descriptor_checksum text = []).
Proof. exact desc_checksum_eq_core_full. Qed.
Print Assumptions C16_desc_checksum_eq_core.

Theorem C16_calc_poly_mod_is_core_polymod : forall c v,
  0 <= c < 2 ^ 40 -> PolyMod c v = poly_mod c v.
Proof. exact PolyMod_poly_mod. Qed.
Print Assumptions C16_calc_poly_mod_is_core_polymod.

(* (2) texts of ANY length: replacing one character by a different character of the input
   charset changes the 8-character checksum. *)
Theorem C16_desc_checksum_detects_single : forall l1 x y l2 cs,
  desc_checksum (l1 ++ x :: l2) = Ok cs -> In y desc_input_charset -> x <> y ->
  exists cs', desc_checksum (l1 ++ y :: l2) = Ok cs' /\ cs' <> cs /\
              length cs = 8%nat /\ length cs' = 8%nat.
Proof. exact checksum_detects_single. Qed.
Print Assumptions C16_desc_checksum_detects_single.

(* the hypotheses are satisfiable: "wsh(" -> "wsj(" *)
Example C16_detects_example :
  desc_checksum [119; 115; 104; 40] = Ok [99; 118; 51; 53; 107; 51; 100; 53] /\
  desc_checksum [119; 115; 106; 40] = Ok [57; 118; 109; 106; 117; 56; 50; 121].
Proof. split; vm_compute; reflexivity. Qed.

(* the checksum character class of the parse regex is exactly CHECKSUM_CHARSET, 8 times *)
Theorem C16_regex_class_is_checksum_charset :
  desc_regex_checksum_class = desc_checksum_charset /\ desc_regex_checksum_count = 8.
Proof. split; reflexivity. Qed.
Print Assumptions C16_regex_class_is_checksum_charset.

(* ---------------------------------------------------------------------------------------
   Structure of P2WSHSortedMulti.  The functions of hd.py the descriptor code calls are
   universally quantified: path_ok (is_valid_bip32_path), hdparse (HDPublicKey.parse and
   re-encoding without SLIP-132 version, with the network), child_ok (the account child
   exists), derive (xpub/account/offset -> 33-byte key), sha256, p2wsh_address.            *)

(* (3) text round trip over the fields the regular expressions cut out of repr(d):
   WHATEVER the constructor accepts (any spelling of fingerprints and paths it lets through,
   sorted or not, with or without a supplied checksum), parsing its own output (with and
   without the checksum) gives back the same descriptor: same m, same records, same text,
   checksum and network.  Since /repo 03838d6 the constructor rejects m > n and account
   indexes outside [0, 2^31) and normalises fingerprint case and the path prefix, so the
   former side conditions (lower-case fingerprints, paths starting with "m", m <= n) are gone.
   Premises about hd.py: the re-encoded xpub parses to itself (hd_idempotent), the path check
   is stable under the rewriting "m" + path.strip()[1:] (path_norm_ok), the account children
   exist.  The same at the level of the TEXT: C16_parse_text_roundtrip below. *)
Theorem C16_descriptor_text_roundtrip :
  forall path_ok hdparse child_ok m recs cs srt d,
  hd_idempotent hdparse -> path_norm_ok path_ok ->
  construct path_ok hdparse m recs cs srt = Ok d ->
  Forall (fun kr => child_ok (kr_xpub kr) (kr_idx kr) = true) (d_recs d) ->
  parse_struct path_ok hdparse child_ok (d_m d) (fields_of d) (d_checksum d) = Ok d /\
  parse_struct path_ok hdparse child_ok (d_m d) (fields_of d) [] = Ok d.
Proof. exact descriptor_text_roundtrip. Qed.
Print Assumptions C16_descriptor_text_roundtrip.

Theorem C16_constructor_rejects_wrong_checksum :
  forall path_ok hdparse m recs srt d cs,
  construct path_ok hdparse m recs [] srt = Ok d -> cs <> [] -> cs <> d_checksum d ->
  construct path_ok hdparse m recs cs srt = Err.
Proof. exact construct_rejects_wrong_checksum. Qed.
Print Assumptions C16_constructor_rejects_wrong_checksum.

(* altering a checksum character is detected by plain string inequality *)
Theorem C16_parse_rejects_wrong_checksum :
  forall path_ok hdparse child_ok m fields d cs,
  parse_struct path_ok hdparse child_ok m fields [] = Ok d -> cs <> [] -> cs <> d_checksum d ->
  parse_struct path_ok hdparse child_ok m fields cs = Err.
Proof. exact parse_rejects_wrong_checksum. Qed.
Print Assumptions C16_parse_rejects_wrong_checksum.

(* what a constructed descriptor is: text = wsh(sortedmulti(m,records sorted by xpub)),
   checksum = calc_core_checksum(text) *)
Theorem C16_constructed_descriptor :
  forall path_ok hdparse m recs cs srt d,
  construct path_ok hdparse m recs cs srt = Ok d ->
  1 <= m /\ recs <> [] /\
  exists n, Forall (rec_ok path_ok hdparse n) recs /\
    d_recs d = (if srt then sort_by kr_xpub (map (normed path_ok hdparse) recs)
                else map (normed path_ok hdparse) recs) /\
    d_m d = m /\ d_net d = n /\ d_text d = render_text m (d_recs d) /\
    desc_checksum (d_text d) = Ok (d_checksum d) /\ (cs = [] \/ cs = d_checksum d) /\
    m <= zlen recs.
Proof. exact construct_ok. Qed.
Print Assumptions C16_constructed_descriptor.

(* (4) order independence.  Text/records: for every permutation of the supplied records,
   provided two records with the same re-encoded xpub are the same record (Python's sort is
   stable, so without this the output order of equal-xpub records follows the input). *)
Theorem C16_descriptor_order_independent :
  forall path_ok hdparse m recs recs' cs,
  Permutation recs recs' ->
  (forall a b, In a recs -> In b recs ->
     kr_xpub (normed path_ok hdparse a) = kr_xpub (normed path_ok hdparse b) ->
     normed path_ok hdparse a = normed path_ok hdparse b) ->
  construct path_ok hdparse m recs cs true = construct path_ok hdparse m recs' cs true.
Proof. exact construct_order_independent. Qed.
Print Assumptions C16_descriptor_order_independent.

(* witness script and address: for every permutation, no side condition *)
Theorem C16_address_order_independent :
  forall derive sha256 p2wsh_address d d' off chg,
  Permutation (d_recs d) (d_recs d') -> d_m d = d_m d' -> d_net d = d_net d' ->
  witness_script derive d off chg true = witness_script derive d' off chg true /\
  get_address derive sha256 p2wsh_address d off chg true =
  get_address derive sha256 p2wsh_address d' off chg true.
Proof. exact address_order_independent. Qed.
Print Assumptions C16_address_order_independent.

(* (5) script shape: OP_m, exactly one pushed child key per key record — the key
   derive(xpub, account_index, offset) for receive, derive(xpub, account_index + 1, offset)
   for change — in lexicographic order, OP_n, OP_CHECKMULTISIG *)
Theorem C16_witness_script_shape :
  forall derive d off chg ws,
  witness_script derive d off chg true = Ok ws ->
  exists ks om on,
    Forall2 (fun kr k => derive (kr_xpub kr) (account chg kr) off = Ok k) (d_recs d) ks /\
    length ks = length (d_recs d) /\
    number_to_op_code (d_m d) = Ok om /\ number_to_op_code (zlen (d_recs d)) = Ok on /\
    0 <= off /\
    ser_cmds (Op om :: map Push (sort_by (fun k => k) ks) ++ [Op on; Op 174]) = Ok ws.
Proof. exact witness_script_shape. Qed.
Print Assumptions C16_witness_script_shape.

(* equal receive and change addresses at one offset: a SHA-256 collision (exhibited) or the
   two branches have the same sorted child keys (a BIP32-level coincidence, C08) *)
Theorem C16_branches_distinct :
  forall derive sha256 p2wsh_address d off a,
  (forall h h' n, p2wsh_address h n = p2wsh_address h' n -> h = h') ->
  (forall x acc i k, derive x acc i = Ok k -> length k = 33%nat) ->
  get_address derive sha256 p2wsh_address d off false true = Ok a ->
  get_address derive sha256 p2wsh_address d off true true = Ok a ->
  (exists s s', s <> s' /\ sha256 s = sha256 s') \/
  (exists kr kc,
     child_keys derive (d_recs d) false off = Ok kr /\
     child_keys derive (d_recs d) true off = Ok kc /\
     sort_by (fun k => k) kr = sort_by (fun k => k) kc).
Proof. exact branches_distinct. Qed.
Print Assumptions C16_branches_distinct.

(* ---- the premises are satisfiable, and the side conditions are needed ---- *)
Definition ex_path_ok (p : list Z) : bool := true.
Definition ex_hdparse (x : list Z) : result (list Z * Z) := Ok (x, 0).
Definition ex_child_ok (x : list Z) (i : Z) : bool := true.
Definition ex_rec (x : Z) (up : bool) : keyrec :=
  {| kr_xfp := if up then [65; 49; 50; 51; 52; 53; 54; 55] else [97; 49; 50; 51; 52; 53; 54; 55];
     kr_path := [109; 47; 52; 56; 104]; kr_xpub := [120; 112; 117; 98; x]; kr_idx := 0 |}.

Example C16_roundtrip_example :
  exists d, construct ex_path_ok ex_hdparse 2 [ex_rec 66 false; ex_rec 65 false] [] true = Ok d /\
    d_recs d = [ex_rec 65 false; ex_rec 66 false] /\
    parse_struct ex_path_ok ex_hdparse ex_child_ok (d_m d) (fields_of d) (d_checksum d) = Ok d.
Proof.
  eexists. split; [vm_compute; reflexivity|]. split; [vm_compute; reflexivity|].
  vm_compute. reflexivity.
Qed.

(* an upper-case fingerprint is accepted by the constructor, stored and printed in lower case,
   and its own text is read back (before /repo 03838d6 parse rejected that text) *)
Example C16_uppercase_xfp_is_normalised :
  exists d, construct ex_path_ok ex_hdparse 1 [ex_rec 65 true] [] true = Ok d /\
    d_recs d = [ex_rec 65 false] /\
    parse_struct ex_path_ok ex_hdparse ex_child_ok (d_m d) (fields_of d) (d_checksum d) = Ok d.
Proof.
  eexists. split; [vm_compute; reflexivity|]. split; [vm_compute; reflexivity|].
  vm_compute. reflexivity.
Qed.

(* m > n and an account index outside [0, 2^31) are refused by the constructor *)
Example C16_constructor_refuses_bad_threshold_and_index :
  construct ex_path_ok ex_hdparse 3 [ex_rec 65 false; ex_rec 66 false] [] true = Err /\
  construct ex_path_ok ex_hdparse 1
    [{| kr_xfp := kr_xfp (ex_rec 65 false); kr_path := kr_path (ex_rec 65 false);
        kr_xpub := kr_xpub (ex_rec 65 false); kr_idx := 2147483648 |}] [] true = Err.
Proof. split; vm_compute; reflexivity. Qed.

(* two records with the same xpub and different account indexes: the text depends on the
   order in which they are supplied *)
Example C16_order_needs_distinct_xpubs :
  let a := ex_rec 65 false in
  let b := {| kr_xfp := kr_xfp a; kr_path := kr_path a; kr_xpub := kr_xpub a; kr_idx := 5 |} in
  construct ex_path_ok ex_hdparse 1 [a; b] [] true <> construct ex_path_ok ex_hdparse 1 [b; a] [] true.
Proof. vm_compute. intros H. discriminate H. Qed.

(* =======================================================================================
   The TEXT layer (Model/DescriptorText.v): int(), split / join, the key-record regular
   expression, parse_full / partial / any_key_record, the outer regular expression
   (re.fullmatch since /repo dfc700c) and P2WSHSortedMulti.parse itself on text.
   json.loads (the Specter-Desktop account-map branch of parse) is a further universally
   quantified function.                                                                    *)

(* f"{n}" is read back by int() (CPython's limit of 4300 digits is in the model) *)
Theorem C16_int_reads_back_fstring : forall z, - 2 ^ 4300 < z < 2 ^ 4300 -> py_int (dec z) = Ok z.
Proof. exact py_int_dec. Qed.
Print Assumptions C16_int_reads_back_fstring.

(* (1) the text is  wsh(sortedmulti(  m  ,  key expressions joined by commas  ))  where a key
   expression is  [ fingerprint path-without-m ] xpub / account_index / *  *)
Theorem C16_descriptor_text_shape : forall m recs, recs <> [] ->
  render_text m recs = s2z "wsh(sortedmulti(" ++ dec m ++ 44 :: records_text recs ++ s2z "))".
Proof. exact render_text_shape. Qed.
Print Assumptions C16_descriptor_text_shape.

(* the checksum of a constructed descriptor is Core's DescriptorChecksum of its text, and is a
   well-formed checksum group of the parse regex (8 characters of the class) *)
Theorem C16_constructed_checksum_is_core : forall path_ok hdparse m recs cs srt d,
  construct path_ok hdparse m recs cs srt = Ok d ->
  d_checksum d = core_descriptor_checksum (d_text d) /\ cs_ok (d_checksum d) /\
  d_text d = render_text m (d_recs d).
Proof. exact constructed_checksum_is_core. Qed.
Print Assumptions C16_constructed_checksum_is_core.

(* the text-only part of parse_full_key_record (split on "/", "*", int(), the regex) reads a
   printed key expression back field by field *)
Theorem C16_key_record_text_roundtrip : forall kr,
  text_safe kr -> fields_of_text (key_expr kr) = Ok (field_of kr).
Proof. exact fields_of_text_key_expr. Qed.
Print Assumptions C16_key_record_text_roundtrip.

(* the part of parse that follows the outer regex, run on the groups of a printed descriptor,
   is the structured parser of Model/Descriptor.v on the fields *)
Theorem C16_parse_groups_refines_struct : forall path_ok hdparse child_ok m recs cs,
  recs <> [] -> Forall text_safe recs -> - 2 ^ 4300 < m < 2 ^ 4300 ->
  parse_groups path_ok hdparse child_ok (dec m) (records_text recs) cs =
  parse_struct path_ok hdparse child_ok m (map field_of recs) cs.
Proof. exact parse_groups_printed. Qed.
Print Assumptions C16_parse_groups_refines_struct.

(* the records a successful constructor saves are text-safe, given two facts about hd.py:
   valid paths contain none of  ] , \ # *  and the re-encoded xpub is alphanumeric text *)
Theorem C16_constructed_records_text_safe : forall path_ok hdparse (child_ok : list Z -> Z -> bool) m recs cs srt d,
  path_chars_ok path_ok -> hd_alnum hdparse ->
  construct path_ok hdparse m recs cs srt = Ok d -> Forall text_safe (d_recs d).
Proof. exact constructed_text_safe. Qed.
Print Assumptions C16_constructed_records_text_safe.

(* (3) THE ROUND TRIP ON TEXT.  Whatever record set the constructor accepts — any m, any
   spelling of fingerprints / paths it lets through, sorted or not, with or without a supplied
   checksum — str(d) and d.descriptor_text, with any white space around them, are parsed by
   P2WSHSortedMulti.parse to the same descriptor (m, key records, text, checksum, network).
   Premises are facts about hd.py only (checked on the implementation on every run, predicates
   path_assumptions / xpub_assumptions): the re-encoded xpub parses to itself and is
   alphanumeric, valid paths stay valid under "m" + path.strip()[1:] and contain none of
   ] , \ # * ; and the account children exist. *)
Theorem C16_parse_text_roundtrip :
  forall path_ok hdparse child_ok json_descriptor m recs cs srt d w1 w2,
  hd_idempotent hdparse -> path_norm_ok path_ok -> path_chars_ok path_ok -> hd_alnum hdparse ->
  construct path_ok hdparse m recs cs srt = Ok d -> m < 2 ^ 4300 ->
  Forall (fun kr => child_ok (kr_xpub kr) (kr_idx kr) = true) (d_recs d) ->
  Forall (fun c => is_ws c = true) w1 -> Forall (fun c => is_ws c = true) w2 ->
  parse_text path_ok hdparse child_ok json_descriptor (w1 ++ desc_repr d ++ w2) = Ok d /\
  parse_text path_ok hdparse child_ok json_descriptor (w1 ++ d_text d ++ w2) = Ok d.
Proof. exact parse_text_roundtrip. Qed.
Print Assumptions C16_parse_text_roundtrip.

(* The two premises about the path check are THEOREMS for C16's transcription of
   hd.is_valid_bip32_path (Model/DescriptorText.v is_valid_path: lower, strip, replace ' by h,
   replace // by /, "m" or "m/" + at most 255 components int() reads in [0, 2^31) with an
   optional h; compared with the implementation on every run, op path_valid). *)
Theorem C16_valid_path_stays_valid_when_rewritten : path_norm_ok is_valid_path.
Proof. exact is_valid_path_norm_ok. Qed.
Print Assumptions C16_valid_path_stays_valid_when_rewritten.

Theorem C16_valid_path_has_no_structural_character : path_chars_ok is_valid_path.
Proof. exact is_valid_path_chars_ok. Qed.
Print Assumptions C16_valid_path_has_no_structural_character.

(* so, with the path check as it is, the round trip on text needs only the facts about
   HDPublicKey (re-encoded xpub parses to itself and is alphanumeric; the account child exists) *)
Theorem C16_parse_text_roundtrip_valid_paths :
  forall hdparse child_ok json_descriptor m recs cs srt d w1 w2,
  hd_idempotent hdparse -> hd_alnum hdparse ->
  construct is_valid_path hdparse m recs cs srt = Ok d -> m < 2 ^ 4300 ->
  Forall (fun kr => child_ok (kr_xpub kr) (kr_idx kr) = true) (d_recs d) ->
  Forall (fun c => is_ws c = true) w1 -> Forall (fun c => is_ws c = true) w2 ->
  parse_text is_valid_path hdparse child_ok json_descriptor (w1 ++ desc_repr d ++ w2) = Ok d /\
  parse_text is_valid_path hdparse child_ok json_descriptor (w1 ++ d_text d ++ w2) = Ok d.
Proof. exact parse_text_roundtrip_paths. Qed.
Print Assumptions C16_parse_text_roundtrip_valid_paths.

(* parse is parse_plain on the stripped text unless that begins with an opening brace *)
Theorem C16_parse_text_without_json : forall path_ok hdparse child_ok json_descriptor s c r,
  strip s = c :: r -> c <> 123 ->
  parse_text path_ok hdparse child_ok json_descriptor s = parse_plain path_ok hdparse child_ok (c :: r).
Proof. exact parse_text_nojson. Qed.
Print Assumptions C16_parse_text_without_json.

(* ACCEPTED IFF EXACT.  What parse accepts is exactly  wsh(sortedmulti( digits , records ))
   with nothing before or after it and no "#" anywhere, or that text followed by "#" and the
   checksum of the text the parser prints back (after replacing backslash-slash by slash). *)
Theorem C16_parse_accepts_only_exact_text : forall path_ok hdparse child_ok s d,
  parse_plain path_ok hdparse child_ok s = Ok d ->
  exists ds krs,
    Forall digitP ds /\ ~ In 10 krs /\ desc_checksum (d_text d) = Ok (d_checksum d) /\
    ((unescape s = prefix16 ++ ds ++ 44 :: krs ++ [41; 41] /\ ~ In 35 (unescape s) /\
      parse_groups path_ok hdparse child_ok ds krs [] = Ok d) \/
     (unescape s = prefix16 ++ ds ++ 44 :: krs ++ [41; 41; 35] ++ d_checksum d /\
      cs_ok (d_checksum d) /\
      parse_groups path_ok hdparse child_ok ds krs (d_checksum d) = Ok d)).
Proof. exact parse_plain_shape. Qed.
Print Assumptions C16_parse_accepts_only_exact_text.

(* (2) THE SEPARATOR (the former finding C16-separator-substitution-skips-checksum, fixed by
   dfc700c): whatever stands before it, a text that ends with a character other than "#"
   followed by 8 checksum characters is rejected — for every body, every replacement
   character (in or outside the descriptor charset). *)
Theorem C16_parse_rejects_damaged_separator : forall path_ok hdparse child_ok T c cs,
  c <> 35 -> cs_ok cs -> parse_plain path_ok hdparse child_ok (T ++ c :: cs) = Err.
Proof. exact parse_plain_rejects_damaged_separator. Qed.
Print Assumptions C16_parse_rejects_damaged_separator.

(* after "#", anything that is not exactly 8 checksum characters is rejected: an empty, short
   or long checksum, a foreign character in it, text after a valid checksum *)
Theorem C16_parse_rejects_malformed_checksum : forall path_ok hdparse child_ok T cs,
  ~ In 35 cs -> (~ In 92 cs \/ ~ In 47 cs) -> ~ cs_ok cs ->
  parse_plain path_ok hdparse child_ok (T ++ 35 :: cs) = Err.
Proof. exact parse_plain_rejects_malformed_checksum. Qed.
Print Assumptions C16_parse_rejects_malformed_checksum.

Theorem C16_parse_rejects_trailing_text : forall path_ok hdparse child_ok T cs junk,
  cs_ok cs -> junk <> [] -> ~ In 35 junk -> ~ In 92 junk ->
  parse_plain path_ok hdparse child_ok (T ++ 35 :: cs ++ junk) = Err.
Proof. exact parse_plain_rejects_trailing_text. Qed.
Print Assumptions C16_parse_rejects_trailing_text.

(* the checksum written in an accepted text is verified: it is the checksum of the text the
   parser prints back *)
Theorem C16_written_checksum_is_verified : forall path_ok hdparse child_ok T cs d,
  cs_ok cs -> parse_plain path_ok hdparse child_ok (T ++ 35 :: cs) = Ok d ->
  d_checksum d = cs /\ desc_checksum (d_text d) = Ok cs.
Proof. exact parse_plain_checksummed. Qed.
Print Assumptions C16_written_checksum_is_verified.

(* (2) single-character alterations at the level of parse.

   CHECKSUM positions — proved outright: in the text the constructor prints, replacing any one
   of the 8 checksum characters by ANY other character (of any charset; "#" and backslash
   included) makes parse fail; so does any other well-formed checksum. *)
Theorem C16_parse_detects_checksum_char_substitution :
  forall path_ok hdparse child_ok m recs cs srt d l1 x y l2,
  hd_idempotent hdparse -> path_norm_ok path_ok -> path_chars_ok path_ok -> hd_alnum hdparse ->
  construct path_ok hdparse m recs cs srt = Ok d -> m < 2 ^ 4300 ->
  Forall (fun kr => child_ok (kr_xpub kr) (kr_idx kr) = true) (d_recs d) ->
  d_checksum d = l1 ++ x :: l2 -> y <> x ->
  parse_plain path_ok hdparse child_ok (d_text d ++ 35 :: l1 ++ y :: l2) = Err.
Proof. exact constructed_text_checksum_char_detected. Qed.
Print Assumptions C16_parse_detects_checksum_char_substitution.

Theorem C16_parse_rejects_wrong_checksum_on_text :
  forall path_ok hdparse child_ok m recs cs srt d cs',
  hd_idempotent hdparse -> path_norm_ok path_ok -> path_chars_ok path_ok -> hd_alnum hdparse ->
  construct path_ok hdparse m recs cs srt = Ok d -> m < 2 ^ 4300 ->
  Forall (fun kr => child_ok (kr_xpub kr) (kr_idx kr) = true) (d_recs d) ->
  cs_ok cs' -> cs' <> d_checksum d ->
  parse_plain path_ok hdparse child_ok (d_text d ++ 35 :: cs') = Err.
Proof. exact constructed_text_wrong_checksum. Qed.
Print Assumptions C16_parse_rejects_wrong_checksum_on_text.

(* BODY positions — partial.  Full statement (NOT proved):
     forall d constructed, body = d_text d = l1 ++ x :: l2, y in the input charset, y <> x:
       parse_plain ((l1 ++ y :: l2) ++ "#" ++ d_checksum d) = Err.
   Proved: IF parse accepts the altered text at all, then it did not read it as written (the
   text it prints back differs from the altered body) — a verbatim reading is excluded by
   C16_desc_checksum_detects_single.  Non-verbatim readings exist (see
   C16_non_verbatim_reading_example: "+5" for an account index; also a "*" after the
   fingerprint, white space at the end of a path, a SLIP-132 xpub); for them detection rests
   on the 40-bit checksum of a DIFFERENT, re-printed text, which no substitution-distance
   argument covers; the exhaustive substitution sweep on sampled descriptors exercises it. *)
Theorem C16_parse_detects_body_substitution_partial : forall path_ok hdparse child_ok l1 x y l2 cs d,
  desc_checksum (l1 ++ x :: l2) = Ok cs -> In y desc_input_charset -> x <> y ->
  parse_plain path_ok hdparse child_ok ((l1 ++ y :: l2) ++ 35 :: cs) = Ok d ->
  d_text d <> l1 ++ y :: l2.
Proof. exact parse_plain_body_substitution. Qed.
Print Assumptions C16_parse_detects_body_substitution_partial.

(* the same for ANY body (not only constructor output) under a different well-formed checksum *)
Theorem C16_checksum_substitution_not_read_verbatim : forall path_ok hdparse child_ok body cs cs' d,
  desc_checksum body = Ok cs -> cs_ok cs' -> cs' <> cs ->
  parse_plain path_ok hdparse child_ok (body ++ 35 :: cs') = Ok d ->
  d_text d <> body.
Proof. exact parse_plain_checksum_substitution. Qed.
Print Assumptions C16_checksum_substitution_not_read_verbatim.

(* =======================================================================================
   get_address                                                                             *)

(* (5) the witness script byte for byte, for 1 <= m, n <= 16 and 33-byte child keys *)
Theorem C16_witness_script_bytes : forall derive d off chg srt ks,
  1 <= d_m d <= 16 -> 1 <= zlen (d_recs d) <= 16 -> 0 <= off ->
  derives_all derive (d_recs d) chg off ks -> Forall key33 ks ->
  witness_script derive d off chg srt =
    Ok ([d_m d + 80] ++
        concat (map (cons 33) (if srt then sort_by (fun k => k) ks else ks)) ++
        [zlen (d_recs d) + 80; 174]).
Proof. exact witness_script_bytes. Qed.
Print Assumptions C16_witness_script_bytes.

Theorem C16_get_address_total : forall derive sha256 p2wsh_address d off chg srt ks,
  1 <= d_m d <= 16 -> 1 <= zlen (d_recs d) <= 16 -> 0 <= off ->
  derives_all derive (d_recs d) chg off ks -> Forall key33 ks ->
  exists ws, witness_script derive d off chg srt = Ok ws /\
    get_address derive sha256 p2wsh_address d off chg srt = Ok (p2wsh_address (sha256 ws) (d_net d)).
Proof. exact get_address_total. Qed.
Print Assumptions C16_get_address_total.

Theorem C16_witness_script_shape_unsorted : forall derive d off chg ws,
  witness_script derive d off chg false = Ok ws ->
  exists ks om on,
    derives_all derive (d_recs d) chg off ks /\
    number_to_op_code (d_m d) = Ok om /\ number_to_op_code (zlen (d_recs d)) = Ok on /\
    0 <= off /\ ser_cmds (Op om :: map Push ks ++ [Op on; Op 174]) = Ok ws.
Proof. exact witness_script_shape_unsorted. Qed.
Print Assumptions C16_witness_script_shape_unsorted.

(* (4) two descriptors CONSTRUCTED from the same key records in different orders (sorted or not,
   with or without checksum): same witness script and same address at every (offset, branch) *)
Theorem C16_constructed_address_order_independent :
  forall path_ok hdparse derive sha256 p2wsh_address m recs recs' cs cs' srt srt' d d' off chg,
  Permutation recs recs' ->
  construct path_ok hdparse m recs cs srt = Ok d ->
  construct path_ok hdparse m recs' cs' srt' = Ok d' ->
  witness_script derive d off chg true = witness_script derive d' off chg true /\
  get_address derive sha256 p2wsh_address d off chg true =
  get_address derive sha256 p2wsh_address d' off chg true.
Proof. exact constructed_address_order_independent. Qed.
Print Assumptions C16_constructed_address_order_independent.

(* (5) receive = change at one offset means: a SHA-256 collision (exhibited), or some cosigner's
   child key at (account_index, offset) is some cosigner's child key at (account_index + 1,
   offset) — two different BIP32 children with the same key (C08) *)
Theorem C16_branches_coincide_keys : forall derive sha256 p2wsh_address d off a,
  (forall h h' n, p2wsh_address h n = p2wsh_address h' n -> h = h') ->
  (forall x acc i k, derive x acc i = Ok k -> length k = 33%nat) ->
  d_recs d <> [] ->
  get_address derive sha256 p2wsh_address d off false true = Ok a ->
  get_address derive sha256 p2wsh_address d off true true = Ok a ->
  (exists s s', s <> s' /\ sha256 s = sha256 s') \/
  (exists kr1 kr2 k, In kr1 (d_recs d) /\ In kr2 (d_recs d) /\
     derive (kr_xpub kr1) (kr_idx kr1) off = Ok k /\
     derive (kr_xpub kr2) (kr_idx kr2 + 1) off = Ok k).
Proof. exact branches_coincide_keys. Qed.
Print Assumptions C16_branches_coincide_keys.

(* ---- non-vacuity of the new theorems: a toy HD layer satisfying all four hypotheses, and the
   round trip / rejections computed on it ---- *)
Example C16_hypotheses_satisfiable :
  hd_idempotent ex_hdparse2 /\ path_norm_ok ex_path_ok2 /\ path_chars_ok ex_path_ok2 /\ hd_alnum ex_hdparse2.
Proof. exact ex_hypotheses. Qed.

Definition ex_json (s : list Z) : result (list Z) := Err.
Definition ex_rec2 (x : Z) (path : list Z) (up : bool) (idx : Z) : keyrec :=
  {| kr_xfp := if up then [65; 49; 50; 51; 52; 53; 54; 55] else [97; 49; 50; 51; 52; 53; 54; 55];
     kr_path := path; kr_xpub := [120; 112; 117; 98; x]; kr_idx := idx |}.

(* records given as "M/48h " (upper-case M, trailing blank) with an upper-case fingerprint and
   as " m/7'" (leading blank): the constructor stores "m/48h", "m/7'" and a1234567, and its
   text — here with blanks and a line feed around it — parses back to the same object *)
Example C16_parse_text_roundtrip_example :
  exists d,
    construct ex_path_ok2 ex_hdparse2 2
      [ex_rec2 66 [77; 47; 52; 56; 104; 32] true 5; ex_rec2 65 [32; 109; 47; 55; 39] false 2147483647] [] true = Ok d /\
    d_recs d = [ex_rec2 65 [109; 47; 55; 39] false 2147483647; ex_rec2 66 [109; 47; 52; 56; 104] false 5] /\
    parse_text ex_path_ok2 ex_hdparse2 ex_child_ok ex_json ([32; 9] ++ desc_repr d ++ [10]) = Ok d /\
    parse_text ex_path_ok2 ex_hdparse2 ex_child_ok ex_json (d_text d) = Ok d /\
    (* "#" replaced by "!" and by a blank, text after the checksum, text before wsh( *)
    parse_text ex_path_ok2 ex_hdparse2 ex_child_ok ex_json (d_text d ++ 33 :: d_checksum d) = Err /\
    parse_text ex_path_ok2 ex_hdparse2 ex_child_ok ex_json (d_text d ++ 32 :: d_checksum d) = Err /\
    parse_text ex_path_ok2 ex_hdparse2 ex_child_ok ex_json (desc_repr d ++ [113]) = Err /\
    parse_text ex_path_ok2 ex_hdparse2 ex_child_ok ex_json (120 :: desc_repr d) = Err.
Proof.
  eexists. split; [vm_compute; reflexivity|]. split; [vm_compute; reflexivity|].
  repeat split; vm_compute; reflexivity.
Qed.

(* the same with the transcribed path check: "M/48H/0'//2h " is a valid path, stored as
   "m/48H/0'//2h" and read back *)
Example C16_parse_text_roundtrip_valid_paths_example :
  exists d,
    construct is_valid_path ex_hdparse2 1
      [ex_rec2 66 (s2z "M/48H/0'//2h ") true 0] [] true = Ok d /\
    d_recs d = [ex_rec2 66 (s2z "m/48H/0'//2h") false 0] /\
    parse_text is_valid_path ex_hdparse2 ex_child_ok ex_json (desc_repr d) = Ok d.
Proof. eexists. split; [vm_compute; reflexivity|]. split; vm_compute; reflexivity. Qed.

(* a non-verbatim reading: the account index written "+5" is accepted without a checksum and
   printed back as "5" (so d_text differs from the text that was parsed) *)
Example C16_non_verbatim_reading_example :
  let t := s2z "wsh(sortedmulti(1,[a1234567/1]xpubA/+5/*))" in
  exists d, parse_text ex_path_ok2 ex_hdparse2 ex_child_ok ex_json t = Ok d /\
            d_text d = s2z "wsh(sortedmulti(1,[a1234567/1]xpubA/5/*))".
Proof. eexists. split; vm_compute; reflexivity. Qed.

(* the witness script bytes on a toy derivation (33-byte keys that sort differently from their
   records) *)
Example C16_witness_script_bytes_example :
  let derive := fun (x : list Z) (a o : Z) => Ok (repeatz (nth 4 x 0 + a + o) 33) in
  let d := {| d_m := 1; d_recs := [ex_rec2 66 [109] false 0; ex_rec2 65 [109] false 7]; d_text := [];
              d_checksum := []; d_net := 0 |} in
  witness_script derive d 3 true true =
    Ok ([81] ++ (33 :: repeatz 70 33) ++ (33 :: repeatz 76 33) ++ [82; 174]).
Proof. vm_compute. reflexivity. Qed.
