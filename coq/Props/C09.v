(* Props/C09.v — Address and key text encodings invert exactly and reject what the specs reject.
   Only statements, each closed by [exact] of a lemma from Proofs/, followed by Print Assumptions.
   hash256 is universally quantified: any function returning 32 bytes.
   Text = list of code points; networks 0 mainnet, 1 testnet, 2 signet, 3 regtest. *)
From V Require Import Base.Prelude Base.Ints Base.Lfsr Model.Helper Model.Script Model.Base58
  Model.Bech32 Model.Address Model.AddressExt
  Proofs.Base58P Proofs.Base58ConvP Proofs.PolymodP Proofs.Bech32Sweep Proofs.Bech32DetectP Proofs.Bech32P
  Proofs.AddressP Proofs.Base58CheckConvP Proofs.SegwitConvP Proofs.AddressConvP.

(* ------------------------------------------------------------------ Base58Check *)

(* For ALL byte strings (any number of leading zero bytes, including the empty payload):
   encoding succeeds, emits only alphabet characters, and raw_decode_base58 inverts it. *)
Theorem C09_base58check_roundtrip :
  forall (hash256 : bytes -> bytes),
  (forall x, length (hash256 x) = 32%nat) -> (forall x, bytes_ok (hash256 x)) ->
  forall b, bytes_ok b ->
  exists s, encode_base58_checksum hash256 b = Ok s /\
            Forall (fun c => In c b58_alphabet) s /\
            raw_decode_base58 hash256 s = Ok b.
Proof. exact base58check_roundtrip. Qed.
Print Assumptions C09_base58check_roundtrip.

Theorem C09_encode_base58_alphabet :
  forall s t, bytes_ok s -> encode_base58 s = Ok t -> Forall (fun c => In c b58_alphabet) t.
Proof. exact encode_base58_alphabet. Qed.
Print Assumptions C09_encode_base58_alphabet.

(* encode_base58 writes one '1' per leading zero byte followed by the canonical base-58
   digits of the big-endian value; the empty byte string raises (int("", 16)). *)
Theorem C09_encode_base58_shape :
  forall s, s <> [] -> bytes_ok s ->
  exists digits, encode_base58 s = Ok (repeatz 49 (count_lz s) ++ map b58_char digits) /\
                 canonical 58 digits /\ val 58 digits = from_be s.
Proof. exact encode_base58_spec. Qed.
Print Assumptions C09_encode_base58_shape.

Theorem C09_encode_base58_empty_raises : encode_base58 [] = Err.
Proof. reflexivity. Qed.
Print Assumptions C09_encode_base58_empty_raises.

(* A string is accepted exactly when the last four decoded bytes equal the first four bytes
   of hash256 of the rest; [b58_to_bytes] is the code's conversion loop (leading-'1' handling
   `num == 0 and c == "1"` modelled literally) ... *)
Theorem C09_base58check_accept_iff :
  forall (hash256 : bytes -> bytes) s b,
  raw_decode_base58 hash256 s = Ok b <->
  exists c, b58_to_bytes s = Ok c /\ b = but_last4 c /\ firstn 4 (hash256 b) = last4 c.
Proof. exact base58check_accept_iff. Qed.
Print Assumptions C09_base58check_accept_iff.

(* ... which raises exactly when a character is outside the alphabet ... *)
Theorem C09_base58_conversion_defined_iff :
  forall s, (exists c, b58_to_bytes s = Ok c) <-> Forall (fun ch => In ch b58_alphabet) s.
Proof. exact b58_to_bytes_ok_iff. Qed.
Print Assumptions C09_base58_conversion_defined_iff.

(* ... and is the left inverse of encode_base58 on every non-empty byte string: a '1' after
   a non-'1' character is a digit, the leading '1's are exactly the leading zero bytes. *)
Theorem C09_base58_conversion_inverts :
  forall s t, bytes_ok s -> encode_base58 s = Ok t -> b58_to_bytes t = Ok s.
Proof. exact b58_to_bytes_encode. Qed.
Print Assumptions C09_base58_conversion_inverts.

Theorem C09_base58check_short_rejected :
  forall (hash256 : bytes -> bytes), (forall x, length (hash256 x) = 32%nat) ->
  forall s c, b58_to_bytes s = Ok c -> (length c < 4)%nat -> raw_decode_base58 hash256 s = Err.
Proof. exact base58check_short_rejected. Qed.
Print Assumptions C09_base58check_short_rejected.

(* ------------------------------------------------------------------ Bech32 / Bech32m *)

(* group_32 is the 8 -> 5 regrouping with zero padding (numeric form: the 5-bit digits read
   as one number equal the bytes read as one number, shifted left by the p < 5 padding bits);
   on the empty string it returns one zero symbol. *)
Theorem C09_group_32_regroup :
  forall s, bytes_ok s ->
  exists syms, group_32 s = Ok syms /\ Forall sym5 syms /\
    (s = [] -> syms = [0]) /\
    (s <> [] -> exists p, 0 <= p < 5 /\ 5 * zlen syms = 8 * zlen s + p /\
                          val 32 syms = val 256 s * 2 ^ p).
Proof. exact group_32_spec. Qed.
Print Assumptions C09_group_32_regroup.

(* polymod of (anything ++ created checksum) equals the constant, from every 30-bit start state *)
Theorem C09_checksum_valid :
  forall const c vs, st_ok c -> st_ok const -> Forall sym5 vs ->
  run GEN 25 5 c (vs ++ chk_syms (Z.lxor (run GEN 25 5 c (vs ++ zeros6)) const)) = const.
Proof. exact checksum_valid. Qed.
Print Assumptions C09_checksum_valid.

(* witness versions 0..16, program lengths 2..40, the four networks; signet shares "tb" with
   testnet, so it decodes as testnet ([net_back]) *)
Theorem C09_segwit_roundtrip :
  forall net v prog,
  0 <= v <= 16 -> bytes_ok prog -> (2 <= length prog <= 40)%nat -> 0 <= net <= 3 ->
  exists addr, encode_bech32_checksum (witness_program v prog) net = Ok addr /\
               decode_bech32 addr = Ok (net_back net, v, prog).
Proof. exact segwit_roundtrip. Qed.
Print Assumptions C09_segwit_roundtrip.

Theorem C09_constant_selection :
  forall net v prog,
  0 <= v <= 16 -> bytes_ok prog -> (2 <= length prog <= 40)%nat -> 0 <= net <= 3 ->
  exists hrp data,
    prefix_of net = Ok hrp /\
    encode_bech32_checksum (witness_program v prog) net = Ok (hrp ++ [49] ++ map b32c data) /\
    bech32_verify_checksum hrp data = (v =? 0) /\
    bech32m_verify_checksum hrp data = negb (v =? 0).
Proof. exact constant_selection. Qed.
Print Assumptions C09_constant_selection.

(* XOR-linearity of the polymod, for every length, start value and generator list *)
Theorem C09_polymod_linear :
  forall gens k w c vs es, length vs = length es ->
  run gens k w c (xorl vs es) = Z.lxor (run gens k w c vs) (syn gens k w es).
Proof. exact run_error. Qed.
Print Assumptions C09_polymod_linear.

(* the complete kernel computation: positions < 90, all non-zero symbol differences,
   syndromes 0 and 1 xor 0x2bc830a3 excluded *)
Theorem C09_sweep_90 : sweep GEN 25 5 90 (Z.lxor 1 BECH32M_CONSTANT) = true.
Proof. exact bech32_sweep_90. Qed.
Print Assumptions C09_sweep_90.

(* Error detection, general form: any symbol string [data] of at most 90 symbols that is valid
   for the constant selected by its own first symbol; [d'] = the data part with one or two
   characters substituted by ANY characters (alphabet or not), including the version character
   (which changes the constant that decode_bech32 checks) and the checksum characters. *)
Theorem C09_bech32_detects_two :
  forall hrp data d',
  known_hrp hrp -> Forall sym5 data -> (length data <= 90)%nat ->
  bech32_polymod (hrp_expand hrp ++ data) = const_of (hd 0 data) ->
  length d' = length data ->
  (1 <= hamming (map b32c data) d' <= 2)%nat ->
  decode_bech32 (hrp ++ [49] ++ d') = Err.
Proof. exact bech32_detects_two. Qed.
Print Assumptions C09_bech32_detects_two.

(* ... and for every address the encoder produces (whose data part has at most 71 <= 90 characters) *)
Theorem C09_segwit_detects_two :
  forall net v prog,
  0 <= v <= 16 -> bytes_ok prog -> (2 <= length prog <= 40)%nat -> 0 <= net <= 3 ->
  exists hrp d,
    prefix_of net = Ok hrp /\
    encode_bech32_checksum (witness_program v prog) net = Ok (hrp ++ [49] ++ d) /\
    (length d <= 90)%nat /\
    forall d', length d' = length d -> (1 <= hamming d d' <= 2)%nat ->
               decode_bech32 (hrp ++ [49] ++ d') = Err.
Proof. exact segwit_detects_two. Qed.
Print Assumptions C09_segwit_detects_two.

(* ------------------------------------------------------------------ addresses and WIF *)

(* P2WPKH (t=2, 20 bytes), P2WSH (t=3, 32 bytes), P2TR (t=4, 32 bytes) on the four networks:
   script -> address -> script, both with address_to_script_pubkey and with TxOut.to_address
   (regtest included since fix 2063db4).  Since decode_bech32 of the address returns
   (version, program), different scripts of these templates have different addresses. *)
Theorem C09_segwit_address_roundtrip :
  forall (hash256 : bytes -> bytes) t h net,
  seg_template t h -> 0 <= net <= 3 ->
  exists a, segwit_address (seg_script t h) net = Ok a /\
            decode_bech32 a = Ok (net_back net, seg_version t, h) /\
            address_to_script_pubkey hash256 a = Ok (seg_script t h) /\
            to_address_spk hash256 a = Ok (seg_script t h).
Proof. exact segwit_address_roundtrip. Qed.
Print Assumptions C09_segwit_address_roundtrip.

(* P2PKH (t=0) / P2SH (t=1), 20-byte hash, every network: script -> address -> script through
   address_to_script_pubkey and through TxOut.to_address.  The first-character dispatch is
   proved by a bound argument on the base-58 value of the 25-byte payload: version 0x00 gives
   '1', 0x05 gives '3', 0x6f gives 'm' or 'n', 0xc4 gives '2'. *)
Theorem C09_base58_address_roundtrip :
  forall (hash256 : bytes -> bytes),
  (forall x, length (hash256 x) = 32%nat) -> (forall x, bytes_ok (hash256 x)) ->
  forall t h net, (t = 0 \/ t = 1) -> bytes_ok h -> length h = 20%nat ->
  exists a, (if t =? 0 then p2pkh_address hash256 h net else p2sh_address hash256 h net) = Ok a /\
            address_to_script_pubkey hash256 a = Ok (b58_script t h) /\
            to_address_spk hash256 a = Ok (b58_script t h).
Proof. exact base58_address_roundtrip. Qed.
Print Assumptions C09_base58_address_roundtrip.

Theorem C09_base58_address_injective :
  forall (hash256 : bytes -> bytes),
  (forall x, length (hash256 x) = 32%nat) -> (forall x, bytes_ok (hash256 x)) ->
  forall t1 h1 t2 h2 net a,
  (t1 = 0 \/ t1 = 1) -> bytes_ok h1 -> length h1 = 20%nat ->
  (t2 = 0 \/ t2 = 1) -> bytes_ok h2 -> length h2 = 20%nat ->
  b58_address hash256 t1 h1 net = Ok a -> b58_address hash256 t2 h2 net = Ok a ->
  b58_script t1 h1 = b58_script t2 h2.
Proof. exact base58_address_injective. Qed.
Print Assumptions C09_base58_address_injective.

(* the address uses only alphabet characters and decode_base58 returns the hash (any length) *)
Theorem C09_base58_address_payload :
  forall (hash256 : bytes -> bytes),
  (forall x, length (hash256 x) = 32%nat) -> (forall x, bytes_ok (hash256 x)) ->
  forall t h net, (t = 0 \/ t = 1) -> bytes_ok h ->
  exists a, (if t =? 0 then p2pkh_address hash256 h net else p2sh_address hash256 h net) = Ok a /\
            Forall (fun c => In c b58_alphabet) a /\
            decode_base58 hash256 a = Ok h.
Proof. exact base58_address_payload. Qed.
Print Assumptions C09_base58_address_payload.

(* WIF: compressed/uncompressed x mainnet/other.  parse() cannot tell testnet, signet and
   regtest apart (all use 0xef), as its docstring says: it reports "not mainnet". *)
Theorem C09_wif_roundtrip :
  forall (hash256 : bytes -> bytes),
  (forall x, length (hash256 x) = 32%nat) -> (forall x, bytes_ok (hash256 x)) ->
  forall secret mainnet compressed, 1 <= secret < secp_n ->
  exists w, wif_encode hash256 secret mainnet compressed = Ok w /\
            wif_parse hash256 w = Ok (secret, mainnet, compressed).
Proof. exact wif_roundtrip. Qed.
Print Assumptions C09_wif_roundtrip.

Theorem C09_wif_range :
  forall (hash256 : bytes -> bytes) secret mainnet compressed,
  ~ (1 <= secret < secp_n) -> wif_encode hash256 secret mainnet compressed = Err.
Proof. exact wif_range. Qed.
Print Assumptions C09_wif_range.

(* ================================================================== CONVERSE DIRECTION
   decode, then encode: the decoders and parsers accept EXACTLY the encoders' outputs (code after
   the fixes cfb8181, 00bc7dc, adc6e07, 87f2a60, 6e4d66f, which repaired the counterexamples
   the earlier _refuted statements of this file exhibited). *)

(* ------------------------------------------------------------------ Base58Check *)

(* the conversion loop of raw_decode_base58 is injective on texts, and encode_base58 undoes it *)
Theorem C09_base58_conversion_encode :
  forall s c, b58_to_bytes s = Ok c -> bytes_ok c /\ (c <> [] -> encode_base58 c = Ok s).
Proof. exact b58_to_bytes_spec. Qed.
Print Assumptions C09_base58_conversion_encode.

Theorem C09_base58_conversion_injective :
  forall s s' c, c <> [] -> b58_to_bytes s = Ok c -> b58_to_bytes s' = Ok c -> s = s'.
Proof. exact b58_to_bytes_inj. Qed.
Print Assumptions C09_base58_conversion_injective.

(* a text is accepted with payload b exactly when it is encode_base58_checksum(b) *)
Theorem C09_base58check_accepted_iff_encoded :
  forall (hash256 : bytes -> bytes),
  (forall x, length (hash256 x) = 32%nat) -> (forall x, bytes_ok (hash256 x)) ->
  forall s b,
  raw_decode_base58 hash256 s = Ok b <-> (bytes_ok b /\ encode_base58_checksum hash256 b = Ok s).
Proof. exact base58check_accepted_iff_encoded. Qed.
Print Assumptions C09_base58check_accepted_iff_encoded.

Theorem C09_base58check_decode_injective :
  forall (hash256 : bytes -> bytes), (forall x, length (hash256 x) = 32%nat) ->
  forall s1 s2 b,
  raw_decode_base58 hash256 s1 = Ok b -> raw_decode_base58 hash256 s2 = Ok b -> s1 = s2.
Proof. exact raw_decode_base58_inj. Qed.
Print Assumptions C09_base58check_decode_injective.

Theorem C09_base58check_encode_injective :
  forall (hash256 : bytes -> bytes),
  (forall x, length (hash256 x) = 32%nat) -> (forall x, bytes_ok (hash256 x)) ->
  forall b1 b2 s, bytes_ok b1 -> bytes_ok b2 ->
  encode_base58_checksum hash256 b1 = Ok s -> encode_base58_checksum hash256 b2 = Ok s -> b1 = b2.
Proof. exact encode_base58_checksum_inj. Qed.
Print Assumptions C09_base58check_encode_injective.

(* ------------------------------------------------------------------ WIF *)

(* PrivateKey.parse(w) = (secret, mainnet, compressed): the secret is in [1, N-1], wif() of the
   parsed key is w itself, and the payload has 33 (uncompressed) / 34 (compressed) bytes
   (the length side condition of the earlier statement is gone: fix 6e4d66f) *)
Theorem C09_wif_parse_encode :
  forall (hash256 : bytes -> bytes), (forall x, length (hash256 x) = 32%nat) ->
  forall w secret mainnet compressed,
  wif_parse hash256 w = Ok (secret, mainnet, compressed) ->
  1 <= secret < secp_n /\
  wif_encode hash256 secret mainnet compressed = Ok w /\
  exists raw, raw_decode_base58 hash256 w = Ok raw /\
              length raw = (if compressed then 34 else 33)%nat.
Proof. exact wif_parse_encode. Qed.
Print Assumptions C09_wif_parse_encode.

(* PrivateKey.parse accepts exactly the WIF texts *)
Theorem C09_wif_parse_iff :
  forall (hash256 : bytes -> bytes),
  (forall x, length (hash256 x) = 32%nat) -> (forall x, bytes_ok (hash256 x)) ->
  forall w secret mainnet compressed,
  wif_parse hash256 w = Ok (secret, mainnet, compressed) <->
  wif_encode hash256 secret mainnet compressed = Ok w.
Proof. exact wif_parse_iff. Qed.
Print Assumptions C09_wif_parse_iff.

Theorem C09_wif_parse_injective :
  forall (hash256 : bytes -> bytes),
  (forall x, length (hash256 x) = 32%nat) -> (forall x, bytes_ok (hash256 x)) ->
  forall w1 w2 r, wif_parse hash256 w1 = Ok r -> wif_parse hash256 w2 = Ok r -> w1 = w2.
Proof. exact wif_parse_inj. Qed.
Print Assumptions C09_wif_parse_injective.

(* the former counterexample: Base58Check(80 01) is rejected *)
Theorem C09_wif_short_payload_rejected :
  forall (hash256 : bytes -> bytes),
  (forall x, length (hash256 x) = 32%nat) -> (forall x, bytes_ok (hash256 x)) ->
  exists w, encode_base58_checksum hash256 [128; 1] = Ok w /\ wif_parse hash256 w = Err.
Proof. exact wif_short_payload_rejected. Qed.
Print Assumptions C09_wif_short_payload_rejected.

(* ------------------------------------------------------------------ Bech32 / Bech32m *)

(* the six checksum symbols are determined by what precedes them (any start state, any constant) *)
Theorem C09_checksum_unique :
  forall const c vs chk,
  st_ok c -> st_ok const -> Forall sym5 vs -> Forall sym5 chk -> length chk = 6%nat ->
  run GEN 25 5 c (vs ++ chk) = const ->
  chk = chk_syms (Z.lxor (run GEN 25 5 c (vs ++ zeros6)) const).
Proof. exact checksum_unique. Qed.
Print Assumptions C09_checksum_unique.

(* ranges of what decode_bech32 returns (it does NOT restrict the version to 0..16) *)
Theorem C09_decode_bech32_wf :
  forall a net v prog, decode_bech32 a = Ok (net, v, prog) ->
  (net = 0 \/ net = 1 \/ net = 3) /\ 0 <= v < 32 /\ bytes_ok prog /\ (2 <= length prog <= 40)%nat.
Proof. exact decode_bech32_wf. Qed.
Print Assumptions C09_decode_bech32_wf.

(* Decode then encode is the identity on EVERY accepted text (no side condition any more), and
   every accepted text has the shape prefix ++ "1" ++ version ++ body ++ 6 checksum symbols with
   fewer than 5 padding bits, all zero.
   pad_bits body = 5*|body| mod 8, pad_value body = (body as a base-32 number) mod 2^pad_bits. *)
Theorem C09_segwit_decode_encode :
  forall a net v prog,
  decode_bech32 a = Ok (net, v, prog) ->
  encode_bech32_checksum (witness_program v prog) net = Ok a /\
  exists hrp body chk,
    a = hrp ++ [49] ++ map b32c (v :: body ++ chk) /\ prefix_of net = Ok hrp /\
    known_hrp hrp /\ Forall sym5 (v :: body ++ chk) /\ length chk = 6%nat /\
    pad_bits body < 5 /\ pad_value body = 0.
Proof. exact segwit_decode_encode. Qed.
Print Assumptions C09_segwit_decode_encode.

(* ... so decode_bech32 is injective ... *)
Theorem C09_decode_bech32_injective :
  forall a1 a2 r, decode_bech32 a1 = Ok r -> decode_bech32 a2 = Ok r -> a1 = a2.
Proof. exact decode_bech32_inj. Qed.
Print Assumptions C09_decode_bech32_injective.

(* ... every accepted text is canonical ... *)
Theorem C09_decode_bech32_canonical :
  forall a r, decode_bech32 a = Ok r -> canonical_text a.
Proof. exact decode_bech32_canonical. Qed.
Print Assumptions C09_decode_bech32_canonical.

(* ... every encoder output is canonical (versions 0..16, 2..40 bytes) ... *)
Theorem C09_segwit_encode_is_canonical :
  forall net v prog a,
  0 <= v <= 16 -> bytes_ok prog -> (2 <= length prog <= 40)%nat -> 0 <= net <= 3 ->
  encode_bech32_checksum (witness_program v prog) net = Ok a -> canonical_text a.
Proof. exact segwit_encode_is_canonical. Qed.
Print Assumptions C09_segwit_encode_is_canonical.

(* ... and the accepted set, exactly.  REMAINING LENIENCY of decode_bech32 itself, visible in the
   ranges: any version symbol 0..31 (BIP173: 0..16) and any program length 2..40 whatever the
   version (BIP141: 20 or 32 for version 0); both are decided by the address parsers below.
   Upper-case texts are rejected (BIP173 allows them). *)
Theorem C09_decode_bech32_iff :
  forall a net v prog,
  decode_bech32 a = Ok (net, v, prog) <->
  ((net = 0 \/ net = 1 \/ net = 3) /\ 0 <= v < 32 /\ bytes_ok prog /\ (2 <= length prog <= 40)%nat /\
   encode_bech32_checksum (witness_program v prog) net = Ok a).
Proof. exact decode_bech32_iff. Qed.
Print Assumptions C09_decode_bech32_iff.

(* the round trip for every version symbol the codec handles *)
Theorem C09_segwit_roundtrip_all_versions :
  forall net v prog,
  0 <= v < 32 -> bytes_ok prog -> (2 <= length prog <= 40)%nat -> 0 <= net <= 3 ->
  exists addr, encode_bech32_checksum (witness_program v prog) net = Ok addr /\
               decode_bech32 addr = Ok (net_back net, v, prog).
Proof. exact segwit_roundtrip32. Qed.
Print Assumptions C09_segwit_roundtrip_all_versions.

(* the former counterexamples: wA2 = BIP173's invalid "non-zero padding" vector, wB2 = five
   padding bits (fix cfb8181), wC2 = "bcrtx..." (fix 00bc7dc) are rejected; wD (version 0,
   21-byte program) is still decoded by decode_bech32 and rejected by the parsers only *)
Theorem C09_decode_former_witnesses :
  decode_bech32 wA1 = Ok (1, 0, wA_prog) /\ decode_bech32 wA2 = Err /\
  decode_bech32 wB1 = Ok (0, 0, wB_prog) /\ decode_bech32 wB2 = Err /\
  decode_bech32 wC1 = Ok (3, 0, wB_prog) /\ decode_bech32 wC2 = Err /\
  decode_bech32 wD = Ok (0, 0, wD_prog) /\ length wD_prog = 21%nat.
Proof. exact decode_former_witnesses. Qed.
Print Assumptions C09_decode_former_witnesses.

(* ------------------------------------------------------------------ the five templates, uniformly *)

(* std_template t h: t = 0 P2PKH, 1 P2SH, 2 P2WPKH (20-byte h), 3 P2WSH, 4 P2TR (32-byte h);
   std_script / std_address: the scriptPubKey commands and ScriptPubKey.address(network) *)
Theorem C09_std_address_roundtrip :
  forall (hash256 : bytes -> bytes),
  (forall x, length (hash256 x) = 32%nat) -> (forall x, bytes_ok (hash256 x)) ->
  forall t h net, std_template t h -> 0 <= net <= 3 ->
  exists a, std_address hash256 t h net = Ok a /\
            address_to_script_pubkey hash256 a = Ok (std_script t h) /\
            to_address_spk hash256 a = Ok (std_script t h).
Proof. exact std_address_roundtrip. Qed.
Print Assumptions C09_std_address_roundtrip.

(* per network the address determines template and hash, across all five templates *)
Theorem C09_std_address_injective :
  forall (hash256 : bytes -> bytes),
  (forall x, length (hash256 x) = 32%nat) -> (forall x, bytes_ok (hash256 x)) ->
  forall t1 h1 t2 h2 net a,
  std_template t1 h1 -> std_template t2 h2 -> 0 <= net <= 3 ->
  std_address hash256 t1 h1 net = Ok a -> std_address hash256 t2 h2 net = Ok a ->
  t1 = t2 /\ h1 = h2.
Proof. exact std_address_injective. Qed.
Print Assumptions C09_std_address_injective.

(* THE BIJECTION IN BOTH DIRECTIONS.  TxOut.to_address accepts a text with result cs exactly
   when the text is the address of cs, cs one of the five templates, on some network ... *)
Theorem C09_to_address_iff :
  forall (hash256 : bytes -> bytes),
  (forall x, length (hash256 x) = 32%nat) -> (forall x, bytes_ok (hash256 x)) ->
  forall a cs,
  to_address_spk hash256 a = Ok cs <->
  exists t h net, std_template t h /\ 0 <= net <= 3 /\ cs = std_script t h /\
                  std_address hash256 t h net = Ok a.
Proof. exact to_address_iff. Qed.
Print Assumptions C09_to_address_iff.

(* ... and so does address_to_script_pubkey (fixes adc6e07, 87f2a60) ... *)
Theorem C09_address_to_script_pubkey_iff :
  forall (hash256 : bytes -> bytes),
  (forall x, length (hash256 x) = 32%nat) -> (forall x, bytes_ok (hash256 x)) ->
  forall a cs,
  address_to_script_pubkey hash256 a = Ok cs <->
  exists t h net, std_template t h /\ 0 <= net <= 3 /\ cs = std_script t h /\
                  std_address hash256 t h net = Ok a.
Proof. exact address_to_script_pubkey_iff. Qed.
Print Assumptions C09_address_to_script_pubkey_iff.

(* ... so the two parsers agree on every text ... *)
Theorem C09_parsers_agree :
  forall (hash256 : bytes -> bytes),
  (forall x, length (hash256 x) = 32%nat) -> (forall x, bytes_ok (hash256 x)) ->
  forall a cs, address_to_script_pubkey hash256 a = Ok cs <-> to_address_spk hash256 a = Ok cs.
Proof. exact parsers_agree. Qed.
Print Assumptions C09_parsers_agree.

(* ... and address -> script is injective among the addresses of one network *)
Theorem C09_parser_injective_per_network :
  forall (hash256 : bytes -> bytes),
  (forall x, length (hash256 x) = 32%nat) -> (forall x, bytes_ok (hash256 x)) ->
  forall t1 h1 t2 h2 net a1 a2 cs,
  std_template t1 h1 -> std_template t2 h2 -> 0 <= net <= 3 ->
  std_address hash256 t1 h1 net = Ok a1 -> std_address hash256 t2 h2 net = Ok a2 ->
  to_address_spk hash256 a1 = Ok cs -> to_address_spk hash256 a2 = Ok cs -> a1 = a2.
Proof. exact parser_injective_per_network. Qed.
Print Assumptions C09_parser_injective_per_network.

(* the former counterexamples are rejected by both parsers (for every hash256) *)
Theorem C09_former_witnesses_rejected :
  forall (hash256 : bytes -> bytes),
  address_to_script_pubkey hash256 wA1 = Ok (p2wsh_script wA_prog) /\
  to_address_spk hash256 wA1 = Ok (p2wsh_script wA_prog) /\
  address_to_script_pubkey hash256 wA2 = Err /\ to_address_spk hash256 wA2 = Err /\
  to_address_spk hash256 wB1 = Ok (p2wpkh_script wB_prog) /\
  address_to_script_pubkey hash256 wB2 = Err /\ to_address_spk hash256 wB2 = Err /\
  address_to_script_pubkey hash256 wD = Err /\ to_address_spk hash256 wD = Err.
Proof. exact former_witnesses_rejected. Qed.
Print Assumptions C09_former_witnesses_rejected.

(* the Base58Check version byte is compared: for EVERY 20-byte hash, the text of 0x70 :: h
   (which starts with 'n' and reaches the P2PKH branch) is rejected by both parsers *)
Theorem C09_base58_foreign_version_rejected :
  forall (hash256 : bytes -> bytes),
  (forall x, length (hash256 x) = 32%nat) -> (forall x, bytes_ok (hash256 x)) ->
  forall h, bytes_ok h -> length h = 20%nat ->
  exists a, encode_base58_checksum hash256 (112 :: h) = Ok a /\
            address_to_script_pubkey hash256 a = Err /\ to_address_spk hash256 a = Err.
Proof. exact base58_foreign_version_rejected. Qed.
Print Assumptions C09_base58_foreign_version_rejected.

(* ------------------------------------------------------------------ other entry points *)

(* RedeemScript.address and SegwitPubKey.p2sh_address; hash160 is any function with 20-byte output *)
Theorem C09_redeem_script_address_roundtrip :
  forall (hash256 : bytes -> bytes),
  (forall x, length (hash256 x) = 32%nat) -> (forall x, bytes_ok (hash256 x)) ->
  forall (hash160 : bytes -> bytes),
  (forall x, length (hash160 x) = 20%nat) -> (forall x, bytes_ok (hash160 x)) ->
  forall cs raw net, raw_serialize (mk_script cs) = Ok raw ->
  exists a, redeem_script_address hash256 hash160 cs net = Ok a /\
            segwit_p2sh_address hash256 hash160 cs net = Ok a /\
            address_to_script_pubkey hash256 a = Ok (p2sh_script (hash160 raw)) /\
            to_address_spk hash256 a = Ok (p2sh_script (hash160 raw)).
Proof. exact redeem_script_address_roundtrip. Qed.
Print Assumptions C09_redeem_script_address_roundtrip.

(* WitnessScript.address; sha256 is any function with 32-byte output *)
Theorem C09_witness_script_address_roundtrip :
  forall (hash256 sha256 : bytes -> bytes),
  (forall x, length (sha256 x) = 32%nat) -> (forall x, bytes_ok (sha256 x)) ->
  forall cs raw net, raw_serialize (mk_script cs) = Ok raw -> 0 <= net <= 3 ->
  exists a, witness_script_address sha256 cs net = Ok a /\
            decode_bech32 a = Ok (net_back net, 0, sha256 raw) /\
            address_to_script_pubkey hash256 a = Ok (p2wsh_script (sha256 raw)) /\
            to_address_spk hash256 a = Ok (p2wsh_script (sha256 raw)).
Proof. exact witness_script_address_roundtrip. Qed.
Print Assumptions C09_witness_script_address_roundtrip.

(* WitnessScript.p2sh_address (P2SH-P2WSH) *)
Theorem C09_witness_script_p2sh_address_roundtrip :
  forall (hash256 : bytes -> bytes),
  (forall x, length (hash256 x) = 32%nat) -> (forall x, bytes_ok (hash256 x)) ->
  forall (hash160 sha256 : bytes -> bytes),
  (forall x, length (hash160 x) = 20%nat) -> (forall x, bytes_ok (hash160 x)) ->
  (forall x, length (sha256 x) = 32%nat) -> (forall x, bytes_ok (sha256 x)) ->
  forall cs raw net, raw_serialize (mk_script cs) = Ok raw ->
  exists a, witness_script_p2sh_address hash256 hash160 sha256 cs net = Ok a /\
            address_to_script_pubkey hash256 a = Ok (p2sh_script (hash160 (0 :: 32 :: sha256 raw))) /\
            to_address_spk hash256 a = Ok (p2sh_script (hash160 (0 :: 32 :: sha256 raw))).
Proof. exact witness_script_p2sh_address_roundtrip. Qed.
Print Assumptions C09_witness_script_p2sh_address_roundtrip.

(* byte level: serialised standard scriptPubKey -> ScriptPubKey.parse (typed object) ->
   address(network) -> address_to_script_pubkey -> serialize() = the same bytes *)
Theorem C09_spk_bytes_roundtrip :
  forall (hash256 : bytes -> bytes),
  (forall x, length (hash256 x) = 32%nat) -> (forall x, bytes_ok (hash256 x)) ->
  forall t h net, std_template t h -> 0 <= net <= 3 ->
  exists b a, serialize_script (mk_script (std_script t h)) = Ok b /\
              spk_bytes_address hash256 b net = Ok a /\
              std_address hash256 t h net = Ok a /\
              address_to_spk_bytes hash256 a = Ok b.
Proof. exact spk_bytes_roundtrip. Qed.
Print Assumptions C09_spk_bytes_roundtrip.

(* ------------------------------------------------------------------ non-vacuity *)

Definition toy_hash (b : bytes) : bytes := repeatz (zlen b mod 256) 32.
Example toy_hash_len : forall x, length (toy_hash x) = 32%nat.
Proof. intros x. apply repeatz_length. Qed.
Example toy_hash_ok : forall x, bytes_ok (toy_hash x).
Proof. intros x. apply bytes_ok_repeatz. unfold byte_ok. apply Z.mod_pos_bound. lia. Qed.

(* BIP173 test vector, then one and two substituted characters (incl. the version character) *)
Example ex_addr :
  encode_bech32_checksum
    (witness_program 0 [117;30;118;232;25;145;150;212;84;148;28;69;209;179;163;35;241;67;59;214]) 0
  = Ok [98;99;49;113;119;53;48;56;100;54;113;101;106;120;116;100;103;52;121;53;114;51;122;97;114;
        118;97;114;121;48;99;53;120;119;55;107;118;56;102;51;116;52].
Proof. vm_compute. reflexivity. Qed.
Example ex_addr_subst_version_char :
  decode_bech32 [98;99;49;112;119;53;48;56;100;54;113;101;106;120;116;100;103;52;121;53;114;51;122;97;114;
        118;97;114;121;48;99;53;120;119;55;107;118;56;102;51;116;52] = Err.
Proof. vm_compute. reflexivity. Qed.

(* hypotheses of the converse theorems are satisfiable *)
Example ex_canonical : canonical_text wA1.
Proof.
  apply (segwit_encode_is_canonical 1 0 wA_prog); try lia.
  - apply bytes_okb_ok. vm_compute. reflexivity.
  - cbn. lia.
  - vm_compute. reflexivity.
Qed.
Example ex_std_template : std_template 4 wA_prog /\ std_template 0 wB_prog.
Proof.
  split; (split; [apply bytes_okb_ok; vm_compute; reflexivity|]); [right|left]; split; auto.
Qed.
Example ex_to_address_accepts : to_address_spk toy_hash wA1 = Ok (p2wsh_script wA_prog).
Proof. vm_compute. reflexivity. Qed.
Example ex_wif_parse_accepts :
  exists w, wif_parse toy_hash w = Ok (1, true, true).
Proof.
  destruct (wif_roundtrip toy_hash toy_hash_len toy_hash_ok 1 true true ltac:(unfold secp_n; lia))
    as [w [_ P]]. eauto.
Qed.
Example ex_raw_serialize : raw_serialize (mk_script [Op 82; Push [2; 1]; Op 174]) = Ok [82; 2; 2; 1; 174].
Proof. reflexivity. Qed.
(* remaining leniency: version 17 is accepted by decode_bech32 (BIP173 allows 0..16 only) *)
Example ex_version_17 :
  decode_bech32 [98;99;49;51;113;113;113;113;106;103;103;102;122;113] = Ok (0, 17, [0; 0]) /\
  encode_bech32_checksum (witness_program 17 [0; 0]) 0 = Ok [98;99;49;51;113;113;113;113;106;103;103;102;122;113].
Proof. split; vm_compute; reflexivity. Qed.

(* The constants written in the model are the constants of the SOURCE: coq/Generated/SrcConsts.v is regenerated
   from /repo/buidl/*.py by harness/gen_coq_consts.py on every run; the statements are spelled out in
   Proofs/ConstsTie.v (bech32_is_source_stmt, base58_is_source_stmt). *)
From V Require Proofs.ConstsTie.
Theorem C09_constants_match_source : ConstsTie.bech32_is_source_stmt /\ ConstsTie.base58_is_source_stmt.
Proof. exact (conj ConstsTie.bech32_is_source ConstsTie.base58_is_source). Qed.
Print Assumptions C09_constants_match_source.
