(* Props/C11.v — faithfulness of the human-readable multisig PSBT summary
   (buidl/psbt.py PSBT.describe_basic_multisig; model: Model/PsbtDescribe.v).
   Statements only; proofs in Proofs/PsbtDescribeP.v.

   hash160, sha256 : any functions (sha256 with 32-byte output for the refutation example);
   xpub : any type; derive : xpub -> path -> option sec is any function (HDPublicKey.child iterated).
   Section hypotheses that remain premises: none, except [forall b, length (sha256 b) = 32] in
   C11_witness_utxo_amount_unchecked_refuted (needed for the example PSBT to be a P2WSH spend). *)
From V Require Import Base.Prelude Base.Ints Model.Helper Model.Script Model.PsbtDescribe
  Proofs.PsbtDescribeP.
From Coq Require Import Permutation.

(* get_quorum (both script classes, after fixes a89f508 / 6e9e1d2) accepts exactly
   OP_m <n keys of 33/65 bytes> OP_n OP_CHECKMULTISIG with 1 <= m <= n <= 16 *)
Theorem C11_quorum_only_of_standard_multisig : forall cs m n,
  (redeem_quorum cs = Ok (m, n) \/ witness_quorum cs = Ok (m, n)) -> std_multisig m n cs.
Proof. intros cs m n [H|H]; [exact (redeem_quorum_std cs m n H)|exact (witness_quorum_std cs m n H)]. Qed.
Print Assumptions C11_quorum_only_of_standard_multisig.

(* (1) whenever a summary is returned: fee = sum(in) - sum(out), spend + change + fee = sum(in),
   every output is listed once and counted exactly once, as spend or as change; at most one change *)
Theorem C11_summary_arithmetic : forall hash160 sha256 xpub derive hm0 (p : psbt xpub) s,
  describe hash160 sha256 xpub derive hm0 p = Ok s ->
  exists vs, map i_value (p_ins p) = map Some vs /\
    s_total_in s = sumz vs /\
    s_total_out s = sumz (map o_amount (p_outs p)) /\
    s_fee s = s_total_in s - s_total_out s /\
    s_spend s + s_change s + s_fee s = s_total_in s /\
    s_outs s = map (fun o => (o_amount o, is_change o)) (p_outs p) /\
    s_spend s = sumz (map o_amount (filter (fun o => negb (is_change o)) (p_outs p))) /\
    s_change s = sumz (map o_amount (filter is_change (p_outs p))) /\
    (length (filter is_change (p_outs p)) <= 1)%nat.
Proof. exact summary_arithmetic. Qed.
Print Assumptions C11_summary_arithmetic.

(* (2) an output is labelled change only if (a) its scriptPubKey is the P2SH / P2WSH / P2SH-P2WSH
   commitment to the attached script, (b) that script is exactly OP_m <n keys> OP_n OP_CHECKMULTISIG
   with the m and n of every input's script, (c) it has n named keys with n distinct fingerprints,
   each fingerprint in the xpub map, each key = derive xpub (ltrim path) and each key one of the
   script's keys; with the dict invariants (distinct dict keys, dict key = sec) the script's key list
   is a permutation of the named keys: exactly one key per cosigner. *)
Theorem C11_change_label_sound : forall hash160 sha256 xpub derive hm0 (p : psbt xpub) s o,
  describe hash160 sha256 xpub derive hm0 p = Ok s -> In o (p_outs p) -> is_change o = true ->
  exists hm sc keys,
    effective_map xpub hm0 p hm /\
    commits hash160 sha256 o sc /\
    sc = Op (80 + s_m s) :: map Push keys ++ [Op (80 + s_n s); Op 174] /\
    zlen keys = s_n s /\ Forall (fun k => zlen k = 33 \/ zlen k = 65) keys /\
    1 <= s_m s <= s_n s /\ s_n s <= 16 /\ s_n s = zlen hm /\
    (forall i, In i (p_ins p) -> exists isc,
        (i_witness i = Some isc \/ i_redeem i = Some isc) /\ std_multisig (s_m s) (s_n s) isc) /\
    zlen (o_pubs o) = s_n s /\ NoDup (map np_xfp (o_pubs o)) /\
    (forall np, In np (o_pubs o) -> In (np_key np) keys /\ derives_from xpub derive hm np) /\
    (NoDup (map np_key (o_pubs o)) -> (forall np, In np (o_pubs o) -> np_key np = np_sec np) ->
     Permutation (map np_sec (o_pubs o)) keys).
Proof. exact change_label_sound. Qed.
Print Assumptions C11_change_label_sound.

(* (3a) what a returned summary implies for every input *)
Theorem C11_accepted_input_sound : forall hash160 sha256 xpub derive hm0 (p : psbt xpub) s i,
  describe hash160 sha256 xpub derive hm0 p = Ok s -> In i (p_ins p) ->
  exists hm sc,
    effective_map xpub hm0 p hm /\
    (i_witness i = None \/ i_redeem i = None) /\
    (i_witness i = Some sc \/ (i_witness i = None /\ i_redeem i = Some sc)) /\
    std_multisig (s_m s) (s_n s) sc /\ s_n s = zlen hm /\
    (forall pt, i_prev_tx i = Some pt ->
       i_txid i = pt_hash pt /\
       exists u, nthz (pt_outs pt) (i_index i) = Some u /\
                 forall po, i_prev_out i = Some po -> u_amount po = u_amount u /\ u_spk po = u_spk u) /\
    (forall spk, in_spk i = Ok (Some spk) ->
       in_commits hash160 sha256 i spk sc /\ forall np, In np (i_pubs i) -> In (Push (np_key np)) sc) /\
    zlen (i_pubs i) = zlen hm /\ (forall np, In np (i_pubs i) -> derives_from xpub derive hm np) /\
    exists v, i_value i = Some v.
Proof. exact accepted_input_sound. Qed.
Print Assumptions C11_accepted_input_sound.

(* (3b) every item of the tamper catalogue that is decidable from the PSBT is an error
   (the constructors of [tampered] are the catalogue) *)
Theorem C11_tamper_rejected : forall hash160 sha256 xpub derive hm (p : psbt xpub),
  hm <> [] -> tampered hash160 sha256 xpub derive hm p ->
  describe hash160 sha256 xpub derive hm p = Err.
Proof. exact tamper_rejected. Qed.
Print Assumptions C11_tamper_rejected.

(* (4) known finding K-C11-amount (BIP174): two PSBTs that differ only in the amount of the
   witness UTXO of their (witness-UTXO-only) input are both summarised, with different fees *)
Theorem C11_witness_utxo_amount_unchecked_refuted :
  forall hash160 sha256 xpub derive, (forall b, length (sha256 b) = 32%nat) ->
  forall xp k x z t, derive xp (z :: t) = Some k -> zlen k = 33 -> zlen (z :: t) < 256 ->
  exists hm s s',
    describe hash160 sha256 xpub derive hm (psbt1 sha256 xpub k x (z :: t) 5000) = Ok s /\
    describe hash160 sha256 xpub derive hm (psbt1 sha256 xpub k x (z :: t) 9000) = Ok s' /\
    s_fee s = 4000 /\ s_fee s' = 8000.
Proof. exact witness_utxo_amount_unchecked_refuted. Qed.
Print Assumptions C11_witness_utxo_amount_unchecked_refuted.

(* ---------------------------------------------------------------- non-vacuity *)
(* toy instantiation: truncating "hashes", an arithmetic "derivation"; a 2-of-2 P2WSH wallet
   spending one UTXO (non-witness record attached) to one foreign output and one change output *)
Definition th160 (b : bytes) : bytes := firstn 20 (b ++ repeatz 0 20).
Definition ts256 (b : bytes) : bytes := firstn 32 (b ++ repeatz 0 32).
Definition tkey (x a b : Z) : bytes := 2 :: repeatz (x + 10 * a + b) 32.
Definition tderive (x : Z) (t : list Z) : option bytes :=
  match t with [a; b] => Some (tkey x a b) | _ => None end.
Definition tms (ks : list bytes) : list cmd := Op 82 :: map Push ks ++ [Op 82; Op 174].
Definition tser (cs : list cmd) : bytes := match ser_cmds cs with Ok s => s | Err => [] end.
Definition tpub (x a b : Z) : named_pub :=
  {| np_key := tkey x a b; np_sec := tkey x a b; np_xfp := [x]; np_path := [45; a; b] |}.
Definition t_in (h : bytes) : pin :=
  {| i_txid := [1]; i_index := 0;
     i_prev_tx := Some {| pt_hash := h;
                          pt_outs := [{| u_amount := 9000;
                                         u_spk := p2wsh_script (ts256 (tser (tms [tkey 1 0 1; tkey 2 0 1]))) |}] |};
     i_prev_out := None; i_redeem := None; i_witness := Some (tms [tkey 1 0 1; tkey 2 0 1]);
     i_pubs := [tpub 1 0 1; tpub 2 0 1]; i_value := Some 9000 |}.
Definition t_chg : pout :=
  {| o_amount := 3000; o_spk := p2wsh_script (ts256 (tser (tms [tkey 1 1 0; tkey 2 1 0])));
     o_redeem := None; o_witness := Some (tms [tkey 1 1 0; tkey 2 1 0]);
     o_pubs := [tpub 1 1 0; tpub 2 1 0] |}.
Definition t_psbt (h : bytes) : psbt Z :=
  {| p_ins := [t_in h]; p_outs := [out1; t_chg]; p_hd_pubs := [] |}.
Definition t_map : hdmap Z := [([1], (1, 1)); ([2], (2, 1))].

Example C11_honest_psbt_is_summarised :
  exists s, describe th160 ts256 Z tderive t_map (t_psbt [1]) = Ok s /\
            s_fee s = 5000 /\ s_spend s = 1000 /\ s_change s = 3000 /\ s_m s = 2 /\ s_n s = 2 /\
            s_outs s = [(1000, false); (3000, true)] /\ is_change t_chg = true.
Proof. eexists. split; [vm_compute; reflexivity|]. repeat split. Qed.

(* the same PSBT with another previous transaction is in the catalogue and is rejected *)
Example C11_tampered_prev_tx_rejected :
  tampered th160 ts256 Z tderive t_map (t_psbt [9]) /\
  describe th160 ts256 Z tderive t_map (t_psbt [9]) = Err.
Proof.
  split; [|vm_compute; reflexivity].
  eapply T_prev_hash with (i := t_in [9]).
  - left. reflexivity.
  - reflexivity.
  - cbn. discriminate.
Qed.

(* the premises of the refutation are satisfiable *)
Example C11_refutation_premises :
  (forall b, length (ts256 b) = 32%nat) /\ tderive 1 [0; 1] = Some (tkey 1 0 1) /\ zlen (tkey 1 0 1) = 33.
Proof.
  repeat split. intros b. unfold ts256. rewrite firstn_length, app_length, repeatz_length. lia.
Qed.
