(* Props/C11.v — faithfulness of the human-readable multisig PSBT summary
   (buidl/psbt.py PSBT.describe_basic_multisig; model: Model/PsbtDescribe.v).
   Statements only; proofs in Proofs/PsbtDescribeP.v.

   hash160, sha256 : any functions (sha256 with 32-byte output for the refutation example);
   xpub : any type; derive : xpub -> path -> option sec is any function (HDPublicKey.child iterated).
   Section hypotheses that remain premises: none, except [forall b, length (sha256 b) = 32] in
   C11_witness_utxo_amount_unchecked_refuted (needed for the example PSBT to be a P2WSH spend) and the
   two output-length premises of the completeness theorems C11_honest_psbt_summarised /
   C11_honest_spec_summarised (without them no scriptPubKey has the P2SH / P2WSH shape). *)
From V Require Import Base.Prelude Base.Ints Model.Helper Model.Script Model.PsbtDescribe
  Proofs.PsbtDescribeP Spec.PsbtHonest Proofs.PsbtHonestP Model.PsbtBuilder Proofs.PsbtBuilderP.
From Coq Require Import Permutation.

(* get_quorum (both script classes, after fixes a89f508 / 6e9e1d2) accepts exactly
   OP_m <n keys of 33/65 bytes> OP_n OP_CHECKMULTISIG with 1 <= m <= n <= 16 *)
Theorem C11_quorum_only_of_standard_multisig : forall cs m n,
  (redeem_quorum cs = Ok (m, n) \/ witness_quorum cs = Ok (m, n)) -> std_multisig m n cs.
Proof. intros cs m n [H|H]; [exact (redeem_quorum_std cs m n H)|exact (witness_quorum_std cs m n H)]. Qed.
Print Assumptions C11_quorum_only_of_standard_multisig.

(* (1) whenever a summary is returned: fee = sum(in) - sum(out), spend + change + fee = sum(in),
   every output is listed once and counted exactly once, as spend or as change; at most one change *)
Theorem C11_summary_arithmetic : forall hash160 sha256 xpub derive hm0 (p : psbt xpub) s,
  describe hash160 sha256 xpub derive hm0 p = Ok s ->
  exists vs, map i_value (p_ins p) = map Some vs /\
    s_total_in s = sumz vs /\
    s_total_out s = sumz (map o_amount (p_outs p)) /\
    s_fee s = s_total_in s - s_total_out s /\
    s_spend s + s_change s + s_fee s = s_total_in s /\
    s_outs s = map (fun o => (o_amount o, is_change o)) (p_outs p) /\
    s_spend s = sumz (map o_amount (filter (fun o => negb (is_change o)) (p_outs p))) /\
    s_change s = sumz (map o_amount (filter is_change (p_outs p))) /\
    (length (filter is_change (p_outs p)) <= 1)%nat.
Proof. exact summary_arithmetic. Qed.
Print Assumptions C11_summary_arithmetic.

(* (2) an output is labelled change only if (a) its scriptPubKey is the P2SH / P2WSH / P2SH-P2WSH
   commitment to the attached script, (b) that script is exactly OP_m <n keys> OP_n OP_CHECKMULTISIG
   with the m and n of every input's script, (c) it has n named keys with n distinct fingerprints,
   each fingerprint in the xpub map, each key = derive xpub (ltrim path) and each key one of the
   script's keys; with the dict invariants (distinct dict keys, dict key = sec) the script's key list
   is a permutation of the named keys: exactly one key per cosigner. *)
Theorem C11_change_label_sound : forall hash160 sha256 xpub derive hm0 (p : psbt xpub) s o,
  describe hash160 sha256 xpub derive hm0 p = Ok s -> In o (p_outs p) -> is_change o = true ->
  exists hm sc keys,
    effective_map xpub hm0 p hm /\
    commits hash160 sha256 o sc /\
    sc = Op (80 + s_m s) :: map Push keys ++ [Op (80 + s_n s); Op 174] /\
    zlen keys = s_n s /\ Forall (fun k => zlen k = 33 \/ zlen k = 65) keys /\
    1 <= s_m s <= s_n s /\ s_n s <= 16 /\ s_n s = zlen hm /\
    (forall i, In i (p_ins p) -> exists isc,
        (i_witness i = Some isc \/ i_redeem i = Some isc) /\ std_multisig (s_m s) (s_n s) isc) /\
    zlen (o_pubs o) = s_n s /\ NoDup (map np_xfp (o_pubs o)) /\
    (forall np, In np (o_pubs o) -> In (np_key np) keys /\ derives_from xpub derive hm np) /\
    (NoDup (map np_key (o_pubs o)) -> (forall np, In np (o_pubs o) -> np_key np = np_sec np) ->
     Permutation (map np_sec (o_pubs o)) keys).
Proof. exact change_label_sound. Qed.
Print Assumptions C11_change_label_sound.

(* (3a) what a returned summary implies for every input *)
Theorem C11_accepted_input_sound : forall hash160 sha256 xpub derive hm0 (p : psbt xpub) s i,
  describe hash160 sha256 xpub derive hm0 p = Ok s -> In i (p_ins p) ->
  exists hm sc,
    effective_map xpub hm0 p hm /\
    (i_witness i = None \/ i_redeem i = None) /\
    (i_witness i = Some sc \/ (i_witness i = None /\ i_redeem i = Some sc)) /\
    std_multisig (s_m s) (s_n s) sc /\ s_n s = zlen hm /\
    (forall pt, i_prev_tx i = Some pt ->
       i_txid i = pt_hash pt /\
       exists u, nthz (pt_outs pt) (i_index i) = Some u /\
                 forall po, i_prev_out i = Some po -> u_amount po = u_amount u /\ u_spk po = u_spk u) /\
    (forall spk, in_spk i = Ok (Some spk) ->
       in_commits hash160 sha256 i spk sc /\ forall np, In np (i_pubs i) -> In (Push (np_key np)) sc) /\
    zlen (i_pubs i) = zlen hm /\ (forall np, In np (i_pubs i) -> derives_from xpub derive hm np) /\
    exists v, i_value i = Some v.
Proof. exact accepted_input_sound. Qed.
Print Assumptions C11_accepted_input_sound.

(* (3b) every item of the tamper catalogue that is decidable from the PSBT is an error
   (the constructors of [tampered] are the catalogue) *)
Theorem C11_tamper_rejected : forall hash160 sha256 xpub derive hm (p : psbt xpub),
  hm <> [] -> tampered hash160 sha256 xpub derive hm p ->
  describe hash160 sha256 xpub derive hm p = Err.
Proof. exact tamper_rejected. Qed.
Print Assumptions C11_tamper_rejected.

(* (4) known finding K-C11-amount (BIP174): two PSBTs that differ only in the amount of the
   witness UTXO of their (witness-UTXO-only) input are both summarised, with different fees *)
Theorem C11_witness_utxo_amount_unchecked_refuted :
  forall hash160 sha256 xpub derive, (forall b, length (sha256 b) = 32%nat) ->
  forall xp k x z t, derive xp (z :: t) = Some k -> zlen k = 33 -> zlen (z :: t) < 256 ->
  exists hm s s',
    describe hash160 sha256 xpub derive hm (psbt1 sha256 xpub k x (z :: t) 5000) = Ok s /\
    describe hash160 sha256 xpub derive hm (psbt1 sha256 xpub k x (z :: t) 9000) = Ok s' /\
    s_fee s = 4000 /\ s_fee s' = 8000.
Proof. exact witness_utxo_amount_unchecked_refuted. Qed.
Print Assumptions C11_witness_utxo_amount_unchecked_refuted.

(* (5) COMPLETENESS: every honest spend of an m-of-n wallet is summarised, for all m, n, numbers of
   inputs and outputs and amounts.  Honest = every input spends an output that commits (P2SH with a
   non-witness UTXO, or P2WSH with either or both UTXO records) to a standard m-of-n script containing
   its named keys, one named key per xpub of the map, each derived from its xpub at the trimmed path;
   every output is a plain payment to an addressable script or a change output (P2SH / P2WSH /
   P2SH-P2WSH) committing to such a script with n keys of n distinct cosigners; at most one change;
   global xpubs (if any) that are ancestors of a named key derive it; input values known, sum <> 0.
   Premises on the hashes: output lengths 20 and 32 (otherwise no scriptPubKey has the P2SH/P2WSH shape).
   Together with (1)-(3) this characterises what is summarised. *)
Theorem C11_honest_psbt_summarised : forall hash160 sha256 xpub derive,
  (forall b, length (hash160 b) = 20%nat) -> (forall b, length (sha256 b) = 32%nat) ->
  forall hm0 (p : psbt xpub) hm m n vs,
  effective_map xpub hm0 p hm -> hm <> [] -> n = zlen hm -> p_ins p <> [] ->
  Forall (honest_in hash160 sha256 xpub derive hm m n) (p_ins p) ->
  Forall (honest_out hash160 sha256 xpub derive hm m n) (p_outs p) ->
  (length (filter is_change (p_outs p)) <= 1)%nat ->
  Forall (ancestors_ok xpub derive (p_hd_pubs p)) (all_pubs xpub p) ->
  map i_value (p_ins p) = map Some vs -> sumz vs <> 0 ->
  exists s, describe hash160 sha256 xpub derive hm0 p = Ok s /\
    s_m s = m /\ s_n s = n /\
    s_fee s = sumz vs - sumz (map o_amount (p_outs p)) /\
    s_total_in s = sumz vs /\ s_total_out s = sumz (map o_amount (p_outs p)) /\
    s_ins s = map (fun v => (m, n, v)) vs /\
    s_outs s = map (fun o => (o_amount o, is_change o)) (p_outs p) /\
    s_spend s = sumz (map o_amount (filter (fun o => negb (is_change o)) (p_outs p))) /\
    s_change s = sumz (map o_amount (filter is_change (p_outs p))) /\
    s_spend s + s_change s + s_fee s = sumz vs.
Proof. exact honest_psbt_summarised. Qed.
Print Assumptions C11_honest_psbt_summarised.

(* (5') the executable wallet relation of Spec/PsbtHonest.v implies the premises of (5): whatever it
   accepts is summarised.  The correspondence harness evaluates it on every generated PSBT (op
   "honest_spec"): it accepts the honest ones, also those built by create_multisig_psbt, and none of
   the tampered ones. *)
Theorem C11_honest_spec_summarised : forall hash160 sha256 xpub derive,
  (forall b, length (hash160 b) = 20%nat) -> (forall b, length (sha256 b) = 32%nat) ->
  forall hm0 (p : psbt xpub) m,
  honest_psbt_b hash160 sha256 xpub derive hm0 p m = true ->
  exists s vs, describe hash160 sha256 xpub derive hm0 p = Ok s /\
    map i_value (p_ins p) = map Some vs /\
    s_m s = m /\ s_n s = zlen (eff_map xpub hm0 p) /\
    s_fee s = sumz vs - sumz (map o_amount (p_outs p)) /\
    s_outs s = map (fun o => (o_amount o, is_change o)) (p_outs p) /\
    s_spend s + s_change s + s_fee s = sumz vs.
Proof. intros h1 h2 x d L1 L2. exact (honest_psbt_b_summarised h1 h2 x d L1 L2). Qed.
Print Assumptions C11_honest_spec_summarised.

(* (3b') the tamper catalogue for ANY hdpubkey_map argument, including the empty one (the map is then
   built from the PSBT's own global xpubs) *)
Theorem C11_tamper_rejected_any_map : forall hash160 sha256 xpub derive hm0 (p : psbt xpub),
  tampered hash160 sha256 xpub derive (eff_map xpub hm0 p) p ->
  describe hash160 sha256 xpub derive hm0 p = Err.
Proof. exact tamper_rejected_any_map. Qed.
Print Assumptions C11_tamper_rejected_any_map.

(* (2') every declared cosigner contributes exactly one key to an output labelled change: the
   fingerprints of the output's named keys are a permutation of the fingerprints of the xpub map *)
Theorem C11_change_one_key_per_cosigner : forall hash160 sha256 xpub derive hm0 (p : psbt xpub) s o,
  describe hash160 sha256 xpub derive hm0 p = Ok s -> In o (p_outs p) -> is_change o = true ->
  Permutation (map np_xfp (o_pubs o)) (map fst (eff_map xpub hm0 p)) /\
  forall np, In np (o_pubs o) -> derives_from xpub derive (eff_map xpub hm0 p) np.
Proof. exact change_one_key_per_cosigner. Qed.
Print Assumptions C11_change_one_key_per_cosigner.

(* (2'') "commits by hash": two summaries - possibly of different PSBTs and with different xpub maps -
   that label the SAME scriptPubKey as change evaluated the same script for it (hence the same quorum),
   unless a collision of hash160 or sha256 is exhibited; likewise for two inputs whose UTXO records show the
   same spent scriptPubKey (a foreign redeem/witness script for a genuine UTXO is rejected or is a
   collision; since fix 786fa3c no "has a UTXO record" premise is needed) *)
Theorem C11_change_commitment_binding : forall hash160 sha256 xpub derive
    hm0 (p : psbt xpub) s o hm0' (p' : psbt xpub) s' o',
  describe hash160 sha256 xpub derive hm0 p = Ok s -> In o (p_outs p) -> is_change o = true ->
  describe hash160 sha256 xpub derive hm0' p' = Ok s' -> In o' (p_outs p') -> is_change o' = true ->
  o_spk o = o_spk o' ->
  (exists sc, out_script o = Some sc /\ out_script o' = Some sc /\ std_multisig (s_m s) (s_n s) sc /\
              s_m s = s_m s' /\ s_n s = s_n s') \/
  collision hash160 \/ collision sha256.
Proof. exact change_commitment_binding. Qed.
Print Assumptions C11_change_commitment_binding.

Theorem C11_input_commitment_binding : forall hash160 sha256 xpub derive
    hm0 (p : psbt xpub) s i hm0' (p' : psbt xpub) s' i',
  describe hash160 sha256 xpub derive hm0 p = Ok s -> In i (p_ins p) ->
  describe hash160 sha256 xpub derive hm0' p' = Ok s' -> In i' (p_ins p') ->
  in_spk i = in_spk i' ->
  (exists sc, in_script i = Some sc /\ in_script i' = Some sc /\ std_multisig (s_m s) (s_n s) sc /\
              s_m s = s_m s' /\ s_n s = s_n s') \/
  collision hash160 \/ collision sha256.
Proof. exact input_commitment_binding. Qed.
Print Assumptions C11_input_commitment_binding.

(* (1') the amounts are those of the attached UTXO records: when tx_in._value is the amount of one of the
   attached records (PSBTIn.parse and PSBTIn.update assign it so), the total and the fee of a returned
   summary are computed from the amounts the records show (both records agree when both are attached) *)
Theorem C11_fee_from_utxo_records : forall hash160 sha256 xpub derive hm0 (p : psbt xpub) s,
  describe hash160 sha256 xpub derive hm0 p = Ok s -> Forall value_from_records (p_ins p) ->
  exists vs, map shown_amount (p_ins p) = map Some vs /\
             s_total_in s = sumz vs /\ s_fee s = sumz vs - sumz (map o_amount (p_outs p)) /\
             s_spend s + s_change s + s_fee s = sumz vs.
Proof. exact fee_from_utxo_records. Qed.
Print Assumptions C11_fee_from_utxo_records.

(* (3c) altered UTXO amount / previous transaction: two summarised inputs that spend the same outpoint
   and carry a previous transaction show the same amount and scriptPubKey, unless two different
   previous transactions have the same hash (a collision of Tx.hash, abstract here) *)
Theorem C11_input_utxo_binding : forall hash160 sha256 xpub derive
    hm0 (p : psbt xpub) s i hm0' (p' : psbt xpub) s' i' pt pt',
  describe hash160 sha256 xpub derive hm0 p = Ok s -> In i (p_ins p) ->
  describe hash160 sha256 xpub derive hm0' p' = Ok s' -> In i' (p_ins p') ->
  i_txid i = i_txid i' -> i_index i = i_index i' ->
  i_prev_tx i = Some pt -> i_prev_tx i' = Some pt' ->
  (exists u, nthz (pt_outs pt) (i_index i) = Some u /\ nthz (pt_outs pt') (i_index i') = Some u /\
             shown_amount i = Some (u_amount u) /\ shown_amount i' = Some (u_amount u)) \/
  (pt_outs pt <> pt_outs pt' /\ pt_hash pt = pt_hash pt').
Proof. exact input_utxo_binding. Qed.
Print Assumptions C11_input_utxo_binding.

(* get_quorum is also COMPLETE: both functions return (m, n) on every standard m-of-n script, and
   such a script always serialises *)
Theorem C11_quorum_of_standard_multisig : forall cs m n,
  std_multisig m n cs ->
  redeem_quorum cs = Ok (m, n) /\ witness_quorum cs = Ok (m, n) /\ exists ser, ser_cmds cs = Ok ser.
Proof.
  intros cs m n H.
  exact (conj (redeem_quorum_complete m n cs H) (conj (witness_quorum_complete m n cs H) (std_multisig_ser m n cs H))).
Qed.
Print Assumptions C11_quorum_of_standard_multisig.

(* (4') an input that carries NEITHER UTXO record (fixed defect F-C11-no-utxo-record, commit 786fa3c: before
   the fix PSBTIn.validate had nothing to compare the attached script with and the summary showed the
   claimed script and the cached / fetched amount).  Now: such an input makes describe refuse, for every
   map and every PSBT; hence every input of a summarised PSBT shows a spent scriptPubKey and that
   scriptPubKey commits to the evaluated standard m-of-n script, which contains all named keys - the
   commitment clause of C11_accepted_input_sound without its "has a UTXO record" premise.  The catalogue
   [tampered] has the corresponding 18th constructor T_in_no_utxo. *)
Theorem C11_no_utxo_record_rejected : forall hash160 sha256 xpub derive hm0 (p : psbt xpub) i,
  In i (p_ins p) -> i_prev_tx i = None -> i_prev_out i = None ->
  describe hash160 sha256 xpub derive hm0 p = Err.
Proof. exact no_utxo_record_rejected. Qed.
Print Assumptions C11_no_utxo_record_rejected.

Theorem C11_accepted_input_commits : forall hash160 sha256 xpub derive hm0 (p : psbt xpub) s i,
  describe hash160 sha256 xpub derive hm0 p = Ok s -> In i (p_ins p) ->
  exists spk, in_spk i = Ok (Some spk) /\
    exists sc, (i_witness i = Some sc \/ (i_witness i = None /\ i_redeem i = Some sc)) /\
               std_multisig (s_m s) (s_n s) sc /\ in_commits hash160 sha256 i spk sc /\
               forall np, In np (i_pubs i) -> In (Push (np_key np)) sc.
Proof. exact accepted_input_has_record. Qed.
Print Assumptions C11_accepted_input_commits.

(* (6) the builder psbt_helper.create_multisig_psbt (Model/PsbtBuilder.v: its hash / amount / address / fee
   cross-checks, PSBT.create with PSBTIn.update / PSBTOut.update, the final PSBT.validate), composed with the
   summary.  [bderive] stands for _safe_get_child_hdpubkey + NamedHDPublicKey.from_hd_pub (any function).
   Whenever the builder returns a PSBT: the stated amounts are those of the referenced previous outputs, the
   stated fee is their sum minus the outputs and is what Tx.fee computes on the returned PSBT, the PSBT lists
   exactly the caller's outputs and outpoints and validates; and EVERY summary of that PSBT shows the stated
   fee, totals and output amounts.  Premise: two supplied previous transactions with the same hash are the
   same transaction (tx_lookup is keyed by the hash). *)
Theorem C11_builder_fee_crosscheck : forall hash160 sha256 xpub derive bderive recs ins outs fee (p : psbt xpub),
  no_hash_clash ins -> ins <> [] ->
  create_psbt hash160 sha256 xpub derive bderive recs ins outs fee = Ok p ->
  exists vals,
    map bin_amount ins = map Some vals /\ map bi_sats ins = vals /\
    fee = sumz vals - sumz (map bo_sats outs) /\
    tx_fee xpub p = Ok fee /\
    map o_amount (p_outs p) = map bo_sats outs /\ map o_spk (p_outs p) = map bo_spk outs /\
    map i_txid (p_ins p) = map (fun i => pt_hash (bi_prev i)) ins /\
    map i_index (p_ins p) = map bi_idx ins /\
    validate_psbt hash160 sha256 xpub derive p = Ok tt.
Proof. exact builder_fee_crosscheck. Qed.
Print Assumptions C11_builder_fee_crosscheck.

Theorem C11_builder_then_describe : forall hash160 sha256 xpub derive bderive recs ins outs fee (p : psbt xpub) hm0 s,
  no_hash_clash ins -> ins <> [] ->
  create_psbt hash160 sha256 xpub derive bderive recs ins outs fee = Ok p ->
  describe hash160 sha256 xpub derive hm0 p = Ok s ->
  s_fee s = fee /\
  s_total_in s = sumz (map bi_sats ins) /\
  s_total_out s = sumz (map bo_sats outs) /\
  map fst (s_outs s) = map bo_sats outs /\
  s_spend s + s_change s + fee = sumz (map bi_sats ins).
Proof. exact builder_then_describe. Qed.
Print Assumptions C11_builder_then_describe.

(* ---------------------------------------------------------------- non-vacuity *)
(* toy instantiation: truncating "hashes", an arithmetic "derivation"; a 2-of-2 P2WSH wallet
   spending one UTXO (non-witness record attached) to one foreign output and one change output *)
Definition th160 (b : bytes) : bytes := firstn 20 (b ++ repeatz 0 20).
Definition ts256 (b : bytes) : bytes := firstn 32 (b ++ repeatz 0 32).
Definition tkey (x a b : Z) : bytes := 2 :: repeatz (x + 10 * a + b) 32.
Definition tderive (x : Z) (t : list Z) : option bytes :=
  match t with [a; b] => Some (tkey x a b) | _ => None end.
Definition tms (ks : list bytes) : list cmd := Op 82 :: map Push ks ++ [Op 82; Op 174].
Definition tser (cs : list cmd) : bytes := match ser_cmds cs with Ok s => s | Err => [] end.
Definition tpub (x a b : Z) : named_pub :=
  {| np_key := tkey x a b; np_sec := tkey x a b; np_xfp := [x]; np_path := [45; a; b] |}.
Definition t_in (h : bytes) : pin :=
  {| i_txid := [1]; i_index := 0;
     i_prev_tx := Some {| pt_hash := h;
                          pt_outs := [{| u_amount := 9000;
                                         u_spk := p2wsh_script (ts256 (tser (tms [tkey 1 0 1; tkey 2 0 1]))) |}] |};
     i_prev_out := None; i_redeem := None; i_witness := Some (tms [tkey 1 0 1; tkey 2 0 1]);
     i_pubs := [tpub 1 0 1; tpub 2 0 1]; i_value := Some 9000 |}.
Definition t_chg : pout :=
  {| o_amount := 3000; o_spk := p2wsh_script (ts256 (tser (tms [tkey 1 1 0; tkey 2 1 0])));
     o_redeem := None; o_witness := Some (tms [tkey 1 1 0; tkey 2 1 0]);
     o_pubs := [tpub 1 1 0; tpub 2 1 0] |}.
Definition t_psbt (h : bytes) : psbt Z :=
  {| p_ins := [t_in h]; p_outs := [out1; t_chg]; p_hd_pubs := [] |}.
Definition t_map : hdmap Z := [([1], (1, 1)); ([2], (2, 1))].

Example C11_honest_psbt_is_summarised :
  exists s, describe th160 ts256 Z tderive t_map (t_psbt [1]) = Ok s /\
            s_fee s = 5000 /\ s_spend s = 1000 /\ s_change s = 3000 /\ s_m s = 2 /\ s_n s = 2 /\
            s_outs s = [(1000, false); (3000, true)] /\ is_change t_chg = true.
Proof. eexists. split; [vm_compute; reflexivity|]. repeat split. Qed.

(* the same PSBT with another previous transaction is in the catalogue and is rejected *)
Example C11_tampered_prev_tx_rejected :
  tampered th160 ts256 Z tderive t_map (t_psbt [9]) /\
  describe th160 ts256 Z tderive t_map (t_psbt [9]) = Err.
Proof.
  split; [|vm_compute; reflexivity].
  eapply T_prev_hash with (i := t_in [9]).
  - left. reflexivity.
  - reflexivity.
  - cbn. discriminate.
Qed.

(* the premises of the refutation are satisfiable *)
Example C11_refutation_premises :
  (forall b, length (ts256 b) = 32%nat) /\ tderive 1 [0; 1] = Some (tkey 1 0 1) /\ zlen (tkey 1 0 1) = 33.
Proof.
  repeat split. intros b. unfold ts256. rewrite firstn_length, app_length, repeatz_length. lia.
Qed.

(* the toy hashes satisfy the length premises of (5), and the wallet relation accepts the honest toy
   PSBT: the premises of C11_honest_spec_summarised / C11_honest_psbt_summarised are satisfiable *)
Example C11_toy_hash_lengths :
  (forall b, length (th160 b) = 20%nat) /\ (forall b, length (ts256 b) = 32%nat).
Proof.
  split; intros b; [unfold th160|unfold ts256]; rewrite firstn_length, app_length, repeatz_length; lia.
Qed.

Example C11_honest_spec_accepts_toy : honest_psbt_b th160 ts256 Z tderive t_map (t_psbt [1]) 2 = true.
Proof. vm_compute. reflexivity. Qed.

(* ... and it refuses the tampered one, and the same PSBT under another threshold *)
Example C11_honest_spec_refuses_tampered :
  honest_psbt_b th160 ts256 Z tderive t_map (t_psbt [9]) 2 = false /\
  honest_psbt_b th160 ts256 Z tderive t_map (t_psbt [1]) 1 = false.
Proof. split; vm_compute; reflexivity. Qed.

(* a P2SH wallet with the map taken from the PSBT's own global xpubs (hdpubkey_map argument empty):
   2-of-3, two inputs, a P2SH change output in front of a payment *)
Definition tms3 (ks : list bytes) : list cmd := Op 82 :: map Push ks ++ [Op 83; Op 174].
Definition t_in3 (b : Z) (v : Z) : pin :=
  {| i_txid := [b]; i_index := 1;
     i_prev_tx := Some {| pt_hash := [b];
                          pt_outs := [{| u_amount := 7; u_spk := p2wsh_script (repeatz 3 32) |};
                                      {| u_amount := v;
                                         u_spk := p2sh_script (th160 (tser (tms3 [tkey 1 0 b; tkey 2 0 b; tkey 3 0 b]))) |}] |};
     i_prev_out := None; i_redeem := Some (tms3 [tkey 1 0 b; tkey 2 0 b; tkey 3 0 b]); i_witness := None;
     i_pubs := [tpub 1 0 b; tpub 2 0 b; tpub 3 0 b]; i_value := Some v |}.
Definition t_chg3 : pout :=
  {| o_amount := 2500; o_spk := p2sh_script (th160 (tser (tms3 [tkey 1 1 4; tkey 2 1 4; tkey 3 1 4])));
     o_redeem := Some (tms3 [tkey 1 1 4; tkey 2 1 4; tkey 3 1 4]); o_witness := None;
     o_pubs := [tpub 3 1 4; tpub 1 1 4; tpub 2 1 4] |}.
Definition t_hd (x : Z) : hdpub Z := {| h_xfp := [x]; h_path := [45]; h_xpub := x |}.
Definition t_psbt3 : psbt Z :=
  {| p_ins := [t_in3 1 4000; t_in3 5 6000]; p_outs := [t_chg3; out1]; p_hd_pubs := [t_hd 1; t_hd 2; t_hd 3] |}.
(* tderive for the descendant check of PSBT.validate: the global xpub at m/45 derives a/b *)
Example C11_honest_p2sh_own_xpubs :
  honest_psbt_b th160 ts256 Z tderive [] t_psbt3 2 = true /\
  exists s, describe th160 ts256 Z tderive [] t_psbt3 = Ok s /\
            s_fee s = 6500 /\ s_spend s = 1000 /\ s_change s = 2500 /\ s_m s = 2 /\ s_n s = 3 /\
            s_outs s = [(2500, true); (1000, false)].
Proof. split; [vm_compute; reflexivity|]. eexists. split; [vm_compute; reflexivity|]. repeat split. Qed.

(* observation (not a defect of the model, see the manifest): the first [depth] components of a named
   key's stated path are not compared with anything - the summary is the same *)
Definition t_chg_prefix : pout :=
  {| o_amount := 3000; o_spk := o_spk t_chg; o_redeem := None; o_witness := o_witness t_chg;
     o_pubs := [{| np_key := tkey 1 1 0; np_sec := tkey 1 1 0; np_xfp := [1]; np_path := [999; 1; 0] |};
                tpub 2 1 0] |}.
Example C11_stated_path_prefix_not_compared :
  describe th160 ts256 Z tderive t_map {| p_ins := [t_in [1]]; p_outs := [out1; t_chg_prefix]; p_hd_pubs := [] |}
  = describe th160 ts256 Z tderive t_map (t_psbt [1]).
Proof. vm_compute. reflexivity. Qed.

(* the premise of C11_fee_from_utxo_records holds for the toy PSBTs *)
Example C11_toy_values_from_records :
  Forall value_from_records (p_ins (t_psbt [1])) /\ Forall value_from_records (p_ins t_psbt3).
Proof.
  split.
  - apply Forall_cons; [|apply Forall_nil]. intros v H. cbn in H. injection H as <-. left.
    do 2 eexists. repeat split; reflexivity.
  - apply Forall_cons; [|apply Forall_cons; [|apply Forall_nil]]; intros v H; cbn in H; injection H as <-; left;
      do 2 eexists; repeat split; reflexivity.
Qed.

(* the builder on toy data: one record per cosigner at m/45, two inputs and a change output of the 2-of-3
   P2SH wallet of t_psbt3 - it returns exactly t_psbt3, which is summarised (C11_honest_p2sh_own_xpubs) *)
Definition t_bderive (x p : bytes) : option (bytes * list Z) :=
  match x, p with [x0], [a; b] => Some (tkey x0 a b, [45; a; b]) | _, _ => None end.
Definition t_rec (x : Z) : brec Z := {| r_xfp := [x]; r_path := [45]; r_xpub := x; r_depth := 1; r_net := 1 |}.
Definition t_bin (b v : Z) : bin :=
  {| bi_m := 2; bi_paths := [([3], [0; b]); ([1], [0; b]); ([2], [0; b])];
     bi_prev := {| pt_hash := [b];
                   pt_outs := [{| u_amount := 7; u_spk := p2wsh_script (repeatz 3 32) |};
                               {| u_amount := v;
                                  u_spk := p2sh_script (th160 (tser (tms3 [tkey 1 0 b; tkey 2 0 b; tkey 3 0 b]))) |}] |};
     bi_hash := [b]; bi_idx := 1; bi_sats := v |}.
Definition t_bouts : list bout :=
  [{| bo_sats := 2500; bo_spk := o_spk t_chg3; bo_m := 2; bo_paths := [([3], [1; 4]); ([1], [1; 4]); ([2], [1; 4])] |};
   {| bo_sats := 1000; bo_spk := o_spk out1; bo_m := -1; bo_paths := [] |}].
Example C11_builder_builds_toy :
  no_hash_clash [t_bin 1 4000; t_bin 5 6000] /\
  create_psbt th160 ts256 Z tderive t_bderive [t_rec 1; t_rec 2; t_rec 3] [t_bin 1 4000; t_bin 5 6000] t_bouts 6500
  = Ok {| p_ins := [t_in3 1 4000; t_in3 5 6000];
          p_outs := [{| o_amount := 2500; o_spk := o_spk t_chg3; o_redeem := o_redeem t_chg3; o_witness := None;
                        o_pubs := [tpub 1 1 4; tpub 2 1 4; tpub 3 1 4] |}; out1];
          p_hd_pubs := [t_hd 1; t_hd 2; t_hd 3] |} /\
  create_psbt th160 ts256 Z tderive t_bderive [t_rec 1; t_rec 2; t_rec 3] [t_bin 1 4000; t_bin 5 6000] t_bouts 6501 = Err.
Proof.
  split; [|split; vm_compute; reflexivity].
  intros i j [<-|[<-|[]]] [<-|[<-|[]]] H; try reflexivity; vm_compute in H; discriminate H.
Qed.

(* the former witnesses of the no-UTXO-record defect: they pass PSBT.validate, and are refused by the
   summary (instances of C11_no_utxo_record_rejected; T_in_no_utxo is inhabited) *)
Example C11_no_utxo_record_witnesses_rejected :
  describe (nr_h 20) (nr_h 32) Z nr_derive nr_map (nr_psbt 1) = Err /\
  describe (nr_h 20) (nr_h 32) Z nr_derive nr_map (nr_psbt 2) = Err /\
  i_prev_tx (nr_in 1) = None /\ i_prev_out (nr_in 1) = None /\
  validate_psbt (nr_h 20) (nr_h 32) Z nr_derive (nr_psbt 1) = Ok tt /\
  tampered (nr_h 20) (nr_h 32) Z nr_derive nr_map (nr_psbt 1).
Proof.
  destruct no_utxo_record_witnesses_rejected as (H1 & H2 & H3 & H4 & H5). repeat split; try assumption.
  apply T_in_no_utxo with (i := nr_in 1); [left|..]; reflexivity.
Qed.
