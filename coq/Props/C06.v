(* Props/C06.v — input verification accepts properly signed spends and nothing unauthorised.
   Statements only; proofs are in Proofs/MultisigP.v and Proofs/VerifyP.v.
   Everything is stated for EVERY signature oracle [so : sigops] (what OP_CHECKSIG etc. answer),
   every hash function, every scriptSig and every witness: acceptance by the model of
   Tx.verify_input implies the authorisation predicate of the spent output type. *)
From V Require Import Base.Prelude Base.Ints Model.Helper Model.Script Model.Op Model.Interp
  Model.Pecc Model.Taproot Model.Verify Proofs.MultisigP Proofs.VerifyP Proofs.TapMultisigP Proofs.VerifyCompleteP.

(* OP_CHECKMULTISIG's matching loop accepts exactly when the signatures embed, in order, into
   the keys with every pair verifying: m signatures need m distinct keys *)
Theorem C06_checkmultisig_iff : forall (ver : bytes -> bytes -> bool) sigs keys,
  match_sigs ver sigs keys = true <-> embeds ver sigs keys.
Proof. exact match_sigs_iff. Qed.
Print Assumptions C06_checkmultisig_iff.

Theorem C06_checkmultisig_positions : forall (ver : bytes -> bytes -> bool) sigs keys,
  embeds ver sigs keys ->
  exists idx : list nat,
    length idx = length sigs /\
    (forall i j, (i < j < length idx)%nat -> (nth i idx 0 < nth j idx 0)%nat) /\
    (forall i, (i < length idx)%nat ->
       exists k, nth_error keys (nth i idx 0%nat) = Some k /\ ver k (nth i sigs []) = true).
Proof. exact embeds_positions. Qed.
Print Assumptions C06_checkmultisig_positions.

(* no scriptSig / witness content can keep a conditional-free scriptPubKey from being run *)
Theorem C06_suffix_always_run :
  forall C ripemd160 sha1 sha256 hash160 hash256 so c witness suf tap,
  plain suf -> forall fuel pre s a,
  vloop C ripemd160 sha1 sha256 hash160 hash256 so c witness fuel (pre ++ suf) s a (fl_off tap) = OTrue ->
  exists fuel' s' a',
    vloop C ripemd160 sha1 sha256 hash160 hash256 so c witness fuel' suf s' a' (fl_off tap) = OTrue.
Proof. exact vloop_suffix. Qed.
Print Assumptions C06_suffix_always_run.

Theorem C06_p2pkh_sound :
  forall C ripemd160 sha1 sha256 hash160 hash256 so c witness ss h,
  verify_input C ripemd160 sha1 sha256 hash160 hash256 so c witness ss (p2pkh_script h) = OTrue ->
  exists sec sg, hash160 sec = h /\ so_checksig so sec sg = Ok true.
Proof. exact p2pkh_sound. Qed.
Print Assumptions C06_p2pkh_sound.

Theorem C06_p2wpkh_sound :
  forall C ripemd160 sha1 sha256 hash160 hash256 so c witness ss h,
  length h = 20%nat ->
  verify_input C ripemd160 sha1 sha256 hash160 hash256 so c witness ss (p2wpkh_script h) = OTrue ->
  ss = [] /\ witness <> [] /\ exists sec sg, hash160 sec = h /\ so_checksig so sec sg = Ok true.
Proof. exact p2wpkh_sound. Qed.
Print Assumptions C06_p2wpkh_sound.

Theorem C06_p2sh_sound :
  forall C ripemd160 sha1 sha256 hash160 hash256 so c witness ss h,
  length h = 20%nat ->
  verify_input C ripemd160 sha1 sha256 hash160 hash256 so c witness ss (p2sh_script h) = OTrue ->
  exists pre b cs, ss = pre ++ [Push b] /\ hash160 b = h /\ parse_cmds b = Ok cs /\
    (is_p2wpkh cs || is_p2wsh cs = false ->
     exists fuel s a,
       vloop C ripemd160 sha1 sha256 hash160 hash256 so c witness fuel cs s a (fl_off false) = OTrue).
Proof. exact p2sh_sound. Qed.
Print Assumptions C06_p2sh_sound.

Theorem C06_p2sh_multisig_sound :
  forall C ripemd160 sha1 sha256 hash160 hash256 so c witness sec_ok ver,
  (forall secs sigs, so_multisig so secs sigs = so_multisig_loop sec_ok ver secs sigs) ->
  forall ss h m keys,
  length h = 20%nat -> 1 <= m <= 16 -> 1 <= zlen keys <= 16 ->
  verify_input C ripemd160 sha1 sha256 hash160 hash256 so c witness ss (p2sh_script h) = OTrue ->
  exists b, hash160 b = h /\
    (parse_cmds b = Ok (multisig_script m keys) ->
     exists sigs, zlen sigs = m /\ embeds ver sigs (rev keys)).
Proof. exact p2sh_multisig_sound. Qed.
Print Assumptions C06_p2sh_multisig_sound.

Theorem C06_p2wsh_sound :
  forall C ripemd160 sha1 sha256 hash160 hash256 so c witness ss x,
  length x = 32%nat ->
  verify_input C ripemd160 sha1 sha256 hash160 hash256 so c witness ss (p2wsh_script x) = OTrue ->
  ss = [] /\ witness <> [] /\ sha256 (last witness []) = x /\
  exists cs fuel, parse_cmds (last witness []) = Ok cs /\
    vloop C ripemd160 sha1 sha256 hash160 hash256 so c witness fuel
      (map Push (removelast witness) ++ cs) [] [] (fl_off false) = OTrue.
Proof. exact p2wsh_sound. Qed.
Print Assumptions C06_p2wsh_sound.

Theorem C06_p2wsh_multisig_sound :
  forall C ripemd160 sha1 sha256 hash160 hash256 so c witness sec_ok ver,
  (forall secs sigs, so_multisig so secs sigs = so_multisig_loop sec_ok ver secs sigs) ->
  forall ss x m keys,
  length x = 32%nat -> 1 <= m <= 16 -> 1 <= zlen keys <= 16 ->
  verify_input C ripemd160 sha1 sha256 hash160 hash256 so c witness ss (p2wsh_script x) = OTrue ->
  sha256 (last witness []) = x /\
  (parse_cmds (last witness []) = Ok (multisig_script m keys) ->
   exists sigs, zlen sigs = m /\ embeds ver sigs (rev keys)).
Proof. exact p2wsh_multisig_sound. Qed.
Print Assumptions C06_p2wsh_multisig_sound.

Theorem C06_p2tr_sound :
  forall C ripemd160 sha1 sha256 hash160 hash256 so c witness ss x,
  length x = 32%nat ->
  verify_input C ripemd160 sha1 sha256 hash160 hash256 so c witness ss (p2tr_script x) = OTrue ->
  ss = [] /\ witness <> [] /\
  let items := annex_stripped witness in
  (exists sg, items = [sg] /\ sg <> [] /\ so_xonly_ok so x = true /\
              so_schnorr so x (fst (schnorr_split sg)) (snd (schnorr_split sg)) = Ok true)
  \/
  ((2 <= length items)%nat /\ script_path_commit_check C sha256 x witness = Ok true /\
   exists ts fuel, witness_tap_script items = Ok ts /\
     vloop C ripemd160 sha1 sha256 hash160 hash256 so c witness fuel
       (map Push (firstn (length items - 2) items) ++ s_cmds ts) [] [] (fl_off true) = OTrue).
Proof. exact p2tr_sound. Qed.
Print Assumptions C06_p2tr_sound.

Theorem C06_p2pkh_complete :
  forall C ripemd160 sha1 sha256 hash160 hash256 so c witness sec sg,
  sg <> [] -> so_checksig so sec sg = Ok true ->
  verify_input C ripemd160 sha1 sha256 hash160 hash256 so c witness
    [Push sg; Push sec] (p2pkh_script (hash160 sec)) = OTrue.
Proof. exact p2pkh_complete. Qed.
Print Assumptions C06_p2pkh_complete.

Theorem C06_p2wpkh_complete :
  forall C ripemd160 sha1 sha256 hash160 hash256 so c sec sg,
  length (hash160 sec) = 20%nat -> sg <> [] -> so_checksig so sec sg = Ok true ->
  verify_input C ripemd160 sha1 sha256 hash160 hash256 so c [sg; sec] [] (p2wpkh_script (hash160 sec)) = OTrue.
Proof. exact p2wpkh_complete. Qed.
Print Assumptions C06_p2wpkh_complete.

Theorem C06_p2tr_keypath_complete :
  forall C ripemd160 sha1 sha256 hash160 hash256 so c x sg,
  length x = 32%nat -> sg <> [] -> so_xonly_ok so x = true ->
  so_schnorr so x (fst (schnorr_split sg)) (snd (schnorr_split sg)) = Ok true ->
  verify_input C ripemd160 sha1 sha256 hash160 hash256 so c [sg] [] (p2tr_script x) = OTrue.
Proof. exact p2tr_keypath_complete. Qed.
Print Assumptions C06_p2tr_keypath_complete.

(* the canonical P2SH m-of-n spend  OP_0 <sig_1> .. <sig_m> <redeem script>  is accepted whenever
   OP_CHECKMULTISIG's verdict on the popped keys and signatures is positive *)
Theorem C06_p2sh_multisig_complete :
  forall C ripemd160 sha1 sha256 hash160 hash256 so c w m keys sigs b,
  1 <= m <= 16 -> 1 <= zlen keys <= 16 -> zlen sigs = m -> nonempty_sigs sigs = true ->
  length (hash160 b) = 20%nat ->
  parse_cmds b = Ok (multisig_script m keys) ->
  so_multisig so (rev keys) (rev sigs) = Ok true ->
  verify_input C ripemd160 sha1 sha256 hash160 hash256 so c w
    (Op 0 :: map Push sigs ++ [Push b]) (p2sh_script (hash160 b)) = OTrue.
Proof. exact p2sh_multisig_complete. Qed.
Print Assumptions C06_p2sh_multisig_complete.

(* the canonical P2WSH m-of-n spend: empty scriptSig, witness  <> <sig_1> .. <sig_m> <witness script> *)
Theorem C06_p2wsh_multisig_complete :
  forall C ripemd160 sha1 sha256 hash160 hash256 so c m keys sigs ws,
  1 <= m <= 16 -> 1 <= zlen keys <= 16 -> zlen sigs = m -> nonempty_sigs sigs = true ->
  length (sha256 ws) = 32%nat ->
  parse_cmds ws = Ok (multisig_script m keys) ->
  so_multisig so (rev keys) (rev sigs) = Ok true ->
  verify_input C ripemd160 sha1 sha256 hash160 hash256 so c ([] :: sigs ++ [ws])
    [] (p2wsh_script (sha256 ws)) = OTrue.
Proof. exact p2wsh_multisig_complete. Qed.
Print Assumptions C06_p2wsh_multisig_complete.

(* k-of-n tapscript <x1> CHECKSIG <x2> CHECKSIGADD ... OP_k OP_EQUAL (MultiSigTapScript, n >= 2):
   accepted only if every (key, signature) pair could be evaluated and exactly k of them verify *)
Theorem C06_tap_multisig_sound :
  forall C ripemd160 sha1 sha256 hash160 hash256 so c witness k x1 xs fuel sigs r a,
  1 <= k <= 16 -> length sigs = S (length xs) ->
  vloop C ripemd160 sha1 sha256 hash160 hash256 so c witness fuel
    (tap_multisig_script k (x1 :: xs)) (sigs ++ r) a (fl_off true) = OTrue ->
  count_ok so (x1 :: xs) sigs = Ok k.
Proof. exact tap_multisig_sound. Qed.
Print Assumptions C06_tap_multisig_sound.

(* non-vacuity: with an oracle that accepts one (key, signature) pair the hypotheses of the
   soundness theorems are met by a concrete accepted spend *)
Definition ex_so : sigops :=
  {| so_checksig := fun sec sg => Ok (beq sec [2] && beq sg [7; 1]);
     so_multisig := fun _ _ => Ok false; so_xonly_ok := fun _ => true;
     so_schnorr := fun _ _ _ => Ok false |}.
Definition ex_h160 (b : bytes) : bytes := repeatz (hd 0 b) 20.
Example C06_nonvacuous_p2pkh :
  verify_input secp256k1 (fun x => x) (fun x => x) (fun x => x) ex_h160 (fun x => x) ex_so
    {| t_locktime := 0; t_sequence := 0; t_version := 2 |} []
    [Push [7; 1]; Push [2]] (p2pkh_script (ex_h160 [2])) = OTrue.
Proof. apply p2pkh_complete; [discriminate|reflexivity]. Qed.

(* The constants written in the model are the constants of the SOURCE: coq/Generated/SrcConsts.v is regenerated
   from /repo/buidl/*.py by harness/gen_coq_consts.py on every run; the statements are spelled out in
   Proofs/ConstsTie.v (op_table_domain_is_source_stmt, op_nop_codes_are_source_stmt, secp256k1_is_source_stmt). *)
From V Require Proofs.ConstsTie.
Theorem C06_constants_match_source : ConstsTie.op_table_domain_is_source_stmt /\ ConstsTie.op_nop_codes_are_source_stmt /\ ConstsTie.secp256k1_is_source_stmt.
Proof. exact (conj ConstsTie.op_table_domain_is_source (conj ConstsTie.op_nop_codes_are_source ConstsTie.secp256k1_is_source)). Qed.
Print Assumptions C06_constants_match_source.
