(* Props/C06.v — input verification accepts properly signed spends and nothing unauthorised.
   Statements only; proofs are in Proofs/MultisigP.v, Proofs/VerifyP.v, Proofs/VerifyCompleteP.v,
   Proofs/TapMultisigP.v, Proofs/VerifyNestedP.v and Proofs/VerifyTapP.v.
   Everything is stated for EVERY signature oracle [so : sigops] (what OP_CHECKSIG etc. answer),
   every hash function, every scriptSig and every witness: acceptance by the model of
   Tx.verify_input implies the authorisation predicate of the spent output type. *)
From V Require Import Base.Prelude Base.Ints Model.Helper Model.Script Model.Op Model.Interp
  Model.Pecc Model.Taproot Model.Verify Proofs.MultisigP Proofs.VerifyP Proofs.TapMultisigP Proofs.VerifyCompleteP
  Proofs.VerifyNestedP Proofs.VerifyTapP.

(* OP_CHECKMULTISIG's matching loop accepts exactly when the signatures embed, in order, into
   the keys with every pair verifying: m signatures need m distinct keys *)
Theorem C06_checkmultisig_iff : forall (ver : bytes -> bytes -> bool) sigs keys,
  match_sigs ver sigs keys = true <-> embeds ver sigs keys.
Proof. exact match_sigs_iff. Qed.
Print Assumptions C06_checkmultisig_iff.

Theorem C06_checkmultisig_positions : forall (ver : bytes -> bytes -> bool) sigs keys,
  embeds ver sigs keys ->
  exists idx : list nat,
    length idx = length sigs /\
    (forall i j, (i < j < length idx)%nat -> (nth i idx 0 < nth j idx 0)%nat) /\
    (forall i, (i < length idx)%nat ->
       exists k, nth_error keys (nth i idx 0%nat) = Some k /\ ver k (nth i sigs []) = true).
Proof. exact embeds_positions. Qed.
Print Assumptions C06_checkmultisig_positions.

(* no scriptSig / witness content can keep a conditional-free scriptPubKey from being run *)
Theorem C06_suffix_always_run :
  forall C ripemd160 sha1 sha256 hash160 hash256 so c witness suf tap,
  plain suf -> forall fuel pre s a,
  vloop C ripemd160 sha1 sha256 hash160 hash256 so c witness fuel (pre ++ suf) s a (fl_off tap) = OTrue ->
  exists fuel' s' a',
    vloop C ripemd160 sha1 sha256 hash160 hash256 so c witness fuel' suf s' a' (fl_off tap) = OTrue.
Proof. exact vloop_suffix. Qed.
Print Assumptions C06_suffix_always_run.

Theorem C06_p2pkh_sound :
  forall C ripemd160 sha1 sha256 hash160 hash256 so c witness ss h,
  verify_input C ripemd160 sha1 sha256 hash160 hash256 so c witness ss (p2pkh_script h) = OTrue ->
  exists sec sg, hash160 sec = h /\ so_checksig so sec sg = Ok true.
Proof. exact p2pkh_sound. Qed.
Print Assumptions C06_p2pkh_sound.

Theorem C06_p2wpkh_sound :
  forall C ripemd160 sha1 sha256 hash160 hash256 so c witness ss h,
  length h = 20%nat ->
  verify_input C ripemd160 sha1 sha256 hash160 hash256 so c witness ss (p2wpkh_script h) = OTrue ->
  ss = [] /\ witness <> [] /\ exists sec sg, hash160 sec = h /\ so_checksig so sec sg = Ok true.
Proof. exact p2wpkh_sound. Qed.
Print Assumptions C06_p2wpkh_sound.

Theorem C06_p2sh_sound :
  forall C ripemd160 sha1 sha256 hash160 hash256 so c witness ss h,
  length h = 20%nat ->
  verify_input C ripemd160 sha1 sha256 hash160 hash256 so c witness ss (p2sh_script h) = OTrue ->
  exists pre b cs, ss = pre ++ [Push b] /\ hash160 b = h /\ parse_cmds b = Ok cs /\
    (is_p2wpkh cs || is_p2wsh cs = false ->
     exists fuel s a,
       vloop C ripemd160 sha1 sha256 hash160 hash256 so c witness fuel cs s a (fl_off false) = OTrue).
Proof. exact p2sh_sound. Qed.
Print Assumptions C06_p2sh_sound.

Theorem C06_p2sh_multisig_sound :
  forall C ripemd160 sha1 sha256 hash160 hash256 so c witness sec_ok ver,
  (forall secs sigs, so_multisig so secs sigs = so_multisig_loop sec_ok ver secs sigs) ->
  forall ss h m keys,
  length h = 20%nat -> 1 <= m <= 16 -> 1 <= zlen keys <= 16 ->
  verify_input C ripemd160 sha1 sha256 hash160 hash256 so c witness ss (p2sh_script h) = OTrue ->
  exists b, hash160 b = h /\
    (parse_cmds b = Ok (multisig_script m keys) ->
     exists sigs, zlen sigs = m /\ embeds ver sigs (rev keys)).
Proof. exact p2sh_multisig_sound. Qed.
Print Assumptions C06_p2sh_multisig_sound.

Theorem C06_p2wsh_sound :
  forall C ripemd160 sha1 sha256 hash160 hash256 so c witness ss x,
  length x = 32%nat ->
  verify_input C ripemd160 sha1 sha256 hash160 hash256 so c witness ss (p2wsh_script x) = OTrue ->
  ss = [] /\ witness <> [] /\ sha256 (last witness []) = x /\
  exists cs fuel, parse_cmds (last witness []) = Ok cs /\
    vloop C ripemd160 sha1 sha256 hash160 hash256 so c witness fuel
      (map Push (removelast witness) ++ cs) [] [] (fl_off false) = OTrue.
Proof. exact p2wsh_sound. Qed.
Print Assumptions C06_p2wsh_sound.

Theorem C06_p2wsh_multisig_sound :
  forall C ripemd160 sha1 sha256 hash160 hash256 so c witness sec_ok ver,
  (forall secs sigs, so_multisig so secs sigs = so_multisig_loop sec_ok ver secs sigs) ->
  forall ss x m keys,
  length x = 32%nat -> 1 <= m <= 16 -> 1 <= zlen keys <= 16 ->
  verify_input C ripemd160 sha1 sha256 hash160 hash256 so c witness ss (p2wsh_script x) = OTrue ->
  sha256 (last witness []) = x /\
  (parse_cmds (last witness []) = Ok (multisig_script m keys) ->
   exists sigs, zlen sigs = m /\ embeds ver sigs (rev keys)).
Proof. exact p2wsh_multisig_sound. Qed.
Print Assumptions C06_p2wsh_multisig_sound.

Theorem C06_p2tr_sound :
  forall C ripemd160 sha1 sha256 hash160 hash256 so c witness ss x,
  length x = 32%nat ->
  verify_input C ripemd160 sha1 sha256 hash160 hash256 so c witness ss (p2tr_script x) = OTrue ->
  ss = [] /\ witness <> [] /\
  let items := annex_stripped witness in
  (exists sg, items = [sg] /\ sg <> [] /\ so_xonly_ok so x = true /\
              so_schnorr so x (fst (schnorr_split sg)) (snd (schnorr_split sg)) = Ok true /\
              schnorr_form_ok sg = true)      (* BIP341 signature form, enforced since 746b81a *)
  \/
  ((2 <= length items)%nat /\ script_path_commit_check C sha256 x witness = Ok true /\
   exists ts fuel, witness_tap_script items = Ok ts /\
     vloop C ripemd160 sha1 sha256 hash160 hash256 so c witness fuel
       (map Push (firstn (length items - 2) items) ++ s_cmds ts) [] [] (fl_off true) = OTrue).
Proof. exact p2tr_sound. Qed.
Print Assumptions C06_p2tr_sound.

Theorem C06_p2pkh_complete :
  forall C ripemd160 sha1 sha256 hash160 hash256 so c witness sec sg,
  sg <> [] -> so_checksig so sec sg = Ok true ->
  verify_input C ripemd160 sha1 sha256 hash160 hash256 so c witness
    [Push sg; Push sec] (p2pkh_script (hash160 sec)) = OTrue.
Proof. exact p2pkh_complete. Qed.
Print Assumptions C06_p2pkh_complete.

Theorem C06_p2wpkh_complete :
  forall C ripemd160 sha1 sha256 hash160 hash256 so c sec sg,
  length (hash160 sec) = 20%nat -> sg <> [] -> so_checksig so sec sg = Ok true ->
  verify_input C ripemd160 sha1 sha256 hash160 hash256 so c [sg; sec] [] (p2wpkh_script (hash160 sec)) = OTrue.
Proof. exact p2wpkh_complete. Qed.
Print Assumptions C06_p2wpkh_complete.

Theorem C06_p2tr_keypath_complete :
  forall C ripemd160 sha1 sha256 hash160 hash256 so c x sg,
  length x = 32%nat -> sg <> [] -> so_xonly_ok so x = true -> schnorr_form_ok sg = true ->
  so_schnorr so x (fst (schnorr_split sg)) (snd (schnorr_split sg)) = Ok true ->
  verify_input C ripemd160 sha1 sha256 hash160 hash256 so c [sg] [] (p2tr_script x) = OTrue.
Proof. exact p2tr_keypath_complete. Qed.
Print Assumptions C06_p2tr_keypath_complete.

(* the canonical P2SH m-of-n spend  OP_0 <sig_1> .. <sig_m> <redeem script>  is accepted whenever
   OP_CHECKMULTISIG's verdict on the popped keys and signatures is positive *)
Theorem C06_p2sh_multisig_complete :
  forall C ripemd160 sha1 sha256 hash160 hash256 so c w m keys sigs b,
  1 <= m <= 16 -> 1 <= zlen keys <= 16 -> zlen sigs = m -> nonempty_sigs sigs = true ->
  length (hash160 b) = 20%nat ->
  parse_cmds b = Ok (multisig_script m keys) ->
  so_multisig so (rev keys) (rev sigs) = Ok true ->
  verify_input C ripemd160 sha1 sha256 hash160 hash256 so c w
    (Op 0 :: map Push sigs ++ [Push b]) (p2sh_script (hash160 b)) = OTrue.
Proof. exact p2sh_multisig_complete. Qed.
Print Assumptions C06_p2sh_multisig_complete.

(* the canonical P2WSH m-of-n spend: empty scriptSig, witness  <> <sig_1> .. <sig_m> <witness script> *)
Theorem C06_p2wsh_multisig_complete :
  forall C ripemd160 sha1 sha256 hash160 hash256 so c m keys sigs ws,
  1 <= m <= 16 -> 1 <= zlen keys <= 16 -> zlen sigs = m -> nonempty_sigs sigs = true ->
  length (sha256 ws) = 32%nat ->
  parse_cmds ws = Ok (multisig_script m keys) ->
  so_multisig so (rev keys) (rev sigs) = Ok true ->
  verify_input C ripemd160 sha1 sha256 hash160 hash256 so c ([] :: sigs ++ [ws])
    [] (p2wsh_script (sha256 ws)) = OTrue.
Proof. exact p2wsh_multisig_complete. Qed.
Print Assumptions C06_p2wsh_multisig_complete.

(* k-of-n tapscript <x1> CHECKSIG <x2> CHECKSIGADD ... OP_k OP_EQUAL (MultiSigTapScript, n >= 2):
   accepted only if every (key, signature) pair could be evaluated and exactly k of them verify *)
Theorem C06_tap_multisig_sound :
  forall C ripemd160 sha1 sha256 hash160 hash256 so c witness k x1 xs fuel sigs r a,
  1 <= k <= 16 -> length sigs = S (length xs) ->
  vloop C ripemd160 sha1 sha256 hash160 hash256 so c witness fuel
    (tap_multisig_script k (x1 :: xs)) (sigs ++ r) a (fl_off true) = OTrue ->
  count_ok so (x1 :: xs) sigs = Ok k.
Proof. exact tap_multisig_sound. Qed.
Print Assumptions C06_tap_multisig_sound.

(* ---------------------------------------------------------------- nested segwit (P2SH-wrapped witness programs) *)

(* the serialised witness program  0x00 <len> <program>  is what Script.parse reads back as  OP_0 <program> *)
Theorem C06_witness_program_parse : forall l p,
  zlen p = l -> 1 <= l <= 75 -> parse_cmds (0 :: l :: p) = Ok [Op 0; Push p].
Proof. exact parse_cmds_prog. Qed.
Print Assumptions C06_witness_program_parse.

(* P2SH-P2WPKH: a p2sh output is only ever spent by a scriptSig ending in a push of the redeem script b with
   hash160 b = h; when b is a p2wpkh program OP_0 <p> the scriptSig is EXACTLY that push, the witness is present
   and a public key hashing to p with a signature the oracle accepts was supplied *)
Theorem C06_p2sh_p2wpkh_sound :
  forall C ripemd160 sha1 sha256 hash160 hash256 so c witness ss h,
  length h = 20%nat ->
  verify_input C ripemd160 sha1 sha256 hash160 hash256 so c witness ss (p2sh_script h) = OTrue ->
  exists pre b cs, ss = pre ++ [Push b] /\ hash160 b = h /\ parse_cmds b = Ok cs /\
    (is_p2wpkh cs = true ->
     pre = [] /\ witness <> [] /\
     exists p sec sg, cs = p2wpkh_script p /\ hash160 sec = p /\ so_checksig so sec sg = Ok true).
Proof. exact p2sh_p2wpkh_sound. Qed.
Print Assumptions C06_p2sh_p2wpkh_sound.

(* the same with the redeem script named in the hypotheses *)
Theorem C06_p2sh_p2wpkh_sound_direct :
  forall C ripemd160 sha1 sha256 hash160 hash256 so c witness pre b h p,
  length h = 20%nat -> length p = 20%nat -> parse_cmds b = Ok (p2wpkh_script p) ->
  verify_input C ripemd160 sha1 sha256 hash160 hash256 so c witness (pre ++ [Push b]) (p2sh_script h) = OTrue ->
  pre = [] /\ hash160 b = h /\ witness <> [] /\
  exists sec sg, hash160 sec = p /\ so_checksig so sec sg = Ok true.
Proof. exact p2sh_p2wpkh_sound_direct. Qed.
Print Assumptions C06_p2sh_p2wpkh_sound_direct.

(* the canonical P2SH-P2WPKH spend: scriptSig = <0x00 0x14 hash160(sec)>, witness = <sig> <sec> *)
Theorem C06_p2sh_p2wpkh_complete :
  forall C ripemd160 sha1 sha256 hash160 hash256 so c sec sg,
  let redeem := 0 :: 20 :: hash160 sec in
  length (hash160 sec) = 20%nat -> length (hash160 redeem) = 20%nat -> sg <> [] ->
  so_checksig so sec sg = Ok true ->
  verify_input C ripemd160 sha1 sha256 hash160 hash256 so c [sg; sec]
    [Push redeem] (p2sh_script (hash160 redeem)) = OTrue.
Proof. exact p2sh_p2wpkh_complete. Qed.
Print Assumptions C06_p2sh_p2wpkh_complete.

(* P2SH-P2WSH, any witness script: the last witness item hashes to the program and is run after the other items *)
Theorem C06_p2sh_p2wsh_sound :
  forall C ripemd160 sha1 sha256 hash160 hash256 so c witness ss h,
  length h = 20%nat ->
  verify_input C ripemd160 sha1 sha256 hash160 hash256 so c witness ss (p2sh_script h) = OTrue ->
  exists pre b cs, ss = pre ++ [Push b] /\ hash160 b = h /\ parse_cmds b = Ok cs /\
    (is_p2wsh cs = true ->
     pre = [] /\ witness <> [] /\
     exists x, cs = p2wsh_script x /\ sha256 (last witness []) = x /\
       exists wcs fuel, parse_cmds (last witness []) = Ok wcs /\
         vloop C ripemd160 sha1 sha256 hash160 hash256 so c witness fuel
           (map Push (removelast witness) ++ wcs) [] [] (fl_off false) = OTrue).
Proof. exact p2sh_p2wsh_sound. Qed.
Print Assumptions C06_p2sh_p2wsh_sound.

(* P2SH-P2WSH m-of-n: m signatures, each verifying under a different key of the witness script, in key order *)
Theorem C06_p2sh_p2wsh_multisig_sound :
  forall C ripemd160 sha1 sha256 hash160 hash256 so c sec_ok ver,
  (forall secs sigs, so_multisig so secs sigs = so_multisig_loop sec_ok ver secs sigs) ->
  forall witness ss h m keys,
  length h = 20%nat -> 1 <= m <= 16 -> 1 <= zlen keys <= 16 ->
  verify_input C ripemd160 sha1 sha256 hash160 hash256 so c witness ss (p2sh_script h) = OTrue ->
  exists pre b cs, ss = pre ++ [Push b] /\ hash160 b = h /\ parse_cmds b = Ok cs /\
    (is_p2wsh cs = true ->
     pre = [] /\ witness <> [] /\
     exists x, cs = p2wsh_script x /\ sha256 (last witness []) = x /\
       (parse_cmds (last witness []) = Ok (multisig_script m keys) ->
        exists sigs, zlen sigs = m /\ embeds ver sigs (rev keys))).
Proof. exact p2sh_p2wsh_multisig_sound. Qed.
Print Assumptions C06_p2sh_p2wsh_multisig_sound.

(* the canonical P2SH-P2WSH m-of-n spend: scriptSig = <0x00 0x20 sha256(ws)>,
   witness  <> <sig_1> .. <sig_m> <witness script> *)
Theorem C06_p2sh_p2wsh_multisig_complete :
  forall C ripemd160 sha1 sha256 hash160 hash256 so c m keys sigs ws,
  let redeem := 0 :: 32 :: sha256 ws in
  1 <= m <= 16 -> 1 <= zlen keys <= 16 -> zlen sigs = m -> nonempty_sigs sigs = true ->
  length (sha256 ws) = 32%nat -> length (hash160 redeem) = 20%nat ->
  parse_cmds ws = Ok (multisig_script m keys) ->
  so_multisig so (rev keys) (rev sigs) = Ok true ->
  verify_input C ripemd160 sha1 sha256 hash160 hash256 so c ([] :: sigs ++ [ws])
    [Push redeem] (p2sh_script (hash160 redeem)) = OTrue.
Proof. exact p2sh_p2wsh_multisig_complete. Qed.
Print Assumptions C06_p2sh_p2wsh_multisig_complete.

(* ---------------------------------------------------------------- taproot script path, k-of-n leaf *)

(* soundness of the leaf without assuming anything about the initial stack: one element is popped per key,
   every (key, element) pair could be evaluated and exactly k of them verify *)
Theorem C06_tap_multisig_sound_gen :
  forall C ripemd160 sha1 sha256 hash160 hash256 so c witness k x1 xs fuel s a,
  1 <= k <= 16 ->
  vloop C ripemd160 sha1 sha256 hash160 hash256 so c witness fuel
    (tap_multisig_script k (x1 :: xs)) s a (fl_off true) = OTrue ->
  exists sigs r, s = sigs ++ r /\ length sigs = S (length xs) /\ count_ok so (x1 :: xs) sigs = Ok k.
Proof. exact tap_multisig_sound_gen. Qed.
Print Assumptions C06_tap_multisig_sound_gen.

(* completeness of the CHECKSIG / CHECKSIGADD chain: accepted whenever exactly k pairs verify *)
Theorem C06_tap_multisig_complete :
  forall C ripemd160 sha1 sha256 hash160 hash256 so c witness k x1 xs sigs r a extra,
  1 <= k <= 16 -> count_ok so (x1 :: xs) sigs = Ok k ->
  vloop C ripemd160 sha1 sha256 hash160 hash256 so c witness (2 * length (x1 :: xs) + 2 + extra)
    (tap_multisig_script k (x1 :: xs)) (sigs ++ r) a (fl_off true) = OTrue.
Proof. exact tap_multisig_complete. Qed.
Print Assumptions C06_tap_multisig_complete.

Theorem C06_tap_multisig_iff :
  forall C ripemd160 sha1 sha256 hash160 hash256 so c witness k x1 xs sigs r a,
  1 <= k <= 16 -> length sigs = S (length xs) ->
  ((exists fuel, vloop C ripemd160 sha1 sha256 hash160 hash256 so c witness fuel
                   (tap_multisig_script k (x1 :: xs)) (sigs ++ r) a (fl_off true) = OTrue)
   <-> count_ok so (x1 :: xs) sigs = Ok k).
Proof. exact tap_multisig_iff. Qed.
Print Assumptions C06_tap_multisig_iff.

(* the canonical witness stack: a verifying signature in the slots of the k signers and an EMPTY element in the
   other slots (op_checksigadd_schnorr skips an empty signature and leaves the counter unchanged) *)
Theorem C06_tap_multisig_complete_canonical :
  forall C ripemd160 sha1 sha256 hash160 hash256 so c witness k x1 xs sigs r a extra,
  1 <= k <= 16 ->
  Forall2 (fun x sg => so_xonly_ok so x = true /\
             (sg = [] \/ (schnorr_form_ok sg = true /\
                          so_schnorr so x (fst (schnorr_split sg)) (snd (schnorr_split sg)) = Ok true)))
          (x1 :: xs) sigs ->
  zlen (filter (fun sg : bytes => match sg with [] => false | _ => true end) sigs) = k ->
  vloop C ripemd160 sha1 sha256 hash160 hash256 so c witness (2 * length (x1 :: xs) + 2 + extra)
    (tap_multisig_script k (x1 :: xs)) (sigs ++ r) a (fl_off true) = OTrue.
Proof. exact tap_multisig_complete_canonical. Qed.
Print Assumptions C06_tap_multisig_complete_canonical.

(* Tx.verify_input on a witness-v1 output spent through the script path with a k-of-n leaf: the control block
   commits the leaf to the output key x AND exactly k of the n (key, witness element) pairs verify.  The leaf's
   initial stack is the (annex-stripped) witness without its last two items, last item on top. *)
Theorem C06_p2tr_tap_multisig_sound :
  forall C ripemd160 sha1 sha256 hash160 hash256 so c witness ss x k x1 xs ts,
  length x = 32%nat -> 1 <= k <= 16 ->
  verify_input C ripemd160 sha1 sha256 hash160 hash256 so c witness ss (p2tr_script x) = OTrue ->
  let items := annex_stripped witness in
  (2 <= length items)%nat ->
  witness_tap_script items = Ok ts -> s_cmds ts = tap_multisig_script k (x1 :: xs) ->
  ss = [] /\ script_path_commit_check C sha256 x witness = Ok true /\
  exists sigs r, rev (firstn (length items - 2) items) = sigs ++ r /\ length sigs = S (length xs) /\
    count_ok so (x1 :: xs) sigs = Ok k.
Proof. exact p2tr_tap_multisig_sound. Qed.
Print Assumptions C06_p2tr_tap_multisig_sound.

(* and the converse: a script-path witness  <s_n> .. <s_1> <leaf script> <control block> [<annex>]  whose control
   block passes the commitment check and in which exactly k pairs verify is accepted (for every n: the fuel of
   evaluate_full is shown to suffice) *)
Theorem C06_p2tr_tap_multisig_complete :
  forall C ripemd160 sha1 sha256 hash160 hash256 so c witness x k x1 xs ts,
  length x = 32%nat -> 1 <= k <= 16 ->
  let items := annex_stripped witness in
  length items = (S (length xs) + 2)%nat ->
  script_path_commit_check C sha256 x witness = Ok true ->
  witness_tap_script items = Ok ts -> s_cmds ts = tap_multisig_script k (x1 :: xs) ->
  count_ok so (x1 :: xs) (rev (firstn (S (length xs)) items)) = Ok k ->
  verify_input C ripemd160 sha1 sha256 hash160 hash256 so c witness [] (p2tr_script x) = OTrue.
Proof. exact p2tr_tap_multisig_complete. Qed.
Print Assumptions C06_p2tr_tap_multisig_complete.

(* non-vacuity: with an oracle that accepts one (key, signature) pair the hypotheses of the
   soundness theorems are met by a concrete accepted spend *)
Definition ex_so : sigops :=
  {| so_checksig := fun sec sg => Ok (beq sec [2] && beq sg [7; 1]);
     so_multisig := fun _ _ => Ok false; so_xonly_ok := fun _ => true;
     so_schnorr := fun _ _ _ => Ok false |}.
Definition ex_h160 (b : bytes) : bytes := repeatz (hd 0 b) 20.
Example C06_nonvacuous_p2pkh :
  verify_input secp256k1 (fun x => x) (fun x => x) (fun x => x) ex_h160 (fun x => x) ex_so
    {| t_locktime := 0; t_sequence := 0; t_version := 2 |} []
    [Push [7; 1]; Push [2]] (p2pkh_script (ex_h160 [2])) = OTrue.
Proof. apply p2pkh_complete; [discriminate|reflexivity]. Qed.

Example C06_nonvacuous_p2sh_p2wpkh :
  verify_input secp256k1 (fun x => x) (fun x => x) (fun x => x) ex_h160 (fun x => x) ex_so
    {| t_locktime := 0; t_sequence := 0; t_version := 2 |} [[7; 1]; [2]]
    [Push (0 :: 20 :: ex_h160 [2])] (p2sh_script (ex_h160 (0 :: 20 :: ex_h160 [2]))) = OTrue.
Proof. apply p2sh_p2wpkh_complete; [reflexivity|reflexivity|discriminate|reflexivity]. Qed.

(* 2-of-3 leaf: signatures for keys 1 and 3, an empty element for key 2 (stack: the element for x1 on top) *)
Definition ex_sig64 : bytes := repeatz 9 64.        (* a signature of the form BIP341 requires: 64 bytes *)
Definition ex_so_tap : sigops :=
  {| so_checksig := fun _ _ => Ok false; so_multisig := fun _ _ => Ok false; so_xonly_ok := fun _ => true;
     so_schnorr := fun _ sg _ => Ok (beq sg ex_sig64) |}.
Example C06_nonvacuous_tap_multisig :
  exists fuel,
  vloop secp256k1 (fun x => x) (fun x => x) (fun x => x) ex_h160 (fun x => x) ex_so_tap
    {| t_locktime := 0; t_sequence := 0; t_version := 2 |} [] fuel
    (tap_multisig_script 2 [[1]; [2]; [3]]) ([ex_sig64; []; ex_sig64] ++ []) [] (fl_off true) = OTrue.
Proof.
  exists (2 * length [[1]; [2]; [3]] + 2 + 0)%nat.
  apply (tap_multisig_complete _ _ _ _ _ _ _ _ _ 2 [1] [[2]; [3]]); [lia|reflexivity].
Qed.

(* a complete script-path spend on the toy curve y^2 = x^3 + 7 over F_43 (Proofs/ToyCurve.v) with a toy hash:
   1-of-2 leaf, internal key G, the hypotheses of C06_p2tr_tap_multisig_complete hold and the input is accepted *)
From V Require Proofs.ToyCurve.
Definition ex_sha (b : bytes) : bytes := to_be 32 (1 + fold_left Z.add b 0 mod 29).
Definition ex_xkey : bytes := to_be 32 2.
Definition ex_leaf_raw : bytes := 32 :: ex_xkey ++ [172] ++ 32 :: ex_xkey ++ [186; 81; 135].
Definition ex_tap_witness : list bytes := [ex_sig64; []; ex_leaf_raw; 192 :: ex_xkey].
Example C06_nonvacuous_p2tr_script_path :
  script_path_commit_check ToyCurve.toy ex_sha (to_be 32 29) ex_tap_witness = Ok true /\
  verify_input ToyCurve.toy (fun x => x) (fun x => x) ex_sha ex_h160 (fun x => x) ex_so_tap
    {| t_locktime := 0; t_sequence := 0; t_version := 2 |} ex_tap_witness [] (p2tr_script (to_be 32 29)) = OTrue.
Proof.
  assert (script_path_commit_check ToyCurve.toy ex_sha (to_be 32 29) ex_tap_witness = Ok true) as Hc
    by (vm_compute; reflexivity).
  split; [exact Hc|].
  eapply (p2tr_tap_multisig_complete _ _ _ _ _ _ _ _ _ _ 1 ex_xkey [ex_xkey]);
    [reflexivity|lia|reflexivity|exact Hc|vm_compute; reflexivity|reflexivity|reflexivity].
Qed.

(* The constants written in the model are the constants of the SOURCE: coq/Generated/SrcConsts.v is regenerated
   from /repo/buidl/*.py by harness/gen_coq_consts.py on every run; the statements are spelled out in
   Proofs/ConstsTie.v (op_table_domain_is_source_stmt, op_nop_codes_are_source_stmt, secp256k1_is_source_stmt). *)
From V Require Proofs.ConstsTie.
Theorem C06_constants_match_source : ConstsTie.op_table_domain_is_source_stmt /\ ConstsTie.op_nop_codes_are_source_stmt /\ ConstsTie.secp256k1_is_source_stmt.
Proof. exact (conj ConstsTie.op_table_domain_is_source (conj ConstsTie.op_nop_codes_are_source ConstsTie.secp256k1_is_source)). Qed.
Print Assumptions C06_constants_match_source.
