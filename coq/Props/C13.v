(* Props/C13.v — MuSig aggregation yields valid BIP340 signatures; k-of-n trees cover all subsets.
   Only statements, each closed by a lemma from Proofs/, followed by Print Assumptions.
   sha256 is universally quantified.  The curve facts are explicit hypotheses (never axioms):
   [scalar_laws C] (Proofs/GroupHyp.v) and [xonly_lift_ok C] (parse_xonly of the x coordinate of
   a valid point is its even-y representative; Proofs/MusigLift.v derives it from the encoding
   lemma of Proofs/PeccEnc.v when no valid point has x = 0).  Both are proved for the toy curve. *)
From Coq Require Import Permutation.
From V Require Import Base.Prelude Base.Ints Model.Helper Model.Script Model.Pecc Model.Taproot
  Model.Musig Proofs.GroupHyp Proofs.CurveAlg Proofs.TaprootP Proofs.MusigP Proofs.MusigAlg
  Proofs.MusigLift Proofs.PeccEnc Proofs.ToyCurve.
From V Require Import Model.Op Model.Interp Model.Verify Proofs.VerifyP Proofs.TapMultisigP Proofs.VerifyTapP
  Proofs.MusigTreeP Proofs.MusigFinalP Proofs.MusigExtraP Proofs.MusigToy.
From V Require Dispatch.DC13.

(* (1) Every participant i has a secret d_i in [1, n-1] (so both parities of the public points
   occur), a nonce pair (k1_i, k2_i); [parts] lists (d_i, (k1_i, k2_i)).  The x-only keys are
   pairwise distinct (a key and its negation collide in coef_lookup) and there are >= 2 of them.
   Then key aggregation succeeds, and — unless the aggregate, a nonce sum, R or the external key
   is the point at infinity, where the implementation raises — the sum of all partial signatures
   given to get_signature yields (r, s) = (even R, s) with 0 <= s < n that schnorr_verify accepts
   for the external key: the even aggregate (root = b"") or the taproot-tweaked aggregate.
   musig_session is the whole flow of test_musig.py (generate_nonces, nonce_sums, compute_r,
   compute_k, sign for everybody, get_signature). *)
Theorem C13_musig_sum_verifies :
  forall (C : curve) (sha256 : bytes -> bytes),
  scalar_laws C -> xonly_lift_ok C -> cn C <= pow256 32 ->
  forall (parts : list (Z * (Z * Z))) (msg root : bytes),
  Forall (fun d => 1 <= d <= cn C - 1) (map fst parts) ->
  (2 <= length parts)%nat ->
  NoDup (map xonly (map (fun d => mulT C d (G C)) (map fst parts))) ->
  exists ms,
    musig_init C sha256 (map (fun d => mulT C d (G C)) (map fst parts)) = Ok ms /\
    valid C (ms_point ms) /\
    (ms_point ms <> None ->
     mulT C (zsum (map (fun p => fst (snd p)) parts)) (G C) <> None ->
     mulT C (zsum (map (fun p => snd (snd p)) parts)) (G C) <> None ->
     exists sums R,
       musig_session_r C sha256 ms parts msg = Ok (sums, R) /\ valid C R /\
       (R <> None ->
        exists ext,
          musig_external C sha256 ms root = Ok ext /\ valid C ext /\
          (ext <> None ->
           exists ps s,
             musig_partials C sha256 ms parts sums R msg root = Ok ps /\
             musig_get_signature C sha256 ms (zsum ps) R msg root = Ok (evenT C R, s) /\
             musig_session C sha256 parts msg root = Ok (evenT C R, s) /\
             schnorr_verify C sha256 ext msg (evenT C R) s = Ok true /\
             0 <= s < cn C))).
Proof. exact musig_sum_verifies. Qed.
Print Assumptions C13_musig_sum_verifies.

(* (2) the aggregation depends only on the multiset of x-only encodings of the listed points:
   neither their order nor the parity of their y coordinates matters ... *)
Theorem C13_aggregate_key_order_independent :
  forall (C : curve) (sha256 : bytes -> bytes) pts pts',
  Permutation (map xonly pts) (map xonly pts') ->
  musig_init C sha256 pts = musig_init C sha256 pts'.
Proof. exact musig_init_perm. Qed.
Print Assumptions C13_aggregate_key_order_independent.

Theorem C13_aggregate_key_permutation :
  forall (C : curve) (sha256 : bytes -> bytes) pts pts',
  Permutation pts pts' -> musig_init C sha256 pts = musig_init C sha256 pts'.
Proof. intros C sha256 pts pts' P. apply musig_init_perm. now apply Permutation_map. Qed.
Print Assumptions C13_aggregate_key_permutation.

(* ... because what is aggregated are the x-only lifts (parse_xonly) of the SORTED x-only
   encodings, scaled by the coefficients (the second one is 1) and summed *)
Theorem C13_aggregate_key_what :
  forall (C : curve) (sha256 : bytes -> bytes) pts ms,
  musig_init C sha256 pts = Ok ms ->
  ms_xonlys ms = sort_bytes (map xonly pts) /\
  mapM (parse_xonly C) (ms_xonlys ms) = Ok (ms_points ms) /\
  (exists sc, scaled C (ms_coefs ms) (ms_points ms) = Ok sc /\ combine_points C sc = Ok (ms_point ms)) /\
  nth_error (ms_coefs ms) 1 = Some 1.
Proof. exact musig_init_aggregates. Qed.
Print Assumptions C13_aggregate_key_what.

Theorem C13_sort_bytes_is_the_sorted_permutation :
  forall l, Permutation (sort_bytes l) l /\ Sorted.StronglySorted (fun a b => blt b a = false) (sort_bytes l).
Proof.
  intros l. split; [apply sort_perm|].
  pose proof (sort_SS l) as H. induction H as [|a t _ IH F]; constructor; auto.
  rewrite Forall_forall in *. intros b Hb. specialize (F b Hb). unfold bleP, ble in F.
  now destruct (blt b a).
Qed.
Print Assumptions C13_sort_bytes_is_the_sorted_permutation.

(* (3) for fixed keys, R, message and root, get_signature accepts at most one residue class
   of s_sum mod n: a sum altered by delta <> 0 (mod n), or with a partial signature x <> 0 (mod n)
   left out, makes get_signature raise *)
Theorem C13_musig_altered_or_missing_fails :
  forall (C : curve) (sha256 : bytes -> bytes),
  scalar_laws C -> cn C <= pow256 32 -> cp C <= pow256 32 ->
  forall ms R msg root s_sum sig, valid C (ms_point ms) ->
  musig_get_signature C sha256 ms s_sum R msg root = Ok sig ->
  (forall s', s_sum mod cn C <> s' mod cn C ->
     musig_get_signature C sha256 ms s' R msg root = Err) /\
  (forall delta, delta mod cn C <> 0 ->
     musig_get_signature C sha256 ms (s_sum + delta) R msg root = Err) /\
  (forall x, x mod cn C <> 0 ->
     musig_get_signature C sha256 ms (s_sum - x) R msg root = Err).
Proof.
  intros C sha256 SL N256 P256 ms R msg root s_sum sig Hv H.
  pose proof (n_pos C SL) as Hn.
  assert (A : forall s', s_sum mod cn C <> s' mod cn C ->
              musig_get_signature C sha256 ms s' R msg root = Err).
  { intros s' Hne. apply (other_sum_rejected C sha256 SL N256 P256 ms R msg root s_sum s' sig Hv H).
    intros E. apply Hne. exact (cong_mod C s_sum s' E). }
  split; [exact A|]. split.
  - intros delta Hd. apply A. intros E. apply Hd.
    replace delta with ((s_sum + delta) - s_sum) by lia.
    rewrite Zminus_mod, <- E, Z.sub_diag. apply Z.mod_0_l. lia.
  - intros x Hx. apply A. intros E. apply Hx.
    replace x with (s_sum - (s_sum - x)) by lia.
    rewrite Zminus_mod, <- E, Z.sub_diag. apply Z.mod_0_l. lia.
Qed.
Print Assumptions C13_musig_altered_or_missing_fails.

(* (4) itertools.combinations(pool, k) is exactly the list of the length-k subsequences of the
   pool (the k-subsets, each once, when the pool has no duplicates) *)
Theorem C13_combinations_exact :
  forall (A : Type) (pool : list A) (k : nat),
  (forall c, In c (combos pool k) <-> subseq c pool /\ length c = k) /\
  (NoDup pool -> NoDup (combos pool k)).
Proof.
  intros A pool k. split.
  - intros c. split; [apply combos_sound | intros [H1 H2]; now apply combos_complete].
  - intros H. now apply combos_NoDup.
Qed.
Print Assumptions C13_combinations_exact.

(* the leaves of the generated k-of-n trees are, in order, one leaf per combination, built from
   exactly the keys of that combination (TapBranch.combine keeps the leaves in order) *)
Theorem C13_multi_leaf_tree_leaves :
  forall (C : curve) pts k lk t,
  multi_leaf_tree C pts k lk = Ok t ->
  Forall2 (fun sub lf => exists cs, multisig_cmds C lk sub k = Ok cs /\ lf = (192, mk_script cs))
          (combos pts (Z.to_nat k)) (leaves t).
Proof. exact multi_leaf_tree_leaves. Qed.
Print Assumptions C13_multi_leaf_tree_leaves.

Theorem C13_musig_tree_leaves :
  forall (C : curve) (sha256 : bytes -> bytes) pts k lk t,
  musig_tree C sha256 pts k lk = Ok t ->
  Forall2 (fun sub lf => exists cs, musig_cmds C sha256 lk sub = Ok cs /\ lf = (192, mk_script cs))
          (combos pts (Z.to_nat k)) (leaves t).
Proof. exact musig_tree_leaves. Qed.
Print Assumptions C13_musig_tree_leaves.

Theorem C13_combine_keeps_leaves :
  forall nodes, nodes <> [] ->
  exists t, combine_nodes (length nodes) nodes = Ok t /\ leaves t = flat_map leaves nodes.
Proof.
  intros nodes H. destruct (combine_nodes_ok (length nodes) nodes H (le_n _)) as [t Ht].
  exists t. split; [exact Ht | exact (combine_nodes_leaves _ _ _ Ht)].
Qed.
Print Assumptions C13_combine_keeps_leaves.

(* the x-only lift hypothesis follows from the encoding lemma of C03 when no valid point has x = 0 *)
Theorem C13_xonly_lift_from_encoding :
  forall C : curve, scalar_laws C -> ca C = 0 -> cp C mod 4 = 3 -> cp C < pow256 32 ->
  (forall y, ~ valid C (Some (0, y))) -> xonly_lift_ok C.
Proof. exact xonly_lift_of_enc. Qed.
Print Assumptions C13_xonly_lift_from_encoding.

(* ---- the hypotheses are satisfiable: toy curve y^2 = x^3 + 7 over F_43, group order 31 ---- *)
Example C13_toy_hypotheses : scalar_laws toy /\ xonly_lift_ok toy /\ cn toy <= pow256 32 /\ cp toy <= pow256 32.
Proof. split; [exact toy_scalar_laws|]. split; [exact toy_xonly_lift_ok|]. split; vm_compute; discriminate. Qed.

(* a concrete three-party session on the toy curve (public points of parities odd, even, odd) with a
   toy "hash": get_signature accepts the sum, without and with a merkle root *)
Example C13_toy_session :
  let sha := fun b : bytes => [Z.of_nat (length b) mod 29 + 1] in
  let parts := [(3, (5, 7)); (4, (2, 9)); (10, (1, 30))] in
  musig_session toy sha parts [1; 2; 3] [] = Ok (Some (38, 22), 29) /\
  musig_session toy sha parts [1; 2; 3] [7; 7] = Ok (Some (38, 22), 0).
Proof. vm_compute. split; reflexivity. Qed.

Example C13_toy_sum_verifies :
  forall (sha256 : bytes -> bytes) (parts : list (Z * (Z * Z))) (msg root : bytes),
  Forall (fun d => 1 <= d <= 30) (map fst parts) -> (2 <= length parts)%nat ->
  NoDup (map xonly (map (fun d => mulT toy d (G toy)) (map fst parts))) ->
  exists ms, musig_init toy sha256 (map (fun d => mulT toy d (G toy)) (map fst parts)) = Ok ms /\
             valid toy (ms_point ms).
Proof.
  intros sha256 parts msg root H1 H2 H3.
  destruct (C13_musig_sum_verifies toy sha256 toy_scalar_laws toy_xonly_lift_ok ltac:(vm_compute; discriminate)
              parts msg root H1 H2 H3) as (ms & A & B & _).
  exists ms. split; assumption.
Qed.

(* ======================================================================================================
   Deepening: (5) which key sets own a leaf in the generated trees, (6) Tx.initialize_p2tr_multisig /
   Tx.finalize_p2tr_multisig and the spend of a leaf through the tapscript interpreter of C06,
   (7) get_signature / the list of partial signatures at the level the user handles them.
   ====================================================================================================== *)

(* (5a) multi_leaf_tree with pairwise distinct x-only keys: it exists only for 1 <= k <= n, has C(n, k) leaves,
   they are pairwise different, every k-subset (length-k subsequence of the key list) owns a leaf that no other
   k-subset owns, and conversely a key list sub' (any length, any threshold k') whose MultiSigTapScript is a leaf
   of the tree is, as a multiset of x-only keys, one of the k-subsets: no smaller and no larger set owns a leaf *)
Theorem C13_multi_leaf_tree_every_k_subset_exactly_one_leaf :
  forall (C : curve) pts k lk t,
  NoDup (map xonly pts) -> multi_leaf_tree C pts k lk = Ok t ->
  (1 <= k <= zlen pts) /\
  length (leaves t) = choose (length pts) (Z.to_nat k) /\
  NoDup (leaves t) /\
  (forall sub, subseq sub pts -> length sub = Z.to_nat k ->
     exists lf, (exists cs, multisig_cmds C lk sub k = Ok cs /\ lf = (192, mk_script cs)) /\
       In lf (leaves t) /\
       forall sub', subseq sub' pts ->
         (exists cs, multisig_cmds C lk sub' k = Ok cs /\ lf = (192, mk_script cs)) -> sub' = sub) /\
  (forall sub' k' lf, (exists cs, multisig_cmds C lk sub' k' = Ok cs /\ lf = (192, mk_script cs)) ->
     In lf (leaves t) ->
     exists sub, subseq sub pts /\ length sub = Z.to_nat k /\
       (exists cs, multisig_cmds C lk sub k = Ok cs /\ lf = (192, mk_script cs)) /\
       Permutation (map xonly sub') (map xonly sub)).
Proof. exact multi_leaf_tree_cover. Qed.
Print Assumptions C13_multi_leaf_tree_every_k_subset_exactly_one_leaf.

(* the leaf script determines the key set: two key lists with the same MultiSigTapScript commands (same timelock)
   carry the same multiset of x-only keys *)
Theorem C13_multisig_script_determines_keys :
  forall (C : curve) lk sub k sub' k' cs,
  multisig_cmds C lk sub k = Ok cs -> multisig_cmds C lk sub' k' = Ok cs ->
  Permutation (map xonly sub) (map xonly sub').
Proof. exact multisig_cmds_same_keys. Qed.
Print Assumptions C13_multisig_script_determines_keys.

Theorem C13_combinations_count :
  forall (A : Type) (pool : list A) (k : nat), length (combos pool k) = choose (length pool) k.
Proof. intros A pool k. apply combos_length. Qed.
Print Assumptions C13_combinations_count.

(* (5b) musig_tree: exists only for 2 <= k <= n (MuSig of one key raises), C(n, k) leaves, every k-subset has its
   aggregate-key leaf in the tree and every leaf is the aggregate-key leaf of a k-subset *)
Theorem C13_musig_tree_every_k_subset_has_leaf :
  forall (C : curve) (sha256 : bytes -> bytes) pts k lk t,
  musig_tree C sha256 pts k lk = Ok t ->
  (2 <= k <= zlen pts) /\
  length (leaves t) = choose (length pts) (Z.to_nat k) /\
  (forall sub, subseq sub pts -> length sub = Z.to_nat k ->
     exists lf, (exists cs, musig_cmds C sha256 lk sub = Ok cs /\ lf = (192, mk_script cs)) /\ In lf (leaves t)) /\
  (forall lf, In lf (leaves t) ->
     exists sub, subseq sub pts /\ length sub = Z.to_nat k /\
       exists cs, musig_cmds C sha256 lk sub = Ok cs /\ lf = (192, mk_script cs)).
Proof. exact musig_tree_cover. Qed.
Print Assumptions C13_musig_tree_every_k_subset_has_leaf.

(* ... but that two different k-subsets have DIFFERENT MuSig leaves is not a consequence of the construction:
   on the toy curve (15 x coordinates) with a toy hash, four keys with pairwise distinct x-only encodings give a
   2-of-4 musig_tree with 6 leaves two of which coincide.  On secp256k1 with SHA256 distinctness is a
   computational property (an aggregate-key collision), established per run by the ktree predicate. *)
Theorem C13_musig_leaf_distinctness_not_structural :
  NoDup (map xonly toy_keys) /\
  exists t, musig_tree toy toy_sha toy_keys 2 NoLock = Ok t /\ length (leaves t) = 6%nat /\ ~ NoDup (leaves t).
Proof. split; [exact toy_keys_nodup | exact toy_musig_tree]. Qed.
Print Assumptions C13_musig_leaf_distinctness_not_structural.

(* (5c) the other builders *)
Theorem C13_single_leaf_what :
  forall (C : curve) pts k lk t,
  single_leaf C pts k lk = Ok t <-> exists cs, multisig_cmds C lk pts k = Ok cs /\ t = Leaf 192 (mk_script cs).
Proof. exact single_leaf_what. Qed.
Print Assumptions C13_single_leaf_what.

Theorem C13_musig_and_single_leaf_tree_leaves :
  forall (C : curve) (sha256 : bytes -> bytes) pts k lk t,
  musig_and_single_leaf_tree C sha256 pts k lk = Ok t ->
  exists cs b, multisig_cmds C lk pts k = Ok cs /\ musig_tree C sha256 pts k lk = Ok b /\
    t = Branch (Leaf 192 (mk_script cs)) b /\ leaves t = (192, mk_script cs) :: leaves b.
Proof. exact musig_and_single_leaf_tree_leaves. Qed.
Print Assumptions C13_musig_and_single_leaf_tree_leaves.

Theorem C13_everything_tree_leaves :
  forall (C : curve) (sha256 : bytes -> bytes) pts k lk t,
  everything_tree C sha256 pts k lk = Ok t ->
  exists cs b c, multisig_cmds C lk pts k = Ok cs /\ multi_leaf_tree C pts k lk = Ok b /\
    musig_tree C sha256 pts k lk = Ok c /\
    t = Branch (Leaf 192 (mk_script cs)) (Branch b c) /\
    leaves t = (192, mk_script cs) :: leaves b ++ leaves c.
Proof. exact everything_tree_leaves. Qed.
Print Assumptions C13_everything_tree_leaves.

(* degrading_multisig_tree: for num = k, k-1, .., 1 and every num-subset, in this order, the num-of-num leaf with
   the relative timelock of that level (none for num = k) *)
Theorem C13_degrading_tree_leaves :
  forall (C : curve) pts k kind interval t,
  degrading_multisig_tree C pts k kind interval = Ok t ->
  Forall2 (fun (ns : Z * list point) lf =>
             exists lk cs, degrading_seq kind interval k (fst ns) = Ok lk /\
               multisig_cmds C lk (snd ns) (fst ns) = Ok cs /\ lf = (192, mk_script cs))
          (flat_map (fun num => map (pair num) (combos pts (Z.to_nat num))) (countdown (Z.to_nat k) k))
          (leaves t) /\
  degrading_seq kind interval k k = Ok NoLock.
Proof.
  intros C pts k kind interval t H. split; [exact (degrading_tree_leaves C pts k kind interval t H)|].
  apply degrading_seq_top.
Qed.
Print Assumptions C13_degrading_tree_leaves.

(* (6a) Tx.initialize_p2tr_multisig: on an empty witness it installs [leaf script, control block] and records the
   MultiSigTapScript; for a tap script of another type it raises AFTER having replaced the witness; on a non-empty
   witness it silently does nothing, so that finalize_p2tr_multisig raises "initialize single leaf multisig first" *)
Theorem C13_initialize_p2tr_multisig :
  forall cb sc raw cbs tp,
  raw_serialize sc = Ok raw -> cb_serialize cb = Ok cbs ->
  (forall pts, init_p2tr_multisig {| ti_items := []; ti_points := tp |} cb sc (Some pts)
               = Ok ({| ti_items := [raw; cbs]; ti_points := Some pts |}, false)) /\
  init_p2tr_multisig {| ti_items := []; ti_points := tp |} cb sc None
    = Ok ({| ti_items := [raw; cbs]; ti_points := tp |}, true) /\
  (forall st mp, ti_items st <> [] -> init_p2tr_multisig st cb sc mp = Ok (st, false)) /\
  (forall C sha256 sighash st sigs, (length (ti_items st) < 2)%nat \/ ti_points st = None ->
     finalize_p2tr_multisig C sha256 sighash st sigs = Err).
Proof.
  intros cb sc raw cbs tp H1 H2. split; [intros pts; now apply init_fresh|].
  split; [now apply init_wrong_type|]. split; [intros st mp; apply init_nonempty|].
  intros C sha256 sighash st sigs. apply finalize_uninitialised.
Qed.
Print Assumptions C13_initialize_p2tr_multisig.

(* (6b) the witness finalize_p2tr_multisig assembles: one slot per key of the leaf in the order of the (sorted)
   KEYS — the slot of the last key first, i.e. the first key's slot ends on top of the stack — whatever the order
   of [sigs]; a slot is b"" exactly when no non-empty signature verifies for that key (empty entries of [sigs]
   are skipped), else it is a member of [sigs] that verifies for it *)
Theorem C13_finalize_witness_shape :
  forall (C : curve) (sha256 : bytes -> bytes) (sighash : Z -> result bytes) st sigs pts items',
  ti_points st = Some pts ->
  finalize_p2tr_multisig C sha256 sighash st sigs = Ok (items', true) ->
  (2 <= length (ti_items st))%nat /\
  exists slots, items' = rev slots ++ ti_items st /\
    Forall2 (fun P s =>
       (s = [] /\ forall sg, In sg sigs -> sg <> [] -> fin_check C sha256 sighash P sg = Ok false) \/
       (s <> [] /\ In s sigs /\ fin_check C sha256 sighash P s = Ok true)) pts slots.
Proof. exact finalize_shape. Qed.
Print Assumptions C13_finalize_witness_shape.

(* an entry of a length other than 0, 64, 65 (or an unparsable one, or a hash type sig_hash refuses) that is
   reached raises, and the slots inserted for the earlier keys stay in the witness *)
Theorem C13_finalize_raise_leaves_partial_witness :
  forall (C : curve) (sha256 : bytes -> bytes) (sighash : Z -> result bytes) st sigs pts items',
  ti_points st = Some pts ->
  finalize_p2tr_multisig C sha256 sighash st sigs = Ok (items', false) ->
  exists done P rest slots, pts = done ++ P :: rest /\ items' = rev slots ++ ti_items st /\
    length slots = length done /\ fin_find C sha256 sighash P sigs = Err /\
    exists sg, In sg sigs /\ sg <> [] /\ fin_check C sha256 sighash P sg = Err.
Proof. exact finalize_raise_shape. Qed.
Print Assumptions C13_finalize_raise_leaves_partial_witness.

(* the order in which the signatures are handed over is irrelevant (when no test raises and no key has two
   different verifying signatures in the list — then the first one in list order is taken) *)
Theorem C13_finalize_signature_order_irrelevant :
  forall (C : curve) (sha256 : bytes -> bytes) (sighash : Z -> result bytes) st sigs sigs' pts,
  ti_points st = Some pts ->
  (forall P, In P pts -> forall sg, In sg sigs -> sg <> [] -> fin_check C sha256 sighash P sg <> Err) ->
  (forall P, In P pts -> forall s1 s2, In s1 sigs -> In s2 sigs -> s1 <> [] -> s2 <> [] ->
     fin_check C sha256 sighash P s1 = Ok true -> fin_check C sha256 sighash P s2 = Ok true -> s1 = s2) ->
  Permutation sigs sigs' ->
  finalize_p2tr_multisig C sha256 sighash st sigs = finalize_p2tr_multisig C sha256 sighash st sigs'.
Proof. exact finalize_sig_order. Qed.
Print Assumptions C13_finalize_signature_order_irrelevant.

(* (6c) composition with the tapscript interpreter (Model/Verify.v, C06).  [so] are the signature operations of
   the interpreter for this transaction: so_xonly_ok = "S256Point.parse_xonly succeeds", so_schnorr = parse_xonly,
   SchnorrSignature.parse, Tx.sig_hash(hash type), verify_schnorr — the calls of op_checksig(add)_schnorr, with
   the same sig_hash function as finalize uses.  After initialize + finalize on a k-of-n MultiSigTapScript leaf
   (n >= 2 keys, no timelock) the leaf script run on the stack built from the assembled witness accepts
   IFF exactly k keys of the leaf were signed for. *)
Theorem C13_finalize_then_leaf_script_accepts_iff_k_signed :
  forall (C : curve) (sha256 : bytes -> bytes) (sighash : Z -> result bytes) (so : sigops),
  tap_sigops_ok C sha256 sighash so ->
  forall ripemd160 sha1 hash160 hash256 c w keys k cs pts raw cbs sigs items' r a,
  (2 <= length keys)%nat -> 1 <= k <= 16 ->
  multisig_cmds C NoLock keys k = Ok cs ->
  multisig_points C keys = Ok pts ->
  finalize_p2tr_multisig C sha256 sighash {| ti_items := [raw; cbs]; ti_points := Some pts |} sigs
    = Ok (items', true) ->
  sigs_defined_ht sigs ->     (* 65-byte signatures carry a hash type BIP341 defines (interpreter rule since 746b81a) *)
  exists slots,
    items' = rev slots ++ [raw; cbs] /\ length slots = length keys /\
    rev (firstn (length items' - 2) items') = slots /\
    Forall2 (fun P s => fin_find C sha256 sighash P sigs = Ok s) pts slots /\
    Forall2 (sig_slot_ok so) (sort_bytes (map xonly keys)) slots /\
    ((exists fuel, vloop C ripemd160 sha1 sha256 hash160 hash256 so c w fuel cs (slots ++ r) a (fl_off true) = OTrue)
     <-> zlen (filter (signed_b C sha256 sighash sigs) pts) = k).
Proof.
  intros C sha256 sighash so SO ripemd160 sha1 hash160 hash256 c w.
  exact (finalize_spend_iff C sha256 sighash so SO ripemd160 sha1 hash160 hash256 c w).
Qed.
Print Assumptions C13_finalize_then_leaf_script_accepts_iff_k_signed.

(* what signed_b counts: keys for which some non-empty entry of [sigs] verifies *)
Theorem C13_signed_b_iff :
  forall (C : curve) (sha256 : bytes -> bytes) (sighash : Z -> result bytes) P sigs,
  (forall sg, In sg sigs -> sg <> [] -> fin_check C sha256 sighash P sg <> Err) ->
  (signed_b C sha256 sighash sigs P = true <->
   exists sg, In sg sigs /\ sg <> [] /\ fin_check C sha256 sighash P sg = Ok true).
Proof. exact signed_b_iff. Qed.
Print Assumptions C13_signed_b_iff.

(* the leaf of a k-subset in multi_leaf_tree is k-of-k: spendable through finalize IFF every key of the subset
   was signed for — "a spend of that leaf signed by that subset verifies", and no smaller set of signers does *)
Theorem C13_k_subset_leaf_spend_iff_all_signed :
  forall (C : curve) (sha256 : bytes -> bytes) (sighash : Z -> result bytes) (so : sigops),
  tap_sigops_ok C sha256 sighash so ->
  forall ripemd160 sha1 hash160 hash256 c w keys k cs pts raw cbs sigs items' r a,
  (2 <= length keys)%nat -> zlen keys = k -> k <= 16 ->
  multisig_cmds C NoLock keys k = Ok cs ->
  multisig_points C keys = Ok pts ->
  (forall P, In P pts -> forall sg, In sg sigs -> sg <> [] -> fin_check C sha256 sighash P sg <> Err) ->
  finalize_p2tr_multisig C sha256 sighash {| ti_items := [raw; cbs]; ti_points := Some pts |} sigs
    = Ok (items', true) ->
  sigs_defined_ht sigs ->
  ((exists fuel, vloop C ripemd160 sha1 sha256 hash160 hash256 so c w fuel cs
                   (rev (firstn (length items' - 2) items') ++ r) a (fl_off true) = OTrue)
   <-> forall P, In P pts -> exists sg, In sg sigs /\ sg <> [] /\ fin_check C sha256 sighash P sg = Ok true).
Proof.
  intros C sha256 sighash so SO ripemd160 sha1 hash160 hash256 c w.
  exact (finalize_k_of_k_iff C sha256 sighash so SO ripemd160 sha1 hash160 hash256 c w).
Qed.
Print Assumptions C13_k_subset_leaf_spend_iff_all_signed.

(* ... and at the level of Tx.verify_input, the value finalize_p2tr_multisig returns: given that the control block
   commits the leaf to the output key x (C12) and that the serialized leaf script parses back to its commands
   (C04), exactly k signed keys make verify_input accept the assembled witness *)
Theorem C13_finalize_then_verify_input :
  forall (C : curve) (sha256 : bytes -> bytes) (sighash : Z -> result bytes) (so : sigops),
  tap_sigops_ok C sha256 sighash so ->
  forall ripemd160 sha1 hash160 hash256 c keys k cs pts raw cbs sigs items' x ts,
  (2 <= length keys)%nat -> 1 <= k <= 16 ->
  multisig_cmds C NoLock keys k = Ok cs ->
  multisig_points C keys = Ok pts ->
  finalize_p2tr_multisig C sha256 sighash {| ti_items := [raw; cbs]; ti_points := Some pts |} sigs
    = Ok (items', true) ->
  sigs_defined_ht sigs ->
  length x = 32%nat -> hd 0 cbs <> 80 ->
  script_path_commit_check C sha256 x items' = Ok true ->
  witness_tap_script items' = Ok ts -> s_cmds ts = cs ->
  zlen (filter (signed_b C sha256 sighash sigs) pts) = k ->
  verify_input C ripemd160 sha1 sha256 hash160 hash256 so c items' [] (p2tr_script x) = OTrue.
Proof.
  intros C sha256 sighash so SO ripemd160 sha1 hash160 hash256 c.
  exact (finalize_verify_input C sha256 sighash so SO ripemd160 sha1 hash160 hash256 c []).
Qed.
Print Assumptions C13_finalize_then_verify_input.

(* (7a) whatever get_signature returns verifies under BIP340 for the external key — for ANY s_sum, r, keys:
   the self-verification is the last step (a seeded change that loses the even-y lift or a sign in the tweak
   term can only turn valid sessions into exceptions, which C13_musig_sum_verifies excludes) *)
Theorem C13_get_signature_sound :
  forall (C : curve) (sha256 : bytes -> bytes) ms s_sum R msg root r s,
  musig_get_signature C sha256 ms s_sum R msg root = Ok (r, s) ->
  exists ext, musig_external C sha256 ms root = Ok ext /\
    schnorr_verify C sha256 ext msg r s = Ok true /\ s < cn C.
Proof. exact get_signature_sound. Qed.
Print Assumptions C13_get_signature_sound.

(* (7b) on the LIST of partial signatures: if the sum of the list is accepted then the list with one entry
   x <> 0 (mod n) left out, or with one entry replaced by a different residue, is refused, and any reordering of
   the list gives the same signature *)
Theorem C13_partial_signature_list_tamper :
  forall (C : curve) (sha256 : bytes -> bytes),
  scalar_laws C -> cn C <= pow256 32 -> cp C <= pow256 32 ->
  forall ms R msg root ps sig, valid C (ms_point ms) ->
  musig_get_signature C sha256 ms (zsum ps) R msg root = Ok sig ->
  (forall pre x post, ps = pre ++ x :: post -> x mod cn C <> 0 ->
     musig_get_signature C sha256 ms (zsum (pre ++ post)) R msg root = Err) /\
  (forall pre x post x', ps = pre ++ x :: post -> x' mod cn C <> x mod cn C ->
     musig_get_signature C sha256 ms (zsum (pre ++ x' :: post)) R msg root = Err) /\
  (forall ps', Permutation ps ps' ->
     musig_get_signature C sha256 ms (zsum ps') R msg root = Ok sig).
Proof. exact partial_list_tamper. Qed.
Print Assumptions C13_partial_signature_list_tamper.

(* (7c) "never yields a valid aggregate": with the nonce point of an accepted aggregate signature no other
   residue s' verifies under BIP340 for the external key *)
Theorem C13_aggregate_s_unique :
  forall (C : curve) (sha256 : bytes -> bytes),
  scalar_laws C -> cp C <= pow256 32 ->
  forall ms s_sum R msg root r s, valid C (ms_point ms) ->
  musig_get_signature C sha256 ms s_sum R msg root = Ok (r, s) ->
  exists ext, musig_external C sha256 ms root = Ok ext /\
    forall s', schnorr_verify C sha256 ext msg r s' = Ok true -> s' mod cn C = s mod cn C.
Proof. intros C sha256 SL P256. exact (aggregate_s_unique C sha256 SL P256). Qed.
Print Assumptions C13_aggregate_s_unique.

(* (7d) key-path spends of a TapRootMultiSig output: signing with merkle_root = tree.hash() targets exactly
   tree.external_pubkey(aggregate key), the key the p2tr output commits to (C12) *)
Theorem C13_keypath_external_key :
  forall (C : curve) (sha256 : bytes -> bytes) ms t root,
  tree_hash sha256 t = Ok root -> root <> [] ->
  musig_external C sha256 ms root = tree_external_pubkey C sha256 t (ms_point ms).
Proof. exact musig_external_of_tree. Qed.
Print Assumptions C13_keypath_external_key.

(* ---- non-vacuity of (5)–(7) on the toy curve ---- *)
(* every parity branch of sign / get_signature occurs: (aggregate parity, R parity, external-key parity) takes all
   eight values with a merkle root and all four (aggregate, R) values without, and every session verifies *)
Example C13_toy_parity_branches :
  map (fun '(d, m) => session_parities [(d, (5, 7)); (4, (2, 9)); (10, (1, 30))] [m; 2; 3] [7; 7])
      [(3, 3); (3, 1); (9, 6); (9, 1); (13, 3); (13, 1); (6, 1); (6, 2)]
  = [Ok (0, 0, 0, true); Ok (0, 1, 0, true); Ok (0, 0, 1, true); Ok (0, 1, 1, true);
     Ok (1, 0, 0, true); Ok (1, 1, 0, true); Ok (1, 0, 1, true); Ok (1, 1, 1, true)] /\
  map (fun '(d, m) => session_parities [(d, (5, 7)); (4, (2, 9)); (10, (1, 30))] [m; 2; 3] [])
      [(3, 3); (3, 1); (13, 3); (13, 1)]
  = [Ok (0, 0, 0, true); Ok (0, 1, 0, true); Ok (1, 0, 0, true); Ok (1, 1, 0, true)].
Proof. exact toy_parity_branches. Qed.

(* a 2-of-4 multi_leaf_tree on the toy curve: the hypotheses of (5a) hold, hence 6 pairwise different leaves *)
Example C13_toy_multi_leaf_tree :
  exists t, multi_leaf_tree toy toy_keys 2 NoLock = Ok t /\ length (leaves t) = 6%nat /\ NoDup (leaves t).
Proof.
  destruct toy_multi_leaf_tree as [t Ht]. exists t. split; [exact Ht|].
  destruct (C13_multi_leaf_tree_every_k_subset_exactly_one_leaf toy toy_keys 2 NoLock t toy_keys_nodup Ht)
    as (_ & Hl & Hn & _). split; [exact Hl | exact Hn].
Qed.

Example C13_toy_degrading_tree :
  exists t, degrading_multisig_tree toy toy_keys 2 1 144 = Ok t /\ length (leaves t) = 10%nat.
Proof. exact toy_degrading_tree. Qed.

(* finalize on a 2-of-3 leaf, signers 3 and 10 (the latter with an explicit hash-type byte), signatures handed over
   in an order unrelated to the keys, with an empty entry: slots in key order; the reversed list gives the same
   witness; the hypotheses of the order theorem hold; a 3-byte entry raises after one slot was inserted; and the
   leaf script accepts the assembled stack (instance of (6c) with the sigops built from the model functions) *)
Example C13_toy_finalize :
  multisig_points toy toy_k3 = Ok toy_pts /\
  finalize_p2tr_multisig toy toy_sha toy_sighash toy_st toy_sigs
    = Ok ([toy_sig 10 toy_msg1 ++ [1]; toy_sig 3 toy_msg0; []; [1]; [192]], true) /\
  finalize_p2tr_multisig toy toy_sha toy_sighash toy_st (rev toy_sigs)
    = finalize_p2tr_multisig toy toy_sha toy_sighash toy_st toy_sigs /\
  (forall P, In P toy_pts -> no_raise toy toy_sha toy_sighash P toy_sigs) /\
  (forall P, In P toy_pts -> at_most_one toy toy_sha toy_sighash P toy_sigs) /\
  finalize_p2tr_multisig toy toy_sha toy_sighash toy_st [toy_sig 4 toy_msg0; [1; 2; 3]]
    = Ok ([toy_sig 4 toy_msg0; [1]; [192]], false) /\
  tap_sigops_ok toy toy_sha toy_sighash (the_tap_sigops toy toy_sha toy_sighash).
Proof.
  split; [exact toy_points|]. destruct toy_finalize as [A B]. split; [exact A|]. split; [exact B|].
  split; [exact toy_no_raise|]. split; [exact toy_at_most_one|]. split; [exact toy_finalize_raise|].
  apply the_tap_sigops_ok.
Qed.

Example C13_toy_spend_accepted :
  forall ripemd160 sha1 hash160 hash256 c w r a,
  exists cs slots fuel,
    multisig_cmds toy NoLock toy_k3 2 = Ok cs /\
    slots = [[]; toy_sig 3 toy_msg0; toy_sig 10 toy_msg1 ++ [1]] /\
    vloop toy ripemd160 sha1 toy_sha hash160 hash256 (the_tap_sigops toy toy_sha toy_sighash) c w fuel cs
      (slots ++ r) a (fl_off true) = OTrue.
Proof. exact toy_spend_accepted. Qed.

(* The constants written in the model are the constants of the SOURCE: coq/Generated/SrcConsts.v is regenerated
   from /repo/buidl/*.py by harness/gen_coq_consts.py on every run; the statements are spelled out in
   Proofs/ConstsTie.v (secp256k1_is_source_stmt). *)
From V Require Proofs.ConstsTie.
Theorem C13_constants_match_source : ConstsTie.secp256k1_is_source_stmt.
Proof. exact ConstsTie.secp256k1_is_source. Qed.
Print Assumptions C13_constants_match_source.
