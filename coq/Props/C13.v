(* Props/C13.v — MuSig aggregation yields valid BIP340 signatures; k-of-n trees cover all subsets.
   Only statements, each closed by a lemma from Proofs/, followed by Print Assumptions.
   sha256 is universally quantified.  The curve facts are explicit hypotheses (never axioms):
   [scalar_laws C] (Proofs/GroupHyp.v) and [xonly_lift_ok C] (parse_xonly of the x coordinate of
   a valid point is its even-y representative; Proofs/MusigLift.v derives it from the encoding
   lemma of Proofs/PeccEnc.v when no valid point has x = 0).  Both are proved for the toy curve. *)
From Coq Require Import Permutation.
From V Require Import Base.Prelude Base.Ints Model.Helper Model.Script Model.Pecc Model.Taproot
  Model.Musig Proofs.GroupHyp Proofs.CurveAlg Proofs.TaprootP Proofs.MusigP Proofs.MusigAlg
  Proofs.MusigLift Proofs.PeccEnc Proofs.ToyCurve.
From V Require Dispatch.DC13.

(* (1) Every participant i has a secret d_i in [1, n-1] (so both parities of the public points
   occur), a nonce pair (k1_i, k2_i); [parts] lists (d_i, (k1_i, k2_i)).  The x-only keys are
   pairwise distinct (a key and its negation collide in coef_lookup) and there are >= 2 of them.
   Then key aggregation succeeds, and — unless the aggregate, a nonce sum, R or the external key
   is the point at infinity, where the implementation raises — the sum of all partial signatures
   given to get_signature yields (r, s) = (even R, s) with 0 <= s < n that schnorr_verify accepts
   for the external key: the even aggregate (root = b"") or the taproot-tweaked aggregate.
   musig_session is the whole flow of test_musig.py (generate_nonces, nonce_sums, compute_r,
   compute_k, sign for everybody, get_signature). *)
Theorem C13_musig_sum_verifies :
  forall (C : curve) (sha256 : bytes -> bytes),
  scalar_laws C -> xonly_lift_ok C -> cn C <= pow256 32 ->
  forall (parts : list (Z * (Z * Z))) (msg root : bytes),
  Forall (fun d => 1 <= d <= cn C - 1) (map fst parts) ->
  (2 <= length parts)%nat ->
  NoDup (map xonly (map (fun d => mulT C d (G C)) (map fst parts))) ->
  exists ms,
    musig_init C sha256 (map (fun d => mulT C d (G C)) (map fst parts)) = Ok ms /\
    valid C (ms_point ms) /\
    (ms_point ms <> None ->
     mulT C (zsum (map (fun p => fst (snd p)) parts)) (G C) <> None ->
     mulT C (zsum (map (fun p => snd (snd p)) parts)) (G C) <> None ->
     exists sums R,
       musig_session_r C sha256 ms parts msg = Ok (sums, R) /\ valid C R /\
       (R <> None ->
        exists ext,
          musig_external C sha256 ms root = Ok ext /\ valid C ext /\
          (ext <> None ->
           exists ps s,
             musig_partials C sha256 ms parts sums R msg root = Ok ps /\
             musig_get_signature C sha256 ms (zsum ps) R msg root = Ok (evenT C R, s) /\
             musig_session C sha256 parts msg root = Ok (evenT C R, s) /\
             schnorr_verify C sha256 ext msg (evenT C R) s = Ok true /\
             0 <= s < cn C))).
Proof. exact musig_sum_verifies. Qed.
Print Assumptions C13_musig_sum_verifies.

(* (2) the aggregation depends only on the multiset of x-only encodings of the listed points:
   neither their order nor the parity of their y coordinates matters ... *)
Theorem C13_aggregate_key_order_independent :
  forall (C : curve) (sha256 : bytes -> bytes) pts pts',
  Permutation (map xonly pts) (map xonly pts') ->
  musig_init C sha256 pts = musig_init C sha256 pts'.
Proof. exact musig_init_perm. Qed.
Print Assumptions C13_aggregate_key_order_independent.

Theorem C13_aggregate_key_permutation :
  forall (C : curve) (sha256 : bytes -> bytes) pts pts',
  Permutation pts pts' -> musig_init C sha256 pts = musig_init C sha256 pts'.
Proof. intros C sha256 pts pts' P. apply musig_init_perm. now apply Permutation_map. Qed.
Print Assumptions C13_aggregate_key_permutation.

(* ... because what is aggregated are the x-only lifts (parse_xonly) of the SORTED x-only
   encodings, scaled by the coefficients (the second one is 1) and summed *)
Theorem C13_aggregate_key_what :
  forall (C : curve) (sha256 : bytes -> bytes) pts ms,
  musig_init C sha256 pts = Ok ms ->
  ms_xonlys ms = sort_bytes (map xonly pts) /\
  mapM (parse_xonly C) (ms_xonlys ms) = Ok (ms_points ms) /\
  (exists sc, scaled C (ms_coefs ms) (ms_points ms) = Ok sc /\ combine_points C sc = Ok (ms_point ms)) /\
  nth_error (ms_coefs ms) 1 = Some 1.
Proof. exact musig_init_aggregates. Qed.
Print Assumptions C13_aggregate_key_what.

Theorem C13_sort_bytes_is_the_sorted_permutation :
  forall l, Permutation (sort_bytes l) l /\ Sorted.StronglySorted (fun a b => blt b a = false) (sort_bytes l).
Proof.
  intros l. split; [apply sort_perm|].
  pose proof (sort_SS l) as H. induction H as [|a t _ IH F]; constructor; auto.
  rewrite Forall_forall in *. intros b Hb. specialize (F b Hb). unfold bleP, ble in F.
  now destruct (blt b a).
Qed.
Print Assumptions C13_sort_bytes_is_the_sorted_permutation.

(* (3) for fixed keys, R, message and root, get_signature accepts at most one residue class
   of s_sum mod n: a sum altered by delta <> 0 (mod n), or with a partial signature x <> 0 (mod n)
   left out, makes get_signature raise *)
Theorem C13_musig_altered_or_missing_fails :
  forall (C : curve) (sha256 : bytes -> bytes),
  scalar_laws C -> cn C <= pow256 32 -> cp C <= pow256 32 ->
  forall ms R msg root s_sum sig, valid C (ms_point ms) ->
  musig_get_signature C sha256 ms s_sum R msg root = Ok sig ->
  (forall s', s_sum mod cn C <> s' mod cn C ->
     musig_get_signature C sha256 ms s' R msg root = Err) /\
  (forall delta, delta mod cn C <> 0 ->
     musig_get_signature C sha256 ms (s_sum + delta) R msg root = Err) /\
  (forall x, x mod cn C <> 0 ->
     musig_get_signature C sha256 ms (s_sum - x) R msg root = Err).
Proof.
  intros C sha256 SL N256 P256 ms R msg root s_sum sig Hv H.
  pose proof (n_pos C SL) as Hn.
  assert (A : forall s', s_sum mod cn C <> s' mod cn C ->
              musig_get_signature C sha256 ms s' R msg root = Err).
  { intros s' Hne. apply (other_sum_rejected C sha256 SL N256 P256 ms R msg root s_sum s' sig Hv H).
    intros E. apply Hne. exact (cong_mod C s_sum s' E). }
  split; [exact A|]. split.
  - intros delta Hd. apply A. intros E. apply Hd.
    replace delta with ((s_sum + delta) - s_sum) by lia.
    rewrite Zminus_mod, <- E, Z.sub_diag. apply Z.mod_0_l. lia.
  - intros x Hx. apply A. intros E. apply Hx.
    replace x with (s_sum - (s_sum - x)) by lia.
    rewrite Zminus_mod, <- E, Z.sub_diag. apply Z.mod_0_l. lia.
Qed.
Print Assumptions C13_musig_altered_or_missing_fails.

(* (4) itertools.combinations(pool, k) is exactly the list of the length-k subsequences of the
   pool (the k-subsets, each once, when the pool has no duplicates) *)
Theorem C13_combinations_exact :
  forall (A : Type) (pool : list A) (k : nat),
  (forall c, In c (combos pool k) <-> subseq c pool /\ length c = k) /\
  (NoDup pool -> NoDup (combos pool k)).
Proof.
  intros A pool k. split.
  - intros c. split; [apply combos_sound | intros [H1 H2]; now apply combos_complete].
  - intros H. now apply combos_NoDup.
Qed.
Print Assumptions C13_combinations_exact.

(* the leaves of the generated k-of-n trees are, in order, one leaf per combination, built from
   exactly the keys of that combination (TapBranch.combine keeps the leaves in order) *)
Theorem C13_multi_leaf_tree_leaves :
  forall (C : curve) pts k lk t,
  multi_leaf_tree C pts k lk = Ok t ->
  Forall2 (fun sub lf => exists cs, multisig_cmds C lk sub k = Ok cs /\ lf = (192, mk_script cs))
          (combos pts (Z.to_nat k)) (leaves t).
Proof. exact multi_leaf_tree_leaves. Qed.
Print Assumptions C13_multi_leaf_tree_leaves.

Theorem C13_musig_tree_leaves :
  forall (C : curve) (sha256 : bytes -> bytes) pts k lk t,
  musig_tree C sha256 pts k lk = Ok t ->
  Forall2 (fun sub lf => exists cs, musig_cmds C sha256 lk sub = Ok cs /\ lf = (192, mk_script cs))
          (combos pts (Z.to_nat k)) (leaves t).
Proof. exact musig_tree_leaves. Qed.
Print Assumptions C13_musig_tree_leaves.

Theorem C13_combine_keeps_leaves :
  forall nodes, nodes <> [] ->
  exists t, combine_nodes (length nodes) nodes = Ok t /\ leaves t = flat_map leaves nodes.
Proof.
  intros nodes H. destruct (combine_nodes_ok (length nodes) nodes H (le_n _)) as [t Ht].
  exists t. split; [exact Ht | exact (combine_nodes_leaves _ _ _ Ht)].
Qed.
Print Assumptions C13_combine_keeps_leaves.

(* the x-only lift hypothesis follows from the encoding lemma of C03 when no valid point has x = 0 *)
Theorem C13_xonly_lift_from_encoding :
  forall C : curve, scalar_laws C -> ca C = 0 -> cp C mod 4 = 3 -> cp C < pow256 32 ->
  (forall y, ~ valid C (Some (0, y))) -> xonly_lift_ok C.
Proof. exact xonly_lift_of_enc. Qed.
Print Assumptions C13_xonly_lift_from_encoding.

(* ---- the hypotheses are satisfiable: toy curve y^2 = x^3 + 7 over F_43, group order 31 ---- *)
Example C13_toy_hypotheses : scalar_laws toy /\ xonly_lift_ok toy /\ cn toy <= pow256 32 /\ cp toy <= pow256 32.
Proof. split; [exact toy_scalar_laws|]. split; [exact toy_xonly_lift_ok|]. split; vm_compute; discriminate. Qed.

(* a concrete three-party session on the toy curve (public points of parities odd, even, odd) with a
   toy "hash": get_signature accepts the sum, without and with a merkle root *)
Example C13_toy_session :
  let sha := fun b : bytes => [Z.of_nat (length b) mod 29 + 1] in
  let parts := [(3, (5, 7)); (4, (2, 9)); (10, (1, 30))] in
  musig_session toy sha parts [1; 2; 3] [] = Ok (Some (38, 22), 29) /\
  musig_session toy sha parts [1; 2; 3] [7; 7] = Ok (Some (38, 22), 0).
Proof. vm_compute. split; reflexivity. Qed.

Example C13_toy_sum_verifies :
  forall (sha256 : bytes -> bytes) (parts : list (Z * (Z * Z))) (msg root : bytes),
  Forall (fun d => 1 <= d <= 30) (map fst parts) -> (2 <= length parts)%nat ->
  NoDup (map xonly (map (fun d => mulT toy d (G toy)) (map fst parts))) ->
  exists ms, musig_init toy sha256 (map (fun d => mulT toy d (G toy)) (map fst parts)) = Ok ms /\
             valid toy (ms_point ms).
Proof.
  intros sha256 parts msg root H1 H2 H3.
  destruct (C13_musig_sum_verifies toy sha256 toy_scalar_laws toy_xonly_lift_ok ltac:(vm_compute; discriminate)
              parts msg root H1 H2 H3) as (ms & A & B & _).
  exists ms. split; assumption.
Qed.

(* The constants written in the model are the constants of the SOURCE: coq/Generated/SrcConsts.v is regenerated
   from /repo/buidl/*.py by harness/gen_coq_consts.py on every run; the statements are spelled out in
   Proofs/ConstsTie.v (secp256k1_is_source_stmt). *)
From V Require Proofs.ConstsTie.
Theorem C13_constants_match_source : ConstsTie.secp256k1_is_source_stmt.
Proof. exact ConstsTie.secp256k1_is_source. Qed.
Print Assumptions C13_constants_match_source.
