(* Props/C18.v — BIP158 compact filters (Golomb-Rice, bit packing, GCS, membership) and
   BIP37 bloom filters (MurmurHash3).  Only statements, each closed by [exact] of a lemma
   from Proofs/, followed by Print Assumptions.
   - the keyed hash of the compact filter is universally quantified (any function into
     [0, 2^64)); SipHash-2-4 itself is related to its specification at the end of the file;
   - hash256 of the filter-header chain is universally quantified. *)
From V Require Import Base.Prelude Base.Ints Model.Helper Model.Gcs Model.Network
  Model.Siphash Model.Murmur Model.Bloom Model.CFilter
  Proofs.HelperP Proofs.GcsP Proofs.CFilterP Proofs.MurmurP Proofs.BloomP Proofs.SiphashP.
From V Require Spec.Murmur Spec.Siphash.

(* (1) Golomb-Rice: decoding inverts encoding for every x >= 0 and every parameter p,
       and leaves the following bits untouched *)
Theorem C18_golomb_roundtrip : forall x p rest,
  0 <= x -> decode_golomb (encode_golomb x p ++ rest) p = Ok (x, rest).
Proof. exact golomb_roundtrip. Qed.
Print Assumptions C18_golomb_roundtrip.

(* (2) bit packing: unpack (pack bits) = bits padded with zeros to a multiple of 8 *)
Theorem C18_pack_unpack_bits : forall bits,
  Forall (fun b => b = 0 \/ b = 1) bits ->
  unpack_bits (pack_bits bits) = bits ++ repeatz 0 (Nat.modulo (8 - Nat.modulo (length bits) 8) 8) /\
  (length (pack_bits bits) * 8 = length bits + Nat.modulo (8 - Nat.modulo (length bits) 8) 8)%nat /\
  bytes_ok (pack_bits bits).
Proof.
  intros bits H. split; [exact (unpack_pack_bits bits H)|]. split; [|exact (pack_bits_ok bits)].
  rewrite (pack_bits_length bits). unfold pad8. now rewrite app_length, repeatz_length.
Qed.
Print Assumptions C18_pack_unpack_bits.

(* (3) GCS: [ascending 0 items] = non-negative and non-decreasing (duplicates allowed) *)
Theorem C18_gcs_roundtrip : forall items,
  ascending 0 items -> zlen items < 18446744073709551616 ->
  exists b, serialize_gcs items = Ok b /\ decode_gcs b = Ok items.
Proof. exact gcs_roundtrip. Qed.
Print Assumptions C18_gcs_roundtrip.

Example ascending_example : ascending 0 [0; 5; 5; 784931; 2000000].
Proof. cbn. lia. Qed.

(* (3') for every key and element list, decoding the encoded filter gives the sorted hashed items *)
Theorem C18_decode_inverts_encode :
  forall (sip : bytes -> bytes -> result Z) key items fb,
  (forall v h, In v items -> sip key v = Ok h -> 0 <= h < 18446744073709551616) ->
  encode_gcs sip key items = Ok fb ->
  exists l, hashed_items sip key items = Ok l /\ decode_gcs fb = Ok l /\
            length l = length items /\ ascending 0 l /\
            (forall h, In h l -> 0 <= h < zlen items * GOLOMB_M).
Proof.
  intros sip key items fb Hr He.
  destruct (encode_decode_gcs sip key items fb Hr He) as [l [E1 E2]].
  destruct (hashed_items_props sip key items l Hr E1) as [A [B [_ D]]].
  exists l. repeat split; try assumption; now apply D.
Qed.
Print Assumptions C18_decode_inverts_encode.

(* (4) no false negatives, for EVERY keyed hash [sip] with values in [0, 2^64): the filter parsed from encode_gcs(key, items) uses F = len(items) * M
       (duplicates and colliding hashed values included) and reports every element present *)
Theorem C18_gcs_no_false_negative :
  forall (sip : bytes -> bytes -> result Z) key items fb,
  (forall v h, In v items -> sip key v = Ok h -> 0 <= h < 18446744073709551616) ->
  encode_gcs sip key items = Ok fb ->
  exists cf, cf_parse key fb = Ok cf /\ cf_key cf = key /\ cf_f cf = zlen items * GOLOMB_M /\
             forall x, In x items -> cf_contains sip cf x = Ok true.
Proof. exact cf_no_false_negative. Qed.
Print Assumptions C18_gcs_no_false_negative.

Theorem C18_encode_gcs_total :
  forall (sip : bytes -> bytes -> result Z) key items,
  (forall x, In x items -> exists h, sip key x = Ok h) -> zlen items < 18446744073709551616 ->
  exists fb, encode_gcs sip key items = Ok fb.
Proof. exact encode_gcs_total. Qed.
Print Assumptions C18_encode_gcs_total.

(* (5) MurmurHash3: the unbounded-integer code = the 32-bit standard, for every integer seed *)
Theorem C18_murmur3_eq_spec : forall data seed,
  bytes_ok data ->
  murmur3 data seed = Spec.Murmur.murmur3_x86_32 data (seed mod 4294967296) /\
  0 <= murmur3 data seed < 4294967296.
Proof.
  intros data seed H. split; [exact (murmur3_eq_spec data seed H) | exact (murmur3_range data seed H)].
Qed.
Print Assumptions C18_murmur3_eq_spec.

(* (6) bloom filter *)
Theorem C18_bloom_index_is_bip37 : forall size tweak item i,
  bytes_ok item ->
  bloom_index size tweak item i =
  Spec.Murmur.murmur3_x86_32 item ((i * 4221880213 + tweak) mod 4294967296) mod (size * 8).
Proof. exact bloom_index_spec. Qed.
Print Assumptions C18_bloom_index_is_bip37.

Theorem C18_bloom_bits_set_and_monotone : forall b item,
  0 < bf_size b -> zlen (bf_bits b) = bf_size b * 8 -> Forall (fun x => x = 0 \/ x = 1) (bf_bits b) ->
  exists b', bloom_add b item = Ok b' /\
    bf_size b' = bf_size b /\ bf_fc b' = bf_fc b /\ bf_tweak b' = bf_tweak b /\
    zlen (bf_bits b') = bf_size b * 8 /\
    (forall j, nth j (bf_bits b) 0 = 1 -> nth j (bf_bits b') 0 = 1) /\
    (forall i, 0 <= i < bf_fc b ->
       nth (Z.to_nat (bloom_index (bf_size b) (bf_tweak b) item i)) (bf_bits b') 0 = 1).
Proof.
  intros b item H1 H2 H3.
  destruct (bloom_add_props b item (conj H1 (conj H2 H3))) as [b' [E [[_ [L _]] [S [F [T [M A]]]]]]].
  exists b'. repeat split; try assumption; [congruence|].
  intros i Hi. unfold bloom_matches in A. rewrite S, F, T in A.
  apply (proj1 (bloom_all_set_iff _ _ _ _ _ _) A). lia.
Qed.
Print Assumptions C18_bloom_bits_set_and_monotone.

Theorem C18_bloom_no_false_negative : forall size fc tweak items,
  0 < size ->
  exists b, bloom_add_list (bloom_new size fc tweak) items = Ok b /\
    forall it, In it items -> bloom_matches b it = true.
Proof.
  intros size fc tweak items Hs.
  destruct (bloom_new_wf size fc tweak ltac:(lia)) as [L B].
  destruct (bloom_add_list_props items (bloom_new size fc tweak) (conj Hs (conj L B)))
    as [b [E [_ [_ [_ [_ [_ A]]]]]]].
  exists b. split; assumption.
Qed.
Print Assumptions C18_bloom_no_false_negative.

Theorem C18_filter_bytes_layout : forall b,
  0 < bf_size b -> zlen (bf_bits b) = bf_size b * 8 -> Forall (fun x => x = 0 \/ x = 1) (bf_bits b) ->
  exists fb, bit_field_to_bytes (bf_bits b) = Ok fb /\ zlen fb = bf_size b /\ bytes_ok fb /\
    forall i, (i < length (bf_bits b))%nat ->
      Z.testbit (nth (Nat.div i 8) fb 0) (Z.of_nat (Nat.modulo i 8)) = (nth i (bf_bits b) 0 =? 1).
Proof. intros b H1 H2 H3. exact (filter_bytes_layout b (conj H1 (conj H2 H3))). Qed.
Print Assumptions C18_filter_bytes_layout.

Theorem C18_filterload_layout : forall b flag,
  0 < bf_size b -> zlen (bf_bits b) = bf_size b * 8 -> Forall (fun x => x = 0 \/ x = 1) (bf_bits b) ->
  bf_size b < 18446744073709551616 -> 0 <= bf_fc b < 4294967296 -> 0 <= bf_tweak b < 4294967296 ->
  0 <= flag < 256 ->
  exists sz fb, encode_varint (bf_size b) = Ok sz /\ bit_field_to_bytes (bf_bits b) = Ok fb /\
    filterload b flag = Ok (sz ++ fb ++ to_le 4 (bf_fc b) ++ to_le 4 (bf_tweak b) ++ [flag]).
Proof. intros b flag H1 H2 H3. exact (filterload_layout b flag (conj H1 (conj H2 H3))). Qed.
Print Assumptions C18_filterload_layout.

(* (7) SipHash-2-4: the fused, partially masked double round of siphash.py is two standard
       SipRounds around the message word, for all 64-bit state and message words *)
Theorem C18_sipround_fused_eq_spec : forall a b c d m,
  0 <= a < 2 ^ 64 -> 0 <= b < 2 ^ 64 -> 0 <= c < 2 ^ 64 -> 0 <= d < 2 ^ 64 -> 0 <= m < 2 ^ 64 ->
  doublesipround (a, b, c, d) m =
  (let '(w0, w1, w2, w3) := Spec.Siphash.sipround (Spec.Siphash.sipround (a, b, c, Z.lxor d m)) in
   (Z.lxor w0 m, w1, w2, w3)).
Proof. exact doublesipround_spec. Qed.
Print Assumptions C18_sipround_fused_eq_spec.

(* SipHash_2_4(key).update(c1)...update(cn).hash() = SipHash-2-4 of c1 ++ ... ++ cn, for every
   chunking; a key that is not 16 bytes long raises *)
Theorem C18_siphash_chunks_eq_spec : forall key chunks,
  bytes_ok key -> Forall (fun c => bytes_ok c) chunks ->
  (length key = 16%nat ->
     siphash_chunks key chunks = Ok (Spec.Siphash.siphash24 key (concat chunks)) /\
     0 <= Spec.Siphash.siphash24 key (concat chunks) < 2 ^ 64) /\
  (length key <> 16%nat -> siphash_chunks key chunks = Err).
Proof.
  intros key chunks Hk Hc. split.
  - intros L. split; [exact (siphash_chunks_spec key chunks L Hk Hc)|].
    apply siphash24_in64; [assumption|]. unfold bytes_ok. now apply Forall_concat.
  - exact (siphash_chunks_bad_key key chunks).
Qed.
Print Assumptions C18_siphash_chunks_eq_spec.

(* (4'') the compact filter of compactfilter.py with its own SipHash: for every 16-byte key and every
   element list, encoding succeeds, the parsed filter reports every element, and the decoded values
   are the sorted BIP158 values (siphash24(key, e) * N*M) >> 64 computed with the STANDARD SipHash *)
Theorem C18_compact_filter_bip158 : forall key items,
  length key = 16%nat -> bytes_ok key -> Forall (fun e => bytes_ok e) items ->
  zlen items < 18446744073709551616 ->
  exists fb cf,
    encode_gcs siphash key items = Ok fb /\ cf_parse key fb = Ok cf /\
    cf_f cf = zlen items * GOLOMB_M /\
    (forall x, In x items -> cf_contains siphash cf x = Ok true) /\
    exists l, decode_gcs fb = Ok l /\
      l = zsort (map (fun x => Z.shiftr (Spec.Siphash.siphash24 key x * (zlen items * GOLOMB_M)) 64) items).
Proof. exact compact_filter_siphash. Qed.
Print Assumptions C18_compact_filter_bip158.

Example compact_filter_example :
  cf_build_query siphash [0;1;2;3;4;5;6;7;8;9;10;11;12;13;14;15] [[1;2;3]; [4]; [1;2;3]; []] [1;2;3] = Ok true.
Proof. vm_compute. reflexivity. Qed.

(* (8) filter headers chain as hash256(filter_hash || previous header) *)
Theorem C18_cfheader_chain :
  forall (hash256 : bytes -> bytes) (prev : bytes) (hashes : list bytes),
  cfheader_chain hash256 prev hashes = fold_left (fun cur fh => hash256 (fh ++ cur)) hashes prev
  /\ (forall fh rest, cfheader_chain hash256 prev (fh :: rest) =
                      cfheader_chain hash256 (hash256 (fh ++ prev)) rest)
  /\ cfheader_chain hash256 prev [] = prev.
Proof. intros. repeat split. Qed.
Print Assumptions C18_cfheader_chain.

(* non-vacuity of the hypotheses *)
Example sip_range_example :
  let sip := fun (_ v : bytes) => Ok (from_le v mod 18446744073709551616) in
  forall key items v h, In v items -> sip key v = Ok h -> 0 <= h < 18446744073709551616.
Proof. intros sip key items v h _ [= <-]. apply Z.mod_pos_bound. reflexivity. Qed.

Example bloom_wf_example :
  let b := bloom_new 10 5 99 in
  0 < bf_size b /\ zlen (bf_bits b) = bf_size b * 8 /\ Forall (fun x => x = 0 \/ x = 1) (bf_bits b).
Proof. split; [reflexivity|]. split; [reflexivity|]. repeat constructor. Qed.

Example murmur3_negative_seed : murmur3 [1; 2; 3; 4; 5] (-5) = murmur3 [1; 2; 3; 4; 5] (4294967296 - 5).
Proof. vm_compute. reflexivity. Qed.

(* BloomFilter(10, 5, 99).add(b"Hello World"): test vector of the repository *)
Example bloom_example :
  (b <- bloom_add (bloom_new 10 5 99) [72;101;108;108;111;32;87;111;114;108;100] ;;
   bit_field_to_bytes (bf_bits b)) = Ok [0;0;0;10;8;0;0;0;1;64].
Proof. vm_compute. reflexivity. Qed.

(* (3'') CompactFilter.serialize() inverts CompactFilter.parse() on every canonical GCS (the
   serialisation of any non-negative non-decreasing list, equal values included), hence
   CompactFilter.hash() = hash256 of the bytes received on the wire (hash256 universally quantified) *)
Theorem C18_cf_serialize_inverts_parse : forall key items raw,
  ascending 0 items -> serialize_gcs items = Ok raw ->
  exists cf, cf_parse key raw = Ok cf /\ cf_items cf = items /\ cf_serialize cf = Ok raw /\
             forall hash256 : bytes -> bytes, cf_hash hash256 cf = Ok (hash256 raw).
Proof. exact cf_serialize_parse. Qed.
Print Assumptions C18_cf_serialize_inverts_parse.

(* ... in particular on every filter produced by encode_gcs, for every keyed hash into [0, 2^64)
   (duplicates and collisions in [0, N*M) included) *)
Theorem C18_cf_serialize_inverts_parse_encode :
  forall (sip : bytes -> bytes -> result Z) key items raw,
  (forall v h, In v items -> sip key v = Ok h -> 0 <= h < 18446744073709551616) ->
  encode_gcs sip key items = Ok raw ->
  exists cf, cf_parse key raw = Ok cf /\ cf_serialize cf = Ok raw /\
             forall hash256 : bytes -> bytes, cf_hash hash256 cf = Ok (hash256 raw).
Proof. exact cf_serialize_parse_encode. Qed.
Print Assumptions C18_cf_serialize_inverts_parse_encode.

(* the input on which serialize() used to drop a value (fixed by 4b29cf6): the same element twice *)
Example cf_serialize_example :
  (cf <- cf_parse [0;1;2;3;4;5;6;7;8;9;10;11;12;13;14;15] [2;72;15;128;0;0] ;; cf_serialize cf)
  = Ok [2;72;15;128;0;0].
Proof. vm_compute. reflexivity. Qed.

(* The constants written in the model are the constants of the SOURCE: coq/Generated/SrcConsts.v is regenerated
   from /repo/buidl/*.py by harness/gen_coq_consts.py on every run; the statements are spelled out in
   Proofs/ConstsTie.v (golomb_is_source_stmt, bloom_is_source_stmt). *)
From V Require Proofs.ConstsTie.
Theorem C18_constants_match_source : ConstsTie.golomb_is_source_stmt /\ ConstsTie.bloom_is_source_stmt.
Proof. exact (conj ConstsTie.golomb_is_source ConstsTie.bloom_is_source). Qed.
Print Assumptions C18_constants_match_source.

(* ================================================================================================== *)
(* Second round: the code against independent transcriptions of BIP158 (Spec/Bip158.v: streaming bit
   writer / reader, gcs_match) and of the receiving peer of BIP37 (Spec/BloomCore.v: Bitcoin Core's
   CBloomFilter on the byte vector of the filterload message); converses of the round trips; the
   message classes and the SipHash object API. *)
From V Require Import Model.CFilterMsg Proofs.Bip158P Proofs.GcsSoundP Proofs.CFilterExtraP Proofs.BloomCoreP
  Proofs.NetworkP.
From V Require Spec.Bip158 Spec.BloomCore.

Definition ex_key : bytes := [67; 73; 127; 215; 248; 38; 149; 113; 8; 244; 163; 15; 217; 206; 195; 174].
Definition ex_block_hash : bytes :=
  [0; 0; 0; 0; 9; 51; 234; 1; 173; 14; 233; 132; 32; 151; 121; 186; 174; 195; 206; 217; 15; 163; 244; 8; 113; 149;
   38; 248; 215; 127; 73; 67].
Definition ex_spk : bytes :=
  [65; 4; 103; 138; 253; 176; 254; 85; 72; 39; 25; 103; 241; 166; 113; 48; 183; 16; 92; 214; 168; 40; 224; 57; 9;
   166; 121; 98; 224; 234; 31; 97; 222; 182; 73; 246; 188; 63; 76; 239; 56; 196; 243; 85; 4; 229; 30; 193; 18; 222;
   92; 56; 77; 247; 186; 11; 141; 87; 138; 76; 112; 43; 107; 241; 29; 95; 172].

(* (9) byte for byte: serialize_gcs of ANY value list = CompactSize N, then the BIP158 bit stream written bit by
       bit (q ones, a zero, P=19 bits MSB first per delta; bytes filled MSB first; zero padding) *)
Theorem C18_serialize_gcs_is_bip158_stream : forall items,
  zlen items < 18446744073709551616 ->
  serialize_gcs items =
  Ok (Spec.Bip158.compact_size (zlen items) ++
      Spec.Bip158.bw_flush (Spec.Bip158.gcs_compress items 0 Spec.Bip158.bw_empty)).
Proof. exact serialize_gcs_bip158. Qed.
Print Assumptions C18_serialize_gcs_is_bip158_stream.

(* (10) encode_gcs with the repository's SipHash = the filter BIP158 defines (standard SipHash-2-4, F = N*M with N
        counting every element, (h*F)>>64, ascending order, deltas, Golomb-Rice, bit packing, CompactSize N),
        for every 16-byte key and every element list *)
Theorem C18_encode_gcs_is_bip158 : forall key items,
  length key = 16%nat -> bytes_ok key -> Forall (fun e => bytes_ok e) items ->
  zlen items < 18446744073709551616 ->
  encode_gcs siphash key items = Ok (Spec.Bip158.filter_bytes key items).
Proof. exact encode_gcs_bip158. Qed.
Print Assumptions C18_encode_gcs_is_bip158.

(* BIP158 test vector (testnet block 0): filter 019dfca8 *)
Example bip158_vector_example : Spec.Bip158.filter_bytes ex_key [ex_spk] = [1; 157; 252; 168].
Proof. vm_compute. reflexivity. Qed.
Example bip158_stream_example :
  Spec.Bip158.compact_size 3 ++ Spec.Bip158.bw_flush (Spec.Bip158.gcs_compress [56103; 1303493; 2309825] 0 Spec.Bip158.bw_empty)
  = [3; 13; 178; 124; 194; 39; 174; 181; 248].
Proof. vm_compute. reflexivity. Qed.

(* (11) decode_gcs = the BIP's reader: whenever decode_gcs accepts, the streaming gcs decompression of the bytes
        after the count returns the same list; it has max(0,N) non-negative non-decreasing values *)
Theorem C18_decode_gcs_is_bip158_decompress : forall fb n r l,
  read_varint fb = Ok (n, r) -> decode_gcs fb = Ok l ->
  Spec.Bip158.gcs_decompress r n = Some l /\ zlen l = Z.max 0 n /\ ascending 0 l.
Proof. exact decode_gcs_decompress. Qed.
Print Assumptions C18_decode_gcs_is_bip158_decompress.

(* (12) CompactFilter.parse(key, fb).__contains__ = gcs_match of BIP158 (walk the stream, stop at the first value
        >= the target), on EVERY filter that parses — canonical or not *)
Theorem C18_contains_is_bip158_match : forall key fb n r cf x,
  length key = 16%nat -> bytes_ok key -> bytes_ok x -> bytes_ok fb ->
  read_varint fb = Ok (n, r) -> cf_parse key fb = Ok cf ->
  cf_f cf = n * Spec.Bip158.M158 /\ Spec.Bip158.gcs_decompress r n = Some (cf_hashes cf) /\
  exists b, cf_contains siphash cf x = Ok b /\ Spec.Bip158.gcs_match key r x n = Some b.
Proof. exact cf_contains_bip158_match. Qed.
Print Assumptions C18_contains_is_bip158_match.

Example contains_match_example :
  read_varint [3; 13; 178; 124; 194; 39; 174; 181; 248; 255] = Ok (3, [13; 178; 124; 194; 39; 174; 181; 248; 255]) /\
  (cf <- cf_parse ex_key [3; 13; 178; 124; 194; 39; 174; 181; 248; 255] ;; cf_contains siphash cf [1; 2; 3]) = Ok true /\
  Spec.Bip158.gcs_match ex_key [13; 178; 124; 194; 39; 174; 181; 248; 255] [1; 2; 3] 3 = Some true /\
  Spec.Bip158.gcs_match ex_key [13; 178; 124; 194; 39; 174; 181; 248; 255] [9] 3 = Some false.
Proof. vm_compute. repeat split; reflexivity. Qed.

(* (13) the filter of BIP158 queried through the library: parse succeeds, the answer to ANY query is the BIP's
        gcs_match, decompression returns the sorted hashed set, and every element of the block is matched *)
Theorem C18_bip158_filter_query : forall key items x,
  length key = 16%nat -> bytes_ok key -> Forall (fun e => bytes_ok e) items ->
  zlen items < 18446744073709551616 -> bytes_ok x ->
  exists cf b, cf_parse key (Spec.Bip158.filter_bytes key items) = Ok cf /\
    cf_contains siphash cf x = Ok b /\
    Spec.Bip158.gcs_match key (Spec.Bip158.construct_gcs key items) x (zlen items) = Some b /\
    Spec.Bip158.gcs_decompress (Spec.Bip158.construct_gcs key items) (zlen items)
      = Some (Spec.Bip158.sort_asc (Spec.Bip158.hashed_set key items)) /\
    (In x items -> b = true).
Proof. exact bip158_filter_query. Qed.
Print Assumptions C18_bip158_filter_query.

(* (14) converses: what the decoders accept is an encoding *)
Theorem C18_decode_golomb_sound : forall bits p x rest,
  Forall (fun b => b = 0 \/ b = 1) bits -> decode_golomb bits p = Ok (x, rest) ->
  0 <= x /\ bits = encode_golomb x p ++ rest.
Proof. exact decode_golomb_sound. Qed.
Print Assumptions C18_decode_golomb_sound.

Theorem C18_decode_gcs_accepts_iff : forall b l,
  decode_gcs b = Ok l <->
  exists n r tail, read_varint b = Ok (n, r) /\ zlen l = Z.max 0 n /\ ascending 0 l /\
                   unpack_bits r = gcs_deltas l 0 ++ tail.
Proof. exact decode_gcs_accepts_iff. Qed.
Print Assumptions C18_decode_gcs_accepts_iff.

(* non-canonical input (a trailing byte) is accepted and decodes to the same value *)
Example decode_noncanonical_example :
  decode_gcs [1; 157; 252; 168; 255] = Ok [769941] /\ decode_gcs [1; 157; 252; 168] = Ok [769941] /\
  decode_gcs [1; 157; 252] = Err.
Proof. vm_compute. repeat split; reflexivity. Qed.

(* parse . serialize . parse = parse on EVERY accepted filter: the re-serialisation is canonical, has the same
   values and the same F *)
Theorem C18_cf_reserialize_stable : forall key fb cf,
  bytes_ok fb -> cf_parse key fb = Ok cf ->
  exists raw cf', cf_serialize cf = Ok raw /\ cf_parse key raw = Ok cf' /\
    cf_hashes cf' = cf_hashes cf /\ cf_f cf' = cf_f cf /\ cf_serialize cf' = Ok raw /\
    ascending 0 (cf_hashes cf).
Proof. exact cf_reserialize_stable. Qed.
Print Assumptions C18_cf_reserialize_stable.

(* (15) hash_to_range with the repository's SipHash = (siphash24(k, e) * F) >> 64 of BIP158, in [0, F) *)
Theorem C18_hash_to_range_bip158 : forall key v f,
  length key = 16%nat -> bytes_ok key -> bytes_ok v -> 0 <= f ->
  hash_to_range siphash key v f = Ok (Spec.Bip158.hash_to_range key v f) /\
  0 <= Spec.Bip158.hash_to_range key v f /\
  (0 < f -> Spec.Bip158.hash_to_range key v f < f) /\
  (f = 0 -> Spec.Bip158.hash_to_range key v f = 0).
Proof. exact hash_to_range_siphash. Qed.
Print Assumptions C18_hash_to_range_bip158.

Theorem C18_hash_to_range_bad_key : forall key v f,
  length key <> 16%nat -> hash_to_range siphash key v f = Err.
Proof. exact hash_to_range_bad_key. Qed.
Print Assumptions C18_hash_to_range_bad_key.

(* a query matches EXACTLY when its value in [0, N*M) equals the value of an inserted element (no other false
   positives), for every keyed hash into [0, 2^64) *)
Theorem C18_cf_contains_iff :
  forall (sip : bytes -> bytes -> result Z) key items fb,
  (forall v h, In v items -> sip key v = Ok h -> 0 <= h < 18446744073709551616) ->
  encode_gcs sip key items = Ok fb ->
  exists cf, cf_parse key fb = Ok cf /\
    forall x, cf_contains sip cf x = Ok true <->
      exists y h, In y items /\ hash_to_range sip key x (zlen items * GOLOMB_M) = Ok h /\
                  hash_to_range sip key y (zlen items * GOLOMB_M) = Ok h.
Proof. exact cf_contains_iff. Qed.
Print Assumptions C18_cf_contains_iff.

(* (16) SipHash object API: digest() is the 8-byte little-endian hash, hexdigest() its lower-case hex; the
        two-argument constructor followed by any updates hashes the concatenation *)
Theorem C18_siphash_digest_spec : forall key v,
  length key = 16%nat -> bytes_ok key -> bytes_ok v ->
  siphash_digest key v = Ok (to_le 8 (Spec.Siphash.siphash24 key v)) /\
  siphash_hexdigest key v = Ok (hexlify (to_le 8 (Spec.Siphash.siphash24 key v))) /\
  from_le (to_le 8 (Spec.Siphash.siphash24 key v)) = Spec.Siphash.siphash24 key v.
Proof. exact siphash_digest_spec. Qed.
Print Assumptions C18_siphash_digest_spec.

Theorem C18_sip_object_digest : forall key s0 chunks st,
  length key = 16%nat -> bytes_ok key -> bytes_ok s0 -> Forall (fun c => bytes_ok c) chunks ->
  sip_new key s0 = Ok st ->
  sip_hash (fold_left sip_update chunks st) = Spec.Siphash.siphash24 key (s0 ++ concat chunks) /\
  sip_digest (fold_left sip_update chunks st) = Ok (to_le 8 (Spec.Siphash.siphash24 key (s0 ++ concat chunks))).
Proof. exact sip_object_digest. Qed.
Print Assumptions C18_sip_object_digest.

(* SipHash reference vector 1 (key 00..0f, message 00): 74f839c593dc67fd *)
Example siphash_hexdigest_example :
  siphash_hexdigest [0;1;2;3;4;5;6;7;8;9;10;11;12;13;14;15] [0]
  = Ok [102;100;54;55;100;99;57;51;99;53;51;57;102;56;55;52].
Proof. vm_compute. reflexivity. Qed.

(* (17) BIP157 messages.  A cfilter message carrying a filter built under the key the block hash defines
        (block_hash[::-1][:16]): CFilterMessage.parse(wire) reports every element, so does the constructor, and
        hash() is hash256 of the filter bytes *)
Theorem C18_cfilter_message_members :
  forall (sip : bytes -> bytes -> result Z) t bh items fb rest,
  length bh = 32%nat ->
  (forall v h, In v items -> sip (cfmsg_key bh) v = Ok h -> 0 <= h < 18446744073709551616) ->
  encode_gcs sip (cfmsg_key bh) items = Ok fb -> zlen fb < 9223372036854775808 ->
  exists wire, cfilter_layout t bh fb = Ok wire /\
    (forall x, In x items -> cfmsg_contains sip (wire ++ rest) x = Ok true) /\
    (forall x, In x items -> cfmsg_new_contains sip bh fb x = Ok true) /\
    (forall hash256, cfmsg_hash hash256 (wire ++ rest) = Ok (hash256 fb)).
Proof. exact cfilter_message_members. Qed.
Print Assumptions C18_cfilter_message_members.

Theorem C18_cfilter_message_bip158 : forall t bh items rest,
  length bh = 32%nat -> bytes_ok bh -> Forall (fun e => bytes_ok e) items ->
  zlen items < 18446744073709551616 ->
  let fb := Spec.Bip158.filter_bytes (cfmsg_key bh) items in
  zlen fb < 9223372036854775808 ->
  exists wire, cfilter_layout t bh fb = Ok wire /\
    (forall x, In x items -> cfmsg_contains siphash (wire ++ rest) x = Ok true) /\
    (forall hash256, cfmsg_hash hash256 (wire ++ rest) = Ok (hash256 fb)).
Proof. exact cfilter_message_bip158. Qed.
Print Assumptions C18_cfilter_message_bip158.

Example cfilter_message_example :
  cfmsg_key ex_block_hash = ex_key /\
  cfmsg_contains siphash
    ([0; 67; 73; 127; 215; 248; 38; 149; 113; 8; 244; 163; 15; 217; 206; 195; 174; 186; 121; 151; 32; 132; 233; 14;
      173; 1; 234; 51; 9; 0; 0; 0; 0; 4; 1; 157; 252; 168] ++ [7; 7]) ex_spk = Ok true.
Proof. vm_compute. split; reflexivity. Qed.

(* CFHeadersMessage.parse(wire).last_header for every well-formed cfheaders message *)
Theorem C18_cfheaders_last_header :
  forall (hash256 : bytes -> bytes) t stop prev hs rest,
  length stop = 32%nat -> length prev = 32%nat ->
  Forall (fun h => length h = 32%nat) hs -> zlen hs < 18446744073709551616 ->
  exists wire, cfheaders_layout t stop prev hs = Ok wire /\
    cfheaders_last hash256 (wire ++ rest) = Ok (fold_left (fun cur fh => hash256 (fh ++ cur)) hs prev).
Proof. exact cfheaders_last_header. Qed.
Print Assumptions C18_cfheaders_last_header.

(* consecutive batches chain: starting the second batch from the last header of the first gives the header of
   the whole run *)
Theorem C18_cfheaders_batches : forall (hash256 : bytes -> bytes) prev hs1 hs2,
  cfheader_chain hash256 (cfheader_chain hash256 prev hs1) hs2 = cfheader_chain hash256 prev (hs1 ++ hs2).
Proof. exact cfheaders_batches. Qed.
Print Assumptions C18_cfheaders_batches.

Theorem C18_filter_headers_from_step : forall (hash256 : bytes -> bytes) prev fbs fb,
  filter_headers_from hash256 prev (fbs ++ [fb]) =
  hash256 (hash256 fb ++ filter_headers_from hash256 prev fbs).
Proof. exact filter_headers_from_step. Qed.
Print Assumptions C18_filter_headers_from_step.

(* the filter hash fed to the chain is what CompactFilter.hash() returns on every filter made by encode_gcs *)
Theorem C18_filter_header_of_parsed :
  forall (sip : bytes -> bytes -> result Z) (hash256 : bytes -> bytes) key items fb prev,
  (forall v h, In v items -> sip key v = Ok h -> 0 <= h < 18446744073709551616) ->
  encode_gcs sip key items = Ok fb ->
  exists cf fh, cf_parse key fb = Ok cf /\ cf_hash hash256 cf = Ok fh /\
    cfheader_chain hash256 prev [fh] = hash256 (hash256 fb ++ prev).
Proof. exact filter_header_of_parsed. Qed.
Print Assumptions C18_filter_header_of_parsed.

(* (18) BIP37 at the byte level.  filter_bytes() after any sequence of add() calls = the vData of Bitcoin Core's
        CBloomFilter after the same insert() calls, byte for byte (seeds >= 2^32 included: Core computes in
        uint32, the Python code on unbounded integers) *)
Theorem C18_bloom_filter_bytes_eq_core : forall items b b' fb,
  0 < bf_size b -> zlen (bf_bits b) = bf_size b * 8 -> Forall (fun x => x = 0 \/ x = 1) (bf_bits b) ->
  Forall (fun e => bytes_ok e) items -> bloom_add_list b items = Ok b' ->
  bit_field_to_bytes (bf_bits b) = Ok fb ->
  bit_field_to_bytes (bf_bits b') =
  Ok (fold_left (Spec.BloomCore.core_insert (bf_fc b) (bf_tweak b)) items fb).
Proof. intros items b b' fb H1 H2 H3. exact (bloom_filter_bytes_core items b b' fb (conj H1 (conj H2 H3))). Qed.
Print Assumptions C18_bloom_filter_bytes_eq_core.

(* Core's contains() evaluated on the bytes of filter_bytes() = all function_count bits set in the bit field *)
Theorem C18_core_contains_matches : forall b fb item,
  0 < bf_size b -> zlen (bf_bits b) = bf_size b * 8 -> Forall (fun x => x = 0 \/ x = 1) (bf_bits b) ->
  bit_field_to_bytes (bf_bits b) = Ok fb -> bytes_ok item ->
  Spec.BloomCore.core_contains (bf_fc b) (bf_tweak b) fb item = bloom_matches b item.
Proof. intros b fb item H1 H2 H3. exact (core_contains_matches b fb item (conj H1 (conj H2 H3))). Qed.
Print Assumptions C18_core_contains_matches.

(* what the remote peer sees: the filterload payload of BloomFilter(size, fc, tweak) after add(items) decodes
   (strictly) into Core's vData after insert(items), nHashFuncs = fc, nTweak = tweak, nFlags = flag, and
   contains() holds for every added item — no false negatives on the wire, for every size, function count,
   tweak and item list *)
Theorem C18_bloom_wire_no_false_negative : forall size fc tweak items flag,
  0 < size < 18446744073709551616 -> 0 <= fc < 4294967296 -> 0 <= tweak < 4294967296 -> 0 <= flag < 256 ->
  Forall (fun e => bytes_ok e) items ->
  exists b payload v,
    bloom_add_list (bloom_new size fc tweak) items = Ok b /\
    filterload b flag = Ok payload /\
    v = fold_left (Spec.BloomCore.core_insert fc tweak) items (repeatz 0 (Z.to_nat size)) /\
    payload = Spec.BloomCore.filterload_bytes v fc tweak flag /\
    Spec.BloomCore.filterload_decode payload = Some (v, fc, tweak, flag) /\
    zlen v = size /\
    forall it, In it items -> Spec.BloomCore.core_contains fc tweak v it = true.
Proof. exact bloom_wire_no_false_negative. Qed.
Print Assumptions C18_bloom_wire_no_false_negative.

(* Bitcoin Core bloom_tests bloom_create_insert_serialize: 3 bytes, 5 functions, tweak 0 -> 03614e9b050000000000000001 *)
Example bloom_core_vector_example :
  let items := [[153; 16; 138; 216; 237; 155; 182; 39; 77; 57; 128; 186; 181; 168; 92; 4; 143; 9; 80; 200];
                [181; 162; 199; 134; 217; 239; 70; 88; 40; 124; 237; 89; 20; 179; 122; 27; 74; 163; 46; 238];
                [185; 48; 6; 112; 180; 197; 54; 110; 149; 178; 105; 158; 139; 24; 188; 117; 229; 247; 41; 197]] in
  let v := fold_left (Spec.BloomCore.core_insert 5 0) items [0; 0; 0] in
  v = [97; 78; 155] /\
  Spec.BloomCore.filterload_bytes v 5 0 1 = [3; 97; 78; 155; 5; 0; 0; 0; 0; 0; 0; 0; 1] /\
  (b <- bloom_add_list (bloom_new 3 5 0) items ;; filterload b 1) = Ok [3; 97; 78; 155; 5; 0; 0; 0; 0; 0; 0; 0; 1] /\
  forallb (Spec.BloomCore.core_contains 5 0 v) items = true /\
  Spec.BloomCore.core_contains 5 0 v [1; 2; 3] = false.
Proof. vm_compute. repeat split; reflexivity. Qed.

(* (11') ... and on ALL inputs: decode_gcs raises exactly when the BIP's reader runs off the end of the stream *)
Theorem C18_decode_gcs_eq_bip158_decompress : forall fb n r,
  read_varint fb = Ok (n, r) ->
  decode_gcs fb = match Spec.Bip158.gcs_decompress r n with Some l => Ok l | None => Err end.
Proof. exact decode_gcs_eq_decompress. Qed.
Print Assumptions C18_decode_gcs_eq_bip158_decompress.

(* (18') the peer's limits (36000 bytes, 50 functions) applied to the payload the library sends *)
Theorem C18_filterload_acceptable : forall v fc tweak flag,
  zlen v < 18446744073709551616 -> 0 <= fc < 4294967296 -> 0 <= tweak < 4294967296 ->
  Spec.BloomCore.filterload_acceptable (Spec.BloomCore.filterload_bytes v fc tweak flag) =
  (zlen v <=? Spec.BloomCore.MAX_BLOOM_FILTER_SIZE) && (fc <=? Spec.BloomCore.MAX_HASH_FUNCS).
Proof. exact filterload_acceptable_bytes. Qed.
Print Assumptions C18_filterload_acceptable.

(* an accepted non-canonical filter: CompactFilter.serialize() (hence CompactFilter.hash()) is the canonical coding
   of the values, not the bytes received — CFilterMessage.hash() hashes the received bytes *)
Example cf_serialize_noncanonical_example :
  (cf <- cf_parse ex_key [1; 157; 252; 168; 255] ;; cf_serialize cf) = Ok [1; 157; 252; 168].
Proof. vm_compute. reflexivity. Qed.

(* a cfheaders message with two filter hashes, under a toy "hash" (first 32 bytes of the reversed input) *)
Example cfheaders_last_example :
  let h := fun b : bytes => firstn 32 (rev b) in
  let wire := [0] ++ rev (repeatz 9 32) ++ repeatz 8 32 ++ [2] ++ repeatz 5 32 ++ repeatz 6 32 in
  cfheaders_layout 0 (repeatz 9 32) (repeatz 8 32) [repeatz 5 32; repeatz 6 32] = Ok wire /\
  cfheaders_last h (wire ++ [1; 2; 3]) = Ok (h (repeatz 6 32 ++ h (repeatz 5 32 ++ repeatz 8 32))).
Proof. vm_compute. split; reflexivity. Qed.

Example sip_object_example :
  (st <- sip_new [0;1;2;3;4;5;6;7;8;9;10;11;12;13;14;15] [0; 1; 2] ;;
   sip_digest (fold_left sip_update [[3; 4; 5; 6; 7; 8]; []; [9]] st))
  = Ok (to_le 8 (Spec.Siphash.siphash24 [0;1;2;3;4;5;6;7;8;9;10;11;12;13;14;15] [0;1;2;3;4;5;6;7;8;9])).
Proof. vm_compute. reflexivity. Qed.

Example hash_to_range_example :
  hash_to_range siphash [0;1;2;3;4;5;6;7;8;9;10;11;12;13;14;15] [1; 2; 3] (3 * GOLOMB_M) = Ok 558450 /\
  hash_to_range siphash [0;1;2;3;4;5;6;7;8;9;10;11;12;13;14;15] [1; 2; 3] 0 = Ok 0 /\
  hash_to_range siphash [0;1;2] [1; 2; 3] 5 = Err.
Proof. vm_compute. repeat split; reflexivity. Qed.
