(* Props/C18.v — BIP158 compact filters (Golomb-Rice, bit packing, GCS, membership) and
   BIP37 bloom filters (MurmurHash3).  Only statements, each closed by [exact] of a lemma
   from Proofs/, followed by Print Assumptions.
   - the keyed hash of the compact filter is universally quantified (any function into
     [0, 2^64)); SipHash-2-4 itself is related to its specification at the end of the file;
   - hash256 of the filter-header chain is universally quantified. *)
From V Require Import Base.Prelude Base.Ints Model.Helper Model.Gcs Model.Network
  Model.Siphash Model.Murmur Model.Bloom Model.CFilter
  Proofs.HelperP Proofs.GcsP Proofs.CFilterP Proofs.MurmurP Proofs.BloomP Proofs.SiphashP.
From V Require Spec.Murmur Spec.Siphash.

(* (1) Golomb-Rice: decoding inverts encoding for every x >= 0 and every parameter p,
       and leaves the following bits untouched *)
Theorem C18_golomb_roundtrip : forall x p rest,
  0 <= x -> decode_golomb (encode_golomb x p ++ rest) p = Ok (x, rest).
Proof. exact golomb_roundtrip. Qed.
Print Assumptions C18_golomb_roundtrip.

(* (2) bit packing: unpack (pack bits) = bits padded with zeros to a multiple of 8 *)
Theorem C18_pack_unpack_bits : forall bits,
  Forall (fun b => b = 0 \/ b = 1) bits ->
  unpack_bits (pack_bits bits) = bits ++ repeatz 0 (Nat.modulo (8 - Nat.modulo (length bits) 8) 8) /\
  (length (pack_bits bits) * 8 = length bits + Nat.modulo (8 - Nat.modulo (length bits) 8) 8)%nat /\
  bytes_ok (pack_bits bits).
Proof.
  intros bits H. split; [exact (unpack_pack_bits bits H)|]. split; [|exact (pack_bits_ok bits)].
  rewrite (pack_bits_length bits). unfold pad8. now rewrite app_length, repeatz_length.
Qed.
Print Assumptions C18_pack_unpack_bits.

(* (3) GCS: [ascending 0 items] = non-negative and non-decreasing (duplicates allowed) *)
Theorem C18_gcs_roundtrip : forall items,
  ascending 0 items -> zlen items < 18446744073709551616 ->
  exists b, serialize_gcs items = Ok b /\ decode_gcs b = Ok items.
Proof. exact gcs_roundtrip. Qed.
Print Assumptions C18_gcs_roundtrip.

Example ascending_example : ascending 0 [0; 5; 5; 784931; 2000000].
Proof. cbn. lia. Qed.

(* (3') for every key and element list, decoding the encoded filter gives the sorted hashed items *)
Theorem C18_decode_inverts_encode :
  forall (sip : bytes -> bytes -> result Z) key items fb,
  (forall v h, In v items -> sip key v = Ok h -> 0 <= h < 18446744073709551616) ->
  encode_gcs sip key items = Ok fb ->
  exists l, hashed_items sip key items = Ok l /\ decode_gcs fb = Ok l /\
            length l = length items /\ ascending 0 l /\
            (forall h, In h l -> 0 <= h < zlen items * GOLOMB_M).
Proof.
  intros sip key items fb Hr He.
  destruct (encode_decode_gcs sip key items fb Hr He) as [l [E1 E2]].
  destruct (hashed_items_props sip key items l Hr E1) as [A [B [_ D]]].
  exists l. repeat split; try assumption; now apply D.
Qed.
Print Assumptions C18_decode_inverts_encode.

(* (4) no false negatives, for EVERY keyed hash [sip] with values in [0, 2^64): the filter parsed from encode_gcs(key, items) uses F = len(items) * M
       (duplicates and colliding hashed values included) and reports every element present *)
Theorem C18_gcs_no_false_negative :
  forall (sip : bytes -> bytes -> result Z) key items fb,
  (forall v h, In v items -> sip key v = Ok h -> 0 <= h < 18446744073709551616) ->
  encode_gcs sip key items = Ok fb ->
  exists cf, cf_parse key fb = Ok cf /\ cf_key cf = key /\ cf_f cf = zlen items * GOLOMB_M /\
             forall x, In x items -> cf_contains sip cf x = Ok true.
Proof. exact cf_no_false_negative. Qed.
Print Assumptions C18_gcs_no_false_negative.

Theorem C18_encode_gcs_total :
  forall (sip : bytes -> bytes -> result Z) key items,
  (forall x, In x items -> exists h, sip key x = Ok h) -> zlen items < 18446744073709551616 ->
  exists fb, encode_gcs sip key items = Ok fb.
Proof. exact encode_gcs_total. Qed.
Print Assumptions C18_encode_gcs_total.

(* (5) MurmurHash3: the unbounded-integer code = the 32-bit standard, for every integer seed *)
Theorem C18_murmur3_eq_spec : forall data seed,
  bytes_ok data ->
  murmur3 data seed = Spec.Murmur.murmur3_x86_32 data (seed mod 4294967296) /\
  0 <= murmur3 data seed < 4294967296.
Proof.
  intros data seed H. split; [exact (murmur3_eq_spec data seed H) | exact (murmur3_range data seed H)].
Qed.
Print Assumptions C18_murmur3_eq_spec.

(* (6) bloom filter *)
Theorem C18_bloom_index_is_bip37 : forall size tweak item i,
  bytes_ok item ->
  bloom_index size tweak item i =
  Spec.Murmur.murmur3_x86_32 item ((i * 4221880213 + tweak) mod 4294967296) mod (size * 8).
Proof. exact bloom_index_spec. Qed.
Print Assumptions C18_bloom_index_is_bip37.

Theorem C18_bloom_bits_set_and_monotone : forall b item,
  0 < bf_size b -> zlen (bf_bits b) = bf_size b * 8 -> Forall (fun x => x = 0 \/ x = 1) (bf_bits b) ->
  exists b', bloom_add b item = Ok b' /\
    bf_size b' = bf_size b /\ bf_fc b' = bf_fc b /\ bf_tweak b' = bf_tweak b /\
    zlen (bf_bits b') = bf_size b * 8 /\
    (forall j, nth j (bf_bits b) 0 = 1 -> nth j (bf_bits b') 0 = 1) /\
    (forall i, 0 <= i < bf_fc b ->
       nth (Z.to_nat (bloom_index (bf_size b) (bf_tweak b) item i)) (bf_bits b') 0 = 1).
Proof.
  intros b item H1 H2 H3.
  destruct (bloom_add_props b item (conj H1 (conj H2 H3))) as [b' [E [[_ [L _]] [S [F [T [M A]]]]]]].
  exists b'. repeat split; try assumption; [congruence|].
  intros i Hi. unfold bloom_matches in A. rewrite S, F, T in A.
  apply (proj1 (bloom_all_set_iff _ _ _ _ _ _) A). lia.
Qed.
Print Assumptions C18_bloom_bits_set_and_monotone.

Theorem C18_bloom_no_false_negative : forall size fc tweak items,
  0 < size ->
  exists b, bloom_add_list (bloom_new size fc tweak) items = Ok b /\
    forall it, In it items -> bloom_matches b it = true.
Proof.
  intros size fc tweak items Hs.
  destruct (bloom_new_wf size fc tweak ltac:(lia)) as [L B].
  destruct (bloom_add_list_props items (bloom_new size fc tweak) (conj Hs (conj L B)))
    as [b [E [_ [_ [_ [_ [_ A]]]]]]].
  exists b. split; assumption.
Qed.
Print Assumptions C18_bloom_no_false_negative.

Theorem C18_filter_bytes_layout : forall b,
  0 < bf_size b -> zlen (bf_bits b) = bf_size b * 8 -> Forall (fun x => x = 0 \/ x = 1) (bf_bits b) ->
  exists fb, bit_field_to_bytes (bf_bits b) = Ok fb /\ zlen fb = bf_size b /\ bytes_ok fb /\
    forall i, (i < length (bf_bits b))%nat ->
      Z.testbit (nth (Nat.div i 8) fb 0) (Z.of_nat (Nat.modulo i 8)) = (nth i (bf_bits b) 0 =? 1).
Proof. intros b H1 H2 H3. exact (filter_bytes_layout b (conj H1 (conj H2 H3))). Qed.
Print Assumptions C18_filter_bytes_layout.

Theorem C18_filterload_layout : forall b flag,
  0 < bf_size b -> zlen (bf_bits b) = bf_size b * 8 -> Forall (fun x => x = 0 \/ x = 1) (bf_bits b) ->
  bf_size b < 18446744073709551616 -> 0 <= bf_fc b < 4294967296 -> 0 <= bf_tweak b < 4294967296 ->
  0 <= flag < 256 ->
  exists sz fb, encode_varint (bf_size b) = Ok sz /\ bit_field_to_bytes (bf_bits b) = Ok fb /\
    filterload b flag = Ok (sz ++ fb ++ to_le 4 (bf_fc b) ++ to_le 4 (bf_tweak b) ++ [flag]).
Proof. intros b flag H1 H2 H3. exact (filterload_layout b flag (conj H1 (conj H2 H3))). Qed.
Print Assumptions C18_filterload_layout.

(* (7) SipHash-2-4: the fused, partially masked double round of siphash.py is two standard
       SipRounds around the message word, for all 64-bit state and message words *)
Theorem C18_sipround_fused_eq_spec : forall a b c d m,
  0 <= a < 2 ^ 64 -> 0 <= b < 2 ^ 64 -> 0 <= c < 2 ^ 64 -> 0 <= d < 2 ^ 64 -> 0 <= m < 2 ^ 64 ->
  doublesipround (a, b, c, d) m =
  (let '(w0, w1, w2, w3) := Spec.Siphash.sipround (Spec.Siphash.sipround (a, b, c, Z.lxor d m)) in
   (Z.lxor w0 m, w1, w2, w3)).
Proof. exact doublesipround_spec. Qed.
Print Assumptions C18_sipround_fused_eq_spec.

(* SipHash_2_4(key).update(c1)...update(cn).hash() = SipHash-2-4 of c1 ++ ... ++ cn, for every
   chunking; a key that is not 16 bytes long raises *)
Theorem C18_siphash_chunks_eq_spec : forall key chunks,
  bytes_ok key -> Forall (fun c => bytes_ok c) chunks ->
  (length key = 16%nat ->
     siphash_chunks key chunks = Ok (Spec.Siphash.siphash24 key (concat chunks)) /\
     0 <= Spec.Siphash.siphash24 key (concat chunks) < 2 ^ 64) /\
  (length key <> 16%nat -> siphash_chunks key chunks = Err).
Proof.
  intros key chunks Hk Hc. split.
  - intros L. split; [exact (siphash_chunks_spec key chunks L Hk Hc)|].
    apply siphash24_in64; [assumption|]. unfold bytes_ok. now apply Forall_concat.
  - exact (siphash_chunks_bad_key key chunks).
Qed.
Print Assumptions C18_siphash_chunks_eq_spec.

(* (4'') the compact filter of compactfilter.py with its own SipHash: for every 16-byte key and every
   element list, encoding succeeds, the parsed filter reports every element, and the decoded values
   are the sorted BIP158 values (siphash24(key, e) * N*M) >> 64 computed with the STANDARD SipHash *)
Theorem C18_compact_filter_bip158 : forall key items,
  length key = 16%nat -> bytes_ok key -> Forall (fun e => bytes_ok e) items ->
  zlen items < 18446744073709551616 ->
  exists fb cf,
    encode_gcs siphash key items = Ok fb /\ cf_parse key fb = Ok cf /\
    cf_f cf = zlen items * GOLOMB_M /\
    (forall x, In x items -> cf_contains siphash cf x = Ok true) /\
    exists l, decode_gcs fb = Ok l /\
      l = zsort (map (fun x => Z.shiftr (Spec.Siphash.siphash24 key x * (zlen items * GOLOMB_M)) 64) items).
Proof. exact compact_filter_siphash. Qed.
Print Assumptions C18_compact_filter_bip158.

Example compact_filter_example :
  cf_build_query siphash [0;1;2;3;4;5;6;7;8;9;10;11;12;13;14;15] [[1;2;3]; [4]; [1;2;3]; []] [1;2;3] = Ok true.
Proof. vm_compute. reflexivity. Qed.

(* (8) filter headers chain as hash256(filter_hash || previous header) *)
Theorem C18_cfheader_chain :
  forall (hash256 : bytes -> bytes) (prev : bytes) (hashes : list bytes),
  cfheader_chain hash256 prev hashes = fold_left (fun cur fh => hash256 (fh ++ cur)) hashes prev
  /\ (forall fh rest, cfheader_chain hash256 prev (fh :: rest) =
                      cfheader_chain hash256 (hash256 (fh ++ prev)) rest)
  /\ cfheader_chain hash256 prev [] = prev.
Proof. intros. repeat split. Qed.
Print Assumptions C18_cfheader_chain.

(* non-vacuity of the hypotheses *)
Example sip_range_example :
  let sip := fun (_ v : bytes) => Ok (from_le v mod 18446744073709551616) in
  forall key items v h, In v items -> sip key v = Ok h -> 0 <= h < 18446744073709551616.
Proof. intros sip key items v h _ [= <-]. apply Z.mod_pos_bound. reflexivity. Qed.

Example bloom_wf_example :
  let b := bloom_new 10 5 99 in
  0 < bf_size b /\ zlen (bf_bits b) = bf_size b * 8 /\ Forall (fun x => x = 0 \/ x = 1) (bf_bits b).
Proof. split; [reflexivity|]. split; [reflexivity|]. repeat constructor. Qed.

Example murmur3_negative_seed : murmur3 [1; 2; 3; 4; 5] (-5) = murmur3 [1; 2; 3; 4; 5] (4294967296 - 5).
Proof. vm_compute. reflexivity. Qed.

(* BloomFilter(10, 5, 99).add(b"Hello World"): test vector of the repository *)
Example bloom_example :
  (b <- bloom_add (bloom_new 10 5 99) [72;101;108;108;111;32;87;111;114;108;100] ;;
   bit_field_to_bytes (bf_bits b)) = Ok [0;0;0;10;8;0;0;0;1;64].
Proof. vm_compute. reflexivity. Qed.

(* (3'') CompactFilter.serialize() inverts CompactFilter.parse() on every canonical GCS (the
   serialisation of any non-negative non-decreasing list, equal values included), hence
   CompactFilter.hash() = hash256 of the bytes received on the wire (hash256 universally quantified) *)
Theorem C18_cf_serialize_inverts_parse : forall key items raw,
  ascending 0 items -> serialize_gcs items = Ok raw ->
  exists cf, cf_parse key raw = Ok cf /\ cf_items cf = items /\ cf_serialize cf = Ok raw /\
             forall hash256 : bytes -> bytes, cf_hash hash256 cf = Ok (hash256 raw).
Proof. exact cf_serialize_parse. Qed.
Print Assumptions C18_cf_serialize_inverts_parse.

(* ... in particular on every filter produced by encode_gcs, for every keyed hash into [0, 2^64)
   (duplicates and collisions in [0, N*M) included) *)
Theorem C18_cf_serialize_inverts_parse_encode :
  forall (sip : bytes -> bytes -> result Z) key items raw,
  (forall v h, In v items -> sip key v = Ok h -> 0 <= h < 18446744073709551616) ->
  encode_gcs sip key items = Ok raw ->
  exists cf, cf_parse key raw = Ok cf /\ cf_serialize cf = Ok raw /\
             forall hash256 : bytes -> bytes, cf_hash hash256 cf = Ok (hash256 raw).
Proof. exact cf_serialize_parse_encode. Qed.
Print Assumptions C18_cf_serialize_inverts_parse_encode.

(* the input on which serialize() used to drop a value (fixed by 4b29cf6): the same element twice *)
Example cf_serialize_example :
  (cf <- cf_parse [0;1;2;3;4;5;6;7;8;9;10;11;12;13;14;15] [2;72;15;128;0;0] ;; cf_serialize cf)
  = Ok [2;72;15;128;0;0].
Proof. vm_compute. reflexivity. Qed.

(* The constants written in the model are the constants of the SOURCE: coq/Generated/SrcConsts.v is regenerated
   from /repo/buidl/*.py by harness/gen_coq_consts.py on every run; the statements are spelled out in
   Proofs/ConstsTie.v (golomb_is_source_stmt, bloom_is_source_stmt). *)
From V Require Proofs.ConstsTie.
Theorem C18_constants_match_source : ConstsTie.golomb_is_source_stmt /\ ConstsTie.bloom_is_source_stmt.
Proof. exact (conj ConstsTie.golomb_is_source ConstsTie.bloom_is_source). Qed.
Print Assumptions C18_constants_match_source.
