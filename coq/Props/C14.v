(* Props/C14.v — BIP39 mnemonics encode entropy + checksum exactly, and seeds follow
   PBKDF2 (RFC 8018) and the BIP32 master split.

   sha256 is any function whose digest starts with a byte (sha_ok); HMAC (the PRF) is
   any function with a fixed positive output length.  The word list is the constant
   Generated.Wordlists.bip39_words, regenerated from buidl/bip39_words.txt on every run:
   the list-dependent facts (2048 words, lookup = position, four-letter prefixes unique)
   are re-proved by computation on the file as it is now (Proofs/WordlistP.v).
   Only statements here; proofs in Proofs/{MnemonicP,WordlistP,C14Glue,Pbkdf2P,SeedP}.v. *)
From V Require Import Base.Prelude Base.Ints Model.Mnemonic Model.Pbkdf2 Spec.Pbkdf2S
  Generated.Wordlists Proofs.MnemonicP Proofs.WordlistP Proofs.C14Glue Proofs.Pbkdf2P Proofs.SeedP.

Definition sha_ok (sha256 : bytes -> bytes) : Prop :=
  forall x, exists h t, sha256 x = h :: t /\ 0 <= h < 256.

(* (1) every entropy of 16/20/24/28/32 bytes round-trips, at the text level *)
Theorem C14_mnemonic_roundtrip : forall sha256, sha_ok sha256 -> forall e, ent_ok e ->
  exists m, bytes_to_mnemonic sha256 bip39_words e (8 * zlen e) = Ok m /\
            mnemonic_to_bytes sha256 bip39_words m = Ok e.
Proof. exact bip39_mnemonic_roundtrip. Qed.
Print Assumptions C14_mnemonic_roundtrip.

(* ... also when every word is spelled by its first four letters *)
Theorem C14_mnemonic_prefix_roundtrip : forall sha256, sha_ok sha256 -> forall e, ent_ok e ->
  exists ws, bytes_to_mnemonic sha256 bip39_words e (8 * zlen e) = Ok (join_sp ws) /\
             mnemonic_to_bytes sha256 bip39_words (join_sp (map (firstn 4) ws)) = Ok e.
Proof. exact bip39_mnemonic_prefix_roundtrip. Qed.
Print Assumptions C14_mnemonic_prefix_roundtrip.

(* ... and on the word-index level (no word list involved) *)
Theorem C14_indices_roundtrip : forall sha256, sha_ok sha256 -> forall e, ent_ok e ->
  exists idx, bytes_to_indices sha256 e (8 * zlen e) = Ok idx /\
              indices_to_bytes sha256 idx = Ok e /\
              Z.of_nat (length idx) = 3 * (zlen e / 4) /\
              Forall (fun i => 0 <= i < 2048) idx.
Proof. exact indices_roundtrip. Qed.
Print Assumptions C14_indices_roundtrip.

(* (2) layout: read as a base-2048 number the word indices are
   entropy || first ENT/32 bits of sha256(entropy); C14_digits_determine_words says that
   this number fixes the indices *)
Theorem C14_mnemonic_layout : forall sha256 e idx h t, ent_ok e ->
  sha256 e = h :: t -> 0 <= h < 256 ->
  bytes_to_indices sha256 e (8 * zlen e) = Ok idx ->
  from_digits idx = from_be e * 2 ^ (zlen e / 4) + h / 2 ^ (8 - zlen e / 4).
Proof. exact indices_layout. Qed.
Print Assumptions C14_mnemonic_layout.

Theorem C14_digits_determine_words : forall a b, length a = length b ->
  Forall (fun i => 0 <= i < 2048) a -> Forall (fun i => 0 <= i < 2048) b ->
  from_digits a = from_digits b -> a = b.
Proof. exact from_digits_inj. Qed.
Print Assumptions C14_digits_determine_words.

(* (3) a text is accepted exactly when every word designates a list position (full word
   or four-letter prefix of a longer word), the number of words is 12/15/18/21/24 and the
   checksum bits equal the leading bits of sha256 of the decoded entropy *)
Theorem C14_mnemonic_accept_iff : forall sha256 m s,
  mnemonic_to_bytes sha256 bip39_words m = Ok s <->
  exists idx,
    Forall2 designates (split_ws m) idx /\
    valid_num_words (zlen idx) = true /\
    s = to_be (Z.to_nat ((zlen idx * 11 - zlen idx / 3) / 8))
              (from_digits idx / 2 ^ (zlen idx / 3)) /\
    exists h t, sha256 s = h :: t /\
      from_digits idx mod 2 ^ (zlen idx / 3) = h / 2 ^ (8 - zlen idx / 3).
Proof. exact bip39_accept_iff. Qed.
Print Assumptions C14_mnemonic_accept_iff.

Theorem C14_unknown_word_rejected : forall sha256 m key,
  In key (split_ws m) -> (forall i, ~ designates key i) ->
  mnemonic_to_bytes sha256 bip39_words m = Err.
Proof. exact bip39_unknown_word_rejected. Qed.
Print Assumptions C14_unknown_word_rejected.

Theorem C14_bad_length_rejected : forall sha256 idx,
  valid_num_words (zlen idx) = false -> indices_to_bytes sha256 idx = Err.
Proof. exact indices_bad_length. Qed.
Print Assumptions C14_bad_length_rejected.

(* (4) the shipped list: 2048 distinct words with distinct four-letter prefixes; the dict
   lookup of WordList returns i exactly for word i and for the first four letters of word
   i when it has more than four (no exceptions in the shipped list) *)
Theorem C14_prefix4_unique :
  zlen bip39_words = 2048 /\ NoDup bip39_words /\ NoDup (map (firstn 4) bip39_words) /\
  forall key i, wl_index bip39_words key = Ok i <-> designates key i.
Proof.
  split; [exact (proj1 bip39_good)|]. split; [exact bip39_nodup|].
  split; [exact bip39_prefix4_unique | exact bip39_lookup].
Qed.
Print Assumptions C14_prefix4_unique.

Theorem C14_normalize_full_word : forall key i, designates key i ->
  exists w, nth_error bip39_words (Z.to_nat i) = Some w /\ wl_normalize bip39_words key = Ok w.
Proof. exact bip39_normalize. Qed.
Print Assumptions C14_normalize_full_word.

(* (5) the vendored PBKDF2 object: any sequence of reads yields, concatenated, the
   RFC 8018 derived key of the total length *)
Theorem C14_pbkdf2_eq_rfc8018 :
  forall (prf : bytes -> bytes -> bytes) (hLen : Z),
  (forall k m, zlen (prf k m) = hLen) -> 0 < hLen ->
  forall P S c ns,
  1 <= c -> Forall (fun n => 0 <= n) ns -> zsum_l ns <= 4294967295 * hLen ->
  exists outs,
    (st <- pb_init P S c ;; pb_reads prf st ns) = Ok outs /\
    Forall2 (fun (o : bytes) n => zlen o = n) outs ns /\
    pbkdf2 prf hLen P S c (zsum_l ns) = Ok (concat outs).
Proof. exact pbkdf2_reads_eq_rfc8018. Qed.
Print Assumptions C14_pbkdf2_eq_rfc8018.

Theorem C14_pbkdf2_single_read :
  forall (prf : bytes -> bytes -> bytes) (hLen : Z),
  (forall k m, zlen (prf k m) = hLen) -> 0 < hLen ->
  forall P S c dkLen, 1 <= c -> 0 <= dkLen <= 4294967295 * hLen ->
  pbkdf2_read prf P S c dkLen = pbkdf2 prf hLen P S c dkLen.
Proof. exact pbkdf2_read_eq_rfc8018. Qed.
Print Assumptions C14_pbkdf2_single_read.

(* (6) seed = PBKDF2-HMAC-SHA512(normalized mnemonic, "mnemonic" || passphrase, 2048, 64);
   master secret and chain code = halves of HMAC-SHA512("Bitcoin seed", seed) *)
Theorem C14_seed_formula :
  forall sha256 (hmac_sha512 : bytes -> bytes -> bytes),
  (forall k m, zlen (hmac_sha512 k m) = 64) ->
  forall words m pw seed k c,
  from_mnemonic sha256 hmac_sha512 words m pw = Ok (seed, k, c) <->
  exists e norm,
    mnemonic_to_bytes sha256 words m = Ok e /\
    mapM (wl_normalize words) (split_ws m) = Ok norm /\
    pbkdf2 hmac_sha512 64 (join_sp norm) (s_mnemonic ++ pw) 2048 64 = Ok seed /\
    k = from_be (firstn 32 (hmac_sha512 s_bitcoin_seed seed)) /\
    c = skipn 32 (hmac_sha512 s_bitcoin_seed seed) /\
    1 <= k <= secp256k1_N - 1.
Proof. exact seed_formula. Qed.
Print Assumptions C14_seed_formula.

(* the normalized mnemonic consists of the full list words whatever spelling was used *)
Theorem C14_seed_uses_full_words : forall m idx,
  Forall2 designates (split_ws m) idx ->
  exists ws, Forall2 (fun i w => nth_error bip39_words (Z.to_nat i) = Some w) idx ws /\
             mapM (wl_normalize bip39_words) (split_ws m) = Ok ws.
Proof. exact bip39_normalized_words. Qed.
Print Assumptions C14_seed_uses_full_words.

Theorem C14_seed_requires_valid_mnemonic : forall sha256 hmac_sha512 words m pw,
  mnemonic_to_bytes sha256 words m = Err -> from_mnemonic sha256 hmac_sha512 words m pw = Err.
Proof. exact seed_requires_valid_mnemonic. Qed.
Print Assumptions C14_seed_requires_valid_mnemonic.

(* the self-check of secure_mnemonic never fails and the result encodes
   randbits ^ (masked extra_entropy ^ time) *)
Theorem C14_secure_mnemonic_ok : forall sha256, sha_ok sha256 -> forall nb extra rnd t,
  valid_num_bits nb = true -> 0 <= extra -> 0 <= rnd < 2 ^ nb -> 0 <= t < 2 ^ nb ->
  exists m, secure_mnemonic sha256 bip39_words nb extra rnd t = Ok m /\
    mnemonic_to_bytes sha256 bip39_words m =
      Ok (to_be (Z.to_nat (nb / 8))
                (Z.lxor rnd (Z.lxor (if len_bin extra >? nb + 2
                                     then Z.land extra (Z.shiftl 1 nb - 1) else extra) t))).
Proof. exact bip39_secure_mnemonic_ok. Qed.
Print Assumptions C14_secure_mnemonic_ok.

(* non-vacuity of the hypotheses *)
Example C14_sha_ok_inhabited : sha_ok (fun _ => [0]).
Proof. intros x. exists 0, []. split; [reflexivity | lia]. Qed.
Example C14_ent_ok_inhabited : ent_ok (repeatz 0 16).
Proof.
  split; [apply bytes_ok_repeatz; unfold byte_ok; lia|]. rewrite repeatz_length. now left.
Qed.
Example C14_prf_inhabited : forall k m : bytes, zlen ((fun _ _ => repeatz 0 20) k m) = 20.
Proof. reflexivity. Qed.
Example C14_designates_inhabited : designates [97; 98; 97; 110] 0.     (* "aban" -> abandon *)
Proof. apply bip39_lookup. vm_compute. reflexivity. Qed.

(* ======================================================================================
   Second layer: the clauses of the property at full strength against independent
   transcriptions of the standards, the remaining glue of the anchored code, and the
   outermost entry points.  Proofs in Proofs/{Bip39SpecP,C14Deep,Pbkdf2ObjP,MnemonicApiP,
   MnemonicHdP}.v.
   ====================================================================================== *)
From V Require Import Spec.Bip39S Proofs.Bip39SpecP Proofs.C14Deep Model.Pbkdf2Obj Proofs.Pbkdf2ObjP
  Model.MnemonicApi Proofs.MnemonicApiP.

(* (7) "encodes the entropy followed by its SHA-256 checksum bits as defined by BIP39":
   Spec/Bip39S.v is BIP-0039 on bit strings (entropy bits || first ENT/32 bits of the hash,
   cut into groups of 11 bits); the code computes, with big-integer shifts, exactly these
   indices and exactly this sentence, for every entropy of 16/20/24/28/32 bytes *)
Theorem C14_indices_eq_bip39_spec : forall sha256, sha_ok sha256 -> forall e, ent_ok e ->
  bytes_to_indices sha256 e (8 * zlen e) = Ok (bip39_indices sha256 e).
Proof. exact bip39_indices_eq_spec. Qed.
Print Assumptions C14_indices_eq_bip39_spec.

Theorem C14_mnemonic_eq_bip39_sentence : forall sha256, sha_ok sha256 -> forall e, ent_ok e ->
  bytes_to_mnemonic sha256 bip39_words e (8 * zlen e) = Ok (bip39_sentence sha256 bip39_words e).
Proof. exact bip39_mnemonic_eq_spec. Qed.
Print Assumptions C14_mnemonic_eq_bip39_sentence.

(* "a word sequence (full words or unique four-letter prefixes) is accepted exactly when its
   length is valid and its checksum matches", against the specification: the text is accepted
   with result s iff s has an admissible size and the words of the text designate, one by one,
   the words of the BIP-0039 sentence of s (this fixes the number of words and the checksum) *)
Theorem C14_accept_iff_bip39_spelling : forall sha256, sha_ok sha256 -> forall m s,
  mnemonic_to_bytes sha256 bip39_words m = Ok s <->
  ent_ok s /\ Forall2 designates (split_ws m) (bip39_indices sha256 s).
Proof. exact bip39_accept_spec. Qed.
Print Assumptions C14_accept_iff_bip39_spelling.

(* decode, then encode: the canonical sentence of the decoded entropy is the accepted text
   with every word normalised to the full list word *)
Theorem C14_decode_then_encode : forall sha256, sha_ok sha256 -> forall m s,
  mnemonic_to_bytes sha256 bip39_words m = Ok s ->
  exists norm, mapM (wl_normalize bip39_words) (split_ws m) = Ok norm /\
               bytes_to_mnemonic sha256 bip39_words s (8 * zlen s) = Ok (join_sp norm).
Proof. exact bip39_decode_encode. Qed.
Print Assumptions C14_decode_then_encode.

(* given one accepted text for s, another text decodes to s exactly when it spells the same words *)
Theorem C14_same_entropy_same_words : forall sha256, sha_ok sha256 -> forall m1 m2 s,
  mnemonic_to_bytes sha256 bip39_words m1 = Ok s ->
  (mnemonic_to_bytes sha256 bip39_words m2 = Ok s <->
   mapM (wl_normalize bip39_words) (split_ws m2) = mapM (wl_normalize bip39_words) (split_ws m1) /\
   mapM (wl_index bip39_words) (split_ws m2) = mapM (wl_index bip39_words) (split_ws m1)).
Proof. exact bip39_same_entropy_same_words. Qed.
Print Assumptions C14_same_entropy_same_words.

(* (8) the seed, the master key and the chain code depend on the designated words only *)
Theorem C14_seed_spelling_invariant : forall sha256 hmac_sha512 m1 m2 idx pw,
  Forall2 designates (split_ws m1) idx -> Forall2 designates (split_ws m2) idx ->
  from_mnemonic sha256 hmac_sha512 bip39_words m1 pw =
  from_mnemonic sha256 hmac_sha512 bip39_words m2 pw.
Proof. exact seed_spelling_invariant. Qed.
Print Assumptions C14_seed_spelling_invariant.

(* end to end from the entropy: any accepted spelling of the BIP-0039 sentence of e decodes to e
   and its seed is PBKDF2-HMAC-SHA512 (RFC 8018) of THE SENTENCE, salt "mnemonic" || passphrase,
   2048 rounds, 64 bytes; key and chain code by from_seed *)
Theorem C14_seed_from_entropy : forall sha256 (hmac_sha512 : bytes -> bytes -> bytes),
  sha_ok sha256 -> (forall k m, zlen (hmac_sha512 k m) = 64) ->
  forall e m pw, ent_ok e ->
  Forall2 designates (split_ws m) (bip39_indices sha256 e) ->
  mnemonic_to_bytes sha256 bip39_words m = Ok e /\
  exists seed,
    pbkdf2 hmac_sha512 64 (bip39_sentence sha256 bip39_words e) (s_mnemonic ++ pw) 2048 64 = Ok seed /\
    zlen seed = 64 /\
    from_mnemonic sha256 hmac_sha512 bip39_words m pw =
      ('(k, c) <- from_seed hmac_sha512 seed ;; Ok (seed, k, c)).
Proof. exact seed_from_entropy. Qed.
Print Assumptions C14_seed_from_entropy.

Theorem C14_seed_of_generated_mnemonic : forall sha256 (hmac_sha512 : bytes -> bytes -> bytes),
  sha_ok sha256 -> (forall k m, zlen (hmac_sha512 k m) = 64) ->
  forall e pw, ent_ok e ->
  exists m seed,
    bytes_to_mnemonic sha256 bip39_words e (8 * zlen e) = Ok m /\
    pbkdf2 hmac_sha512 64 m (s_mnemonic ++ pw) 2048 64 = Ok seed /\
    from_mnemonic sha256 hmac_sha512 bip39_words m pw =
      ('(k, c) <- from_seed hmac_sha512 seed ;; Ok (seed, k, c)).
Proof. exact seed_of_generated_mnemonic. Qed.
Print Assumptions C14_seed_of_generated_mnemonic.

(* the str -> UTF-8 step of PBKDF2._setup (from_mnemonic passes the normalised mnemonic as a
   str) changes nothing: the seed computed with the encoding step is the seed of the model used
   above, for every text; outside ASCII the step would matter *)
Theorem C14_seed_utf8_step : forall sha256 hmac_sha512 m pw,
  mnemonic_seed_utf8 sha256 hmac_sha512 bip39_words m pw =
  mnemonic_seed sha256 hmac_sha512 bip39_words m pw.
Proof. intros. exact (mnemonic_seed_utf8_eq sha256 hmac_sha512 bip39_words 2048 m pw bip39_good). Qed.
Print Assumptions C14_seed_utf8_step.

Theorem C14_utf8_ascii_identity : forall s, Forall (fun c => 0 <= c < 128) s -> utf8_encode s = Ok s.
Proof. exact utf8_ascii. Qed.
Print Assumptions C14_utf8_ascii_identity.

Theorem C14_utf8_non_ascii_differs : forall c s, 128 <= c -> utf8_encode (c :: s) <> Ok (c :: s).
Proof. exact utf8_non_ascii. Qed.
Print Assumptions C14_utf8_non_ascii_differs.

(* (9) PBKDF2(...).read(dkLen) = RFC 8018 on the whole domain dkLen >= 0, any iteration count:
   both error branches included ("iterations must be at least 1", "derived key too long") *)
Theorem C14_pbkdf2_whole_domain :
  forall (prf : bytes -> bytes -> bytes) (hLen : Z),
  (forall k m, zlen (prf k m) = hLen) -> 0 < hLen ->
  forall P S c dkLen, 0 <= dkLen ->
  pbkdf2_read prf P S c dkLen = pbkdf2 prf hLen P S c dkLen.
Proof. exact pbkdf2_read_eq_rfc8018_total. Qed.
Print Assumptions C14_pbkdf2_whole_domain.

(* a negative size is not refused (RFC 8018 / hashlib: error): nothing is derived, b"" is returned *)
Theorem C14_pbkdf2_negative_size : forall (prf : bytes -> bytes -> bytes) P S c n,
  1 <= c -> n < 0 -> pbkdf2_read prf P S c n = Ok [].
Proof. exact pbkdf2_read_negative. Qed.
Print Assumptions C14_pbkdf2_negative_size.

(* one object: any reads / hexreads, then close(), then anything: the reads are the consecutive
   pieces of the RFC key (hexread: their lower-case hex spelling), after close() every read
   raises and close() stays harmless *)
Theorem C14_pbkdf2_object_session :
  forall (prf : bytes -> bytes -> bytes) (hLen : Z),
  (forall k m, zlen (prf k m) = hLen) -> 0 < hLen ->
  forall P S c (rs : list (bool * Z)) ops',
  1 <= c -> Forall (fun n => 0 <= n) (map snd rs) ->
  zsum_l (map snd rs) <= 4294967295 * hLen ->
  exists outs,
    po_session prf P S c (map rd_op rs ++ PClose :: ops') =
      Ok (map (fun pb => rd_out (fst pb) (snd pb)) (combine rs outs)
          ++ Ok [] :: map closed_result ops') /\
    Forall2 (fun (o : bytes) n => zlen o = n) outs (map snd rs) /\
    pbkdf2 prf hLen P S c (zsum_l (map snd rs)) = Ok (concat outs).
Proof. exact pbkdf2_object_session. Qed.
Print Assumptions C14_pbkdf2_object_session.

(* (10) WordList[int] (Python negative indices) and `word in BIP39` *)
Theorem C14_wordlist_getitem_int : forall ws i w,
  wl_getitem_int ws i = Ok w <->
  - zlen ws <= i < zlen ws /\ nth_error ws (Z.to_nat (i mod zlen ws)) = Some w.
Proof. exact wl_getitem_int_spec. Qed.
Print Assumptions C14_wordlist_getitem_int.

Theorem C14_wordlist_contains : forall w,
  wl_contains bip39_words w = true <->
  exists i, 0 <= i < 2048 /\ nth_error bip39_words (Z.to_nat i) = Some w.
Proof. exact bip39_contains. Qed.
Print Assumptions C14_wordlist_contains.

(* bytes_to_mnemonic does not compare len(b) with num_bits (outside the property's quantifier:
   there num_bits = 8 * len): it returns a sentence for EVERY byte string, and when the lengths
   disagree that sentence never decodes back to b *)
Theorem C14_bytes_to_mnemonic_unchecked_length : forall sha256, sha_ok sha256 ->
  forall b nb, valid_num_bits nb = true ->
  exists m, bytes_to_mnemonic sha256 bip39_words b nb = Ok m /\
    (8 * zlen b <> nb -> mnemonic_to_bytes sha256 bip39_words m <> Ok b).
Proof. exact bytes_to_mnemonic_unchecked_length. Qed.
Print Assumptions C14_bytes_to_mnemonic_unchecked_length.

(* (11) the outermost entry points: HDPrivateKey.from_mnemonic(mnemonic, password, path, network,
   priv_version, pub_version), .xprv(), HDPrivateKey.generate — Model/MnemonicHd.v composes the
   seed with HDPrivateKey.from_seed / traverse / xprv of the BIP32 model of C08 (Model/Hd.v,
   Model/HdStr.v).  BIP-0032 master key generation is Spec/Bip32.v (master); the curve is any
   curve with the scalar laws of Proofs/GroupHyp.v whose order fits 32 bytes. *)
From V Require Model.Pecc Model.Base58 Model.Hd Model.HdStr Model.MnemonicHd Spec.Bip32 Proofs.GroupHyp
  Proofs.MnemonicHdP Proofs.ToyCurve Generated.HdVersions.

Theorem C14_from_mnemonic_master_xprv :
  forall C, GroupHyp.scalar_laws C -> Pecc.cn C < pow256 32 ->
  forall sha256 (hmac512 : bytes -> bytes -> bytes) (hash160 hash256 : bytes -> bytes),
  sha_ok sha256 -> (forall k m, zlen (hmac512 k m) = 64) -> (forall k m, bytes_ok (hmac512 k m)) ->
  forall e m pw net, ent_ok e ->
  Forall2 designates (split_ws m) (bip39_indices sha256 e) ->
  0 <= net < 4 ->
  exists seed v pv,
    pbkdf2 hmac512 64 (bip39_sentence sha256 bip39_words e) (s_mnemonic ++ pw) 2048 64 = Ok seed /\
    Hd.tbl_get HdVersions.tbl_xprv net = Ok v /\ Hd.tbl_get HdVersions.tbl_xpub net = Ok pv /\
    match Bip32.master C hmac512 seed with
    | Some (kM, cM) =>
        exists k,
          MnemonicHd.hd_from_mnemonic C sha256 hmac512 hash160 bip39_words m pw [109] net None None = Ok k /\
          Hd.sk k = kM /\ Hd.sk_cc k = cM /\ Hd.sk_depth k = 0 /\ Hd.sk_num k = 0 /\
          Hd.sk_pfp k = [0; 0; 0; 0] /\ Hd.sk_net k = net /\ Hd.sk_ver k = v /\ Hd.sk_pubver k = pv /\
          Pecc.pubkey C kM = Ok (Hd.sk_pt k) /\
          HdStr.xprv_str hash256 k None =
            Base58.encode_base58_checksum hash256
              (v ++ [0] ++ [0; 0; 0; 0] ++ [0; 0; 0; 0] ++ cM ++ 0 :: to_be 32 kM)
    | None =>
        MnemonicHd.hd_from_mnemonic C sha256 hmac512 hash160 bip39_words m pw [109] net None None = Err
    end.
Proof.
  intros C SL Hn sha256 hmac512 hash160 hash256 Hs Hl Hb.
  exact (MnemonicHdP.hd_from_mnemonic_master C SL Hn sha256 hmac512 hash160 hash256 Hs Hl Hb).
Qed.
Print Assumptions C14_from_mnemonic_master_xprv.

(* on secp256k1 itself, without any hypothesis about the curve: the seed -> (master key, chain
   code) step of from_mnemonic (from_seed in C14_seed_formula / C14_seed_from_entropy) is BIP-0032
   master key generation, invalid keys (0, >= n) refused *)
Theorem C14_from_seed_eq_bip32_master : forall (hmac512 : bytes -> bytes -> bytes),
  (forall k m, bytes_ok (hmac512 k m)) ->
  forall seed,
  from_seed hmac512 seed =
  match Bip32.master Pecc.secp256k1 hmac512 seed with Some (k, c) => Ok (k, c) | None => Err end.
Proof. exact MnemonicHdP.from_seed_eq_bip32_master. Qed.
Print Assumptions C14_from_seed_eq_bip32_master.

(* any other path: a traversal (BIP32 derivation, C08) from that root *)
Theorem C14_from_mnemonic_path :
  forall C sha256 hmac512 hash160 words m pw path net ver pv,
  MnemonicHd.hd_from_mnemonic C sha256 hmac512 hash160 words m pw path net ver pv =
  (root <- MnemonicHd.hd_from_mnemonic C sha256 hmac512 hash160 words m pw [109] net ver pv ;;
   Hd.traverse_priv C hmac512 hash160 root path).
Proof. exact MnemonicHdP.hd_from_mnemonic_path. Qed.
Print Assumptions C14_from_mnemonic_path.

Theorem C14_from_mnemonic_requires_valid :
  forall C sha256 hmac512 hash160 words m pw path net ver pv,
  mnemonic_to_bytes sha256 words m = Err ->
  MnemonicHd.hd_from_mnemonic C sha256 hmac512 hash160 words m pw path net ver pv = Err.
Proof. exact MnemonicHdP.hd_from_mnemonic_requires_valid. Qed.
Print Assumptions C14_from_mnemonic_requires_valid.

(* HDPrivateKey.generate: the mnemonic self-check never fails; the returned mnemonic spells the
   sentence of randbits(256) ^ (masked extra_entropy ^ clock) and the key is from_mnemonic of it
   (to which C14_from_mnemonic_master_xprv applies) *)
Theorem C14_generate_ok :
  forall C sha256 (hmac512 : bytes -> bytes -> bytes) (hash160 : bytes -> bytes), sha_ok sha256 ->
  forall pw extra rnd t net ver pv,
  0 <= extra -> 0 <= rnd < 2 ^ 256 -> 0 <= t < 2 ^ 256 ->
  let e := to_be 32 (Z.lxor rnd (Z.lxor (if len_bin extra >? 256 + 2
                                         then Z.land extra (Z.shiftl 1 256 - 1) else extra) t)) in
  exists m,
    secure_mnemonic sha256 bip39_words 256 extra rnd t = Ok m /\
    ent_ok e /\
    Forall2 designates (split_ws m) (bip39_indices sha256 e) /\
    MnemonicHd.hd_generate C sha256 hmac512 hash160 bip39_words pw extra rnd t net ver pv =
      (k <- MnemonicHd.hd_from_mnemonic C sha256 hmac512 hash160 bip39_words m pw [109] net ver pv ;;
       Ok (m, k)).
Proof.
  intros C sha256 hmac512 hash160 Hs. exact (MnemonicHdP.hd_generate_ok C sha256 hmac512 hash160 Hs).
Qed.
Print Assumptions C14_generate_ok.

(* ---- non-vacuity of the new hypotheses, on concrete data ---- *)

(* a toy hash (first byte 0xAB) and the entropy 01 02 ... 10: the specification's sentence is
   accepted and decodes to the entropy, also when spelled by four-letter prefixes *)
Definition ex_sha (_ : bytes) : bytes := [171; 0].
Definition ex_ent : bytes := [1; 2; 3; 4; 5; 6; 7; 8; 9; 10; 11; 12; 13; 14; 15; 16].
Example C14_ex_sha_ok : sha_ok ex_sha.
Proof. intros x. exists 171, [0]. split; [reflexivity | lia]. Qed.
Example C14_ex_ent_ok : ent_ok ex_ent.
Proof. split; [repeat constructor; unfold byte_ok; lia | cbn; tauto]. Qed.
Example C14_ex_indices : bip39_indices ex_sha ex_ent = [8; 128; 1544; 80; 771; 1056; 289; 523; 96; 835; 1054; 266].
Proof. vm_compute. reflexivity. Qed.
Example C14_ex_sentence_accepted :
  mnemonic_to_bytes ex_sha bip39_words (bip39_sentence ex_sha bip39_words ex_ent) = Ok ex_ent.
Proof. vm_compute. reflexivity. Qed.
Example C14_ex_prefix_spelling_designates :
  Forall2 designates
    (split_ws (join_sp (map (fun i => firstn 4 (nth (Z.to_nat i) bip39_words [])) (bip39_indices ex_sha ex_ent))))
    (bip39_indices ex_sha ex_ent).
Proof.
  apply (proj1 (C14_accept_iff_bip39_spelling ex_sha C14_ex_sha_ok _ ex_ent)). vm_compute. reflexivity.
Qed.

(* a PBKDF2 session on a toy PRF with 3-byte output *)
Definition ex_prf (k m : bytes) : bytes := [Z.of_nat (length k); Z.of_nat (length m) mod 256; 7].
Example C14_ex_prf_len : forall k m, zlen (ex_prf k m) = 3.
Proof. reflexivity. Qed.
Example C14_ex_session :
  po_session ex_prf [1] [2; 3] 2 (map rd_op [(false, 4); (true, 3)] ++ PClose :: [PRead 1; PClose; PHexRead 0]) =
  Ok [Ok [0; 5; 0; 0]; Ok [48; 53; 48; 48; 48; 48]; Ok []; Err; Ok []; Err].
Proof. vm_compute. reflexivity. Qed.

(* from_mnemonic on the toy curve of Proofs/ToyCurve.v (order 31) with a toy HMAC whose left half
   is the number 3: the scalar laws hold there, the master key is 3 *)
Definition ex_hmac (_ _ : bytes) : bytes := repeatz 0 31 ++ [3] ++ repeatz 9 32.
Example C14_ex_master_hyps :
  GroupHyp.scalar_laws ToyCurve.toy /\ Pecc.cn ToyCurve.toy < pow256 32 /\
  (forall k m, zlen (ex_hmac k m) = 64) /\ (forall k m, bytes_ok (ex_hmac k m)).
Proof.
  split; [exact ToyCurve.toy_scalar_laws|]. split; [vm_compute; reflexivity|].
  split; [reflexivity|]. intros k m. apply bytes_okb_ok. reflexivity.
Qed.
Example C14_ex_from_mnemonic_toy :
  match MnemonicHd.hd_from_mnemonic ToyCurve.toy ex_sha ex_hmac (fun _ => repeatz 0 20) bip39_words
          (bip39_sentence ex_sha bip39_words ex_ent) [80; 87] [109] 0 None None with
  | Ok k => (Hd.sk k =? 3) && beq (Hd.sk_cc k) (repeatz 9 32) && (Hd.sk_depth k =? 0)
  | Err => false
  end = true.
Proof. vm_compute. reflexivity. Qed.

(* The constants written in the model are the constants of the SOURCE: coq/Generated/SrcConsts.v is regenerated
   from /repo/buidl/*.py by harness/gen_coq_consts.py on every run; the statements are spelled out in
   Proofs/ConstsTie.v (pbkdf2_is_source_stmt). *)
From V Require Proofs.ConstsTie.
Theorem C14_constants_match_source : ConstsTie.pbkdf2_is_source_stmt.
Proof. exact ConstsTie.pbkdf2_is_source. Qed.
Print Assumptions C14_constants_match_source.
