(* Props/C14.v — BIP39 mnemonics encode entropy + checksum exactly, and seeds follow
   PBKDF2 (RFC 8018) and the BIP32 master split.

   sha256 is any function whose digest starts with a byte (sha_ok); HMAC (the PRF) is
   any function with a fixed positive output length.  The word list is the constant
   Generated.Wordlists.bip39_words, regenerated from buidl/bip39_words.txt on every run:
   the list-dependent facts (2048 words, lookup = position, four-letter prefixes unique)
   are re-proved by computation on the file as it is now (Proofs/WordlistP.v).
   Only statements here; proofs in Proofs/{MnemonicP,WordlistP,C14Glue,Pbkdf2P,SeedP}.v. *)
From V Require Import Base.Prelude Base.Ints Model.Mnemonic Model.Pbkdf2 Spec.Pbkdf2S
  Generated.Wordlists Proofs.MnemonicP Proofs.WordlistP Proofs.C14Glue Proofs.Pbkdf2P Proofs.SeedP.

Definition sha_ok (sha256 : bytes -> bytes) : Prop :=
  forall x, exists h t, sha256 x = h :: t /\ 0 <= h < 256.

(* (1) every entropy of 16/20/24/28/32 bytes round-trips, at the text level *)
Theorem C14_mnemonic_roundtrip : forall sha256, sha_ok sha256 -> forall e, ent_ok e ->
  exists m, bytes_to_mnemonic sha256 bip39_words e (8 * zlen e) = Ok m /\
            mnemonic_to_bytes sha256 bip39_words m = Ok e.
Proof. exact bip39_mnemonic_roundtrip. Qed.
Print Assumptions C14_mnemonic_roundtrip.

(* ... also when every word is spelled by its first four letters *)
Theorem C14_mnemonic_prefix_roundtrip : forall sha256, sha_ok sha256 -> forall e, ent_ok e ->
  exists ws, bytes_to_mnemonic sha256 bip39_words e (8 * zlen e) = Ok (join_sp ws) /\
             mnemonic_to_bytes sha256 bip39_words (join_sp (map (firstn 4) ws)) = Ok e.
Proof. exact bip39_mnemonic_prefix_roundtrip. Qed.
Print Assumptions C14_mnemonic_prefix_roundtrip.

(* ... and on the word-index level (no word list involved) *)
Theorem C14_indices_roundtrip : forall sha256, sha_ok sha256 -> forall e, ent_ok e ->
  exists idx, bytes_to_indices sha256 e (8 * zlen e) = Ok idx /\
              indices_to_bytes sha256 idx = Ok e /\
              Z.of_nat (length idx) = 3 * (zlen e / 4) /\
              Forall (fun i => 0 <= i < 2048) idx.
Proof. exact indices_roundtrip. Qed.
Print Assumptions C14_indices_roundtrip.

(* (2) layout: read as a base-2048 number the word indices are
   entropy || first ENT/32 bits of sha256(entropy); C14_digits_determine_words says that
   this number fixes the indices *)
Theorem C14_mnemonic_layout : forall sha256 e idx h t, ent_ok e ->
  sha256 e = h :: t -> 0 <= h < 256 ->
  bytes_to_indices sha256 e (8 * zlen e) = Ok idx ->
  from_digits idx = from_be e * 2 ^ (zlen e / 4) + h / 2 ^ (8 - zlen e / 4).
Proof. exact indices_layout. Qed.
Print Assumptions C14_mnemonic_layout.

Theorem C14_digits_determine_words : forall a b, length a = length b ->
  Forall (fun i => 0 <= i < 2048) a -> Forall (fun i => 0 <= i < 2048) b ->
  from_digits a = from_digits b -> a = b.
Proof. exact from_digits_inj. Qed.
Print Assumptions C14_digits_determine_words.

(* (3) a text is accepted exactly when every word designates a list position (full word
   or four-letter prefix of a longer word), the number of words is 12/15/18/21/24 and the
   checksum bits equal the leading bits of sha256 of the decoded entropy *)
Theorem C14_mnemonic_accept_iff : forall sha256 m s,
  mnemonic_to_bytes sha256 bip39_words m = Ok s <->
  exists idx,
    Forall2 designates (split_ws m) idx /\
    valid_num_words (zlen idx) = true /\
    s = to_be (Z.to_nat ((zlen idx * 11 - zlen idx / 3) / 8))
              (from_digits idx / 2 ^ (zlen idx / 3)) /\
    exists h t, sha256 s = h :: t /\
      from_digits idx mod 2 ^ (zlen idx / 3) = h / 2 ^ (8 - zlen idx / 3).
Proof. exact bip39_accept_iff. Qed.
Print Assumptions C14_mnemonic_accept_iff.

Theorem C14_unknown_word_rejected : forall sha256 m key,
  In key (split_ws m) -> (forall i, ~ designates key i) ->
  mnemonic_to_bytes sha256 bip39_words m = Err.
Proof. exact bip39_unknown_word_rejected. Qed.
Print Assumptions C14_unknown_word_rejected.

Theorem C14_bad_length_rejected : forall sha256 idx,
  valid_num_words (zlen idx) = false -> indices_to_bytes sha256 idx = Err.
Proof. exact indices_bad_length. Qed.
Print Assumptions C14_bad_length_rejected.

(* (4) the shipped list: 2048 distinct words with distinct four-letter prefixes; the dict
   lookup of WordList returns i exactly for word i and for the first four letters of word
   i when it has more than four (no exceptions in the shipped list) *)
Theorem C14_prefix4_unique :
  zlen bip39_words = 2048 /\ NoDup bip39_words /\ NoDup (map (firstn 4) bip39_words) /\
  forall key i, wl_index bip39_words key = Ok i <-> designates key i.
Proof.
  split; [exact (proj1 bip39_good)|]. split; [exact bip39_nodup|].
  split; [exact bip39_prefix4_unique | exact bip39_lookup].
Qed.
Print Assumptions C14_prefix4_unique.

Theorem C14_normalize_full_word : forall key i, designates key i ->
  exists w, nth_error bip39_words (Z.to_nat i) = Some w /\ wl_normalize bip39_words key = Ok w.
Proof. exact bip39_normalize. Qed.
Print Assumptions C14_normalize_full_word.

(* (5) the vendored PBKDF2 object: any sequence of reads yields, concatenated, the
   RFC 8018 derived key of the total length *)
Theorem C14_pbkdf2_eq_rfc8018 :
  forall (prf : bytes -> bytes -> bytes) (hLen : Z),
  (forall k m, zlen (prf k m) = hLen) -> 0 < hLen ->
  forall P S c ns,
  1 <= c -> Forall (fun n => 0 <= n) ns -> zsum_l ns <= 4294967295 * hLen ->
  exists outs,
    (st <- pb_init P S c ;; pb_reads prf st ns) = Ok outs /\
    Forall2 (fun (o : bytes) n => zlen o = n) outs ns /\
    pbkdf2 prf hLen P S c (zsum_l ns) = Ok (concat outs).
Proof. exact pbkdf2_reads_eq_rfc8018. Qed.
Print Assumptions C14_pbkdf2_eq_rfc8018.

Theorem C14_pbkdf2_single_read :
  forall (prf : bytes -> bytes -> bytes) (hLen : Z),
  (forall k m, zlen (prf k m) = hLen) -> 0 < hLen ->
  forall P S c dkLen, 1 <= c -> 0 <= dkLen <= 4294967295 * hLen ->
  pbkdf2_read prf P S c dkLen = pbkdf2 prf hLen P S c dkLen.
Proof. exact pbkdf2_read_eq_rfc8018. Qed.
Print Assumptions C14_pbkdf2_single_read.

(* (6) seed = PBKDF2-HMAC-SHA512(normalized mnemonic, "mnemonic" || passphrase, 2048, 64);
   master secret and chain code = halves of HMAC-SHA512("Bitcoin seed", seed) *)
Theorem C14_seed_formula :
  forall sha256 (hmac_sha512 : bytes -> bytes -> bytes),
  (forall k m, zlen (hmac_sha512 k m) = 64) ->
  forall words m pw seed k c,
  from_mnemonic sha256 hmac_sha512 words m pw = Ok (seed, k, c) <->
  exists e norm,
    mnemonic_to_bytes sha256 words m = Ok e /\
    mapM (wl_normalize words) (split_ws m) = Ok norm /\
    pbkdf2 hmac_sha512 64 (join_sp norm) (s_mnemonic ++ pw) 2048 64 = Ok seed /\
    k = from_be (firstn 32 (hmac_sha512 s_bitcoin_seed seed)) /\
    c = skipn 32 (hmac_sha512 s_bitcoin_seed seed) /\
    1 <= k <= secp256k1_N - 1.
Proof. exact seed_formula. Qed.
Print Assumptions C14_seed_formula.

(* the normalized mnemonic consists of the full list words whatever spelling was used *)
Theorem C14_seed_uses_full_words : forall m idx,
  Forall2 designates (split_ws m) idx ->
  exists ws, Forall2 (fun i w => nth_error bip39_words (Z.to_nat i) = Some w) idx ws /\
             mapM (wl_normalize bip39_words) (split_ws m) = Ok ws.
Proof. exact bip39_normalized_words. Qed.
Print Assumptions C14_seed_uses_full_words.

Theorem C14_seed_requires_valid_mnemonic : forall sha256 hmac_sha512 words m pw,
  mnemonic_to_bytes sha256 words m = Err -> from_mnemonic sha256 hmac_sha512 words m pw = Err.
Proof. exact seed_requires_valid_mnemonic. Qed.
Print Assumptions C14_seed_requires_valid_mnemonic.

(* the self-check of secure_mnemonic never fails and the result encodes
   randbits ^ (masked extra_entropy ^ time) *)
Theorem C14_secure_mnemonic_ok : forall sha256, sha_ok sha256 -> forall nb extra rnd t,
  valid_num_bits nb = true -> 0 <= extra -> 0 <= rnd < 2 ^ nb -> 0 <= t < 2 ^ nb ->
  exists m, secure_mnemonic sha256 bip39_words nb extra rnd t = Ok m /\
    mnemonic_to_bytes sha256 bip39_words m =
      Ok (to_be (Z.to_nat (nb / 8))
                (Z.lxor rnd (Z.lxor (if len_bin extra >? nb + 2
                                     then Z.land extra (Z.shiftl 1 nb - 1) else extra) t))).
Proof. exact bip39_secure_mnemonic_ok. Qed.
Print Assumptions C14_secure_mnemonic_ok.

(* non-vacuity of the hypotheses *)
Example C14_sha_ok_inhabited : sha_ok (fun _ => [0]).
Proof. intros x. exists 0, []. split; [reflexivity | lia]. Qed.
Example C14_ent_ok_inhabited : ent_ok (repeatz 0 16).
Proof.
  split; [apply bytes_ok_repeatz; unfold byte_ok; lia|]. rewrite repeatz_length. now left.
Qed.
Example C14_prf_inhabited : forall k m : bytes, zlen ((fun _ _ => repeatz 0 20) k m) = 20.
Proof. reflexivity. Qed.
Example C14_designates_inhabited : designates [97; 98; 97; 110] 0.     (* "aban" -> abandon *)
Proof. apply bip39_lookup. vm_compute. reflexivity. Qed.

(* The constants written in the model are the constants of the SOURCE: coq/Generated/SrcConsts.v is regenerated
   from /repo/buidl/*.py by harness/gen_coq_consts.py on every run; the statements are spelled out in
   Proofs/ConstsTie.v (pbkdf2_is_source_stmt). *)
From V Require Proofs.ConstsTie.
Theorem C14_constants_match_source : ConstsTie.pbkdf2_is_source_stmt.
Proof. exact ConstsTie.pbkdf2_is_source. Qed.
Print Assumptions C14_constants_match_source.
