(* Props/C03.v — secp256k1 group law, generic field / curve classes, SEC and x-only encodings.

   Structure of the argument (DESIGN.md §3 "Curve arithmetic"):
   * small fields / curves: everything by exhaustive kernel computation, the bound is in the statement;
   * any curve: the scalar algebra, the double-and-add correctness and the encodings are DERIVED from
     [group_laws C] (closure, commutativity, associativity, inverses, order n, p and n prime) — for
     secp256k1 those primitive facts are explicit hypotheses (never axioms), for the toy curve they
     are proved, so every theorem below is non-vacuous. *)
From Coq Require Import Znumtheory.
From V Require Import Base.Prelude Base.Ints Model.Pecc Proofs.GroupHyp Proofs.CurveSweep
  Proofs.ToyCurve Proofs.SmallFields Proofs.SmallFieldsAll Proofs.CurveAssoc Proofs.SmallCurvesAll
  Proofs.ScalarOfGroup Proofs.C03P Proofs.PeccEnc Proofs.CurveGeneral.

(* ------------------------------------------------------------------ small fields and curves *)

(* F_p through the FieldElement model is a field, for EVERY prime 3 <= p <= 101 (all elements, pairs,
   triples): commutative ring laws, results in range, Fermat inverse correct, a/b = a * b^(p-2);
   and `**2`, `**3` (used by Point) are plain products *)
Theorem C03_field_axioms_small : forall p, prime p -> 3 <= p <= 101 -> field_laws p /\ pow_small_ok p.
Proof. exact field_axioms_small_all. Qed.
Print Assumptions C03_field_axioms_small.

(* what FieldElement.__pow__ does at the exponent p-1 (after fix a0e55d9): 0 ** (p-1) = 0 *)
Theorem C03_pow_zero : forall C, 2 < cp C -> fpow C 0 (cp C - 1) = 0.
Proof. exact fpow_zero_pm1. Qed.
Print Assumptions C03_pow_zero.

Theorem C03_pow_fermat : forall C a, prime (cp C) -> a mod cp C <> 0 -> fpow C a (cp C - 1) = 1.
Proof. exact fpow_nonzero_pm1. Qed.
Print Assumptions C03_pow_fermat.

(* the points of y^2 = x^3 + 7 over F_p with the model's Point.__add__: closure (the constructor check
   never fires), commutativity, associativity (all triples), identity, inverse, P + P = 2P, for EVERY
   prime 5 <= p <= 101 except 7 (the cubic is singular over F_3 and F_7) *)
Theorem C03_curve_group_small : forall p, prime p -> 5 <= p <= 101 -> p <> 7 -> curve_laws (fcurve p).
Proof. exact curve_group_small_all. Qed.
Print Assumptions C03_curve_group_small.

Theorem C03_curve_pairs_F223 :
  prime 223 /\
  (forall P Q, valid (fcurve 223) P -> valid (fcurve 223) Q ->
     padd (fcurve 223) P Q = Ok (addT (fcurve 223) P Q) /\ valid (fcurve 223) (addT (fcurve 223) P Q)) /\
  (forall P Q, valid (fcurve 223) P -> valid (fcurve 223) Q ->
     addT (fcurve 223) P Q = addT (fcurve 223) Q P) /\
  (forall P, valid (fcurve 223) P ->
     valid (fcurve 223) (negT (fcurve 223) P) /\ addT (fcurve 223) P (negT (fcurve 223) P) = None) /\
  (forall P, valid (fcurve 223) P -> rmul_raw (fcurve 223) 2 P = Ok (addT (fcurve 223) P P)).
Proof. exact curve_pairs_F223. Qed.
Print Assumptions C03_curve_pairs_F223.

(* the toy curve y^2 = x^3 + 7 over F_43 (31 points, prime order) satisfies both hypothesis records *)
Theorem C03_toy_group_laws : group_laws toy.
Proof. exact toy_group_laws. Qed.
Print Assumptions C03_toy_group_laws.

Theorem C03_toy_scalar_laws : scalar_laws toy.
Proof. exact toy_scalar_laws. Qed.
Print Assumptions C03_toy_scalar_laws.

(* ------------------------------------------------------------------ any curve over a prime field *)

(* closure for EVERY curve record over a prime field (a, b arbitrary; so for secp256k1 given only
   `prime p`): the chord / tangent result satisfies the curve equation and is in range, i.e. the
   constructor check in Point.__add__ never fires on valid operands (Fermat inverse + field reasoning) *)
Theorem C03_add_closed : forall C, prime (cp C) -> 2 < cp C -> forall P Q,
  valid C P -> valid C Q -> exists R, padd C P Q = Ok R /\ valid C R.
Proof. exact add_closed. Qed.
Print Assumptions C03_add_closed.

(* inverse for every curve over a prime field: (x, -y) is a curve point and P + (-P) = infinity *)
Theorem C03_add_inverse_general : forall C, prime (cp C) -> 2 < cp C -> forall x y,
  valid C (Some (x, y)) ->
  valid C (Some (x, (- y) mod cp C)) /\ padd C (Some (x, y)) (Some (x, (- y) mod cp C)) = Ok None.
Proof. exact neg_general. Qed.
Print Assumptions C03_add_inverse_general.

(* identity: by definition of Point.__add__ *)
Theorem C03_add_identity : forall C P, padd C None P = Ok P /\ padd C P None = Ok P.
Proof. intros C [[x y]|]; split; reflexivity. Qed.
Print Assumptions C03_add_identity.

(* ------------------------------------------------------------------ any curve, from group_laws *)

(* Point.__rmul__ (LSB-first double-and-add, with the extra doubling after the last bit) computes the
   k-fold sum for every k >= 0 *)
Theorem C03_rmul_is_iterated_add : forall C, group_laws C -> forall k P, 0 <= k -> valid C P ->
  rmul_raw C k P = Ok (smul C (Z.to_nat k) P).
Proof. exact rmul_is_iterated_add. Qed.
Print Assumptions C03_rmul_is_iterated_add.

(* the derived scalar algebra used by the protocol proofs needs nothing beyond group_laws *)
Theorem C03_scalar_of_group : forall C, group_laws C -> scalar_laws C.
Proof. exact scalar_of_group. Qed.
Print Assumptions C03_scalar_of_group.

(* (a+b)P = aP + bP for ALL integers a, b: every operation returns Ok, the result is on the curve *)
Theorem C03_scalar_mul_add : forall C, group_laws C -> forall a b P, valid C P ->
  exists A B S, rmul C a P = Ok A /\ rmul C b P = Ok B /\ padd C A B = Ok S /\
                rmul C (a + b) P = Ok S /\ valid C S.
Proof. exact scalar_mul_add. Qed.
Print Assumptions C03_scalar_mul_add.

(* a(bP) = (ab)P *)
Theorem C03_scalar_mul_mul : forall C, group_laws C -> forall a b P, valid C P ->
  exists B R, rmul C b P = Ok B /\ rmul C a B = Ok R /\ rmul C (a * b) P = Ok R /\ valid C R.
Proof. exact scalar_mul_mul. Qed.
Print Assumptions C03_scalar_mul_mul.

(* nP = infinity; k and k + jn (negative k, k >= 2^256, ...) give the same point *)
Theorem C03_scalar_order : forall C, group_laws C -> forall k j P, valid C P ->
  rmul C (cn C) P = Ok None /\ rmul C (k + j * cn C) P = rmul C k P /\
  rmul C k P = rmul C (k mod cn C) P.
Proof. exact scalar_order. Qed.
Print Assumptions C03_scalar_order.

(* P + (-P) = infinity with -P = (x, p - y) = (-1)P = (n-1)P *)
Theorem C03_add_opposite : forall C, group_laws C -> forall x y, valid C (Some (x, y)) ->
  padd C (Some (x, y)) (Some (x, (- y) mod cp C)) = Ok None /\
  valid C (Some (x, (- y) mod cp C)) /\
  rmul C (-1) (Some (x, y)) = Ok (Some (x, (- y) mod cp C)) /\
  rmul C (cn C - 1) (Some (x, y)) = Ok (Some (x, (- y) mod cp C)).
Proof. exact add_opposite. Qed.
Print Assumptions C03_add_opposite.

(* P + P = 2P *)
Theorem C03_double_is_add_self : forall C, group_laws C -> forall P, valid C P ->
  exists D, padd C P P = Ok D /\ rmul C 2 P = Ok D /\ valid C D.
Proof. exact double_is_add_self. Qed.
Print Assumptions C03_double_is_add_self.

(* P + t (int shorthand used by tweaks and BIP32) = P + tG *)
Theorem C03_padd_int : forall C, group_laws C -> forall P t, valid C P ->
  exists R, padd_int C P t = Ok R /\ R = addT C P (mulT C t (G C)) /\ valid C R.
Proof. exact padd_int_ok. Qed.
Print Assumptions C03_padd_int.

(* ------------------------------------------------------------------ encodings *)
(* hypotheses: scalar_laws C (derivable from group_laws C), a = 0, p = 3 mod 4, p < 2^256 *)

(* parse_sec (sec P) = P and parse (sec P) = P for every finite curve point, both compressions *)
Theorem C03_sec_roundtrip : forall C, scalar_laws C -> ca C = 0 -> cp C mod 4 = 3 -> cp C < pow256 32 ->
  forall x y c s, valid C (Some (x, y)) -> sec (Some (x, y)) c = Ok s ->
  parse_sec C s = Ok (Some (x, y)) /\ parse_point C s = Ok (Some (x, y)).
Proof.
  intros C SL Ha H4 H256 x y c s Hv Hs. split.
  - exact (parse_sec_sec C SL Ha H4 H256 x y c s Hv Hs).
  - exact (parse_point_sec C SL Ha H4 H256 x y c s Hv Hs).
Qed.
Print Assumptions C03_sec_roundtrip.

(* parse_xonly (xonly P) is the even-y point with the same x (x = 0 is read as infinity by the code) *)
Theorem C03_xonly_roundtrip : forall C, scalar_laws C -> ca C = 0 -> cp C mod 4 = 3 -> cp C < pow256 32 ->
  forall x y, valid C (Some (x, y)) -> x <> 0 ->
  parse_xonly C (xonly (Some (x, y))) = Ok (Some (x, if y mod 2 =? 0 then y else cp C - y)).
Proof. exact parse_xonly_xonly. Qed.
Print Assumptions C03_xonly_roundtrip.

(* whatever parse_sec accepts is a valid curve point with the encoded coordinates / prefix parity *)
Theorem C03_parse_sec_sound : forall C, cp C mod 4 = 3 -> forall b P,
  parse_sec C b = Ok P ->
  valid C P /\ exists x y, P = Some (x, y) /\
    ((length b = 65%nat /\ b = 4 :: firstn 64 (skipn 1 b) /\
      x = from_be (firstn 32 (skipn 1 b)) /\ y = from_be (skipn 33 b)) \/
     (length b = 33%nat /\ exists pre, (pre = 2 \/ pre = 3) /\ b = pre :: skipn 1 b /\
      x = from_be (skipn 1 b) /\ y mod 2 = pre - 2)).
Proof. exact parse_sec_sound. Qed.
Print Assumptions C03_parse_sec_sound.

Theorem C03_parse_xonly_sound : forall C, scalar_laws C -> cp C mod 4 = 3 -> forall b P,
  parse_xonly C b = Ok P ->
  valid C P /\ (P = None /\ from_be b = 0 \/ exists y, P = Some (from_be b, y) /\ y mod 2 = 0).
Proof. exact parse_xonly_sound. Qed.
Print Assumptions C03_parse_xonly_sound.

(* other lengths / prefixes are rejected *)
Theorem C03_parse_rejects_length : forall C b,
  length b <> 32%nat -> length b <> 33%nat -> length b <> 65%nat -> parse_point C b = Err.
Proof. exact parse_point_rejects_length. Qed.
Print Assumptions C03_parse_rejects_length.

Theorem C03_parse_sec_rejects_prefix : forall C pre rest,
  ~ (pre = 4 /\ length rest = 64%nat) -> ~ ((pre = 2 \/ pre = 3) /\ length rest = 32%nat) ->
  parse_sec C (pre :: rest) = Err.
Proof. exact parse_sec_rejects_prefix. Qed.
Print Assumptions C03_parse_sec_rejects_prefix.

(* ------------------------------------------------------------------ the hypotheses are satisfiable *)
Example toy_pow256 : cp toy < pow256 32. Proof. reflexivity. Qed.
Example toy_sec_roundtrip := C03_sec_roundtrip toy toy_scalar_laws eq_refl eq_refl toy_pow256.
Example toy_xonly_roundtrip := C03_xonly_roundtrip toy toy_scalar_laws eq_refl eq_refl toy_pow256.
Example toy_parse_sec_sound := C03_parse_sec_sound toy eq_refl.
Example toy_scalar_mul_add := C03_scalar_mul_add toy toy_group_laws.
Example toy_scalar_of_group : scalar_laws toy := C03_scalar_of_group toy toy_group_laws.
Example toy_3G_plus_5G : rmul toy 8 (G toy) = (A <- rmul toy 3 (G toy) ;; B <- rmul toy 36 (G toy) ;; padd toy A B).
Proof. vm_compute. reflexivity. Qed.

(* The constants written in the model are the constants of the SOURCE: coq/Generated/SrcConsts.v is regenerated
   from /repo/buidl/*.py by harness/gen_coq_consts.py on every run; the statements are spelled out in
   Proofs/ConstsTie.v (secp256k1_is_source_stmt). *)
From V Require Proofs.ConstsTie.
Theorem C03_constants_match_source : ConstsTie.secp256k1_is_source_stmt.
Proof. exact ConstsTie.secp256k1_is_source. Qed.
Print Assumptions C03_constants_match_source.

(* ================================================================================================= *)
(* Deepening pass: laws that follow from the formulas alone (any curve over a prime field), minimal     *)
(* premises of group_laws, encodings without any group-law premise, converses of the parsers, the      *)
(* object layer (== / !=, operands of two fields / curves, constructor), combine, compositions.        *)
(* ================================================================================================= *)
From V Require Import Model.PeccObj Proofs.CurveLawsP Proofs.EncGeneralP Proofs.Secp256k1P Proofs.SecpEncP
  Proofs.PeccObjP Proofs.C03ExtP.
From Coq Require Import Permutation.

(* ------------------------------------------------------------------ any curve over a prime field *)

(* commutativity of Point.__add__ — value AND exception behaviour — from the chord formula alone *)
Theorem C03_add_comm_general : forall C, prime (cp C) -> 2 < cp C -> forall P Q,
  valid C P -> valid C Q -> padd C P Q = padd C Q P.
Proof. exact padd_comm. Qed.
Print Assumptions C03_add_comm_general.

(* closure in the totalised form used by group_laws *)
Theorem C03_add_ok_general : forall C, prime (cp C) -> 2 < cp C -> forall P Q,
  valid C P -> valid C Q -> padd C P Q = Ok (addT C P Q) /\ valid C (addT C P Q).
Proof. exact add_ok_general. Qed.
Print Assumptions C03_add_ok_general.

(* a quadratic has two roots: the points above one x are P and -P *)
Theorem C03_same_x_general : forall C, prime (cp C) -> 2 < cp C -> forall x y1 y2,
  valid C (Some (x, y1)) -> valid C (Some (x, y2)) -> y2 = y1 \/ y2 = (- y1) mod cp C.
Proof. exact same_x_general. Qed.
Print Assumptions C03_same_x_general.

(* inverses are unique: P + Q = infinity exactly when Q = -P *)
Theorem C03_add_inf_iff : forall C, prime (cp C) -> 2 < cp C -> forall P Q,
  valid C P -> valid C Q -> (padd C P Q = Ok None <-> Q = negT C P).
Proof. exact padd_inf_iff. Qed.
Print Assumptions C03_add_inf_iff.

(* the y = 0 doubling case (fix 6d42726): P + P = infinity exactly for infinity and the points with y = 0 *)
Theorem C03_double_inf_iff : forall C, prime (cp C) -> 2 < cp C -> forall P, valid C P ->
  (padd C P P = Ok None <-> P = None \/ exists x, P = Some (x, 0)).
Proof. exact double_inf_iff. Qed.
Print Assumptions C03_double_inf_iff.

(* the double-and-add loop needs no group law to stay on the curve: k*P never raises, every integer k *)
Theorem C03_rmul_closed_general : forall C, prime (cp C) -> 2 < cp C -> forall k P, 0 < cn C ->
  valid C P -> exists R, rmul C k P = Ok R /\ valid C R.
Proof. exact rmul_closed. Qed.
Print Assumptions C03_rmul_closed_general.

Theorem C03_rmul_raw_closed_general : forall C, prime (cp C) -> 2 < cp C -> forall k P, 0 <= k ->
  valid C P -> exists R, rmul_raw C k P = Ok R /\ valid C R.
Proof. exact rmul_raw_closed. Qed.
Print Assumptions C03_rmul_raw_closed_general.

(* 0*P, 1*P, 2*P = P + P through the loop, closure only *)
Theorem C03_rmul_small : forall C, prime (cp C) -> 2 < cp C -> forall P, valid C P ->
  rmul_raw C 0 P = Ok None /\ rmul_raw C 1 P = Ok P /\ rmul_raw C 2 P = padd C P P.
Proof.
  intros C Hp Hp2 P HP. split; [reflexivity|]. split; [exact (rmul_raw_1 C Hp Hp2 P HP)|exact (rmul_raw_2 C Hp Hp2 P HP)].
Qed.
Print Assumptions C03_rmul_small.

(* double-and-add = k-fold sum with ASSOCIATIVITY as the only premise beyond prime p *)
Theorem C03_rmul_is_iterated_add_assoc : forall C, prime (cp C) -> 2 < cp C ->
  (forall P Q R, valid C P -> valid C Q -> valid C R -> addT C (addT C P Q) R = addT C P (addT C Q R)) ->
  forall k P, 0 <= k -> valid C P -> rmul_raw C k P = Ok (smul C (Z.to_nat k) P).
Proof. exact rmul_is_iterated_add_assoc. Qed.
Print Assumptions C03_rmul_is_iterated_add_assoc.

(* the whole record group_laws C from: p, n prime; G on the curve; associativity; n kills every point.
   Closure, commutativity, inverses and "G has order exactly n" are DERIVED. *)
Theorem C03_group_laws_minimal : forall C, prime (cp C) -> 2 < cp C ->
  (forall P Q R, valid C P -> valid C Q -> valid C R -> addT C (addT C P Q) R = addT C P (addT C Q R)) ->
  prime (cn C) -> 2 < cn C -> valid C (G C) ->
  (forall P, valid C P -> rmul_raw C (cn C) P = Ok None) -> group_laws C.
Proof. exact group_laws_minimal. Qed.
Print Assumptions C03_group_laws_minimal.

(* ------------------------------------------------------------------ the secp256k1 constants *)

(* decided in the kernel: G is on the curve; p = 3 mod 4; p < 2^256 *)
Theorem C03_secp_constants : valid secp256k1 (G secp256k1) /\ cp secp256k1 mod 4 = 3 /\
  cp secp256k1 < pow256 32 /\ ca secp256k1 = 0 /\ cn secp256k1 < cp secp256k1.
Proof. exact (conj secp_G_valid (conj secp_p_mod4 (conj secp_p_lt256 (conj secp_a0 secp_n_lt_p)))). Qed.
Print Assumptions C03_secp_constants.

(* no point of order two and no point with x = 0 (power-residue criterion; premise: prime p only) *)
Theorem C03_secp_no_y0_no_x0 : prime (cp secp256k1) -> forall x y, valid secp256k1 (Some (x, y)) ->
  y <> 0 /\ x <> 0.
Proof. intros Hp x y HV. split; [exact (secp_no_y0 Hp x y HV)|exact (secp_no_x0 Hp x y HV)]. Qed.
Print Assumptions C03_secp_no_y0_no_x0.

(* results lie on the curve: sums and all scalar multiples, premise prime p only *)
Theorem C03_secp_closed : prime (cp secp256k1) -> forall P Q k t, valid secp256k1 P -> valid secp256k1 Q ->
  (padd secp256k1 P Q = Ok (addT secp256k1 P Q) /\ valid secp256k1 (addT secp256k1 P Q)) /\
  padd secp256k1 P Q = padd secp256k1 Q P /\
  (exists R, rmul secp256k1 k P = Ok R /\ valid secp256k1 R) /\
  (exists R, padd_int secp256k1 P t = Ok R /\ valid secp256k1 R).
Proof.
  intros Hp P Q k t HP HQ. split; [exact (secp_add_ok Hp P Q HP HQ)|]. split; [exact (secp_add_comm Hp P Q HP HQ)|].
  split; [exact (secp_rmul_closed Hp k P HP)|exact (secp_padd_int_closed Hp P t HP)].
Qed.
Print Assumptions C03_secp_closed.

(* what is left to assume for secp256k1 *)
Theorem C03_secp_group_laws_minimal : prime (cp secp256k1) -> prime (cn secp256k1) ->
  (forall P Q R, valid secp256k1 P -> valid secp256k1 Q -> valid secp256k1 R ->
     addT secp256k1 (addT secp256k1 P Q) R = addT secp256k1 P (addT secp256k1 Q R)) ->
  (forall P, valid secp256k1 P -> rmul_raw secp256k1 (cn secp256k1) P = Ok None) ->
  group_laws secp256k1.
Proof. exact secp_group_laws_minimal. Qed.
Print Assumptions C03_secp_group_laws_minimal.

(* ------------------------------------------------------------------ encodings without a group-law premise *)

(* S256Field.sqrt for p = 3 mod 4: sound, complete, Err exactly on the non-residues *)
Theorem C03_sqrt_spec : forall C, prime (cp C) -> cp C mod 4 = 3 -> forall a,
  (forall s, fsqrt C a = Ok s -> 0 <= s < cp C /\ (s * s) mod cp C = a) /\
  (0 <= a < cp C -> (exists y, (y * y) mod cp C = a) -> exists s, fsqrt C a = Ok s) /\
  (0 <= a < cp C -> (fsqrt C a = Err <-> forall y, (y * y) mod cp C <> a)) /\
  (~ 0 <= a < cp C -> fsqrt C a = Err).
Proof.
  intros C Hp H4 a. split; [intros s; exact (fsqrt_sound C Hp H4 a s)|]. split.
  - intros Hr Hy. destruct (fsqrt_complete C Hp H4 a Hr Hy) as (s & E & _). eauto.
  - split; [exact (fsqrt_err_iff C Hp H4 a)|exact (fsqrt_out_of_range C Hp H4 a)].
Qed.
Print Assumptions C03_sqrt_spec.

(* SEC round trip, premises: prime p, a = 0, p = 3 mod 4, p < 2^256; y <> 0 needed for the compressed form only *)
Theorem C03_sec_roundtrip_general : forall C, prime (cp C) -> ca C = 0 -> cp C mod 4 = 3 -> cp C < pow256 32 ->
  forall x y c s, valid C (Some (x, y)) -> (c = true -> y <> 0) -> sec (Some (x, y)) c = Ok s ->
  parse_sec C s = Ok (Some (x, y)) /\ parse_point C s = Ok (Some (x, y)).
Proof.
  intros C Hp Ha H4 H256 x y c s HV Hy Hs. split.
  - exact (parse_sec_sec_gen C Hp Ha H4 H256 x y c s HV Hy Hs).
  - exact (parse_point_sec_gen C Hp Ha H4 H256 x y c s HV Hy Hs).
Qed.
Print Assumptions C03_sec_roundtrip_general.

(* ... and that side condition is sharp: the compressed encoding of a point with y = 0 is rejected by parse_sec *)
Theorem C03_sec_compressed_y0_rejected : forall C, prime (cp C) -> ca C = 0 -> cp C mod 4 = 3 -> cp C < pow256 32 ->
  forall x, valid C (Some (x, 0)) ->
  sec (Some (x, 0)) true = Ok (2 :: to_be 32 x) /\ parse_sec C (2 :: to_be 32 x) = Err.
Proof. exact parse_sec_compressed_y0_rejected. Qed.
Print Assumptions C03_sec_compressed_y0_rejected.

(* x-only round trip (y = 0 allowed) *)
Theorem C03_xonly_roundtrip_general : forall C, prime (cp C) -> ca C = 0 -> cp C mod 4 = 3 -> cp C < pow256 32 ->
  forall x y, valid C (Some (x, y)) -> x <> 0 ->
  parse_xonly C (xonly (Some (x, y))) = Ok (Some (x, even_lift C y)).
Proof. exact parse_xonly_xonly_gen. Qed.
Print Assumptions C03_xonly_roundtrip_general.

(* CONVERSE of the SEC round trip: parse_sec accepts exactly the SEC encodings of curve points, and an
   accepted string is the canonical encoding of the returned point *)
Theorem C03_parse_sec_iff : forall C, prime (cp C) -> ca C = 0 -> cp C mod 4 = 3 -> cp C < pow256 32 ->
  forall b P, bytes_ok b ->
  (parse_sec C b = Ok P <->
   exists x y c, P = Some (x, y) /\ valid C P /\ sec P c = Ok b /\ (c = true -> y <> 0)).
Proof. exact parse_sec_iff. Qed.
Print Assumptions C03_parse_sec_iff.

Theorem C03_parse_sec_err_iff : forall C, prime (cp C) -> ca C = 0 -> cp C mod 4 = 3 -> cp C < pow256 32 ->
  forall b, bytes_ok b ->
  (parse_sec C b = Err <->
   forall x y c, valid C (Some (x, y)) -> (c = true -> y <> 0) -> sec (Some (x, y)) c <> Ok b).
Proof. exact parse_sec_err_iff. Qed.
Print Assumptions C03_parse_sec_err_iff.

Theorem C03_parse_sec_canonical : forall C, cp C mod 4 = 3 -> forall b P,
  bytes_ok b -> parse_sec C b = Ok P -> exists c, sec P c = Ok b.
Proof. exact parse_sec_canonical. Qed.
Print Assumptions C03_parse_sec_canonical.

(* CONVERSE for x-only on 32 bytes *)
Theorem C03_parse_xonly_iff : forall C, prime (cp C) -> ca C = 0 -> cp C mod 4 = 3 -> cp C < pow256 32 ->
  forall b P, length b = 32%nat -> bytes_ok b -> from_be b <> 0 ->
  (parse_xonly C b = Ok P <-> exists x y, P = Some (x, y) /\ valid C P /\ y mod 2 = 0 /\ xonly P = b).
Proof. exact parse_xonly_iff. Qed.
Print Assumptions C03_parse_xonly_iff.

(* rejection by parse_xonly: x >= p, and x that is not the abscissa of a curve point *)
Theorem C03_parse_xonly_rejects : forall C, prime (cp C) -> ca C = 0 -> cp C mod 4 = 3 -> forall b,
  (cp C <= from_be b -> parse_xonly C b = Err) /\
  (from_be b <> 0 -> (forall y, ~ valid C (Some (from_be b, y))) -> parse_xonly C b = Err).
Proof.
  intros C Hp Ha H4 b. split; [exact (parse_xonly_rejects_range C Hp Ha H4 b)|exact (parse_xonly_rejects C Hp H4 b)].
Qed.
Print Assumptions C03_parse_xonly_rejects.

(* parse_xonly itself does not look at the length (leading zero bytes are ignored); S256Point.parse does *)
Theorem C03_parse_xonly_leading_zero : forall C b, parse_xonly C (0 :: b) = parse_xonly C b.
Proof. exact parse_xonly_leading_zero. Qed.
Print Assumptions C03_parse_xonly_leading_zero.

(* S256Point.parse: whatever is accepted is a curve point and the input is ITS canonical encoding *)
Theorem C03_parse_sound_canonical : forall C, prime (cp C) -> cp C mod 4 = 3 -> forall b P,
  bytes_ok b -> parse_point C b = Ok P ->
  valid C P /\ ((length b = 32%nat /\ xonly P = b) \/ (P <> None /\ exists c, sec P c = Ok b)).
Proof.
  intros C Hp H4 b P B H. split; [exact (parse_point_valid C Hp H4 b P H)|exact (parse_point_canonical C Hp H4 b P B H)].
Qed.
Print Assumptions C03_parse_sound_canonical.

(* layout of sec / xonly: lengths, byte range, prefix 2 + parity / 4; exceptions exactly on infinity *)
Theorem C03_encoder_layout : forall P c,
  (P = None -> sec P c = Err) /\
  (forall x y, P = Some (x, y) -> exists b, sec P c = Ok b /\ bytes_ok b /\
     length b = (if c then 33 else 65)%nat /\
     b = (if c then (2 + y mod 2) :: to_be 32 x else 4 :: to_be 32 x ++ to_be 32 y)) /\
  length (xonly P) = 32%nat /\ bytes_ok (xonly P).
Proof.
  intros P c. destruct (sec_layout P c) as [A B]. destruct (xonly_layout P) as [L O]. auto.
Qed.
Print Assumptions C03_encoder_layout.

(* ---- the encodings clause on secp256k1 itself, premise: prime p ---- *)
Theorem C03_secp_sec_roundtrip : prime (cp secp256k1) -> forall x y c s,
  valid secp256k1 (Some (x, y)) -> sec (Some (x, y)) c = Ok s ->
  parse_sec secp256k1 s = Ok (Some (x, y)) /\ parse_point secp256k1 s = Ok (Some (x, y)).
Proof. exact secp_sec_roundtrip. Qed.
Print Assumptions C03_secp_sec_roundtrip.

(* every valid point INCLUDING infinity: the zero-bytes convention never collides with a curve point *)
Theorem C03_secp_xonly_roundtrip : prime (cp secp256k1) -> forall P, valid secp256k1 P ->
  parse_xonly secp256k1 (xonly P) = Ok (SecpEncP.evenP P) /\ parse_point secp256k1 (xonly P) = Ok (SecpEncP.evenP P).
Proof. exact secp_xonly_roundtrip. Qed.
Print Assumptions C03_secp_xonly_roundtrip.

Theorem C03_secp_parse_sec_iff : prime (cp secp256k1) -> forall b P, bytes_ok b ->
  (parse_sec secp256k1 b = Ok P <-> exists x y c, P = Some (x, y) /\ valid secp256k1 P /\ sec P c = Ok b).
Proof. exact secp_parse_sec_iff. Qed.
Print Assumptions C03_secp_parse_sec_iff.

Theorem C03_secp_parse_sec_rejects : prime (cp secp256k1) -> forall b, bytes_ok b ->
  (parse_sec secp256k1 b = Err <-> forall x y c, valid secp256k1 (Some (x, y)) -> sec (Some (x, y)) c <> Ok b).
Proof. exact secp_parse_sec_rejects. Qed.
Print Assumptions C03_secp_parse_sec_rejects.

Theorem C03_secp_parse_xonly_iff : prime (cp secp256k1) -> forall b P, length b = 32%nat -> bytes_ok b ->
  (parse_xonly secp256k1 b = Ok P <->
   valid secp256k1 P /\ (forall x y, P = Some (x, y) -> y mod 2 = 0) /\ xonly P = b).
Proof. exact secp_parse_xonly_iff. Qed.
Print Assumptions C03_secp_parse_xonly_iff.

Theorem C03_secp_parse_injective : prime (cp secp256k1) -> forall b1 b2 P,
  bytes_ok b1 -> bytes_ok b2 -> length b1 = length b2 ->
  parse_point secp256k1 b1 = Ok P -> parse_point secp256k1 b2 = Ok P -> b1 = b2.
Proof. exact secp_parse_injective. Qed.
Print Assumptions C03_secp_parse_injective.

(* ------------------------------------------------------------------ from group_laws: layers connected *)

(* generic Point.__rmul__ (no reduction) and S256Point.__rmul__ (coefficient mod n) agree for k >= 0 *)
Theorem C03_rmul_raw_eq_rmul : forall C, group_laws C -> forall k P, 0 <= k -> valid C P ->
  rmul_raw C k P = rmul C k P /\ rmul_raw C k P = rmul_raw C (k mod cn C) P.
Proof. intros C GL k P Hk HP. split; [exact (rmul_raw_eq_rmul C GL k P Hk HP)|exact (rmul_raw_mod C GL k P Hk HP)]. Qed.
Print Assumptions C03_rmul_raw_eq_rmul.

Theorem C03_even_point : forall C, group_laws C -> forall x y, valid C (Some (x, y)) ->
  even_point C (Some (x, y)) = Ok (Some (x, even_lift C y)) /\
  valid C (Some (x, even_lift C y)) /\ even_lift C y mod 2 = 0 /\
  xonly (Some (x, even_lift C y)) = xonly (Some (x, y)).
Proof. exact even_point_spec. Qed.
Print Assumptions C03_even_point.

Theorem C03_even_point_idem : forall C, group_laws C -> forall x y, valid C (Some (x, y)) ->
  exists E, even_point C (Some (x, y)) = Ok E /\ even_point C E = Ok E.
Proof. exact even_point_idem. Qed.
Print Assumptions C03_even_point_idem.

Theorem C03_parity_and_infinity : forall C x y,
  parity (Some (x, y)) = Ok (y mod 2) /\ parity None = Err /\ even_point C None = Err /\
  sec None true = Err /\ sec None false = Err /\ xonly None = to_be 32 0.
Proof. intros. repeat split. Qed.
Print Assumptions C03_parity_and_infinity.

(* parse(P.xonly()) = P.even_point() *)
Theorem C03_parse_xonly_is_even_point : forall C, group_laws C -> ca C = 0 -> cp C mod 4 = 3 ->
  cp C < pow256 32 -> forall x y, valid C (Some (x, y)) -> x <> 0 ->
  parse_point C (xonly (Some (x, y))) = even_point C (Some (x, y)).
Proof. exact parse_xonly_is_even_point. Qed.
Print Assumptions C03_parse_xonly_is_even_point.

(* PrivateKey(secret).point -> sec -> parse: the public point comes back, it is on the curve and not infinity *)
Theorem C03_pubkey_sec_parse : forall C, group_laws C -> ca C = 0 -> cp C mod 4 = 3 -> cp C < pow256 32 ->
  forall secret c P, pubkey C secret = Ok P ->
  valid C P /\ P <> None /\ exists s, sec P c = Ok s /\ parse_point C s = Ok P /\ parse_sec C s = Ok P.
Proof. exact pubkey_sec_parse. Qed.
Print Assumptions C03_pubkey_sec_parse.

(* keys that travelled as bytes add like their secrets *)
Theorem C03_encoded_keys_add : forall C, group_laws C -> ca C = 0 -> cp C mod 4 = 3 -> cp C < pow256 32 ->
  forall a b c1 c2 A B sa sb,
  pubkey C a = Ok A -> pubkey C b = Ok B -> sec A c1 = Ok sa -> sec B c2 = Ok sb ->
  exists S, (A' <- parse_point C sa ;; B' <- parse_point C sb ;; padd C A' B') = Ok S /\
            rmul C (a + b) (G C) = Ok S /\ valid C S.
Proof. exact encoded_keys_add. Qed.
Print Assumptions C03_encoded_keys_add.

(* S256Point.combine: the sum of the list, never an exception on curve points, IndexError on [], order-independent *)
Theorem C03_combine : forall C, group_laws C -> forall ps, Forall (valid C) ps ->
  (ps <> [] -> combine C ps = Ok (gsum C ps) /\ valid C (gsum C ps)) /\
  combine C [] = Err /\
  (forall qs, Permutation ps qs -> combine C ps = combine C qs).
Proof.
  intros C GL ps F. split; [intros H; exact (combine_ok C GL ps H F)|]. split; [reflexivity|].
  intros qs HP. exact (combine_perm C GL ps qs HP F).
Qed.
Print Assumptions C03_combine.

(* ------------------------------------------------------------------ the object layer *)

(* == / != of FieldElement (either side may be None): equality of (num, prime); != is the negation *)
Theorem C03_fe_eq : forall a b, (ofe_eqb a b = true <-> a = b) /\ ofe_neb a b = negb (ofe_eqb a b).
Proof. intros a b. split; [exact (ofe_eqb_iff a b)|reflexivity]. Qed.
Print Assumptions C03_fe_eq.

(* elements of two fields: never equal, + - * / raise *)
Theorem C03_fe_two_fields : forall x p y q, p <> q ->
  fe_eqb (x, p) (y, q) = false /\ fe_neb (x, p) (y, q) = true /\
  fe_add (x, p) (y, q) = Err /\ fe_sub (x, p) (y, q) = Err /\
  fe_mul (x, p) (y, q) = Err /\ fe_div (x, p) (y, q) = Err.
Proof.
  intros x p y q H. destruct (fe_eq_other_field x p y q H) as [E1 E2].
  destruct (fe_ops_mixed x p y q H) as (A & B & M & D). auto 7.
Qed.
Print Assumptions C03_fe_two_fields.

(* Point.__eq__ / __ne__: equality of coordinates and curve *)
Theorem C03_point_eq : forall P Q, (gp_eqb P Q = true <-> P = Q) /\ gp_neb P Q = negb (gp_eqb P Q).
Proof. intros P Q. split; [exact (gp_eqb_iff P Q)|reflexivity]. Qed.
Print Assumptions C03_point_eq.

(* points of two curves are never equal and their sum raises (either order, infinity operands included) *)
Theorem C03_point_two_curves : forall P Q, ga P <> ga Q \/ gb P <> gb Q ->
  gp_eqb P Q = false /\ gp_neb P Q = true /\ gp_add P Q = Err /\ gp_add Q P = Err.
Proof. exact gp_other_curve. Qed.
Print Assumptions C03_point_two_curves.

(* the constructor: a half-defined point is refused; a constructed finite point lives in ONE field *)
Theorem C03_point_constructor : forall x y a b,
  gp_mk (Some x) None a b = Err /\ gp_mk None (Some y) a b = Err /\
  gp_mk None None a b = Ok {| gxy := None; ga := a; gb := b |} /\
  (forall P, gp_mk (Some x) (Some y) a b = Ok P ->
     P = {| gxy := Some (x, y); ga := a; gb := b |} /\ snd y = snd x /\ snd a = snd x /\ snd b = snd x).
Proof.
  intros x y a b. split; [reflexivity|]. split; [reflexivity|]. split; [reflexivity|].
  intros P. exact (gp_mk_one_field x y a b P).
Qed.
Print Assumptions C03_point_constructor.

(* on operands of one curve the object layer computes exactly Model/Pecc.v: constructor, +, k* *)
Theorem C03_object_layer_refines : forall C, 0 < cp C -> forall P Q x y k,
  gp_mk (Some (x, cp C)) (Some (y, cp C)) (ca C, cp C) (cb C, cp C) = (R <- mk_point C x y ;; Ok (inj C R)) /\
  gp_add (inj C P) (inj C Q) = (R <- padd C P Q ;; Ok (inj C R)) /\
  gp_rmul k (inj C P) = (R <- rmul_raw C k P ;; Ok (inj C R)) /\
  (gp_eqb (inj C P) (inj C Q) = true <-> P = Q).
Proof.
  intros C Hp P Q x y k. split; [exact (gp_mk_refines C Hp x y)|]. split; [exact (gp_add_refines C Hp P Q)|].
  split; [exact (gp_rmul_refines C Hp k P)|exact (gp_eqb_inj C P Q)].
Qed.
Print Assumptions C03_object_layer_refines.

(* hence the group laws hold of the generic classes *)
Theorem C03_object_layer_group : forall C, group_laws C -> forall P Q k, valid C P -> valid C Q -> 0 <= k ->
  gp_add (inj C P) (inj C Q) = Ok (inj C (addT C P Q)) /\ valid C (addT C P Q) /\
  gp_add (inj C P) (inj C Q) = gp_add (inj C Q) (inj C P) /\
  gp_rmul k (inj C P) = Ok (inj C (smul C (Z.to_nat k) P)).
Proof.
  intros C GL P Q k HP HQ Hk. destruct (gp_add_group C GL P Q HP HQ) as (A & B & D).
  split; [exact A|]. split; [exact B|]. split; [exact D|exact (gp_rmul_group C GL k P Hk HP)].
Qed.
Print Assumptions C03_object_layer_group.

(* S256Point.__eq__ / __ne__ *)
Theorem C03_s256_eq : forall P Q, (s_eqb P Q = true <-> P = Q) /\ (s_neb P Q = true <-> P <> Q) /\
  s_neb P Q = negb (s_eqb P Q).
Proof. intros P Q. split; [exact (s_eqb_iff P Q)|]. split; [exact (s_neb_iff P Q)|reflexivity]. Qed.
Print Assumptions C03_s256_eq.

(* ------------------------------------------------------------------ every prime field, no bound *)
From V Require Import Proofs.FieldGeneralP.

(* the field axioms of C03_field_axioms_small for EVERY prime p (secp256k1's p included, given its primality) *)
Theorem C03_field_axioms_all : forall p, prime p -> field_laws p /\ pow_small_ok p.
Proof. exact field_axioms_all. Qed.
Print Assumptions C03_field_axioms_all.

(* FieldElement.__pow__ is the power function: a ** e = a^e mod p for e >= 0; for e < 0 it is the inverse of a ** (-e) *)
Theorem C03_pow_spec : forall C, prime (cp C) -> forall a e,
  (0 <= e -> fpow C a e = (a ^ e) mod cp C) /\
  (a mod cp C <> 0 -> e < 0 -> fmul C (fpow C a e) (fpow C a (- e)) = 1).
Proof. intros C Hp a e. split; [exact (fpow_nonneg C Hp a e)|exact (fpow_negative C Hp a e)]. Qed.
Print Assumptions C03_pow_spec.

(* __truediv__ undoes __mul__ *)
Theorem C03_div_undoes_mul : forall C, prime (cp C) -> forall a b, 0 <= a < cp C -> 0 < b < cp C ->
  fdiv C (fmul C a b) b = a.
Proof. exact fdiv_fmul. Qed.
Print Assumptions C03_div_undoes_mul.

(* the constructor S256Point(x, y) from ints accepts exactly the curve points *)
Theorem C03_constructor_iff : forall C x y,
  (forall P, mk_point_int C x y = Ok P <-> P = Some (x, y) /\ valid C (Some (x, y))) /\
  (mk_point_int C x y = Err <-> ~ valid C (Some (x, y))).
Proof. intros C x y. split; [intros P; exact (mk_point_int_iff C x y P)|exact (mk_point_int_err_iff C x y)]. Qed.
Print Assumptions C03_constructor_iff.

(* ------------------------------------------------------------------ the new hypotheses are satisfiable *)
Example toy_prime_p : prime (cp toy) := toy_p_prime.
Example toy_gt2 : 2 < cp toy. Proof. reflexivity. Qed.
Example toy_add_comm_general := C03_add_comm_general toy toy_prime_p toy_gt2.
Example toy_add_inf_iff := C03_add_inf_iff toy toy_prime_p toy_gt2.
Example toy_assoc_hyp : forall P Q R, valid toy P -> valid toy Q -> valid toy R ->
  addT toy (addT toy P Q) R = addT toy P (addT toy Q R) := gl_add_assoc toy toy_group_laws.
Example toy_order_hyp : forall P, valid toy P -> rmul_raw toy (cn toy) P = Ok None := gl_order toy toy_group_laws.
Example toy_group_laws_again : group_laws toy :=
  C03_group_laws_minimal toy toy_prime_p toy_gt2 toy_assoc_hyp toy_n_prime eq_refl toy_G_valid toy_order_hyp.
Example toy_parse_sec_iff := C03_parse_sec_iff toy toy_prime_p eq_refl eq_refl toy_pow256.
Example toy_pubkey_sec_parse := C03_pubkey_sec_parse toy toy_group_laws eq_refl eq_refl toy_pow256.
Example toy_pubkey_5 : pubkey toy 5 = rmul toy 5 (G toy) /\ exists P, pubkey toy 5 = Ok P /\ P <> None.
Proof. split; [reflexivity|]. vm_compute. eexists. split; [reflexivity|discriminate]. Qed.
Example toy_combine := C03_combine toy toy_group_laws.
Example toy_combine_3 : combine toy [G toy; G toy; G toy] = rmul toy 3 (G toy).
Proof. vm_compute. reflexivity. Qed.
Example f223_field : field_laws 223 /\ pow_small_ok 223.
Proof. apply C03_field_axioms_all. apply CurveSweep.prime_b_sound. vm_compute. reflexivity. Qed.
Example toy_pow_negative : fmul toy (fpow toy 5 (-3)) (fpow toy 5 3) = 1. Proof. reflexivity. Qed.
Example toy_rmul_raw_ge_n : rmul_raw toy (31 + 5) (G toy) = rmul toy 5 (G toy) /\ rmul_raw toy (2 ^ 70 + 3) (G toy) = rmul toy (2 ^ 70 + 3) (G toy).
Proof. vm_compute. split; reflexivity. Qed.

(* a curve WITH a point of order two: y^2 = x^3 + 7 over F_11 (a = 0, 11 = 3 mod 4), the point (5, 0) *)
Definition c11 : curve := {| cp := 11; ca := 0; cb := 7; cn := 12; cgx := 2; cgy := 2 |}.
Example c11_prime : prime (cp c11). Proof. apply CurveSweep.prime_b_sound. vm_compute. reflexivity. Qed.
Example c11_y0_valid : valid c11 (Some (5, 0)). Proof. apply CurveSweep.validb_valid. vm_compute. reflexivity. Qed.
Example c11_double_y0 : padd c11 (Some (5, 0)) (Some (5, 0)) = Ok None.
Proof. exact (proj2 (C03_double_inf_iff c11 c11_prime eq_refl _ c11_y0_valid) (or_intror (ex_intro _ 5 eq_refl))). Qed.
Example c11_compressed_y0_rejected := C03_sec_compressed_y0_rejected c11 c11_prime eq_refl eq_refl eq_refl 5 c11_y0_valid.
Example c11_uncompressed_y0_ok : parse_sec c11 (4 :: to_be 32 5 ++ to_be 32 0) = Ok (Some (5, 0)).
Proof. exact (proj1 (C03_sec_roundtrip_general c11 c11_prime eq_refl eq_refl eq_refl 5 0 false _ c11_y0_valid
                      (fun H => False_ind _ (Bool.diff_false_true H)) eq_refl)). Qed.
(* the object layer on concrete operands: F_5 vs F_7, two curves over F_43 *)
Example obj_two_fields : fe_add (1, 5) (1, 7) = Err /\ fe_eqb (1, 5) (1, 7) = false.
Proof. split; reflexivity. Qed.
Example obj_two_curves : gp_add (inj toy (G toy)) {| gxy := None; ga := (0, 43); gb := (8, 43) |} = Err.
Proof. vm_compute. reflexivity. Qed.
Example obj_toy_add : gp_add (inj toy (G toy)) (inj toy (G toy)) = (R <- rmul toy 2 (G toy) ;; Ok (inj toy R)).
Proof. vm_compute. reflexivity. Qed.
