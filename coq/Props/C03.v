(* Props/C03.v — secp256k1 group law, generic field / curve classes, SEC and x-only encodings.

   Structure of the argument (DESIGN.md §3 "Curve arithmetic"):
   * small fields / curves: everything by exhaustive kernel computation, the bound is in the statement;
   * any curve: the scalar algebra, the double-and-add correctness and the encodings are DERIVED from
     [group_laws C] (closure, commutativity, associativity, inverses, order n, p and n prime) — for
     secp256k1 those primitive facts are explicit hypotheses (never axioms), for the toy curve they
     are proved, so every theorem below is non-vacuous. *)
From Coq Require Import Znumtheory.
From V Require Import Base.Prelude Base.Ints Model.Pecc Proofs.GroupHyp Proofs.CurveSweep
  Proofs.ToyCurve Proofs.SmallFields Proofs.SmallFieldsAll Proofs.CurveAssoc Proofs.SmallCurvesAll
  Proofs.ScalarOfGroup Proofs.C03P Proofs.PeccEnc Proofs.CurveGeneral.

(* ------------------------------------------------------------------ small fields and curves *)

(* F_p through the FieldElement model is a field, for EVERY prime 3 <= p <= 101 (all elements, pairs,
   triples): commutative ring laws, results in range, Fermat inverse correct, a/b = a * b^(p-2);
   and `**2`, `**3` (used by Point) are plain products *)
Theorem C03_field_axioms_small : forall p, prime p -> 3 <= p <= 101 -> field_laws p /\ pow_small_ok p.
Proof. exact field_axioms_small_all. Qed.
Print Assumptions C03_field_axioms_small.

(* what FieldElement.__pow__ does at the exponent p-1 (after fix a0e55d9): 0 ** (p-1) = 0 *)
Theorem C03_pow_zero : forall C, 2 < cp C -> fpow C 0 (cp C - 1) = 0.
Proof. exact fpow_zero_pm1. Qed.
Print Assumptions C03_pow_zero.

Theorem C03_pow_fermat : forall C a, prime (cp C) -> a mod cp C <> 0 -> fpow C a (cp C - 1) = 1.
Proof. exact fpow_nonzero_pm1. Qed.
Print Assumptions C03_pow_fermat.

(* the points of y^2 = x^3 + 7 over F_p with the model's Point.__add__: closure (the constructor check
   never fires), commutativity, associativity (all triples), identity, inverse, P + P = 2P, for EVERY
   prime 5 <= p <= 101 except 7 (the cubic is singular over F_3 and F_7) *)
Theorem C03_curve_group_small : forall p, prime p -> 5 <= p <= 101 -> p <> 7 -> curve_laws (fcurve p).
Proof. exact curve_group_small_all. Qed.
Print Assumptions C03_curve_group_small.

Theorem C03_curve_pairs_F223 :
  prime 223 /\
  (forall P Q, valid (fcurve 223) P -> valid (fcurve 223) Q ->
     padd (fcurve 223) P Q = Ok (addT (fcurve 223) P Q) /\ valid (fcurve 223) (addT (fcurve 223) P Q)) /\
  (forall P Q, valid (fcurve 223) P -> valid (fcurve 223) Q ->
     addT (fcurve 223) P Q = addT (fcurve 223) Q P) /\
  (forall P, valid (fcurve 223) P ->
     valid (fcurve 223) (negT (fcurve 223) P) /\ addT (fcurve 223) P (negT (fcurve 223) P) = None) /\
  (forall P, valid (fcurve 223) P -> rmul_raw (fcurve 223) 2 P = Ok (addT (fcurve 223) P P)).
Proof. exact curve_pairs_F223. Qed.
Print Assumptions C03_curve_pairs_F223.

(* the toy curve y^2 = x^3 + 7 over F_43 (31 points, prime order) satisfies both hypothesis records *)
Theorem C03_toy_group_laws : group_laws toy.
Proof. exact toy_group_laws. Qed.
Print Assumptions C03_toy_group_laws.

Theorem C03_toy_scalar_laws : scalar_laws toy.
Proof. exact toy_scalar_laws. Qed.
Print Assumptions C03_toy_scalar_laws.

(* ------------------------------------------------------------------ any curve over a prime field *)

(* closure for EVERY curve record over a prime field (a, b arbitrary; so for secp256k1 given only
   `prime p`): the chord / tangent result satisfies the curve equation and is in range, i.e. the
   constructor check in Point.__add__ never fires on valid operands (Fermat inverse + field reasoning) *)
Theorem C03_add_closed : forall C, prime (cp C) -> 2 < cp C -> forall P Q,
  valid C P -> valid C Q -> exists R, padd C P Q = Ok R /\ valid C R.
Proof. exact add_closed. Qed.
Print Assumptions C03_add_closed.

(* inverse for every curve over a prime field: (x, -y) is a curve point and P + (-P) = infinity *)
Theorem C03_add_inverse_general : forall C, prime (cp C) -> 2 < cp C -> forall x y,
  valid C (Some (x, y)) ->
  valid C (Some (x, (- y) mod cp C)) /\ padd C (Some (x, y)) (Some (x, (- y) mod cp C)) = Ok None.
Proof. exact neg_general. Qed.
Print Assumptions C03_add_inverse_general.

(* identity: by definition of Point.__add__ *)
Theorem C03_add_identity : forall C P, padd C None P = Ok P /\ padd C P None = Ok P.
Proof. intros C [[x y]|]; split; reflexivity. Qed.
Print Assumptions C03_add_identity.

(* ------------------------------------------------------------------ any curve, from group_laws *)

(* Point.__rmul__ (LSB-first double-and-add, with the extra doubling after the last bit) computes the
   k-fold sum for every k >= 0 *)
Theorem C03_rmul_is_iterated_add : forall C, group_laws C -> forall k P, 0 <= k -> valid C P ->
  rmul_raw C k P = Ok (smul C (Z.to_nat k) P).
Proof. exact rmul_is_iterated_add. Qed.
Print Assumptions C03_rmul_is_iterated_add.

(* the derived scalar algebra used by the protocol proofs needs nothing beyond group_laws *)
Theorem C03_scalar_of_group : forall C, group_laws C -> scalar_laws C.
Proof. exact scalar_of_group. Qed.
Print Assumptions C03_scalar_of_group.

(* (a+b)P = aP + bP for ALL integers a, b: every operation returns Ok, the result is on the curve *)
Theorem C03_scalar_mul_add : forall C, group_laws C -> forall a b P, valid C P ->
  exists A B S, rmul C a P = Ok A /\ rmul C b P = Ok B /\ padd C A B = Ok S /\
                rmul C (a + b) P = Ok S /\ valid C S.
Proof. exact scalar_mul_add. Qed.
Print Assumptions C03_scalar_mul_add.

(* a(bP) = (ab)P *)
Theorem C03_scalar_mul_mul : forall C, group_laws C -> forall a b P, valid C P ->
  exists B R, rmul C b P = Ok B /\ rmul C a B = Ok R /\ rmul C (a * b) P = Ok R /\ valid C R.
Proof. exact scalar_mul_mul. Qed.
Print Assumptions C03_scalar_mul_mul.

(* nP = infinity; k and k + jn (negative k, k >= 2^256, ...) give the same point *)
Theorem C03_scalar_order : forall C, group_laws C -> forall k j P, valid C P ->
  rmul C (cn C) P = Ok None /\ rmul C (k + j * cn C) P = rmul C k P /\
  rmul C k P = rmul C (k mod cn C) P.
Proof. exact scalar_order. Qed.
Print Assumptions C03_scalar_order.

(* P + (-P) = infinity with -P = (x, p - y) = (-1)P = (n-1)P *)
Theorem C03_add_opposite : forall C, group_laws C -> forall x y, valid C (Some (x, y)) ->
  padd C (Some (x, y)) (Some (x, (- y) mod cp C)) = Ok None /\
  valid C (Some (x, (- y) mod cp C)) /\
  rmul C (-1) (Some (x, y)) = Ok (Some (x, (- y) mod cp C)) /\
  rmul C (cn C - 1) (Some (x, y)) = Ok (Some (x, (- y) mod cp C)).
Proof. exact add_opposite. Qed.
Print Assumptions C03_add_opposite.

(* P + P = 2P *)
Theorem C03_double_is_add_self : forall C, group_laws C -> forall P, valid C P ->
  exists D, padd C P P = Ok D /\ rmul C 2 P = Ok D /\ valid C D.
Proof. exact double_is_add_self. Qed.
Print Assumptions C03_double_is_add_self.

(* P + t (int shorthand used by tweaks and BIP32) = P + tG *)
Theorem C03_padd_int : forall C, group_laws C -> forall P t, valid C P ->
  exists R, padd_int C P t = Ok R /\ R = addT C P (mulT C t (G C)) /\ valid C R.
Proof. exact padd_int_ok. Qed.
Print Assumptions C03_padd_int.

(* ------------------------------------------------------------------ encodings *)
(* hypotheses: scalar_laws C (derivable from group_laws C), a = 0, p = 3 mod 4, p < 2^256 *)

(* parse_sec (sec P) = P and parse (sec P) = P for every finite curve point, both compressions *)
Theorem C03_sec_roundtrip : forall C, scalar_laws C -> ca C = 0 -> cp C mod 4 = 3 -> cp C < pow256 32 ->
  forall x y c s, valid C (Some (x, y)) -> sec (Some (x, y)) c = Ok s ->
  parse_sec C s = Ok (Some (x, y)) /\ parse_point C s = Ok (Some (x, y)).
Proof.
  intros C SL Ha H4 H256 x y c s Hv Hs. split.
  - exact (parse_sec_sec C SL Ha H4 H256 x y c s Hv Hs).
  - exact (parse_point_sec C SL Ha H4 H256 x y c s Hv Hs).
Qed.
Print Assumptions C03_sec_roundtrip.

(* parse_xonly (xonly P) is the even-y point with the same x (x = 0 is read as infinity by the code) *)
Theorem C03_xonly_roundtrip : forall C, scalar_laws C -> ca C = 0 -> cp C mod 4 = 3 -> cp C < pow256 32 ->
  forall x y, valid C (Some (x, y)) -> x <> 0 ->
  parse_xonly C (xonly (Some (x, y))) = Ok (Some (x, if y mod 2 =? 0 then y else cp C - y)).
Proof. exact parse_xonly_xonly. Qed.
Print Assumptions C03_xonly_roundtrip.

(* whatever parse_sec accepts is a valid curve point with the encoded coordinates / prefix parity *)
Theorem C03_parse_sec_sound : forall C, cp C mod 4 = 3 -> forall b P,
  parse_sec C b = Ok P ->
  valid C P /\ exists x y, P = Some (x, y) /\
    ((length b = 65%nat /\ b = 4 :: firstn 64 (skipn 1 b) /\
      x = from_be (firstn 32 (skipn 1 b)) /\ y = from_be (skipn 33 b)) \/
     (length b = 33%nat /\ exists pre, (pre = 2 \/ pre = 3) /\ b = pre :: skipn 1 b /\
      x = from_be (skipn 1 b) /\ y mod 2 = pre - 2)).
Proof. exact parse_sec_sound. Qed.
Print Assumptions C03_parse_sec_sound.

Theorem C03_parse_xonly_sound : forall C, scalar_laws C -> cp C mod 4 = 3 -> forall b P,
  parse_xonly C b = Ok P ->
  valid C P /\ (P = None /\ from_be b = 0 \/ exists y, P = Some (from_be b, y) /\ y mod 2 = 0).
Proof. exact parse_xonly_sound. Qed.
Print Assumptions C03_parse_xonly_sound.

(* other lengths / prefixes are rejected *)
Theorem C03_parse_rejects_length : forall C b,
  length b <> 32%nat -> length b <> 33%nat -> length b <> 65%nat -> parse_point C b = Err.
Proof. exact parse_point_rejects_length. Qed.
Print Assumptions C03_parse_rejects_length.

Theorem C03_parse_sec_rejects_prefix : forall C pre rest,
  ~ (pre = 4 /\ length rest = 64%nat) -> ~ ((pre = 2 \/ pre = 3) /\ length rest = 32%nat) ->
  parse_sec C (pre :: rest) = Err.
Proof. exact parse_sec_rejects_prefix. Qed.
Print Assumptions C03_parse_sec_rejects_prefix.

(* ------------------------------------------------------------------ the hypotheses are satisfiable *)
Example toy_pow256 : cp toy < pow256 32. Proof. reflexivity. Qed.
Example toy_sec_roundtrip := C03_sec_roundtrip toy toy_scalar_laws eq_refl eq_refl toy_pow256.
Example toy_xonly_roundtrip := C03_xonly_roundtrip toy toy_scalar_laws eq_refl eq_refl toy_pow256.
Example toy_parse_sec_sound := C03_parse_sec_sound toy eq_refl.
Example toy_scalar_mul_add := C03_scalar_mul_add toy toy_group_laws.
Example toy_scalar_of_group : scalar_laws toy := C03_scalar_of_group toy toy_group_laws.
Example toy_3G_plus_5G : rmul toy 8 (G toy) = (A <- rmul toy 3 (G toy) ;; B <- rmul toy 36 (G toy) ;; padd toy A B).
Proof. vm_compute. reflexivity. Qed.

(* The constants written in the model are the constants of the SOURCE: coq/Generated/SrcConsts.v is regenerated
   from /repo/buidl/*.py by harness/gen_coq_consts.py on every run; the statements are spelled out in
   Proofs/ConstsTie.v (secp256k1_is_source_stmt). *)
From V Require Proofs.ConstsTie.
Theorem C03_constants_match_source : ConstsTie.secp256k1_is_source_stmt.
Proof. exact ConstsTie.secp256k1_is_source. Qed.
Print Assumptions C03_constants_match_source.
