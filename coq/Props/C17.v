(* Props/C17.v — Merkle roots, SPV inclusion proofs and header proof-of-work follow consensus.
   Only statements, each closed by [exact] of a lemma from Proofs/, followed by Print
   Assumptions.  hash256 is universally quantified: every theorem holds for every function
   (32-byte output is an explicit hypothesis where a proof needs it).

   Models: Model/Merkle.v (merkle_root with its argument mutation made explicit),
   Model/MerkleBlock.v (faithful cursor machine [mb_is_valid] and the recursive traversal
   [mb_is_valid_rec]), Model/MerkleBlockX.v (populate_tree's effect on the caller's lists,
   parse . is_valid compositions), Model/Pow.v.  Specs: Spec/Bip37.v (Core ComputeMerkleRoot and
   the CPartialMerkleTree builder), Spec/MerkleBlockWire.v (CMerkleBlock serialisation),
   Spec/CorePow.v (arith_uint256 Set/GetCompact, CalculateNextWorkRequired, CheckProofOfWork).

   The models mirror /repo after the repairs fd08533 (check_pow: hash <= target), 5e35f6e
   (populate_tree refuses proof hashes that are not 32 bytes long) and de6be4c (compact bits
   follow SetCompact / GetCompact on the whole domain).  Concrete instances with explicit
   closed witnesses live in Proofs/C17Examples.v: no tactic in this file computes. *)
From V Require Import Base.Prelude Base.Ints Model.Helper Model.Block Model.Merkle Model.MerkleBlock
  Model.Pow Spec.Bip37 Spec.CorePow
  Proofs.MerkleP Proofs.Bip37P Proofs.MerkleBlockP Proofs.MerkleRefine Proofs.MerkleRefineGen Proofs.PowP Proofs.PowP2 Proofs.PowP3.
From V Require Import Model.Network Model.MerkleBlockX Model.Difficulty Spec.MerkleBlockWire
  Proofs.MerkleDeepP Proofs.MerkleWireP Proofs.MerkleMutP Proofs.PowDeepP Proofs.DifficultyP Proofs.C17Examples.

(* ---------------------------------------------------------------------------------- *)
(* (1) Merkle root *)

(* merkle_root of every non-empty list is the consensus root (pairwise double hash with
   duplication of the last element of odd levels); the second component is the caller's
   list after the call (merkle_parent_level appends to it in place) *)
Theorem C17_merkle_root_eq_consensus : forall (hash256 : bytes -> bytes) (l : list bytes),
  l <> [] -> merkle_root hash256 l = Ok (consensus_root hash256 l, mutated l).
Proof. exact merkle_root_eq. Qed.
Print Assumptions C17_merkle_root_eq_consensus.

(* the in-place mutation cannot change a later result: a second call on the mutated list
   returns the same root and leaves the list as it is; and the mutation only appends *)
Theorem C17_merkle_root_ignores_mutation : forall (hash256 : bytes -> bytes) (l : list bytes),
  l <> [] ->
  merkle_root hash256 (mutated l) = Ok (consensus_root hash256 l, mutated l) /\
  exists t, mutated l = l ++ t /\ (length t <= 1)%nat.
Proof. intros H l Hne. split; [now apply merkle_root_mutation_harmless | apply mutated_prefix]. Qed.
Print Assumptions C17_merkle_root_ignores_mutation.

Theorem C17_merkle_root_empty_raises : forall hash256, merkle_root hash256 [] = Err.
Proof. exact merkle_root_nil. Qed.
Print Assumptions C17_merkle_root_empty_raises.

Theorem C17_validate_merkle_root : forall (hash256 : bytes -> bytes) hdr_root (tx_hashes : list bytes),
  tx_hashes <> [] ->
  validate_merkle_root hash256 hdr_root tx_hashes =
  Ok (beq (rev (consensus_root hash256 (map (@rev Z) tx_hashes))) hdr_root).
Proof. exact validate_merkle_root_eq. Qed.
Print Assumptions C17_validate_merkle_root.

(* the level-by-level consensus root is CalcHash(height, 0) of BIP37, and the tree height
   MerkleTree.__init__ computes with bit_length is the one of CPartialMerkleTree *)
Theorem C17_consensus_root_is_calc_hash : forall (hash256 : bytes -> bytes) (txids : list bytes),
  (1 <= length txids)%nat ->
  consensus_root hash256 txids = calc_hash hash256 txids (tree_height txids) 0 /\
  tree_height txids = max_depth (Z.of_nat (length txids)).
Proof.
  intros H t Hn. split; [now apply consensus_root_calc_hash | now apply tree_height_max_depth].
Qed.
Print Assumptions C17_consensus_root_is_calc_hash.

(* ---------------------------------------------------------------------------------- *)
(* (2) completeness: for every block size n >= 1 and every match set, the BIP37 partial
   Merkle tree built per the specification validates against the true root and yields
   exactly the matched ids in order.  Since the fix 5e35f6e populate_tree refuses hashes that
   are not 32 bytes long, so the statement is for a hash function with 32-byte output and
   32-byte transaction ids (before the fix it held for every hash function and ids of any
   length; that generality is exactly what K-C17-hashlen exploited). *)
Theorem C17_proof_complete : forall (hash256 : bytes -> bytes),
  (forall x, length (hash256 x) = 32%nat) ->
  forall (ids : list bytes) (matches : list bool),
  ids <> [] -> Forall (fun t => length t = 32%nat) ids -> length matches = length ids ->
  let txids := map (@rev Z) ids in
  let '(total, hashes, flags) := bip37_proof hash256 txids matches in
  total = zlen ids /\
  mb_is_valid_rec hash256 (rev (consensus_root hash256 txids)) total (map (@rev Z) hashes) flags
  = Ok (true, sel ids matches).
Proof. exact proof_complete. Qed.
Print Assumptions C17_proof_complete.

Example C17_proof_complete_instance :
  let '(total, hashes, flags) := bip37_proof ex_hash (map (@rev Z) ex_ids) [false; true; true] in
  mb_is_valid_rec ex_hash (rev (consensus_root ex_hash (map (@rev Z) ex_ids))) total (map (@rev Z) hashes) flags
  = Ok (true, [repeatz 2 32; repeatz 3 32]) /\
  mb_is_valid ex_hash (rev (consensus_root ex_hash (map (@rev Z) ex_ids))) total (map (@rev Z) hashes) flags
  = Ok (true, [repeatz 2 32; repeatz 3 32]).
Proof. exact ex_proof_complete_instance. Qed.

(* ---------------------------------------------------------------------------------- *)
(* (3) soundness when total is the block's transaction count: every id yielded by a proof
   that validates against the true root is an id of the block, or a hash256 collision is
   exhibited *)
Theorem C17_proof_sound_known_total : forall (hash256 : bytes -> bytes),
  (forall x, length (hash256 x) = 32%nat) ->
  forall (ids : list bytes) hdr_root hashes flags proved,
  ids <> [] -> Forall (fun t => length t = 32%nat) ids ->
  Forall (fun t => length t = 32%nat) hashes ->
  validate_merkle_root hash256 hdr_root ids = Ok true ->
  mb_is_valid_rec hash256 hdr_root (zlen ids) hashes flags = Ok (true, proved) ->
  (forall m, In m proved -> In m ids) \/
  (exists x y : bytes, x <> y /\ hash256 x = hash256 y).
Proof. exact proof_sound_known_total. Qed.
Print Assumptions C17_proof_sound_known_total.

(* ---------------------------------------------------------------------------------- *)
(* (4) known finding K-C17-total: `total` is taken from the message.  A block with two
   transactions presented with total = 1 "proves" its root (an interior node) as a
   transaction id; four transactions presented as total = 2 prove the two level-1 nodes.
   Both the cursor machine and the recursive traversal accept, for every hash function with
   32-byte output (the forged "ids" are node hashes, hence 32 bytes long). *)
Theorem C17_proof_unsound_free_total_refuted : forall (hash256 : bytes -> bytes),
  (forall x, length (hash256 x) = 32%nat) -> forall (a b : bytes),
  let ids := [a; b] in
  let node := hash256 (rev a ++ rev b) in
  validate_merkle_root hash256 (rev node) ids = Ok true /\
  mb_is_valid hash256 (rev node) 1 [rev node] [1] = Ok (true, [rev node]) /\
  mb_is_valid_rec hash256 (rev node) 1 [rev node] [1] = Ok (true, [rev node]).
Proof. exact forged_total_2_as_1. Qed.
Print Assumptions C17_proof_unsound_free_total_refuted.

Theorem C17_proof_unsound_free_total_4_as_2_refuted : forall (hash256 : bytes -> bytes),
  (forall x, length (hash256 x) = 32%nat) -> forall (a b c d : bytes),
  let ids := [a; b; c; d] in
  let n1 := hash256 (rev a ++ rev b) in
  let n2 := hash256 (rev c ++ rev d) in
  let root := hash256 (n1 ++ n2) in
  validate_merkle_root hash256 (rev root) ids = Ok true /\
  mb_is_valid hash256 (rev root) 2 [rev n1; rev n2] [7] = Ok (true, [rev n1; rev n2]) /\
  mb_is_valid_rec hash256 (rev root) 2 [rev n1; rev n2] [7] = Ok (true, [rev n1; rev n2]).
Proof. exact forged_total_4_as_2. Qed.
Print Assumptions C17_proof_unsound_free_total_4_as_2_refuted.

(* former known finding K-C17-hashlen, repaired by 5e35f6e: a proof with a hash that is not 32
   bytes long (only a MerkleBlock object built directly can hold one) is refused — is_valid
   raises — so whatever is_valid returns a value for has 32-byte hashes, and the 32-byte
   premise on the PROOF in (3) can be dropped *)
Theorem C17_proof_rejects_non_32_byte_hashes : forall (hash256 : bytes -> bytes) hdr_root total hashes flags,
  ~ Forall (fun t => length t = 32%nat) hashes ->
  mb_is_valid hash256 hdr_root total hashes flags = Err /\
  mb_is_valid_rec hash256 hdr_root total hashes flags = Err.
Proof. exact is_valid_rejects_bad_length. Qed.
Print Assumptions C17_proof_rejects_non_32_byte_hashes.

Theorem C17_proof_accepted_has_32_byte_hashes : forall (hash256 : bytes -> bytes) hdr_root total hashes flags r,
  mb_is_valid hash256 hdr_root total hashes flags = Ok r ->
  Forall (fun t => length t = 32%nat) hashes.
Proof. exact is_valid_ok_32. Qed.
Print Assumptions C17_proof_accepted_has_32_byte_hashes.

(* the former witness (a 33- and a 31-byte hash that split la ++ lb elsewhere) is refused *)
Theorem C17_proof_hash_length_witness_rejected : forall (hash256 : bytes -> bytes) (la lb' : bytes) (x : Z),
  length (la ++ [x]) <> 32%nat ->
  let root := hash256 (la ++ x :: lb') in
  mb_is_valid hash256 (rev root) 2 [rev (la ++ [x]); rev lb'] [7] = Err /\
  mb_is_valid_rec hash256 (rev root) 2 [rev (la ++ [x]); rev lb'] [7] = Err.
Proof. exact split_hash_length_rejected. Qed.
Print Assumptions C17_proof_hash_length_witness_rejected.

(* (3) for every proof object, without a premise on its hashes *)
Theorem C17_proof_sound_known_total_any_proof : forall (hash256 : bytes -> bytes),
  (forall x, length (hash256 x) = 32%nat) ->
  forall (ids : list bytes) hdr_root hashes flags proved,
  ids <> [] -> Forall (fun t => length t = 32%nat) ids ->
  validate_merkle_root hash256 hdr_root ids = Ok true ->
  mb_is_valid_rec hash256 hdr_root (zlen ids) hashes flags = Ok (true, proved) ->
  (forall m, In m proved -> In m ids) \/
  (exists x y : bytes, x <> y /\ hash256 x = hash256 y).
Proof. exact proof_sound_known_total_nolen. Qed.
Print Assumptions C17_proof_sound_known_total_any_proof.

(* the forged id really is foreign whenever the node hash differs from both leaves *)
Example C17_forged_id_is_foreign :
  let H := fun x : bytes => firstn 2 (x ++ [7; 9]) ++ [1] in
  let a := [1; 2] in let b := [3; 4] in
  ~ In (rev (H (rev a ++ rev b))) [a; b].
Proof. cbn. intros [E|[E|[]]]; discriminate E. Qed.

(* ---------------------------------------------------------------------------------- *)
(* (5) the cursor machine of MerkleTree.populate_tree equals the recursive traversal.
   The GENERAL statement is proved (C17_cursor_machine_refines_traversal below, from
   Proofs/MerkleRefineGen.v): for every hash function, every total (no upper bound), every
   flag list and every hash list  populate_tree = populate_tree_rec, error cases included
   (the machine raises exactly when the traversal does: flag bits / hashes running out,
   leftover bits / hashes; populate_fuel always suffices).  The two bounded sweeps are kept
   as cheap regression checks by kernel evaluation: every total 1..6 (sweep_max_total),
   every flag string over {0,1} up to the longest the tree can consume (+1), every number of
   supplied hashes (hash256 := concatenation keeps every node value distinguishable). *)
Theorem C17_cursor_machine_refines_traversal_partial :
  forall total bits nh,
  In total (map Z.of_nat (seq 1 sweep_max_total)) ->
  In bits (bit_strings_upto (sweep_len total)) ->
  In nh (seq 0 (sweep_hashes total)) ->
  populate_tree (fun x => x) total bits (sym_hashes nh) =
  populate_tree_rec (fun x => x) total bits (sym_hashes nh).
Proof. exact machine_eq_traversal_sweep. Qed.
Print Assumptions C17_cursor_machine_refines_traversal_partial.

(* the same with flag values 0, 1, 2 (anything but 1 is "not matched" at a leaf, anything
   but 0 is "descend" at an interior node) for totals 1..4 *)
Theorem C17_cursor_machine_refines_traversal_flags012_partial :
  forall total bits nh,
  In total (map Z.of_nat (seq 1 sweep3_max_total)) ->
  In bits (flag_strings_upto (sweep_len total)) ->
  In nh (seq 0 (sweep_hashes total)) ->
  populate_tree (fun x => x) total bits (sym_hashes nh) =
  populate_tree_rec (fun x => x) total bits (sym_hashes nh).
Proof. exact machine_eq_traversal_sweep3. Qed.
Print Assumptions C17_cursor_machine_refines_traversal_flags012_partial.

(* the general statement: the faithful cursor machine (node table, current depth / index,
   one loop iteration per unit of fuel) and the recursive depth-first traversal return the
   same result — the same (root, proved ids) or both raise — on ALL inputs *)
Theorem C17_cursor_machine_refines_traversal : forall (hash256 : bytes -> bytes) total bits hs,
  populate_tree hash256 total bits hs = populate_tree_rec hash256 total bits hs.
Proof. exact machine_eq_traversal. Qed.
Print Assumptions C17_cursor_machine_refines_traversal.

(* hence MerkleBlock.is_valid on the machine is is_valid on the traversal ... *)
Theorem C17_is_valid_machine_eq_traversal : forall (hash256 : bytes -> bytes) hdr_root total hashes flags,
  mb_is_valid hash256 hdr_root total hashes flags =
  mb_is_valid_rec hash256 hdr_root total hashes flags.
Proof. exact mb_is_valid_eq_rec. Qed.
Print Assumptions C17_is_valid_machine_eq_traversal.

(* ... and (2) completeness and (3) soundness with known total hold for the faithful
   cursor machine [mb_is_valid] *)
Theorem C17_proof_complete_machine : forall (hash256 : bytes -> bytes),
  (forall x, length (hash256 x) = 32%nat) ->
  forall (ids : list bytes) (matches : list bool),
  ids <> [] -> Forall (fun t => length t = 32%nat) ids -> length matches = length ids ->
  let txids := map (@rev Z) ids in
  let '(total, hashes, flags) := bip37_proof hash256 txids matches in
  total = zlen ids /\
  mb_is_valid hash256 (rev (consensus_root hash256 txids)) total (map (@rev Z) hashes) flags
  = Ok (true, sel ids matches).
Proof. exact proof_complete_machine. Qed.
Print Assumptions C17_proof_complete_machine.

Theorem C17_proof_sound_known_total_machine : forall (hash256 : bytes -> bytes),
  (forall x, length (hash256 x) = 32%nat) ->
  forall (ids : list bytes) hdr_root hashes flags proved,
  ids <> [] -> Forall (fun t => length t = 32%nat) ids ->
  Forall (fun t => length t = 32%nat) hashes ->
  validate_merkle_root hash256 hdr_root ids = Ok true ->
  mb_is_valid hash256 hdr_root (zlen ids) hashes flags = Ok (true, proved) ->
  (forall m, In m proved -> In m ids) \/
  (exists x y : bytes, x <> y /\ hash256 x = hash256 y).
Proof. exact proof_sound_known_total_machine. Qed.
Print Assumptions C17_proof_sound_known_total_machine.

(* ---------------------------------------------------------------------------------- *)
(* (6) compact bits *)

(* on the guarded domain (4 bytes, exponent >= 3, sign bit clear, Core's overflow flag
   clear — this contains every exponent 3..32 with the sign bit clear) bits_to_target is
   Core's SetCompact, which flags neither negative nor overflow *)
Theorem C17_compact_eq_core : forall bits,
  compact_guard bits = true ->
  exists v, bits_to_target bits = Ok (PInt v) /\ set_compact (from_le bits) = (v, false, false) /\
            0 <= v < 2 ^ 256.
Proof. exact bits_to_target_core. Qed.
Print Assumptions C17_compact_eq_core.

Theorem C17_compact_guard_3_to_32 : forall bits, compact_guard32 bits = true -> compact_guard bits = true.
Proof. exact compact_guard32_guard. Qed.
Print Assumptions C17_compact_guard_3_to_32.

(* since the fix de6be4c agreement is total: for EVERY four-byte bits value bits_to_target
   returns Core's SetCompact value when Core flags neither negative nor overflow, and raises
   (ValueError) exactly when Core flags either.  (This replaces C17_compact_guard_exact, which
   said that before the fix the guard above was exactly the agreement domain.) *)
Theorem C17_compact_eq_core_all : forall bits,
  bytes_ok bits -> length bits = 4%nat ->
  bits_to_target bits =
  let '(v, neg, ovf) := set_compact (from_le bits) in
  if neg || ovf then Err else Ok (PInt v).
Proof. exact bits_to_target_eq_core. Qed.
Print Assumptions C17_compact_eq_core_all.

(* the same with the kind of exception: never IndexError on four bytes *)
Theorem C17_compact_eq_core_all_x : forall bits,
  bytes_ok bits -> length bits = 4%nat ->
  bits_to_target_x bits =
  let '(v, neg, ovf) := set_compact (from_le bits) in
  if neg || ovf then B2T_value_error else B2T_ok v.
Proof. exact bits_to_target_x_core. Qed.
Print Assumptions C17_compact_eq_core_all_x.

Example C17_compact_guard_mainnet : compact_guard [255; 255; 0; 29] = true.
Proof. reflexivity. Qed.

(* the former divergences (known finding K-C17-compact, repaired by de6be4c) as instances of
   agreement: exponent < 3 gives Core's integer (was a float); a set sign bit with a non-zero
   word raises (was read as magnitude), with a zero word gives 0; an overflowing exponent
   raises (was a number >= 2^256), the largest that fit are accepted *)
Theorem C17_compact_exponent_lt3_agrees :
  bits_to_target [0; 1; 0; 2] = Ok (PInt 1) /\ set_compact (from_le [0; 1; 0; 2]) = (1, false, false) /\
  bits_to_target [255; 255; 127; 0] = Ok (PInt 0) /\ bits_to_target [0; 0; 1; 1] = Ok (PInt 1).
Proof. exact compact_exponent_lt3_instance. Qed.
Print Assumptions C17_compact_exponent_lt3_agrees.

Theorem C17_compact_sign_bit_agrees :
  bits_to_target [1; 0; 128; 4] = Err /\ set_compact (from_le [1; 0; 128; 4]) = (256, true, false) /\
  bits_to_target [0; 0; 128; 4] = Ok (PInt 0) /\ set_compact (from_le [0; 0; 128; 4]) = (0, false, false) /\
  bits_to_target [1; 0; 128; 0] = Ok (PInt 0) /\ set_compact (from_le [1; 0; 128; 0]) = (0, false, false).
Proof. exact compact_sign_bit_instance. Qed.
Print Assumptions C17_compact_sign_bit_agrees.

Theorem C17_compact_overflow_agrees :
  bits_to_target [0; 0; 1; 33] = Err /\ snd (set_compact (from_le [0; 0; 1; 33])) = true /\
  bits_to_target [255; 255; 0; 33] = Ok (PInt (65535 * 256 ^ 30)) /\
  bits_to_target [255; 0; 0; 34] = Ok (PInt (255 * 256 ^ 31)) /\
  bits_to_target [0; 0; 0; 255] = Ok (PInt 0).
Proof. exact compact_overflow_instance. Qed.
Print Assumptions C17_compact_overflow_agrees.

(* target_to_bits is Core's GetCompact (as a little-endian uint32) for every target from
   0x8000 up to 2^256 - 1 *)
Theorem C17_target_to_bits_eq_core : forall t,
  32768 <= t < 2 ^ 256 ->
  exists bits, target_to_bits t = Ok bits /\ length bits = 4%nat /\ bytes_ok bits /\
               from_le bits = get_compact t.
Proof. exact target_to_bits_core. Qed.
Print Assumptions C17_target_to_bits_eq_core.

(* since de6be4c for EVERY target in [0, 2^256), four bytes always; outside that range
   int.to_bytes raises *)
Theorem C17_target_to_bits_eq_core_all : forall t,
  0 <= t < 2 ^ 256 ->
  exists bits, target_to_bits t = Ok bits /\ length bits = 4%nat /\ bytes_ok bits /\
               from_le bits = get_compact t.
Proof. exact target_to_bits_all. Qed.
Print Assumptions C17_target_to_bits_eq_core_all.

Theorem C17_target_to_bits_out_of_range : forall t, t < 0 \/ 2 ^ 256 <= t -> target_to_bits t = Err.
Proof. exact target_to_bits_out_of_range. Qed.
Print Assumptions C17_target_to_bits_out_of_range.

(* target -> bits -> target is SetCompact(GetCompact(target)) *)
Theorem C17_target_bits_target : forall t bits,
  0 <= t < 2 ^ 256 -> target_to_bits t = Ok bits ->
  bits_to_target bits =
  let '(v, neg, ovf) := set_compact (get_compact t) in if neg || ovf then Err else Ok (PInt v).
Proof. exact target_bits_target. Qed.
Print Assumptions C17_target_bits_target.

(* the former divergences below 0x8000 (fewer than 4 bytes; IndexError for 0) as instances *)
Theorem C17_target_to_bits_small_agrees :
  target_to_bits 0 = Ok [0; 0; 0; 0] /\ get_compact 0 = 0 /\
  target_to_bits 1 = Ok [0; 0; 1; 1] /\ get_compact 1 = from_le [0; 0; 1; 1] /\
  target_to_bits 128 = Ok [0; 128; 0; 2] /\ get_compact 128 = from_le [0; 128; 0; 2] /\
  target_to_bits 4660 = Ok [0; 52; 18; 2] /\ get_compact 4660 = from_le [0; 52; 18; 2] /\
  target_to_bits 32767 = Ok [0; 255; 127; 2] /\ get_compact 32767 = from_le [0; 255; 127; 2].
Proof. exact target_to_bits_small_instance. Qed.
Print Assumptions C17_target_to_bits_small_agrees.

(* ---------------------------------------------------------------------------------- *)
(* (7) retarget, proof of work, header chain *)

(* calculate_new_bits is CalculateNextWorkRequired (both clamps, the cap) for previous
   bits in the guarded domain whose target is in [0x20000, powLimit] *)
Theorem C17_retarget_eq_consensus : forall bits td v,
  compact_guard bits = true ->
  set_compact (from_le bits) = (v, false, false) ->
  131072 <= v <= pow_limit ->
  exists nb, calculate_new_bits bits td = Ok nb /\ length nb = 4%nat /\
             from_le nb = next_work_required (from_le bits) td.
Proof. exact retarget_core. Qed.
Print Assumptions C17_retarget_eq_consensus.

(* since de6be4c without the guard and without the lower bound: every previous four-byte bits
   value that Core accepts (no flag, at most powLimit) *)
Theorem C17_retarget_eq_consensus_all : forall bits td v,
  bytes_ok bits -> length bits = 4%nat ->
  set_compact (from_le bits) = (v, false, false) ->
  v <= pow_limit ->
  exists nb, calculate_new_bits bits td = Ok nb /\ length nb = 4%nat /\
             from_le nb = next_work_required (from_le bits) td.
Proof. exact retarget_core_all. Qed.
Print Assumptions C17_retarget_eq_consensus_all.

Example C17_retarget_instance :
  calculate_new_bits [255; 255; 0; 29] 302400 = Ok [192; 255; 63; 28] /\
  next_work_required (from_le [255; 255; 0; 29]) 302400 = from_le [192; 255; 63; 28].
Proof. split; reflexivity. Qed.

(* check_pow is the consensus comparison hash <= target (since fd08533 also when hash = target:
   C17_check_pow_consensus_le below; the statement with the hypothesis is kept) *)
Theorem C17_check_pow_consensus : forall (hash256 : bytes -> bytes) h s v,
  serialize_header h = Ok s ->
  bits_to_target (h_bits h) = Ok (PInt v) ->
  from_le (hash256 s) <> v ->
  check_pow hash256 h = Ok (negb (from_le (hash256 s) >? v)).
Proof. exact check_pow_consensus. Qed.
Print Assumptions C17_check_pow_consensus.

Theorem C17_check_pow_eq_core : forall (hash256 : bytes -> bytes) h s,
  serialize_header h = Ok s ->
  compact_guard (h_bits h) = true ->
  (forall v, set_compact (from_le (h_bits h)) = (v, false, false) ->
             v <> 0 /\ v <= pow_limit /\ from_le (hash256 s) <> v) ->
  check_pow hash256 h = Ok (check_proof_of_work (from_le (hash256 s)) (from_le (h_bits h))).
Proof. exact check_pow_core. Qed.
Print Assumptions C17_check_pow_eq_core.

Theorem C17_check_pow_consensus_le : forall (hash256 : bytes -> bytes) h s v,
  serialize_header h = Ok s ->
  bits_to_target (h_bits h) = Ok (PInt v) ->
  check_pow hash256 h = Ok (negb (from_le (hash256 s) >? v)).
Proof. exact check_pow_consensus_le. Qed.
Print Assumptions C17_check_pow_consensus_le.

(* former known finding K-C17-pow-eq, repaired by fd08533: a hash equal to the target is
   accepted, as by CheckProofOfWork *)
Theorem C17_check_pow_accepts_equal : forall (hash256 : bytes -> bytes) h s v,
  serialize_header h = Ok s ->
  bits_to_target (h_bits h) = Ok (PInt v) ->
  from_le (hash256 s) = v ->
  check_pow hash256 h = Ok true.
Proof. exact check_pow_accepts_equal. Qed.
Print Assumptions C17_check_pow_accepts_equal.

Theorem C17_check_pow_equal_instance :
  exists (hash256 : bytes -> bytes) (h : header) s v,
    (forall x, length (hash256 x) = 32%nat) /\
    serialize_header h = Ok s /\ compact_guard (h_bits h) = true /\
    bits_to_target (h_bits h) = Ok (PInt v) /\ from_le (hash256 s) = v /\
    check_pow hash256 h = Ok true /\
    check_proof_of_work (from_le (hash256 s)) (from_le (h_bits h)) = true.
Proof. exact check_pow_equal_instance. Qed.
Print Assumptions C17_check_pow_equal_instance.

(* bits that SetCompact flags negative or overflowing never satisfy proof of work: check_pow
   returns False (it does not raise), as CheckProofOfWork does (de6be4c) *)
Theorem C17_check_pow_flagged_bits_false : forall (hash256 : bytes -> bytes) h s,
  serialize_header h = Ok s ->
  bytes_ok (h_bits h) -> length (h_bits h) = 4%nat ->
  (let '(_, neg, ovf) := set_compact (from_le (h_bits h)) in neg || ovf = true) ->
  check_pow hash256 h = Ok false.
Proof. exact check_pow_flagged_bits. Qed.
Print Assumptions C17_check_pow_flagged_bits_false.

(* check_pow = CheckProofOfWork for EVERY header with four-byte bits whose SetCompact value is at
   most powLimit (check_pow has no powLimit test: light-client scope), for every non-zero hash
   (Core also rejects target = 0; check_pow compares, which differs only for the hash 0) *)
Theorem C17_check_pow_eq_core_all : forall (hash256 : bytes -> bytes) h s,
  serialize_header h = Ok s ->
  bytes_ok (h_bits h) -> length (h_bits h) = 4%nat ->
  fst (fst (set_compact (from_le (h_bits h)))) <= pow_limit ->
  from_le (hash256 s) <> 0 -> 0 <= from_le (hash256 s) ->
  check_pow hash256 h = Ok (check_proof_of_work (from_le (hash256 s)) (from_le (h_bits h))).
Proof. exact check_pow_core_full. Qed.
Print Assumptions C17_check_pow_eq_core_all.

(* HeadersMessage.is_valid => every header passes check_pow and each header's prev_block
   is the hash of its predecessor *)
Theorem C17_header_chain_linkage : forall (hash256 : bytes -> bytes),
  (forall x, hash256 x <> []) ->
  forall h0 r,
  headers_is_valid hash256 (h0 :: r) = Ok true ->
  Forall (fun h => check_pow hash256 h = Ok true) (h0 :: r) /\
  exists hh0, block_hash hash256 h0 = Ok hh0 /\ linked hash256 hh0 r.
Proof. exact headers_is_valid_linkage. Qed.
Print Assumptions C17_header_chain_linkage.

Theorem C17_header_chain_accepts_linked : forall (hash256 : bytes -> bytes) hs lb,
  Forall (fun h => check_pow hash256 h = Ok true) hs -> linked hash256 lb hs ->
  headers_valid_loop hash256 hs (Some lb) = Ok true.
Proof. exact headers_linked_valid. Qed.
Print Assumptions C17_header_chain_accepts_linked.

(* ---------------------------------------------------------------------------------- *)
(* (8) ORDER and BINDING of SPV proofs (Proofs/MerkleDeepP.v) *)

(* with the authentic transaction count, the ids a validating proof yields — honest or
   altered — are a sub-sequence of the block's ids IN BLOCK ORDER: there is a match vector mv
   with proved = sel ids mv (strengthens the membership statement of (3)); on the recursive
   traversal and on the faithful cursor machine *)
Theorem C17_proof_sound_ordered : forall (hash256 : bytes -> bytes),
  (forall x, length (hash256 x) = 32%nat) ->
  forall (ids : list bytes) hdr_root hashes flags proved,
  ids <> [] -> Forall (fun t => length t = 32%nat) ids ->
  Forall (fun t => length t = 32%nat) hashes ->
  validate_merkle_root hash256 hdr_root ids = Ok true ->
  mb_is_valid_rec hash256 hdr_root (zlen ids) hashes flags = Ok (true, proved) ->
  (exists mv, length mv = length ids /\ proved = sel ids mv) \/
  (exists x y : bytes, x <> y /\ hash256 x = hash256 y).
Proof. exact proof_sound_ordered. Qed.
Print Assumptions C17_proof_sound_ordered.

Theorem C17_proof_sound_ordered_machine : forall (hash256 : bytes -> bytes),
  (forall x, length (hash256 x) = 32%nat) ->
  forall (ids : list bytes) hdr_root hashes flags proved,
  ids <> [] -> Forall (fun t => length t = 32%nat) ids ->
  Forall (fun t => length t = 32%nat) hashes ->
  validate_merkle_root hash256 hdr_root ids = Ok true ->
  mb_is_valid hash256 hdr_root (zlen ids) hashes flags = Ok (true, proved) ->
  (exists mv, length mv = length ids /\ proved = sel ids mv) \/
  (exists x y : bytes, x <> y /\ hash256 x = hash256 y).
Proof. exact proof_sound_ordered_machine. Qed.
Print Assumptions C17_proof_sound_ordered_machine.

(* "altering any hash makes validation fail": for a fixed (header root, total, flag bytes) at
   most ONE list of 32-byte hashes validates.  A proof whose hash list was changed in any way
   (a bit of a hash, a dropped, added, reordered hash) and that still validates exhibits a
   hash256 collision.  Holds for EVERY total (authentic or not); no knowledge of the block. *)
Theorem C17_proof_hash_tamper_detected : forall (hash256 : bytes -> bytes),
  (forall x, length (hash256 x) = 32%nat) ->
  forall hdr_root total hashes hashes' flags proved proved',
  Forall (fun t => length t = 32%nat) hashes -> Forall (fun t => length t = 32%nat) hashes' ->
  mb_is_valid hash256 hdr_root total hashes flags = Ok (true, proved) ->
  mb_is_valid hash256 hdr_root total hashes' flags = Ok (true, proved') ->
  (hashes = hashes' /\ proved = proved') \/
  (exists x y : bytes, x <> y /\ hash256 x = hash256 y).
Proof. exact proof_hash_binding. Qed.
Print Assumptions C17_proof_hash_tamper_detected.

(* "altering the header root makes validation fail": unconditional *)
Theorem C17_proof_root_tamper_detected : forall (hash256 : bytes -> bytes)
  hdr_root hdr_root' total hashes flags proved,
  mb_is_valid hash256 hdr_root total hashes flags = Ok (true, proved) ->
  hdr_root' <> hdr_root ->
  mb_is_valid hash256 hdr_root' total hashes flags = Ok (false, proved).
Proof. exact proof_root_tamper. Qed.
Print Assumptions C17_proof_root_tamper_detected.

(* since 5e35f6e the two statements hold for ANY proof object, with no premise on its hashes *)
Theorem C17_proof_sound_ordered_any_proof : forall (hash256 : bytes -> bytes),
  (forall x, length (hash256 x) = 32%nat) ->
  forall (ids : list bytes) hdr_root hashes flags proved,
  ids <> [] -> Forall (fun t => length t = 32%nat) ids ->
  validate_merkle_root hash256 hdr_root ids = Ok true ->
  mb_is_valid hash256 hdr_root (zlen ids) hashes flags = Ok (true, proved) ->
  (exists mv, length mv = length ids /\ proved = sel ids mv) \/
  (exists x y : bytes, x <> y /\ hash256 x = hash256 y).
Proof. exact proof_sound_ordered_machine_nolen. Qed.
Print Assumptions C17_proof_sound_ordered_any_proof.

Theorem C17_proof_hash_tamper_detected_any_proof : forall (hash256 : bytes -> bytes),
  (forall x, length (hash256 x) = 32%nat) ->
  forall hdr_root total hashes hashes' flags proved proved',
  mb_is_valid hash256 hdr_root total hashes flags = Ok (true, proved) ->
  mb_is_valid hash256 hdr_root total hashes' flags = Ok (true, proved') ->
  (hashes = hashes' /\ proved = proved') \/
  (exists x y : bytes, x <> y /\ hash256 x = hash256 y).
Proof. exact proof_hash_binding_nolen. Qed.
Print Assumptions C17_proof_hash_tamper_detected_any_proof.

(* ---------------------------------------------------------------------------------- *)
(* (9) the wire level: MerkleBlock.parse(stream) then is_valid() / proved_txs()
   (Proofs/MerkleWireP.v; Spec/MerkleBlockWire.v is Core's CMerkleBlock serialisation) *)

(* every hash MerkleBlock.parse returns has 32 bytes (a short stream is an error): the
   32-byte hypothesis of (3)/(8) holds for every proof that comes from the wire *)
Theorem C17_parse_yields_32_byte_hashes : forall s hdr total hashes flags rest,
  mb_parse s = Ok (hdr, total, hashes, flags, rest) ->
  Forall (fun t => length t = 32%nat) hashes.
Proof. exact mb_parse_hashes_32. Qed.
Print Assumptions C17_parse_yields_32_byte_hashes.

(* MerkleBlock.parse inverts the Core layout of a merkleblock message *)
Theorem C17_parse_inverts_core_layout : forall hdr hb total hashes flags rest,
  header_wf hdr -> serialize_header hdr = Ok hb ->
  0 <= total < 4294967296 ->
  Forall (fun t => length t = 32%nat) hashes -> zlen hashes < 18446744073709551616 ->
  zlen flags < 9223372036854775808 ->
  mb_parse (merkleblock_bytes hb total hashes flags ++ rest) =
  Ok (hdr, total, map (@rev Z) hashes, flags, rest).
Proof. exact mb_parse_wire. Qed.
Print Assumptions C17_parse_inverts_core_layout.

(* soundness (ordered) for a proof taken from the wire — no hypothesis on the proof *)
Theorem C17_wire_proof_sound : forall (hash256 : bytes -> bytes),
  (forall x, length (hash256 x) = 32%nat) ->
  forall s hdr total hashes flags rest (ids : list bytes) proved,
  mb_parse s = Ok (hdr, total, hashes, flags, rest) ->
  ids <> [] -> Forall (fun t => length t = 32%nat) ids -> total = zlen ids ->
  validate_merkle_root hash256 (h_root hdr) ids = Ok true ->
  mb_is_valid hash256 (h_root hdr) total hashes flags = Ok (true, proved) ->
  (exists mv, length mv = length ids /\ proved = sel ids mv) \/
  (exists x y : bytes, x <> y /\ hash256 x = hash256 y).
Proof. exact wire_proof_sound. Qed.
Print Assumptions C17_wire_proof_sound.

Theorem C17_wire_proof_binding : forall (hash256 : bytes -> bytes),
  (forall x, length (hash256 x) = 32%nat) ->
  forall s s' hdr hdr' total hashes hashes' flags rest rest' proved proved',
  mb_parse s = Ok (hdr, total, hashes, flags, rest) ->
  mb_parse s' = Ok (hdr', total, hashes', flags, rest') ->
  h_root hdr = h_root hdr' ->
  mb_is_valid hash256 (h_root hdr) total hashes flags = Ok (true, proved) ->
  mb_is_valid hash256 (h_root hdr') total hashes' flags = Ok (true, proved') ->
  (hashes = hashes' /\ proved = proved') \/
  (exists x y : bytes, x <> y /\ hash256 x = hash256 y).
Proof. exact wire_proof_binding. Qed.
Print Assumptions C17_wire_proof_binding.

(* completeness from the wire: the message a full node builds (Core's CPartialMerkleTree
   constructor and CMerkleBlock layout) for any block of fewer than 2^32 transactions and any
   match vector parses back to the header and the authentic total, validates, and yields
   exactly the matched ids in order *)
Theorem C17_wire_proof_complete : forall (hash256 : bytes -> bytes),
  (forall x, length (hash256 x) = 32%nat) ->
  forall (ids : list bytes) (matches : list bool) hdr hb rest,
  ids <> [] -> Forall (fun t => length t = 32%nat) ids -> zlen ids < 4294967296 ->
  length matches = length ids ->
  header_wf hdr -> serialize_header hdr = Ok hb ->
  h_root hdr = rev (consensus_root hash256 (map (@rev Z) ids)) ->
  exists hashes flags,
    mb_parse (merkleblock_of_block hash256 hb (map (@rev Z) ids) matches ++ rest)
      = Ok (hdr, zlen ids, hashes, flags, rest) /\
    mb_is_valid hash256 (h_root hdr) (zlen ids) hashes flags = Ok (true, sel ids matches).
Proof. exact wire_proof_complete. Qed.
Print Assumptions C17_wire_proof_complete.

(* non-vacuity: a 32-byte "hash", three 32-byte ids, a well-formed header carrying their root;
   the wire message parses, validates, yields the matched ids; the hypotheses of
   C17_wire_proof_sound / C17_proof_sound_ordered_machine / C17_proof_hash_tamper_detected hold
   on it *)
Example C17_ex_hash_32 : forall x, length (ex_hash x) = 32%nat.
Proof. exact ex_hash_32. Qed.

Example C17_wire_instance :
  exists hb, serialize_header ex_hdr = Ok hb /\
  let w := merkleblock_of_block ex_hash hb (map (@rev Z) ex_ids) [true; false; true] in
  exists hashes flags,
    mb_parse (w ++ [9; 9]) = Ok (ex_hdr, 3, hashes, flags, [9; 9]) /\
    validate_merkle_root ex_hash (h_root ex_hdr) ex_ids = Ok true /\
    mb_is_valid ex_hash (h_root ex_hdr) 3 hashes flags = Ok (true, [repeatz 1 32; repeatz 3 32]) /\
    mb_parse_is_valid ex_hash (w ++ [9; 9]) = Ok (true, [repeatz 1 32; repeatz 3 32]) /\
    Forall (fun t => length t = 32%nat) hashes.
Proof. exact ex_wire_instance. Qed.

(* ---------------------------------------------------------------------------------- *)
(* (10) populate_tree's effect on the caller's list objects (Proofs/MerkleMutP.v) *)

(* the machine that also reports what is left in flag_bits / hashes equals the recursive one
   on all inputs *)
Theorem C17_populate_tree_mut_refines : forall (hash256 : bytes -> bytes) total bits hs,
  populate_tree_mut hash256 total bits hs = populate_tree_rec_mut hash256 total bits hs.
Proof. exact machine_mut_eq_traversal. Qed.
Print Assumptions C17_populate_tree_mut_refines.

(* after a successful populate_tree the caller's hash list is empty, the flag list is a suffix
   of what was passed and holds only zeros; root and proved ids are those of populate_tree;
   and every successful populate_tree is such a run *)
Theorem C17_populate_tree_consumes_lists : forall (hash256 : bytes -> bytes) total bits hs,
  (forall r p bits' hs',
     populate_tree_mut hash256 total bits hs = Ok (r, p, bits', hs') ->
     populate_tree hash256 total bits hs = Ok (r, p) /\
     hs' = [] /\ Forall (fun b => b = 0) bits' /\ exists used, bits = used ++ bits') /\
  (forall r p, populate_tree hash256 total bits hs = Ok (r, p) ->
     exists bits', populate_tree_mut hash256 total bits hs = Ok (r, p, bits', [])).
Proof.
  intros H total bits hs. split; [intros r p b' h'; apply populate_mut_spec | intros r p; apply populate_mut_complete].
Qed.
Print Assumptions C17_populate_tree_consumes_lists.

Example C17_populate_mut_instance :
  populate_tree_mut (fun x => x) 3 [1; 1; 0; 1; 1; 1; 0; 0; 0] [repeatz 1 32; repeatz 2 32; repeatz 3 32]
  = Ok (repeatz 1 32 ++ repeatz 2 32 ++ repeatz 3 32 ++ repeatz 3 32, [repeatz 2 32; repeatz 3 32], [0; 0; 0], []).
Proof. exact ex_populate_mut_instance. Qed.

(* ---------------------------------------------------------------------------------- *)
(* (11) HeadersMessage.is_valid as a decision procedure; HeadersMessage.parse . is_valid
   (Proofs/PowDeepP.v) *)

(* both directions for the outer function (last_block = None at the start): True exactly when
   every header passes check_pow and every header after the first names the hash of its
   predecessor *)
Theorem C17_header_chain_iff : forall (hash256 : bytes -> bytes),
  (forall x, hash256 x <> []) ->
  forall hs, headers_is_valid hash256 hs = Ok true <-> chain_ok hash256 hs.
Proof. exact headers_is_valid_iff. Qed.
Print Assumptions C17_header_chain_iff.

(* on well-formed headers (what parse_header yields from 80 bytes) is_valid never raises and
   decides chain_ok *)
Theorem C17_header_chain_decides : forall (hash256 : bytes -> bytes),
  (forall x, hash256 x <> []) ->
  forall hs, Forall header_wf hs ->
  exists ok, headers_is_valid hash256 hs = Ok ok /\ (ok = true <-> chain_ok hash256 hs).
Proof. exact headers_is_valid_decides. Qed.
Print Assumptions C17_header_chain_decides.

(* HeadersMessage.parse(peer's layout ++ rest).is_valid() = is_valid() of the headers sent *)
Theorem C17_wire_headers : forall (hash256 : bytes -> bytes) hs,
  Forall header_wf hs -> zlen hs < 18446744073709551616 ->
  exists b, headers_layout hs = Ok b /\
    forall rest, headers_parse_is_valid hash256 (b ++ rest) = headers_is_valid hash256 hs.
Proof. exact wire_headers. Qed.
Print Assumptions C17_wire_headers.

(* non-vacuity: two well-formed linked headers under a "hash" that meets every target *)
Example C17_header_chain_instance :
  headers_is_valid ex_zero_hash [ex_h1; ex_h2] = Ok true /\
  Forall header_wf [ex_h1; ex_h2] /\ (forall x, ex_zero_hash x <> []) /\
  exists b, headers_layout [ex_h1; ex_h2] = Ok b /\ headers_parse_is_valid ex_zero_hash (b ++ [3]) = Ok true.
Proof. exact ex_header_chain_instance. Qed.

(* ---------------------------------------------------------------------------------- *)
(* (12) Block.difficulty = lowest / target() (Model/Difficulty.v, Proofs/DifficultyP.v).
   Python's int / int is the double nearest to the exact quotient, ties to even; the model
   computes that double as (m, e) = m * 2^e.  [nearest_even a b m e] says, in integers:
   2^52 <= m <= 2^53, |a/b - m 2^e| <= 2^e / 2, and m is even when the distance is exactly
   half a unit — the properties that determine round-to-nearest-even uniquely. *)
Theorem C17_nearest_double_of_quotient : forall a b, 0 < a -> 0 < b < 2 ^ 256 ->
  let '(m, e) := rn_div a b in nearest_even a b m e.
Proof. exact rn_div_spec. Qed.
Print Assumptions C17_nearest_double_of_quotient.

(* on a header's four-byte bits: the nearest double to lowest / SetCompact(bits) whenever Core
   flags nothing and the target is not 0; an exception (ValueError, ZeroDivisionError) otherwise *)
Theorem C17_difficulty_correctly_rounded : forall bits, bytes_ok bits -> length bits = 4%nat ->
  let '(v, neg, ovf) := set_compact (from_le bits) in
  if neg || ovf then difficulty bits = Err
  else if v =? 0 then difficulty bits = Err
  else exists m e, difficulty bits = Ok (m, e) /\ nearest_even LOWEST v m e.
Proof. exact difficulty_spec. Qed.
Print Assumptions C17_difficulty_correctly_rounded.

(* for bits of any length: whatever difficulty() returns is the nearest double to
   lowest / target() *)
Theorem C17_difficulty_any_bits : forall bits m e, difficulty bits = Ok (m, e) ->
  exists t, bits_to_target bits = Ok (PInt t) /\ t <> 0 /\ nearest_even LOWEST t m e.
Proof. exact difficulty_any. Qed.
Print Assumptions C17_difficulty_any_bits.

(* the lowest difficulty (bits 0x1d00ffff) is exactly 1.0 *)
Example C17_difficulty_genesis :
  difficulty [255; 255; 0; 29] = Ok (2 ^ 52, -52) /\ ratio_of (2 ^ 52, -52) = (1, 1).
Proof. exact difficulty_genesis. Qed.

(* The constants written in the model are the constants of the SOURCE: coq/Generated/SrcConsts.v is regenerated
   from /repo/buidl/*.py by harness/gen_coq_consts.py on every run; the statements are spelled out in
   Proofs/ConstsTie.v (pow_is_source_stmt). *)
From V Require Proofs.ConstsTie.
Theorem C17_constants_match_source : ConstsTie.pow_is_source_stmt.
Proof. exact ConstsTie.pow_is_source. Qed.
Print Assumptions C17_constants_match_source.
