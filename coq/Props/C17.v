(* Props/C17.v — Merkle roots, SPV inclusion proofs and header proof-of-work follow consensus.
   Only statements, each closed by [exact] of a lemma from Proofs/, followed by Print
   Assumptions.  hash256 is universally quantified: every theorem holds for every function
   (32-byte output is an explicit hypothesis where a proof needs it).

   Models: Model/Merkle.v (merkle_root with its argument mutation made explicit),
   Model/MerkleBlock.v (faithful cursor machine [mb_is_valid] and the recursive traversal
   [mb_is_valid_rec]), Model/Pow.v.  Specs: Spec/Bip37.v (Core ComputeMerkleRoot and the
   CPartialMerkleTree builder), Spec/CorePow.v (arith_uint256 Set/GetCompact,
   CalculateNextWorkRequired, CheckProofOfWork). *)
From V Require Import Base.Prelude Base.Ints Model.Helper Model.Block Model.Merkle Model.MerkleBlock
  Model.Pow Spec.Bip37 Spec.CorePow
  Proofs.MerkleP Proofs.Bip37P Proofs.MerkleBlockP Proofs.MerkleRefine Proofs.MerkleRefineGen Proofs.PowP Proofs.PowP2 Proofs.PowP3.

(* ---------------------------------------------------------------------------------- *)
(* (1) Merkle root *)

(* merkle_root of every non-empty list is the consensus root (pairwise double hash with
   duplication of the last element of odd levels); the second component is the caller's
   list after the call (merkle_parent_level appends to it in place) *)
Theorem C17_merkle_root_eq_consensus : forall (hash256 : bytes -> bytes) (l : list bytes),
  l <> [] -> merkle_root hash256 l = Ok (consensus_root hash256 l, mutated l).
Proof. exact merkle_root_eq. Qed.
Print Assumptions C17_merkle_root_eq_consensus.

(* the in-place mutation cannot change a later result: a second call on the mutated list
   returns the same root and leaves the list as it is; and the mutation only appends *)
Theorem C17_merkle_root_ignores_mutation : forall (hash256 : bytes -> bytes) (l : list bytes),
  l <> [] ->
  merkle_root hash256 (mutated l) = Ok (consensus_root hash256 l, mutated l) /\
  exists t, mutated l = l ++ t /\ (length t <= 1)%nat.
Proof. intros H l Hne. split; [now apply merkle_root_mutation_harmless | apply mutated_prefix]. Qed.
Print Assumptions C17_merkle_root_ignores_mutation.

Theorem C17_merkle_root_empty_raises : forall hash256, merkle_root hash256 [] = Err.
Proof. exact merkle_root_nil. Qed.
Print Assumptions C17_merkle_root_empty_raises.

Theorem C17_validate_merkle_root : forall (hash256 : bytes -> bytes) hdr_root (tx_hashes : list bytes),
  tx_hashes <> [] ->
  validate_merkle_root hash256 hdr_root tx_hashes =
  Ok (beq (rev (consensus_root hash256 (map (@rev Z) tx_hashes))) hdr_root).
Proof. exact validate_merkle_root_eq. Qed.
Print Assumptions C17_validate_merkle_root.

(* the level-by-level consensus root is CalcHash(height, 0) of BIP37, and the tree height
   MerkleTree.__init__ computes with bit_length is the one of CPartialMerkleTree *)
Theorem C17_consensus_root_is_calc_hash : forall (hash256 : bytes -> bytes) (txids : list bytes),
  (1 <= length txids)%nat ->
  consensus_root hash256 txids = calc_hash hash256 txids (tree_height txids) 0 /\
  tree_height txids = max_depth (Z.of_nat (length txids)).
Proof.
  intros H t Hn. split; [now apply consensus_root_calc_hash | now apply tree_height_max_depth].
Qed.
Print Assumptions C17_consensus_root_is_calc_hash.

(* ---------------------------------------------------------------------------------- *)
(* (2) completeness: for every block size n >= 1 and every match set, the BIP37 partial
   Merkle tree built per the specification validates against the true root and yields
   exactly the matched ids in order *)
Theorem C17_proof_complete : forall (hash256 : bytes -> bytes) (ids : list bytes) (matches : list bool),
  ids <> [] -> length matches = length ids ->
  let txids := map (@rev Z) ids in
  let '(total, hashes, flags) := bip37_proof hash256 txids matches in
  total = zlen ids /\
  mb_is_valid_rec hash256 (rev (consensus_root hash256 txids)) total (map (@rev Z) hashes) flags
  = Ok (true, sel ids matches).
Proof. exact proof_complete. Qed.
Print Assumptions C17_proof_complete.

Example C17_proof_complete_instance :
  let H := fun x : bytes => firstn 2 (x ++ [7; 9]) in
  let ids := [[1; 2]; [3; 4]; [5; 6]] in
  let '(total, hashes, flags) := bip37_proof H (map (@rev Z) ids) [false; true; true] in
  mb_is_valid_rec H (rev (consensus_root H (map (@rev Z) ids))) total (map (@rev Z) hashes) flags
  = Ok (true, [[3; 4]; [5; 6]]) /\
  mb_is_valid H (rev (consensus_root H (map (@rev Z) ids))) total (map (@rev Z) hashes) flags
  = Ok (true, [[3; 4]; [5; 6]]).
Proof. split; reflexivity. Qed.

(* ---------------------------------------------------------------------------------- *)
(* (3) soundness when total is the block's transaction count: every id yielded by a proof
   that validates against the true root is an id of the block, or a hash256 collision is
   exhibited *)
Theorem C17_proof_sound_known_total : forall (hash256 : bytes -> bytes),
  (forall x, length (hash256 x) = 32%nat) ->
  forall (ids : list bytes) hdr_root hashes flags proved,
  ids <> [] -> Forall (fun t => length t = 32%nat) ids ->
  Forall (fun t => length t = 32%nat) hashes ->
  validate_merkle_root hash256 hdr_root ids = Ok true ->
  mb_is_valid_rec hash256 hdr_root (zlen ids) hashes flags = Ok (true, proved) ->
  (forall m, In m proved -> In m ids) \/
  (exists x y : bytes, x <> y /\ hash256 x = hash256 y).
Proof. exact proof_sound_known_total. Qed.
Print Assumptions C17_proof_sound_known_total.

(* ---------------------------------------------------------------------------------- *)
(* (4) known finding K-C17-total: `total` is taken from the message.  A block with two
   transactions presented with total = 1 "proves" its root (an interior node) as a
   transaction id; four transactions presented as total = 2 prove the two level-1 nodes.
   Both the cursor machine and the recursive traversal accept, for every hash function. *)
Theorem C17_proof_unsound_free_total_refuted : forall (hash256 : bytes -> bytes) (a b : bytes),
  let ids := [a; b] in
  let node := hash256 (rev a ++ rev b) in
  validate_merkle_root hash256 (rev node) ids = Ok true /\
  mb_is_valid hash256 (rev node) 1 [rev node] [1] = Ok (true, [rev node]) /\
  mb_is_valid_rec hash256 (rev node) 1 [rev node] [1] = Ok (true, [rev node]).
Proof. exact forged_total_2_as_1. Qed.
Print Assumptions C17_proof_unsound_free_total_refuted.

Theorem C17_proof_unsound_free_total_4_as_2_refuted : forall (hash256 : bytes -> bytes) (a b c d : bytes),
  let ids := [a; b; c; d] in
  let n1 := hash256 (rev a ++ rev b) in
  let n2 := hash256 (rev c ++ rev d) in
  let root := hash256 (n1 ++ n2) in
  validate_merkle_root hash256 (rev root) ids = Ok true /\
  mb_is_valid hash256 (rev root) 2 [rev n1; rev n2] [7] = Ok (true, [rev n1; rev n2]) /\
  mb_is_valid_rec hash256 (rev root) 2 [rev n1; rev n2] [7] = Ok (true, [rev n1; rev n2]).
Proof. exact forged_total_4_as_2. Qed.
Print Assumptions C17_proof_unsound_free_total_4_as_2_refuted.

(* the 32-byte hypothesis on the proof hashes in (3) is needed: a MerkleBlock object built
   directly (MerkleBlock.parse always produces 32-byte hashes) with a 33- and a 31-byte
   hash splits la ++ lb elsewhere and validates with the authentic total (K-C17-hashlen) *)
Theorem C17_proof_unsound_hash_length_refuted : forall (hash256 : bytes -> bytes) (la lb' : bytes) (x : Z),
  let lb := x :: lb' in
  let ids := [rev la; rev lb] in
  let root := hash256 (la ++ lb) in
  validate_merkle_root hash256 (rev root) ids = Ok true /\
  mb_is_valid hash256 (rev root) 2 [rev (la ++ [x]); rev lb'] [7]
    = Ok (true, [rev (la ++ [x]); rev lb']) /\
  mb_is_valid_rec hash256 (rev root) 2 [rev (la ++ [x]); rev lb'] [7]
    = Ok (true, [rev (la ++ [x]); rev lb']).
Proof. exact split_hash_length. Qed.
Print Assumptions C17_proof_unsound_hash_length_refuted.

(* the forged id really is foreign whenever the node hash differs from both leaves *)
Example C17_forged_id_is_foreign :
  let H := fun x : bytes => firstn 2 (x ++ [7; 9]) ++ [1] in
  let a := [1; 2] in let b := [3; 4] in
  ~ In (rev (H (rev a ++ rev b))) [a; b].
Proof. cbn. intros [E|[E|[]]]; discriminate E. Qed.

(* ---------------------------------------------------------------------------------- *)
(* (5) the cursor machine of MerkleTree.populate_tree equals the recursive traversal.
   The GENERAL statement is proved (C17_cursor_machine_refines_traversal below, from
   Proofs/MerkleRefineGen.v): for every hash function, every total (no upper bound), every
   flag list and every hash list  populate_tree = populate_tree_rec, error cases included
   (the machine raises exactly when the traversal does: flag bits / hashes running out,
   leftover bits / hashes; populate_fuel always suffices).  The two bounded sweeps are kept
   as cheap regression checks by kernel evaluation: every total 1..6 (sweep_max_total),
   every flag string over {0,1} up to the longest the tree can consume (+1), every number of
   supplied hashes (hash256 := concatenation keeps every node value distinguishable). *)
Theorem C17_cursor_machine_refines_traversal_partial :
  forall total bits nh,
  In total (map Z.of_nat (seq 1 sweep_max_total)) ->
  In bits (bit_strings_upto (sweep_len total)) ->
  In nh (seq 0 (sweep_hashes total)) ->
  populate_tree (fun x => x) total bits (sym_hashes nh) =
  populate_tree_rec (fun x => x) total bits (sym_hashes nh).
Proof. exact machine_eq_traversal_sweep. Qed.
Print Assumptions C17_cursor_machine_refines_traversal_partial.

(* the same with flag values 0, 1, 2 (anything but 1 is "not matched" at a leaf, anything
   but 0 is "descend" at an interior node) for totals 1..4 *)
Theorem C17_cursor_machine_refines_traversal_flags012_partial :
  forall total bits nh,
  In total (map Z.of_nat (seq 1 sweep3_max_total)) ->
  In bits (flag_strings_upto (sweep_len total)) ->
  In nh (seq 0 (sweep_hashes total)) ->
  populate_tree (fun x => x) total bits (sym_hashes nh) =
  populate_tree_rec (fun x => x) total bits (sym_hashes nh).
Proof. exact machine_eq_traversal_sweep3. Qed.
Print Assumptions C17_cursor_machine_refines_traversal_flags012_partial.

(* the general statement: the faithful cursor machine (node table, current depth / index,
   one loop iteration per unit of fuel) and the recursive depth-first traversal return the
   same result — the same (root, proved ids) or both raise — on ALL inputs *)
Theorem C17_cursor_machine_refines_traversal : forall (hash256 : bytes -> bytes) total bits hs,
  populate_tree hash256 total bits hs = populate_tree_rec hash256 total bits hs.
Proof. exact machine_eq_traversal. Qed.
Print Assumptions C17_cursor_machine_refines_traversal.

(* hence MerkleBlock.is_valid on the machine is is_valid on the traversal ... *)
Theorem C17_is_valid_machine_eq_traversal : forall (hash256 : bytes -> bytes) hdr_root total hashes flags,
  mb_is_valid hash256 hdr_root total hashes flags =
  mb_is_valid_rec hash256 hdr_root total hashes flags.
Proof. exact mb_is_valid_eq_rec. Qed.
Print Assumptions C17_is_valid_machine_eq_traversal.

(* ... and (2) completeness and (3) soundness with known total hold for the faithful
   cursor machine [mb_is_valid] *)
Theorem C17_proof_complete_machine : forall (hash256 : bytes -> bytes) (ids : list bytes) (matches : list bool),
  ids <> [] -> length matches = length ids ->
  let txids := map (@rev Z) ids in
  let '(total, hashes, flags) := bip37_proof hash256 txids matches in
  total = zlen ids /\
  mb_is_valid hash256 (rev (consensus_root hash256 txids)) total (map (@rev Z) hashes) flags
  = Ok (true, sel ids matches).
Proof. exact proof_complete_machine. Qed.
Print Assumptions C17_proof_complete_machine.

Theorem C17_proof_sound_known_total_machine : forall (hash256 : bytes -> bytes),
  (forall x, length (hash256 x) = 32%nat) ->
  forall (ids : list bytes) hdr_root hashes flags proved,
  ids <> [] -> Forall (fun t => length t = 32%nat) ids ->
  Forall (fun t => length t = 32%nat) hashes ->
  validate_merkle_root hash256 hdr_root ids = Ok true ->
  mb_is_valid hash256 hdr_root (zlen ids) hashes flags = Ok (true, proved) ->
  (forall m, In m proved -> In m ids) \/
  (exists x y : bytes, x <> y /\ hash256 x = hash256 y).
Proof. exact proof_sound_known_total_machine. Qed.
Print Assumptions C17_proof_sound_known_total_machine.

(* ---------------------------------------------------------------------------------- *)
(* (6) compact bits *)

(* on the guarded domain (4 bytes, exponent >= 3, sign bit clear, Core's overflow flag
   clear — this contains every exponent 3..32 with the sign bit clear) bits_to_target is
   Core's SetCompact, which flags neither negative nor overflow *)
Theorem C17_compact_eq_core : forall bits,
  compact_guard bits = true ->
  exists v, bits_to_target bits = Ok (PInt v) /\ set_compact (from_le bits) = (v, false, false) /\
            0 <= v < 2 ^ 256.
Proof. exact bits_to_target_core. Qed.
Print Assumptions C17_compact_eq_core.

Theorem C17_compact_guard_3_to_32 : forall bits, compact_guard32 bits = true -> compact_guard bits = true.
Proof. exact compact_guard32_guard. Qed.
Print Assumptions C17_compact_guard_3_to_32.

(* the guard is exact: for four-byte bits outside it there is no v such that bits_to_target
   returns the int v and SetCompact returns v without negative / overflow flag *)
Theorem C17_compact_guard_exact : forall bits,
  bytes_ok bits -> length bits = 4%nat -> compact_guard bits = false ->
  forall v, ~ (bits_to_target bits = Ok (PInt v) /\ set_compact (from_le bits) = (v, false, false)).
Proof. exact compact_guard_exact. Qed.
Print Assumptions C17_compact_guard_exact.

Example C17_compact_guard_mainnet : compact_guard [255; 255; 0; 29] = true.
Proof. reflexivity. Qed.

(* known finding K-C17-compact: the divergences outside the guard *)
Theorem C17_compact_exponent_lt3_refuted :
  exists bits, bytes_ok bits /\ length bits = 4%nat /\
    bits_to_target bits = Ok (PFloat 256 1) /\ set_compact (from_le bits) = (1, false, false).
Proof. exact compact_exponent_lt3_refuted. Qed.
Print Assumptions C17_compact_exponent_lt3_refuted.

Theorem C17_compact_sign_bit_refuted :
  exists bits, bytes_ok bits /\ length bits = 4%nat /\
    bits_to_target bits = Ok (PInt 2147483904) /\ set_compact (from_le bits) = (256, true, false).
Proof. exact compact_sign_bit_refuted. Qed.
Print Assumptions C17_compact_sign_bit_refuted.

Theorem C17_compact_overflow_refuted :
  exists bits v, bytes_ok bits /\ length bits = 4%nat /\
    bits_to_target bits = Ok (PInt v) /\ 2 ^ 256 <= v /\ snd (set_compact (from_le bits)) = true.
Proof. exact compact_overflow_refuted. Qed.
Print Assumptions C17_compact_overflow_refuted.

(* target_to_bits is Core's GetCompact (as a little-endian uint32) for every target from
   0x8000 up to 2^256 - 1 *)
Theorem C17_target_to_bits_eq_core : forall t,
  32768 <= t < 2 ^ 256 ->
  exists bits, target_to_bits t = Ok bits /\ length bits = 4%nat /\ bytes_ok bits /\
               from_le bits = get_compact t.
Proof. exact target_to_bits_core. Qed.
Print Assumptions C17_target_to_bits_eq_core.

(* below 0x8000 every result has fewer than 4 bytes; 0 raises (Core: 0) *)
Theorem C17_target_to_bits_small_refuted :
  (forall t, 0 < t < 32768 -> exists bits, target_to_bits t = Ok bits /\ (length bits < 4)%nat) /\
  target_to_bits 0 = Err /\ get_compact 0 = 0.
Proof. exact target_to_bits_small. Qed.
Print Assumptions C17_target_to_bits_small_refuted.

(* ---------------------------------------------------------------------------------- *)
(* (7) retarget, proof of work, header chain *)

(* calculate_new_bits is CalculateNextWorkRequired (both clamps, the cap) for previous
   bits in the guarded domain whose target is in [0x20000, powLimit] *)
Theorem C17_retarget_eq_consensus : forall bits td v,
  compact_guard bits = true ->
  set_compact (from_le bits) = (v, false, false) ->
  131072 <= v <= pow_limit ->
  exists nb, calculate_new_bits bits td = Ok nb /\ length nb = 4%nat /\
             from_le nb = next_work_required (from_le bits) td.
Proof. exact retarget_core. Qed.
Print Assumptions C17_retarget_eq_consensus.

Example C17_retarget_instance :
  calculate_new_bits [255; 255; 0; 29] 302400 = Ok [192; 255; 63; 28] /\
  next_work_required (from_le [255; 255; 0; 29]) 302400 = from_le [192; 255; 63; 28].
Proof. split; reflexivity. Qed.

(* check_pow is the consensus comparison hash <= target except when hash = target
   (explicit hypothesis) *)
Theorem C17_check_pow_consensus : forall (hash256 : bytes -> bytes) h s v,
  serialize_header h = Ok s ->
  bits_to_target (h_bits h) = Ok (PInt v) ->
  from_le (hash256 s) <> v ->
  check_pow hash256 h = Ok (negb (from_le (hash256 s) >? v)).
Proof. exact check_pow_consensus. Qed.
Print Assumptions C17_check_pow_consensus.

Theorem C17_check_pow_eq_core : forall (hash256 : bytes -> bytes) h s,
  serialize_header h = Ok s ->
  compact_guard (h_bits h) = true ->
  (forall v, set_compact (from_le (h_bits h)) = (v, false, false) ->
             v <> 0 /\ v <= pow_limit /\ from_le (hash256 s) <> v) ->
  check_pow hash256 h = Ok (check_proof_of_work (from_le (hash256 s)) (from_le (h_bits h))).
Proof. exact check_pow_core. Qed.
Print Assumptions C17_check_pow_eq_core.

(* hash = target: consensus accepts, check_pow rejects (known, practically unreachable) *)
Theorem C17_check_pow_equal_refuted :
  exists (hash256 : bytes -> bytes) (h : header) s v,
    (forall x, length (hash256 x) = 32%nat) /\
    serialize_header h = Ok s /\ compact_guard (h_bits h) = true /\
    bits_to_target (h_bits h) = Ok (PInt v) /\ from_le (hash256 s) = v /\
    check_pow hash256 h = Ok false /\
    check_proof_of_work (from_le (hash256 s)) (from_le (h_bits h)) = true.
Proof. exact check_pow_equal_refuted. Qed.
Print Assumptions C17_check_pow_equal_refuted.

(* HeadersMessage.is_valid => every header passes check_pow and each header's prev_block
   is the hash of its predecessor *)
Theorem C17_header_chain_linkage : forall (hash256 : bytes -> bytes),
  (forall x, hash256 x <> []) ->
  forall h0 r,
  headers_is_valid hash256 (h0 :: r) = Ok true ->
  Forall (fun h => check_pow hash256 h = Ok true) (h0 :: r) /\
  exists hh0, block_hash hash256 h0 = Ok hh0 /\ linked hash256 hh0 r.
Proof. exact headers_is_valid_linkage. Qed.
Print Assumptions C17_header_chain_linkage.

Theorem C17_header_chain_accepts_linked : forall (hash256 : bytes -> bytes) hs lb,
  Forall (fun h => check_pow hash256 h = Ok true) hs -> linked hash256 lb hs ->
  headers_valid_loop hash256 hs (Some lb) = Ok true.
Proof. exact headers_linked_valid. Qed.
Print Assumptions C17_header_chain_accepts_linked.

(* The constants written in the model are the constants of the SOURCE: coq/Generated/SrcConsts.v is regenerated
   from /repo/buidl/*.py by harness/gen_coq_consts.py on every run; the statements are spelled out in
   Proofs/ConstsTie.v (pow_is_source_stmt). *)
From V Require Proofs.ConstsTie.
Theorem C17_constants_match_source : ConstsTie.pow_is_source_stmt.
Proof. exact ConstsTie.pow_is_source. Qed.
Print Assumptions C17_constants_match_source.
