(* Props/C08.v — BIP32 derivation (public/private consistency, refusal of hardened public
   derivation, composition), agreement with the BIP32 text, the 78-byte extended-key codec with
   the 20 SLIP-132 version prefixes, xpub blinding.

   Statements only; proofs are in Proofs/HdP.v (derivation), Proofs/HdPathP.v (path text),
   Proofs/HdCodecP.v (codec, blinding).  HMAC-SHA512 and HASH160 are universally quantified
   functions.  The group facts about the curve are the explicit hypothesis [scalar_laws C]
   (Proofs/GroupHyp.v): never an axiom; it is discharged for the toy curve in the Examples. *)
From V Require Import Base.Prelude Base.Ints Model.Pecc Model.Base58 Model.Hd Model.HdStr Model.HdText Model.HdMemo
  Generated.HdVersions
  Proofs.GroupHyp Proofs.PeccEnc Proofs.HdP Proofs.HdPathP Proofs.HdCodecP Proofs.HdStrP Proofs.HdTextP
  Proofs.HdSpecP Proofs.HdBlindP Proofs.HdNormP Proofs.CurveSweep Proofs.ToyCurve.
From V Require Spec.Bip32.

(* ------------------------------------------------------------------------------------------
   (1) pub(CKDpriv(k, i)) = CKDpub(pub(k), i) for every non-hardened i: the two key OBJECTS are
   equal, i.e. point, chain code, depth, parent fingerprint, child number (the five serialised
   fields) and also network and version bytes.  [wf_priv C k] says that k is a key object as
   the constructor leaves it (1 <= secret <= n-1 and point = secret*G).
   The only way the private side fails is a child secret of 0 (PrivateKey(0) raises); the
   public side then returns the point at infinity — the event BIP32 calls "invalid". *)
Theorem C08_ckd_pub_priv_commute :
  forall (C : curve) (hmac512 : bytes -> bytes -> bytes) (hash160 : bytes -> bytes),
  scalar_laws C ->
  forall (k : hdpriv) (i : Z),
  wf_priv C k -> 0 <= i < 2147483648 ->
  let il := IL_normal hmac512 (sk_cc k) (sk_pt k) i in
  ((il + sk k) mod cn C <> 0 ->
     exists k', child_priv C hmac512 hash160 k i = Ok k' /\ wf_priv C k' /\
                sk k' = (il + sk k) mod cn C /\
                child_pub C hmac512 hash160 (pub_of k) i = Ok (pub_of k')) /\
  ((il + sk k) mod cn C = 0 ->
     child_priv C hmac512 hash160 k i = Err /\
     exists q, child_pub C hmac512 hash160 (pub_of k) i = Ok q /\ pk q = None).
Proof. exact ckd_pub_priv_commute. Qed.
Print Assumptions C08_ckd_pub_priv_commute.

(* the same along a whole non-hardened index path *)
Theorem C08_derive_pub_priv_commute :
  forall C hmac512 hash160, scalar_laws C ->
  forall idxs k k',
  wf_priv C k ->
  derive_priv C hmac512 hash160 k idxs = Ok k' ->
  Forall (fun i => 0 <= i < 2147483648) idxs ->
  wf_priv C k' /\ derive_pub C hmac512 hash160 (pub_of k) idxs = Ok (pub_of k').
Proof. exact derive_commute. Qed.
Print Assumptions C08_derive_pub_priv_commute.

(* ------------------------------------------------------------------------------------------
   (2) refusal *)
Theorem C08_ckd_pub_refuses_hardened :
  forall C hmac512 hash160 (k : hdpub) i,
  2147483648 <= i \/ i < 0 -> child_pub C hmac512 hash160 k i = Err.
Proof. exact ckd_pub_refuses_hardened. Qed.
Print Assumptions C08_ckd_pub_refuses_hardened.

Theorem C08_derive_pub_refuses_hardened :
  forall C hmac512 hash160 (k : hdpub) idxs,
  Exists (fun i => 2147483648 <= i \/ i < 0) idxs -> derive_pub C hmac512 hash160 k idxs = Err.
Proof. exact derive_pub_refuses_hardened. Qed.
Print Assumptions C08_derive_pub_refuses_hardened.

Theorem C08_ckd_priv_refuses_out_of_range :
  forall C hmac512 hash160 (k : hdpriv) i,
  i < 0 \/ 4294967296 <= i -> child_priv C hmac512 hash160 k i = Err.
Proof. exact ckd_priv_refuses_out_of_range. Qed.
Print Assumptions C08_ckd_priv_refuses_out_of_range.

(* ------------------------------------------------------------------------------------------
   (3) composition at index-list level; the traverse methods are "parse the text, then fold" *)
Theorem C08_traverse_app_priv :
  forall C hmac512 hash160 k p q,
  derive_priv C hmac512 hash160 k (p ++ q) =
  (k' <- derive_priv C hmac512 hash160 k p ;; derive_priv C hmac512 hash160 k' q).
Proof. exact derive_priv_app. Qed.
Print Assumptions C08_traverse_app_priv.

Theorem C08_traverse_app_pub :
  forall C hmac512 hash160 k p q,
  derive_pub C hmac512 hash160 k (p ++ q) =
  (k' <- derive_pub C hmac512 hash160 k p ;; derive_pub C hmac512 hash160 k' q).
Proof. exact derive_pub_app. Qed.
Print Assumptions C08_traverse_app_pub.

Theorem C08_traverse_priv_is_fold :
  forall C hmac512 hash160 k path,
  traverse_priv C hmac512 hash160 k path =
  (idxs <- path_indexes_priv path ;; derive_priv C hmac512 hash160 k idxs).
Proof. exact traverse_priv_eq. Qed.
Print Assumptions C08_traverse_priv_is_fold.

Theorem C08_traverse_pub_is_fold :
  forall C hmac512 hash160 k path,
  traverse_pub C hmac512 hash160 k path =
  (idxs <- path_indexes_pub path ;; derive_pub C hmac512 hash160 k idxs).
Proof. exact traverse_pub_eq. Qed.
Print Assumptions C08_traverse_pub_is_fold.

(* ------------------------------------------------------------------------------------------
   (4) model = BIP32 text (Spec/Bip32.v) whenever the standard's result is valid.
   The standard says: IL >= n or child key 0 / infinity => the key is invalid, use the next
   index.  The code does not test this: it reduces mod n (and raises only on 0).  The event has
   probability about 2^-127 and no input exhibiting it is known, so it is the explicit
   hypothesis "CKD... = Some ..." here, not a finding. *)
Theorem C08_ckd_priv_eq_bip32 :
  forall C hmac512 hash160, scalar_laws C -> cn C < pow256 32 ->
  forall k i ki ci,
  wf_priv C k -> 0 <= i < 4294967296 ->
  Bip32.CKDpriv C hmac512 (sk k, sk_cc k) i = Some (ki, ci) ->
  exists k', child_priv C hmac512 hash160 k i = Ok k' /\ sk k' = ki /\ sk_cc k' = ci /\
             sk_depth k' = sk_depth k + 1 /\ sk_num k' = i /\
             sk_pfp k' = Bip32.fingerprint hash160 (Bip32.point C (sk k)).
Proof.
  intros C hm h SL Hn k i ki ci Hwf Hi Hs.
  pose proof (ckd_priv_eq_bip32 C hm h SL Hn k i Hwf Hi) as H. rewrite Hs in H. exact H.
Qed.
Print Assumptions C08_ckd_priv_eq_bip32.

Theorem C08_ckd_pub_eq_bip32 :
  forall C hmac512 hash160, scalar_laws C ->
  forall (k : hdpub) i Ki ci,
  valid C (pk k) -> pk k <> None -> 0 <= i ->
  Bip32.CKDpub C hmac512 (pk k, pk_cc k) i = Some (Ki, ci) ->
  exists k', child_pub C hmac512 hash160 k i = Ok k' /\ pk k' = Ki /\ pk_cc k' = ci /\
             pk_depth k' = pk_depth k + 1 /\ pk_num k' = i /\
             pk_pfp k' = Bip32.fingerprint hash160 (pk k).
Proof.
  intros C hm h SL k i Ki ci Hv Hn Hi Hs.
  pose proof (ckd_pub_eq_bip32 C hm h SL k i Hv Hn Hi) as H. rewrite Hs in H. exact H.
Qed.
Print Assumptions C08_ckd_pub_eq_bip32.

(* master key: here the code agrees with the standard on the whole domain (IL = 0 or IL >= n
   is refused by PrivateKey()) *)
Theorem C08_from_seed_eq_bip32 :
  forall C hmac512, scalar_laws C -> (forall key msg, bytes_ok (hmac512 key msg)) ->
  forall seed net ver pv,
  match Bip32.master C hmac512 seed with
  | Some (kM, cM) =>
      forall v p,
        (match ver with Some x => Ok x | None => tbl_get Generated.HdVersions.tbl_xprv net end) = Ok v ->
        (match pv with Some x => Ok x | None => tbl_get Generated.HdVersions.tbl_xpub net end) = Ok p ->
        exists k, from_seed C hmac512 seed net ver pv = Ok k /\ wf_priv C k /\ sk k = kM /\ sk_cc k = cM /\
                  sk_depth k = 0 /\ sk_num k = 0 /\ sk_pfp k = [0;0;0;0] /\ sk_ver k = v /\ sk_pubver k = p
  | None => from_seed C hmac512 seed net ver pv = Err
  end.
Proof. exact from_seed_eq_bip32. Qed.
Print Assumptions C08_from_seed_eq_bip32.

(* ------------------------------------------------------------------------------------------
   (3, text level) Path text.  [path_indexes_priv] / [path_indexes_pub] are what the loops of
   HDPrivateKey.traverse / HDPublicKey.traverse read out of a string (lower-casing, h -> ',
   split on '/', int()).  A path accepted by is_valid_bip32_path parses, every index is in
   [0, 2^32) and there are at most 255 steps; the text produced by combine_bip32_paths reads as
   the concatenation of the two index lists, in ' or h notation and either letter case.
   [tidy p]: no surrounding blanks and no "//" (the only things the forgiving normalisation of
   is_valid/combine removes but traverse does not). *)
Theorem C08_valid_path_parses :
  forall p, is_valid_path p = true ->
  exists l, path_indexes_priv (norm_valid p) = Ok l /\
            Forall (fun i => 0 <= i < 4294967296) l /\ (length l <= 255)%nat.
Proof. exact valid_path_indexes. Qed.
Print Assumptions C08_valid_path_parses.

Theorem C08_parse_combine_normalised :
  forall a b, is_valid_path a = true -> is_valid_path b = true ->
  exists z, combine_paths a b = Ok z /\
    path_indexes_priv z =
      (x <- path_indexes_priv (norm_valid a) ;; y <- path_indexes_priv (norm_valid b) ;; Ok (x ++ y)) /\
    path_indexes_pub z =
      (x <- path_indexes_pub (norm_valid a) ;; y <- path_indexes_pub (norm_valid b) ;; Ok (x ++ y)).
Proof.
  intros a b Ha Hb. destruct (combine_indexes a b Ha Hb) as (z & Hz & H).
  exists z. split; [exact Hz|]. split; [exact (H comp_index_priv) | exact (H comp_index_pub)].
Qed.
Print Assumptions C08_parse_combine_normalised.

Theorem C08_parse_combine :
  forall a b,
  is_valid_path a = true -> is_valid_path b = true -> tidy a = true -> tidy b = true ->
  exists z, combine_paths a b = Ok z /\
    path_indexes_priv z = (x <- path_indexes_priv a ;; y <- path_indexes_priv b ;; Ok (x ++ y)) /\
    path_indexes_pub z = (x <- path_indexes_pub a ;; y <- path_indexes_pub b ;; Ok (x ++ y)).
Proof.
  intros a b Ha Hb Ta Tb.
  destruct (parse_combine comp_index_priv a b Ha Hb Ta Tb) as (z & Hz & H1).
  destruct (parse_combine comp_index_pub a b Ha Hb Ta Tb) as (z' & Hz' & H2).
  rewrite Hz in Hz'. inversion Hz'; subst z'.
  exists z. split; [exact Hz|]. split; [exact H1 | exact H2].
Qed.
Print Assumptions C08_parse_combine.

(* string-level composition of the private traverse: p then q = the combined path *)
Theorem C08_traverse_combined :
  forall C hmac512 hash160 k a b,
  is_valid_path a = true -> is_valid_path b = true -> tidy a = true -> tidy b = true ->
  exists z, combine_paths a b = Ok z /\
    traverse_priv C hmac512 hash160 k z =
    (k' <- traverse_priv C hmac512 hash160 k a ;; traverse_priv C hmac512 hash160 k' b) /\
    traverse_pub C hmac512 hash160 (pub_of k) z =
    (k' <- traverse_pub C hmac512 hash160 (pub_of k) a ;; traverse_pub C hmac512 hash160 k' b).
Proof.
  intros C hm h k a b Ha Hb Ta Tb.
  destruct (C08_parse_combine a b Ha Hb Ta Tb) as (z & Hz & H1 & H2).
  destruct (valid_path_indexes b Hb) as (lb & Hlb & _).
  rewrite path_indexes_priv_gen, tidy_indexes, <- path_indexes_priv_gen in Hlb by exact Tb.
  exists z. split; [exact Hz|]. split.
  - rewrite !traverse_priv_eq, H1.
    destruct (path_indexes_priv a) as [la|]; cbn [bind]; [|reflexivity].
    rewrite Hlb. cbn [bind]. rewrite derive_priv_app.
    destruct (derive_priv C hm h k la) as [k1|]; cbn [bind]; [|reflexivity].
    rewrite traverse_priv_eq, Hlb. reflexivity.
  - rewrite !traverse_pub_eq, H2.
    destruct (path_indexes_pub a) as [la|]; cbn [bind]; [|reflexivity].
    destruct (path_indexes_pub b) as [lb'|] eqn:Eb; cbn [bind].
    + rewrite derive_pub_app.
      destruct (derive_pub C hm h (pub_of k) la) as [k1|]; cbn [bind]; [|reflexivity].
      rewrite traverse_pub_eq, Eb. reflexivity.
    + destruct (derive_pub C hm h (pub_of k) la) as [k1|]; cbn [bind]; [|reflexivity].
      rewrite traverse_pub_eq, Eb. reflexivity.
Qed.
Print Assumptions C08_traverse_combined.

(* ------------------------------------------------------------------------------------------
   (5) extended keys survive serialise/parse exactly.  First on the 78 raw bytes that
   Base58Check carries (C08_xprv_roundtrip, C08_xpub_roundtrip and the converses
   C08_*_parse_serialize); then on the STRINGS that xprv()/xpub() return and parse() reads
   (C08_*_string_roundtrip, C08_*_string_parse_serialize, C08_xkey_string_rejects further
   down): Model/HdStr.v composes the 78-byte codec with the Base58Check model of C09
   (Model/Base58.v) and Proofs/HdStrP.v composes the two round-trip proofs, so the string
   level is a theorem, no longer only tied by correspondence.
   All 20 SLIP-132 prefixes: the tables are generated from hd.py and equal the registry. *)
Theorem C08_versions_are_slip132 :
  same_set_b all_mainnet_xpubs (map fst Bip32.slip132_mainnet) = true /\
  same_set_b all_mainnet_xprvs (map snd Bip32.slip132_mainnet) = true /\
  same_set_b all_testnet_xpubs (map fst Bip32.slip132_testnet) = true /\
  same_set_b all_testnet_xprvs (map snd Bip32.slip132_testnet) = true /\
  length all_versions = 20%nat /\ nodup_b all_versions = true /\
  forallb (fun v => (length v =? 4)%nat && bytes_okb v) all_versions = true /\
  forallb known_xprv tbl_xprv = true /\ forallb known_xpub tbl_xpub = true /\
  map net_of_xprv tbl_xprv = [0; 1; 1; 1] /\ map net_of_xpub tbl_xpub = [0; 1; 1; 1].
Proof.
  destruct versions_are_slip132 as (A & B & D & E). destruct versions_shape as (F & G & H & I & J & K & L).
  repeat split; assumption.
Qed.
Print Assumptions C08_versions_are_slip132.

(* xprv: any of the 10 private prefixes, depth 0..255, any 4-byte parent fingerprint, child number
   in [0, 2^32), any 32-byte chain code, any secret in [1, n-1]: serialisation succeeds on exactly
   these (ser_priv = Ok), has 78 bytes and parses back to the same fields; the network becomes the
   prefix's network and the public version the default of that network, as in the code. *)
Theorem C08_xprv_roundtrip :
  forall C, cn C < pow256 32 -> 2 < cn C ->
  forall (k : hdpriv) ver raw,
  known_xprv ver = true -> length (sk_pfp k) = 4%nat -> length (sk_cc k) = 32%nat ->
  pubkey C (sk k) = Ok (sk_pt k) ->
  ser_priv k ver = Ok raw ->
  length raw = 78%nat /\
  exists pv, tbl_get tbl_xpub (net_of_xprv ver) = Ok pv /\
  parse_priv C raw =
    Ok {| sk := sk k; sk_pt := sk_pt k; sk_cc := sk_cc k; sk_depth := sk_depth k; sk_pfp := sk_pfp k;
          sk_num := sk_num k; sk_net := net_of_xprv ver; sk_ver := ver; sk_pubver := pv |}.
Proof.
  intros C H1 H2 k ver raw A B D E. apply (xprv_roundtrip C H1 H2). repeat split; assumption.
Qed.
Print Assumptions C08_xprv_roundtrip.

Theorem C08_xprv_serializable :
  forall (k : hdpriv) ver,
  0 <= sk_depth k <= 255 -> 0 <= sk_num k < 4294967296 -> 0 <= sk k < pow256 33 ->
  exists raw, ser_priv k ver = Ok raw.
Proof.
  intros k ver Hd Hn Hs. unfold ser_priv. rewrite int_to_byte_ok by lia. cbn [bind].
  rewrite int_to_be_ok by (rewrite pow256_4; lia). cbn [bind].
  rewrite int_to_be_ok by lia. cbn [bind]. eauto.
Qed.
Print Assumptions C08_xprv_serializable.

(* xpub: [sec_roundtrip] (parse (sec P) = P on valid points) is the curve-encoding fact of C03,
   taken as an explicit hypothesis here and discharged on the toy curve below. *)
Theorem C08_xpub_roundtrip :
  forall C,
  (forall P s, valid C P -> sec P true = Ok s -> parse_point C s = Ok P) ->
  forall (k : hdpub) ver raw,
  known_xpub ver = true -> length (pk_pfp k) = 4%nat -> length (pk_cc k) = 32%nat -> valid C (pk k) ->
  ser_pub k ver = Ok raw ->
  length raw = 78%nat /\
  parse_pub C raw =
    Ok {| pk := pk k; pk_cc := pk_cc k; pk_depth := pk_depth k; pk_pfp := pk_pfp k;
          pk_num := pk_num k; pk_net := net_of_xpub ver; pk_ver := ver |}.
Proof.
  intros C H k ver raw A B D E. apply (xpub_roundtrip C H). repeat split; assumption.
Qed.
Print Assumptions C08_xpub_roundtrip.

Theorem C08_xpub_serializable :
  forall (k : hdpub) ver,
  0 <= pk_depth k <= 255 -> 0 <= pk_num k < 4294967296 -> pk k <> None ->
  exists raw, ser_pub k ver = Ok raw.
Proof. intros k ver. exact (ser_pub_ok secp256k1 k ver). Qed.
Print Assumptions C08_xpub_serializable.

(* byte-level converse: every 78-byte string that parses re-serialises to itself *)
Theorem C08_xprv_parse_serialize :
  forall C raw k, bytes_ok raw -> parse_priv C raw = Ok k -> xprv_raw k None = Ok raw.
Proof. exact xprv_parse_serialize. Qed.
Print Assumptions C08_xprv_parse_serialize.

Theorem C08_xpub_parse_serialize :
  forall C, cp C mod 2 = 1 ->
  forall raw k, bytes_ok raw -> parse_pub C raw = Ok k -> xpub_raw k None = Ok raw.
Proof. exact xpub_parse_serialize. Qed.
Print Assumptions C08_xpub_parse_serialize.

Example C08_secp256k1_p_odd : cp secp256k1 mod 2 = 1 /\ cn secp256k1 < pow256 32 /\ 2 < cn secp256k1.
Proof. vm_compute. repeat split; congruence. Qed.

(* the side conditions of the round-trip theorems hold for every key the library derives
   (HMAC-SHA512 returns 64 bytes, HASH160 20 bytes): chain code 32 bytes, parent fingerprint
   4 bytes, versions inherited / known defaults, depth + 1, child number = index in range *)
Theorem C08_derived_keys_wellformed :
  forall C hmac512 hash160,
  scalar_laws C ->
  (forall key msg, length (hmac512 key msg) = 64%nat) -> (forall b, length (hash160 b) = 20%nat) ->
  (forall seed net k, from_seed C hmac512 seed net None None = Ok k ->
     length (sk_cc k) = 32%nat /\ length (sk_pfp k) = 4%nat /\ sk_depth k = 0 /\ sk_num k = 0 /\
     known_xprv (sk_ver k) = true /\ known_xpub (sk_pubver k) = true /\ pubkey C (sk k) = Ok (sk_pt k)) /\
  (forall k i k', child_priv C hmac512 hash160 k i = Ok k' ->
     length (sk_cc k') = 32%nat /\ length (sk_pfp k') = 4%nat /\ sk_ver k' = sk_ver k /\
     sk_pubver k' = sk_pubver k /\ sk_depth k' = sk_depth k + 1 /\ sk_num k' = i /\
     0 <= i < 4294967296 /\ pubkey C (sk k') = Ok (sk_pt k')) /\
  (forall k i k', child_pub C hmac512 hash160 k i = Ok k' ->
     length (pk_cc k') = 32%nat /\ length (pk_pfp k') = 4%nat /\ pk_ver k' = pk_ver k /\
     pk_depth k' = pk_depth k + 1 /\ pk_num k' = i /\ 0 <= i < 2147483648 /\
     (valid C (pk k) -> valid C (pk k'))).
Proof.
  intros C hm h SL H1 H2. split; [|split].
  - intros seed net k. exact (from_seed_fields C hm H1 seed net k).
  - intros k i k'. exact (child_priv_fields C hm h H1 H2 k i k').
  - intros k i k'. exact (child_pub_fields C hm h SL H1 H2 k i k').
Qed.
Print Assumptions C08_derived_keys_wellformed.

(* malformed input: wrong length, unknown version *)
Theorem C08_parse_rejects :
  forall C raw,
  (length raw <> 78%nat -> parse_priv C raw = Err /\ parse_pub C raw = Err) /\
  (known_xprv (firstn 4 raw) = false -> parse_priv C raw = Err) /\
  (known_xpub (firstn 4 raw) = false -> parse_pub C raw = Err).
Proof.
  intros C raw. split; [|split].
  - intros H. unfold parse_priv, parse_pub. apply Nat.eqb_neq in H. rewrite H. split; reflexivity.
  - intros H. unfold parse_priv. destruct (negb _); [reflexivity|].
    unfold raw_parse_priv, read. unfold known_xprv in H. apply orb_false_iff in H as [H1 H2].
    rewrite H1, H2. reflexivity.
  - intros H. unfold parse_pub. destruct (negb _); [reflexivity|].
    unfold raw_parse_pub, read. unfold known_xpub in H. apply orb_false_iff in H as [H1 H2].
    rewrite H1, H2. reflexivity.
Qed.
Print Assumptions C08_parse_rejects.

(* ------------------------------------------------------------------------------------------
   (6) blinding: if blind_xpub(xpub of the node at [sp] below [root], sp, secret) returns
   (x, full), then full is the combined path and x is exactly the xpub of the node at [full]
   below the root (on the raw 78 bytes of both xpubs). *)
Theorem C08_blind_xpub_correct :
  forall C hmac512 hash160,
  (forall P s, valid C P -> sec P true = Ok s -> parse_point C s = Ok P) ->
  scalar_laws C ->
  forall root sp secret ks raw x full,
  wf_priv C root ->
  traverse_priv C hmac512 hash160 root sp = Ok ks ->
  known_xpub (sk_pubver ks) = true -> length (sk_pfp ks) = 4%nat -> length (sk_cc ks) = 32%nat ->
  xpub_raw (pub_of ks) None = Ok raw ->
  tidy sp = true -> tidy secret = true ->
  blind_xpub C hmac512 hash160 raw sp secret = Ok (x, full) ->
  combine_paths sp secret = Ok full /\
  exists kf, traverse_priv C hmac512 hash160 root full = Ok kf /\ xpub_raw (pub_of kf) None = Ok x.
Proof.
  intros C hm h Hrt SL root sp secret ks raw x full Hwf Hsp A B D.
  apply (blind_xpub_correct C hm h Hrt SL root sp secret ks raw x full Hwf Hsp).
  repeat split; try assumption.
  rewrite traverse_priv_eq in Hsp. apply bind_ok in Hsp as (l & _ & Hd).
  pose proof (derive_priv_wf C hm h l root ks Hwf Hd) as Hw.
  destruct (wf_priv_inv C SL ks Hw) as (_ & _ & Hv & _). exact Hv.
Qed.
Print Assumptions C08_blind_xpub_correct.

(* the same two theorems with the encoding hypothesis discharged from Proofs/PeccEnc.v (C03):
   it follows from scalar_laws for curves y^2 = x^3 + b with p = 3 mod 4, p < 2^256 *)
Lemma sec_roundtrip_of_laws C :
  scalar_laws C -> ca C = 0 -> cp C mod 4 = 3 -> cp C < pow256 32 ->
  forall P s, valid C P -> sec P true = Ok s -> parse_point C s = Ok P.
Proof.
  intros SL Ha H4 H256 [[x y]|] s Hv Hs; [|discriminate].
  exact (parse_point_sec C SL Ha H4 H256 x y true s Hv Hs).
Qed.
Print Assumptions sec_roundtrip_of_laws.

Theorem C08_xpub_roundtrip_laws :
  forall C, scalar_laws C -> ca C = 0 -> cp C mod 4 = 3 -> cp C < pow256 32 ->
  forall (k : hdpub) ver raw,
  known_xpub ver = true -> length (pk_pfp k) = 4%nat -> length (pk_cc k) = 32%nat -> valid C (pk k) ->
  ser_pub k ver = Ok raw ->
  length raw = 78%nat /\
  parse_pub C raw =
    Ok {| pk := pk k; pk_cc := pk_cc k; pk_depth := pk_depth k; pk_pfp := pk_pfp k;
          pk_num := pk_num k; pk_net := net_of_xpub ver; pk_ver := ver |}.
Proof.
  intros C SL Ha H4 H256. exact (C08_xpub_roundtrip C (sec_roundtrip_of_laws C SL Ha H4 H256)).
Qed.
Print Assumptions C08_xpub_roundtrip_laws.

Theorem C08_blind_xpub_correct_laws :
  forall C hmac512 hash160,
  scalar_laws C -> ca C = 0 -> cp C mod 4 = 3 -> cp C < pow256 32 ->
  forall root sp secret ks raw x full,
  wf_priv C root ->
  traverse_priv C hmac512 hash160 root sp = Ok ks ->
  known_xpub (sk_pubver ks) = true -> length (sk_pfp ks) = 4%nat -> length (sk_cc ks) = 32%nat ->
  xpub_raw (pub_of ks) None = Ok raw ->
  tidy sp = true -> tidy secret = true ->
  blind_xpub C hmac512 hash160 raw sp secret = Ok (x, full) ->
  combine_paths sp secret = Ok full /\
  exists kf, traverse_priv C hmac512 hash160 root full = Ok kf /\ xpub_raw (pub_of kf) None = Ok x.
Proof.
  intros C hm h SL Ha H4 H256.
  exact (C08_blind_xpub_correct C hm h (sec_roundtrip_of_laws C SL Ha H4 H256) SL).
Qed.
Print Assumptions C08_blind_xpub_correct_laws.

Example C08_secp256k1_shape : ca secp256k1 = 0 /\ cp secp256k1 mod 4 = 3 /\ cp secp256k1 < pow256 32.
Proof. vm_compute. repeat split; congruence. Qed.

(* ------------------------------------------------------------------------------------------
   (5, STRING level) HDPrivateKey.xprv(version) = encode_base58_checksum(raw_serialize(version)),
   HDPrivateKey.parse(s) = raw_decode_base58(s), the 78-byte length check, raw_parse; the same
   for HDPublicKey (Model/HdStr.v).  hash256 is ANY function returning 32 bytes (the hypotheses
   of C09_base58check_roundtrip, nothing more).  No hypothesis on the first version byte is
   needed: C09's theorem covers payloads with leading zero bytes (the leading-'1' rule), and all
   20 known prefixes start with 0x02 or 0x04 anyway.  The length check of parse() is part of
   [parse_priv] / [parse_pub]. *)
Theorem C08_xprv_string_roundtrip :
  forall C hash256,
  (forall x, length (hash256 x) = 32%nat) -> (forall x, bytes_ok (hash256 x)) ->
  cn C < pow256 32 -> 2 < cn C ->
  forall (k : hdpriv) ver s,
  known_xprv ver = true -> length (sk_pfp k) = 4%nat -> length (sk_cc k) = 32%nat ->
  bytes_ok (sk_pfp k) -> bytes_ok (sk_cc k) -> pubkey C (sk k) = Ok (sk_pt k) ->
  xprv_str hash256 k (Some ver) = Ok s ->
  exists pv, tbl_get tbl_xpub (net_of_xprv ver) = Ok pv /\
  parse_priv_str C hash256 s =
    Ok {| sk := sk k; sk_pt := sk_pt k; sk_cc := sk_cc k; sk_depth := sk_depth k; sk_pfp := sk_pfp k;
          sk_num := sk_num k; sk_net := net_of_xprv ver; sk_ver := ver; sk_pubver := pv |}.
Proof. exact xprv_string_roundtrip. Qed.
Print Assumptions C08_xprv_string_roundtrip.

Theorem C08_xpub_string_roundtrip :
  forall C hash256,
  (forall x, length (hash256 x) = 32%nat) -> (forall x, bytes_ok (hash256 x)) ->
  scalar_laws C -> ca C = 0 -> cp C mod 4 = 3 -> cp C < pow256 32 ->
  forall (k : hdpub) ver s,
  known_xpub ver = true -> length (pk_pfp k) = 4%nat -> length (pk_cc k) = 32%nat ->
  bytes_ok (pk_pfp k) -> bytes_ok (pk_cc k) -> valid C (pk k) ->
  xpub_str hash256 k (Some ver) = Ok s ->
  parse_pub_str C hash256 s =
    Ok {| pk := pk k; pk_cc := pk_cc k; pk_depth := pk_depth k; pk_pfp := pk_pfp k;
          pk_num := pk_num k; pk_net := net_of_xpub ver; pk_ver := ver |}.
Proof. exact xpub_string_roundtrip. Qed.
Print Assumptions C08_xpub_string_roundtrip.

(* version=None (the key's own version bytes), as in k.xprv() / k.xpub() *)
Theorem C08_xprv_string_roundtrip_default :
  forall C hash256,
  (forall x, length (hash256 x) = 32%nat) -> (forall x, bytes_ok (hash256 x)) ->
  cn C < pow256 32 -> 2 < cn C ->
  forall (k : hdpriv) s,
  known_xprv (sk_ver k) = true -> length (sk_pfp k) = 4%nat -> length (sk_cc k) = 32%nat ->
  bytes_ok (sk_pfp k) -> bytes_ok (sk_cc k) -> pubkey C (sk k) = Ok (sk_pt k) ->
  xprv_str hash256 k None = Ok s ->
  exists pv, tbl_get tbl_xpub (net_of_xprv (sk_ver k)) = Ok pv /\
  parse_priv_str C hash256 s =
    Ok {| sk := sk k; sk_pt := sk_pt k; sk_cc := sk_cc k; sk_depth := sk_depth k; sk_pfp := sk_pfp k;
          sk_num := sk_num k; sk_net := net_of_xprv (sk_ver k); sk_ver := sk_ver k; sk_pubver := pv |}.
Proof. exact xprv_string_roundtrip_default. Qed.
Print Assumptions C08_xprv_string_roundtrip_default.

Theorem C08_xpub_string_roundtrip_default :
  forall C hash256,
  (forall x, length (hash256 x) = 32%nat) -> (forall x, bytes_ok (hash256 x)) ->
  scalar_laws C -> ca C = 0 -> cp C mod 4 = 3 -> cp C < pow256 32 ->
  forall (k : hdpub) s,
  known_xpub (pk_ver k) = true -> length (pk_pfp k) = 4%nat -> length (pk_cc k) = 32%nat ->
  bytes_ok (pk_pfp k) -> bytes_ok (pk_cc k) -> valid C (pk k) ->
  xpub_str hash256 k None = Ok s ->
  parse_pub_str C hash256 s =
    Ok {| pk := pk k; pk_cc := pk_cc k; pk_depth := pk_depth k; pk_pfp := pk_pfp k;
          pk_num := pk_num k; pk_net := net_of_xpub (pk_ver k); pk_ver := pk_ver k |}.
Proof. exact xpub_string_roundtrip_default. Qed.
Print Assumptions C08_xpub_string_roundtrip_default.

(* the converse on strings: whatever parse() accepts is, character for character, what the
   parsed key prints (the Base58 conversion of raw_decode_base58 is injective,
   Proofs/Base58ConvP.v; no leading-'1' or digit ambiguity) *)
Theorem C08_xprv_string_parse_serialize :
  forall C hash256, (forall x, length (hash256 x) = 32%nat) ->
  forall s k, parse_priv_str C hash256 s = Ok k -> xprv_str hash256 k None = Ok s.
Proof. exact xprv_string_parse_serialize. Qed.
Print Assumptions C08_xprv_string_parse_serialize.

Theorem C08_xpub_string_parse_serialize :
  forall C hash256, (forall x, length (hash256 x) = 32%nat) -> cp C mod 2 = 1 ->
  forall s k, parse_pub_str C hash256 s = Ok k -> xpub_str hash256 k None = Ok s.
Proof. exact xpub_string_parse_serialize. Qed.
Print Assumptions C08_xpub_string_parse_serialize.

(* malformed strings.  [raw ++ c] is what the Base58 digits carry (payload, four check bytes):
   (a) check bytes other than hash256(raw)[:4] are refused; (b) a correctly checksummed payload
   of any length other than 78 is refused; (c) a payload altered under the ORIGINAL check bytes
   is refused unless the two payloads collide on hash256(.)[:4]; (d) a character outside the
   Base58 alphabet is refused. *)
Theorem C08_xkey_string_rejects :
  forall C hash256,
  (forall x, length (hash256 x) = 32%nat) -> (forall x, bytes_ok (hash256 x)) ->
  (forall raw c s, bytes_ok raw -> bytes_ok c -> length c = 4%nat -> c <> firstn 4 (hash256 raw) ->
     encode_base58 (raw ++ c) = Ok s ->
     parse_priv_str C hash256 s = Err /\ parse_pub_str C hash256 s = Err) /\
  (forall b s, bytes_ok b -> length b <> 78%nat -> encode_base58_checksum hash256 b = Ok s ->
     parse_priv_str C hash256 s = Err /\ parse_pub_str C hash256 s = Err) /\
  (forall raw raw' s', bytes_ok raw -> bytes_ok raw' -> raw' <> raw ->
     encode_base58 (raw' ++ firstn 4 (hash256 raw)) = Ok s' ->
     (parse_priv_str C hash256 s' = Err /\ parse_pub_str C hash256 s' = Err) \/
     firstn 4 (hash256 raw') = firstn 4 (hash256 raw)) /\
  (forall s, ~ Forall (fun ch => In ch b58_alphabet) s ->
     parse_priv_str C hash256 s = Err /\ parse_pub_str C hash256 s = Err).
Proof. exact xkey_string_rejects. Qed.
Print Assumptions C08_xkey_string_rejects.

(* the first version byte of every known prefix is non-zero (so an extended-key string never
   starts with '1'); not needed by the theorems above, recorded as a checked fact *)
Example C08_version_first_byte_nonzero :
  forallb (fun v => negb (nth 0 v 0 =? 0)) all_versions = true.
Proof. vm_compute. reflexivity. Qed.


(* ------------------------------------------------------------------------------------------
   (3, text level, all spellings) Canonical path text.  [path_text m mark idxs] (Model/HdText.v)
   is the text "m/<i1>/<i2>..." of an index list with the letter m or M ([mP]) and the hardening
   mark ', h or H ([markP]) after the number i - 2^31 of every index i >= 2^31; numbers are
   printed by [dec] = str().  [idx_ok i] is 0 <= i < 2^32.  These theorems cover every path the
   property quantifies over (any depth, both notations, either letter case), including the
   boundary indexes 2^31-1, 2^31 and 2^32-1. *)
Theorem C08_int_of_str : forall n, - 2 ^ 4300 < n < 2 ^ 4300 -> py_int (dec n) = Ok n.
Proof. exact py_int_dec. Qed.
Print Assumptions C08_int_of_str.

(* CPython's limit on int(): more than 4300 digit characters (leading zeros included) raise; a
   path component like that is refused by is_valid_bip32_path and by both traverse methods *)
Theorem C08_int_digit_limit :
  (forall s, 4300 < zlen (filter is_digit s) -> py_int s = Err) /\
  (forall c, 4300 < zlen (filter is_digit c) ->
     valid_sub c = false /\ comp_index_priv c = Err /\ comp_index_pub c = Err).
Proof. split; [exact py_int_digit_limit | exact component_digit_limit]. Qed.
Print Assumptions C08_int_digit_limit.

Theorem C08_path_text_reads_priv :
  forall m mark l, mP m -> markP mark -> Forall idx_ok l ->
  path_indexes_priv (path_text m mark l) = Ok l.
Proof. exact path_text_priv. Qed.
Print Assumptions C08_path_text_reads_priv.

Theorem C08_path_text_reads_pub :
  forall m mark l, mP m -> markP mark -> Forall idx_ok l ->
  path_indexes_pub (path_text m mark l) =
  if forallb (fun i => i <? 2147483648) l then Ok l else Err.
Proof. exact path_text_pub. Qed.
Print Assumptions C08_path_text_reads_pub.

(* is_valid_bip32_path accepts it iff it has at most 255 components; the forgiving normalisation
   maps every spelling to the lower-case h spelling; the text is tidy (so C08_parse_combine,
   C08_traverse_combined and C08_blind_xpub_correct apply to it); it has one "/" per index *)
Theorem C08_path_text_valid :
  forall m mark l, mP m -> markP mark -> Forall idx_ok l ->
  is_valid_path (path_text m mark l) = negb (256 <=? zlen l) /\
  norm_valid (path_text m mark l) = path_text 109 104 l /\
  tidy (path_text m mark l) = true /\
  count_c 47 (path_text m mark l) = zlen l.
Proof.
  intros m mark l Hm Hk HF. repeat split.
  - now apply path_text_valid.
  - now apply path_text_norm.
  - now apply path_text_tidy.
  - now apply path_text_count.
Qed.
Print Assumptions C08_path_text_valid.

Theorem C08_path_text_combine :
  forall m1 k1 a m2 k2 b,
  mP m1 -> markP k1 -> mP m2 -> markP k2 -> Forall idx_ok a -> Forall idx_ok b ->
  zlen a <= 255 -> zlen b <= 255 ->
  combine_paths (path_text m1 k1 a) (path_text m2 k2 b) = Ok (path_text 109 104 (a ++ b)).
Proof. exact path_text_combine. Qed.
Print Assumptions C08_path_text_combine.

(* "deriving along a path equals deriving its components one by one", at the level of the
   strings a user passes to traverse(), private and public, in every spelling *)
Theorem C08_traverse_text_priv :
  forall C hmac512 hash160 k m mark l, mP m -> markP mark -> Forall idx_ok l ->
  traverse_priv C hmac512 hash160 k (path_text m mark l) = derive_priv C hmac512 hash160 k l.
Proof. exact traverse_priv_text. Qed.
Print Assumptions C08_traverse_text_priv.

Theorem C08_traverse_text_pub :
  forall C hmac512 hash160 k m mark l, mP m -> markP mark -> Forall idx_ok l ->
  traverse_pub C hmac512 hash160 k (path_text m mark l) = derive_pub C hmac512 hash160 k l.
Proof. exact traverse_pub_text. Qed.
Print Assumptions C08_traverse_text_pub.

(* blinding.secure_secret_path(depth), as a function of what randbelow(2**31 - 1) returned:
   defined exactly for 1 <= depth < 32; the result is a valid, tidy path of [depth] unhardened
   steps that both traverse methods read back as the draws *)
Theorem C08_secure_secret_path :
  (forall depth draws, 1 <= depth < 32 -> zlen draws = depth ->
     secure_secret_path_of depth draws = Ok (join 47 ([109] :: map dec draws))) /\
  (forall depth draws p,
     Forall (fun r => 0 <= r < 2147483647) draws ->
     secure_secret_path_of depth draws = Ok p ->
     p = path_text 109 39 draws /\ zlen draws = depth /\ 1 <= depth < 32 /\
     is_valid_path p = true /\ tidy p = true /\
     path_indexes_pub p = Ok draws /\ path_indexes_priv p = Ok draws).
Proof. split; [exact secure_secret_path_total | exact secure_secret_path_ok]. Qed.
Print Assumptions C08_secure_secret_path.

(* HDPrivateKey.get_private_key("<P>'", account, is_external, address): the f-string it builds
   is the canonical text of m / P' / coin' / account' / chain / address *)
Theorem C08_get_private_key_path :
  forall P net account ext addr,
  0 <= P < 2147483648 -> 0 <= account < 2147483648 -> 0 <= addr < 2147483648 ->
  get_private_key_path (dec P ++ [39]) net account ext addr =
  path_text 109 39 [P + hardened; (if net =? 0 then 0 else 1) + hardened; account + hardened;
                    (if ext then 0 else 1); addr].
Proof. exact get_private_key_path_reads. Qed.
Print Assumptions C08_get_private_key_path.

(* ------------------------------------------------------------------------------------------
   (4, whole paths and serialization) The model against the key tree and the serialization
   format of BIP32 (Spec/Bip32.v: master_node, child_node, descend, ser_node_priv/pub).
   [node_of k] is the standard's view of a key object: ((k, c), depth, parent fingerprint,
   child number). *)
(* raw_serialize: exactly the standard's 78-byte layout, on exactly the domain depth in [0,255]
   and child number in [0,2^32); outside it the code raises (int_to_byte / int_to_big_endian) *)
Theorem C08_ser_priv_exact :
  forall k ver, 0 <= sk k < pow256 32 ->
  (0 <= sk_depth k <= 255 /\ 0 <= sk_num k < 4294967296 ->
     ser_priv k ver = Ok (Bip32.ser_xprv ver (sk_depth k) (sk_pfp k) (sk_num k) (sk k, sk_cc k))) /\
  (~ (0 <= sk_depth k <= 255 /\ 0 <= sk_num k < 4294967296) -> ser_priv k ver = Err).
Proof. exact ser_priv_exact. Qed.
Print Assumptions C08_ser_priv_exact.

Theorem C08_ser_pub_exact :
  forall (k : hdpub) ver,
  (pk k <> None ->
     (0 <= pk_depth k <= 255 /\ 0 <= pk_num k < 4294967296 ->
        ser_pub k ver = Ok (Bip32.ser_xpub ver (pk_depth k) (pk_pfp k) (pk_num k) (pk k, pk_cc k))) /\
     (~ (0 <= pk_depth k <= 255 /\ 0 <= pk_num k < 4294967296) -> ser_pub k ver = Err)) /\
  (pk k = None -> ser_pub k ver = Err).
Proof. intros k ver. split; [exact (ser_pub_exact k ver) | exact (ser_pub_infinity k ver)]. Qed.
Print Assumptions C08_ser_pub_exact.

(* depth is never checked by child()/traverse(): it grows by one per step, and from depth 256 on
   neither xprv() nor xpub() can be printed (one byte) — e.g. the child of a depth-255 key *)
Theorem C08_depth_overflow :
  forall C hmac512 hash160,
  (forall l k k', derive_priv C hmac512 hash160 k l = Ok k' -> sk_depth k' = sk_depth k + zlen l) /\
  (forall l k k', derive_pub C hmac512 hash160 k l = Ok k' -> pk_depth k' = pk_depth k + zlen l) /\
  (forall k l k' ver, derive_priv C hmac512 hash160 k l = Ok k' -> 255 < sk_depth k + zlen l ->
     xprv_raw k' ver = Err /\ xpub_raw (pub_of k') ver = Err) /\
  (forall k l k' ver, derive_pub C hmac512 hash160 k l = Ok k' -> 255 < pk_depth k + zlen l ->
     xpub_raw k' ver = Err).
Proof.
  intros C hm h. split; [|split; [|split]].
  - intros l k k' H. exact (proj1 (derive_depth C hm h l k k' H)).
  - intros l k k' H. exact (proj1 (derive_pub_depth C hm h l k k' H)).
  - exact (deep_key_unserialisable C hm h).
  - exact (deep_pub_key_unserialisable C hm h).
Qed.
Print Assumptions C08_depth_overflow.

(* derivation along a whole index path = the key tree of BIP32 (key, chain code, depth, parent
   fingerprint, child number), whenever the standard calls every step valid *)
Theorem C08_derive_priv_eq_bip32 :
  forall C hmac512 hash160, scalar_laws C -> cn C < pow256 32 ->
  forall l k nd, wf_priv C k -> Forall idx_ok l ->
  Bip32.descend C hmac512 hash160 (node_of k) l = Some nd ->
  exists k', derive_priv C hmac512 hash160 k l = Ok k' /\ node_of k' = nd /\ wf_priv C k'.
Proof. exact derive_priv_eq_bip32. Qed.
Print Assumptions C08_derive_priv_eq_bip32.

(* the same for a tree walked from an extended PUBLIC key (no private key anywhere): point, chain
   code, depth, parent fingerprint and child number of the node reached equal CKDpub iterated *)
Theorem C08_derive_pub_eq_bip32 :
  forall C hmac512 hash160, scalar_laws C ->
  forall l (k : hdpub) nd,
  valid C (pk k) -> pk k <> None -> Forall (fun i => 0 <= i) l ->
  Bip32.descend_pub C hmac512 hash160 (pnode_of k) l = Some nd ->
  exists k', derive_pub C hmac512 hash160 k l = Ok k' /\ pnode_of k' = nd /\
             valid C (pk k') /\ pk k' <> None.
Proof. exact derive_pub_eq_bip32. Qed.
Print Assumptions C08_derive_pub_eq_bip32.

(* HDPublicKey.raw_serialize() and its memo field _raw (Model/HdMemo.v): on an object whose
   fields are not reassigned, every call of any history returns the unmemoised serialisation
   (the default version bytes of the network).  The memo is never invalidated: see the Example
   C08_toy_memo_stale below for what happens after an in-place edit. *)
Theorem C08_raw_serialize_memo_sound :
  forall k n, Forall (fun out => out = raw_serialize_pub k) (raw_serialize_history None (repeat k n)).
Proof. exact raw_serialize_memo_sound. Qed.
Print Assumptions C08_raw_serialize_memo_sound.

(* the outermost calls composed: HDPrivateKey.from_seed(seed, network).traverse(text) followed by
   .xprv() / .xpub() gives exactly Base58Check of the serialization the standard prescribes for
   the node m/i1/.../in of that seed (default version bytes of the network), for every seed (no
   length is checked by the code: the quantifier's 16..64 bytes is a subset), every path text of
   at most 255 steps in any spelling — provided the standard derives the node (every step
   valid). *)
Theorem C08_seed_path_xkeys_eq_bip32 :
  forall C hmac512 hash160 hash256, scalar_laws C -> cn C < pow256 32 ->
  (forall key msg, bytes_ok (hmac512 key msg)) ->
  forall seed net m mark l mnode nd v pv,
  mP m -> markP mark -> Forall idx_ok l -> zlen l <= 255 ->
  tbl_get tbl_xprv net = Ok v -> tbl_get tbl_xpub net = Ok pv ->
  Bip32.master_node C hmac512 seed = Some mnode ->
  Bip32.descend C hmac512 hash160 mnode l = Some nd ->
  exists root k,
    from_seed C hmac512 seed net None None = Ok root /\
    traverse_priv C hmac512 hash160 root (path_text m mark l) = Ok k /\
    node_of k = nd /\
    xprv_raw k None = Ok (Bip32.ser_node_priv v nd) /\
    xpub_raw (pub_of k) None = Ok (Bip32.ser_node_pub C pv nd) /\
    xprv_str hash256 k None = encode_base58_checksum hash256 (Bip32.ser_node_priv v nd) /\
    xpub_str hash256 (pub_of k) None = encode_base58_checksum hash256 (Bip32.ser_node_pub C pv nd).
Proof.
  intros C hm h h256 SL Hn Hb seed net m mark l mnode nd v pv Hm Hk HF Hl Hv Hpv Hma Hde.
  destruct (seed_path_xkeys_eq_bip32 C hm h SL Hn Hb seed net m mark l mnode nd v pv
              Hm Hk HF Hl Hv Hpv Hma Hde) as (root & k & A & B & D & E & F).
  exists root, k. repeat (split; [assumption|]).
  unfold xprv_str, xpub_str. rewrite E, F. split; reflexivity.
Qed.
Print Assumptions C08_seed_path_xkeys_eq_bip32.

(* ------------------------------------------------------------------------------------------
   (3 and 6 for ARBITRARY text) The forgiving normalisation of is_valid_bip32_path /
   combine_bip32_paths (lower, strip, ' -> h, "//" -> "/") never changes what a text means to
   the traverse methods: whatever HDPrivateKey.traverse / HDPublicKey.traverse reads out of a
   text, it reads out of the normalised text too.  Hence the composition and blinding theorems
   hold for every text the code accepts, with no tidiness side condition (they supersede
   C08_parse_combine / C08_traverse_combined / C08_blind_xpub_correct, which are kept). *)
Theorem C08_normalisation_preserves_meaning :
  forall p l,
  (path_indexes_priv p = Ok l -> path_indexes_priv (norm_valid p) = Ok l) /\
  (path_indexes_pub p = Ok l -> path_indexes_pub (norm_valid p) = Ok l).
Proof. intros p l. split; [apply indexes_norm_priv | apply indexes_norm_pub]. Qed.
Print Assumptions C08_normalisation_preserves_meaning.

Theorem C08_parse_combine_accepted :
  forall a b x y, is_valid_path a = true -> is_valid_path b = true ->
  (path_indexes_priv a = Ok x -> path_indexes_priv b = Ok y ->
     exists z, combine_paths a b = Ok z /\ path_indexes_priv z = Ok (x ++ y)) /\
  (path_indexes_pub a = Ok x -> path_indexes_pub b = Ok y ->
     exists z, combine_paths a b = Ok z /\ path_indexes_pub z = Ok (x ++ y)).
Proof.
  intros a b x y Va Vb. split; intros Ha Hb.
  - exact (parse_combine_accepted comp_index_priv a b x y (or_introl eq_refl) Va Vb Ha Hb).
  - exact (parse_combine_accepted comp_index_pub a b x y (or_intror eq_refl) Va Vb Ha Hb).
Qed.
Print Assumptions C08_parse_combine_accepted.

(* traverse(a) then traverse(b) = traverse(combine_bip32_paths(a, b)), both key types *)
Theorem C08_traverse_combined_accepted :
  forall C hmac512 hash160 a b, is_valid_path a = true -> is_valid_path b = true ->
  (forall k k1 k2,
     traverse_priv C hmac512 hash160 k a = Ok k1 -> traverse_priv C hmac512 hash160 k1 b = Ok k2 ->
     exists z, combine_paths a b = Ok z /\ traverse_priv C hmac512 hash160 k z = Ok k2) /\
  (forall k k1 k2,
     traverse_pub C hmac512 hash160 k a = Ok k1 -> traverse_pub C hmac512 hash160 k1 b = Ok k2 ->
     exists z, combine_paths a b = Ok z /\ traverse_pub C hmac512 hash160 k z = Ok k2).
Proof.
  intros C hm h a b Va Vb. split; intros k k1 k2 H1 H2.
  - exact (traverse_combined_accepted C hm h k a b k1 k2 Va Vb H1 H2).
  - exact (traverse_pub_combined_accepted C hm h k a b k1 k2 Va Vb H1 H2).
Qed.
Print Assumptions C08_traverse_combined_accepted.

(* blinding, for any starting path and secret path TEXT: whenever blind_xpub returns, it returns
   the combined path and exactly the xpub found there from the root *)
Theorem C08_blind_xpub_correct_any_text :
  forall C hmac512 hash160,
  scalar_laws C -> ca C = 0 -> cp C mod 4 = 3 -> cp C < pow256 32 ->
  forall root sp secret ks raw x full,
  wf_priv C root ->
  traverse_priv C hmac512 hash160 root sp = Ok ks ->
  known_xpub (sk_pubver ks) = true -> length (sk_pfp ks) = 4%nat -> length (sk_cc ks) = 32%nat ->
  xpub_raw (pub_of ks) None = Ok raw ->
  blind_xpub C hmac512 hash160 raw sp secret = Ok (x, full) ->
  combine_paths sp secret = Ok full /\
  exists kf, traverse_priv C hmac512 hash160 root full = Ok kf /\ xpub_raw (pub_of kf) None = Ok x.
Proof.
  intros C hm h SL Ha H4 H256 root sp secret ks raw x full Hwf Hsp A B D.
  apply (blind_xpub_correct_any C hm h (sec_roundtrip_of_laws C SL Ha H4 H256) SL root sp secret ks raw x full Hwf Hsp).
  repeat split; try assumption.
  rewrite traverse_priv_eq in Hsp. apply bind_ok in Hsp as (l & _ & Hd).
  pose proof (derive_priv_wf C hm h l root ks Hwf Hd) as Hw.
  destruct (wf_priv_inv C SL ks Hw) as (_ & _ & Hv & _). exact Hv.
Qed.
Print Assumptions C08_blind_xpub_correct_any_text.

(* ------------------------------------------------------------------------------------------
   (6, positive direction) blind_xpub on path texts in any spelling SUCCEEDS and returns exactly
   the xpub found at the concatenated path from the root, with the text of that path; the empty
   secret path "m" returns the starting xpub itself; the root path "m" is allowed; a hardened
   step in the secret path is refused.  Curves y^2 = x^3 + b with p = 3 mod 4 (secp256k1, toy). *)
Theorem C08_blind_xpub_text :
  forall C hmac512 hash160,
  scalar_laws C -> ca C = 0 -> cp C mod 4 = 3 -> cp C < pow256 32 ->
  forall root a b ks kf raw x m1 k1 m2 k2,
  wf_priv C root -> sk_depth root = 0 ->
  Forall idx_ok a -> Forall (fun i => 0 <= i < 2147483648) b -> zlen a <= 255 -> zlen b <= 255 ->
  derive_priv C hmac512 hash160 root a = Ok ks ->
  derive_priv C hmac512 hash160 ks b = Ok kf ->
  known_xpub (sk_pubver ks) = true -> length (sk_pfp ks) = 4%nat -> length (sk_cc ks) = 32%nat ->
  xpub_raw (pub_of ks) None = Ok raw ->
  xpub_raw (pub_of kf) None = Ok x ->
  mP m1 -> markP k1 -> mP m2 -> markP k2 ->
  blind_xpub C hmac512 hash160 raw (path_text m1 k1 a) (path_text m2 k2 b) =
  Ok (x, path_text 109 104 (a ++ b)).
Proof.
  intros C hm h SL Ha H4 H256.
  exact (blind_xpub_text C hm h (sec_roundtrip_of_laws C SL Ha H4 H256) SL).
Qed.
Print Assumptions C08_blind_xpub_text.

Theorem C08_blind_xpub_degenerate :
  forall C hmac512 hash160,
  scalar_laws C -> ca C = 0 -> cp C mod 4 = 3 -> cp C < pow256 32 ->
  (* empty secret path "m" / "M" *)
  (forall root a ks raw m1 k1 m2,
     wf_priv C root -> sk_depth root = 0 -> Forall idx_ok a -> zlen a <= 255 ->
     derive_priv C hmac512 hash160 root a = Ok ks ->
     known_xpub (sk_pubver ks) = true -> length (sk_pfp ks) = 4%nat -> length (sk_cc ks) = 32%nat ->
     xpub_raw (pub_of ks) None = Ok raw -> mP m1 -> markP k1 -> mP m2 ->
     blind_xpub C hmac512 hash160 raw (path_text m1 k1 a) [m2] = Ok (raw, path_text 109 104 a)) /\
  (* root starting path "m" / "M" *)
  (forall root b kf raw x m1 m2 k2,
     wf_priv C root -> sk_depth root = 0 -> Forall (fun i => 0 <= i < 2147483648) b -> zlen b <= 255 ->
     derive_priv C hmac512 hash160 root b = Ok kf ->
     known_xpub (sk_pubver root) = true -> length (sk_pfp root) = 4%nat -> length (sk_cc root) = 32%nat ->
     xpub_raw (pub_of root) None = Ok raw -> xpub_raw (pub_of kf) None = Ok x ->
     mP m1 -> mP m2 -> markP k2 ->
     blind_xpub C hmac512 hash160 raw [m1] (path_text m2 k2 b) = Ok (x, path_text 109 104 b)) /\
  (* a hardened step in the secret path *)
  (forall raw sp b m2 k2,
     Forall idx_ok b -> Exists (fun i => 2147483648 <= i) b -> mP m2 -> markP k2 ->
     blind_xpub C hmac512 hash160 raw sp (path_text m2 k2 b) = Err).
Proof.
  intros C hm h SL Ha H4 H256.
  pose proof (sec_roundtrip_of_laws C SL Ha H4 H256) as RT.
  split; [|split].
  - exact (blind_xpub_empty_secret C hm h RT SL).
  - exact (blind_xpub_root C hm h RT SL).
  - exact (blind_xpub_refuses_hardened C hm h).
Qed.
Print Assumptions C08_blind_xpub_degenerate.

(* ------------------------------------------------------------------------------------------
   Non-vacuity on the toy curve y^2 = x^3 + 7 over F_43 (group order 31), where
   [scalar_laws] is proved by exhaustive computation.  The "hash" returns IL = 3. *)
Definition toy_hmac (key msg : bytes) : bytes := repeatz 0 31 ++ [3] ++ repeatz 7 32.
Definition toy_h160 (b : bytes) : bytes := firstn 20 (b ++ repeatz 0 20).
Definition toy_key (s : Z) : result hdpriv :=
  mk_priv toy s (repeatz 1 32) 0 [0;0;0;0] 0 0 None None.

Example C08_toy_hyp : scalar_laws toy /\ cn toy < pow256 32.
Proof. split; [exact toy_scalar_laws | reflexivity]. Qed.

(* secret 5: child secret (3 + 5) mod 31 = 8, both sides agree *)
Example C08_toy_commute :
  exists k k', toy_key 5 = Ok k /\ wf_priv toy k /\
    child_priv toy toy_hmac toy_h160 k 7 = Ok k' /\ sk k' = 8 /\
    child_pub toy toy_hmac toy_h160 (pub_of k) 7 = Ok (pub_of k') /\
    Bip32.CKDpriv toy toy_hmac (sk k, sk_cc k) 7 = Some (sk k', sk_cc k').
Proof. do 2 eexists. repeat (split; [vm_compute; reflexivity|]). vm_compute. reflexivity. Qed.

(* secret 28: child secret (3 + 28) mod 31 = 0: the private side raises, the public side
   returns the point at infinity, the standard says "invalid" *)
Example C08_toy_invalid_child :
  exists k q, toy_key 28 = Ok k /\ wf_priv toy k /\
    child_priv toy toy_hmac toy_h160 k 7 = Err /\
    child_pub toy toy_hmac toy_h160 (pub_of k) 7 = Ok q /\ pk q = None /\
    Bip32.CKDpriv toy toy_hmac (sk k, sk_cc k) 7 = None.
Proof. do 2 eexists. repeat (split; [vm_compute; reflexivity|]). vm_compute. reflexivity. Qed.

(* the encoding hypothesis of the xpub theorems holds on the toy curve (all 31 points) *)
Lemma toy_sec_roundtrip :
  forall P s, valid toy P -> sec P true = Ok s -> parse_point toy s = Ok P.
Proof.
  intros P s Hv Hs. apply valid_in_points in Hv.
  assert (H : forallb (fun P => match sec P true with
                               | Ok s => res_is (parse_point toy s) P
                               | Err => true end) (points toy) = true)
    by (vm_compute; reflexivity).
  rewrite forallb_forall in H. specialize (H P Hv). rewrite Hs in H. now apply res_is_eq.
Qed.
Print Assumptions toy_sec_roundtrip.

(* text: "M/0H/1'" combined with "m/2h/3" reads as [2^31; 2^31+1; 2^31+2; 3] *)
Example C08_toy_paths :
  let a := [77;47;48;72;47;49;39] in let b := [109;47;50;104;47;51] in
  is_valid_path a = true /\ is_valid_path b = true /\ tidy a = true /\ tidy b = true /\
  combine_paths a b = Ok [109;47;48;104;47;49;104;47;50;104;47;51] /\
  path_indexes_priv a = Ok [2147483648; 2147483649] /\ path_indexes_priv b = Ok [2147483650; 3] /\
  path_indexes_pub b = Err.
Proof. vm_compute. repeat split. Qed.

(* blinding on the toy curve: root secret 5, starting path "m/1", secret path "m/2/3" *)
Example C08_toy_blind :
  exists root ks raw x full,
    toy_key 5 = Ok root /\ wf_priv toy root /\
    traverse_priv toy toy_hmac toy_h160 root [109;47;49] = Ok ks /\
    xpub_raw (pub_of ks) None = Ok raw /\ length raw = 78%nat /\
    blind_xpub toy toy_hmac toy_h160 raw [109;47;49] [109;47;50;47;51] = Ok (x, full) /\
    full = [109;47;49;47;50;47;51].
Proof.
  do 5 eexists. repeat (split; [vm_compute; reflexivity|]). vm_compute. reflexivity.
Qed.

(* the string level on the toy curve, with a constant "hash": k.xprv() has 111 characters, starts
   with "xprv" and parses back to k; one altered character is refused *)
Definition toy_h256 (b : bytes) : bytes := repeatz 7 32.
Example C08_toy_string :
  exists k s, toy_key 5 = Ok k /\
    (forall x, length (toy_h256 x) = 32%nat) /\ (forall x, bytes_ok (toy_h256 x)) /\
    known_xprv (sk_ver k) = true /\ pubkey toy (sk k) = Ok (sk_pt k) /\
    xprv_str toy_h256 k None = Ok s /\ length s = 111%nat /\ firstn 4 s = [120;112;114;118] /\
    parse_priv_str toy toy_h256 s = Ok k /\
    parse_priv_str toy toy_h256 (firstn 50 s ++ [49] ++ skipn 51 s) = Err /\
    parse_priv_str toy toy_h256 (firstn 110 s) = Err.
Proof.
  do 2 eexists. split; [vm_compute; reflexivity|].
  split; [intros x; reflexivity|]. split; [intros x; apply bytes_okb_ok; reflexivity|].
  repeat (split; [vm_compute; reflexivity|]). vm_compute. reflexivity.
Qed.

(* the hardened boundary on the toy curve, with a "hash" whose IL shows which data layout was
   hashed (IL = 1 + first byte of the message: 1 for 0x00 || ser256(k), 3 or 4 for serP(K)):
   2^31-1 is a normal child on both sides, 2^31 and 2^32-1 are hardened (private only), 2^32 and
   -1 are refused; the three spellings of m/2147483647/0'/2147483647h read as the same indexes *)
Definition toy_hmac_tag (key msg : bytes) : bytes :=
  repeatz 0 31 ++ [1 + nth 0 msg 0] ++ repeatz 7 32.
Example C08_toy_hardened_boundary :
  exists k k1 k2 k3, toy_key 5 = Ok k /\
    child_priv toy toy_hmac_tag toy_h160 k 2147483647 = Ok k1 /\ (sk k1 = 8 \/ sk k1 = 9) /\
    child_pub toy toy_hmac_tag toy_h160 (pub_of k) 2147483647 = Ok (pub_of k1) /\
    child_priv toy toy_hmac_tag toy_h160 k 2147483648 = Ok k2 /\ sk k2 = 6 /\
    child_pub toy toy_hmac_tag toy_h160 (pub_of k) 2147483648 = Err /\
    child_priv toy toy_hmac_tag toy_h160 k 4294967295 = Ok k3 /\ sk k3 = 6 /\ sk_num k3 = 4294967295 /\
    child_pub toy toy_hmac_tag toy_h160 (pub_of k) 4294967295 = Err /\
    child_priv toy toy_hmac_tag toy_h160 k 4294967296 = Err /\
    child_priv toy toy_hmac_tag toy_h160 k (-1) = Err /\
    child_pub toy toy_hmac_tag toy_h160 (pub_of k) (-1) = Err.
Proof.
  do 4 eexists. repeat (split; [vm_compute; reflexivity|]).
  split; [vm_compute; auto|]. repeat (split; [vm_compute; reflexivity|]). vm_compute. reflexivity.
Qed.

Example C08_toy_path_text :
  let l := [2147483647; 2147483648; 4294967295; 0] in
  path_text 109 39 l = [109;47;50;49;52;55;52;56;51;54;52;55;47;48;39;47;50;49;52;55;52;56;51;54;52;55;39;47;48] /\
  Forall idx_ok l /\ mP 77 /\ markP 72 /\
  path_indexes_priv (path_text 77 72 l) = Ok l /\ path_indexes_priv (path_text 109 104 l) = Ok l /\
  path_indexes_pub (path_text 109 39 l) = Err /\ path_indexes_pub (path_text 109 39 [2147483647; 0]) = Ok [2147483647; 0] /\
  is_valid_path (path_text 77 72 l) = true /\
  (* quirks next to the boundary: a plain number >= 2^31 is read by the private traverse as a
     hardened index, 2^31 with a mark overflows to 2^32 and fails at child(), and neither text
     is valid *)
  path_indexes_priv [109;47;50;49;52;55;52;56;51;54;52;56] = Ok [2147483648] /\
  is_valid_path [109;47;50;49;52;55;52;56;51;54;52;56] = false /\
  path_indexes_priv [109;47;50;49;52;55;52;56;51;54;52;56;39] = Ok [4294967296] /\
  is_valid_path [109;47;50;49;52;55;52;56;51;54;52;56;39] = false.
Proof.
  cbv zeta. split; [vm_compute; reflexivity|].
  split; [repeat constructor; unfold idx_ok; lia|]. split; [right; reflexivity|].
  split; [right; right; reflexivity|]. repeat (split; [vm_compute; reflexivity|]). vm_compute. reflexivity.
Qed.

(* depth 255 -> 256 on the toy curve: the child derives, its xprv/xpub cannot be printed *)
Example C08_toy_depth_overflow :
  exists k k', mk_priv toy 5 (repeatz 1 32) 255 [0;0;0;0] 0 0 None None = Ok k /\
    (exists raw, xprv_raw k None = Ok raw /\ length raw = 78%nat) /\
    child_priv toy toy_hmac toy_h160 k 0 = Ok k' /\ sk_depth k' = 256 /\
    xprv_raw k' None = Err /\ xpub_raw (pub_of k') None = Err.
Proof.
  do 2 eexists. split; [vm_compute; reflexivity|].
  split; [eexists; split; vm_compute; reflexivity|].
  repeat (split; [vm_compute; reflexivity|]). vm_compute. reflexivity.
Qed.

(* the key tree of the standard on the toy curve: seed -> m/1/2h, hypotheses of
   C08_seed_path_xkeys_eq_bip32 satisfied (toy_hmac gives IL = 3, so master = 3, m/1 = 6,
   m/1/2h = 9) *)
Example C08_toy_tree :
  exists mnode nd,
    Bip32.master_node toy toy_hmac [1;2;3] = Some mnode /\
    Bip32.descend toy toy_hmac toy_h160 mnode [1; 2147483650] = Some nd /\
    fst (Bip32.n_key nd) = 9 /\ Bip32.n_depth nd = 2 /\ Bip32.n_num nd = 2147483650 /\
    length (Bip32.ser_node_priv [4;136;173;228] nd) = 78%nat /\
    (forall key msg, bytes_ok (toy_hmac key msg)) /\
    exists root k, from_seed toy toy_hmac [1;2;3] 0 None None = Ok root /\
      traverse_priv toy toy_hmac toy_h160 root (path_text 77 72 [1; 2147483650]) = Ok k /\
      xprv_raw k None = Ok (Bip32.ser_node_priv [4;136;173;228] nd).
Proof.
  do 2 eexists. repeat (split; [vm_compute; reflexivity|]).
  split; [intros key msg; apply bytes_okb_ok; reflexivity|].
  do 2 eexists. repeat (split; [vm_compute; reflexivity|]). vm_compute. reflexivity.
Qed.

(* blinding on canonical texts on the toy curve: "M/1H" (hardened start), secret "m/2/3" *)
Example C08_toy_blind_text :
  exists root ks kf raw x,
    toy_key 5 = Ok root /\ wf_priv toy root /\ sk_depth root = 0 /\
    derive_priv toy toy_hmac toy_h160 root [2147483649] = Ok ks /\
    derive_priv toy toy_hmac toy_h160 ks [2; 3] = Ok kf /\
    known_xpub (sk_pubver ks) = true /\ length (sk_pfp ks) = 4%nat /\ length (sk_cc ks) = 32%nat /\
    xpub_raw (pub_of ks) None = Ok raw /\ xpub_raw (pub_of kf) None = Ok x /\
    blind_xpub toy toy_hmac toy_h160 raw (path_text 77 72 [2147483649]) (path_text 109 39 [2; 3]) =
      Ok (x, path_text 109 104 [2147483649; 2; 3]) /\
    blind_xpub toy toy_hmac toy_h160 raw (path_text 77 72 [2147483649]) [109] =
      Ok (raw, path_text 109 104 [2147483649]).
Proof.
  do 5 eexists. repeat (split; [vm_compute; reflexivity|]). vm_compute. reflexivity.
Qed.

(* the public tree on the toy curve: from the public half of secret 5, path 1/2 *)
Example C08_toy_pub_tree :
  exists k nd, toy_key 5 = Ok k /\ valid toy (pk (pub_of k)) /\ pk (pub_of k) <> None /\
    Bip32.descend_pub toy toy_hmac toy_h160 (pnode_of (pub_of k)) [1; 2] = Some nd /\
    Bip32.pn_depth nd = 2 /\ Bip32.pn_num nd = 2 /\
    exists k', derive_pub toy toy_hmac toy_h160 (pub_of k) [1; 2] = Ok k' /\ pnode_of k' = nd.
Proof.
  do 2 eexists. split; [vm_compute; reflexivity|].
  split; [apply validb_valid; vm_compute; reflexivity|]. split; [vm_compute; discriminate|].
  repeat (split; [vm_compute; reflexivity|]). eexists. split; vm_compute; reflexivity.
Qed.

(* the memo after an in-place edit: raw_serialize(), then depth reassigned 1 -> 2, then
   raw_serialize() again returns the OLD bytes (quirk of the code, reproduced by the model and
   exercised by the harness op raw_serialize_history) *)
Example C08_toy_memo_stale :
  exists k1 k2 r1 r2, toy_key 5 = Ok k1 /\
    k2 = {| pk := sk_pt k1; pk_cc := sk_cc k1; pk_depth := 2; pk_pfp := sk_pfp k1; pk_num := 0;
            pk_net := 0; pk_ver := sk_pubver k1 |} /\
    raw_serialize_pub (pub_of k1) = Ok r1 /\ raw_serialize_pub k2 = Ok r2 /\ r1 <> r2 /\
    raw_serialize_history None [pub_of k1; k2; k2] = [Ok r1; Ok r1; Ok r1].
Proof.
  do 4 eexists. split; [vm_compute; reflexivity|]. split; [reflexivity|].
  split; [vm_compute; reflexivity|]. split; [vm_compute; reflexivity|].
  split; [vm_compute; discriminate | vm_compute; reflexivity].
Qed.

(* untidy but accepted texts: "M/1H/2 " (trailing blank) and "m/3" + TAB: valid, not tidy, both
   traverse loops read them, and the combined path "m/1h/2/3" reads as the concatenation *)
Example C08_toy_untidy :
  let a := [77;47;49;72;47;50;32] in let b := [109;47;51;9] in
  is_valid_path a = true /\ is_valid_path b = true /\ tidy a = false /\ tidy b = false /\
  path_indexes_priv a = Ok [2147483649; 2] /\ path_indexes_priv b = Ok [3] /\ path_indexes_pub b = Ok [3] /\
  combine_paths a b = Ok [109;47;49;104;47;50;47;51] /\
  path_indexes_priv [109;47;49;104;47;50;47;51] = Ok [2147483649; 2; 3].
Proof. vm_compute. repeat split. Qed.

(* secure_secret_path with the draws 5, 0, 2^31-2 *)
Example C08_toy_secure_secret_path :
  secure_secret_path_of 3 [5; 0; 2147483646] = Ok [109;47;53;47;48;47;50;49;52;55;52;56;51;54;52;54] /\
  secure_secret_path_of 32 (repeatz 1 32) = Err /\ secure_secret_path_of 0 [] = Err /\
  4300 < zlen (filter is_digit (repeatz 48 4301)) /\ py_int (repeatz 48 4301) = Err /\
  valid_sub (repeatz 48 4301 ++ [104]) = false.
Proof.
  do 3 (split; [vm_compute; reflexivity|]).
  assert (H : 4300 < zlen (filter is_digit (repeatz 48 4301))) by (vm_compute; reflexivity).
  split; [exact H|]. split; [exact (py_int_digit_limit _ H)|].
  apply component_digit_limit. rewrite filter_app. cbn [filter is_digit]. rewrite app_nil_r. exact H.
Qed.

(* The constants written in the model are the constants of the SOURCE: coq/Generated/SrcConsts.v is regenerated
   from /repo/buidl/*.py by harness/gen_coq_consts.py on every run; the statements are spelled out in
   Proofs/ConstsTie.v (secp256k1_is_source_stmt). *)
From V Require Proofs.ConstsTie.
Theorem C08_constants_match_source : ConstsTie.secp256k1_is_source_stmt.
Proof. exact ConstsTie.secp256k1_is_source. Qed.
Print Assumptions C08_constants_match_source.
