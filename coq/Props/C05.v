(* Props/C05.v — Signature hashes equal the Satoshi / BIP143 / BIP341 digests for every hash type,
   and depend only on the current transaction (history independence).

   Reading guide.
   * [abs_tx t = Ok ct] (Model/SighashAbs.v): the Tx object t is well formed (every integer in the
     range of its wire type, every script serialisable) and denotes the consensus transaction ct;
     [abs_script], [abs_list abs_spent] likewise for a script code and the spent outputs.
   * Equalities are between PREIMAGES (the byte strings handed to the hash function); hash256,
     sha256 and the tagged hashes are universally quantified, so the digests are equal for every
     hash function.  [rsnd] forgets the memo fields returned next to the result.
   * The memo argument [m] is arbitrary in every statement.
   * Out of scope (stated in Spec/Legacy.v, Spec/Bip143.v, Spec/Bip341.v): OP_CODESEPARATOR and
     FindAndDelete — script codes are taken after those steps. *)
From V Require Import Base.Prelude Base.Ints Model.Helper Model.Script Model.Tx Model.Sighash
  Model.SighashAbs Spec.TxData Proofs.SighashP Proofs.SighashLegacyP Proofs.SighashSegwitP
  Proofs.SighashTaprootP Proofs.SighashHistP Proofs.SighashDispatchP Proofs.SighashCorP.
From V Require Spec.Legacy Spec.Bip143 Spec.Bip341.

(* ---------------- (1) the three algorithms ---------------- *)

(* legacy: the preimage is Satoshi's, including the two cases without preimage (None) *)
Theorem C05_legacy_eq_spec : forall t ct idx code cb ht,
  standard_hash_type ht = true -> abs_tx t = Ok ct -> abs_script code = Ok cb ->
  legacy_preimage t idx code ht = Ok (Legacy.preimage cb ct idx ht).
Proof. exact legacy_eq_spec. Qed.
Print Assumptions C05_legacy_eq_spec.

(* … and Tx.sig_hash_legacy returns the specification's 32 bytes read as a big-endian integer;
   the script code is the redeem script if one is passed, else the spent scriptPubKey *)
Theorem C05_legacy_digest : forall hash256 t ct sp idx redeem code cb ht,
  standard_hash_type ht = true -> abs_tx t = Ok ct ->
  (redeem = Some code \/
   (redeem = None /\ exists s, nth_error sp idx = Some s /\ code = sp_script s)) ->
  abs_script code = Ok cb ->
  sig_hash_legacy hash256 t sp idx redeem ht =
  Ok (Legacy.preimage cb ct idx ht, from_be (Legacy.signature_hash hash256 cb ct idx ht)).
Proof. exact sig_hash_legacy_spec. Qed.
Print Assumptions C05_legacy_digest.

(* input index out of range, or SINGLE without a matching output: the constant 1 << 248, in the
   library (no hypothesis needed) and in the specification (uint256 one) *)
Theorem C05_legacy_single_out_of_range : forall hash256 t idx code ht cb ct,
  ((length (t_ins t) <= idx)%nat \/ (ht_base ht = 3 /\ (length (t_outs t) <= idx)%nat) ->
   legacy_preimage t idx code ht = Ok None) /\
  ((length (ct_vin ct) <= idx)%nat \/
   (Legacy.hash_single ht = true /\ (length (ct_vout ct) <= idx)%nat) ->
   Legacy.preimage cb ct idx ht = None /\
   from_be (Legacy.signature_hash hash256 cb ct idx ht) = 2 ^ 248).
Proof.
  intros hash256 t idx code ht cb ct. split.
  - exact (legacy_one_cases t idx code ht).
  - intros H. destruct (spec_legacy_one_cases hash256 cb ct idx ht H) as [H1 H2].
    split; [exact H1|]. rewrite H2. exact from_be_one.
Qed.
Print Assumptions C05_legacy_single_out_of_range.

(* BIP143, for the script code the library derives (witness script, or the P2PKH script of the
   key hash in the redeem script / scriptPubKey) *)
Theorem C05_bip143_eq_spec : forall hash256 t ct sp idx redeem wscript s code cb ht m,
  standard_hash_type ht = true -> abs_tx t = Ok ct ->
  nth_error sp idx = Some s -> in_u64 (sp_value s) = true ->
  bip143_script_code redeem wscript (Some (sp_script s)) = Ok code -> abs_script code = Ok cb ->
  rsnd (bip143_preimage hash256 t sp idx redeem wscript ht m) =
  opt_res (Bip143.preimage hash256 cb (sp_value s) ct idx ht).
Proof. exact bip143_eq_spec. Qed.
Print Assumptions C05_bip143_eq_spec.

Theorem C05_bip143_digest : forall hash256 t sp idx redeem wscript ht m,
  rsnd (sig_hash_bip143 hash256 t sp idx redeem wscript ht m) =
  (p <- rsnd (bip143_preimage hash256 t sp idx redeem wscript ht m) ;; Ok (p, from_be (hash256 p))).
Proof. exact sig_hash_bip143_digest. Qed.
Print Assumptions C05_bip143_digest.

(* BIP143 SINGLE without a matching output: hashOutputs is the zero hash (the preimage equality
   above then says the library writes 32 zero bytes there) *)
Theorem C05_bip143_single_zero_hash : forall hash256 ct idx ht,
  Bip143.is_single ht = true -> (length (ct_vout ct) <= idx)%nat ->
  Bip143.hash_outputs hash256 ct idx ht = zero_hash.
Proof. exact spec_bip143_single_zero. Qed.
Print Assumptions C05_bip143_single_zero_hash.

(* BIP341 / BIP342: key path (ext_flag 0, no leaf) and script path (ext_flag 1, the leaf the
   library reads from the witness), annex present or absent *)
Theorem C05_bip341_eq_spec : forall sha256 hash_tapleaf xonly_ok t ct sp coins idx ti ext leaf ht m,
  standard_hash_type ht = true -> abs_tx t = Ok ct -> abs_list abs_spent sp = Ok coins ->
  length sp = length (t_ins t) -> nth_error (t_ins t) idx = Some ti ->
  in_u32 (Z.of_nat idx) = true ->
  (forall a, annex_of (i_witness ti) = Some a -> in_u64 (zlen a) = true) ->
  leaf_rel xonly_ok ext (i_witness ti) leaf ->
  rsnd (bip341_preimage sha256 hash_tapleaf xonly_ok t sp idx ext ht m) =
  opt_res (Bip341.message sha256 hash_tapleaf ht ct coins idx (annex_of (i_witness ti)) leaf).
Proof. exact bip341_eq_spec. Qed.
Print Assumptions C05_bip341_eq_spec.

Theorem C05_bip341_digest : forall sha256 hash_tapsighash hash_tapleaf xonly_ok t sp idx ext ht m,
  rsnd (sig_hash_bip341 sha256 hash_tapsighash hash_tapleaf xonly_ok t sp idx ext ht m) =
  (p <- rsnd (bip341_preimage sha256 hash_tapleaf xonly_ok t sp idx ext ht m) ;;
   Ok (p, hash_tapsighash p)).
Proof. exact sig_hash_bip341_digest. Qed.
Print Assumptions C05_bip341_digest.

(* BIP341 SINGLE without a matching output: no digest — the library raises (IndexError), the BIP
   says the signature is invalid *)
Theorem C05_bip341_single_no_output :
  forall sha256 hash_tapleaf xonly_ok t sp idx ext ht m e ct coins annex,
  (ht_base ht = 3 -> (length (t_outs t) <= idx)%nat ->
   bip341_preimage sha256 hash_tapleaf xonly_ok t sp idx ext ht m = Err) /\
  (Bip341.out_single ht = true -> (length (ct_vout ct) <= idx)%nat ->
   Bip341.sig_msg sha256 ht e ct coins idx annex = None).
Proof.
  intros. split.
  - exact (bip341_single_no_output sha256 hash_tapleaf xonly_ok t sp idx ext ht m).
  - exact (spec_bip341_single_no_output sha256 ht e ct coins idx annex).
Qed.
Print Assumptions C05_bip341_single_no_output.

(* Witness.has_annex is the annex rule of BIP341: at least two elements and the last one starts
   with 0x50; it agrees with the specification's split of the witness stack *)
Theorem C05_has_annex_bip341 : forall w,
  (has_annex w = true <->
   (2 <= length w)%nat /\ exists a, nth_error w (length w - 1) = Some (80 :: a)) /\
  (has_annex w = true <-> exists a, annex_of w = Some a).
Proof. intros w. split; [exact (has_annex_bip341 w) | exact (has_annex_iff w)]. Qed.
Print Assumptions C05_has_annex_bip341.

(* ---------------- (2) history independence ---------------- *)

(* the outputs of the queries of ANY history on ANY object (arbitrary memo fields) are those of
   fresh objects carrying the fields current at the time of each query *)
Theorem C05_digest_history_independent :
  forall hash256 sha256 hash_tapsighash hash_tapleaf xonly_ok ops st,
  snd (run hash256 sha256 hash_tapsighash hash_tapleaf xonly_ok st ops) =
  fresh_outputs hash256 sha256 hash_tapsighash hash_tapleaf xonly_ok (ob_tx st) (ob_spent st) ops.
Proof. exact run_eq_fresh. Qed.
Print Assumptions C05_digest_history_independent.

(* fold_left form: after any history, a query returns what a fresh object with the current
   fields returns, and the current fields are the edits applied in order *)
Theorem C05_query_after_history :
  forall hash256 sha256 hash_tapsighash hash_tapleaf xonly_ok st ops a idx ht,
  let s := state_after hash256 sha256 hash_tapsighash hash_tapleaf xonly_ok st ops in
  snd (step hash256 sha256 hash_tapsighash hash_tapleaf xonly_ok s (Query a idx ht)) =
  Some (query_fresh hash256 sha256 hash_tapsighash hash_tapleaf xonly_ok a (ob_tx s) (ob_spent s) idx ht)
  /\ (ob_tx s, ob_spent s) = fields_after (ob_tx st) (ob_spent st) ops.
Proof.
  intros. split.
  - exact (query_after_history hash256 sha256 hash_tapsighash hash_tapleaf xonly_ok st ops a idx ht).
  - exact (state_after_fields hash256 sha256 hash_tapsighash hash_tapleaf xonly_ok ops st).
Qed.
Print Assumptions C05_query_after_history.

(* the memo fields never influence a result (the core of the two statements above) *)
Theorem C05_memo_irrelevant :
  forall hash256 sha256 hash_tapsighash hash_tapleaf xonly_ok a t sp idx ht m1 m2,
  snd (run_query hash256 sha256 hash_tapsighash hash_tapleaf xonly_ok a t sp idx ht m1) =
  snd (run_query hash256 sha256 hash_tapsighash hash_tapleaf xonly_ok a t sp idx ht m2).
Proof. exact run_query_indep. Qed.
Print Assumptions C05_memo_irrelevant.

(* ---------------- (3) dispatch ---------------- *)

Theorem C05_dispatch_p2pkh : forall ti h,
  sig_hash_plan ti (mk_script (p2pkh_script h)) = Ok (PLegacy None).
Proof. exact plan_p2pkh. Qed.
Print Assumptions C05_dispatch_p2pkh.

Theorem C05_dispatch_p2wpkh : forall ti h,
  length h = 20%nat ->
  sig_hash_plan ti (mk_script (p2wpkh_script h)) = Ok (PBip143 None None) /\
  bip143_script_code None None (Some (mk_script (p2wpkh_script h))) = Ok (mk_script (p2pkh_script h)) /\
  abs_script (mk_script (p2pkh_script h)) = Ok (Bip143.p2wpkh_script_code h).
Proof.
  intros ti h Hh. split; [exact (plan_p2wpkh ti h Hh) | exact (p2wpkh_script_code_model h Hh)].
Qed.
Print Assumptions C05_dispatch_p2wpkh.

Theorem C05_dispatch_p2wsh : forall ti h raw w,
  length h = 32%nat -> nth_last 0 (i_witness ti) = Some raw -> script_convert raw = Ok w ->
  sig_hash_plan ti (mk_script (p2wsh_script h)) = Ok (PBip143 None (Some w)).
Proof. exact plan_p2wsh. Qed.
Print Assumptions C05_dispatch_p2wsh.

Theorem C05_dispatch_p2sh : forall ti h raw r,
  length h = 20%nat -> nth_last 0 (s_cmds (i_script ti)) = Some (Push raw) ->
  script_convert raw = Ok r ->
  (is_p2wpkh (s_cmds r) = true ->
   sig_hash_plan ti (mk_script (p2sh_script h)) = Ok (PBip143 (Some r) None)) /\
  (is_p2wsh (s_cmds r) = true ->
   forall wraw w, nth_last 0 (i_witness ti) = Some wraw -> script_convert wraw = Ok w ->
   sig_hash_plan ti (mk_script (p2sh_script h)) = Ok (PBip143 (Some r) (Some w))) /\
  (is_p2wpkh (s_cmds r) = false -> is_p2wsh (s_cmds r) = false ->
   sig_hash_plan ti (mk_script (p2sh_script h)) = Ok (PLegacy (Some r))).
Proof.
  intros ti h raw r Hh Hraw Hr. repeat split.
  - exact (plan_p2sh_p2wpkh ti h raw r Hh Hraw Hr).
  - intros Hk wraw w. exact (plan_p2sh_p2wsh ti h raw r wraw w Hh Hraw Hr Hk).
  - exact (plan_p2sh_legacy ti h raw r Hh Hraw Hr).
Qed.
Print Assumptions C05_dispatch_p2sh.

(* P2TR: script path (ext_flag 1) iff at least two elements remain once the annex is removed *)
Theorem C05_dispatch_p2tr : forall ti x,
  length x = 32%nat ->
  sig_hash_plan ti (mk_script (p2tr_script x)) =
  Ok (PBip341 (if 2 <=? zlen (snd (Bip341.split_annex (i_witness ti))) then 1 else 0)).
Proof. exact plan_p2tr. Qed.
Print Assumptions C05_dispatch_p2tr.

Theorem C05_dispatch_bare : forall ti pk,
  sig_hash_plan ti (mk_script [Push pk; Op 172]) = Ok (PLegacy None).
Proof. exact plan_p2pk. Qed.
Print Assumptions C05_dispatch_bare.

(* the script-path data: when the witness stack (annex removed) is a valid BIP341 script-path
   stack — control block of length 33+32m with a liftable internal key — and the script is
   canonically encoded (it parses and re-serialises to itself), the library hashes the BIP341 tap
   leaf, i.e. the hypothesis leaf_rel of C05_bip341_eq_spec holds with the specification's leaf *)
Theorem C05_script_path_leaf : forall xonly_ok w v s c ts,
  Bip341.script_path xonly_ok (snd (Bip341.split_annex w)) = Some (v, s, c) -> bytes_ok c ->
  script_convert s = Ok ts -> abs_script ts = Ok s ->
  tap_leaf_preimage xonly_ok w = Ok ([v] ++ ser_script s) /\ leaf_rel xonly_ok 1 w (Some (v, s)).
Proof.
  intros xonly_ok w v s c ts H Hb Hts Habs. split.
  - exact (tap_leaf_spec xonly_ok w v s c ts H Hb Hts Habs).
  - exact (leaf_rel_script_path xonly_ok w v s c ts H Hb Hts Habs).
Qed.
Print Assumptions C05_script_path_leaf.

(* end to end through Tx.sig_hash: a P2WPKH input is signed with the BIP143 digest for the script
   code 76 a9 14 <h> 88 ac, a P2TR input with one witness element besides the annex with the
   BIP341 key-path digest *)
Theorem C05_sig_hash_p2wpkh :
  forall hash256 sha256 hash_tapsighash hash_tapleaf xonly_ok t ct sp idx ti s h ht m,
  standard_hash_type ht = true -> abs_tx t = Ok ct ->
  nth_error (t_ins t) idx = Some ti -> nth_error sp idx = Some s ->
  sp_script s = mk_script (p2wpkh_script h) -> length h = 20%nat -> in_u64 (sp_value s) = true ->
  rsnd (sig_hash hash256 sha256 hash_tapsighash hash_tapleaf xonly_ok t sp idx ht m) =
  (p <- opt_res (Bip143.preimage hash256 (Bip143.p2wpkh_script_code h) (sp_value s) ct idx ht) ;;
   Ok {| so_alg := 143; so_pre := Some p; so_digest := DInt (from_be (hash256 p)) |}).
Proof. exact sig_hash_p2wpkh. Qed.
Print Assumptions C05_sig_hash_p2wpkh.

Theorem C05_sig_hash_p2tr_keypath :
  forall hash256 sha256 hash_tapsighash hash_tapleaf xonly_ok t ct sp coins idx ti s x ht m,
  standard_hash_type ht = true -> abs_tx t = Ok ct -> abs_list abs_spent sp = Ok coins ->
  length sp = length (t_ins t) ->
  nth_error (t_ins t) idx = Some ti -> nth_error sp idx = Some s ->
  sp_script s = mk_script (p2tr_script x) -> length x = 32%nat ->
  in_u32 (Z.of_nat idx) = true ->
  (forall a, annex_of (i_witness ti) = Some a -> in_u64 (zlen a) = true) ->
  zlen (snd (Bip341.split_annex (i_witness ti))) = 1 ->
  rsnd (sig_hash hash256 sha256 hash_tapsighash hash_tapleaf xonly_ok t sp idx ht m) =
  (p <- opt_res (Bip341.message sha256 hash_tapleaf ht ct coins idx (annex_of (i_witness ti)) None) ;;
   Ok {| so_alg := 341; so_pre := Some p; so_digest := DBytes (hash_tapsighash p) |}).
Proof. exact sig_hash_p2tr_keypath. Qed.
Print Assumptions C05_sig_hash_p2tr_keypath.

(* ---------------- non-vacuity ---------------- *)

Example C05_ex_hypotheses_satisfiable :
  (exists ct, abs_tx ex_tx = Ok ct /\ length (ct_vin ct) = 2%nat) /\
  (exists coins, abs_list abs_spent ex_spent = Ok coins) /\
  standard_hash_type 131 = true /\
  leaf_rel (fun _ => true) 0 (i_witness ex_in1) None /\
  annex_of (i_witness ex_in1) = Some [80; 1; 2].
Proof.
  split; [exact ex_abs_tx|]. split; [exact ex_abs_spent|]. split; [reflexivity|].
  split; [left; split; reflexivity | reflexivity].
Qed.

(* the history [Query; EditOutput; Query]: the second query sees the edited output *)
Example C05_ex_history :
  let outs := snd (run idh idh idh idh (fun _ => true)
                       {| ob_tx := ex_tx; ob_spent := ex_spent; ob_memo := memo_empty |} ex_hist) in
  outs = fresh_outputs idh idh idh idh (fun _ => true) ex_tx ex_spent ex_hist /\
  (exists a b, outs = [Ok a; Ok b] /\ so_alg a = 143 /\ so_alg b = 143 /\ so_pre a <> so_pre b).
Proof. exact ex_history. Qed.
