(* Props/C05.v — Signature hashes equal the Satoshi / BIP143 / BIP341 digests for every hash type,
   and depend only on the current transaction (history independence).

   Reading guide.
   * [abs_tx t = Ok ct] (Model/SighashAbs.v): the Tx object t is well formed (every integer in the
     range of its wire type, every script serialisable) and denotes the consensus transaction ct;
     [abs_script], [abs_list abs_spent] likewise for a script code and the spent outputs.
   * Equalities are between PREIMAGES (the byte strings handed to the hash function); hash256,
     sha256 and the tagged hashes are universally quantified, so the digests are equal for every
     hash function.  [rsnd] forgets the memo fields returned next to the result.
   * The memo argument [m] is arbitrary in every statement.
   * Out of scope (stated in Spec/Legacy.v, Spec/Bip143.v, Spec/Bip341.v): OP_CODESEPARATOR and
     FindAndDelete — script codes are taken after those steps.
   * Sections (4)–(9) are about the digest AT THE POINT OF USE (Model/SighashSig.v): the op codes
     that verify and the Tx methods that sign.  The signature primitives of buidl/pecc.py are the
     fields of an arbitrary record [pr : sigprims] (universally quantified, like the hashes);
     [fresh_digest … t sp idx ht] is what Tx.sig_hash(idx, ht) returns on a fresh object with the
     fields of t; [encodes cs raw] says raw is the minimal-push serialisation of the commands cs;
     [same_core t t'] says t' differs from t at most in scriptSigs and witnesses. *)
From V Require Import Base.Prelude Base.Ints Model.Helper Model.Script Model.Op Model.Interp Model.Pecc
  Model.Taproot Model.Verify Model.Tx Model.Sighash Model.SighashAbs Model.SighashSig
  Spec.TxData Spec.TxWf Spec.SigHashType Proofs.MultisigP Proofs.VerifyP
  Proofs.SighashP Proofs.SighashLegacyP Proofs.SighashSegwitP
  Proofs.SighashTaprootP Proofs.SighashHistP Proofs.SighashDispatchP Proofs.SighashCorP
  Proofs.SighashKindsP Proofs.SighashSigP Proofs.SighashSignP Proofs.SighashSiteSpecP
  Proofs.SighashRefuteP Proofs.SighashVerifyExtP Proofs.SighashStdP Proofs.ToyCurve Proofs.SighashToyP.
From V Require Spec.SighashStd.
From V Require Spec.Legacy Spec.Bip143 Spec.Bip341.

(* ---------------- (1) the three algorithms ---------------- *)

(* legacy: the preimage is Satoshi's, including the two cases without preimage (None) *)
Theorem C05_legacy_eq_spec : forall t ct idx code cb ht,
  standard_hash_type ht = true -> abs_tx t = Ok ct -> abs_script code = Ok cb ->
  legacy_preimage t idx code ht = Ok (Legacy.preimage cb ct idx ht).
Proof. exact legacy_eq_spec. Qed.
Print Assumptions C05_legacy_eq_spec.

(* … and Tx.sig_hash_legacy returns the specification's 32 bytes read as a big-endian integer;
   the script code is the redeem script if one is passed, else the spent scriptPubKey *)
Theorem C05_legacy_digest : forall hash256 t ct sp idx redeem code cb ht,
  standard_hash_type ht = true -> abs_tx t = Ok ct ->
  (redeem = Some code \/
   (redeem = None /\ exists s, nth_error sp idx = Some s /\ code = sp_script s)) ->
  abs_script code = Ok cb ->
  sig_hash_legacy hash256 t sp idx redeem ht =
  Ok (Legacy.preimage cb ct idx ht, from_be (Legacy.signature_hash hash256 cb ct idx ht)).
Proof. exact sig_hash_legacy_spec. Qed.
Print Assumptions C05_legacy_digest.

(* input index out of range, or SINGLE without a matching output: the constant 1 << 248, in the
   library (no hypothesis needed) and in the specification (uint256 one) *)
Theorem C05_legacy_single_out_of_range : forall hash256 t idx code ht cb ct,
  ((length (t_ins t) <= idx)%nat \/ (ht_base5 ht = 3 /\ (length (t_outs t) <= idx)%nat) ->
   legacy_preimage t idx code ht = Ok None) /\
  ((length (ct_vin ct) <= idx)%nat \/
   (Legacy.hash_single ht = true /\ (length (ct_vout ct) <= idx)%nat) ->
   Legacy.preimage cb ct idx ht = None /\
   from_be (Legacy.signature_hash hash256 cb ct idx ht) = 2 ^ 248).
Proof.
  intros hash256 t idx code ht cb ct. split.
  - exact (legacy_one_cases t idx code ht).
  - intros H. destruct (spec_legacy_one_cases hash256 cb ct idx ht H) as [H1 H2].
    split; [exact H1|]. rewrite H2. exact from_be_one.
Qed.
Print Assumptions C05_legacy_single_out_of_range.

(* BIP143, for the script code the library derives (witness script, or the P2PKH script of the
   key hash in the redeem script / scriptPubKey) *)
Theorem C05_bip143_eq_spec : forall hash256 t ct sp idx redeem wscript s code cb ht m,
  standard_hash_type ht = true -> abs_tx t = Ok ct ->
  nth_error sp idx = Some s -> in_u64 (sp_value s) = true ->
  bip143_script_code redeem wscript (Some (sp_script s)) = Ok code -> abs_script code = Ok cb ->
  rsnd (bip143_preimage hash256 t sp idx redeem wscript ht m) =
  opt_res (Bip143.preimage hash256 cb (sp_value s) ct idx ht).
Proof. exact bip143_eq_spec. Qed.
Print Assumptions C05_bip143_eq_spec.

Theorem C05_bip143_digest : forall hash256 t sp idx redeem wscript ht m,
  rsnd (sig_hash_bip143 hash256 t sp idx redeem wscript ht m) =
  (p <- rsnd (bip143_preimage hash256 t sp idx redeem wscript ht m) ;; Ok (p, from_be (hash256 p))).
Proof. exact sig_hash_bip143_digest. Qed.
Print Assumptions C05_bip143_digest.

(* BIP143 SINGLE without a matching output: hashOutputs is the zero hash (the preimage equality
   above then says the library writes 32 zero bytes there) *)
Theorem C05_bip143_single_zero_hash : forall hash256 ct idx ht,
  Bip143.is_single ht = true -> (length (ct_vout ct) <= idx)%nat ->
  Bip143.hash_outputs hash256 ct idx ht = zero_hash.
Proof. exact spec_bip143_single_zero. Qed.
Print Assumptions C05_bip143_single_zero_hash.

(* BIP341 / BIP342: key path (ext_flag 0, no leaf) and script path (ext_flag 1, the leaf the
   library reads from the witness), annex present or absent *)
Theorem C05_bip341_eq_spec : forall sha256 hash_tapleaf xonly_ok t ct sp coins idx ti ext leaf ht m,
  standard_hash_type ht = true -> abs_tx t = Ok ct -> abs_list abs_spent sp = Ok coins ->
  length sp = length (t_ins t) -> nth_error (t_ins t) idx = Some ti ->
  in_u32 (Z.of_nat idx) = true ->
  (forall a, annex_of (i_witness ti) = Some a -> in_u64 (zlen a) = true) ->
  leaf_rel xonly_ok ext (i_witness ti) leaf ->
  rsnd (bip341_preimage sha256 hash_tapleaf xonly_ok t sp idx ext ht m) =
  opt_res (Bip341.message sha256 hash_tapleaf ht ct coins idx (annex_of (i_witness ti)) leaf).
Proof. exact bip341_eq_spec. Qed.
Print Assumptions C05_bip341_eq_spec.

Theorem C05_bip341_digest : forall sha256 hash_tapsighash hash_tapleaf xonly_ok t sp idx ext ht m,
  rsnd (sig_hash_bip341 sha256 hash_tapsighash hash_tapleaf xonly_ok t sp idx ext ht m) =
  (p <- rsnd (bip341_preimage sha256 hash_tapleaf xonly_ok t sp idx ext ht m) ;;
   Ok (p, hash_tapsighash p)).
Proof. exact sig_hash_bip341_digest. Qed.
Print Assumptions C05_bip341_digest.

(* BIP341 SINGLE without a matching output: no digest — the library raises (IndexError), the BIP
   says the signature is invalid *)
Theorem C05_bip341_single_no_output :
  forall sha256 hash_tapleaf xonly_ok t sp idx ext ht m e ct coins annex,
  (ht_base ht = 3 -> (length (t_outs t) <= idx)%nat ->
   bip341_preimage sha256 hash_tapleaf xonly_ok t sp idx ext ht m = Err) /\
  (Bip341.out_single ht = true -> (length (ct_vout ct) <= idx)%nat ->
   Bip341.sig_msg sha256 ht e ct coins idx annex = None).
Proof.
  intros. split.
  - exact (bip341_single_no_output sha256 hash_tapleaf xonly_ok t sp idx ext ht m).
  - exact (spec_bip341_single_no_output sha256 ht e ct coins idx annex).
Qed.
Print Assumptions C05_bip341_single_no_output.

(* Witness.has_annex is the annex rule of BIP341: at least two elements and the last one starts
   with 0x50; it agrees with the specification's split of the witness stack *)
Theorem C05_has_annex_bip341 : forall w,
  (has_annex w = true <->
   (2 <= length w)%nat /\ exists a, nth_error w (length w - 1) = Some (80 :: a)) /\
  (has_annex w = true <-> exists a, annex_of w = Some a).
Proof. intros w. split; [exact (has_annex_bip341 w) | exact (has_annex_iff w)]. Qed.
Print Assumptions C05_has_annex_bip341.

(* ---------------- (2) history independence ---------------- *)

(* the outputs of the queries of ANY history on ANY object (arbitrary memo fields) are those of
   fresh objects carrying the fields current at the time of each query *)
Theorem C05_digest_history_independent :
  forall hash256 sha256 hash_tapsighash hash_tapleaf xonly_ok ops st,
  snd (run hash256 sha256 hash_tapsighash hash_tapleaf xonly_ok st ops) =
  fresh_outputs hash256 sha256 hash_tapsighash hash_tapleaf xonly_ok (ob_tx st) (ob_spent st) ops.
Proof. exact run_eq_fresh. Qed.
Print Assumptions C05_digest_history_independent.

(* fold_left form: after any history, a query returns what a fresh object with the current
   fields returns, and the current fields are the edits applied in order *)
Theorem C05_query_after_history :
  forall hash256 sha256 hash_tapsighash hash_tapleaf xonly_ok st ops a idx ht,
  let s := state_after hash256 sha256 hash_tapsighash hash_tapleaf xonly_ok st ops in
  snd (step hash256 sha256 hash_tapsighash hash_tapleaf xonly_ok s (Query a idx ht)) =
  Some (query_fresh hash256 sha256 hash_tapsighash hash_tapleaf xonly_ok a (ob_tx s) (ob_spent s) idx ht)
  /\ (ob_tx s, ob_spent s) = fields_after (ob_tx st) (ob_spent st) ops.
Proof.
  intros. split.
  - exact (query_after_history hash256 sha256 hash_tapsighash hash_tapleaf xonly_ok st ops a idx ht).
  - exact (state_after_fields hash256 sha256 hash_tapsighash hash_tapleaf xonly_ok ops st).
Qed.
Print Assumptions C05_query_after_history.

(* the memo fields never influence a result (the core of the two statements above) *)
Theorem C05_memo_irrelevant :
  forall hash256 sha256 hash_tapsighash hash_tapleaf xonly_ok a t sp idx ht m1 m2,
  snd (run_query hash256 sha256 hash_tapsighash hash_tapleaf xonly_ok a t sp idx ht m1) =
  snd (run_query hash256 sha256 hash_tapsighash hash_tapleaf xonly_ok a t sp idx ht m2).
Proof. exact run_query_indep. Qed.
Print Assumptions C05_memo_irrelevant.

(* ---------------- (3) dispatch ---------------- *)

Theorem C05_dispatch_p2pkh : forall ti h,
  sig_hash_plan ti (mk_script (p2pkh_script h)) = Ok (PLegacy None).
Proof. exact plan_p2pkh. Qed.
Print Assumptions C05_dispatch_p2pkh.

Theorem C05_dispatch_p2wpkh : forall ti h,
  length h = 20%nat ->
  sig_hash_plan ti (mk_script (p2wpkh_script h)) = Ok (PBip143 None None) /\
  bip143_script_code None None (Some (mk_script (p2wpkh_script h))) = Ok (mk_script (p2pkh_script h)) /\
  abs_script (mk_script (p2pkh_script h)) = Ok (Bip143.p2wpkh_script_code h).
Proof.
  intros ti h Hh. split; [exact (plan_p2wpkh ti h Hh) | exact (p2wpkh_script_code_model h Hh)].
Qed.
Print Assumptions C05_dispatch_p2wpkh.

Theorem C05_dispatch_p2wsh : forall ti h raw w,
  length h = 32%nat -> nth_last 0 (i_witness ti) = Some raw -> script_convert raw = Ok w ->
  sig_hash_plan ti (mk_script (p2wsh_script h)) = Ok (PBip143 None (Some w)).
Proof. exact plan_p2wsh. Qed.
Print Assumptions C05_dispatch_p2wsh.

Theorem C05_dispatch_p2sh : forall ti h raw r,
  length h = 20%nat -> nth_last 0 (s_cmds (i_script ti)) = Some (Push raw) ->
  script_convert raw = Ok r ->
  (is_p2wpkh (s_cmds r) = true ->
   sig_hash_plan ti (mk_script (p2sh_script h)) = Ok (PBip143 (Some r) None)) /\
  (is_p2wsh (s_cmds r) = true ->
   forall wraw w, nth_last 0 (i_witness ti) = Some wraw -> script_convert wraw = Ok w ->
   sig_hash_plan ti (mk_script (p2sh_script h)) = Ok (PBip143 (Some r) (Some w))) /\
  (is_p2wpkh (s_cmds r) = false -> is_p2wsh (s_cmds r) = false ->
   sig_hash_plan ti (mk_script (p2sh_script h)) = Ok (PLegacy (Some r))).
Proof.
  intros ti h raw r Hh Hraw Hr. repeat split.
  - exact (plan_p2sh_p2wpkh ti h raw r Hh Hraw Hr).
  - intros Hk wraw w. exact (plan_p2sh_p2wsh ti h raw r wraw w Hh Hraw Hr Hk).
  - exact (plan_p2sh_legacy ti h raw r Hh Hraw Hr).
Qed.
Print Assumptions C05_dispatch_p2sh.

(* P2TR: script path (ext_flag 1) iff at least two elements remain once the annex is removed *)
Theorem C05_dispatch_p2tr : forall ti x,
  length x = 32%nat ->
  sig_hash_plan ti (mk_script (p2tr_script x)) =
  Ok (PBip341 (if 2 <=? zlen (snd (Bip341.split_annex (i_witness ti))) then 1 else 0)).
Proof. exact plan_p2tr. Qed.
Print Assumptions C05_dispatch_p2tr.

Theorem C05_dispatch_bare : forall ti pk,
  sig_hash_plan ti (mk_script [Push pk; Op 172]) = Ok (PLegacy None).
Proof. exact plan_p2pk. Qed.
Print Assumptions C05_dispatch_bare.

(* the script-path data: when the witness stack (annex removed) is a valid BIP341 script-path
   stack — control block of length 33+32m with a liftable internal key — and the script is
   canonically encoded (it parses and re-serialises to itself), the library hashes the BIP341 tap
   leaf, i.e. the hypothesis leaf_rel of C05_bip341_eq_spec holds with the specification's leaf *)
Theorem C05_script_path_leaf : forall xonly_ok w v s c ts,
  Bip341.script_path xonly_ok (snd (Bip341.split_annex w)) = Some (v, s, c) -> bytes_ok c ->
  script_convert s = Ok ts -> abs_script ts = Ok s ->
  tap_leaf_preimage xonly_ok w = Ok ([v] ++ ser_script s) /\ leaf_rel xonly_ok 1 w (Some (v, s)).
Proof.
  intros xonly_ok w v s c ts H Hb Hts Habs. split.
  - exact (tap_leaf_spec xonly_ok w v s c ts H Hb Hts Habs).
  - exact (leaf_rel_script_path xonly_ok w v s c ts H Hb Hts Habs).
Qed.
Print Assumptions C05_script_path_leaf.

(* end to end through Tx.sig_hash: a P2WPKH input is signed with the BIP143 digest for the script
   code 76 a9 14 <h> 88 ac, a P2TR input with one witness element besides the annex with the
   BIP341 key-path digest *)
Theorem C05_sig_hash_p2wpkh :
  forall hash256 sha256 hash_tapsighash hash_tapleaf xonly_ok t ct sp idx ti s h ht m,
  standard_hash_type ht = true -> abs_tx t = Ok ct ->
  nth_error (t_ins t) idx = Some ti -> nth_error sp idx = Some s ->
  sp_script s = mk_script (p2wpkh_script h) -> length h = 20%nat -> in_u64 (sp_value s) = true ->
  rsnd (sig_hash hash256 sha256 hash_tapsighash hash_tapleaf xonly_ok t sp idx ht m) =
  (p <- opt_res (Bip143.preimage hash256 (Bip143.p2wpkh_script_code h) (sp_value s) ct idx ht) ;;
   Ok {| so_alg := 143; so_pre := Some p; so_digest := DInt (from_be (hash256 p)) |}).
Proof. exact sig_hash_p2wpkh. Qed.
Print Assumptions C05_sig_hash_p2wpkh.

Theorem C05_sig_hash_p2tr_keypath :
  forall hash256 sha256 hash_tapsighash hash_tapleaf xonly_ok t ct sp coins idx ti s x ht m,
  standard_hash_type ht = true -> abs_tx t = Ok ct -> abs_list abs_spent sp = Ok coins ->
  length sp = length (t_ins t) ->
  nth_error (t_ins t) idx = Some ti -> nth_error sp idx = Some s ->
  sp_script s = mk_script (p2tr_script x) -> length x = 32%nat ->
  in_u32 (Z.of_nat idx) = true ->
  (forall a, annex_of (i_witness ti) = Some a -> in_u64 (zlen a) = true) ->
  zlen (snd (Bip341.split_annex (i_witness ti))) = 1 ->
  rsnd (sig_hash hash256 sha256 hash_tapsighash hash_tapleaf xonly_ok t sp idx ht m) =
  (p <- opt_res (Bip341.message sha256 hash_tapleaf ht ct coins idx (annex_of (i_witness ti)) None) ;;
   Ok {| so_alg := 341; so_pre := Some p; so_digest := DBytes (hash_tapsighash p) |}).
Proof. exact sig_hash_p2tr_keypath. Qed.
Print Assumptions C05_sig_hash_p2tr_keypath.

(* ---------------- (4) every standard kind, end to end through Tx.sig_hash ---------------- *)

(* a raw script that is the minimal-push encoding of a command list is parsed back to those commands
   by RedeemScript.convert / WitnessScript.convert / Witness.tap_script and re-serialised to the
   same bytes: the hypotheses "script_convert raw = Ok w" / "abs_script ts = Ok s" of the dispatch
   and script-path theorems above hold for every such script (from the C04 script round trip) *)
Theorem C05_script_convert_canonical : forall cs raw,
  encodes cs raw ->
  script_convert raw = Ok (mk_script cs) /\ abs_script (mk_script cs) = Ok raw /\
  zlen raw < 9223372036854775808.
Proof. exact script_convert_canonical. Qed.
Print Assumptions C05_script_convert_canonical.

Theorem C05_sig_hash_p2pkh :
  forall hash256 sha256 hash_tapsighash hash_tapleaf xonly_ok t ct sp idx ti s h ht m,
  standard_hash_type ht = true -> abs_tx t = Ok ct ->
  nth_error (t_ins t) idx = Some ti -> nth_error sp idx = Some s ->
  sp_script s = mk_script (p2pkh_script h) -> length h = 20%nat ->
  rsnd (sig_hash hash256 sha256 hash_tapsighash hash_tapleaf xonly_ok t sp idx ht m) =
  Ok (legacy_out hash256 (Bip143.p2wpkh_script_code h) ct idx ht).
Proof. exact sig_hash_p2pkh. Qed.
Print Assumptions C05_sig_hash_p2pkh.

(* bare scripts (multisig, pay-to-pubkey, anything that is none of the five templates) *)
Theorem C05_sig_hash_bare :
  forall hash256 sha256 hash_tapsighash hash_tapleaf xonly_ok t ct sp idx ti s cb ht m,
  standard_hash_type ht = true -> abs_tx t = Ok ct ->
  nth_error (t_ins t) idx = Some ti -> nth_error sp idx = Some s ->
  is_p2sh (s_cmds (sp_script s)) = false -> is_p2wpkh (s_cmds (sp_script s)) = false ->
  is_p2wsh (s_cmds (sp_script s)) = false -> is_p2tr (s_cmds (sp_script s)) = false ->
  abs_script (sp_script s) = Ok cb ->
  rsnd (sig_hash hash256 sha256 hash_tapsighash hash_tapleaf xonly_ok t sp idx ht m) =
  Ok (legacy_out hash256 cb ct idx ht).
Proof. exact sig_hash_bare. Qed.
Print Assumptions C05_sig_hash_bare.

(* P2SH: original algorithm, script code = the redeem script byte for byte *)
Theorem C05_sig_hash_p2sh :
  forall hash256 sha256 hash_tapsighash hash_tapleaf xonly_ok t ct sp idx ti s h cs raw ht m,
  standard_hash_type ht = true -> abs_tx t = Ok ct ->
  nth_error (t_ins t) idx = Some ti -> nth_error sp idx = Some s ->
  sp_script s = mk_script (p2sh_script h) -> length h = 20%nat ->
  nth_last 0 (s_cmds (i_script ti)) = Some (Push raw) -> encodes cs raw ->
  is_p2wpkh cs = false -> is_p2wsh cs = false ->
  rsnd (sig_hash hash256 sha256 hash_tapsighash hash_tapleaf xonly_ok t sp idx ht m) =
  Ok (legacy_out hash256 raw ct idx ht).
Proof. exact sig_hash_p2sh. Qed.
Print Assumptions C05_sig_hash_p2sh.

Theorem C05_sig_hash_p2sh_p2wpkh :
  forall hash256 sha256 hash_tapsighash hash_tapleaf xonly_ok t ct sp idx ti s h h20 ht m,
  standard_hash_type ht = true -> abs_tx t = Ok ct ->
  nth_error (t_ins t) idx = Some ti -> nth_error sp idx = Some s ->
  sp_script s = mk_script (p2sh_script h) -> length h = 20%nat -> in_u64 (sp_value s) = true ->
  nth_last 0 (s_cmds (i_script ti)) = Some (Push (0 :: 20 :: h20)) -> length h20 = 20%nat ->
  rsnd (sig_hash hash256 sha256 hash_tapsighash hash_tapleaf xonly_ok t sp idx ht m) =
  bip143_out hash256 (Bip143.p2wpkh_script_code h20) (sp_value s) ct idx ht.
Proof. exact sig_hash_p2sh_p2wpkh. Qed.
Print Assumptions C05_sig_hash_p2sh_p2wpkh.

(* P2WSH: BIP143, script code = the witness script byte for byte *)
Theorem C05_sig_hash_p2wsh :
  forall hash256 sha256 hash_tapsighash hash_tapleaf xonly_ok t ct sp idx ti s h cs raw ht m,
  standard_hash_type ht = true -> abs_tx t = Ok ct ->
  nth_error (t_ins t) idx = Some ti -> nth_error sp idx = Some s ->
  sp_script s = mk_script (p2wsh_script h) -> length h = 32%nat -> in_u64 (sp_value s) = true ->
  nth_last 0 (i_witness ti) = Some raw -> encodes cs raw ->
  rsnd (sig_hash hash256 sha256 hash_tapsighash hash_tapleaf xonly_ok t sp idx ht m) =
  bip143_out hash256 raw (sp_value s) ct idx ht.
Proof. exact sig_hash_p2wsh. Qed.
Print Assumptions C05_sig_hash_p2wsh.

Theorem C05_sig_hash_p2sh_p2wsh :
  forall hash256 sha256 hash_tapsighash hash_tapleaf xonly_ok t ct sp idx ti s h h32 cs raw ht m,
  standard_hash_type ht = true -> abs_tx t = Ok ct ->
  nth_error (t_ins t) idx = Some ti -> nth_error sp idx = Some s ->
  sp_script s = mk_script (p2sh_script h) -> length h = 20%nat -> in_u64 (sp_value s) = true ->
  nth_last 0 (s_cmds (i_script ti)) = Some (Push (0 :: 32 :: h32)) -> length h32 = 32%nat ->
  nth_last 0 (i_witness ti) = Some raw -> encodes cs raw ->
  rsnd (sig_hash hash256 sha256 hash_tapsighash hash_tapleaf xonly_ok t sp idx ht m) =
  bip143_out hash256 raw (sp_value s) ct idx ht.
Proof. exact sig_hash_p2sh_p2wsh. Qed.
Print Assumptions C05_sig_hash_p2sh_p2wsh.

(* P2TR script path: BIP341 message with the BIP342 extension for the leaf named by the witness *)
Theorem C05_sig_hash_p2tr_scriptpath :
  forall hash256 sha256 hash_tapsighash hash_tapleaf xonly_ok t ct sp coins idx ti s x v scr c cs ht m,
  standard_hash_type ht = true -> abs_tx t = Ok ct -> abs_list abs_spent sp = Ok coins ->
  length sp = length (t_ins t) ->
  nth_error (t_ins t) idx = Some ti -> nth_error sp idx = Some s ->
  sp_script s = mk_script (p2tr_script x) -> length x = 32%nat ->
  in_u32 (Z.of_nat idx) = true ->
  (forall a, annex_of (i_witness ti) = Some a -> in_u64 (zlen a) = true) ->
  Bip341.script_path xonly_ok (snd (Bip341.split_annex (i_witness ti))) = Some (v, scr, c) ->
  bytes_ok c -> encodes cs scr ->
  rsnd (sig_hash hash256 sha256 hash_tapsighash hash_tapleaf xonly_ok t sp idx ht m) =
  bip341_out sha256 hash_tapsighash hash_tapleaf ct coins idx ht (annex_of (i_witness ti)) (Some (v, scr)).
Proof. exact sig_hash_p2tr_scriptpath. Qed.
Print Assumptions C05_sig_hash_p2tr_scriptpath.

(* … packaged: for every standard kind Tx.sig_hash is Spec/SighashStd.std_sighash — the one function
   that tabulates algorithm and script code per kind of spent output (and that the harness runs,
   extracted, against the implementation on every generated case) — evaluated on the transaction
   and coins the objects denote, the last push of the scriptSig and the witness *)
Theorem C05_sig_hash_std_p2pkh :
  forall hash256 sha256 hash_tapsighash hash_tapleaf xonly_ok t ct sp coins idx ti s h ht m,
  standard_hash_type ht = true -> abs_tx t = Ok ct -> abs_list abs_spent sp = Ok coins ->
  nth_error (t_ins t) idx = Some ti -> nth_error sp idx = Some s ->
  sp_script s = mk_script (p2pkh_script h) -> length h = 20%nat ->
  rsnd (sig_hash hash256 sha256 hash_tapsighash hash_tapleaf xonly_ok t sp idx ht m) =
  std_view (SighashStd.std_sighash hash256 sha256 hash_tapsighash hash_tapleaf xonly_ok ct coins idx ht
              (last_push (i_script ti)) (i_witness ti)).
Proof. exact sig_hash_std_p2pkh. Qed.
Print Assumptions C05_sig_hash_std_p2pkh.

Theorem C05_sig_hash_std_p2wpkh :
  forall hash256 sha256 hash_tapsighash hash_tapleaf xonly_ok t ct sp coins idx ti s h ht m,
  standard_hash_type ht = true -> abs_tx t = Ok ct -> abs_list abs_spent sp = Ok coins ->
  nth_error (t_ins t) idx = Some ti -> nth_error sp idx = Some s ->
  sp_script s = mk_script (p2wpkh_script h) -> length h = 20%nat ->
  rsnd (sig_hash hash256 sha256 hash_tapsighash hash_tapleaf xonly_ok t sp idx ht m) =
  std_view (SighashStd.std_sighash hash256 sha256 hash_tapsighash hash_tapleaf xonly_ok ct coins idx ht
              (last_push (i_script ti)) (i_witness ti)).
Proof. exact sig_hash_std_p2wpkh. Qed.
Print Assumptions C05_sig_hash_std_p2wpkh.

Theorem C05_sig_hash_std_p2wsh :
  forall hash256 sha256 hash_tapsighash hash_tapleaf xonly_ok t ct sp coins idx ti s h cs raw ht m,
  standard_hash_type ht = true -> abs_tx t = Ok ct -> abs_list abs_spent sp = Ok coins ->
  nth_error (t_ins t) idx = Some ti -> nth_error sp idx = Some s ->
  sp_script s = mk_script (p2wsh_script h) -> length h = 32%nat ->
  nth_last 0 (i_witness ti) = Some raw -> encodes cs raw ->
  rsnd (sig_hash hash256 sha256 hash_tapsighash hash_tapleaf xonly_ok t sp idx ht m) =
  std_view (SighashStd.std_sighash hash256 sha256 hash_tapsighash hash_tapleaf xonly_ok ct coins idx ht
              (last_push (i_script ti)) (i_witness ti)).
Proof. exact sig_hash_std_p2wsh. Qed.
Print Assumptions C05_sig_hash_std_p2wsh.

Theorem C05_sig_hash_std_p2sh :
  forall hash256 sha256 hash_tapsighash hash_tapleaf xonly_ok t ct sp coins idx ti s h cs raw ht m,
  standard_hash_type ht = true -> abs_tx t = Ok ct -> abs_list abs_spent sp = Ok coins ->
  nth_error (t_ins t) idx = Some ti -> nth_error sp idx = Some s ->
  sp_script s = mk_script (p2sh_script h) -> length h = 20%nat ->
  nth_last 0 (s_cmds (i_script ti)) = Some (Push raw) -> encodes cs raw ->
  is_p2wpkh cs = false -> is_p2wsh cs = false ->
  rsnd (sig_hash hash256 sha256 hash_tapsighash hash_tapleaf xonly_ok t sp idx ht m) =
  std_view (SighashStd.std_sighash hash256 sha256 hash_tapsighash hash_tapleaf xonly_ok ct coins idx ht
              (last_push (i_script ti)) (i_witness ti)).
Proof. exact sig_hash_std_p2sh. Qed.
Print Assumptions C05_sig_hash_std_p2sh.

Theorem C05_sig_hash_std_p2sh_p2wpkh :
  forall hash256 sha256 hash_tapsighash hash_tapleaf xonly_ok t ct sp coins idx ti s h h20 ht m,
  standard_hash_type ht = true -> abs_tx t = Ok ct -> abs_list abs_spent sp = Ok coins ->
  nth_error (t_ins t) idx = Some ti -> nth_error sp idx = Some s ->
  sp_script s = mk_script (p2sh_script h) -> length h = 20%nat ->
  nth_last 0 (s_cmds (i_script ti)) = Some (Push (0 :: 20 :: h20)) -> length h20 = 20%nat ->
  rsnd (sig_hash hash256 sha256 hash_tapsighash hash_tapleaf xonly_ok t sp idx ht m) =
  std_view (SighashStd.std_sighash hash256 sha256 hash_tapsighash hash_tapleaf xonly_ok ct coins idx ht
              (last_push (i_script ti)) (i_witness ti)).
Proof. exact sig_hash_std_p2sh_p2wpkh. Qed.
Print Assumptions C05_sig_hash_std_p2sh_p2wpkh.

Theorem C05_sig_hash_std_p2sh_p2wsh :
  forall hash256 sha256 hash_tapsighash hash_tapleaf xonly_ok t ct sp coins idx ti s h h32 cs raw ht m,
  standard_hash_type ht = true -> abs_tx t = Ok ct -> abs_list abs_spent sp = Ok coins ->
  nth_error (t_ins t) idx = Some ti -> nth_error sp idx = Some s ->
  sp_script s = mk_script (p2sh_script h) -> length h = 20%nat ->
  nth_last 0 (s_cmds (i_script ti)) = Some (Push (0 :: 32 :: h32)) -> length h32 = 32%nat ->
  nth_last 0 (i_witness ti) = Some raw -> encodes cs raw ->
  rsnd (sig_hash hash256 sha256 hash_tapsighash hash_tapleaf xonly_ok t sp idx ht m) =
  std_view (SighashStd.std_sighash hash256 sha256 hash_tapsighash hash_tapleaf xonly_ok ct coins idx ht
              (last_push (i_script ti)) (i_witness ti)).
Proof. exact sig_hash_std_p2sh_p2wsh. Qed.
Print Assumptions C05_sig_hash_std_p2sh_p2wsh.

Theorem C05_sig_hash_std_p2tr_keypath :
  forall hash256 sha256 hash_tapsighash hash_tapleaf xonly_ok t ct sp coins idx ti s x ht m,
  standard_hash_type ht = true -> abs_tx t = Ok ct -> abs_list abs_spent sp = Ok coins ->
  length sp = length (t_ins t) ->
  nth_error (t_ins t) idx = Some ti -> nth_error sp idx = Some s ->
  sp_script s = mk_script (p2tr_script x) -> length x = 32%nat ->
  in_u32 (Z.of_nat idx) = true ->
  (forall a, annex_of (i_witness ti) = Some a -> in_u64 (zlen a) = true) ->
  zlen (snd (Bip341.split_annex (i_witness ti))) = 1 ->
  rsnd (sig_hash hash256 sha256 hash_tapsighash hash_tapleaf xonly_ok t sp idx ht m) =
  std_view (SighashStd.std_sighash hash256 sha256 hash_tapsighash hash_tapleaf xonly_ok ct coins idx ht
              (last_push (i_script ti)) (i_witness ti)).
Proof. exact sig_hash_std_p2tr_keypath. Qed.
Print Assumptions C05_sig_hash_std_p2tr_keypath.

Theorem C05_sig_hash_std_p2tr_scriptpath :
  forall hash256 sha256 hash_tapsighash hash_tapleaf xonly_ok t ct sp coins idx ti s x v scr c0 cs ht m,
  standard_hash_type ht = true -> abs_tx t = Ok ct -> abs_list abs_spent sp = Ok coins ->
  length sp = length (t_ins t) ->
  nth_error (t_ins t) idx = Some ti -> nth_error sp idx = Some s ->
  sp_script s = mk_script (p2tr_script x) -> length x = 32%nat ->
  in_u32 (Z.of_nat idx) = true ->
  (forall a, annex_of (i_witness ti) = Some a -> in_u64 (zlen a) = true) ->
  Bip341.script_path xonly_ok (snd (Bip341.split_annex (i_witness ti))) = Some (v, scr, c0) ->
  bytes_ok c0 -> encodes cs scr ->
  rsnd (sig_hash hash256 sha256 hash_tapsighash hash_tapleaf xonly_ok t sp idx ht m) =
  std_view (SighashStd.std_sighash hash256 sha256 hash_tapsighash hash_tapleaf xonly_ok ct coins idx ht
              (last_push (i_script ti)) (i_witness ti)).
Proof. exact sig_hash_std_p2tr_scriptpath. Qed.
Print Assumptions C05_sig_hash_std_p2tr_scriptpath.

(* ---------------- (5) the verifying op codes: the digest of the signature's OWN hash type -------- *)

(* the memo fields of the Tx object influence no verdict *)
Theorem C05_sites_memo_irrelevant :
  forall hash256 sha256 hash_tapsighash hash_tapleaf xonly_ok pr t sp idx m1 m2 s,
  let so1 := tx_sigops hash256 sha256 hash_tapsighash hash_tapleaf xonly_ok pr t sp idx m1 in
  let so2 := tx_sigops hash256 sha256 hash_tapsighash hash_tapleaf xonly_ok pr t sp idx m2 in
  op_checksig so1 s = op_checksig so2 s /\ op_checkmultisig so1 s = op_checkmultisig so2 s /\
  op_checksig_schnorr so1 s = op_checksig_schnorr so2 s /\
  op_checksigadd_schnorr so1 s = op_checksigadd_schnorr so2 s.
Proof.
  intros. split; [apply op_checksig_indep|]. split; [apply op_checkmultisig_indep|].
  split; [apply op_checksig_schnorr_indep|apply op_checksigadd_schnorr_indep].
Qed.
Print Assumptions C05_sites_memo_irrelevant.

(* OP_CHECKSIG: DER || hash type byte; the ECDSA primitive gets Tx.sig_hash(idx, that byte) *)
Theorem C05_op_checksig_own_digest :
  forall hash256 sha256 hash_tapsighash hash_tapleaf xonly_ok pr t sp idx m sec sg r,
  op_checksig (tx_sigops hash256 sha256 hash_tapsighash hash_tapleaf xonly_ok pr t sp idx m) (sec :: sg :: r) =
  match ecdsa_sig_hash_type sg with
  | None => Err
  | Some (der, ht) =>
      d <- fresh_digest hash256 sha256 hash_tapsighash hash_tapleaf xonly_ok t sp idx ht ;;
      b <- pr_ecdsa pr sec der d ;; Ok (enc_bool b :: r)
  end.
Proof. exact op_checksig_own_digest. Qed.
Print Assumptions C05_op_checksig_own_digest.

(* OP_CHECKMULTISIG on [dummy, sig_1 .. sig_m, m, key_1 .. key_n, n] (top first below): accepted
   exactly when every key parses and the signatures match keys in order, each signature judged
   with the digest of ITS OWN hash type byte ([multisig_ver]) *)
Theorem C05_op_checkmultisig_own_digests :
  forall hash256 sha256 hash_tapsighash hash_tapleaf xonly_ok pr t sp idx m secs sigs en em dummy r,
  decode_num en = zlen secs -> decode_num em = zlen sigs ->
  op_checkmultisig (tx_sigops hash256 sha256 hash_tapsighash hash_tapleaf xonly_ok pr t sp idx m)
    (en :: secs ++ em :: sigs ++ dummy :: r) =
  if existsb (fun sg : bytes => match sg with [] => true | _ => false end) sigs then Err
  else if forallb (pr_sec_ok pr) secs &&
          match_sigs (multisig_ver hash256 sha256 hash_tapsighash hash_tapleaf xonly_ok pr t sp idx) sigs secs
       then Ok (encode_num 1 :: r) else Err.
Proof. exact op_checkmultisig_own_digests. Qed.
Print Assumptions C05_op_checkmultisig_own_digests.

Theorem C05_multisig_ver_def :
  forall hash256 sha256 hash_tapsighash hash_tapleaf xonly_ok pr t sp idx k sg,
  multisig_ver hash256 sha256 hash_tapsighash hash_tapleaf xonly_ok pr t sp idx k sg =
  match ecdsa_sig_hash_type sg with
  | None => false
  | Some (der, ht) =>
      is_ok_true (d <- fresh_digest hash256 sha256 hash_tapsighash hash_tapleaf xonly_ok t sp idx ht ;;
                  pr_ecdsa pr k der d)
  end.
Proof. reflexivity. Qed.
Print Assumptions C05_multisig_ver_def.

(* tapscript OP_CHECKSIG / OP_CHECKSIGADD (and the key-path rule, which calls the former): for every
   signature BIP341 declares well-formed — 64 bytes: SIGHASH_DEFAULT; 65 bytes with a non-zero last
   byte: that byte — the Schnorr primitive gets Tx.sig_hash(idx, that hash type) *)
Theorem C05_op_checksig_schnorr_own_digest :
  forall hash256 sha256 hash_tapsighash hash_tapleaf xonly_ok pr t sp idx m pk sg s64 ht r,
  xonly_ok pk = true -> taproot_sig_hash_type sg = Some (s64, ht) ->
  op_checksig_schnorr (tx_sigops hash256 sha256 hash_tapsighash hash_tapleaf xonly_ok pr t sp idx m)
    (pk :: sg :: r) =
  (d <- fresh_digest hash256 sha256 hash_tapsighash hash_tapleaf xonly_ok t sp idx ht ;;
   b <- pr_schnorr pr pk s64 d ;; Ok (enc_bool b :: r)) /\
  forall en,
  op_checksigadd_schnorr (tx_sigops hash256 sha256 hash_tapsighash hash_tapleaf xonly_ok pr t sp idx m)
    (pk :: en :: sg :: r) =
  (d <- fresh_digest hash256 sha256 hash_tapsighash hash_tapleaf xonly_ok t sp idx ht ;;
   b <- pr_schnorr pr pk s64 d ;;
   Ok (encode_num (if b then decode_num en + 1 else decode_num en) :: r)).
Proof.
  intros hash256 sha256 hash_tapsighash hash_tapleaf xonly_ok pr t sp idx m pk sg s64 ht r Hpk Hsg. split.
  - exact (op_checksig_schnorr_own_digest hash256 sha256 hash_tapsighash hash_tapleaf xonly_ok pr
             t sp idx m pk sg s64 ht r Hpk Hsg).
  - intros en. exact (op_checksigadd_schnorr_own_digest hash256 sha256 hash_tapsighash hash_tapleaf xonly_ok pr
                        t sp idx m pk en sg s64 ht r Hpk Hsg).
Qed.
Print Assumptions C05_op_checksig_schnorr_own_digest.

(* BIP342: an empty signature is "not signed" (no digest is computed); an unusable key fails *)
Theorem C05_op_checksig_schnorr_empty_or_bad_key :
  forall hash256 sha256 hash_tapsighash hash_tapleaf xonly_ok pr t sp idx m pk sg r,
  let so := tx_sigops hash256 sha256 hash_tapsighash hash_tapleaf xonly_ok pr t sp idx m in
  (xonly_ok pk = true ->
   op_checksig_schnorr so (pk :: [] :: r) = Ok (encode_num 0 :: r) /\
   forall en, op_checksigadd_schnorr so (pk :: en :: [] :: r) = Ok (encode_num (decode_num en) :: r)) /\
  (xonly_ok pk = false ->
   op_checksig_schnorr so (pk :: sg :: r) = Err /\
   forall en, op_checksigadd_schnorr so (pk :: en :: sg :: r) = Err).
Proof.
  intros. split.
  - exact (op_checksig_schnorr_empty hash256 sha256 hash_tapsighash hash_tapleaf xonly_ok pr t sp idx m pk r).
  - exact (op_checksig_schnorr_bad_key hash256 sha256 hash_tapsighash hash_tapleaf xonly_ok pr t sp idx m pk sg r).
Qed.
Print Assumptions C05_op_checksig_schnorr_empty_or_bad_key.

(* ---------------- (6) the same, in terms of the standards ---------------- *)

Theorem C05_op_checksig_p2pkh_spec :
  forall hash256 sha256 hash_tapsighash hash_tapleaf xonly_ok pr t ct sp idx m ti s h sec sg r,
  abs_tx t = Ok ct -> nth_error (t_ins t) idx = Some ti -> nth_error sp idx = Some s ->
  sp_script s = mk_script (p2pkh_script h) -> length h = 20%nat ->
  sg <> [] -> standard_hash_type (last sg 0) = true ->
  op_checksig (tx_sigops hash256 sha256 hash_tapsighash hash_tapleaf xonly_ok pr t sp idx m) (sec :: sg :: r) =
  (b <- pr_ecdsa pr sec (removelast sg)
          (legacy_digest hash256 (Bip143.p2wpkh_script_code h) ct idx (last sg 0)) ;; Ok (enc_bool b :: r)).
Proof. exact op_checksig_p2pkh_spec. Qed.
Print Assumptions C05_op_checksig_p2pkh_spec.

Theorem C05_op_checksig_p2wpkh_spec :
  forall hash256 sha256 hash_tapsighash hash_tapleaf xonly_ok pr t ct sp idx m ti s h sec sg r,
  abs_tx t = Ok ct -> nth_error (t_ins t) idx = Some ti -> nth_error sp idx = Some s ->
  sp_script s = mk_script (p2wpkh_script h) -> length h = 20%nat -> in_u64 (sp_value s) = true ->
  sg <> [] -> standard_hash_type (last sg 0) = true ->
  op_checksig (tx_sigops hash256 sha256 hash_tapsighash hash_tapleaf xonly_ok pr t sp idx m) (sec :: sg :: r) =
  (d <- bip143_digest hash256 (Bip143.p2wpkh_script_code h) (sp_value s) ct idx (last sg 0) ;;
   b <- pr_ecdsa pr sec (removelast sg) d ;; Ok (enc_bool b :: r)).
Proof. exact op_checksig_p2wpkh_spec. Qed.
Print Assumptions C05_op_checksig_p2wpkh_spec.

(* one (key, signature) test of OP_CHECKMULTISIG inside a P2WSH witness script / a P2SH redeem
   script: the BIP143 / original digest of the signature's own (standard) hash type, script code
   = the witness / redeem script as it is on the wire *)
Theorem C05_multisig_ver_p2wsh_spec :
  forall hash256 sha256 hash_tapsighash hash_tapleaf xonly_ok pr t ct sp idx ti s h cs raw k sg,
  abs_tx t = Ok ct -> nth_error (t_ins t) idx = Some ti -> nth_error sp idx = Some s ->
  sp_script s = mk_script (p2wsh_script h) -> length h = 32%nat -> in_u64 (sp_value s) = true ->
  nth_last 0 (i_witness ti) = Some raw -> encodes cs raw ->
  sg <> [] -> standard_hash_type (last sg 0) = true ->
  multisig_ver hash256 sha256 hash_tapsighash hash_tapleaf xonly_ok pr t sp idx k sg =
  is_ok_true (d <- bip143_digest hash256 raw (sp_value s) ct idx (last sg 0) ;;
              pr_ecdsa pr k (removelast sg) d).
Proof. exact multisig_ver_p2wsh_spec. Qed.
Print Assumptions C05_multisig_ver_p2wsh_spec.

Theorem C05_multisig_ver_p2sh_spec :
  forall hash256 sha256 hash_tapsighash hash_tapleaf xonly_ok pr t ct sp idx ti s h cs raw k sg,
  abs_tx t = Ok ct -> nth_error (t_ins t) idx = Some ti -> nth_error sp idx = Some s ->
  sp_script s = mk_script (p2sh_script h) -> length h = 20%nat ->
  nth_last 0 (s_cmds (i_script ti)) = Some (Push raw) -> encodes cs raw ->
  is_p2wpkh cs = false -> is_p2wsh cs = false ->
  sg <> [] -> standard_hash_type (last sg 0) = true ->
  multisig_ver hash256 sha256 hash_tapsighash hash_tapleaf xonly_ok pr t sp idx k sg =
  is_ok_true (pr_ecdsa pr k (removelast sg) (legacy_digest hash256 raw ct idx (last sg 0))).
Proof. exact multisig_ver_p2sh_spec. Qed.
Print Assumptions C05_multisig_ver_p2sh_spec.

Theorem C05_op_checksig_schnorr_keypath_spec :
  forall hash256 sha256 hash_tapsighash hash_tapleaf xonly_ok pr t ct sp coins idx m ti s x pk sg s64 ht r,
  abs_tx t = Ok ct -> abs_list abs_spent sp = Ok coins -> length sp = length (t_ins t) ->
  nth_error (t_ins t) idx = Some ti -> nth_error sp idx = Some s ->
  sp_script s = mk_script (p2tr_script x) -> length x = 32%nat ->
  in_u32 (Z.of_nat idx) = true ->
  (forall a, annex_of (i_witness ti) = Some a -> in_u64 (zlen a) = true) ->
  zlen (snd (Bip341.split_annex (i_witness ti))) = 1 ->
  xonly_ok pk = true -> taproot_sig_hash_type sg = Some (s64, ht) -> standard_hash_type ht = true ->
  op_checksig_schnorr (tx_sigops hash256 sha256 hash_tapsighash hash_tapleaf xonly_ok pr t sp idx m)
    (pk :: sg :: r) =
  (d <- bip341_digest sha256 hash_tapsighash hash_tapleaf ct coins idx ht (annex_of (i_witness ti)) None ;;
   b <- pr_schnorr pr pk s64 d ;; Ok (enc_bool b :: r)).
Proof. exact op_checksig_schnorr_keypath_spec. Qed.
Print Assumptions C05_op_checksig_schnorr_keypath_spec.

Theorem C05_op_checksigadd_scriptpath_spec :
  forall hash256 sha256 hash_tapsighash hash_tapleaf xonly_ok pr t ct sp coins idx m ti s x v scr c cs
         pk en sg s64 ht r,
  abs_tx t = Ok ct -> abs_list abs_spent sp = Ok coins -> length sp = length (t_ins t) ->
  nth_error (t_ins t) idx = Some ti -> nth_error sp idx = Some s ->
  sp_script s = mk_script (p2tr_script x) -> length x = 32%nat ->
  in_u32 (Z.of_nat idx) = true ->
  (forall a, annex_of (i_witness ti) = Some a -> in_u64 (zlen a) = true) ->
  Bip341.script_path xonly_ok (snd (Bip341.split_annex (i_witness ti))) = Some (v, scr, c) ->
  bytes_ok c -> encodes cs scr ->
  xonly_ok pk = true -> taproot_sig_hash_type sg = Some (s64, ht) -> standard_hash_type ht = true ->
  op_checksigadd_schnorr (tx_sigops hash256 sha256 hash_tapsighash hash_tapleaf xonly_ok pr t sp idx m)
    (pk :: en :: sg :: r) =
  (d <- bip341_digest sha256 hash_tapsighash hash_tapleaf ct coins idx ht (annex_of (i_witness ti)) (Some (v, scr)) ;;
   b <- pr_schnorr pr pk s64 d ;;
   Ok (encode_num (if b then decode_num en + 1 else decode_num en) :: r)) /\
  op_checksig_schnorr (tx_sigops hash256 sha256 hash_tapsighash hash_tapleaf xonly_ok pr t sp idx m)
    (pk :: sg :: r) =
  (d <- bip341_digest sha256 hash_tapsighash hash_tapleaf ct coins idx ht (annex_of (i_witness ti)) (Some (v, scr)) ;;
   b <- pr_schnorr pr pk s64 d ;; Ok (enc_bool b :: r)).
Proof. exact op_checksigadd_scriptpath_spec. Qed.
Print Assumptions C05_op_checksigadd_scriptpath_spec.

(* ---------------- (7) ill-formed taproot signatures, non-standard hash types ---------- *)

(* BIP341's signature validation rule at the op codes.  Formerly refuted (C05_schnorr_explicit_default_refuted,
   C05_schnorr_overlong_refuted: a 65-byte signature ending in 00, and a signature followed by junk
   bytes, got the verdict of the 64-byte signature they extend); repaired in /repo by 746b81a.  Now:
   the form test of the op codes IS the rule of BIP341, and every non-empty ill-formed signature
   makes OP_CHECKSIG / OP_CHECKSIGADD fail, for ANY verdict record *)
Theorem C05_schnorr_form_is_bip341 : forall sg,
  schnorr_form_ok sg = match taproot_sig_hash_type sg with Some _ => true | None => false end.
Proof. exact schnorr_form_ok_bip341. Qed.
Print Assumptions C05_schnorr_form_is_bip341.

Theorem C05_schnorr_ill_formed_rejected : forall so pk sg r,
  sg <> [] -> taproot_sig_hash_type sg = None ->
  op_checksig_schnorr so (pk :: sg :: r) = Err /\
  forall en, op_checksigadd_schnorr so (pk :: en :: sg :: r) = Err.
Proof. exact op_schnorr_bad_form. Qed.
Print Assumptions C05_schnorr_ill_formed_rejected.

Theorem C05_schnorr_explicit_default_rejected : forall so pk s64 r,
  length s64 = 64%nat ->
  taproot_sig_hash_type (s64 ++ [0]) = None /\
  taproot_sig_hash_type s64 = Some (s64, 0) /\
  op_checksig_schnorr so (pk :: (s64 ++ [0]) :: r) = Err /\
  forall en, op_checksigadd_schnorr so (pk :: en :: (s64 ++ [0]) :: r) = Err.
Proof. exact schnorr_explicit_default_rejected. Qed.
Print Assumptions C05_schnorr_explicit_default_rejected.

Theorem C05_schnorr_overlong_rejected : forall so pk s64 extra r,
  length s64 = 64%nat -> (2 <= length extra)%nat ->
  taproot_sig_hash_type (s64 ++ extra) = None /\
  op_checksig_schnorr so (pk :: (s64 ++ extra) :: r) = Err /\
  forall en, op_checksigadd_schnorr so (pk :: en :: (s64 ++ extra) :: r) = Err.
Proof. exact schnorr_overlong_rejected. Qed.
Print Assumptions C05_schnorr_overlong_rejected.

(* a 65-byte signature whose last byte is not one of 01 02 03 81 82 83 (04, 80, ff, ...): rejected,
   so the op codes never ask Tx.sig_hash_bip341 for a hash type BIP341 does not define *)
Theorem C05_schnorr_undefined_hash_type_rejected : forall so pk s64 ht r,
  length s64 = 64%nat -> taproot_explicit_hash_type ht = false ->
  taproot_sig_hash_type (s64 ++ [ht]) = None /\
  op_checksig_schnorr so (pk :: (s64 ++ [ht]) :: r) = Err /\
  forall en, op_checksigadd_schnorr so (pk :: en :: (s64 ++ [ht]) :: r) = Err.
Proof. exact schnorr_undefined_hash_type_rejected. Qed.
Print Assumptions C05_schnorr_undefined_hash_type_rejected.

(* BIP341 defines no message for a hash type outside 00 01 02 03 81 82 83; the BUILDER
   Tx.sig_hash_bip341 called directly still produces one (witness: hash type 0x04).  Since 746b81a
   no op code reaches it with such a type (theorem above), so Tx.verify_input no longer accepts
   65-byte signatures with hash types 04, 80, 84, ff. *)
Theorem C05_bip341_undefined_hash_type_refuted :
  exists t sp idx ht p,
    Bip341.valid_hash_type ht = false /\
    (forall sha256 ext ct coins annex, Bip341.sig_msg sha256 ht ext ct coins idx annex = None) /\
    rsnd (bip341_preimage idh idh (fun _ => true) t sp idx 0 ht memo_empty) = Ok p.
Proof. exact bip341_undefined_hash_type. Qed.
Print Assumptions C05_bip341_undefined_hash_type_refuted.

(* original algorithm / BIP143 with a NON-standard hash type byte: consensus masks with 0x1f; the
   library used to mask with 3 (former theorem C05_legacy_hash_type_mask_refuted, witness 0x06).
   Repaired in /repo by 9c0cf6b; now, for EVERY hash type that fits the 4-byte field (in particular
   every byte), the legacy and BIP143 preimages are those of the specifications *)
Theorem C05_legacy_eq_spec_every_hash_type : forall t ct idx code cb ht,
  in_u32 ht = true -> abs_tx t = Ok ct -> abs_script code = Ok cb ->
  legacy_preimage t idx code ht = Ok (Legacy.preimage cb ct idx ht).
Proof. exact legacy_eq_spec_any. Qed.
Print Assumptions C05_legacy_eq_spec_every_hash_type.

Theorem C05_bip143_eq_spec_every_hash_type : forall hash256 t ct sp idx redeem wscript s code cb ht m,
  in_u32 ht = true -> abs_tx t = Ok ct ->
  nth_error sp idx = Some s -> in_u64 (sp_value s) = true ->
  bip143_script_code redeem wscript (Some (sp_script s)) = Ok code -> abs_script code = Ok cb ->
  rsnd (bip143_preimage hash256 t sp idx redeem wscript ht m) =
  opt_res (Bip143.preimage hash256 cb (sp_value s) ct idx ht).
Proof. exact bip143_eq_spec_any. Qed.
Print Assumptions C05_bip143_eq_spec_every_hash_type.

(* ---------------- (8) signing: the digest signed is the digest verified ---------------- *)

(* the three digests read only version, outputs, locktime and, of the inputs, outpoint and sequence
   (BIP341: also the annex / tap leaf of the witness of the input being signed): filling in the
   scriptSig or witness of any input leaves every earlier signature valid *)
Theorem C05_digests_ignore_scriptsigs_and_witnesses :
  forall hash256 sha256 hash_tapsighash hash_tapleaf xonly_ok t t' sp idx ht m,
  same_core t t' ->
  (forall redeem, sig_hash_legacy hash256 t sp idx redeem ht = sig_hash_legacy hash256 t' sp idx redeem ht) /\
  (forall redeem wscript, sig_hash_bip143 hash256 t sp idx redeem wscript ht m =
                          sig_hash_bip143 hash256 t' sp idx redeem wscript ht m) /\
  (forall ext,
     (forall ti ti', nth_error (t_ins t) idx = Some ti -> nth_error (t_ins t') idx = Some ti' ->
                     wit_agree ext (i_witness ti) (i_witness ti')) ->
     sig_hash_bip341 sha256 hash_tapsighash hash_tapleaf xonly_ok t sp idx ext ht m =
     sig_hash_bip341 sha256 hash_tapsighash hash_tapleaf xonly_ok t' sp idx ext ht m).
Proof.
  intros hash256 sha256 hash_tapsighash hash_tapleaf xonly_ok t t' sp idx ht m H. split; [|split].
  - intros redeem. exact (sig_hash_legacy_core hash256 t t' sp idx redeem ht H).
  - intros redeem wscript. exact (sig_hash_bip143_core hash256 t t' sp idx redeem wscript ht m H).
  - intros ext Hw.
    exact (sig_hash_bip341_core sha256 hash_tapsighash hash_tapleaf xonly_ok t t' sp idx ext ht m H Hw).
Qed.
Print Assumptions C05_digests_ignore_scriptsigs_and_witnesses.

Theorem C05_same_core_edit : forall t idx f,
  (forall i, in_core_eq i (f i)) -> same_core t (tx_upd_in t idx f).
Proof. exact same_core_upd. Qed.
Print Assumptions C05_same_core_edit.

(* Tx.get_sig_legacy on a P2PKH input signs the SIGHASH_ALL digest and appends 01; OP_CHECKSIG, on
   ANY later state of the transaction (other inputs signed, this input finalised), recomputes that
   very digest for the appended byte *)
Theorem C05_signed_p2pkh_checked :
  forall hash256 sha256 hash_tapsighash hash_tapleaf xonly_ok pr t sp idx s h secret sg,
  nth_error sp idx = Some s -> sp_script s = mk_script (p2pkh_script h) ->
  get_sig_legacy hash256 pr t sp idx secret None = Ok sg ->
  exists p z der,
    sig_hash_legacy hash256 t sp idx None 1 = Ok (p, z) /\ pr_sign pr secret (DInt z) = Ok der /\
    sg = der ++ [1] /\
    forall t' ti' m' sec r, same_core t t' -> nth_error (t_ins t') idx = Some ti' ->
      op_checksig (tx_sigops hash256 sha256 hash_tapsighash hash_tapleaf xonly_ok pr t' sp idx m')
        (sec :: sg :: r) =
      (b <- pr_ecdsa pr sec der (DInt z) ;; Ok (enc_bool b :: r)).
Proof. exact signed_p2pkh_checked. Qed.
Print Assumptions C05_signed_p2pkh_checked.

Theorem C05_signed_p2wpkh_checked :
  forall hash256 sha256 hash_tapsighash hash_tapleaf xonly_ok pr t sp idx m s h secret sg,
  nth_error sp idx = Some s -> sp_script s = mk_script (p2wpkh_script h) -> length h = 20%nat ->
  get_sig_segwit hash256 pr t sp idx m secret None None = Ok sg ->
  exists p z der,
    rsnd (sig_hash_bip143 hash256 t sp idx None None 1 m) = Ok (p, z) /\
    pr_sign pr secret (DInt z) = Ok der /\ sg = der ++ [1] /\
    forall t' ti' m' sec r, same_core t t' -> nth_error (t_ins t') idx = Some ti' ->
      op_checksig (tx_sigops hash256 sha256 hash_tapsighash hash_tapleaf xonly_ok pr t' sp idx m')
        (sec :: sg :: r) =
      (b <- pr_ecdsa pr sec der (DInt z) ;; Ok (enc_bool b :: r)).
Proof. exact signed_p2wpkh_checked. Qed.
Print Assumptions C05_signed_p2wpkh_checked.

Theorem C05_signed_p2sh_p2wpkh_checked :
  forall hash256 sha256 hash_tapsighash hash_tapleaf xonly_ok pr t sp idx m s h h20 secret sg,
  nth_error sp idx = Some s -> sp_script s = mk_script (p2sh_script h) -> length h = 20%nat ->
  length h20 = 20%nat ->
  get_sig_segwit hash256 pr t sp idx m secret (Some (mk_script [Op 0; Push h20])) None = Ok sg ->
  exists p z der,
    rsnd (sig_hash_bip143 hash256 t sp idx (Some (mk_script [Op 0; Push h20])) None 1 m) = Ok (p, z) /\
    pr_sign pr secret (DInt z) = Ok der /\ sg = der ++ [1] /\
    forall t' ti' m' sec r, same_core t t' -> nth_error (t_ins t') idx = Some ti' ->
      nth_last 0 (s_cmds (i_script ti')) = Some (Push (0 :: 20 :: h20)) ->
      op_checksig (tx_sigops hash256 sha256 hash_tapsighash hash_tapleaf xonly_ok pr t' sp idx m')
        (sec :: sg :: r) =
      (b <- pr_ecdsa pr sec der (DInt z) ;; Ok (enc_bool b :: r)).
Proof. exact signed_p2sh_p2wpkh_checked. Qed.
Print Assumptions C05_signed_p2sh_p2wpkh_checked.

(* taproot key path, any hash type: 64 bytes for SIGHASH_DEFAULT, 64 bytes || hash type otherwise
   — the form BIP341 prescribes — and the key-path rule recomputes the signed message *)
Theorem C05_signed_p2tr_keypath_checked :
  forall hash256 sha256 hash_tapsighash hash_tapleaf xonly_ok pr t sp idx m ti s x secret ht aux sg,
  nth_error (t_ins t) idx = Some ti -> nth_error sp idx = Some s ->
  sp_script s = mk_script (p2tr_script x) -> length x = 32%nat -> has_annex (i_witness ti) = false ->
  standard_hash_type ht = true ->
  get_sig_taproot sha256 hash_tapsighash hash_tapleaf xonly_ok pr t sp idx m secret 0 ht aux = Ok sg ->
  exists p msg s64,
    rsnd (sig_hash_bip341 sha256 hash_tapsighash hash_tapleaf xonly_ok t sp idx 0 ht m) = Ok (p, msg) /\
    pr_sign_schnorr pr secret (DBytes msg) aux = Ok s64 /\
    sg = (if ht =? 0 then s64 else s64 ++ [ht]) /\
    (length s64 = 64%nat -> taproot_sig_hash_type sg = Some (s64, ht) /\
     forall t' ti' m' pk r, same_core t t' -> nth_error (t_ins t') idx = Some ti' ->
       i_witness ti' = [sg] -> xonly_ok pk = true ->
       op_checksig_schnorr (tx_sigops hash256 sha256 hash_tapsighash hash_tapleaf xonly_ok pr t' sp idx m')
         (pk :: sg :: r) =
       (b <- pr_schnorr pr pk s64 (DBytes msg) ;; Ok (enc_bool b :: r))).
Proof. exact signed_p2tr_keypath_checked. Qed.
Print Assumptions C05_signed_p2tr_keypath_checked.

(* what the signing methods sign, in terms of the standards: Tx.get_sig_legacy (P2PKH; with an
   explicit redeem script), Tx.get_sig_segwit (script code derived as in sig_hash_bip143),
   Tx.get_sig_taproot (key path / script path), and Tx.check_sig_legacy / check_sig_segwit *)
Theorem C05_get_sig_legacy_p2pkh_spec :
  forall hash256 pr t ct sp idx ti s h secret,
  abs_tx t = Ok ct -> nth_error (t_ins t) idx = Some ti -> nth_error sp idx = Some s ->
  sp_script s = mk_script (p2pkh_script h) -> length h = 20%nat ->
  get_sig_legacy hash256 pr t sp idx secret None =
  (der <- pr_sign pr secret (legacy_digest hash256 (Bip143.p2wpkh_script_code h) ct idx 1) ;; Ok (der ++ [1])).
Proof. exact get_sig_legacy_p2pkh_spec. Qed.
Print Assumptions C05_get_sig_legacy_p2pkh_spec.

Theorem C05_get_sig_legacy_redeem_spec :
  forall hash256 pr t ct sp idx redeem cb secret,
  abs_tx t = Ok ct -> abs_script redeem = Ok cb ->
  get_sig_legacy hash256 pr t sp idx secret (Some redeem) =
  (der <- pr_sign pr secret (legacy_digest hash256 cb ct idx 1) ;; Ok (der ++ [1])).
Proof. exact get_sig_legacy_redeem_spec. Qed.
Print Assumptions C05_get_sig_legacy_redeem_spec.

Theorem C05_get_sig_segwit_spec :
  forall hash256 pr t ct sp idx m redeem wscript s code cb secret,
  abs_tx t = Ok ct -> nth_error sp idx = Some s -> in_u64 (sp_value s) = true ->
  bip143_script_code redeem wscript (Some (sp_script s)) = Ok code -> abs_script code = Ok cb ->
  get_sig_segwit hash256 pr t sp idx m secret redeem wscript =
  (d <- bip143_digest hash256 cb (sp_value s) ct idx 1 ;; der <- pr_sign pr secret d ;; Ok (der ++ [1])).
Proof. exact get_sig_segwit_spec. Qed.
Print Assumptions C05_get_sig_segwit_spec.

Theorem C05_get_sig_segwit_p2wpkh_spec :
  forall hash256 pr t ct sp idx m s h secret,
  abs_tx t = Ok ct -> nth_error sp idx = Some s -> in_u64 (sp_value s) = true ->
  sp_script s = mk_script (p2wpkh_script h) -> length h = 20%nat ->
  get_sig_segwit hash256 pr t sp idx m secret None None =
  (d <- bip143_digest hash256 (Bip143.p2wpkh_script_code h) (sp_value s) ct idx 1 ;;
   der <- pr_sign pr secret d ;; Ok (der ++ [1])).
Proof. exact get_sig_segwit_p2wpkh_spec. Qed.
Print Assumptions C05_get_sig_segwit_p2wpkh_spec.

Theorem C05_get_sig_taproot_spec :
  forall sha256 hash_tapsighash hash_tapleaf xonly_ok pr t ct sp coins idx m ti ext leaf secret ht aux,
  standard_hash_type ht = true -> abs_tx t = Ok ct -> abs_list abs_spent sp = Ok coins ->
  length sp = length (t_ins t) -> nth_error (t_ins t) idx = Some ti ->
  in_u32 (Z.of_nat idx) = true ->
  (forall a, annex_of (i_witness ti) = Some a -> in_u64 (zlen a) = true) ->
  leaf_rel xonly_ok ext (i_witness ti) leaf ->
  get_sig_taproot sha256 hash_tapsighash hash_tapleaf xonly_ok pr t sp idx m secret ext ht aux =
  (d <- bip341_digest sha256 hash_tapsighash hash_tapleaf ct coins idx ht (annex_of (i_witness ti)) leaf ;;
   s64 <- pr_sign_schnorr pr secret d aux ;;
   Ok (if ht =? 0 then s64 else s64 ++ [ht])).
Proof. exact get_sig_taproot_spec. Qed.
Print Assumptions C05_get_sig_taproot_spec.

Theorem C05_check_sig_spec :
  forall hash256 pr t ct sp idx m s sec der,
  abs_tx t = Ok ct -> nth_error sp idx = Some s ->
  (forall redeem cb, abs_script redeem = Ok cb ->
     check_sig_legacy hash256 pr t sp idx sec der (Some redeem) =
     pr_ecdsa pr sec der (legacy_digest hash256 cb ct idx 1)) /\
  (forall redeem wscript code cb, in_u64 (sp_value s) = true ->
     bip143_script_code redeem wscript (Some (sp_script s)) = Ok code -> abs_script code = Ok cb ->
     check_sig_segwit hash256 pr t sp idx m sec der redeem wscript =
     (d <- bip143_digest hash256 cb (sp_value s) ct idx 1 ;; pr_ecdsa pr sec der d)).
Proof. exact check_sig_spec. Qed.
Print Assumptions C05_check_sig_spec.

(* Tx.sign_input: which signer runs for which spent output *)
Theorem C05_sign_input_dispatch :
  forall hash256 sha256 hash_tapsighash hash_tapleaf xonly_ok pr C ripemd160 sha1 hash160
         t sp idx m ti s secret compressed redeem ht,
  nth_error (t_ins t) idx = Some ti -> nth_error sp idx = Some s ->
  let c := s_cmds (sp_script s) in
  let SI := sign_input hash256 sha256 hash_tapsighash hash_tapleaf xonly_ok pr C ripemd160 sha1 hash160
              t sp idx m secret compressed redeem ht in
  (is_p2pkh c = true ->
   SI = sign_p2pkh hash256 sha256 hash_tapsighash hash_tapleaf xonly_ok pr C ripemd160 sha1 hash160
          t sp idx m secret compressed) /\
  (is_p2wpkh c = true ->
   SI = sign_p2wpkh hash256 sha256 hash_tapsighash hash_tapleaf xonly_ok pr C ripemd160 sha1 hash160
          t sp idx m secret compressed) /\
  (is_p2sh c = true -> opt_is is_p2wpkh redeem = true ->
   SI = sign_p2sh_p2wpkh hash256 sha256 hash_tapsighash hash_tapleaf xonly_ok pr C ripemd160 sha1 hash160
          t sp idx m secret compressed) /\
  (is_p2tr c = true -> opt_is is_p2wpkh redeem = false ->
   SI = sign_p2tr_keypath hash256 sha256 hash_tapsighash hash_tapleaf xonly_ok pr C ripemd160 sha1 hash160
          t sp idx m secret ht (repeatz 0 32)) /\
  (is_p2pkh c = false -> is_p2wpkh c = false -> opt_is is_p2wpkh redeem = false -> is_p2tr c = false ->
   SI = Err).
Proof. exact sign_input_dispatch. Qed.
Print Assumptions C05_sign_input_dispatch.

(* Tx.sign_p2pkh / sign_p2wpkh / sign_p2sh_p2wpkh / sign_p2tr_keypath return True (the model of
   Tx.verify_input, C06's Script.evaluate run with the digests of this Tx object, accepts the
   finalised input) whenever the primitive accepts, for the digest in question, the signature it
   has just made (which C01 / C02 prove for buidl/pecc.py under their side conditions) *)
Theorem C05_sign_p2pkh_accepts :
  forall hash256 sha256 hash_tapsighash hash_tapleaf xonly_ok pr C ripemd160 sha1 hash160
         t sp idx m ti s secret compressed sec sg,
  nth_error (t_ins t) idx = Some ti -> nth_error sp idx = Some s ->
  pr_sec pr secret compressed = Ok sec ->
  sp_script s = mk_script (p2pkh_script (hash160 sec)) ->
  get_sig_legacy hash256 pr t sp idx secret None = Ok sg ->
  (forall p z der, sig_hash_legacy hash256 t sp idx None 1 = Ok (p, z) ->
                   pr_sign pr secret (DInt z) = Ok der -> pr_ecdsa pr sec der (DInt z) = Ok true) ->
  sign_p2pkh hash256 sha256 hash_tapsighash hash_tapleaf xonly_ok pr C ripemd160 sha1 hash160
    t sp idx m secret compressed =
  Ok (tx_upd_in t idx (finalize_p2pkh sg sec), OTrue).
Proof. exact sign_p2pkh_accepts. Qed.
Print Assumptions C05_sign_p2pkh_accepts.

Theorem C05_sign_p2wpkh_accepts :
  forall hash256 sha256 hash_tapsighash hash_tapleaf xonly_ok pr C ripemd160 sha1 hash160
         t sp idx m ti s secret compressed sec sg,
  nth_error (t_ins t) idx = Some ti -> nth_error sp idx = Some s ->
  pr_sec pr secret compressed = Ok sec ->
  sp_script s = mk_script (p2wpkh_script (hash160 sec)) -> length (hash160 sec) = 20%nat ->
  get_sig_segwit hash256 pr t sp idx m secret None None = Ok sg ->
  (forall p z der, rsnd (sig_hash_bip143 hash256 t sp idx None None 1 m) = Ok (p, z) ->
                   pr_sign pr secret (DInt z) = Ok der -> pr_ecdsa pr sec der (DInt z) = Ok true) ->
  sign_p2wpkh hash256 sha256 hash_tapsighash hash_tapleaf xonly_ok pr C ripemd160 sha1 hash160
    t sp idx m secret compressed =
  Ok (tx_upd_in t idx (fun i => in_with_wit [sg; sec] (in_with_script empty_script i)), OTrue).
Proof. exact sign_p2wpkh_accepts. Qed.
Print Assumptions C05_sign_p2wpkh_accepts.

Theorem C05_sign_p2sh_p2wpkh_accepts :
  forall hash256 sha256 hash_tapsighash hash_tapleaf xonly_ok pr C ripemd160 sha1 hash160
         t sp idx m ti s secret sec sg,
  nth_error (t_ins t) idx = Some ti -> nth_error sp idx = Some s ->
  pr_sec pr secret true = Ok sec ->
  let redeem := 0 :: 20 :: hash160 sec in
  sp_script s = mk_script (p2sh_script (hash160 redeem)) ->
  length (hash160 sec) = 20%nat -> length (hash160 redeem) = 20%nat ->
  get_sig_segwit hash256 pr t sp idx m secret (Some (mk_script [Op 0; Push (hash160 sec)])) None = Ok sg ->
  (forall p z der,
     rsnd (sig_hash_bip143 hash256 t sp idx (Some (mk_script [Op 0; Push (hash160 sec)])) None 1 m) = Ok (p, z) ->
     pr_sign pr secret (DInt z) = Ok der -> pr_ecdsa pr sec der (DInt z) = Ok true) ->
  sign_p2sh_p2wpkh hash256 sha256 hash_tapsighash hash_tapleaf xonly_ok pr C ripemd160 sha1 hash160
    t sp idx m secret true =
  Ok (tx_upd_in t idx (fun i => in_with_wit [sg; sec] (in_with_script (mk_script [Push redeem]) i)), OTrue).
Proof. exact sign_p2sh_p2wpkh_accepts. Qed.
Print Assumptions C05_sign_p2sh_p2wpkh_accepts.

Theorem C05_sign_p2tr_keypath_accepts :
  forall hash256 sha256 hash_tapsighash hash_tapleaf xonly_ok pr C ripemd160 sha1 hash160
         t sp idx m ti s x secret ht aux sg,
  nth_error (t_ins t) idx = Some ti -> nth_error sp idx = Some s ->
  sp_script s = mk_script (p2tr_script x) -> length x = 32%nat -> xonly_ok x = true ->
  has_annex (i_witness ti) = false -> s_cmds (i_script ti) = [] -> standard_hash_type ht = true ->
  get_sig_taproot sha256 hash_tapsighash hash_tapleaf xonly_ok pr t sp idx m secret 0 ht aux = Ok sg ->
  (forall p msg s64,
     rsnd (sig_hash_bip341 sha256 hash_tapsighash hash_tapleaf xonly_ok t sp idx 0 ht m) = Ok (p, msg) ->
     pr_sign_schnorr pr secret (DBytes msg) aux = Ok s64 ->
     length s64 = 64%nat /\ pr_schnorr pr x s64 (DBytes msg) = Ok true) ->
  sign_p2tr_keypath hash256 sha256 hash_tapsighash hash_tapleaf xonly_ok pr C ripemd160 sha1 hash160
    t sp idx m secret ht aux =
  Ok (tx_upd_in t idx (finalize_p2tr_keypath sg), OTrue).
Proof. exact sign_p2tr_keypath_accepts. Qed.
Print Assumptions C05_sign_p2tr_keypath_accepts.

(* ---------------- (9) Tx.verify_input: what an accepted input proves ---------------- *)

(* whatever the scriptSig / witness: an accepted P2PKH / P2WPKH input supplies a key hashing to the
   program and a signature the ECDSA primitive accepts for the digest of the signature's own hash
   type byte (composition of the C06 soundness theorems with section (5)) *)
Theorem C05_verify_input_p2pkh_sound :
  forall hash256 sha256 hash_tapsighash hash_tapleaf xonly_ok pr C ripemd160 sha1 hash160 t sp idx m ti s h,
  nth_error (t_ins t) idx = Some ti -> nth_error sp idx = Some s ->
  sp_script s = mk_script (p2pkh_script h) ->
  tx_verify_input hash256 sha256 hash_tapsighash hash_tapleaf xonly_ok pr C ripemd160 sha1 hash160
    t sp idx m = Ok OTrue ->
  exists sec sg d, hash160 sec = h /\
    fresh_digest hash256 sha256 hash_tapsighash hash_tapleaf xonly_ok t sp idx (last sg 0) = Ok d /\
    pr_ecdsa pr sec (removelast sg) d = Ok true.
Proof. exact verify_input_p2pkh_sound. Qed.
Print Assumptions C05_verify_input_p2pkh_sound.

Theorem C05_verify_input_p2wpkh_sound :
  forall hash256 sha256 hash_tapsighash hash_tapleaf xonly_ok pr C ripemd160 sha1 hash160 t sp idx m ti s h,
  nth_error (t_ins t) idx = Some ti -> nth_error sp idx = Some s ->
  sp_script s = mk_script (p2wpkh_script h) -> length h = 20%nat ->
  tx_verify_input hash256 sha256 hash_tapsighash hash_tapleaf xonly_ok pr C ripemd160 sha1 hash160
    t sp idx m = Ok OTrue ->
  s_cmds (i_script ti) = [] /\
  exists sec sg d, hash160 sec = h /\
    fresh_digest hash256 sha256 hash_tapsighash hash_tapleaf xonly_ok t sp idx (last sg 0) = Ok d /\
    pr_ecdsa pr sec (removelast sg) d = Ok true.
Proof. exact verify_input_p2wpkh_sound. Qed.
Print Assumptions C05_verify_input_p2wpkh_sound.

Theorem C05_verify_input_p2tr_keypath_sound :
  forall hash256 sha256 hash_tapsighash hash_tapleaf xonly_ok pr C ripemd160 sha1 hash160 t sp idx m ti s x sg,
  nth_error (t_ins t) idx = Some ti -> nth_error sp idx = Some s ->
  sp_script s = mk_script (p2tr_script x) -> length x = 32%nat ->
  annex_stripped (i_witness ti) = [sg] ->
  tx_verify_input hash256 sha256 hash_tapsighash hash_tapleaf xonly_ok pr C ripemd160 sha1 hash160
    t sp idx m = Ok OTrue ->
  sg <> [] /\ xonly_ok x = true /\ schnorr_form_ok sg = true /\
  exists d, fresh_digest hash256 sha256 hash_tapsighash hash_tapleaf xonly_ok t sp idx (snd (schnorr_split sg)) = Ok d /\
            pr_schnorr pr x (fst (schnorr_split sg)) d = Ok true.
Proof. exact verify_input_p2tr_keypath_sound. Qed.
Print Assumptions C05_verify_input_p2tr_keypath_sound.

(* an accepted m-of-n P2WSH input: m signatures, each verifying under a different key of the
   witness script, in key order, each against the digest of ITS OWN hash type byte *)
Theorem C05_verify_input_p2wsh_multisig_sound :
  forall hash256 sha256 hash_tapsighash hash_tapleaf xonly_ok pr C ripemd160 sha1 hash160
         t sp idx m ti s x mq keys,
  nth_error (t_ins t) idx = Some ti -> nth_error sp idx = Some s ->
  sp_script s = mk_script (p2wsh_script x) -> length x = 32%nat ->
  1 <= mq <= 16 -> 1 <= zlen keys <= 16 ->
  parse_cmds (last (i_witness ti) []) = Ok (multisig_script mq keys) ->
  tx_verify_input hash256 sha256 hash_tapsighash hash_tapleaf xonly_ok pr C ripemd160 sha1 hash160
    t sp idx m = Ok OTrue ->
  sha256 (last (i_witness ti) []) = x /\
  exists sigs, zlen sigs = mq /\
    embeds (own_digest_ver hash256 sha256 hash_tapsighash hash_tapleaf xonly_ok pr t sp idx) sigs (rev keys).
Proof. exact verify_input_p2wsh_multisig_sound. Qed.
Print Assumptions C05_verify_input_p2wsh_multisig_sound.

Theorem C05_verify_input_p2sh_multisig_sound :
  forall hash256 sha256 hash_tapsighash hash_tapleaf xonly_ok pr C ripemd160 sha1 hash160
         t sp idx m ti s h mq keys,
  nth_error (t_ins t) idx = Some ti -> nth_error sp idx = Some s ->
  sp_script s = mk_script (p2sh_script h) -> length h = 20%nat ->
  1 <= mq <= 16 -> 1 <= zlen keys <= 16 ->
  tx_verify_input hash256 sha256 hash_tapsighash hash_tapleaf xonly_ok pr C ripemd160 sha1 hash160
    t sp idx m = Ok OTrue ->
  exists b, hash160 b = h /\
    (parse_cmds b = Ok (multisig_script mq keys) ->
     exists sigs, zlen sigs = mq /\
       embeds (own_digest_ver hash256 sha256 hash_tapsighash hash_tapleaf xonly_ok pr t sp idx) sigs (rev keys)).
Proof. exact verify_input_p2sh_multisig_sound. Qed.
Print Assumptions C05_verify_input_p2sh_multisig_sound.

(* history independence at the outermost verifier: the verdict on input idx depends neither on the
   memo fields (earlier digest computations on the object) nor on the scriptSigs and witnesses of
   the OTHER inputs — on any two states of the transaction that agree on the core and on input idx
   itself, Tx.verify_input(idx) returns the same *)
Theorem C05_verify_input_history_independent :
  forall hash256 sha256 hash_tapsighash hash_tapleaf xonly_ok pr C ripemd160 sha1 hash160 t t' sp idx m m',
  same_core t t' -> nth_error (t_ins t) idx = nth_error (t_ins t') idx ->
  tx_verify_input hash256 sha256 hash_tapsighash hash_tapleaf xonly_ok pr C ripemd160 sha1 hash160 t sp idx m =
  tx_verify_input hash256 sha256 hash_tapsighash hash_tapleaf xonly_ok pr C ripemd160 sha1 hash160 t' sp idx m'.
Proof. exact tx_verify_input_same_input. Qed.
Print Assumptions C05_verify_input_history_independent.

(* in particular, signing / finalising input j leaves the verdict on every other input unchanged *)
Theorem C05_verify_input_other_input_edit :
  forall hash256 sha256 hash_tapsighash hash_tapleaf xonly_ok pr C ripemd160 sha1 hash160 t sp idx j f m m',
  j <> idx -> (forall i, in_core_eq i (f i)) ->
  tx_verify_input hash256 sha256 hash_tapsighash hash_tapleaf xonly_ok pr C ripemd160 sha1 hash160
    (tx_upd_in t j f) sp idx m' =
  tx_verify_input hash256 sha256 hash_tapsighash hash_tapleaf xonly_ok pr C ripemd160 sha1 hash160 t sp idx m.
Proof. exact tx_verify_input_other_input_edit. Qed.
Print Assumptions C05_verify_input_other_input_edit.

(* … and in terms of the standards, for standard hash type bytes / BIP341-well-formed signatures *)
Theorem C05_verify_input_p2wpkh_spec :
  forall hash256 sha256 hash_tapsighash hash_tapleaf xonly_ok pr C ripemd160 sha1 hash160 t ct sp idx m ti s h,
  abs_tx t = Ok ct -> nth_error (t_ins t) idx = Some ti -> nth_error sp idx = Some s ->
  sp_script s = mk_script (p2wpkh_script h) -> length h = 20%nat -> in_u64 (sp_value s) = true ->
  tx_verify_input hash256 sha256 hash_tapsighash hash_tapleaf xonly_ok pr C ripemd160 sha1 hash160
    t sp idx m = Ok OTrue ->
  exists sec sg, hash160 sec = h /\
    (standard_hash_type (last sg 0) = true ->
     exists p, Bip143.preimage hash256 (Bip143.p2wpkh_script_code h) (sp_value s) ct idx (last sg 0) = Some p /\
               pr_ecdsa pr sec (removelast sg) (DInt (from_be (hash256 p))) = Ok true).
Proof. exact verify_input_p2wpkh_spec. Qed.
Print Assumptions C05_verify_input_p2wpkh_spec.

Theorem C05_verify_input_p2pkh_spec :
  forall hash256 sha256 hash_tapsighash hash_tapleaf xonly_ok pr C ripemd160 sha1 hash160 t ct sp idx m ti s h,
  abs_tx t = Ok ct -> nth_error (t_ins t) idx = Some ti -> nth_error sp idx = Some s ->
  sp_script s = mk_script (p2pkh_script h) -> length h = 20%nat ->
  tx_verify_input hash256 sha256 hash_tapsighash hash_tapleaf xonly_ok pr C ripemd160 sha1 hash160
    t sp idx m = Ok OTrue ->
  exists sec sg, hash160 sec = h /\
    (standard_hash_type (last sg 0) = true ->
     pr_ecdsa pr sec (removelast sg)
       (legacy_digest hash256 (Bip143.p2wpkh_script_code h) ct idx (last sg 0)) = Ok true).
Proof. exact verify_input_p2pkh_spec. Qed.
Print Assumptions C05_verify_input_p2pkh_spec.

Theorem C05_verify_input_p2tr_keypath_spec :
  forall hash256 sha256 hash_tapsighash hash_tapleaf xonly_ok pr C ripemd160 sha1 hash160
         t ct sp coins idx m ti s x sg s64 ht,
  abs_tx t = Ok ct -> abs_list abs_spent sp = Ok coins -> length sp = length (t_ins t) ->
  nth_error (t_ins t) idx = Some ti -> nth_error sp idx = Some s ->
  sp_script s = mk_script (p2tr_script x) -> length x = 32%nat ->
  in_u32 (Z.of_nat idx) = true ->
  (forall a, annex_of (i_witness ti) = Some a -> in_u64 (zlen a) = true) ->
  zlen (snd (Bip341.split_annex (i_witness ti))) = 1 ->
  annex_stripped (i_witness ti) = [sg] ->
  taproot_sig_hash_type sg = Some (s64, ht) -> standard_hash_type ht = true ->
  tx_verify_input hash256 sha256 hash_tapsighash hash_tapleaf xonly_ok pr C ripemd160 sha1 hash160
    t sp idx m = Ok OTrue ->
  exists p, Bip341.message sha256 hash_tapleaf ht ct coins idx (annex_of (i_witness ti)) None = Some p /\
            pr_schnorr pr x s64 (DBytes (hash_tapsighash p)) = Ok true.
Proof. exact verify_input_p2tr_keypath_spec. Qed.
Print Assumptions C05_verify_input_p2tr_keypath_spec.

(* ---------------- non-vacuity ---------------- *)

Example C05_ex_hypotheses_satisfiable :
  (exists ct, abs_tx ex_tx = Ok ct /\ length (ct_vin ct) = 2%nat) /\
  (exists coins, abs_list abs_spent ex_spent = Ok coins) /\
  standard_hash_type 131 = true /\
  leaf_rel (fun _ => true) 0 (i_witness ex_in1) None /\
  annex_of (i_witness ex_in1) = Some [80; 1; 2].
Proof.
  split; [exact ex_abs_tx|]. split; [exact ex_abs_spent|]. split; [reflexivity|].
  split; [left; split; reflexivity | reflexivity].
Qed.

(* the history [Query; EditOutput; Query]: the second query sees the edited output *)
Example C05_ex_history :
  let outs := snd (run idh idh idh idh (fun _ => true)
                       {| ob_tx := ex_tx; ob_spent := ex_spent; ob_memo := memo_empty |} ex_hist) in
  outs = fresh_outputs idh idh idh idh (fun _ => true) ex_tx ex_spent ex_hist /\
  (exists a b, outs = [Ok a; Ok b] /\ so_alg a = 143 /\ so_alg b = 143 /\ so_pre a <> so_pre b).
Proof. exact ex_history. Qed.

(* a raw script that is canonically encoded in the sense of section (4): a 2-of-3 multisig script *)
Example C05_ex_encodes :
  exists raw, encodes [Op 82; Push (repeatz 2 33); Push (repeatz 3 33); Push (repeatz 4 33); Op 83; Op 174] raw /\
              length raw = 105%nat.
Proof. eexists. split; [split; vm_compute; reflexivity | reflexivity]. Qed.

(* sections (5), (8) on the toy curve (Proofs/ToyCurve.v) with the primitives of Model/Pecc.v: signing a
   P2WPKH input satisfies every hypothesis of C05_sign_p2wpkh_accepts, and the model of
   Tx.sign_p2wpkh returns True *)
Example C05_ex_toy_sign_p2wpkh :
  pr_sec toy_prims 5 true = Ok (toy_sec 5) /\ length (toy_h160 (toy_sec 5)) = 20%nat /\
  get_sig_segwit toy_h256 toy_prims toy_tx toy_spent 0 memo_empty 5 None None = Ok toy_sig /\
  (forall p z der,
     rsnd (sig_hash_bip143 toy_h256 toy_tx toy_spent 0 None None 1 memo_empty) = Ok (p, z) ->
     pr_sign toy_prims 5 (DInt z) = Ok der -> pr_ecdsa toy_prims (toy_sec 5) der (DInt z) = Ok true) /\
  sign_p2wpkh toy_h256 idh idh idh (fun _ => true) toy_prims toy idh idh toy_h160
    toy_tx toy_spent 0 memo_empty 5 true =
  Ok (tx_upd_in toy_tx 0 (fun i => in_with_wit [toy_sig; toy_sec 5] (in_with_script empty_script i)), OTrue).
Proof. exact toy_sign_p2wpkh. Qed.

(* one OP_CHECKMULTISIG, two signatures with DIFFERENT hash types: accepted; with the hash type
   bytes exchanged, or one relabelled: rejected; the digests involved are pairwise different *)
Example C05_ex_toy_multisig_mixed_hash_types :
  op_checkmultisig toy_so (toy_stack (toy_sgn 5 1 1) (toy_sgn 3 130 130)) = Ok [[1]] /\
  op_checkmultisig toy_so (toy_stack (toy_sgn 5 3 3) (toy_sgn 3 2 2)) = Ok [[1]] /\
  op_checkmultisig toy_so (toy_stack (toy_sgn 5 1 130) (toy_sgn 3 130 1)) = Err /\
  op_checkmultisig toy_so (toy_stack (toy_sgn 5 1 1) (toy_sgn 3 130 1)) = Err /\
  NoDup (map (fun ht => tx_digest toy_h256 idh idh idh (fun _ => true) toy_tx2 toy_spent2 0 memo_empty ht)
             [1; 2; 3; 130]).
Proof. exact toy_multisig_mixed_hash_types. Qed.

(* hypotheses of section (8): an edit that fills in scriptSig and witness keeps the core *)
Example C05_ex_same_core :
  same_core ex_tx (tx_upd_in ex_tx 0 (finalize_p2pkh [48; 1] [2; 3])) /\
  wit_agree 0 [] [repeatz 1 64] /\ taproot_sig_hash_type (repeatz 1 64 ++ [131]) = Some (repeatz 1 64, 131).
Proof.
  split; [apply same_core_upd; intros i; repeat split|].
  split; [right; repeat split | reflexivity].
Qed.

(* the former witness of the hash type mask defect: for the non-standard byte 0x06 the library's
   legacy preimage is now the consensus preimage *)
Example C05_ex_hash_type_06 :
  exists ct cb p,
    abs_tx ex_tx = Ok ct /\ abs_script (mk_script (p2pkh_script ex_h20)) = Ok cb /\
    standard_hash_type 6 = false /\
    legacy_preimage ex_tx 0 (mk_script (p2pkh_script ex_h20)) 6 = Ok (Some p) /\
    Legacy.preimage cb ct 0 6 = Some p.
Proof. exact legacy_hash_type_06. Qed.
