(* Props/C12.v — Taproot output keys commit to the script tree and every leaf is spendable.
   Only statements, each closed by [exact] of a lemma from Proofs/, followed by
   Print Assumptions.  sha256 is universally quantified; the curve facts are the explicit
   hypothesis [scalar_laws C] (never an axiom), instantiated on the toy curve below. *)
From V Require Import Base.Prelude Base.Ints Model.Helper Model.Script Model.Pecc Model.Taproot
  Proofs.GroupHyp Proofs.CurveAlg Proofs.TaprootP Proofs.TaprootAlg Proofs.TaprootTamper
  Proofs.TaprootBytes Proofs.ToyCurve.
From V Require Dispatch.DC12.

(* (1) PrivateKey.tweaked_key is the discrete log of S256Point.tweaked_key, for every secret in
   [1, n-1] (both parities of the public point) and every merkle root.  Side condition:
   when (e + t) mod n = 0 the private side raises and the public side is the point at infinity. *)
Theorem C12_tweak_pub_priv_consistent :
  forall (C : curve) (sha256 : bytes -> bytes), scalar_laws C ->
  forall d root, 1 <= d <= cn C - 1 ->
  exists P e,
    pubkey C d = Ok P /\ P <> None /\ even_secret C d = Ok e /\
    let t := from_be (tweak sha256 P root) in
    ((e + t) mod cn C <> 0 ->
       priv_tweaked_key C sha256 d root = Ok ((e + t) mod cn C) /\
       pubkey C ((e + t) mod cn C) = tweaked_key C sha256 P root /\
       tweaked_key C sha256 P root = Ok (mulT C ((e + t) mod cn C) (G C)) /\
       mulT C ((e + t) mod cn C) (G C) <> None) /\
    ((e + t) mod cn C = 0 ->
       priv_tweaked_key C sha256 d root = Err /\ tweaked_key C sha256 P root = Ok None).
Proof. exact tweak_pub_priv_consistent. Qed.
Print Assumptions C12_tweak_pub_priv_consistent.

(* Q = even(P) + int(H_TapTweak(x(P) || root)) G, and even(P) has the x of P and even y *)
Theorem C12_output_key_formula :
  forall (C : curve) (sha256 : bytes -> bytes), scalar_laws C ->
  forall x y root, valid C (Some (x, y)) ->
  tweaked_key C sha256 (Some (x, y)) root =
    Ok (addT C (evenT C (Some (x, y)))
               (mulT C (from_be (tagged_hash sha256 tag_taptweak (to_be 32 x ++ root))) (G C))) /\
  evenT C (Some (x, y)) = Some (x, if y mod 2 =? 1 then cp C - y else y).
Proof. exact output_key_formula. Qed.
Print Assumptions C12_output_key_formula.

(* the output key depends only on the x coordinate of the internal key (what a control block carries) *)
Theorem C12_output_key_xonly :
  forall (C : curve) (sha256 : bytes -> bytes), scalar_laws C ->
  forall x y1 y2 root, valid C (Some (x, y1)) -> valid C (Some (x, y2)) ->
  tweaked_key C sha256 (Some (x, y1)) root = tweaked_key C sha256 (Some (x, y2)) root.
Proof. exact tweaked_key_same_x. Qed.
Print Assumptions C12_output_key_xonly.

(* (2) the tree hash does not depend on the left/right order of the children of any branch *)
Theorem C12_branch_hash_sibling_symmetric :
  forall (sha256 : bytes -> bytes) t t', sib_equiv t t' -> tree_hash sha256 t = tree_hash sha256 t'.
Proof. exact tree_hash_sib_equiv. Qed.
Print Assumptions C12_branch_hash_sibling_symmetric.

Theorem C12_branch_hash_swap :
  forall (sha256 : bytes -> bytes) l r,
  tree_hash sha256 (Branch l r) = tree_hash sha256 (Branch r l) /\
  forall a b, branch_hash sha256 a b = branch_hash sha256 b a.
Proof. intros sha256 l r. split; [exact (tree_hash_swap sha256 l r) | exact (branch_hash_sym sha256)]. Qed.
Print Assumptions C12_branch_hash_swap.

(* (3) parse (serialize cb) recovers version, parity and hashes exactly, and the key as the
   x-only lift of its x coordinate, for even leaf versions, parity bit 0/1, 32-byte hashes,
   path length <= 128 *)
Theorem C12_control_block_roundtrip :
  forall (C : curve) cb,
  0 <= cb_version cb <= 254 -> cb_version cb mod 2 = 0 ->
  (cb_parity cb = 0 \/ cb_parity cb = 1) ->
  Forall len32 (cb_hashes cb) -> (length (cb_hashes cb) <= 128)%nat ->
  exists raw,
    cb_serialize cb = Ok raw /\
    length raw = (33 + 32 * length (cb_hashes cb))%nat /\
    cb_parse C raw =
      (k <- parse_xonly C (xonly (cb_key cb)) ;;
       Ok {| cb_version := cb_version cb; cb_parity := cb_parity cb; cb_key := k;
             cb_hashes := cb_hashes cb |}).
Proof. exact cb_roundtrip. Qed.
Print Assumptions C12_control_block_roundtrip.

(* (4) for every tree (any shape and size) and every leaf query that matches a leaf of the tree
   (TapLeaf.__eq__: version and commands; duplicates resolve to the leftmost match lf'), the
   control block the library builds records the parity of the tree's output key, and recomputes
   the tree hash and the output key from the script of lf' *)
Theorem C12_control_block_recomputes :
  forall (C : curve) (sha256 : bytes -> bytes) t P lf lf' root Q par,
  find (leaf_eqb lf) (leaves t) = Some lf' ->
  tree_hash sha256 t = Ok root ->
  tweaked_key C sha256 P root = Ok Q -> parity Q = Ok par ->
  exists cb,
    tree_control_block C sha256 t P lf = Ok (Some cb) /\
    cb_version cb = fst lf' /\ cb_parity cb = par /\ cb_key cb = P /\
    cb_merkle_root sha256 cb (snd lf') = Ok root /\
    cb_external_pubkey C sha256 cb (snd lf') = Ok Q.
Proof. exact control_block_recomputes. Qed.
Print Assumptions C12_control_block_recomputes.

(* every leaf occurring in the tree has such a match, and when neither script kept a .raw
   (scripts built from commands) the queried leaf hashes like the matched one *)
Theorem C12_every_leaf_matches :
  forall (sha256 : bytes -> bytes) t lf, In lf (leaves t) ->
  exists lf', find (leaf_eqb lf) (leaves t) = Some lf' /\ leaf_eqb lf lf' = true /\
    (s_raw (snd lf) = s_raw (snd lf') ->
     tap_leaf_hash sha256 (fst lf) (snd lf) = tap_leaf_hash sha256 (fst lf') (snd lf')).
Proof.
  intros sha256 t lf H. destruct (in_find_leaf lf t H) as (lf' & H1 & H2).
  exists lf'. split; [exact H1|]. split; [exact H2|]. exact (leaf_hash_eqb sha256 lf lf' H2).
Qed.
Print Assumptions C12_every_leaf_matches.

(* (5) tampering: see Proofs/TaprootTamper.v *)
Theorem C12_tamper_changes_preimage :
  forall (C : curve) (sha256 : bytes -> bytes),
  (forall x, length (sha256 x) = 32%nat) ->
  forall cb cb' sc sc' pre pre' Q,
  leaf_preimage (cb_version cb) sc = Ok pre -> leaf_preimage (cb_version cb') sc' = Ok pre' ->
  Forall len32 (cb_hashes cb) -> Forall len32 (cb_hashes cb') ->
  single_change (pre, cb_hashes cb, xonly (cb_key cb)) (pre', cb_hashes cb', xonly (cb_key cb')) ->
  cb_external_pubkey C sha256 cb sc = Ok Q -> cb_external_pubkey C sha256 cb' sc' = Ok Q ->
  collision sha256 \/
  exists root root',
    cb_merkle_root sha256 cb sc = Ok root /\ cb_merkle_root sha256 cb' sc' = Ok root' /\
    tweak sha256 (cb_key cb) root <> tweak sha256 (cb_key cb') root' /\
    tweaked_key C sha256 (cb_key cb) root = Ok Q /\ tweaked_key C sha256 (cb_key cb') root' = Ok Q.
Proof. exact tamper_changes_preimage. Qed.
Print Assumptions C12_tamper_changes_preimage.

(* every single-byte alteration of a serialized control block that parse still accepts falls
   under the theorem above: byte 0 changes the recorded parity or the leaf version (the first byte
   of the TapLeaf preimage); bytes 1..32 change the x-only internal key and nothing else; a later
   byte changes exactly one 32-byte path hash and nothing else *)
Theorem C12_tamper_byte_classes :
  forall (C : curve) raw raw' cb cb',
  bytes_ok raw -> bytes_ok raw' ->
  cb_parse C raw = Ok cb -> cb_parse C raw' = Ok cb' ->
  one_byte_differs raw raw' ->
  (cb_version cb <> cb_version cb' \/ cb_parity cb <> cb_parity cb') \/
  (cb_version cb = cb_version cb' /\ cb_parity cb = cb_parity cb' /\
   xonly (cb_key cb) <> xonly (cb_key cb') /\ cb_hashes cb = cb_hashes cb') \/
  (cb_version cb = cb_version cb' /\ cb_parity cb = cb_parity cb' /\
   cb_key cb = cb_key cb' /\ one_differs (cb_hashes cb) (cb_hashes cb')).
Proof. exact tamper_byte_classes. Qed.
Print Assumptions C12_tamper_byte_classes.

(* ---- the hypotheses are satisfiable: the toy curve y^2 = x^3 + 7 over F_43 (order 31) ---- *)
Example C12_toy_tweak_consistent :
  forall (sha256 : bytes -> bytes) d root, 1 <= d <= 30 ->
  exists P e, pubkey toy d = Ok P /\ P <> None /\ even_secret toy d = Ok e /\
    ((e + from_be (tweak sha256 P root)) mod 31 <> 0 ->
       pubkey toy ((e + from_be (tweak sha256 P root)) mod 31) = tweaked_key toy sha256 P root).
Proof.
  intros sha256 d root H.
  destruct (C12_tweak_pub_priv_consistent toy sha256 toy_scalar_laws d root H) as (P & e & H1 & H2 & H3 & H4 & _).
  exists P, e. repeat split; auto. intros Hnz. exact (proj1 (proj2 (H4 Hnz))).
Qed.

(* a concrete run on the toy curve with a constant "hash": secret 3 (odd public point), tweak 9 *)
Example C12_toy_concrete :
  let sha := fun _ : bytes => [9] in
  pubkey toy 3 = Ok (Some (35, 21)) /\
  priv_tweaked_key toy sha 3 [1; 2] = Ok 6 /\
  tweaked_key toy sha (Some (35, 21)) [1; 2] = pubkey toy 6 /\ pubkey toy 6 = Ok (Some (29, 31)).
Proof. vm_compute. repeat split; reflexivity. Qed.

(* The constants written in the model are the constants of the SOURCE: coq/Generated/SrcConsts.v is regenerated
   from /repo/buidl/*.py by harness/gen_coq_consts.py on every run; the statements are spelled out in
   Proofs/ConstsTie.v (secp256k1_is_source_stmt). *)
From V Require Proofs.ConstsTie.
Theorem C12_constants_match_source : ConstsTie.secp256k1_is_source_stmt.
Proof. exact ConstsTie.secp256k1_is_source. Qed.
Print Assumptions C12_constants_match_source.

(* ====================================================================================== *)
(* Deepening: codec converse, wire-level "every leaf is spendable", whole-tree sibling order,
   end-to-end tamper direction, binding of the tree.  Proofs in Proofs/TaprootCodecP.v,
   TaprootSpendP.v, TaprootBindP.v, TaprootLift.v; model additions in Model/TaprootExt.v. *)
From Coq Require Import Permutation.
From V Require Import Model.TaprootExt Spec.TxWf Proofs.TaprootLift Proofs.TaprootCodecP
  Proofs.TaprootSpendP Proofs.TaprootBindP.

(* ---- (3') ControlBlock.parse / serialize / __eq__ as a codec ---- *)
(* rejection outside the lengths 33 + 32 m, m <= 128 *)
Theorem C12_control_block_parse_rejects_length :
  forall (C : curve) raw,
  ~ (exists m, (m <= 128)%nat /\ length raw = (33 + 32 * m)%nat) -> cb_parse C raw = Err.
Proof. exact cb_parse_rejects_length. Qed.
Print Assumptions C12_control_block_parse_rejects_length.

(* acceptance exactly for those lengths when the 32 key bytes lift *)
Theorem C12_control_block_parse_accepts_iff :
  forall (C : curve) raw,
  (exists cb, cb_parse C raw = Ok cb) <->
  (exists m, (m <= 128)%nat /\ length raw = (33 + 32 * m)%nat) /\
  exists k, parse_xonly C (firstn 32 (tl raw)) = Ok k.
Proof. exact cb_parse_accepts_iff. Qed.
Print Assumptions C12_control_block_parse_accepts_iff.

(* whatever parse returns satisfies the hypotheses of C12_control_block_roundtrip, and its fields are
   the slices of the input *)
Theorem C12_control_block_parse_wf :
  forall (C : curve) raw cb,
  bytes_ok raw -> cb_parse C raw = Ok cb ->
  0 <= cb_version cb <= 254 /\ cb_version cb mod 2 = 0 /\
  (cb_parity cb = 0 \/ cb_parity cb = 1) /\
  Forall len32 (cb_hashes cb) /\ (length (cb_hashes cb) <= 128)%nat /\
  length raw = (33 + 32 * length (cb_hashes cb))%nat /\
  [cb_version cb + cb_parity cb] = firstn 1 raw /\
  xonly (cb_key cb) = firstn 32 (skipn 1 raw) /\
  concat (cb_hashes cb) = skipn 33 raw.
Proof. exact cb_parse_wf. Qed.
Print Assumptions C12_control_block_parse_wf.

(* the converse round trip, for every accepted length: serialize (parse raw) = raw *)
Theorem C12_control_block_serialize_parse :
  forall (C : curve) raw cb,
  bytes_ok raw -> cb_parse C raw = Ok cb -> cb_serialize cb = Ok raw.
Proof. exact cb_serialize_parse. Qed.
Print Assumptions C12_control_block_serialize_parse.

Theorem C12_control_block_parse_injective :
  forall (C : curve) raw raw' cb,
  bytes_ok raw -> bytes_ok raw' -> cb_parse C raw = Ok cb -> cb_parse C raw' = Ok cb -> raw = raw'.
Proof. exact cb_parse_inj. Qed.
Print Assumptions C12_control_block_parse_injective.

(* ControlBlock.__eq__ (equality of the serialisations) on parsed control blocks is equality of the
   wire bytes *)
Theorem C12_control_block_eq_parsed :
  forall (C : curve) raw raw' a b,
  bytes_ok raw -> bytes_ok raw' -> cb_parse C raw = Ok a -> cb_parse C raw' = Ok b ->
  cb_eqb a b = Ok (beq raw raw').
Proof. exact cb_eqb_parsed. Qed.
Print Assumptions C12_control_block_eq_parsed.

(* "parses back identically": with the x-only lift, parse (serialize cb) succeeds, recovers every
   field (the key as its even-y representative), serialises to the same bytes and is `==` to cb *)
Theorem C12_control_block_roundtrip_eq :
  forall (C : curve) cb,
  scalar_laws C -> lift_x_ok C ->
  valid C (cb_key cb) -> cb_key cb <> None ->
  0 <= cb_version cb <= 254 -> cb_version cb mod 2 = 0 ->
  (cb_parity cb = 0 \/ cb_parity cb = 1) ->
  Forall len32 (cb_hashes cb) -> (length (cb_hashes cb) <= 128)%nat ->
  exists raw cb',
    cb_serialize cb = Ok raw /\ length raw = (33 + 32 * length (cb_hashes cb))%nat /\
    cb_parse C raw = Ok cb' /\
    cb' = {| cb_version := cb_version cb; cb_parity := cb_parity cb;
             cb_key := evenT C (cb_key cb); cb_hashes := cb_hashes cb |} /\
    cb_serialize cb' = Ok raw /\ cb_eqb cb' cb = Ok true.
Proof. exact cb_roundtrip_lift. Qed.
Print Assumptions C12_control_block_roundtrip_eq.

(* ---- (4') every leaf of every tree, through the wire form ---- *)
(* for every tree shape (induction; depth <= 128, the length limit of the control block), every leaf
   query matching a leaf lf' with an even version: the control block the library builds serialises to
   33 + 32 * (path length) bytes whose first byte is version + parity, parses back `==` with the same
   version / parity / path, and the PARSED control block recomputes the merkle root and the output key *)
Theorem C12_every_leaf_spendable_wire :
  forall (C : curve) (sha256 : bytes -> bytes),
  (forall x, length (sha256 x) = 32%nat) ->
  forall t P lf lf' root Q par,
  scalar_laws C -> lift_x_ok C -> valid C P -> P <> None ->
  find (leaf_eqb lf) (leaves t) = Some lf' ->
  tree_hash sha256 t = Ok root -> tweaked_key C sha256 P root = Ok Q -> parity Q = Ok par ->
  0 <= fst lf' <= 254 -> fst lf' mod 2 = 0 -> (height t <= 128)%nat ->
  exists cb raw cb',
    tree_control_block C sha256 t P lf = Ok (Some cb) /\
    cb_serialize cb = Ok raw /\
    length raw = (33 + 32 * length (cb_hashes cb))%nat /\
    (length (cb_hashes cb) <= height t)%nat /\
    firstn 1 raw = [fst lf' + par] /\
    cb_parse C raw = Ok cb' /\
    cb_version cb' = fst lf' /\ cb_parity cb' = par /\ cb_key cb' = evenT C P /\
    cb_hashes cb' = cb_hashes cb /\
    cb_eqb cb' cb = Ok true /\
    cb_merkle_root sha256 cb' (snd lf') = Ok root /\
    cb_external_pubkey C sha256 cb' (snd lf') = Ok Q.
Proof. exact control_block_wire. Qed.
Print Assumptions C12_every_leaf_spendable_wire.

(* ... and the commitment check of the witness-v1 script-path branch of Script.evaluate accepts the
   witness [leaf script bytes; control block bytes], with or without an annex, against the x-only
   output key (leaf scripts built from well-formed commands; leaf version other than 0x50) *)
Theorem C12_honest_spend_commits :
  forall (C : curve) (sha256 : bytes -> bytes),
  (forall x, length (sha256 x) = 32%nat) ->
  forall t P lf lf' root Q par cs rs,
  scalar_laws C -> lift_x_ok C -> valid C P -> P <> None ->
  find (leaf_eqb lf) (leaves t) = Some lf' ->
  tree_hash sha256 t = Ok root -> tweaked_key C sha256 P root = Ok Q -> parity Q = Ok par ->
  0 <= fst lf' <= 254 -> fst lf' mod 2 = 0 -> fst lf' <> 80 -> (height t <= 128)%nat ->
  snd lf' = mk_script cs -> cmds_wfb cs = true -> ser_cmds cs = Ok rs ->
  zlen rs < 9223372036854775808 ->
  exists cb raw,
    tree_control_block C sha256 t P lf = Ok (Some cb) /\ cb_serialize cb = Ok raw /\
    script_path_commit_check C sha256 (xonly Q) [rs; raw] = Ok true /\
    forall annex, script_path_commit_check C sha256 (xonly Q) [rs; raw; 80 :: annex] = Ok true.
Proof. exact honest_spend_commits. Qed.
Print Assumptions C12_honest_spend_commits.

(* when no script of the tree kept a .raw, every leaf recomputes from its OWN script and version
   (two leaves with one script and different versions each get their own control block) *)
Theorem C12_every_leaf_own_script :
  forall (C : curve) (sha256 : bytes -> bytes) t P lf root Q par,
  (forall l, In l (leaves t) -> s_raw (snd l) = None) ->
  In lf (leaves t) ->
  tree_hash sha256 t = Ok root -> tweaked_key C sha256 P root = Ok Q -> parity Q = Ok par ->
  exists cb,
    tree_control_block C sha256 t P lf = Ok (Some cb) /\
    cb_version cb = fst lf /\ cb_parity cb = par /\ cb_key cb = P /\
    cb_merkle_root sha256 cb (snd lf) = Ok root /\
    cb_external_pubkey C sha256 cb (snd lf) = Ok Q.
Proof. exact every_leaf_own_script. Qed.
Print Assumptions C12_every_leaf_own_script.

(* WITHOUT that restriction the clause is false of the code: a leaf whose script kept a .raw
   (Script.parse(raw=02aa): inexact parse) placed after a leaf with equal commands (Script([aa])) is
   `==` to it, so control_block returns the path of the FIRST leaf; recomputing from the second
   leaf's own script gives another root (or exhibits a collision).  Replayed on /repo. *)
Theorem C12_every_leaf_own_script_refuted :
  exists t lf, In lf (leaves t) /\
  forall (C : curve) (sha256 : bytes -> bytes) P root Q par,
    (forall x, length (sha256 x) = 32%nat) ->
    tree_hash sha256 t = Ok root -> tweaked_key C sha256 P root = Ok Q -> parity Q = Ok par ->
    exists cb root',
      tree_control_block C sha256 t P lf = Ok (Some cb) /\
      cb_merkle_root sha256 cb (snd lf) = Ok root' /\
      (root' <> root \/ collision sha256).
Proof. exact every_leaf_own_script_refuted. Qed.
Print Assumptions C12_every_leaf_own_script_refuted.

(* ---- (2') sibling order, whole trees ---- *)
(* any selection of branches swapped (pre-order bit list), and the full mirror image *)
Theorem C12_sibling_swaps_any_selection :
  forall (sha256 : bytes -> bytes) t bits,
  tree_hash sha256 (fst (swap_sel bits t)) = tree_hash sha256 t /\
  tree_hash sha256 (mirror t) = tree_hash sha256 t.
Proof.
  intros sha256 t bits. split; symmetry; apply tree_hash_sib_equiv;
    [apply swap_sel_equiv | apply mirror_equiv].
Qed.
Print Assumptions C12_sibling_swaps_any_selection.

(* rearranging siblings permutes the leaves, keeps the root, and the control block the rearranged
   tree builds for any leaf recomputes the SAME root and output key *)
Theorem C12_sibling_control_block :
  forall (C : curve) (sha256 : bytes -> bytes) t t' P lf root Q par,
  sib_equiv t t' -> In lf (leaves t) ->
  tree_hash sha256 t = Ok root -> tweaked_key C sha256 P root = Ok Q -> parity Q = Ok par ->
  Permutation (leaves t) (leaves t') /\
  tree_hash sha256 t' = Ok root /\
  exists lf'' cb',
    find (leaf_eqb lf) (leaves t') = Some lf'' /\ leaf_eqb lf lf'' = true /\
    tree_control_block C sha256 t' P lf = Ok (Some cb') /\
    cb_version cb' = fst lf /\ cb_parity cb' = par /\
    cb_merkle_root sha256 cb' (snd lf'') = Ok root /\
    cb_external_pubkey C sha256 cb' (snd lf'') = Ok Q.
Proof.
  intros C sha256 t t' P lf root Q par Hse Hin Hh HQ Hpar.
  split; [exact (sib_equiv_leaves t t' Hse)|].
  exact (sib_equiv_control_block C sha256 t t' P lf root Q par Hse Hin Hh HQ Hpar).
Qed.
Print Assumptions C12_sibling_control_block.

(* TapBranch.combine is total on non-empty lists and keeps the leaves in order *)
Theorem C12_combine_total :
  forall nodes, nodes <> [] ->
  exists t, combine_nodes (length nodes) nodes = Ok t /\ leaves t = flat_map leaves nodes.
Proof. exact combine_total. Qed.
Print Assumptions C12_combine_total.

(* ---- (5') the tamper direction, end to end ---- *)
(* x_coincidence C sha256 k k' root root': two DIFFERENT TapTweak hashes whose output keys have the
   same x coordinate (the algebraic coincidence, explicit) *)

(* every single-byte alteration of a serialized control block that parse accepts, used with the same
   leaf script: if both reproduce their recorded parity and the same x-only key, then collision or
   coincidence *)
Theorem C12_tamper_control_block_byte :
  forall (C : curve) (sha256 : bytes -> bytes),
  (forall x, length (sha256 x) = 32%nat) ->
  forall raw raw' cb cb' sc T T',
  bytes_ok raw -> bytes_ok raw' ->
  cb_parse C raw = Ok cb -> cb_parse C raw' = Ok cb' -> one_byte_differs raw raw' ->
  cb_external_pubkey C sha256 cb sc = Ok T -> parity T = Ok (cb_parity cb) ->
  cb_external_pubkey C sha256 cb' sc = Ok T' -> parity T' = Ok (cb_parity cb') ->
  xonly T = xonly T' ->
  collision sha256 \/
  exists root root',
    cb_merkle_root sha256 cb sc = Ok root /\ cb_merkle_root sha256 cb' sc = Ok root' /\
    x_coincidence C sha256 (cb_key cb) (cb_key cb') root root'.
Proof. exact tamper_cb_byte. Qed.
Print Assumptions C12_tamper_control_block_byte.

(* the same at the level of the commitment check of Script.evaluate: the control-block item *)
Theorem C12_commit_tamper_control_block :
  forall (C : curve) (sha256 : bytes -> bytes),
  (forall x, length (sha256 x) = 32%nat) ->
  forall q rs raw raw',
  bytes_ok raw -> bytes_ok raw' -> one_byte_differs raw raw' ->
  script_path_commit_check C sha256 q [rs; raw] = Ok true ->
  script_path_commit_check C sha256 q [rs; raw'] = Ok true ->
  collision sha256 \/
  exists cb cb' sc root root',
    cb_parse C raw = Ok cb /\ cb_parse C raw' = Ok cb' /\ tap_script_of rs = Ok sc /\
    cb_merkle_root sha256 cb sc = Ok root /\ cb_merkle_root sha256 cb' sc = Ok root' /\
    x_coincidence C sha256 (cb_key cb) (cb_key cb') root root'.
Proof. exact commit_tamper_control_block. Qed.
Print Assumptions C12_commit_tamper_control_block.

(* ... and the leaf-script item (altered in any way): both witness scripts re-serialise to the same
   bytes (the leaf hash is taken over Script.parse(...).raw_serialize(): known finding
   K-C12-leafhash-reserialised), or collision, or coincidence *)
Theorem C12_commit_tamper_leaf_script :
  forall (C : curve) (sha256 : bytes -> bytes),
  (forall x, length (sha256 x) = 32%nat) ->
  forall q rs rs' raw,
  script_path_commit_check C sha256 q [rs; raw] = Ok true ->
  script_path_commit_check C sha256 q [rs'; raw] = Ok true ->
  exists cb sc sc',
    cb_parse C raw = Ok cb /\ tap_script_of rs = Ok sc /\ tap_script_of rs' = Ok sc' /\
    (raw_serialize sc = raw_serialize sc' \/
     collision sha256 \/
     exists root root',
       cb_merkle_root sha256 cb sc = Ok root /\ cb_merkle_root sha256 cb sc' = Ok root' /\
       x_coincidence C sha256 (cb_key cb) (cb_key cb) root root').
Proof. exact commit_tamper_leaf_script. Qed.
Print Assumptions C12_commit_tamper_leaf_script.

(* the honest script item is its own re-serialisation, so against an honest witness the first
   disjunct reads "the altered script re-serialises to the committed bytes" *)
Theorem C12_honest_script_canonical :
  forall cs rs,
  cmds_wfb cs = true -> ser_cmds cs = Ok rs -> zlen rs < 9223372036854775808 ->
  exists sc, tap_script_of rs = Ok sc /\ raw_serialize sc = Ok rs.
Proof. exact honest_script_canonical. Qed.
Print Assumptions C12_honest_script_canonical.

(* that disjunct is inhabited (the known finding, in the model) *)
Theorem C12_reserialise_coincidence :
  exists rs rs' sc sc', rs <> rs' /\ tap_script_of rs = Ok sc /\ tap_script_of rs' = Ok sc' /\
                        raw_serialize sc = raw_serialize sc'.
Proof. exact reserialise_coincidence. Qed.
Print Assumptions C12_reserialise_coincidence.

(* the TapLeaf preimage determines the leaf version and the raw script bytes *)
Theorem C12_leaf_preimage_injective :
  forall v sc v' sc' pre,
  leaf_preimage v sc = Ok pre -> leaf_preimage v' sc' = Ok pre ->
  v = v' /\ exists r, raw_serialize sc = Ok r /\ raw_serialize sc' = Ok r.
Proof. exact leaf_preimage_inj. Qed.
Print Assumptions C12_leaf_preimage_injective.

(* ---- the output key commits to the script tree ---- *)
(* tree_sim: the same tree up to sibling order and up to the hashed serialisation of the leaves *)
Theorem C12_merkle_root_binds_tree :
  forall (sha256 : bytes -> bytes),
  (forall x, length (sha256 x) = 32%nat) ->
  forall t t' h, tree_hash sha256 t = Ok h -> tree_hash sha256 t' = Ok h ->
  tree_sim t t' \/ collision sha256.
Proof. exact tree_hash_binding. Qed.
Print Assumptions C12_merkle_root_binds_tree.

Theorem C12_tree_sim_same_root :
  forall (sha256 : bytes -> bytes) t t', tree_sim t t' ->
  exists h, tree_hash sha256 t = Ok h /\ tree_hash sha256 t' = Ok h.
Proof. exact tree_sim_hash. Qed.
Print Assumptions C12_tree_sim_same_root.

Theorem C12_output_key_binds_tree :
  forall (C : curve) (sha256 : bytes -> bytes),
  (forall x, length (sha256 x) = 32%nat) ->
  forall t t' P P' Q Q',
  tree_external_pubkey C sha256 t P = Ok Q -> tree_external_pubkey C sha256 t' P' = Ok Q' ->
  xonly Q = xonly Q' ->
  (tree_sim t t' /\ xonly P = xonly P') \/ collision sha256 \/
  exists root root', tree_hash sha256 t = Ok root /\ tree_hash sha256 t' = Ok root' /\
                     x_coincidence C sha256 P P' root root'.
Proof. exact output_key_binding. Qed.
Print Assumptions C12_output_key_binds_tree.

(* ---- non-vacuity on the toy curve (31 points) with a 32-byte toy "hash" ---- *)
(* toy_sha (Proofs/TaprootToy.v): to_be 32 of a 20-bit polynomial checksum of the input *)
From V Require Import Proofs.TaprootToy.

Definition toy_s (d : Z) : script := mk_script [Push [d; d + 1]; Op 117; Op 81].
Definition toy_tree : taptree :=
  Branch (Leaf 192 (toy_s 1)) (Branch (Leaf 192 (toy_s 2)) (Leaf 194 (toy_s 2))).
Definition toy_P : point := Some (35, 21).   (* pubkey toy 3: odd y *)
Definition toy_root : bytes := to_be 32 944418.

(* all hypotheses of C12_honest_spend_commits hold for the third leaf (the script of the second leaf
   under another leaf version) of a three-leaf tree under an odd internal key *)
Example C12_toy_honest_spend :
  exists cb raw Q,
    tree_control_block toy toy_sha toy_tree toy_P (194, toy_s 2) = Ok (Some cb) /\
    cb_version cb = 194 /\ length (cb_hashes cb) = 2%nat /\
    cb_serialize cb = Ok raw /\ length raw = 97%nat /\
    tree_external_pubkey toy toy_sha toy_tree toy_P = Ok Q /\
    script_path_commit_check toy toy_sha (xonly Q) [[2; 2; 3; 117; 81]; raw] = Ok true /\
    script_path_commit_check toy toy_sha (xonly Q) [[2; 2; 3; 117; 81]; raw; [80; 1]] = Ok true.
Proof.
  destruct (C12_honest_spend_commits toy toy_sha toy_sha_len toy_tree toy_P (194, toy_s 2) (194, toy_s 2)
              toy_root (Some (7, 7)) 1 [Push [2; 3]; Op 117; Op 81] [2; 2; 3; 117; 81]
              toy_scalar_laws toy_lift_x_ok) as (cb & raw & Hcb & Hs & Hc & Ha).
  - vm_compute. repeat split; reflexivity.
  - discriminate.
  - vm_compute; reflexivity.
  - vm_compute; reflexivity.
  - vm_compute; reflexivity.
  - reflexivity.
  - cbn [fst]; lia.
  - reflexivity.
  - cbn [fst]; lia.
  - cbn; lia.
  - reflexivity.
  - reflexivity.
  - reflexivity.
  - vm_compute; reflexivity.
  - assert (Hcb' := Hcb). vm_compute in Hcb'. injection Hcb' as Ecb.
    exists cb, raw, (Some (7, 7)). split; [exact Hcb|]. split; [now rewrite <- Ecb|]. split; [now rewrite <- Ecb|].
    split; [exact Hs|]. split.
    { rewrite <- Ecb in Hs. vm_compute in Hs. injection Hs as <-. reflexivity. }
    split; [vm_compute; reflexivity|]. split; [exact Hc | exact (Ha [1])].
Qed.

(* the same witness with one bit of the control block flipped, at each of its 97 bytes: rejected at
   94 positions (byte 0 and every key byte among them); at three path-hash bytes it is ACCEPTED —
   on a 31-point group with a 20-bit "hash" the collision / coincidence disjunct of
   C12_commit_tamper_control_block is real, and cannot be dropped from the statement *)
Definition toy_raw : bytes :=
  match tree_control_block toy toy_sha toy_tree toy_P (194, toy_s 2) with
  | Ok (Some cb) => match cb_serialize cb with Ok r => r | Err => [] end
  | _ => []
  end.
Example C12_toy_tamper :
  filter (fun i =>
    match script_path_commit_check toy toy_sha (xonly (Some (7, 7)))
            [[2; 2; 3; 117; 81]; firstn i toy_raw ++ Z.lxor (nth i toy_raw 0) 1 :: skipn (S i) toy_raw] with
    | Ok true => true | _ => false end) (seq 0 (length toy_raw)) = [56; 70; 73]%nat.
Proof. vm_compute. reflexivity. Qed.

(* codec on the toy curve: 33 + 32 m accepted (m = 0, 1), other lengths rejected, converse round trip *)
Definition toy_cb_raw : bytes := 193 :: to_be 32 35 ++ repeatz 7 32.
Definition toy_cb : control_block :=
  {| cb_version := 192; cb_parity := 1; cb_key := Some (35, 22); cb_hashes := [repeatz 7 32] |}.
Example C12_toy_codec :
  cb_parse toy toy_cb_raw = Ok toy_cb /\ cb_serialize toy_cb = Ok toy_cb_raw /\
  cb_parse toy (toy_cb_raw ++ [0]) = Err /\ cb_parse toy (firstn 64 toy_cb_raw) = Err /\
  cb_parse toy (firstn 33 toy_cb_raw) =
    Ok {| cb_version := 192; cb_parity := 1; cb_key := Some (35, 22); cb_hashes := [] |}.
Proof. repeat split; vm_compute; reflexivity. Qed.
