(* Props/C12.v — Taproot output keys commit to the script tree and every leaf is spendable.
   Only statements, each closed by [exact] of a lemma from Proofs/, followed by
   Print Assumptions.  sha256 is universally quantified; the curve facts are the explicit
   hypothesis [scalar_laws C] (never an axiom), instantiated on the toy curve below. *)
From V Require Import Base.Prelude Base.Ints Model.Helper Model.Script Model.Pecc Model.Taproot
  Proofs.GroupHyp Proofs.CurveAlg Proofs.TaprootP Proofs.TaprootAlg Proofs.TaprootTamper
  Proofs.TaprootBytes Proofs.ToyCurve.
From V Require Dispatch.DC12.

(* (1) PrivateKey.tweaked_key is the discrete log of S256Point.tweaked_key, for every secret in
   [1, n-1] (both parities of the public point) and every merkle root.  Side condition:
   when (e + t) mod n = 0 the private side raises and the public side is the point at infinity. *)
Theorem C12_tweak_pub_priv_consistent :
  forall (C : curve) (sha256 : bytes -> bytes), scalar_laws C ->
  forall d root, 1 <= d <= cn C - 1 ->
  exists P e,
    pubkey C d = Ok P /\ P <> None /\ even_secret C d = Ok e /\
    let t := from_be (tweak sha256 P root) in
    ((e + t) mod cn C <> 0 ->
       priv_tweaked_key C sha256 d root = Ok ((e + t) mod cn C) /\
       pubkey C ((e + t) mod cn C) = tweaked_key C sha256 P root /\
       tweaked_key C sha256 P root = Ok (mulT C ((e + t) mod cn C) (G C)) /\
       mulT C ((e + t) mod cn C) (G C) <> None) /\
    ((e + t) mod cn C = 0 ->
       priv_tweaked_key C sha256 d root = Err /\ tweaked_key C sha256 P root = Ok None).
Proof. exact tweak_pub_priv_consistent. Qed.
Print Assumptions C12_tweak_pub_priv_consistent.

(* Q = even(P) + int(H_TapTweak(x(P) || root)) G, and even(P) has the x of P and even y *)
Theorem C12_output_key_formula :
  forall (C : curve) (sha256 : bytes -> bytes), scalar_laws C ->
  forall x y root, valid C (Some (x, y)) ->
  tweaked_key C sha256 (Some (x, y)) root =
    Ok (addT C (evenT C (Some (x, y)))
               (mulT C (from_be (tagged_hash sha256 tag_taptweak (to_be 32 x ++ root))) (G C))) /\
  evenT C (Some (x, y)) = Some (x, if y mod 2 =? 1 then cp C - y else y).
Proof. exact output_key_formula. Qed.
Print Assumptions C12_output_key_formula.

(* the output key depends only on the x coordinate of the internal key (what a control block carries) *)
Theorem C12_output_key_xonly :
  forall (C : curve) (sha256 : bytes -> bytes), scalar_laws C ->
  forall x y1 y2 root, valid C (Some (x, y1)) -> valid C (Some (x, y2)) ->
  tweaked_key C sha256 (Some (x, y1)) root = tweaked_key C sha256 (Some (x, y2)) root.
Proof. exact tweaked_key_same_x. Qed.
Print Assumptions C12_output_key_xonly.

(* (2) the tree hash does not depend on the left/right order of the children of any branch *)
Theorem C12_branch_hash_sibling_symmetric :
  forall (sha256 : bytes -> bytes) t t', sib_equiv t t' -> tree_hash sha256 t = tree_hash sha256 t'.
Proof. exact tree_hash_sib_equiv. Qed.
Print Assumptions C12_branch_hash_sibling_symmetric.

Theorem C12_branch_hash_swap :
  forall (sha256 : bytes -> bytes) l r,
  tree_hash sha256 (Branch l r) = tree_hash sha256 (Branch r l) /\
  forall a b, branch_hash sha256 a b = branch_hash sha256 b a.
Proof. intros sha256 l r. split; [exact (tree_hash_swap sha256 l r) | exact (branch_hash_sym sha256)]. Qed.
Print Assumptions C12_branch_hash_swap.

(* (3) parse (serialize cb) recovers version, parity and hashes exactly, and the key as the
   x-only lift of its x coordinate, for even leaf versions, parity bit 0/1, 32-byte hashes,
   path length <= 128 *)
Theorem C12_control_block_roundtrip :
  forall (C : curve) cb,
  0 <= cb_version cb <= 254 -> cb_version cb mod 2 = 0 ->
  (cb_parity cb = 0 \/ cb_parity cb = 1) ->
  Forall len32 (cb_hashes cb) -> (length (cb_hashes cb) <= 128)%nat ->
  exists raw,
    cb_serialize cb = Ok raw /\
    length raw = (33 + 32 * length (cb_hashes cb))%nat /\
    cb_parse C raw =
      (k <- parse_xonly C (xonly (cb_key cb)) ;;
       Ok {| cb_version := cb_version cb; cb_parity := cb_parity cb; cb_key := k;
             cb_hashes := cb_hashes cb |}).
Proof. exact cb_roundtrip. Qed.
Print Assumptions C12_control_block_roundtrip.

(* (4) for every tree (any shape and size) and every leaf query that matches a leaf of the tree
   (TapLeaf.__eq__: version and commands; duplicates resolve to the leftmost match lf'), the
   control block the library builds records the parity of the tree's output key, and recomputes
   the tree hash and the output key from the script of lf' *)
Theorem C12_control_block_recomputes :
  forall (C : curve) (sha256 : bytes -> bytes) t P lf lf' root Q par,
  find (leaf_eqb lf) (leaves t) = Some lf' ->
  tree_hash sha256 t = Ok root ->
  tweaked_key C sha256 P root = Ok Q -> parity Q = Ok par ->
  exists cb,
    tree_control_block C sha256 t P lf = Ok (Some cb) /\
    cb_version cb = fst lf' /\ cb_parity cb = par /\ cb_key cb = P /\
    cb_merkle_root sha256 cb (snd lf') = Ok root /\
    cb_external_pubkey C sha256 cb (snd lf') = Ok Q.
Proof. exact control_block_recomputes. Qed.
Print Assumptions C12_control_block_recomputes.

(* every leaf occurring in the tree has such a match, and when neither script kept a .raw
   (scripts built from commands) the queried leaf hashes like the matched one *)
Theorem C12_every_leaf_matches :
  forall (sha256 : bytes -> bytes) t lf, In lf (leaves t) ->
  exists lf', find (leaf_eqb lf) (leaves t) = Some lf' /\ leaf_eqb lf lf' = true /\
    (s_raw (snd lf) = s_raw (snd lf') ->
     tap_leaf_hash sha256 (fst lf) (snd lf) = tap_leaf_hash sha256 (fst lf') (snd lf')).
Proof.
  intros sha256 t lf H. destruct (in_find_leaf lf t H) as (lf' & H1 & H2).
  exists lf'. split; [exact H1|]. split; [exact H2|]. exact (leaf_hash_eqb sha256 lf lf' H2).
Qed.
Print Assumptions C12_every_leaf_matches.

(* (5) tampering: see Proofs/TaprootTamper.v *)
Theorem C12_tamper_changes_preimage :
  forall (C : curve) (sha256 : bytes -> bytes),
  (forall x, length (sha256 x) = 32%nat) ->
  forall cb cb' sc sc' pre pre' Q,
  leaf_preimage (cb_version cb) sc = Ok pre -> leaf_preimage (cb_version cb') sc' = Ok pre' ->
  Forall len32 (cb_hashes cb) -> Forall len32 (cb_hashes cb') ->
  single_change (pre, cb_hashes cb, xonly (cb_key cb)) (pre', cb_hashes cb', xonly (cb_key cb')) ->
  cb_external_pubkey C sha256 cb sc = Ok Q -> cb_external_pubkey C sha256 cb' sc' = Ok Q ->
  collision sha256 \/
  exists root root',
    cb_merkle_root sha256 cb sc = Ok root /\ cb_merkle_root sha256 cb' sc' = Ok root' /\
    tweak sha256 (cb_key cb) root <> tweak sha256 (cb_key cb') root' /\
    tweaked_key C sha256 (cb_key cb) root = Ok Q /\ tweaked_key C sha256 (cb_key cb') root' = Ok Q.
Proof. exact tamper_changes_preimage. Qed.
Print Assumptions C12_tamper_changes_preimage.

(* every single-byte alteration of a serialized control block that parse still accepts falls
   under the theorem above: byte 0 changes the recorded parity or the leaf version (the first byte
   of the TapLeaf preimage); bytes 1..32 change the x-only internal key and nothing else; a later
   byte changes exactly one 32-byte path hash and nothing else *)
Theorem C12_tamper_byte_classes :
  forall (C : curve) raw raw' cb cb',
  bytes_ok raw -> bytes_ok raw' ->
  cb_parse C raw = Ok cb -> cb_parse C raw' = Ok cb' ->
  one_byte_differs raw raw' ->
  (cb_version cb <> cb_version cb' \/ cb_parity cb <> cb_parity cb') \/
  (cb_version cb = cb_version cb' /\ cb_parity cb = cb_parity cb' /\
   xonly (cb_key cb) <> xonly (cb_key cb') /\ cb_hashes cb = cb_hashes cb') \/
  (cb_version cb = cb_version cb' /\ cb_parity cb = cb_parity cb' /\
   cb_key cb = cb_key cb' /\ one_differs (cb_hashes cb) (cb_hashes cb')).
Proof. exact tamper_byte_classes. Qed.
Print Assumptions C12_tamper_byte_classes.

(* ---- the hypotheses are satisfiable: the toy curve y^2 = x^3 + 7 over F_43 (order 31) ---- *)
Example C12_toy_tweak_consistent :
  forall (sha256 : bytes -> bytes) d root, 1 <= d <= 30 ->
  exists P e, pubkey toy d = Ok P /\ P <> None /\ even_secret toy d = Ok e /\
    ((e + from_be (tweak sha256 P root)) mod 31 <> 0 ->
       pubkey toy ((e + from_be (tweak sha256 P root)) mod 31) = tweaked_key toy sha256 P root).
Proof.
  intros sha256 d root H.
  destruct (C12_tweak_pub_priv_consistent toy sha256 toy_scalar_laws d root H) as (P & e & H1 & H2 & H3 & H4 & _).
  exists P, e. repeat split; auto. intros Hnz. exact (proj1 (proj2 (H4 Hnz))).
Qed.

(* a concrete run on the toy curve with a constant "hash": secret 3 (odd public point), tweak 9 *)
Example C12_toy_concrete :
  let sha := fun _ : bytes => [9] in
  pubkey toy 3 = Ok (Some (35, 21)) /\
  priv_tweaked_key toy sha 3 [1; 2] = Ok 6 /\
  tweaked_key toy sha (Some (35, 21)) [1; 2] = pubkey toy 6 /\ pubkey toy 6 = Ok (Some (29, 31)).
Proof. vm_compute. repeat split; reflexivity. Qed.

(* The constants written in the model are the constants of the SOURCE: coq/Generated/SrcConsts.v is regenerated
   from /repo/buidl/*.py by harness/gen_coq_consts.py on every run; the statements are spelled out in
   Proofs/ConstsTie.v (secp256k1_is_source_stmt). *)
From V Require Proofs.ConstsTie.
Theorem C12_constants_match_source : ConstsTie.secp256k1_is_source_stmt.
Proof. exact ConstsTie.secp256k1_is_source. Qed.
Print Assumptions C12_constants_match_source.
