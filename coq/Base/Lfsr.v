(* Base/Lfsr.v — the checksum "polymod" step shared by bech32 / bech32m / bc32
   (gens = GEN, k = 25, w = 5), the descriptor checksum (k = 35, w = 5) and
   SLIP39's RS1024 (k = 20, w = 10), generic in the generator list, the number
   [k] of state bits that are kept before the shift and the symbol width [w]:

       b   = c >> k
       c'  = ((c & (2^k - 1)) << w) ^ v ^ XOR { gens[i] | bit i of b is set }

   Proved here, for every generator list and all widths:
     * XOR-linearity of one step and of a whole run ([step_lxor], [run_lxor]);
     * the syndrome of an error vector is the XOR of the single-error syndromes
       [T p e] = (zero-input step)^p e ([syn_cons], [syn_shape]);
     * a boolean sweep over all error positions < B and all non-zero symbols
       which, when it evaluates to true, excludes syndrome 0 and syndrome K for
       every error pattern of weight 1 or 2 inside a window of B symbols
       ([sweep_detects]). *)
From V Require Import Base.Prelude.

Fixpoint xorl (a b : list Z) : list Z :=
  match a, b with
  | x :: a', y :: b' => Z.lxor x y :: xorl a' b'
  | _, _ => []
  end.

Definition nonzero (e : Z) : bool := negb (e =? 0).
Definition weight (es : list Z) : nat := length (filter nonzero es).

Lemma weight_cons_0 es : weight (0 :: es) = weight es.
Proof. reflexivity. Qed.

Lemma weight_cons_nz e es : e <> 0 -> weight (e :: es) = S (weight es).
Proof.
  intros H. unfold weight. cbn [filter]. unfold nonzero at 1.
  apply Z.eqb_neq in H. rewrite H. reflexivity.
Qed.

Lemma lxor_swap4 a b c d :
  Z.lxor (Z.lxor a b) (Z.lxor c d) = Z.lxor (Z.lxor a c) (Z.lxor b d).
Proof.
  rewrite !Z.lxor_assoc. f_equal. rewrite <- !Z.lxor_assoc. f_equal. apply Z.lxor_comm.
Qed.

Lemma land_lxor_distr_l a b c : Z.land (Z.lxor a b) c = Z.lxor (Z.land a c) (Z.land b c).
Proof.
  apply Z.bits_inj'. intros n _. rewrite !Z.lxor_spec, !Z.land_spec, Z.lxor_spec.
  destruct (Z.testbit a n), (Z.testbit b n), (Z.testbit c n); reflexivity.
Qed.

Lemma iter_succ_r {A} (f : A -> A) n x : Nat.iter (S n) f x = Nat.iter n f (f x).
Proof. induction n as [|n IH]; [reflexivity|]. cbn in *. now rewrite IH. Qed.

Lemma xorl_length a b : length a = length b -> length (xorl a b) = length a.
Proof.
  revert b; induction a as [|x a IH]; intros [|y b] H; cbn in *; try discriminate; auto.
Qed.

Lemma xorl_zeros_l n es : length es = n -> xorl (repeat 0 n) es = es.
Proof.
  revert n; induction es as [|e es IH]; intros [|n] H; cbn in *; try discriminate; auto.
  rewrite IH by congruence. reflexivity.
Qed.

Lemma xorl_self_inv a b : length a = length b -> xorl a (xorl a b) = b.
Proof.
  revert b; induction a as [|x a IH]; intros [|y b] H; cbn in *; try discriminate; auto.
  rewrite IH by congruence. f_equal.
  rewrite <- Z.lxor_assoc, Z.lxor_nilpotent. apply Z.lxor_0_l.
Qed.

Section Lfsr.
Variable gens : list Z.
Variable k : Z.
Variable w : Z.

Fixpoint sel (gs : list Z) (b i : Z) : Z :=
  match gs with
  | [] => 0
  | g :: r => Z.lxor (if Z.testbit b i then g else 0) (sel r b (i + 1))
  end.

Definition step (c v : Z) : Z :=
  Z.lxor (Z.lxor (Z.shiftl (Z.land c (Z.ones k)) w) v) (sel gens (Z.shiftr c k) 0).

Definition run (c : Z) (vs : list Z) : Z := fold_left step vs c.
Definition step0 (c : Z) : Z := step c 0.
Definition syn (es : list Z) : Z := run 0 es.
(* syndrome of the single error [e] followed by [p] further symbols *)
Definition T (p : nat) (e : Z) : Z := Nat.iter p step0 e.

Lemma sel_lxor gs a b i : sel gs (Z.lxor a b) i = Z.lxor (sel gs a i) (sel gs b i).
Proof.
  revert i; induction gs as [|g r IH]; intros i; cbn [sel]; [reflexivity|].
  rewrite IH, Z.lxor_spec, lxor_swap4. f_equal.
  destruct (Z.testbit a i), (Z.testbit b i); cbn;
    now rewrite ?Z.lxor_nilpotent, ?Z.lxor_0_l, ?Z.lxor_0_r.
Qed.

Lemma sel_0 gs i : sel gs 0 i = 0.
Proof.
  revert i; induction gs as [|g r IH]; intros i; cbn [sel]; [reflexivity|].
  now rewrite IH, Z.testbit_0_l.
Qed.

Lemma step_lxor a b u v : step (Z.lxor a b) (Z.lxor u v) = Z.lxor (step a u) (step b v).
Proof.
  unfold step.
  rewrite Z.shiftr_lxor, sel_lxor, land_lxor_distr_l, Z.shiftl_lxor.
  rewrite (lxor_swap4 (Z.shiftl (Z.land a (Z.ones k)) w)). apply lxor_swap4.
Qed.

Lemma step_0_0 : step 0 0 = 0.
Proof. unfold step. now rewrite Z.shiftr_0_l, sel_0, Z.land_0_l, Z.shiftl_0_l. Qed.

Lemma step_0_l e : step 0 e = e.
Proof.
  unfold step. rewrite Z.shiftr_0_l, sel_0, Z.land_0_l, Z.shiftl_0_l.
  now rewrite Z.lxor_0_l, Z.lxor_0_r.
Qed.

Lemma step_split c v : step c v = Z.lxor (step0 c) v.
Proof.
  unfold step0. rewrite <- (Z.lxor_0_r c) at 1. rewrite <- (Z.lxor_0_l v) at 1.
  rewrite step_lxor. now rewrite step_0_l.
Qed.

(* XOR-linearity of a whole run, for any length *)
Lemma run_lxor us vs a b :
  length us = length vs ->
  run (Z.lxor a b) (xorl us vs) = Z.lxor (run a us) (run b vs).
Proof.
  unfold run. revert vs a b; induction us as [|u us IH]; intros [|v vs] a b H;
    cbn in *; try discriminate; [reflexivity|].
  rewrite step_lxor. apply IH. congruence.
Qed.

(* the form used by the codecs: corrupting the symbols by [es] moves the
   checksum value by the syndrome of [es], whatever the prefix and start value *)
Lemma run_error c vs es :
  length vs = length es -> run c (xorl vs es) = Z.lxor (run c vs) (syn es).
Proof.
  intros H. unfold syn. rewrite <- (run_lxor vs es c 0 H). now rewrite Z.lxor_0_r.
Qed.

Lemma run_app c a b : run c (a ++ b) = run (run c a) b.
Proof. unfold run. apply fold_left_app. Qed.

Lemma run_zeros c n : run c (repeat 0 n) = Nat.iter n step0 c.
Proof.
  revert c; induction n as [|n IH]; intros c; [reflexivity|].
  cbn [repeat]. unfold run in *. cbn [fold_left]. rewrite IH.
  change (step c 0) with (step0 c). now rewrite <- iter_succ_r.
Qed.

Lemma iter_step0_0 n : Nat.iter n step0 0 = 0.
Proof.
  induction n as [|n IH]; [reflexivity|].
  change (Nat.iter (S n) step0 0) with (step0 (Nat.iter n step0 0)). rewrite IH. apply step_0_0.
Qed.

Lemma syn_zeros n : syn (repeat 0 n) = 0.
Proof. unfold syn. rewrite run_zeros. apply iter_step0_0. Qed.

Lemma syn_cons e es : syn (e :: es) = Z.lxor (T (length es) e) (syn es).
Proof.
  unfold syn at 1. unfold run. cbn [fold_left]. rewrite step_0_l.
  change (fold_left step es e) with (run e es).
  rewrite <- (xorl_zeros_l (length es) es eq_refl) at 1.
  rewrite <- (Z.lxor_0_r e) at 1.
  rewrite run_lxor by now rewrite repeat_length.
  now rewrite run_zeros.
Qed.

Lemma T_0_r p : T p 0 = 0.
Proof. apply iter_step0_0. Qed.

(* ---- shape of the syndrome of an error vector of weight <= 2 ---- *)

Definition sym_ok (e : Z) : Prop := 0 <= e < 2 ^ w.

Lemma syn_shape es :
  Forall sym_ok es ->
  (weight es = 0%nat -> syn es = 0) /\
  (weight es = 1%nat ->
     exists p e, (p < length es)%nat /\ 1 <= e < 2 ^ w /\ syn es = T p e) /\
  (weight es = 2%nat ->
     exists p1 e1 p2 e2, (p2 < p1 < length es)%nat /\ 1 <= e1 < 2 ^ w /\ 1 <= e2 < 2 ^ w /\
       syn es = Z.lxor (T p1 e1) (T p2 e2)).
Proof.
  induction es as [|e es IH]; intros HF.
  - split; [reflexivity|]. split; intros H; discriminate.
  - inversion HF as [|? ? He HF']; subst. specialize (IH HF') as [I0 [I1 I2]].
    destruct (Z.eq_dec e 0) as [E|E].
    + subst e. rewrite weight_cons_0, syn_cons, T_0_r, Z.lxor_0_l.
      split; [exact I0|]. split.
      * intros H. destruct (I1 H) as [p [e [Hp [He' Hs]]]]. exists p, e. cbn [length].
        split; [lia|]. split; [exact He'|exact Hs].
      * intros H. destruct (I2 H) as [p1 [e1 [p2 [e2 [Hp [H1 [H2 Hs]]]]]]].
        exists p1, e1, p2, e2. cbn [length].
        split; [lia|]. split; [exact H1|]. split; [exact H2|exact Hs].
    + unfold sym_ok in He. rewrite (weight_cons_nz e es E). cbn [length]. rewrite syn_cons.
      split; [intros H; discriminate|]. split.
      * intros H. injection H as H. rewrite (I0 H), Z.lxor_0_r.
        exists (length es), e. split; [lia|]. split; [lia|reflexivity].
      * intros H. injection H as H. destruct (I1 H) as [p [e' [Hp [He' Hs]]]].
        exists (length es), e, p, e'. rewrite Hs.
        split; [lia|]. split; [lia|]. split; [exact He'|reflexivity].
Qed.

(* ---- the finite sweep ---- *)

Definition bad (K x : Z) : bool := (x =? 0) || (x =? K).

Definition syms : list Z := map Z.of_nat (seq 1 (Z.to_nat (2 ^ w) - 1)).

Definition sweep (B : nat) (K : Z) : bool :=
  let rows := map (fun p => (p, map (T p) syms)) (seq 0 B) in
  forallb (fun r1 =>
    forallb (fun x =>
      negb (bad K x) &&
      forallb (fun r2 =>
        if (fst r2 <? fst r1)%nat
        then forallb (fun y => negb (bad K (Z.lxor x y))) (snd r2)
        else true) rows) (snd r1)) rows.

Lemma in_syms e : 1 <= e < 2 ^ w -> In e syms.
Proof.
  intros H. unfold syms. apply in_map_iff. exists (Z.to_nat e). split; [lia|].
  apply in_seq. lia.
Qed.

Lemma sweep_spec B K :
  sweep B K = true ->
  forall p1 e1, (p1 < B)%nat -> 1 <= e1 < 2 ^ w ->
    bad K (T p1 e1) = false /\
    forall p2 e2, (p2 < p1)%nat -> 1 <= e2 < 2 ^ w ->
      bad K (Z.lxor (T p1 e1) (T p2 e2)) = false.
Proof.
  unfold sweep. intros HS p1 e1 Hp1 He1.
  rewrite forallb_forall in HS.
  assert (R1 : In (p1, map (T p1) syms) (map (fun p => (p, map (T p) syms)) (seq 0 B))).
  { apply in_map_iff. exists p1. split; [reflexivity|]. apply in_seq. lia. }
  specialize (HS _ R1). cbn [fst snd] in HS. rewrite forallb_forall in HS.
  specialize (HS (T p1 e1) (in_map _ _ _ (in_syms e1 He1))).
  apply andb_true_iff in HS as [HA HB]. split.
  - now apply negb_true_iff in HA.
  - intros p2 e2 Hp2 He2. rewrite forallb_forall in HB.
    assert (R2 : In (p2, map (T p2) syms) (map (fun p => (p, map (T p) syms)) (seq 0 B))).
    { apply in_map_iff. exists p2. split; [reflexivity|]. apply in_seq. lia. }
    specialize (HB _ R2). cbn [fst snd] in HB.
    destruct (p2 <? p1)%nat eqn:E; [|apply Nat.ltb_ge in E; lia].
    rewrite forallb_forall in HB.
    specialize (HB (T p2 e2) (in_map _ _ _ (in_syms e2 He2))).
    now apply negb_true_iff in HB.
Qed.

(* Every error pattern of weight 1 or 2 inside a window of at most B symbols has a
   syndrome different from 0 and from K. *)
Theorem sweep_detects B K :
  sweep B K = true ->
  forall es, (length es <= B)%nat -> Forall sym_ok es ->
    (1 <= weight es <= 2)%nat -> syn es <> 0 /\ syn es <> K.
Proof.
  intros HS es HL HF HW.
  pose proof (sweep_spec B K HS) as SP.
  destruct (syn_shape es HF) as [_ [S1 S2]].
  assert (HB : bad K (syn es) = false).
  { destruct (Nat.eq_dec (weight es) 1) as [W1|W1].
    - destruct (S1 W1) as [p [e [Hp [He Hs]]]]. rewrite Hs.
      apply (SP p e); [lia|exact He].
    - assert (W2 : weight es = 2%nat) by lia.
      destruct (S2 W2) as [p1 [e1 [p2 [e2 [Hp [H1 [H2 Hs]]]]]]]. rewrite Hs.
      destruct (SP p1 e1) as [_ SP2]; [lia|exact H1|]. apply SP2; [lia|exact H2]. }
  unfold bad in HB. apply orb_false_iff in HB as [A B0].
  apply Z.eqb_neq in A. apply Z.eqb_neq in B0. split; assumption.
Qed.

End Lfsr.
