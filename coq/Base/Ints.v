(* Base/Ints.v — int.to_bytes / int.from_bytes (little and big endian). *)
From V Require Import Base.Prelude.

(* n.to_bytes(len, "little") without the range check *)
Fixpoint to_le (len : nat) (n : Z) : bytes :=
  match len with
  | O => []
  | S k => (n mod 256) :: to_le k (n / 256)
  end.

Fixpoint from_le (l : bytes) : Z :=
  match l with
  | [] => 0
  | b :: r => b + 256 * from_le r
  end.

Definition pow256 (len : nat) : Z := 256 ^ Z.of_nat len.

(* Python: n.to_bytes(len, "little") raises OverflowError outside [0, 256^len) *)
Definition int_to_le (n : Z) (len : nat) : result bytes :=
  if (0 <=? n) && (n <? pow256 len) then Ok (to_le len n) else Err.
Definition int_to_be (n : Z) (len : nat) : result bytes :=
  if (0 <=? n) && (n <? pow256 len) then Ok (rev (to_le len n)) else Err.
Definition to_be (len : nat) (n : Z) : bytes := rev (to_le len n).
Definition from_be (l : bytes) : Z := from_le (rev l).

(* ------------------------------------------------------------------ *)

Lemma pow256_S len : pow256 (S len) = 256 * pow256 len.
Proof. unfold pow256. rewrite Nat2Z.inj_succ, Z.pow_succ_r; lia. Qed.

Lemma pow256_pos len : 0 < pow256 len.
Proof. unfold pow256. apply Z.pow_pos_nonneg; lia. Qed.

Lemma to_le_length len n : length (to_le len n) = len.
Proof. revert n; induction len as [|k IH]; intros n; cbn; [reflexivity|]. now rewrite IH. Qed.

Lemma to_le_ok len n : bytes_ok (to_le len n).
Proof.
  revert n; induction len as [|k IH]; intros n; cbn; constructor.
  - unfold byte_ok. apply Z.mod_pos_bound. lia.
  - apply IH.
Qed.

Lemma from_le_to_le_mod len n : from_le (to_le len n) = n mod pow256 len.
Proof.
  revert n; induction len as [|k IH]; intros n.
  - cbn. unfold pow256. cbn. now rewrite Z.mod_1_r.
  - cbn [to_le from_le]. rewrite IH, pow256_S.
    rewrite (Z.rem_mul_r n 256 (pow256 k)); [lia | lia | apply pow256_pos].
Qed.

Lemma from_le_to_le len n : 0 <= n < pow256 len -> from_le (to_le len n) = n.
Proof. intros H. rewrite from_le_to_le_mod. now apply Z.mod_small. Qed.

Lemma from_le_bound l : bytes_ok l -> 0 <= from_le l < pow256 (length l).
Proof.
  induction l as [|b r IH]; intros H.
  - cbn. unfold pow256. cbn. lia.
  - inversion H as [|? ? Hb Hr]; subst. specialize (IH Hr). unfold byte_ok in Hb.
    cbn [from_le length]. rewrite pow256_S. lia.
Qed.

Lemma to_le_from_le l : bytes_ok l -> to_le (length l) (from_le l) = l.
Proof.
  induction l as [|b r IH]; intros H; [reflexivity|].
  inversion H as [|? ? Hb Hr]; subst. unfold byte_ok in Hb.
  cbn [length from_le to_le]. f_equal.
  - replace (b + 256 * from_le r) with (b + from_le r * 256) by lia.
    rewrite Z.mod_add by lia. now apply Z.mod_small.
  - replace (b + 256 * from_le r) with (b + from_le r * 256) by lia.
    rewrite Z.div_add by lia. rewrite Z.div_small by lia. cbn. now apply IH.
Qed.

Lemma to_le_from_le_n n l : length l = n -> bytes_ok l -> to_le n (from_le l) = l.
Proof. intros <-. apply to_le_from_le. Qed.

Lemma to_le_inj len a b :
  0 <= a < pow256 len -> 0 <= b < pow256 len -> to_le len a = to_le len b -> a = b.
Proof.
  intros Ha Hb E. rewrite <- (from_le_to_le len a Ha), <- (from_le_to_le len b Hb). now rewrite E.
Qed.

Lemma int_to_le_ok n len : 0 <= n < pow256 len -> int_to_le n len = Ok (to_le len n).
Proof.
  intros H. unfold int_to_le.
  destruct (0 <=? n) eqn:E1; destruct (n <? pow256 len) eqn:E2; cbn; try reflexivity; lia.
Qed.

Lemma int_to_le_err n len : ~ (0 <= n < pow256 len) -> int_to_le n len = Err.
Proof.
  intros H. unfold int_to_le.
  destruct (0 <=? n) eqn:E1; destruct (n <? pow256 len) eqn:E2; cbn; try reflexivity; lia.
Qed.

Lemma int_to_le_inv n len b : int_to_le n len = Ok b -> 0 <= n < pow256 len /\ b = to_le len n.
Proof.
  unfold int_to_le.
  destruct (0 <=? n) eqn:E1; destruct (n <? pow256 len) eqn:E2; cbn; intros H; inversion H.
  split; [lia | reflexivity].
Qed.

Lemma from_be_to_be len n : 0 <= n < pow256 len -> from_be (to_be len n) = n.
Proof. intros H. unfold from_be, to_be. rewrite rev_involutive. now apply from_le_to_le. Qed.

Lemma to_be_from_be l : bytes_ok l -> to_be (length l) (from_be l) = l.
Proof.
  intros H. unfold from_be, to_be. rewrite <- (rev_length l).
  rewrite to_le_from_le by now apply bytes_ok_rev. apply rev_involutive.
Qed.

Lemma to_be_length len n : length (to_be len n) = len.
Proof. unfold to_be. now rewrite rev_length, to_le_length. Qed.

Lemma to_be_ok len n : bytes_ok (to_be len n).
Proof. unfold to_be. apply bytes_ok_rev, to_le_ok. Qed.

Lemma pow256_1 : pow256 1 = 256. Proof. reflexivity. Qed.
Lemma pow256_2 : pow256 2 = 65536. Proof. reflexivity. Qed.
Lemma pow256_4 : pow256 4 = 4294967296. Proof. reflexivity. Qed.
Lemma pow256_8 : pow256 8 = 18446744073709551616. Proof. reflexivity. Qed.
