(* Base/Disp.v — helpers for the per-property dispatchers (glue between the line
   protocol / vm_compute cases and the model functions). *)
From Coq Require Import String Ascii.
From V Require Import Base.Prelude.

Definition s2z (s : string) : list Z :=
  map (fun c => Z.of_N (N_of_ascii c)) (list_ascii_of_string s).

Definition fn_is (name : string) (fn : list Z) : bool := beq (s2z name) fn.

(* instantiate the usual hashes from the oracle *)
Definition o_sha256 (H : oracle) (x : bytes) : bytes := H 0 [x].
Definition o_sha1 (H : oracle) (x : bytes) : bytes := H 1 [x].
Definition o_ripemd160 (H : oracle) (x : bytes) : bytes := H 2 [x].
Definition o_sha512 (H : oracle) (x : bytes) : bytes := H 3 [x].
Definition o_hmac_sha256 (H : oracle) (k m : bytes) : bytes := H 4 [k; m].
Definition o_hmac_sha512 (H : oracle) (k m : bytes) : bytes := H 5 [k; m].
Definition o_hash256 (H : oracle) (x : bytes) : bytes := H 0 [H 0 [x]].
Definition o_hash160 (H : oracle) (x : bytes) : bytes := H 2 [H 0 [x]].

Definition vpair (a b : val) : val := VL [a; b].
Definition vbl (l : list bytes) : val := VL (map VB l).
Definition vil (l : list Z) : val := VL (map VI l).

Fixpoint vals_bytes (l : list val) : option (list bytes) :=
  match l with
  | [] => Some []
  | VB b :: r => match vals_bytes r with Some t => Some (b :: t) | None => None end
  | _ => None
  end.
Fixpoint vals_ints (l : list val) : option (list Z) :=
  match l with
  | [] => Some []
  | VI z :: r => match vals_ints r with Some t => Some (z :: t) | None => None end
  | _ => None
  end.

(* VL [VErr] marks "bad arguments": a harness bug, never a model result *)
Definition bad_args : val := VL [VErr; VErr].
