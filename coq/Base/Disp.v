(* Base/Disp.v — helpers for the per-property dispatchers (glue between the line
   protocol / vm_compute cases and the model functions). *)
From Coq Require Import String Ascii.
From V Require Import Base.Prelude.

Definition s2z (s : string) : list Z :=
  map (fun c => Z.of_N (N_of_ascii c)) (list_ascii_of_string s).

Definition fn_is (name : string) (fn : list Z) : bool := beq (s2z name) fn.

(* instantiate the usual hashes from the oracle *)
Definition o_sha256 (H : oracle) (x : bytes) : bytes := H 0 [x].
Definition o_sha1 (H : oracle) (x : bytes) : bytes := H 1 [x].
Definition o_ripemd160 (H : oracle) (x : bytes) : bytes := H 2 [x].
Definition o_sha512 (H : oracle) (x : bytes) : bytes := H 3 [x].
Definition o_hmac_sha256 (H : oracle) (k m : bytes) : bytes := H 4 [k; m].
Definition o_hmac_sha512 (H : oracle) (k m : bytes) : bytes := H 5 [k; m].
Definition o_hash256 (H : oracle) (x : bytes) : bytes := H 0 [H 0 [x]].
Definition o_hash160 (H : oracle) (x : bytes) : bytes := H 2 [H 0 [x]].

Definition vpair (a b : val) : val := VL [a; b].
Definition vbl (l : list bytes) : val := VL (map VB l).
Definition vil (l : list Z) : val := VL (map VI l).

Fixpoint vals_bytes (l : list val) : option (list bytes) :=
  match l with
  | [] => Some []
  | VB b :: r => match vals_bytes r with Some t => Some (b :: t) | None => None end
  | _ => None
  end.
Fixpoint vals_ints (l : list val) : option (list Z) :=
  match l with
  | [] => Some []
  | VI z :: r => match vals_ints r with Some t => Some (z :: t) | None => None end
  | _ => None
  end.

(* marks "bad arguments": a harness bug, never a model result.  The marker carries the bytes of "bad-args"
   between two errors so that it cannot coincide with a result list of two failed queries. *)
Definition bad_args : val := VL [VErr; VB [98; 97; 100; 45; 97; 114; 103; 115]; VErr].

(* ---- used by the extraction self-check (cases evaluated with vm_compute inside Coq) ---- *)
Fixpoint val_eqb (a b : val) : bool :=
  match a, b with
  | VI x, VI y => x =? y
  | VB x, VB y => beq x y
  | VErr, VErr => true
  | VL x, VL y =>
      (fix go (l1 l2 : list val) : bool :=
         match l1, l2 with
         | [], [] => true
         | u :: l1', v :: l2' => val_eqb u v && go l1' l2'
         | _, _ => false
         end) x y
  | _, _ => false
  end.

Fixpoint bl_eqb (a b : list bytes) : bool :=
  match a, b with
  | [], [] => true
  | x :: a', y :: b' => beq x y && bl_eqb a' b'
  | _, _ => false
  end.

(* an oracle given by the transcript of the calls the extracted driver made *)
Fixpoint table_oracle (tbl : list (Z * list bytes * bytes)) : oracle :=
  fun alg args =>
    match tbl with
    | [] => []
    | (a, ar, r) :: rest => if (a =? alg) && bl_eqb ar args then r else table_oracle rest alg args
    end.
