(* Base/Prelude.v — shared conventions: bytes, results, streams, the universal
   value type used by the dispatchers.  Definitions only (plus trivial facts). *)
From Coq Require Export ZArith List Bool Lia.
Export ListNotations.
Open Scope Z_scope.

Notation bytes := (list Z) (only parsing).

Inductive result (A : Type) : Type :=
| Ok (a : A)
| Err.
Arguments Ok {A} a.
Arguments Err {A}.

Definition bind {A B} (r : result A) (f : A -> result B) : result B :=
  match r with Ok a => f a | Err => Err end.
Notation "x <- e ;; f" := (bind e (fun x => f))
  (at level 61, e at next level, right associativity).
Notation "' p <- e ;; f" := (bind e (fun x => let p := x in f))
  (at level 61, p pattern, e at next level, right associativity).

Definition byte_ok (b : Z) : Prop := 0 <= b < 256.
Definition bytes_ok (l : bytes) : Prop := Forall byte_ok l.
Definition byte_okb (b : Z) : bool := (0 <=? b) && (b <? 256).
Definition bytes_okb (l : bytes) : bool := forallb byte_okb l.

(* equality on byte strings *)
Fixpoint beq (a b : bytes) : bool :=
  match a, b with
  | [], [] => true
  | x :: a', y :: b' => (x =? y) && beq a' b'
  | _, _ => false
  end.

(* BytesIO.read(n): silent short read *)
Definition read (n : nat) (s : bytes) : bytes * bytes := (firstn n s, skipn n s).

Definition zlen {A} (l : list A) : Z := Z.of_nat (length l).

Fixpoint repeatz (x : Z) (n : nat) : bytes :=
  match n with O => [] | S k => x :: repeatz x k end.

(* Universal value type for the line protocol / vm_compute cases *)
Inductive val : Type :=
| VI (z : Z)
| VB (b : bytes)
| VL (l : list val)
| VErr.

Definition vbool (b : bool) : val := VI (if b then 1 else 0).
Definition vres_b (r : result bytes) : val := match r with Ok b => VB b | Err => VErr end.
Definition vres_i (r : result Z) : val := match r with Ok z => VI z | Err => VErr end.
Definition vres_bool (r : result bool) : val := match r with Ok b => vbool b | Err => VErr end.
Definition vres {A} (f : A -> val) (r : result A) : val :=
  match r with Ok a => f a | Err => VErr end.
Definition vopt {A} (f : A -> val) (o : option A) : val :=
  match o with Some a => VL [f a] | None => VL [] end.

(* Hash oracle: algorithm number, argument list -> bytes.
   0 sha256, 1 sha1, 2 ripemd160, 3 sha512, 4 hmac_sha256 [key;msg],
   5 hmac_sha512 [key;msg], 6 hmac_sha1 [key;msg] *)
Definition oracle := Z -> list bytes -> bytes.

Lemma beq_refl a : beq a a = true.
Proof. induction a as [|x a IH]; cbn; [reflexivity|]. now rewrite Z.eqb_refl, IH. Qed.

Lemma beq_eq a b : beq a b = true <-> a = b.
Proof.
  split.
  - revert b; induction a as [|x a IH]; intros [|y b] H; cbn in H; try discriminate; [reflexivity|].
    apply andb_true_iff in H as [H1 H2]. apply Z.eqb_eq in H1. subst. f_equal. now apply IH.
  - intros ->. apply beq_refl.
Qed.

Lemma beq_neq a b : beq a b = false <-> a <> b.
Proof.
  split; intros H.
  - intros E. apply beq_eq in E. congruence.
  - destruct (beq a b) eqn:E; [|reflexivity]. apply beq_eq in E. contradiction.
Qed.

Lemma bytes_okb_ok l : bytes_okb l = true <-> bytes_ok l.
Proof.
  unfold bytes_okb, bytes_ok. rewrite forallb_forall, Forall_forall.
  split; intros H x Hx; specialize (H x Hx); unfold byte_okb, byte_ok in *; lia.
Qed.

Lemma bytes_ok_app a b : bytes_ok (a ++ b) <-> bytes_ok a /\ bytes_ok b.
Proof. unfold bytes_ok. apply Forall_app. Qed.

Lemma bytes_ok_firstn n l : bytes_ok l -> bytes_ok (firstn n l).
Proof.
  unfold bytes_ok. rewrite !Forall_forall. intros H x Hx. apply H.
  rewrite <- (firstn_skipn n l). apply in_or_app. now left.
Qed.

Lemma bytes_ok_skipn n l : bytes_ok l -> bytes_ok (skipn n l).
Proof.
  unfold bytes_ok. rewrite !Forall_forall. intros H x Hx. apply H.
  rewrite <- (firstn_skipn n l). apply in_or_app. now right.
Qed.

Lemma bytes_ok_rev l : bytes_ok l -> bytes_ok (rev l).
Proof. unfold bytes_ok. apply Forall_rev. Qed.

Lemma repeatz_length x n : length (repeatz x n) = n.
Proof. induction n; cbn; congruence. Qed.

Lemma bytes_ok_repeatz x n : byte_ok x -> bytes_ok (repeatz x n).
Proof. intros H. induction n; cbn; constructor; auto. Qed.

Lemma read_app n a b : length a = n -> read n (a ++ b) = (a, b).
Proof.
  intros <-. unfold read. f_equal.
  - rewrite firstn_app, Nat.sub_diag, firstn_all. cbn. apply app_nil_r.
  - rewrite skipn_app, Nat.sub_diag, skipn_all. reflexivity.
Qed.
