(* Base/Fermat.v — the meaning of [modpow] (Python pow(b, e, m)) and Fermat's little theorem
   for [Znumtheory.prime], from the standard library only (closed under the global context).
   Consequences used by the curve/protocol proofs: the Fermat inverse b^(m-2) is the
   inverse modulo a prime, inverses are unique, and c^((p+1)/4) is a square root of every
   square when p = 3 (mod 4). *)
From Coq Require Import ZArith Znumtheory Zpow_facts Lia List Permutation.
From V Require Import Base.Prelude Model.Pecc.
Import ListNotations.
Open Scope Z_scope.

(* ------------------------------------------------------------------ modpow *)

Lemma modpow_pos_spec b e m : 0 < m -> modpow_pos b e m = (b ^ Zpos e) mod m.
Proof.
  intros Hm. induction e as [e IH|e IH|]; cbn [modpow_pos].
  - rewrite IH. rewrite Pos2Z.inj_xI.
    replace (2 * Z.pos e + 1) with (Z.pos e + Z.pos e + 1) by lia.
    rewrite !Z.pow_add_r by lia. rewrite Z.pow_1_r.
    rewrite <- Zmult_mod. rewrite Zmult_mod_idemp_l. reflexivity.
  - rewrite IH. rewrite Pos2Z.inj_xO.
    replace (2 * Z.pos e) with (Z.pos e + Z.pos e) by lia.
    rewrite Z.pow_add_r by lia. rewrite <- Zmult_mod. reflexivity.
  - rewrite Z.pow_1_r. reflexivity.
Qed.

Lemma modpow_spec b e m : 0 <= e -> 0 < m -> modpow b e m = (b ^ e) mod m.
Proof.
  intros He Hm. destruct e as [|e|e]; cbn [modpow].
  - reflexivity.
  - apply modpow_pos_spec; assumption.
  - lia.
Qed.

Lemma modpow_range b e m : 0 <= e -> 0 < m -> 0 <= modpow b e m < m.
Proof. intros He Hm. rewrite modpow_spec by assumption. apply Z.mod_pos_bound; assumption. Qed.

Lemma modpow_mod_base b e m : 0 <= e -> 0 < m -> modpow (b mod m) e m = modpow b e m.
Proof.
  intros He Hm. rewrite !modpow_spec by assumption.
  symmetry. apply Zpower_mod. lia.
Qed.

(* ------------------------------------------------------------------ products *)

Fixpoint prodZ (l : list Z) : Z := match l with [] => 1 | x :: r => x * prodZ r end.

Lemma prodZ_perm l l' : Permutation l l' -> prodZ l = prodZ l'.
Proof. induction 1; cbn [prodZ]; lia. Qed.

Lemma prodZ_map_scale a m l : 0 < m ->
  prodZ (map (fun x => (a * x) mod m) l) mod m = (a ^ Z.of_nat (length l) * prodZ l) mod m.
Proof.
  intros Hm. induction l as [|x l IH].
  - reflexivity.
  - cbn [map prodZ length]. rewrite Nat2Z.inj_succ, Z.pow_succ_r by lia.
    rewrite Zmult_mod, IH, <- Zmult_mod, Zmult_mod_idemp_l.
    f_equal. ring.
Qed.

Lemma prime_not_div_prod p l : prime p -> (forall x, In x l -> ~ (p | x)) -> ~ (p | prodZ l).
Proof.
  intros Hp. induction l as [|x l IH]; intros H D; cbn [prodZ] in D.
  - apply Z.divide_1_r in D. destruct Hp as [H1 _]. lia.
  - apply prime_mult in D; [|assumption]. destruct D as [D|D].
    + apply (H x); [now left|assumption].
    + apply IH; [|assumption]. intros y Hy. apply H. now right.
Qed.

(* ------------------------------------------------------------------ Fermat *)

Definition range1 (n : nat) : list Z := map Z.of_nat (seq 1 n).

Lemma range1_in n x : In x (range1 n) <-> 1 <= x <= Z.of_nat n.
Proof.
  unfold range1. rewrite in_map_iff. split.
  - intros [k [<- Hk]]. apply in_seq in Hk. lia.
  - intros H. exists (Z.to_nat x). split; [lia|]. apply in_seq. lia.
Qed.

Lemma range1_nodup n : NoDup (range1 n).
Proof.
  unfold range1. apply FinFun.Injective_map_NoDup; [|apply seq_NoDup].
  intros a b H. lia.
Qed.

Lemma range1_length n : length (range1 n) = n.
Proof. unfold range1. now rewrite map_length, seq_length. Qed.

Lemma not_div_small p x : 0 < p -> 1 <= x < p -> ~ (p | x).
Proof.
  intros Hp Hx D. apply Z.mod_divide in D; [|lia]. rewrite Z.mod_small in D; lia.
Qed.

Lemma NoDup_map_inj_on {A B} (f : A -> B) l :
  (forall x y, In x l -> In y l -> f x = f y -> x = y) -> NoDup l -> NoDup (map f l).
Proof.
  intros Hinj Hnd. induction Hnd as [|x l Hx Hnd IH]; cbn [map]; constructor.
  - intros Hin. apply in_map_iff in Hin as [y [Hy Hyl]].
    assert (y = x) by (apply Hinj; [now right|now left|assumption]). subst. contradiction.
  - apply IH. intros a b Ha Hb. apply Hinj; now right.
Qed.

Theorem fermat_little p a : prime p -> a mod p <> 0 -> (a ^ (p - 1)) mod p = 1.
Proof.
  intros Hp Ha.
  assert (Hp1 : 1 < p) by (destruct Hp; assumption).
  assert (Hnda : ~ (p | a)) by (intros D; apply Z.mod_divide in D; lia).
  set (n := Z.to_nat (p - 1)).
  set (L := range1 n).
  set (f := fun x => (a * x) mod p).
  assert (HinL : forall x, In x L <-> 1 <= x < p).
  { intros x. unfold L. rewrite range1_in. unfold n. lia. }
  assert (Hf_in : forall x, In x L -> In (f x) L).
  { intros x Hx. apply HinL in Hx. apply HinL. unfold f.
    pose proof (Z.mod_pos_bound (a * x) p ltac:(lia)) as Hb.
    assert ((a * x) mod p <> 0).
    { intros E. apply Z.mod_divide in E; [|lia]. apply prime_mult in E; [|assumption].
      destruct E as [E|E]; [contradiction|]. revert E. apply not_div_small; lia. }
    lia. }
  assert (Hf_inj : forall x y, In x L -> In y L -> f x = f y -> x = y).
  { intros x y Hx Hy E. apply HinL in Hx. apply HinL in Hy. unfold f in E.
    assert (D : (p | a * (x - y))).
    { apply Z.mod_divide; [lia|]. rewrite Z.mul_sub_distr_l, Zminus_mod, E, Z.sub_diag.
      apply Z.mod_0_l. lia. }
    apply prime_mult in D; [|assumption]. destruct D as [D|D]; [contradiction|].
    destruct (Z.eq_dec x y) as [|Hne]; [assumption|exfalso].
    destruct (Z_lt_le_dec y x).
    - revert D. apply not_div_small; lia.
    - apply Z.divide_opp_r in D. revert D. apply not_div_small; lia. }
  assert (Hperm : Permutation (map f L) L).
  { apply NoDup_Permutation_bis.
    - apply NoDup_map_inj_on; [assumption|apply range1_nodup].
    - rewrite map_length. lia.
    - intros y Hy. apply in_map_iff in Hy as [x [<- Hx]]. now apply Hf_in. }
  pose proof (prodZ_map_scale a p L ltac:(lia)) as Hs.
  fold f in Hs. rewrite (prodZ_perm _ _ Hperm) in Hs.
  unfold L in Hs at 2. rewrite range1_length in Hs. unfold n in Hs.
  rewrite Z2Nat.id in Hs by lia. fold L in Hs.
  assert (D : (p | (a ^ (p - 1) - 1) * prodZ L)).
  { apply Z.mod_divide; [lia|]. rewrite Z.mul_sub_distr_r, Z.mul_1_l, Zminus_mod, <- Hs, Z.sub_diag.
    apply Z.mod_0_l. lia. }
  apply prime_mult in D; [|assumption]. destruct D as [D|D].
  - apply Z.mod_divide in D; [|lia].
    replace (a ^ (p - 1)) with ((a ^ (p - 1) - 1) + 1) by ring.
    rewrite Zplus_mod, D, Z.add_0_l, Z.mod_mod by lia. apply Z.mod_small. lia.
  - exfalso. revert D. apply prime_not_div_prod; [assumption|].
    intros x Hx. apply HinL in Hx. apply not_div_small; lia.
Qed.

(* ------------------------------------------------------------------ inverses *)

Theorem fermat_inv n a : prime n -> a mod n <> 0 -> (a * modpow a (n - 2) n) mod n = 1.
Proof.
  intros Hp Ha. assert (1 < n) by (destruct Hp; assumption).
  assert (n = 2 \/ 2 < n) as [->|Hn] by lia.
  - cbn [Z.sub Z.add Z.opp Z.pos_sub modpow]. cbn.
    pose proof (Z.mod_pos_bound a 2 ltac:(lia)).
    rewrite Zmult_mod, (Z.mod_small 1 2) by lia. rewrite Z.mul_1_r, Z.mod_mod by lia. lia.
  - rewrite modpow_spec by lia. rewrite Zmult_mod_idemp_r.
    rewrite <- Z.pow_succ_r by lia. replace (Z.succ (n - 2)) with (n - 1) by lia.
    apply fermat_little; assumption.
Qed.

Corollary fermat_inv_range n a : prime n -> 0 < a < n -> (a * modpow a (n - 2) n) mod n = 1.
Proof. intros Hp Ha. apply fermat_inv; [assumption|]. rewrite Z.mod_small; lia. Qed.

(* inverses modulo m are unique modulo m *)
Lemma inv_unique m a w1 w2 : 0 < m ->
  (a * w1) mod m = 1 -> (a * w2) mod m = 1 -> w1 mod m = w2 mod m.
Proof.
  intros Hm H1 H2.
  assert (1 < m).
  { destruct (Z.eq_dec m 1) as [->|]; [|lia]. rewrite Z.mod_1_r in H1. lia. }
  assert (E1 : w1 mod m = (w1 * (a * w2)) mod m).
  { rewrite Zmult_mod, H2, Z.mul_1_r, Z.mod_mod by lia. reflexivity. }
  assert (E2 : w2 mod m = (w2 * (a * w1)) mod m).
  { rewrite Zmult_mod, H1, Z.mul_1_r, Z.mod_mod by lia. reflexivity. }
  rewrite E1, E2. f_equal. ring.
Qed.

(* ------------------------------------------------------------------ square roots, p = 3 mod 4 *)

Theorem sqrt_p34 p y : prime p -> p mod 4 = 3 ->
  let c := (y * y) mod p in
  let s := modpow c ((p + 1) / 4) p in
  (s * s) mod p = c.
Proof.
  intros Hp H34 c s.
  assert (Hp1 : 1 < p) by (destruct Hp; assumption).
  assert (Hq : p = 4 * (p / 4) + 3) by (rewrite <- H34; apply Z_div_mod_eq_full).
  set (q := p / 4) in *. assert (0 <= q) by lia.
  assert (He : (p + 1) / 4 = q + 1).
  { replace (p + 1) with ((q + 1) * 4) by lia. apply Z.div_mul. lia. }
  unfold s. rewrite He. rewrite modpow_spec by lia. rewrite <- Zmult_mod.
  rewrite <- Z.pow_add_r by lia. unfold c.
  rewrite <- Zpower_mod by lia. rewrite <- Z.pow_2_r, <- Z.pow_mul_r by lia.
  destruct (Z.eq_dec (y mod p) 0) as [E0|Hne].
  - rewrite Zpower_mod, E0 by lia. rewrite (Zpower_mod y 2), E0 by lia.
    rewrite !Z.pow_0_l by lia. reflexivity.
  - replace (2 * (q + 1 + (q + 1))) with ((p - 1) + 2) by lia.
    rewrite Z.pow_add_r by lia. rewrite Zmult_mod, fermat_little by assumption.
    rewrite Z.mul_1_l, Z.mod_mod by lia. reflexivity.
Qed.
